#!/usr/bin/env python3
"""Run the registered checks against the seeded changes in /verif/seeded/<id>/patch.diff.

Default mode (--scratch, used while other work goes on in /repo): a scratch worktree of /repo's
HEAD is created under /tmp, the patch is applied THERE, and check.py runs with VERIF_REPO pointing
at it (the harness workspace is copied with its path dependencies rewritten; evidence and replays
go to a scratch directory, the committed evidence is not touched).
--inplace applies the patch to /repo itself (git -C /repo apply), runs the check and undoes it
(git -C /repo checkout -- .), exactly as a user of the registered commands would.

usage: tools/run_seeded.py [--inplace] [--cleanup] [id ...]     (writes seeded/RESULTS.json)"""
import json, os, shutil, subprocess, sys, time
VERIF = os.path.dirname(os.path.dirname(os.path.abspath(__file__)))
SEEDED = os.path.join(VERIF, "seeded")
WT, WS, TG, OUT = "/tmp/seed-wt", "/tmp/seed-ws", "/tmp/seed-target", "/tmp/seed-out"
inplace = "--inplace" in sys.argv
args = [a for a in sys.argv[1:] if not a.startswith("--")]

def sh(cmd, **kw):
    return subprocess.run(cmd, capture_output=True, text=True, **kw)

if "--cleanup" in sys.argv:
    sh(["git", "-C", "/repo", "worktree", "remove", "--force", WT]); sh(["git", "-C", "/repo", "worktree", "prune"])
    for d in (WS, TG, OUT, WT): shutil.rmtree(d, ignore_errors=True)
    print("removed scratch dirs")
    if not args: sys.exit(0)

ids = args or sorted(d for d in os.listdir(SEEDED) if os.path.isdir(os.path.join(SEEDED, d)))
res_path = os.path.join(SEEDED, "RESULTS.json")
results = json.load(open(res_path)) if os.path.exists(res_path) else {}
env = dict(os.environ)
if inplace:
    repo = "/repo"
else:
    repo = WT
    head = sh(["git", "-C", "/repo", "rev-parse", "HEAD"]).stdout.strip()
    if not os.path.isdir(WT):
        r = sh(["git", "-C", "/repo", "worktree", "add", "--detach", WT, head])
        if r.returncode: print(r.stderr); sys.exit(2)
    else:
        sh(["git", "-C", WT, "checkout", "--", "."]); sh(["git", "-C", WT, "checkout", "-q", "--detach", head])
    # harness workspace copy with the path dependencies pointing at the scratch worktree
    shutil.rmtree(WS, ignore_errors=True)
    shutil.copytree(os.path.join(VERIF, "harness", "bin"), WS, ignore=shutil.ignore_patterns("target"))
    ct = os.path.join(WS, "Cargo.toml")
    txt = open(ct).read().replace('"/repo/', '"%s/' % WT)
    open(ct, "w").write(txt)
    os.makedirs(OUT, exist_ok=True)
    env.update(VERIF_REPO=WT, VERIF_HARNESS_WS=WS, VERIF_TARGET=TG, VERIF_EVIDENCE=os.path.join(OUT, "evidence"),
               VERIF_REPLAYS=os.path.join(OUT, "replays"))
    os.makedirs(env["VERIF_EVIDENCE"], exist_ok=True); os.makedirs(env["VERIF_REPLAYS"], exist_ok=True)

for sid in ids:
    d = os.path.join(SEEDED, sid)
    meta = json.load(open(os.path.join(d, "meta.json")))
    props = meta.get("check_properties") or [meta["property"]]
    patch = os.path.join(d, "patch.diff")
    st = sh(["git", "-C", repo, "status", "--porcelain", "--untracked-files=no"]).stdout.strip()
    if st:
        print("refusing: %s has uncommitted changes:\n%s" % (repo, st)); sys.exit(2)
    r = sh(["git", "-C", repo, "apply", patch])
    if r.returncode != 0:
        print(sid, "patch does not apply:", r.stderr[:300]); results[sid] = {"applied": False, "error": r.stderr[:300]}; continue
    out = {}
    try:
        for p in props:
            t0 = time.time()
            c = sh([sys.executable, os.path.join(VERIF, "tools", "check.py"), p, "--tier", "quick"], cwd=VERIF, env=env)
            lines = [l for l in c.stdout.splitlines() if l.startswith(("VIOLATION", "KNOWN-FINDING", "["))]
            replay = None
            for l in lines:
                if l.startswith("VIOLATION"):
                    rp = l.split("replay=")[1].split()[0]
                    try:
                        rd = json.load(open(rp))
                        replay = {k: rd.get(k) for k in ("kind", "class", "detail", "component")}
                        if rd.get("kind") == "correspondence":
                            replay["first_difference"] = {k: (rd.get("first_difference") or {}).get(k) for k in ("impl", "model")}
                        shutil.copy(rp, os.path.join(d, "replay_%s.json" % p))
                    except Exception as e:
                        replay = {"error": str(e)}
            out[p] = {"exit": c.returncode, "lines": [l[:300] for l in lines], "replay": replay, "wall_s": round(time.time() - t0, 1)}
            if c.returncode not in (0, 1): out[p]["stderr_tail"] = c.stderr[-600:]
            print(sid, p, "exit", c.returncode, (replay or {}).get("kind"), (replay or {}).get("class"), flush=True)
    finally:
        subprocess.run(["git", "-C", repo, "checkout", "--", "."], check=True)
    results[sid] = {"applied": True, "mode": "inplace" if inplace else "scratch", "checks": out}
    json.dump(results, open(res_path, "w"), indent=1)
