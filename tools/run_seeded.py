#!/usr/bin/env python3
"""Run the registered checks against the seeded changes in /verif/seeded/<id>/patch.diff:
apply the patch to /repo, run the quick check of the property it breaks, undo the patch.
usage: tools/run_seeded.py [id ...]     (writes seeded/RESULTS.json)"""
import json, os, subprocess, sys, time
VERIF = os.path.dirname(os.path.dirname(os.path.abspath(__file__)))
SEEDED = os.path.join(VERIF, "seeded")
ids = sys.argv[1:] or sorted(d for d in os.listdir(SEEDED) if os.path.isdir(os.path.join(SEEDED, d)))
res_path = os.path.join(SEEDED, "RESULTS.json")
results = json.load(open(res_path)) if os.path.exists(res_path) else {}
for sid in ids:
    d = os.path.join(SEEDED, sid)
    meta = json.load(open(os.path.join(d, "meta.json")))
    props = meta.get("check_properties") or [meta["property"]]
    patch = os.path.join(d, "patch.diff")
    st = subprocess.run(["git", "-C", "/repo", "status", "--porcelain", "--untracked-files=no"], capture_output=True, text=True).stdout.strip()
    if st:
        print("refusing: /repo has uncommitted changes:\n" + st); sys.exit(2)
    r = subprocess.run(["git", "-C", "/repo", "apply", patch], capture_output=True, text=True)
    if r.returncode != 0:
        print(sid, "patch does not apply:", r.stderr[:300]); results[sid] = {"applied": False, "error": r.stderr[:300]}; continue
    out = {}
    try:
        for p in props:
            t0 = time.time()
            c = subprocess.run([sys.executable, os.path.join(VERIF, "tools", "check.py"), p, "--tier", "quick"], capture_output=True, text=True, cwd=VERIF)
            lines = [l for l in c.stdout.splitlines() if l.startswith(("VIOLATION", "KNOWN-FINDING", "["))]
            replay = None
            for l in lines:
                if l.startswith("VIOLATION"):
                    rp = l.split("replay=")[1].split()[0]
                    try:
                        rd = json.load(open(rp))
                        replay = {k: rd.get(k) for k in ("kind", "class", "detail", "component")}
                        if rd.get("kind") == "correspondence":
                            replay["first_difference"] = {k: (rd.get("first_difference") or {}).get(k) for k in ("impl", "model")}
                    except Exception as e:
                        replay = {"error": str(e)}
            out[p] = {"exit": c.returncode, "lines": [l[:300] for l in lines], "replay": replay, "wall_s": round(time.time() - t0, 1)}
            print(sid, p, "exit", c.returncode, (replay or {}).get("kind"), (replay or {}).get("class"))
    finally:
        subprocess.run(["git", "-C", "/repo", "checkout", "--", "."], check=True)
    results[sid] = {"applied": True, "checks": out}
    json.dump(results, open(res_path, "w"), indent=1)
