#!/usr/bin/env python3
"""Entry point of every MANIFEST command:   python3 tools/check.py <Cxx> [--tier quick|thorough]

Decides one property:
  1. regenerates the constants file from /repo's current source (translator, DESIGN §3.3),
  2. full .vo build of the property's theorem file and its dependency cone,
  3. forbidden-construct scan + `Print Assumptions` allowlist for every property theorem,
  4. correspondence run of the property's component(s): real code vs extracted Coq model on the same
     operation sequences, plus the property monitors evaluated on the implementation's trace,
  5. verdict per DESIGN §3.4, evidence file, VIOLATION / KNOWN-FINDING lines.
"""
import argparse
import json
import os
import sys
import time

sys.path.insert(0, os.path.dirname(os.path.abspath(__file__)))
from hqv import core, coqtools, component  # noqa: E402
from hqv.core import VERIF, BUILD, REPLAYS, EVIDENCE, log  # noqa: E402


def load_prop(pid):
    p = os.path.join(VERIF, "tools", "props", pid + ".json")
    return json.load(open(p))


def write_replay(pid, kind, payload):
    core.ensure_dirs()
    path = os.path.join(REPLAYS, "%s_%s_%d.json" % (pid, kind, int(time.time() * 1000) % 100000000))
    payload = dict(payload, property=pid, kind=kind)
    with open(path, "w") as f:
        json.dump(payload, f, indent=1)
    return path


def gen_consts():
    rc, out, err = core.run([sys.executable, os.path.join(VERIF, "tools", "gen_consts.py")], timeout=120)
    if rc != 0:
        return False, (out + err)[-2000:]
    return True, out.strip()


def monitor_want(pid):
    def want(impl, model):
        return any(l.startswith("M %s FAIL" % pid) for l in model)
    return want


def disagree_want(impl, model):
    return component._cmp_lines(impl, model) is not None


def main():
    ap = argparse.ArgumentParser()
    ap.add_argument("prop")
    ap.add_argument("--tier", default=os.environ.get("VERIF_TIER", "quick"))
    ap.add_argument("--replay", default=None)
    args = ap.parse_args()
    pid = args.prop
    tier = args.tier if args.tier in ("quick", "thorough") else "quick"
    seed = int(os.environ.get("VERIF_SEED", "1") or 1)
    core.ensure_dirs()
    T = core.Timer()
    spec = load_prop(pid)
    component.load_specs()
    known_db = core.load_known_findings()
    known_ids = {k["id"] for k in known_db.get("known", []) if k.get("property") == pid}

    if args.replay:
        return do_replay(pid, spec, args.replay)

    violations = []  # (replay_path, suffix)
    notes = []

    # 1. constants translator
    ok_c, msg_c = gen_consts()
    if not ok_c:
        notes.append("constants translator failed: " + msg_c)

    # 2. Coq build of the cone (+ extraction files of the components)
    pfile = spec["property_file"]
    targets = [pfile + "o"]
    for comp in spec["components"]:
        ex = component.SPECS[comp].get("extract_file")
        if ex:
            targets.append(ex + "o")
    ok_make, failed, tail = coqtools.make(targets)
    cone = coqtools.cone(pfile)
    our_cone = [f for f in cone if not f.startswith("extract/")]
    forbidden = coqtools.scan_forbidden(sorted(set(cone) | set(coqtools.all_v_files()) if spec.get("scan_all", True) else cone))
    stmts = coqtools.count_statements(our_cone)
    theorems = spec["theorems"]
    assum = coqtools.print_assumptions(pid, theorems) if ok_make or os.path.exists(os.path.join(core.COQ, pfile + "o")) else {t: None for t in theorems}
    bad_thms = []
    axioms_seen = {}
    for t in theorems:
        a = assum.get(t)
        if a is None:
            bad_thms.append((t, "theorem missing or not compiled"))
        else:
            axioms_seen[t] = a
            extra = [x for x in a if x not in coqtools.AXIOM_ALLOWLIST and x.split(".")[-1] not in coqtools.AXIOM_ALLOWLIST]
            if extra:
                bad_thms.append((t, "depends on non-allowlisted axioms: " + ", ".join(extra)))
    cone_failed = [f for f in failed if f in cone or f.startswith("<make")]
    proof_ok = ok_c and not cone_failed and not forbidden and not bad_thms and (ok_make or not cone_failed)
    coqchk_note = None
    if tier == "thorough" and proof_ok and not os.environ.get("VERIF_SKIP_COQCHK"):
        lib = "HQP." + os.path.basename(pfile)[:-2]
        rc, out, err = core.run(["coqchk", "-o", "-silent", "-Q", "theories", "HQ", "-Q", "properties", "HQP", lib], cwd=core.COQ, timeout=3000)
        txt = out + err
        coqchk_note = txt.strip()[-1500:]
        if rc != 0:
            proof_ok = False
            bad_thms.append(("coqchk", "coqchk failed: " + txt[-500:]))

    # 3. correspondence + monitors
    scale = 1.0 if proof_ok else 3.0
    comp_results = []
    for comp in spec["components"]:
        log("[%s] component %s (%s, seed %d)" % (pid, comp, tier, seed))
        comp_results.append(component.run_component(comp, tier, seed, scale=scale))

    def collect(results):
        mf, kn, dis, errs = [], [], [], []
        for r in results:
            for e in r["monitor_fails"].get(pid, []):
                mf.append((r["component"], e))
            for e in r["known"].get(pid, []):
                kn.append((r["component"], e))
            for d in r["disagreements"]:
                dis.append((r["component"], d))
            for e in r["errors"]:
                errs.append((r["component"], e))
        return mf, kn, dis, errs

    mf, kn, dis, errs = collect(comp_results)
    extra_runs = 0
    if not mf and (dis or errs or not proof_ok):
        # targeted extra search for a failing input (DESIGN §3.4)
        for k in (1, 2):
            more = [component.run_component(c, tier, seed, scale=3.0, extra_seed=k) for c in spec["components"]]
            extra_runs += 1
            mf2, kn2, _, _ = collect(more)
            kn += kn2
            if mf2:
                mf = mf2
                break

    known_lines = []
    unknown_known = []
    seen_cls = set()
    for compn, e in kn:
        cls = e["class"]
        if cls in seen_cls:
            continue
        seen_cls.add(cls)
        if cls in known_ids:
            desc = next(k["what"] for k in known_db["known"] if k["id"] == cls)
            known_lines.append("KNOWN-FINDING: property=%s %s: %s" % (pid, cls, desc))
        else:
            unknown_known.append((compn, e))
    mf = mf + unknown_known

    if mf:
        compn, e = mf[0]
        lines, got = component.shrink(compn, e["lines"], monitor_want(pid))
        path = write_replay(pid, "monitor", {"component": compn, "class": e["class"], "detail": e["detail"], "seed": seed, "tier": tier,
                                              "trace": lines, "replayed": got, "how": "python3 tools/check.py %s --replay <this file>" % pid})
        violations.append((path, ""))
    elif not proof_ok:
        what = {"make_failed_files": cone_failed, "make_tail": tail[-3000:] if cone_failed else "", "forbidden": forbidden,
                "theorems_not_checked": bad_thms, "constants": msg_c if not ok_c else "ok",
                "searched": "components %s at 3x budget, %d extra seeds: no failing input" % (spec["components"], extra_runs)}
        path = write_replay(pid, "proof", what)
        violations.append((path, " no-failing-input-found"))
    elif dis or errs:
        payload = {"searched": "3x budget, %d extra seeds: monitors pass on everything explored" % extra_runs}
        if dis:
            compn, d = dis[0]
            lines, got = component.shrink(compn, d["lines"], disagree_want)
            payload.update({"component": compn, "correspondence": "model %s vs implementation" % compn, "first_difference": {k: d.get(k) for k in ("index", "impl", "model", "context_impl", "context_model", "why")}, "trace": lines, "replayed": got})
        if errs:
            payload["errors"] = [e for _, e in errs][:5]
        path = write_replay(pid, "correspondence", payload)
        violations.append((path, " no-failing-input-found"))

    # 4. evidence
    evals = sum(r["evaluations"] for r in comp_results)
    ev = {
        "property_id": pid,
        "tier": tier,
        "seed": seed,
        "level": "proof",
        "coverage": {
            "obligations": len(stmts),
            "discharged": len(stmts) if proof_ok else 0,
            "checker_cmd": "cd /verif/coq && coq_makefile -f _CoqProject -o Makefile && make -j16 %s  (coqc 8.16.1, full .vo build); Print Assumptions via coqc on build/assume/Assume_%s.v%s" % (" ".join(targets), pid, "; coqchk -o -silent HQP.%s" % pid if tier == "thorough" else ""),
            "trusted_base": spec.get("trusted_base", []) + ["axioms per theorem (Print Assumptions): " + json.dumps(axioms_seen)],
            "property_theorems": theorems,
            "partial_theorems": spec.get("partial", {}),
            "refuted_statements": spec.get("refuted", {}),
            "cone_files": our_cone,
            "evaluations": evals,
            "distinct_nontrivial": sum(r.get("distinct_nontrivial", 0) for r in comp_results),
            "traces_validated_against_impl": evals,
            "steps": sum(r["steps"] for r in comp_results),
            "rule": spec.get("rule", "operation sequences generated from VERIF_SEED by the component harness; distinct = distinct SHA1 of config+op lines; non-trivial = the model runner tagged the trace `nontrivial` (rule per component in tools/comp/*.json)"),
            "samples": [s for r in comp_results for s in r["samples"]][:3] or [{"statement": s} for s in stmts[:3]],
            "op_histogram": {r["component"]: r["op_hist"] for r in comp_results},
            "tag_histogram": {r["component"]: r["tag_hist"] for r in comp_results},
            "disagreements_checked": sum(len(r["disagreements"]) for r in comp_results),
            "component_wall_s": {r["component"]: r["wall_s"] for r in comp_results},
            "component_cached": {r["component"]: r["cached"] for r in comp_results},
            "known_findings_printed": known_lines,
            "notes": notes,
            "coqchk": coqchk_note,
        },
        "assumptions": spec.get("assumptions", []),
        "wall_s": T.s(),
        "violations": len(violations),
    }
    with open(os.path.join(EVIDENCE, pid + ".json"), "w") as f:
        json.dump(ev, f, indent=1)

    for l in known_lines:
        print(l)
    for path, suffix in violations:
        print("VIOLATION property=%s replay=%s%s" % (pid, path, suffix))
    print("[%s] %s: %d statements in cone, %d traces (%d steps), %d known, %d violations, %.1fs" % (
        pid, "OK" if not violations else "FAIL", len(stmts), evals, ev["coverage"]["steps"], len(known_lines), len(violations), T.s()))
    return 1 if violations else 0


def do_replay(pid, spec, path):
    data = json.load(open(path))
    if data.get("kind") == "proof":
        print(json.dumps(data, indent=1))
        return 1
    comp = data["component"]
    component.build_harness(comp)
    coqtools.build_modelrun(comp)
    ok, got = component.replay_trace_lines(comp, data["trace"], monitor_want(pid) if data["kind"] == "monitor" else disagree_want)
    if got:
        print("--- implementation ---")
        print("\n".join(got[0]))
        print("--- model / monitors ---")
        print("\n".join(got[1]))
    print("reproduced" if ok else "not reproduced")
    return 1 if ok else 0


if __name__ == "__main__":
    sys.exit(main())
