#!/usr/bin/env python3
"""dev helper: generate traces with the dev harness build, run the model, show first disagreements"""
import sys, subprocess, os, collections
sys.path.insert(0, os.path.dirname(os.path.abspath(__file__)))
from hqv import component
seed = sys.argv[1] if len(sys.argv) > 1 else "1"
count = sys.argv[2] if len(sys.argv) > 2 else "20"
exe = "/verif/build/target-cluster/debug/hqv-cluster"
f = "/tmp/dd_%s.trace" % seed
if len(sys.argv) > 3:
    f = sys.argv[3]
else:
    subprocess.run([exe, "gen", "--seed", seed, "--count", count, "--tier", "quick", "--out", f], check=True)
text = open(f).read()
out = subprocess.run(["/verif/build/bin/modelrun-cluster"], input=text, capture_output=True, text=True)
if out.returncode != 0:
    print("modelrun failed:", out.stderr[-2000:])
it = component.parse_traces(text)
mt = {t[0]: t for t in component.parse_traces(out.stdout)}
bad = 0
kinds = collections.Counter()
for tid, h, lines in it:
    m = mt.get(tid)
    if not m:
        print(tid, "no model output"); bad += 1; continue
    d = component._cmp_lines(lines, m[2])
    if d:
        bad += 1
        i, a, b, al, bl = d
        # find op
        op = [x for x in al[:i] if x.startswith("O ")][-1] if i > 0 else "?"
        kinds[(op.split()[1], a.split()[1] if len(a.split())>1 else a)] += 1
        if bad <= int(os.environ.get("SHOW", "3")):
            print("TRACE", tid, "idx", i, "after", op[:200])
            print("  impl :", a[:1500])
            print("  model:", b[:1500])
print(len(it), "traces,", bad, "disagree", dict(kinds))
