#!/bin/sh
# usage: tools/coqmake.sh <targets...>   (regenerates _CoqProject/Makefile, full .vo build)
cd /verif && exec python3 -c "
import sys; sys.path.insert(0,'tools')
from hqv import coqtools
ok, failed, tail = coqtools.make(sys.argv[1:])
print(tail[-3500:])
print('OK' if ok else 'FAILED: %s' % failed)
sys.exit(0 if ok else 1)" "$@"
