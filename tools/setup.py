#!/usr/bin/env python3
"""MANIFEST.setup_cmd: build everything from files on disk (offline): constants, full Coq build,
extracted model runners, cold cargo build of every harness binary."""
import os, sys, json, glob
sys.path.insert(0, os.path.dirname(os.path.abspath(__file__)))
from hqv import core, coqtools, component
core.ensure_dirs()
rc, out, err = core.run([sys.executable, os.path.join(core.VERIF, "tools", "gen_consts.py")], timeout=120)
print("consts:", out.strip(), err.strip())
files = coqtools.write_project()
ok, failed, tail = coqtools.make([f + "o" for f in files], timeout=7000)
print("coq build:", "ok" if ok else "FAILED %s" % failed)
if not ok:
    print(tail[-3000:])
specs = component.load_specs()
bad = 0
rc, out, err = core.run(["cargo", "build", "--offline", "--workspace"], cwd=core.HARNESS, timeout=7000)
print("cargo build --workspace:", rc, (out + err)[-1500:] if rc else "")
bad += rc != 0
for name in specs:
    try:
        coqtools.build_modelrun(name)
        print("modelrun-%s ok" % name)
    except Exception as e:
        print("modelrun-%s FAILED: %s" % (name, e))
        bad += 1
# A component that does not build is reported by the checks of the properties it serves
# (check.py rebuilds what it needs and turns a failure into a VIOLATION); setup itself only fails
# when nothing could be built at all.
sys.exit(0 if (ok or bad == 0) else 1)
