"""Generic correspondence runner for one component.

A component `K` consists of
  * a harness binary  hqv-K   (cargo package in /verif/harness/bin/K) that drives the REAL code:
        hqv-K gen    --seed S --count N --tier T --out FILE
        hqv-K replay --in FILE --out FILE          (re-executes the C/O lines of each trace)
  * a model runner    modelrun-K (extracted Coq model + OCaml driver in /verif/ocaml/K):
        modelrun-K < FILE > OUT

Trace file (harness):            Model runner output:
    TRACE <id> <tags..>              TRACE <id>
    C <static config>                O <op>                (echo)
    O <op + witnesses>               = <model output>
    = <impl output>  (0..n)          M <Cxx> FAIL|KNOWN <class> <detail>   (monitors, on impl outputs)
    END                              T <tag>               (classification for the evidence)
                                     END
The comparison is per trace on the sequence of `O`/`=` lines.
"""
import concurrent.futures as cf
import hashlib
import json
import os
import re
import shutil

from . import core, coqtools
from .core import run, log, BUILD, HARNESS, VERIF

SPECS = {}


def load_specs():
    d = os.path.join(VERIF, "tools", "comp")
    for f in sorted(os.listdir(d)):
        if f.endswith(".json"):
            s = json.load(open(os.path.join(d, f)))
            SPECS[s["name"]] = s
    return SPECS


def harness_exe(comp):
    return os.path.join(core.TARGET, "debug", "hqv-" + comp)


def build_harness(comp, timeout=3000):
    cmd = ["cargo", "build", "--offline", "-q", "-p", "hqv-" + comp]
    rc, out, err = run(cmd, cwd=HARNESS, timeout=timeout)
    if rc != 0:
        return None, (out + err)[-6000:]
    return harness_exe(comp), ""


def parse_traces(text):
    """-> list of (id, header, lines) where lines are the C/O/=/M/T lines."""
    traces = []
    cur = None
    for line in text.splitlines():
        if line.startswith("TRACE "):
            parts = line.split(" ", 2)
            cur = [parts[1], line, []]
        elif line == "END":
            if cur is not None:
                traces.append(tuple(cur))
            cur = None
        elif cur is not None:
            cur[2].append(line)
    return traces


def _cmp_lines(impl, model):
    a = [l for l in impl if l[:2] in ("O ", "= ")]
    b = [l for l in model if l[:2] in ("O ", "= ")]
    n = min(len(a), len(b))
    for i in range(n):
        if a[i] != b[i]:
            return i, a[i], b[i], a, b
    if len(a) != len(b):
        return n, (a[n] if n < len(a) else "<end>"), (b[n] if n < len(b) else "<end>"), a, b
    return None


def _run_shard(args):
    comp, exe, mrun, seed, count, tier, path, mode_args = args
    cmd = [exe, "gen", "--seed", str(seed), "--count", str(count), "--tier", tier, "--out", path] + mode_args
    rc, out, err = run(cmd, timeout=3600)
    if rc != 0:
        return {"error": "harness gen failed rc=%s: %s" % (rc, (out + err)[-2000:])}
    return _model_on_file(mrun, path)


def _model_on_file(mrun, path):
    with open(path) as f:
        text = f.read()
    rc, out, err = run([mrun], stdin=text, timeout=3600)
    if rc != 0:
        return {"error": "modelrun failed rc=%s: %s" % (rc, (out + err)[-2000:]), "path": path}
    return {"impl": path, "model_out": out}


def analyse(comp, impl_text, model_text, res):
    it = parse_traces(impl_text)
    mt = {t[0]: t for t in parse_traces(model_text)}
    for tid, header, lines in it:
        res["evaluations"] += 1
        ops = [l for l in lines if l.startswith("O ")]
        res["steps"] += len(ops)
        for l in ops:
            k = l.split(" ", 2)[1]
            res["op_hist"][k] = res["op_hist"].get(k, 0) + 1
        h = hashlib.sha1("\n".join(l for l in lines if l[:2] in ("C ", "O ")).encode()).hexdigest()
        m = mt.get(tid)
        if m is None:
            res["disagreements"].append({"trace": tid, "why": "model produced no output for trace", "lines": lines[:400]})
            continue
        mlines = m[2]
        tags = [l[2:] for l in mlines if l.startswith("T ")]
        for t in tags:
            res["tag_hist"][t] = res["tag_hist"].get(t, 0) + 1
        if "nontrivial" in tags:
            res["_nontrivial_hashes"].add(h)
        res["_hashes"].add(h)
        d = _cmp_lines(lines, mlines)
        if d is not None:
            i, a, b, al, bl = d
            res["disagreements"].append(
                {"trace": tid, "index": i, "impl": a, "model": b, "context_impl": al[max(0, i - 6): i + 3], "context_model": bl[max(0, i - 6): i + 3], "lines": lines[:2000]}
            )
        for l in mlines:
            if l.startswith("M "):
                parts = l.split(" ", 4)
                prop, verdict = parts[1], parts[2]
                cls = parts[3] if len(parts) > 3 else "-"
                detail = parts[4] if len(parts) > 4 else ""
                ent = {"trace": tid, "class": cls, "detail": detail, "lines": lines[:2000]}
                if verdict == "FAIL":
                    res["monitor_fails"].setdefault(prop, []).append(ent)
                elif verdict == "KNOWN":
                    res["known"].setdefault(prop, []).append(ent)
        if len(res["samples"]) < 3 and len(ops) >= 2:
            res["samples"].append({"trace": tid, "ops": ops[:40]})


def run_component(comp, tier, seed, scale=1.0, extra_seed=0):
    """Build harness + model runner, run corpus + random traces, compare. Cached per tree hash."""
    specs = SPECS or load_specs()
    spec = specs[comp]
    key = "%s-%s-%d-%s-%s-%d" % (comp, tier, seed, core.tree_hash(), ("%.2f" % scale), extra_seed)
    c = core.cache_get(key)
    if c is not None:
        c["cached"] = True
        return c
    t = core.Timer()
    res = {
        "component": comp, "tier": tier, "seed": seed, "evaluations": 0, "steps": 0, "op_hist": {}, "tag_hist": {},
        "disagreements": [], "monitor_fails": {}, "known": {}, "samples": [], "errors": [],
        "_hashes": set(), "_nontrivial_hashes": set(), "cached": False,
    }
    exe, berr = build_harness(comp)
    if exe is None:
        res["errors"].append("harness build failed: " + berr)
    try:
        mrun = coqtools.build_modelrun(comp)
    except Exception as e:  # noqa
        mrun = None
        res["errors"].append("modelrun build failed: %s" % e)
    if exe and mrun:
        wd = os.path.join(BUILD, "work", "%s-%s-%d-%d" % (comp, tier, seed, os.getpid()))
        shutil.rmtree(wd, ignore_errors=True)
        os.makedirs(wd)
        # 1. corpus first
        cdir = os.path.join(VERIF, "corpus", comp)
        if os.path.isdir(cdir):
            for f in sorted(os.listdir(cdir)):
                if not f.endswith(".trace"):
                    continue
                outp = os.path.join(wd, "corpus_" + f)
                rc, out, err = run([exe, "replay", "--in", os.path.join(cdir, f), "--out", outp], timeout=600)
                if rc != 0:
                    res["errors"].append("corpus replay failed %s: %s" % (f, (out + err)[-500:]))
                    continue
                r = _model_on_file(mrun, outp)
                if "error" in r:
                    res["errors"].append(r["error"])
                else:
                    analyse(comp, open(outp).read(), r["model_out"], res)
        # 2. generated traces, sharded
        modes = spec.get("modes", [{"args": [], "quick": spec.get("quick_count", 200), "thorough": spec.get("thorough_count", 4000)}])
        jobs = []
        for mi, mode in enumerate(modes):
            total = int(mode[tier] * scale)
            if total <= 0:
                continue
            nshard = min(core.NCPU, max(1, total // max(1, mode.get("min_per_shard", 10))))
            per = (total + nshard - 1) // nshard
            for i in range(nshard):
                s = (seed * 1000003 + extra_seed * 7919 + mi * 101 + i) & 0x7FFFFFFF
                jobs.append((comp, exe, mrun, s, per, tier, os.path.join(wd, "m%d_s%d.trace" % (mi, i)), list(mode.get("args", []))))
        with cf.ThreadPoolExecutor(max_workers=core.NCPU) as ex:
            for r in ex.map(_run_shard, jobs):
                if "error" in r:
                    res["errors"].append(r["error"])
                else:
                    analyse(comp, open(r["impl"]).read(), r["model_out"], res)
        if not os.environ.get("VERIF_KEEP_WORK"):
            shutil.rmtree(wd, ignore_errors=True)
    res["distinct"] = len(res.pop("_hashes"))
    res["distinct_nontrivial"] = len(res.pop("_nontrivial_hashes"))
    res["wall_s"] = t.s()
    # keep the cache entry small
    res["disagreements"] = res["disagreements"][:5]
    for p in list(res["monitor_fails"]):
        res["monitor_fails"][p] = res["monitor_fails"][p][:5]
    for p in list(res["known"]):
        ents = res["known"][p]
        by = {}
        for e in ents:
            by.setdefault(e["class"], []).append(e)
        res["known"][p] = [dict(v[0], count=len(v), lines=v[0]["lines"][:300]) for v in by.values()]
    core.cache_put(key, res)
    return res


def replay_trace_lines(comp, lines, want):
    """Re-run a C/O line list through harness replay + model; `want(implines, modellines)` -> bool."""
    exe = harness_exe(comp)
    mrun = os.path.join(BUILD, "bin", "modelrun-" + comp)
    wd = os.path.join(BUILD, "work", "shrink-%s-%d" % (comp, os.getpid()))
    os.makedirs(wd, exist_ok=True)
    inp = os.path.join(wd, "in.trace")
    outp = os.path.join(wd, "out.trace")
    with open(inp, "w") as f:
        f.write("TRACE 0 shrink\n" + "\n".join(lines) + "\nEND\n")
    rc, out, err = run([exe, "replay", "--in", inp, "--out", outp], timeout=300)
    if rc != 0 or not os.path.exists(outp):
        return False, None
    text = open(outp).read()
    rc, mout, err = run([mrun], stdin=text, timeout=300)
    if rc != 0:
        return False, None
    it = parse_traces(text)
    mt = parse_traces(mout)
    if not it or not mt:
        return False, None
    return want(it[0][2], mt[0][2]), (it[0][2], mt[0][2])


def shrink(comp, lines, want, budget=80):
    """Delta-debug the O lines of a failing trace (C lines are kept). Returns minimal C/O list."""
    spec = (SPECS or load_specs())[comp]
    if not spec.get("replayable", False):
        return [l for l in lines if l[:2] in ("C ", "O ")], None
    cfg = [l for l in lines if l.startswith("C ")]
    ops = [l for l in lines if l.startswith("O ")]
    ok, last = replay_trace_lines(comp, cfg + ops, want)
    if not ok:
        return cfg + ops, None  # not reproducible in replay mode; keep the original
    n = 2
    used = 0
    while len(ops) >= 2 and used < budget:
        chunk = max(1, len(ops) // n)
        reduced = False
        for i in range(0, len(ops), chunk):
            cand = ops[:i] + ops[i + chunk:]
            if not cand:
                continue
            used += 1
            ok, got = replay_trace_lines(comp, cfg + cand, want)
            if ok:
                ops = cand
                last = got
                n = max(n - 1, 2)
                reduced = True
                break
            if used >= budget:
                break
        if not reduced:
            if chunk == 1:
                break
            n = min(len(ops), n * 2)
    return cfg + ops, last
