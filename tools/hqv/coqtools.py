"""Coq side of every check: project generation, full .vo build, dependency cone, forbidden-token
scan, Print Assumptions allowlist, extraction + OCaml model-runner build."""
import glob
import os
import re

from . import core
from .core import COQ, OCAML, BUILD, VERIF, run, log

# Axioms of the Coq standard library (and libraries shipped with it) that a theorem may depend on.
# Everything else printed by `Print Assumptions` is a violation of the trusted base.
AXIOM_ALLOWLIST = {
    "Coq.Logic.FunctionalExtensionality.functional_extensionality_dep",
    "FunctionalExtensionality.functional_extensionality_dep",
    "functional_extensionality_dep",
    "Coq.Logic.ProofIrrelevance.proof_irrelevance",
    "proof_irrelevance",
    "Coq.Logic.Classical_Prop.classic",
    "classic",
    "Coq.Logic.JMeq.JMeq_eq",
    "JMeq_eq",
    "Coq.Logic.Eqdep.Eq_rect_eq.eq_rect_eq",
    "Eqdep.Eq_rect_eq.eq_rect_eq",
    "eq_rect_eq",
    "Coq.Logic.PropExtensionality.propositional_extensionality",
    "propositional_extensionality",
}

FORBIDDEN = [
    (re.compile(r"\bAdmitted\b"), "Admitted"),
    (re.compile(r"\badmit\b"), "admit"),
    (re.compile(r"^\s*(Local\s+|Global\s+|#\[[^\]]*\]\s*)?(Axiom|Axioms|Parameter|Parameters|Conjecture|Conjectures)\b"), "Axiom/Parameter/Conjecture"),
    (re.compile(r"Admit\s+Obligations"), "Admit Obligations"),
    (re.compile(r"Unset\s+Guard\s+Checking|Unset\s+Positivity\s+Checking|Unset\s+Universe\s+Checking"), "kernel check switched off"),
    (re.compile(r"bypass_check"), "bypass_check"),
    (re.compile(r"type-in-type|impredicative-set"), "type-in-type/impredicative-set"),
    (re.compile(r"\bnative_compute\b"), "native_compute"),
]
SECTION_OPEN = re.compile(r"^\s*(Section|Module\s+Type)\s+\w+")
SECTION_CLOSE = re.compile(r"^\s*End\s+\w+\s*\.")
VAR_DECL = re.compile(r"^\s*(Variable|Variables|Hypothesis|Hypotheses|Context)\b")
STMT = re.compile(r"^\s*(Theorem|Lemma|Corollary|Proposition|Fact|Remark|Example)\s+([A-Za-z0-9_']+)")


def strip_comments(text):
    out = []
    depth = 0
    i = 0
    n = len(text)
    while i < n:
        if text.startswith("(*", i):
            depth += 1
            i += 2
        elif text.startswith("*)", i) and depth > 0:
            depth -= 1
            i += 2
        else:
            if depth == 0:
                out.append(text[i])
            elif text[i] == "\n":
                out.append("\n")
            i += 1
    return "".join(out)


def all_v_files():
    fs = []
    for sub in ("theories", "properties", "extract"):
        fs += glob.glob(os.path.join(COQ, sub, "**", "*.v"), recursive=True)
    return sorted(os.path.relpath(f, COQ) for f in fs)


def write_project():
    """(Re)generate _CoqProject and the Makefile when the file list changed."""
    files = all_v_files()
    content = "-Q theories HQ\n-Q properties HQP\n-Q extract HQX\n-arg -w -arg -deprecated,-notation-overridden,-ambiguous-paths,-deprecated-hint-without-locality,-extraction-reserved-identifier,-extraction-opaque-accessed,-extraction-logical-axiom\n" + "\n".join(files) + "\n"
    p = os.path.join(COQ, "_CoqProject")
    old = open(p).read() if os.path.exists(p) else None
    if old != content or not os.path.exists(os.path.join(COQ, "Makefile")):
        with open(p, "w") as f:
            f.write(content)
        rc, out, err = run(["coq_makefile", "-f", "_CoqProject", "-o", "Makefile"], cwd=COQ, timeout=120)
        if rc != 0:
            raise RuntimeError("coq_makefile failed: " + err)
    return files


def ensure_extract_dirs():
    for f in glob.glob(os.path.join(COQ, "extract", "*.v")):
        m = re.findall(r'Extraction\s+"([^"]+)"', open(f).read())
        for d in m:
            os.makedirs(os.path.dirname(d), exist_ok=True)


def make(targets, timeout=2400):
    """Full .vo build of the given targets (never -vos). Returns (ok, failed_files, tail)."""
    write_project()
    ensure_extract_dirs()
    cmd = ["make", "-j%d" % core.NCPU, "-k"] + list(targets)
    rc, out, err = run(cmd, cwd=COQ, timeout=timeout)
    text = out + "\n" + err
    failed = sorted(set(re.findall(r'File "\./([^"]+\.v)", line \d+, characters [\d-]+:\s*\n\s*Error', text)))
    failed_t = sorted(set(re.findall(r"\*\*\* \[[^\]]*?:\s*\d*:?\s*([^\]\s]+\.vo)\]", text)))
    for t in failed_t:
        v = t[:-1]
        if v not in failed:
            failed.append(v)
    if rc != 0 and not failed:
        failed = ["<make rc=%d>" % rc]
    return rc == 0, failed, text[-6000:]


def dep_graph():
    """Parse coqdep output (.Makefile.d): map .v -> set of our .v files it depends on."""
    p = os.path.join(COQ, ".Makefile.d")
    g = {}
    if not os.path.exists(p):
        return g
    text = open(p).read().replace("\\\n", " ")
    for line in text.splitlines():
        if ":" not in line:
            continue
        lhs, rhs = line.split(":", 1)
        srcs = [x for x in lhs.split() if x.endswith(".vo")]
        if not srcs:
            continue
        v = srcs[0][:-1]
        deps = set(x[:-1] for x in rhs.split() if x.endswith(".vo") and not x.startswith("/"))
        g.setdefault(v, set()).update(deps)
    return g


def cone(vfile):
    g = dep_graph()
    seen = set()
    todo = [vfile]
    while todo:
        f = todo.pop()
        if f in seen:
            continue
        seen.add(f)
        todo.extend(g.get(f, ()))
    return sorted(seen)


def scan_forbidden(files):
    """Return list of (file, line, what) for forbidden constructs in our .v sources."""
    bad = []
    for rel in files:
        p = os.path.join(COQ, rel)
        if not os.path.exists(p):
            continue
        text = strip_comments(open(p).read())
        depth = 0
        for i, line in enumerate(text.splitlines(), 1):
            for rx, what in FORBIDDEN:
                if rx.search(line):
                    bad.append((rel, i, what))
            if SECTION_OPEN.match(line):
                depth += 1
            elif SECTION_CLOSE.match(line) and depth > 0:
                depth -= 1
            elif VAR_DECL.match(line) and depth == 0:
                bad.append((rel, i, "Variable/Hypothesis outside a section"))
    proj = os.path.join(COQ, "_CoqProject")
    if os.path.exists(proj):
        t = open(proj).read()
        if "type-in-type" in t or "impredicative-set" in t:
            bad.append(("_CoqProject", 0, "type-in-type/impredicative-set"))
    return bad


def count_statements(files):
    names = []
    for rel in files:
        p = os.path.join(COQ, rel)
        if not os.path.exists(p):
            continue
        for line in strip_comments(open(p).read()).splitlines():
            m = STMT.match(line)
            if m:
                names.append(rel + ":" + m.group(2))
    return names


def print_assumptions(prop_id, theorems):
    """Load the compiled property file and ask Coq for the axioms of each theorem.
    Returns dict theorem -> list of axiom names ([] = closed under the global context),
    or theorem -> None if the theorem does not exist / file not compiled."""
    d = os.path.join(BUILD, "assume")
    os.makedirs(d, exist_ok=True)
    res = {}
    src = os.path.join(d, "Assume_%s.v" % prop_id)
    lines = ["From HQP Require Import %s." % prop_id]
    for t in theorems:
        lines.append('Goal True. idtac "@@BEGIN %s". Abort.' % t)
        lines.append("Print Assumptions %s." % t)
        lines.append('Goal True. idtac "@@END %s". Abort.' % t)
    open(src, "w").write("\n".join(lines) + "\n")
    cmd = ["coqc", "-noglob", "-Q", os.path.join(COQ, "theories"), "HQ", "-Q", os.path.join(COQ, "properties"), "HQP", "-Q", d, "HQA", src]
    rc, out, err = run(cmd, cwd=d, timeout=600)
    text = out + "\n" + err
    for t in theorems:
        m = re.search(r"@@BEGIN %s\n(.*?)@@END %s" % (re.escape(t), re.escape(t)), text, re.S)
        if not m:
            res[t] = None
            continue
        body = m.group(1)
        if "Closed under the global context" in body:
            res[t] = []
            continue
        axs = []
        for line in body.splitlines():
            mm = re.match(r"^([A-Za-z_][A-Za-z0-9_.']*)\s*:", line)
            if mm:
                axs.append(mm.group(1))
        res[t] = axs if ("Axioms:" in body or axs) else None
    if rc != 0:
        for t in theorems:
            if res.get(t) is None:
                res[t] = None
        res["__error__"] = text[-3000:]
    return res


def build_modelrun(comp, timeout=900):
    """Compile ocaml/<comp>/gen/*.ml (extracted) + driver.ml into build/bin/modelrun-<comp>."""
    d = os.path.join(OCAML, comp)
    gen = os.path.join(d, "gen")
    outdir = os.path.join(BUILD, "bin")
    os.makedirs(outdir, exist_ok=True)
    exe = os.path.join(outdir, "modelrun-" + comp)
    srcs = sorted(glob.glob(os.path.join(gen, "*.ml"))) + sorted(glob.glob(os.path.join(gen, "*.mli"))) + sorted(glob.glob(os.path.join(d, "*.ml")))
    if not srcs:
        raise RuntimeError("no OCaml sources for " + comp)
    newest = max(os.path.getmtime(s) for s in srcs)
    if os.path.exists(exe) and os.path.getmtime(exe) >= newest:
        return exe
    bdir = os.path.join(d, "_build")
    os.makedirs(bdir, exist_ok=True)
    for s in srcs:
        dst = os.path.join(bdir, os.path.basename(s))
        data = open(s).read()
        if not os.path.exists(dst) or open(dst).read() != data:
            open(dst, "w").write(data)
    # order: extracted modules by dependency (ocamlfind ocamldep -sort), then the hand-written ones
    names = [os.path.basename(s) for s in srcs]
    rc, out, err = run(["ocamlfind", "ocamldep", "-sort"] + names, cwd=bdir, timeout=120)
    if rc != 0:
        raise RuntimeError("ocamldep failed: " + err)
    order = out.split()
    cmd = ["ocamlfind", "ocamlopt", "-O2" if False else "-inline", "100", "-w", "-a", "-package", "str,unix", "-linkpkg"] + order + ["-o", exe]
    rc, out, err = run(cmd, cwd=bdir, timeout=timeout)
    if rc != 0:
        raise RuntimeError("ocamlopt failed for %s:\n%s\n%s" % (comp, out[-3000:], err[-3000:]))
    return exe
