"""Core helpers shared by every check: paths, subprocess wrappers, hashing, caching."""
import hashlib
import json
import os
import subprocess
import sys
import time

VERIF = os.path.dirname(os.path.dirname(os.path.dirname(os.path.abspath(__file__))))
REPO = os.environ.get("VERIF_REPO", "/repo")
BUILD = os.path.join(VERIF, "build")
COQ = os.path.join(VERIF, "coq")
OCAML = os.path.join(VERIF, "ocaml")
HARNESS = os.environ.get("VERIF_HARNESS_WS", os.path.join(VERIF, "harness", "bin"))
TARGET = os.environ.get("VERIF_TARGET", os.path.join(BUILD, "target"))
CACHE = os.path.join(BUILD, "cache")
REPLAYS = os.environ.get("VERIF_REPLAYS", os.path.join(BUILD, "replays"))
EVIDENCE = os.environ.get("VERIF_EVIDENCE", os.path.join(VERIF, "evidence"))
NCPU = int(os.environ.get("VERIF_JOBS", "16"))

OFFLINE_ENV = {
    "CARGO_NET_OFFLINE": "true",
    "CARGO_TARGET_DIR": TARGET,
    "GOPROXY": "off",
    "PIP_NO_INDEX": "1",
}


def log(*a):
    print(*a, file=sys.stderr, flush=True)


def ensure_dirs():
    for d in (BUILD, CACHE, REPLAYS, EVIDENCE):
        os.makedirs(d, exist_ok=True)


# Temporary files of everything a check starts (the real tako worker creates a socket directory
# `hq-lc-*` under the temp dir for every simulated worker) go below /verif/build and are removed when
# the check exits, instead of piling up in /tmp.
_TMP = os.path.join(BUILD, "tmp", str(os.getpid()))


def _cleanup_tmp():
    import shutil
    shutil.rmtree(_TMP, ignore_errors=True)


import atexit  # noqa: E402

atexit.register(_cleanup_tmp)


def run(cmd, cwd=None, timeout=None, env=None, stdin=None, check=False):
    """Run a command, return (rc, stdout, stderr). rc = 124 on timeout."""
    e = dict(os.environ)
    e.update(OFFLINE_ENV)
    os.makedirs(_TMP, exist_ok=True)
    e["TMPDIR"] = _TMP
    if env:
        e.update(env)
    try:
        p = subprocess.run(
            cmd,
            cwd=cwd,
            env=e,
            input=stdin,
            stdout=subprocess.PIPE,
            stderr=subprocess.PIPE,
            timeout=timeout,
            text=True,
            shell=isinstance(cmd, str),
        )
        rc, out, err = p.returncode, p.stdout, p.stderr
    except subprocess.TimeoutExpired as ex:
        rc = 124
        out = ex.stdout.decode() if isinstance(ex.stdout, bytes) else (ex.stdout or "")
        err = ex.stderr.decode() if isinstance(ex.stderr, bytes) else (ex.stderr or "")
        err += "\n<timeout after %ss>" % timeout
    if check and rc != 0:
        raise RuntimeError("command failed (%s): %s\n%s\n%s" % (rc, cmd, out[-4000:], err[-4000:]))
    return rc, out, err


def _hash_tree(h, root, exts=None, skip_dirs=()):
    for dp, dn, fn in os.walk(root):
        dn[:] = sorted(d for d in dn if d not in skip_dirs and not d.startswith(".git"))
        for f in sorted(fn):
            if exts and not f.endswith(exts):
                continue
            p = os.path.join(dp, f)
            try:
                with open(p, "rb") as fh:
                    data = fh.read()
            except OSError:
                continue
            h.update(p.encode())
            h.update(b"\0")
            h.update(hashlib.sha256(data).digest())


_tree_hash = None


def tree_hash():
    """Hash of everything a component run depends on: /repo sources and /verif machinery."""
    global _tree_hash
    if _tree_hash is None:
        h = hashlib.sha256()
        _hash_tree(h, os.path.join(REPO, "crates"), exts=(".rs", ".toml"), skip_dirs=("target",))
        for extra in ("Cargo.toml", "Cargo.lock"):
            p = os.path.join(REPO, extra)
            if os.path.exists(p):
                h.update(open(p, "rb").read())
        _hash_tree(h, os.path.join(VERIF, "harness"), exts=(".rs", ".toml"), skip_dirs=("target",))
        _hash_tree(h, os.path.join(VERIF, "coq"), exts=(".v", "_CoqProject"))
        _hash_tree(h, os.path.join(VERIF, "ocaml"), exts=(".ml",), skip_dirs=("gen", "_build"))
        _hash_tree(h, os.path.join(VERIF, "tools"), exts=(".py", ".json"), skip_dirs=("__pycache__",))
        _hash_tree(h, os.path.join(VERIF, "corpus"))
        kf = os.path.join(VERIF, "known_findings.json")
        if os.path.exists(kf):
            h.update(open(kf, "rb").read())
        _tree_hash = h.hexdigest()[:20]
    return _tree_hash


def cache_get(key):
    if os.environ.get("VERIF_NOCACHE"):
        return None
    p = os.path.join(CACHE, key + ".json")
    if os.path.exists(p):
        try:
            return json.load(open(p))
        except Exception:
            return None
    return None


def cache_put(key, value):
    ensure_dirs()
    p = os.path.join(CACHE, key + ".json")
    tmp = p + ".tmp%d" % os.getpid()
    with open(tmp, "w") as f:
        json.dump(value, f)
    os.replace(tmp, p)
    # keep the cache small: drop entries older than the 60 newest
    try:
        ents = sorted(
            (os.path.join(CACHE, x) for x in os.listdir(CACHE) if x.endswith(".json")),
            key=os.path.getmtime,
        )
        for old in ents[:-60]:
            os.remove(old)
    except OSError:
        pass


class Timer:
    def __init__(self):
        self.t0 = time.time()

    def s(self):
        return round(time.time() - self.t0, 2)


def load_known_findings():
    p = os.path.join(VERIF, "known_findings.json")
    if not os.path.exists(p):
        return {"known": [], "fixed": []}
    return json.load(open(p))
