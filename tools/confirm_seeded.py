#!/usr/bin/env python3
"""Confirm seeded changes myself: in a scratch worktree of /repo (outside /repo and /verif) place the
demonstration test of seeded/<id>/, run it WITHOUT the patch (must pass) and WITH the patch (must
fail), and record the outcome in seeded/<id>/meta.json ("confirmed").
usage: tools/confirm_seeded.py [--cleanup] [id ...]
The scratch worktree /tmp/confirm-wt and its target dir are removed with --cleanup."""
import json, os, shutil, subprocess, sys, time
VERIF = os.path.dirname(os.path.dirname(os.path.abspath(__file__)))
SEEDED = os.path.join(VERIF, "seeded")
WT = "/tmp/confirm-wt"
TARGET = "/tmp/confirm-target"
ENV = dict(os.environ, CARGO_NET_OFFLINE="true", CARGO_TARGET_DIR=TARGET)

def sh(cmd, **kw):
    return subprocess.run(cmd, capture_output=True, text=True, **kw)

def reset():
    sh(["git", "-C", WT, "checkout", "--", "."]); sh(["git", "-C", WT, "clean", "-fdq"])

def run_demo(place):
    cmd = ["cargo", "nextest", "run", "-p", place["package"], "--offline", "--no-fail-fast"]
    if place.get("features"): cmd += ["--features", place["features"]]
    cmd += [place["filter"]]
    r = sh(cmd, cwd=WT, env=ENV, timeout=3600)
    txt = r.stdout + r.stderr
    summ = [l.strip() for l in txt.splitlines() if "Summary" in l or "tests run" in l]
    fails = sorted(set(l.strip()[:200] for l in txt.splitlines() if l.strip().startswith("FAIL")))
    return r.returncode, (summ[-1] if summ else txt[-300:]), fails[:6]

args = [a for a in sys.argv[1:] if not a.startswith("--")]
if "--cleanup" in sys.argv:
    sh(["git", "-C", "/repo", "worktree", "remove", "--force", WT]); shutil.rmtree(TARGET, ignore_errors=True)
    sh(["git", "-C", "/repo", "worktree", "prune"]); print("removed", WT, TARGET)
    if not args: sys.exit(0)
ids = args or sorted(d for d in os.listdir(SEEDED) if os.path.isdir(os.path.join(SEEDED, d)))
if not os.path.isdir(WT):
    r = sh(["git", "-C", "/repo", "worktree", "add", "--detach", WT, "HEAD"])
    if r.returncode: print(r.stderr); sys.exit(2)
else:
    reset(); sh(["git", "-C", WT, "checkout", "-q", "--detach", sh(["git", "-C", "/repo", "rev-parse", "HEAD"]).stdout.strip()])
for sid in ids:
    d = os.path.join(SEEDED, sid)
    mp = os.path.join(d, "meta.json"); meta = json.load(open(mp))
    place = meta.get("demo_place")
    if not place: print(sid, "no demo_place"); continue
    reset()
    for src, dst in place.get("files", {}).items():
        os.makedirs(os.path.dirname(os.path.join(WT, dst)), exist_ok=True)
        shutil.copy(os.path.join(d, src), os.path.join(WT, dst))
    for mf, spec in place.get("insert", {}).items():
        txt = open(os.path.join(WT, mf)).read()
        marker = spec["before"]
        if marker not in txt: print(sid, "marker not found in", mf); continue
        txt = txt.replace(marker, open(os.path.join(d, spec["file"])).read() + "\n" + marker, 1)
        open(os.path.join(WT, mf), "w").write(txt)
    for mf, src in place.get("append_file", {}).items():
        with open(os.path.join(WT, mf), "a") as f: f.write("\n" + open(os.path.join(d, src)).read() + "\n")
    for mf, line in place.get("append", {}).items():
        with open(os.path.join(WT, mf), "a") as f: f.write("\n" + line + "\n")
    t0 = time.time()
    rc0, s0, f0 = run_demo(place)
    r = sh(["git", "-C", WT, "apply", os.path.join(d, "patch.diff")])
    if r.returncode: print(sid, "patch does not apply", r.stderr[:200]); continue
    rc1, s1, f1 = run_demo(place)
    ok = rc0 == 0 and rc1 != 0 and bool(f1)
    meta["confirmed"] = {"ok": ok, "repo_head": sh(["git", "-C", "/repo", "rev-parse", "--short", "HEAD"]).stdout.strip(),
                         "without_patch": {"exit": rc0, "summary": s0, "fails": f0},
                         "with_patch": {"exit": rc1, "summary": s1, "fails": f1}, "wall_s": round(time.time() - t0)}
    json.dump(meta, open(mp, "w"), indent=1)
    print(sid, "CONFIRMED" if ok else "NOT CONFIRMED", "| without:", s0, "| with:", s1, f1[:2])
    reset()
