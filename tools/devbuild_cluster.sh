#!/bin/sh
# coordinator's private dev build of hqv-cluster against the /tmp/wt-cluster worktree
cd /verif/build/dev-cluster && CARGO_NET_OFFLINE=true CARGO_TARGET_DIR=/verif/build/target-cluster cargo build --offline -p hqv-cluster 2>&1 | grep -E "^(error|warning: unused)|^\s+-->|Finished|error\[" -A9 | head -${1:-80}
