#!/bin/sh
# dev helper: apply a seeded patch in the private worktree /tmp/wt-cluster, rebuild the dev harness,
# run the quick correspondence (devdiff), undo the patch.   usage: tools/dev_seeded_cluster.sh <seeded-id> [seed] [count]
id=$1; seed=${2:-1}; count=${3:-320}
cd /tmp/wt-cluster || exit 2
git apply /verif/seeded/$id/patch.diff || exit 2
sh /verif/tools/devbuild_cluster.sh 20
SHOW=${SHOW:-2} python3 /verif/tools/devdiff_cluster.py $seed $count
git apply -R /verif/seeded/$id/patch.diff
sh /verif/tools/devbuild_cluster.sh 3 >/dev/null 2>&1   # leave a clean binary behind
