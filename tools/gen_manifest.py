#!/usr/bin/env python3
"""Regenerates /verif/MANIFEST.json from tools/props/*.json and tools/comp/*.json."""
import glob, json, os, subprocess
VERIF = os.path.dirname(os.path.dirname(os.path.abspath(__file__)))
props = [json.load(open(f)) for f in sorted(glob.glob(os.path.join(VERIF, "tools", "props", "C*.json")))]
comps = [json.load(open(f)) for f in sorted(glob.glob(os.path.join(VERIF, "tools", "comp", "*.json")))]
all_ids = [json.loads(l)["id"] for l in open(os.path.join(VERIF, "properties.jsonl"))]
na_path = os.path.join(VERIF, "tools", "not_applicable.json")
na = json.load(open(na_path)) if os.path.exists(na_path) else {}
hook_commits = subprocess.run(["git", "-C", "/repo", "log", "--format=%H %s", "--grep=^verif:"], capture_output=True, text=True).stdout.strip().splitlines()
claimed = {p["id"] for p in props}
m = {
    "version": 1,
    "setup_cmd": "python3 tools/setup.py",
    "hooks": {
        "guard": "cargo feature `verif` on crates tako and hyperqueue (hyperqueue/verif = [\"tako/verif\"]); the hook modules' source lives in /verif/harness/{tako,hq} and is included by #[path] under #[cfg(feature = \"verif\")]",
        "enable": "cargo build --offline -p hqv-<component> in /verif/harness/bin (path dependencies on /repo/crates/{tako,hyperqueue} with features = [\"verif\"]), CARGO_TARGET_DIR=/verif/build/target",
        "baseline_off_cmd": "cd /repo && cargo nextest run --workspace --no-fail-fast --test-threads 8 --offline",
        "source_commits": [c.split()[0] for c in hook_commits],
        "add_only": True,
    },
    "engines": [
        {"name": "coq", "path": "coq", "serves_properties": sorted(claimed), "kind_free_text": "Coq 8.16.1 development: executable Gallina models (theories/), property theorems (properties/Cxx.v), extraction (extract/)"},
    ] + [
        {"name": "corr-" + c["name"], "path": "harness/bin/" + c["name"], "serves_properties": c.get("serves", []), "kind_free_text": "correspondence: Rust harness hqv-%s drives the real code, OCaml modelrun-%s replays the same operations on the extracted model, tools/check.py diffs and runs the property monitors" % (c["name"], c["name"])}
        for c in comps
    ],
    "checks": [],
    "notes": "Every check: python3 tools/check.py <id> --tier <tier>. Technique family: machine-checked proof in Coq 8.16.1; models tied to /repo's current source by a constants translator (tools/gen_consts.py) and a differential correspondence check on every run. See DESIGN.md.",
    "not_applicable": [{"property_id": i, "reason": na.get(i, "no check registered yet: the model / correspondence for this property is still being built (see DESIGN.md §9); not claimed")} for i in all_ids if i not in claimed],
}
for p in props:
    m["checks"].append({
        "property_id": p["id"],
        "quick_cmd": "python3 tools/check.py %s --tier quick" % p["id"],
        "thorough_cmd": "python3 tools/check.py %s --tier thorough" % p["id"],
        "evidence_file": "/verif/evidence/%s.json" % p["id"],
        "replay_cmd_template": "python3 tools/check.py %s --replay {path}" % p["id"],
        "engine": "coq + " + ", ".join("corr-" + c for c in p["components"]),
        "level_claimed": {"category": "proof", "text": p["level_text"], "design_ref": p.get("design_ref", "DESIGN.md §5")},
        "level_note": p["level_note"],
        "technique": p.get("technique", "Coq proof + differential correspondence"),
    })
json.dump(m, open(os.path.join(VERIF, "MANIFEST.json"), "w"), indent=1)
print("MANIFEST.json: %d checks, %d not claimed" % (len(m["checks"]), len(m["not_applicable"])))
