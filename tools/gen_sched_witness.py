import subprocess,sys,re
H='/verif/build/target-sched/debug/hqv-sched'
out=[]
out.append('''(** Concrete witnesses of the known priority-inversion classes K1..K5 (C15).  Each instance is the
    minimised trace corpus/sched/<k>.trace: the solution and the dispatch are what the REAL scheduler
    (HiGHS) produced for it; feasibility, optimality (exhaustive enumeration of the bounded box, lifted by
    [optimal_by_enumeration]), the validity of the dispatch, the inversion and its class are checked here.
    GENERATED once by tools/gen_sched_witness.py from the corpus traces; kept under version control. *)
From HQ Require Import Base.Prelude Gen.Consts Sched.Model Sched.Optimal.
Open Scope N_scope.

(** an optimal solution of the exact row system + the dispatch the real code derived from it exhibit an
    inversion of class [v] *)
Definition refutes (I : inst) (s : sol) (d : dispatch) (v : verdict) : Prop :=
  exists bs m,
    create_task_batches I = Ok bs /\\ milp_of I bs = Ok m
    /\\ feasible m s = true
    /\\ (forall s', feasible m s' = true -> (objective m s' <= objective m s)%Z)
    /\\ mapping_ok I bs s d = true
    /\\ inversion I d = true
    /\\ exists x, In x (inversions I d) /\\ classify I bs s d x = v.

Definition mk_queues (n : nat) (tasks : list (N * N * Z)) : list queue :=
  map (fun rq => fold_left (fun q t => if snd (fst t) =? rq then queue_add q (fst (fst t)) (from_user_priority (snd t)) else q)
                           tasks empty_queue) (seqN 0 n).

Ltac prove_refutes ubs :=
  match goal with |- refutes ?I ?s ?d ?v =>
    let bs := eval vm_compute in (match create_task_batches I with Ok b => b | _ => [] end) in
    let m := eval vm_compute in (match milp_of I bs with Ok x => x | _ => [] end) in
    exists bs, m;
    split; [vm_compute; reflexivity|];
    split; [vm_compute; reflexivity|];
    split; [vm_compute; reflexivity|];
    split; [apply (optimal_by_enumeration m ubs); vm_compute; reflexivity|];
    split; [vm_compute; reflexivity|];
    split; [vm_compute; reflexivity|]
  end.
''')
verd={'k1':'VK1','k2':'VK2','k3':'VK3','k4':'VK4','k5':'VK5'}
for k in ['k1','k2','k3','k4','k5']:
    subprocess.check_call([H,'replay','--in','/verif/corpus/sched/%s.trace'%k,'--out','/verif/build/sched-witness-%s.out'%k])
    L=open('/verif/build/sched-witness-%s.out'%k).read().splitlines()
    nres=1; workers=[]; classes=[]; tasks=[]; busy=[]
    vars=[]; values=[]; disp=[]
    for l in L:
        t=l.split()
        if l.startswith('C res'): nres=int(t[2])
        elif l.startswith('O ADDW'): workers.append((int(t[2]),[int(x) for x in t[3:]]))
        elif l.startswith('O ADDRQ'): classes.append([tuple(int(y) for y in e.split(':')) for e in t[2].split(',')])
        elif l.startswith('O ADDT'): tasks.append((int(t[2]),int(t[3]),int(t[4])))
        elif l.startswith('O BUSY'): busy.append((int(t[2]),int(t[3])))
        elif l.startswith('= VAR'): vars.append((t[3],int(t[4]),int(t[5]),int(t[6])))
        elif l.startswith('O SOLUTION'):
            kv=dict(x.split('=',1) for x in t[2:])
            values=[int(x) for x in kv['values'].split(',')] if kv['values']!='-' else []
        elif l.startswith('O MAPPING'):
            kv=dict(x.split('=',1) for x in t[2:])
            disp=[(int(e.split(':')[1]),int(e.split(':')[0])) for e in kv['assigned'].split(',')] if kv['assigned']!='-' else []
    busyt={b[0]:b[1] for b in busy}
    trq={t[0]:t[1] for t in tasks}
    def rvec(units):
        u=list(units)
        while u and u[-1]==0: u.pop()
        return '['+'; '.join(str(x*10000) for x in u)+']'
    def free(w,units):
        f=[x*10000 for x in units]
        for t,ww in busy:
            if ww==w:
                for r,a in classes[trq[t]]: f[r]-=a
        while len(f)>1 and units[len(f)-1]==0: f.pop()
        # keep same length as res vector
        n=len(rvec(units).strip('[]').split('; ')) if rvec(units)!='[]' else 0
        return '['+'; '.join(str(x) for x in f[:n])+']'
    ws=sorted(workers)
    wtxt=';\n     '.join('{| w_id := %d; w_res := %s; w_free := %s; w_assigned := [%s]; w_blocked := []; w_term := None |}'%(w,rvec(u),free(w,u),'; '.join(str(trq[t]) for t,ww in busy if ww==w)) for w,u in ws)
    ctxt=';\n     '.join('{| rc_entries := [%s]; rc_min_time := 0; rc_all := [] |}'%('; '.join('(%d, %d)'%e for e in c)) for c in classes)
    ttxt='; '.join('(%d, %d, (%d)%%Z)'%t for t in tasks if t[0] not in busyt)
    out.append('(** ** %s (corpus/sched/%s.trace) *)'%(k.upper(),k))
    out.append('Definition %s_inst : inst :=\n  {| i_nres := %d; i_now := 0;\n     i_workers :=\n    [%s];\n     i_classes :=\n    [%s];\n     i_queues := mk_queues %d [%s] |}.'%(k,nres,wtxt,ctxt,len(classes),ttxt))
    def var(v):
        kind,a,b,c=v
        return {'x':'VX %d %d'%(a,b),'R':'VR %d %d'%(a,b),'B':'VB %d %d'%(b,c)}[kind]
    out.append('Definition %s_sol : sol := sol_of [%s].'%(k,'; '.join('(%s, %d%%Z)'%(var(v),x) for v,x in zip(vars,values))))
    out.append('Definition %s_dispatch : dispatch := [%s].'%(k,'; '.join('(%d, %d)'%d for d in disp)))
    # upper bounds
    wfree={}
    for w,u in ws:
        f=[x*10000 for x in u]
        for t,ww in busy:
            if ww==w:
                for r,a in classes[trq[t]]: f[r]-=a
        wfree[w]=f
    ubs=[]
    for v in vars:
        kind,a,b,c=v
        if kind=='x':
            ub=min(wfree[a][r]//am for r,am in classes[b])
        else: ub=1
        ubs.append('(%s, %d%%Z)'%(var(v),ub))
    out.append('Definition %s_ubs : list (var * Z) := [%s].'%(k,'; '.join(ubs)))
    out.append('''Lemma %s_refutes : refutes %s_inst %s_sol %s_dispatch %s.
Proof.
  prove_refutes %s_ubs.
  match goal with |- exists x, In x ?l /\\ _ =>
    let l' := eval vm_compute in l in
    match l' with ?x :: _ => exists x end end.
  split; vm_compute; [left|]; reflexivity.
Qed.
'''%(k,k,k,k,verd[k],k))
open('/verif/coq/theories/Sched/Witness.v','w').write('\n'.join(out))
