(** C17 - Automatic allocation respects its limits and submits only on demand.
    Only statements closed by [exact]; the proofs live in HQ.Autoalloc.ProofsC17.
    [Reach s g]: [s] is reachable from the empty autoalloc state by ANY sequence of operations
    (ticks with any scheduler answer, submission results, status reports, worker connects / losses
    for known and unknown allocations, job submits, pause / resume / remove, time advances) whose
    witnesses pass the model's validation; [g] are history variables. *)
From HQ Require Import Base.Prelude Gen.Consts Autoalloc.Model Autoalloc.Spec Autoalloc.Lemmas Autoalloc.Trans Autoalloc.ProofsC17 Autoalloc.ProofsBackoff.
From HQ Require Import Sched.Model Sched.Query Sched.QueryProofs Sched.QueryBounds.
Require Import Sorting.Sorted.
Open Scope N_scope.

(** #queued allocations <= backlog, at all times *)
Theorem C17_backlog : forall s g qi q,
  Reach s g -> get_queue s qi = Some q -> queued_count q <= q_backlog q.
Proof. exact backlog_holds. Qed.

(** workers requested by queued + running allocations <= max_worker_count, at all times *)
Theorem C17_max_workers : forall s g qi q m,
  Reach s g -> get_queue s qi = Some q -> q_maxw q = Some m -> active_worker_count q <= m.
Proof. exact max_workers_holds. Qed.

(** no allocation asks for more workers than allowed per allocation, or for none *)
Theorem C17_alloc_size : forall s g qi q a,
  Reach s g -> get_queue s qi = Some q -> In a (q_allocs q) ->
  1 <= a_target a /\ a_target a <= q_mwpa q.
Proof. exact alloc_size_holds. Qed.

(** the executable monitor evaluated on every implementation snapshot holds on every reachable state *)
Theorem C17_limits_monitor : forall s g, Reach s g -> c17_state_ok s = true.
Proof. exact limits_hold. Qed.

(** a submission happens only for an active queue for which the tick carries demand *)
Theorem C17_silent_when_paused_or_no_demand : forall s o s' outs qi,
  step s o = Ok (s', outs) -> has_submit qi outs = true ->
  exists q r, get_queue s qi = Some q /\ q_active q = true
              /\ demand_of o qi = Some r /\ resp_is_empty r = false.
Proof. exact silent_when_paused_or_no_demand. Qed.

(** ... and never sooner after the previous attempt than the current back-off delay, nor with the
    failure counters at their limit *)
Theorem C17_backoff : forall s o s' outs qi,
  step s o = Ok (s', outs) -> has_submit qi outs = true ->
  exists q, get_queue s qi = Some q /\ lim_exhausted (q_lim q) = false
            /\ match l_last (q_lim q) with
               | Some t => lim_delay (q_lim q) <= s_now s - t
               | None => True
               end.
Proof. exact backoff_respected. Qed.

(** ... where `last_submission` is exactly the time of the previous attempt: a step sets it to "now"
    iff it makes a submission attempt for the queue, and no other step changes it *)
Theorem C17_last_attempt_recorded : forall s o s' outs qi q,
  step s o = Ok (s', outs) -> get_queue s qi = Some q ->
  match get_queue s' qi with
  | Some q' => if has_submit qi outs then last_of q' = Some (s_now s) else last_of q' = last_of q
  | None => True
  end.
Proof. exact last_attempt_recorded. Qed.

(** the failure counters count consecutive failures *)
Theorem C17_counters_count_consecutive_failures : forall l,
  l_sfails (on_submission_fail l) = l_sfails l + 1 /\ l_sfails (on_submission_success l) = 0
  /\ l_afails (on_allocation_fail l) = l_afails l + 1 /\ l_afails (on_allocation_success l) = 0
  /\ l_afails (on_submission_fail l) = l_afails l /\ l_afails (on_submission_success l) = l_afails l
  /\ l_sfails (on_allocation_fail l) = l_sfails l /\ l_sfails (on_allocation_success l) = l_sfails l.
Proof. exact counters_count_consecutive_failures. Qed.

(** the combined executable predicate used as monitor *)
Theorem C17_submit_only_when_allowed : forall s o s' outs qi,
  step s o = Ok (s', outs) -> has_submit qi outs = true -> submit_allowed s o qi = true.
Proof. exact submit_only_when_allowed. Qed.

(** after the configured number of consecutive failures a tick leaves the queue paused ... *)
Theorem C17_pause_after_fails : forall s order resps scripts s' outs,
  step s (OTick order resps scripts) = Ok (s', outs) -> exhausted_paused s' = true.
Proof. exact pause_after_fails. Qed.

(** ... and a paused queue stays paused (hence silent, by C17_silent_when_paused_or_no_demand) until it is resumed *)
Theorem C17_paused_until_resumed : forall s o s' outs qi q,
  step s o = Ok (s', outs) -> get_queue s qi = Some q -> q_active q = false ->
  o <> OResume qi ->
  match get_queue s' qi with Some q' => q_active q' = false | None => True end.
Proof. exact paused_until_resumed. Qed.

(** resuming a queue makes it submit again at the next tick with demand, room and elapsed back-off *)
Theorem C17_resume_submits : forall s qi q s1 o1 order resps scripts s2 o2 r,
  get_queue s qi = Some q ->
  1 <= l_maxaf (q_lim q) -> 1 <= l_maxsf (q_lim q) ->
  step s (OResume qi) = Ok (s1, o1) ->
  step s1 (OTick order resps scripts) = Ok (s2, o2) ->
  zip_lookup qi order resps = Some r ->
  permit_nonempty q r = true ->
  backoff_elapsed (s_now s) (q_lim q) = true ->
  has_submit qi o2 = true.
Proof. exact resume_submits. Qed.

(** any tick at which the queue is active, below its failure limits, has demand + room and the
    back-off has elapsed submits (covers arbitrary events between the resume and the tick) *)
Theorem C17_eligible_tick_submits : forall s order resps scripts s' outs qi q r,
  step s (OTick order resps scripts) = Ok (s', outs) ->
  get_queue s qi = Some q -> q_active q = true -> lim_exhausted (q_lim q) = false ->
  zip_lookup qi order resps = Some r -> permit_nonempty q r = true ->
  backoff_elapsed (s_now s) (q_lim q) = true ->
  has_submit qi outs = true.
Proof. exact eligible_tick_submits. Qed.

(** the unfixed [resume] (finding F14): the next tick pauses the queue again - for every queue whose
    counters are at a limit - so nothing can ever be submitted *)
Theorem C17_F14_unfixed_refuted :
  exists q now r,
    q_active q = false /\ lim_exhausted (q_lim q) = true
    /\ permit_nonempty (resume_unfixed q) r = true /\ backoff_elapsed now (q_lim (resume_unfixed q)) = true
    /\ q_active (resume_unfixed q) = true
    /\ q_active (try_pause_queue now (resume_unfixed q)) = false
    /\ q_active (try_pause_queue now (resume q)) = true.
Proof. exact F14_unfixed_refuted. Qed.

(** `submission_delays[current_delay]` never goes out of bounds *)
Theorem C17_limiter_index_in_bounds : forall s g qi q,
  Reach s g -> get_queue s qi = Some q -> l_level (q_lim q) < N.of_nat (length (l_delays (q_lim q))).
Proof. exact limiter_index_in_bounds. Qed.

(** * Demand side: what the scheduler answers to the worker query of a tick ([Sched.Query], the model of
    tako's [new_worker_query] / [compute_new_worker_query]); for every state, every list of queries and
    every solver answer [s] *)

(** one count per query - or an error / the empty answer when scheduling could not finish *)
Theorem C17_query_response_length : forall st qs flag finished s o,
  new_worker_query st qs flag finished s = Ok o ->
  match o with
  | QErr => forallb desc_valid qs = false
  | QResp r => (flag = true /\ finished = false /\ r_sn r = [] /\ r_mn r = []) \/ length (r_sn r) = length qs
  end.
Proof. exact new_worker_query_length. Qed.

(** no waiting single-node class has a placement variable on the fake workers of query [i] (none fits its
    descriptor and time limit)  ->  no worker is asked for that query *)
Theorem C17_query_no_candidates_no_demand : forall st qs s r i q,
  compute_new_worker_query st qs s = Ok r -> nth_error qs i = Some q ->
  (forall rq, 0 < waiting_of (query_inst st qs) rq -> class_fits (query_inst st qs) q rq = false) ->
  nth_error (r_sn r) i = Some 0.
Proof. exact query_no_candidates_no_demand. Qed.

(** what "fits" means: the time limit covers the class's [min_time] and the (completed) descriptor has
    every amount the class asks for *)
Theorem C17_class_fits_time : forall I q rq t,
  class_fits I q rq = true -> wq_time_limit q = Some t -> rc_min_time (class_of I rq) <= t.
Proof. exact class_fits_time. Qed.
Theorem C17_class_fits_resources : forall I q rq,
  class_fits I q rq = true ->
  Forall (fun e => snd e <= rv_get (vec_of_desc (full_desc (i_nres I) q)) (fst e)) (min_req I rq).
Proof. exact class_fits_resources. Qed.

(** count i <= max_sn_workers i *)
Theorem C17_query_count_le_max : forall st qs s r i q c,
  compute_new_worker_query st qs s = Ok r -> nth_error qs i = Some q -> nth_error (r_sn r) i = Some c ->
  c <= wq_max_sn q.
Proof. exact query_count_le_max. Qed.

(** for every solver answer that is a feasible point of the model's rows: all counts together <= number of
    waiting tasks of the classes that have a batch (every class once) ... *)
Theorem C17_query_total_le_waiting : forall st qs s r,
  compute_new_worker_query st qs s = Ok r -> query_sol_ok st qs s = true ->
  exists bs, create_task_batches (query_inst st qs) = Ok bs
    /\ sumN (r_sn r) <= batches_waiting (query_inst st qs) bs.
Proof. exact query_total_le_batches. Qed.

(** ... and count i <= number of waiting tasks of the classes that fit query i *)
Theorem C17_query_count_le_fitting : forall st qs s r i q c,
  compute_new_worker_query st qs s = Ok r -> query_sol_ok st qs s = true ->
  nth_error qs i = Some q -> nth_error (r_sn r) i = Some c ->
  exists bs, create_task_batches (query_inst st qs) = Ok bs
    /\ c <= sumN (map (fun b => if class_fits (query_inst st qs) q (b_rq b)
                               then waiting_of (query_inst st qs) (b_rq b) else 0) bs).
Proof. exact query_count_le_fitting. Qed.

(** only fake workers (ids above the worker counter) take part *)
Theorem C17_query_only_fake_ids : forall st qs w,
  In w (i_workers (query_inst st qs)) -> qs_worker_counter st < w_id w.
Proof. exact query_only_fake_ids. Qed.

(** multi-node part: every entry belongs to a multi-node class, names the FIRST query whose time limit covers
    the class's [min_time] and whose [max_workers_per_allocation] reaches its [n_nodes], asks for [n_nodes]
    workers per allocation and as many allocations as the class has waiting tasks *)
Theorem C17_mn_entry_sound : forall st qs s r e,
  compute_new_worker_query st qs s = Ok r -> In e (r_mn r) ->
  exists k q_ j q,
    nth_error (qs_queues st) k = Some q_ /\ is_mn st (N.of_nat k) = true
    /\ mn_per_alloc e = nodes_of st (N.of_nat k)
    /\ mn_max_allocs e = queue_size q_
    /\ mn_type e = N.of_nat j /\ nth_error qs j = Some q
    /\ mn_accepts (class_min_time st (N.of_nat k)) (nodes_of st (N.of_nat k)) q = true
    /\ (forall j' q', (j' < j)%nat -> nth_error qs j' = Some q' ->
          mn_accepts (class_min_time st (N.of_nat k)) (nodes_of st (N.of_nat k)) q' = false).
Proof. exact mn_entry_sound. Qed.

Theorem C17_mn_accepts_spec : forall mt n q,
  mn_accepts mt n q = true <-> (forall t, wq_time_limit q = Some t -> mt <= t) /\ n <= wq_max_per_alloc q.
Proof. exact mn_accepts_spec. Qed.

(** conversely every multi-node class with such a query has its entry ... *)
Theorem C17_mn_entry_complete : forall st qs s r k q_ j q,
  compute_new_worker_query st qs s = Ok r ->
  nth_error (qs_queues st) k = Some q_ -> is_mn st (N.of_nat k) = true ->
  nth_error qs j = Some q ->
  mn_accepts (class_min_time st (N.of_nat k)) (nodes_of st (N.of_nat k)) q = true ->
  (forall j' q', (j' < j)%nat -> nth_error qs j' = Some q' ->
     mn_accepts (class_min_time st (N.of_nat k)) (nodes_of st (N.of_nat k)) q' = false) ->
  In {| mn_type := N.of_nat j; mn_per_alloc := nodes_of st (N.of_nat k); mn_max_allocs := queue_size q_ |} (r_mn r).
Proof. exact mn_entry_complete. Qed.

(** ... a class no query accepts contributes nothing, and the list is sorted by (worker_type, worker_per_allocation) *)
Theorem C17_mn_no_admissible_no_entry : forall st qs rq q_,
  (forall q, In q qs -> mn_accepts (class_min_time st rq) (nodes_of st rq) q = false) ->
  mn_entry_of st qs rq q_ = [].
Proof. exact mn_no_admissible_no_entry. Qed.
Theorem C17_mn_sorted : forall st qs s r,
  compute_new_worker_query st qs s = Ok r -> StronglySorted mn_key_le (r_mn r).
Proof. exact mn_sorted. Qed.


Check C17_backlog : forall s g qi q, Reach s g -> get_queue s qi = Some q -> queued_count q <= q_backlog q.
Check C17_max_workers : forall s g qi q m, Reach s g -> get_queue s qi = Some q -> q_maxw q = Some m -> active_worker_count q <= m.

Print Assumptions C17_backlog.
Print Assumptions C17_max_workers.
Print Assumptions C17_alloc_size.
Print Assumptions C17_limits_monitor.
Print Assumptions C17_silent_when_paused_or_no_demand.
Print Assumptions C17_backoff.
Print Assumptions C17_submit_only_when_allowed.
Print Assumptions C17_pause_after_fails.
Print Assumptions C17_paused_until_resumed.
Print Assumptions C17_resume_submits.
Print Assumptions C17_eligible_tick_submits.
Print Assumptions C17_F14_unfixed_refuted.
Print Assumptions C17_limiter_index_in_bounds.
Print Assumptions C17_last_attempt_recorded.
Print Assumptions C17_counters_count_consecutive_failures.
Print Assumptions C17_query_response_length.
Print Assumptions C17_query_no_candidates_no_demand.
Print Assumptions C17_class_fits_time.
Print Assumptions C17_class_fits_resources.
Print Assumptions C17_query_count_le_max.
Print Assumptions C17_query_total_le_waiting.
Print Assumptions C17_query_count_le_fitting.
Print Assumptions C17_query_only_fake_ids.
Print Assumptions C17_mn_entry_sound.
Print Assumptions C17_mn_accepts_spec.
Print Assumptions C17_mn_entry_complete.
Print Assumptions C17_mn_no_admissible_no_entry.
Print Assumptions C17_mn_sorted.
