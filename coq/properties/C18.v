(** C18 - Allocation lifecycle is monotone and its worker accounting is exact.
    Only statements closed by [exact]; the proofs live in HQ.Autoalloc.ProofsC18.
    [Reach s g]: [s] reachable by ANY operation sequence (see C17.v); the history variables [g]
    record, per allocation and while the server knows it, the workers that connected from it
    ([g_conn]) and that were lost from it ([g_lost]), and every event emitted so far. *)
From HQ Require Import Base.Prelude Gen.Consts Autoalloc.Model Autoalloc.Spec Autoalloc.Lemmas Autoalloc.Trans Autoalloc.ProofsC17 Autoalloc.ProofsC18 Autoalloc.ProofsIndex Autoalloc.ProofsEvents.
Open Scope N_scope.

(** every allocation moves only forward (queued, then running, then finished) and never leaves a finished state *)
Theorem C18_monotone : forall s g o s' outs qi q a,
  Reach s g -> step s o = Ok (s', outs) -> get_queue s qi = Some q -> In a (q_allocs q) ->
  match get_queue s' qi with
  | Some q' => exists a', find_alloc (a_id a) (q_allocs q') = Some a'
                          /\ alloc_trans a a' /\ alloc_step_ok a a' = true
  | None => exists force, o = ORemove qi force
  end.
Proof. exact lifecycle_monotone. Qed.

(** Running: connected = connected-from-it minus lost (for ALL orders of connect / loss notifications,
    including loss before connect, duplicates and extras); disconnected = lost *)
Theorem C18_connected_exact : forall s g qi q a e conn disc,
  Reach s g -> get_queue s qi = Some q -> In a (q_allocs q) -> a_status a = Running e conn disc ->
  exists ga, g_find qi (a_id a) (gh_allocs g) = Some ga
    /\ (forall w, In w conn <-> In w (g_conn ga) /\ ~ In w (g_lost ga))
    /\ NoDup conn
    /\ (forall w, In w (map fst disc) <-> In w (g_lost ga))
    /\ NoDup (map fst disc).
Proof. exact connected_exact. Qed.

(** the executable accounting predicate (the monitor) holds for every allocation of every reachable state *)
Theorem C18_accounting_monitor : forall s g, Reach s g -> ginv s g.
Proof. exact reach_ginv. Qed.

(** a running allocation has fewer distinct lost workers than its size; a normally finished one exactly as many *)
Theorem C18_finish_iff_all_lost : forall s g qi q a,
  Reach s g -> get_queue s qi = Some q -> In a (q_allocs q) ->
  exists ga, g_find qi (a_id a) (gh_allocs g) = Some ga /\ NoDup (g_lost ga)
    /\ match a_status a with
       | Queued _ => g_lost ga = [] /\ g_conn ga = []
       | Running _ _ disc => N.of_nat (length (g_lost ga)) < a_target a /\ length disc = length (g_lost ga)
       | Finished disc => N.of_nat (length disc) = a_target a /\ NoDup (map fst disc)
       | FinishedU _ _ _ => True
       end.
Proof. exact finish_iff_all_lost_state. Qed.

(** ... it finishes normally exactly at the loss notification that makes that number reach the size *)
Theorem C18_finish_exactly_when : forall qi a ga w c a' evs fin e conn disc,
  accounting_ok a ga = true -> a_status a = Running e conn disc ->
  sync_alloc qi a (RLost w c) = (a', evs, fin) ->
  ((exists d, a_status a' = Finished d) <-> N.of_nat (length (add_set w (g_lost ga))) = a_target a).
Proof. exact finish_exactly_when. Qed.

(** ... and by nothing else: neither connects, external reports nor status errors finish normally *)
Theorem C18_only_loss_finishes_normally : forall qi a r a' evs fin d,
  sync_alloc qi a r = (a', evs, fin) -> a_status a' = Finished d ->
  (exists d0, a_status a = Finished d0) \/ (exists w c, r = RLost w c).
Proof. exact only_loss_finishes_normally. Qed.

(** workers naming an unknown allocation change nothing *)
Theorem C18_unknown_noop : forall s w a c,
  alookup a (s_index s) = None ->
  step s (OConnect w a) = Ok (s, [OutRet true]) /\ step s (OLost w a c) = Ok (s, [OutRet true]).
Proof. exact unknown_allocation_noop. Qed.

(** AllocationQueued exactly once, AllocationStarted at most once, AllocationFinished exactly once
    for a finished allocation and never before, no start announced after the end - over the whole
    event history, for every allocation of every reachable state *)
Theorem C18_events : forall s g qi q a,
  Reach s g -> get_queue s qi = Some q -> In a (q_allocs q) ->
  events_ok (gh_events g) qi a = true
  /\ count_ev (is_queued_ev qi (a_id a)) (gh_events g) = 1
  /\ count_ev (is_started qi (a_id a)) (gh_events g) <= 1
  /\ count_ev (is_fin_ev qi (a_id a)) (gh_events g) = (if is_finished a then 1 else 0)
  /\ no_start_after_finish qi (a_id a) (gh_events g) = true.
Proof. exact events_exact. Qed.

(** no event ever names an allocation the queue does not have *)
Theorem C18_no_events_for_unknown : forall s g qi q id,
  Reach s g -> get_queue s qi = Some q -> ~ In id (map a_id (q_allocs q)) ->
  count_ev (is_queued_ev qi id) (gh_events g) = 0 /\ count_ev (is_started qi id) (gh_events g) = 0
  /\ count_ev (is_fin_ev qi id) (gh_events g) = 0.
Proof. exact no_events_for_unknown. Qed.

(** the index allocation_to_queue covers exactly the allocations of the existing queues *)
Theorem C18_index_exact : forall s g, Reach s g -> ixinv s.
Proof. exact index_exact. Qed.

(** ... as the executable monitor (includes: no duplicate keys in the index, in the queue table, in any queue) *)
Theorem C18_index_monitor : forall s g, Reach s g -> index_ok s = true.
Proof. exact index_monitor. Qed.

(** removing a queue cancels each of its active allocations exactly once and forgets them; a refused
    removal (running allocations, no --force) changes nothing *)
Theorem C18_remove_queue : forall s g qi force s' outs q,
  Reach s g -> get_queue s qi = Some q -> step s (ORemove qi force) = Ok (s', outs) ->
  if existsb is_running (q_allocs q) && negb force
  then s' = s /\ outs = [OutRet false]
  else removes_of qi outs = active_ids q /\ NoDup (active_ids q)
       /\ In (EvQueueRemoved qi) outs
       /\ get_queue s' qi = None
       /\ (forall id, alookup id (s_index s') <> Some qi)
       /\ ixinv s'.
Proof. exact remove_queue_exact. Qed.

(** the per-allocation predicates of the executable C18 state monitor hold on every reachable state *)
Theorem C18_state_monitor : forall s g,
  Reach s g -> forall qi q a, get_queue s qi = Some q -> In a (q_allocs q) ->
  exists ga, g_find qi (a_id a) (gh_allocs g) = Some ga /\ accounting_ok a ga = true
             /\ events_ok (gh_events g) qi a = true.
Proof. exact c18_monitor_quiet. Qed.


(** finding F15 on the code before the fix *)
Theorem C18_F15_unfixed_refuted :
  (exists a ga w a' evs fin,
      accounting_ok a ga = true /\ sync_alloc_unfixed 1 a (RConnected w) = (a', evs, fin)
      /\ accounting_ok a' (g_add_conn w ga) = false
      /\ (forall a2 e2 f2, sync_alloc 1 a (RConnected w) = (a2, e2, f2) -> accounting_ok a2 (g_add_conn w ga) = true))
  /\ (exists a ga w a' evs fin,
      accounting_ok a ga = true /\ sync_alloc_unfixed 1 a (RLost w false) = (a', evs, fin)
      /\ accounting_ok a' (g_add_lost w ga) = false
      /\ (forall a2 e2 f2, sync_alloc 1 a (RLost w false) = (a2, e2, f2) -> accounting_ok a2 (g_add_lost w ga) = true)).
Proof. exact F15_unfixed_refuted. Qed.

Print Assumptions C18_monotone.
Print Assumptions C18_connected_exact.
Print Assumptions C18_accounting_monitor.
Print Assumptions C18_finish_iff_all_lost.
Print Assumptions C18_finish_exactly_when.
Print Assumptions C18_only_loss_finishes_normally.
Print Assumptions C18_unknown_noop.
Print Assumptions C18_F15_unfixed_refuted.
Print Assumptions C18_events.
Print Assumptions C18_no_events_for_unknown.
Print Assumptions C18_index_exact.
Print Assumptions C18_remove_queue.
Print Assumptions C18_state_monitor.
Print Assumptions C18_index_monitor.
