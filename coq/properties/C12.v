(** C12 - Pruning the journal does not change what a restart restores.
    Only statements closed by [exact]; proofs in HQ.Journal.PruneProofs. *)
From HQ Require Import Base.Prelude Journal.Event Journal.Restore Journal.Prune Journal.Gen Journal.PruneProofs.
Open Scope N_scope.

(** For ANY journal that restores and ANY live sets: the pruned journal restores too
    (well-formedness), and it restores exactly the live jobs of the original - same open flags,
    task outcomes, counters, pending task batches with their remaining dependencies, next instance
    ids and crash counts - the same uid, the same allocation queues and queue id counter; the job /
    worker id counters can only be lower.  Hypothesis [keeps_loss]: every failure-WorkerLost
    record is of a live worker (otherwise crash counts are lost: known finding, see below). *)
Theorem C12_prune_equiv_partial : forall lj lw evs r,
  restore evs = Ok r -> Forall (keeps_loss lw) evs ->
  exists r', restore (prune lj lw evs) = Ok r'
    /\ r_jobs r' = filter (fun j => memN (sj_id j) lj) (r_jobs r)
    /\ r_batches r' = filter (fun b => memN (b_job b) lj) (r_batches r)
    /\ r_uid r' = r_uid r
    /\ List.map fst (r_queues r') = List.map fst (r_queues r)
    /\ r_queue_counter r' = r_queue_counter r
    /\ r_job_counter r' <= r_job_counter r /\ r_worker_counter r' <= r_worker_counter r.
Proof. exact prune_equiv. Qed.

(** The full statement (no hypothesis on WorkerLost records) is false of the code. *)
Definition C12_prune_equiv_full : Prop := forall lj lw evs r,
  restore evs = Ok r ->
  exists r', restore (prune lj lw evs) = Ok r'
    /\ List.map batch_view (r_batches r') = List.map batch_view (filter (fun b => memN (b_job b) lj) (r_batches r)).

Theorem C12_prune_equiv_refuted :
  exists evs lj lw r r', restore evs = Ok r /\ restore (prune lj lw evs) = Ok r'
    /\ List.map batch_view (r_batches r) <> List.map batch_view (r_batches r').
Proof. exact prune_equiv_refuted. Qed.

Theorem C12_prune_queue_resources_refuted :
  exists evs lj lw r r', restore evs = Ok r /\ restore (prune lj lw evs) = Ok r' /\ r_queues r <> r_queues r'.
Proof. exact prune_queue_resources_refuted. Qed.

(** Well-formedness, sub-sequence half: every record of the pruned journal is a record of the
    original (batched id lists shrunk). *)
Theorem C12_prune_wellformed : forall lj lw e e', prune_event lj lw e = Some e' -> subevent e' e.
Proof. exact prune_event_sub. Qed.

(** Appending to a pruned journal and pruning again is pruning the complete history, provided the
    live sets only shrink on the ids the old journal mentions (a completed job stays completed, a
    lost worker never reconnects - the live sets the server computes). *)
Theorem C12_prune_idempotent_append : forall lj lw lj' lw' evs evs',
  (forall e j, In e evs -> In j (ev_job_ids e) -> memN j lj' = true -> memN j lj = true) ->
  (forall w, memN w lw' = true -> memN w lw = true) ->
  prune lj' lw' (prune lj lw evs ++ evs') = prune lj' lw' (evs ++ evs').
Proof. exact prune_idempotent_append. Qed.

Check C12_prune_idempotent_append.

Print Assumptions C12_prune_equiv_partial.
Print Assumptions C12_prune_equiv_refuted.
Print Assumptions C12_prune_queue_resources_refuted.
Print Assumptions C12_prune_wellformed.
Print Assumptions C12_prune_idempotent_append.
