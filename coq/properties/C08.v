(** C08 - Cancel is final: canceled tasks never run or report again. *)
From HQ Require Import Base.Prelude Cluster.Types Cluster.Core Cluster.Reactor Cluster.Worker Cluster.Server Cluster.Sys Cluster.Monitors Cluster.ProofsJob Cluster.ProofsCore Cluster.ProofsMore Cluster.ProofsTerminal Cluster.ProofsStep Cluster.ProofsAll Cluster.RejHyp Cluster.BijFinal Cluster.ReleaseCancel Cluster.ReleaseFree Cluster.SilentCancel.
From Coq Require Import ZArith.
Local Open Scope N_scope.

(** Repeating a cancel changes nothing: a job without non-terminal tasks is left untouched and only
    the (empty) response is produced. *)
Theorem C08_cancel_idempotent : forall s jid j,
  find_job (hq_jobs s) jid = Some j -> non_finished_task_ids j = [] ->
  handle_cancel s jid = Ok (emit s (OResp (RCancelOk [] (job_n_tasks j)))).
Proof. exact handle_cancel_idempotent. Qed.

(** Only tasks without outcome are marked canceled; tasks that were terminal keep their outcome. *)
Theorem C08_only_active_tasks_canceled : forall target site ids, (target = JC \/ target = JA) -> forall j j',
  mark_tasks j ids target site = Ok j' ->
  forall t, In t ids -> jt_find (j_tasks j) (snd t) = Some JW \/ jt_find (j_tasks j) (snd t) = Some JR.
Proof. exact mark_only_from_active. Qed.

(** A worker that processed the cancel of a task it was not running no longer has the task in its
    backlog of pre-sent tasks, so it can never start it. *)
Theorem C08_worker_cancel_drops_backlog : forall p t,
  run_find (p_running p) t = None -> ~ in_backlog (cancel_task p t) t.
Proof. exact cancel_drops_backlog. Qed.

(** Tasks that were already terminal keep their outcome through a cancel (and through anything
    that follows it). *)
Theorem C08_terminal_tasks_keep_outcome : forall s o s' t v,
  (forall j, In j (h_jobs (hq_of s)) -> j_id j < h_counter (hq_of s)) ->
  (match o with JForget _ => False | _ => True end) ->
  jstep s o = Ok s' -> task_state s t = Some v -> terminal v ->
  task_state s' t = Some v \/ find_job (h_jobs (hq_of s')) (fst t) = None.
Proof. exact jstep_outcome_final. Qed.

(** A cancel that is answered leaves no task of the job without outcome. *)
Theorem C08_cancel_leaves_none : forall s jid j s',
  HOK (hq_of s) -> find_job (hq_jobs s) jid = Some j -> handle_cancel s jid = Ok s' ->
  exists j', find_job (h_jobs (hq_of s')) jid = Some j' /\ cnt (j_tasks j') JW + cnt (j_tasks j') JR = 0.
Proof. exact cancel_leaves_none. Qed.

(** After a cancel request answered in ANY reachable state, nothing of the job is left anywhere in
    the scheduler: no task, no entry in a worker's assigned / prefilled set or multi-node slot, no
    queue entry, no redirect. *)
Theorem C08_cancel_releases_everything : forall ops reserve maxfill s outs j s' outs',
  Forall op_wf ops -> run_fresh (init_sys reserve maxfill) ops = true -> run (init_sys reserve maxfill) ops = Ok (s, outs) ->
  step s (OpCancel j) = Ok (s', outs') ->
  let c := s_core s' in
  (forall t, In t (c_tasks c) -> fst (t_id t) <> j) /\
  (forall wk, In wk (c_workers c) ->
     match w_assign wk with
     | Sn a p _ => (forall id, In id a -> fst id <> j) /\ (forall id, In id p -> fst id <> j)
     | Mn t _ => fst t <> j
     end) /\
  (forall q, In q (c_queues c) -> forall id, fst id = j -> in_ready q id = false /\ in_prefill q id = false) /\
  (forall id v, In (id, v) (c_redirects c) -> fst id <> j).
Proof. exact cancel_releases_everything. Qed.

(** ... and the resources: the free counter of a worker grows by exactly the requests of the
    job's tasks in its assigned set (stated relatively: the absolute accounting is refuted by the
    known finding F23); a worker reserved for a multi-node task of the job is entirely free again. *)
Theorem C08_cancel_free_counters : forall ops reserve maxfill s outs j jb s' outs' w wk a p f,
  Forall op_wf ops -> run_fresh (init_sys reserve maxfill) ops = true -> run (init_sys reserve maxfill) ops = Ok (s, outs) ->
  step s (OpCancel j) = Ok (s', outs') ->
  find_job (h_jobs (s_hq s)) j = Some jb ->
  find_worker (c_workers (s_core s)) w = Some wk -> w_assign wk = Sn a p f ->
  exists wk' a' p', find_worker (c_workers (s_core s')) w = Some wk' /\
    w_assign wk' = Sn a' p' (fold_left (fun acc id => res_add_cap acc (request_of (s_core s) id) (w_res wk)) (filter (fun id => N.eqb (fst id) j) a) f) /\
    w_res wk' = w_res wk /\
    (forall id, In id a' -> fst id <> j) /\ (forall id, In id p' -> fst id <> j).
Proof. exact cancel_free_counters_sum. Qed.
Theorem C08_cancel_frees_mn_worker : forall ops reserve maxfill s outs j s' outs' w wk mt root,
  Forall op_wf ops -> run_fresh (init_sys reserve maxfill) ops = true -> run (init_sys reserve maxfill) ops = Ok (s, outs) ->
  step s (OpCancel j) = Ok (s', outs') ->
  find_worker (c_workers (s_core s)) w = Some wk -> w_assign wk = Mn mt root -> fst mt = j ->
  exists wk', find_worker (c_workers (s_core s')) w = Some wk' /\ w_assign wk' = Sn [] [] (w_res wk) /\ w_res wk' = w_res wk.
Proof. exact cancel_frees_mn_worker. Qed.
Definition C08_cancel_releases_example := cancel_releases_example.
Definition C08_cancel_frees_mn_example := cancel_frees_mn_example.

(** Cancel is final, as the executable trace monitor: once a cancel request was answered, nothing is
    reported for the cancelled tasks any more - accepted for EVERY history (no hypothesis). *)
Theorem C08_cancel_final : forall ops reserve maxfill s items,
  run_citems (init_sys reserve maxfill) ops = Ok (s, items) -> cancel_final [] items = true.
Proof. exact cancel_final_run. Qed.

Print Assumptions C08_cancel_leaves_none.
Print Assumptions C08_terminal_tasks_keep_outcome.
Print Assumptions C08_cancel_idempotent.
Print Assumptions C08_only_active_tasks_canceled.
Print Assumptions C08_worker_cancel_drops_backlog.
Print Assumptions C08_cancel_releases_everything.
Print Assumptions C08_cancel_free_counters.
Print Assumptions C08_cancel_frees_mn_worker.
Print Assumptions C08_cancel_releases_example.
Print Assumptions C08_cancel_frees_mn_example.
Print Assumptions C08_cancel_final.
