(** C08 - Cancel is final: canceled tasks never run or report again. *)
From HQ Require Import Base.Prelude Cluster.Types Cluster.Core Cluster.Reactor Cluster.Worker Cluster.Server Cluster.Sys Cluster.Monitors Cluster.ProofsJob Cluster.ProofsCore Cluster.ProofsMore Cluster.ProofsTerminal Cluster.ProofsStep Cluster.ProofsAll.
From Coq Require Import ZArith.
Local Open Scope N_scope.

(** Repeating a cancel changes nothing: a job without non-terminal tasks is left untouched and only
    the (empty) response is produced. *)
Theorem C08_cancel_idempotent : forall s jid j,
  find_job (hq_jobs s) jid = Some j -> non_finished_task_ids j = [] ->
  handle_cancel s jid = Ok (emit s (OResp (RCancelOk [] (job_n_tasks j)))).
Proof. exact handle_cancel_idempotent. Qed.

(** Only tasks without outcome are marked canceled; tasks that were terminal keep their outcome. *)
Theorem C08_only_active_tasks_canceled : forall target site ids, (target = JC \/ target = JA) -> forall j j',
  mark_tasks j ids target site = Ok j' ->
  forall t, In t ids -> jt_find (j_tasks j) (snd t) = Some JW \/ jt_find (j_tasks j) (snd t) = Some JR.
Proof. exact mark_only_from_active. Qed.

(** A worker that processed the cancel of a task it was not running no longer has the task in its
    backlog of pre-sent tasks, so it can never start it. *)
Theorem C08_worker_cancel_drops_backlog : forall p t,
  run_find (p_running p) t = None -> ~ in_backlog (cancel_task p t) t.
Proof. exact cancel_drops_backlog. Qed.

(** Tasks that were already terminal keep their outcome through a cancel (and through anything
    that follows it). *)
Theorem C08_terminal_tasks_keep_outcome : forall s o s' t v,
  (forall j, In j (h_jobs (hq_of s)) -> j_id j < h_counter (hq_of s)) ->
  (match o with JForget _ => False | _ => True end) ->
  jstep s o = Ok s' -> task_state s t = Some v -> terminal v ->
  task_state s' t = Some v \/ find_job (h_jobs (hq_of s')) (fst t) = None.
Proof. exact jstep_outcome_final. Qed.

(** A cancel that is answered leaves no task of the job without outcome. *)
Theorem C08_cancel_leaves_none : forall s jid j s',
  HOK (hq_of s) -> find_job (hq_jobs s) jid = Some j -> handle_cancel s jid = Ok s' ->
  exists j', find_job (h_jobs (hq_of s')) jid = Some j' /\ cnt (j_tasks j') JW + cnt (j_tasks j') JR = 0.
Proof. exact cancel_leaves_none. Qed.

Print Assumptions C08_cancel_leaves_none.
Print Assumptions C08_terminal_tasks_keep_outcome.
Print Assumptions C08_cancel_idempotent.
Print Assumptions C08_only_active_tasks_canceled.
Print Assumptions C08_worker_cancel_drops_backlog.
