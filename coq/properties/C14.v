(** C14 - max-fails: exceeding the limit aborts the rest of the job for good. *)
From HQ Require Import Base.Prelude Cluster.Types Cluster.Core Cluster.Reactor Cluster.Worker Cluster.Server Cluster.Sys Cluster.Monitors Cluster.ProofsJob Cluster.ProofsCore Cluster.ProofsMore Cluster.ProofsTerminal Cluster.ProofsStep Cluster.ProofsAll Cluster.BijFinal Cluster.NoPanicU0 Cluster.InvBundle Cluster.AbortCauseJob Cluster.AbortCauseItems Cluster.AbortCauseAll.
From Coq Require Import ZArith.
Local Open Scope N_scope.

(** The job layer asks the core to cancel tasks after a failure only if the job has a failure limit
    and the number of failed tasks exceeds it. *)
Theorem C14_abort_only_over_limit : forall s t aborted k s' ids,
  process_task_failed s t aborted k = Ok (s', ids) -> ids <> [] ->
  exists j mf, find_job (h_jobs (hq_of s')) (fst t) = Some j /\ j_maxfails j = Some mf /\ mf < j_nfail j.
Proof. exact max_fails_rule. Qed.

(** ... and when it does, EVERY task of the job that had no outcome is aborted: the job is left
    with no waiting and no running task. *)
Theorem C14_exceed_aborts_all : forall s t aborted k s' ids,
  HOK (hq_of s) -> process_task_failed s t aborted k = Ok (s', ids) -> ids <> [] ->
  exists j', find_job (h_jobs (hq_of s')) (fst t) = Some j' /\ cnt (j_tasks j') JW + cnt (j_tasks j') JR = 0.
Proof. exact exceed_aborts_all. Qed.

(** Tasks are aborted ONLY with a cause.  One step from a state with the invariants: every task
    named by a TasksAborted event either has a dependency that is aborted in the same event or
    fails in the very next event, or belongs to a job whose failure count (after the failures
    emitted so far in this step) exceeds its max-fails limit. *)
Theorem C14_step_abort_cause : forall s o s' outs pre ts post t,
  INV s -> op_wf o -> step s o = Ok (s', outs) ->
  outs = pre ++ OEv (EvAborted ts) :: post -> In t ts ->
  (exists tx d, find_task (c_tasks (s_core s)) t = Some tx /\ In d (t_deps tx) /\
     (In d ts \/ (exists k post', post = OEv (EvFailed d k) :: post'))) \/
  (exists j m, find_job (h_jobs (s_hq s)) (fst t) = Some j /\ j_maxfails j = Some m /\
     (m < j_nfail j + onfailed (fst t) pre)%N).
Proof. exact step_abort_cause. Qed.
(** ... and the executable trace monitor [abort_justified] accepts EVERY history (items built as the
    driver builds them: events + one item per accepted submit with its new ids / raw dependencies;
    limits = the max-fails limit of every job ever created). *)
Theorem C14_abort_justified : forall ops reserve maxfill s items,
  Forall op_wf ops -> ops_ok (init_sys reserve maxfill) ops = true ->
  run_items' [] (init_sys reserve maxfill) ops = Ok (s, items) ->
  abort_justified [] (limits_of reserve maxfill ops) [] [] items = true.
Proof. exact abort_justified_run. Qed.
Definition C14_abort_justified_limit_example := abort_justified_limit_example.
Definition C14_abort_justified_rejects := abort_justified_rejects.

Print Assumptions C14_abort_only_over_limit.
Print Assumptions C14_exceed_aborts_all.
Print Assumptions C14_step_abort_cause.
Print Assumptions C14_abort_justified.
Print Assumptions C14_abort_justified_limit_example.
Print Assumptions C14_abort_justified_rejects.
