(** C14 - max-fails: exceeding the limit aborts the rest of the job for good. *)
From HQ Require Import Base.Prelude Cluster.Types Cluster.Core Cluster.Reactor Cluster.Worker Cluster.Server Cluster.Sys Cluster.Monitors Cluster.ProofsJob Cluster.ProofsCore Cluster.ProofsMore Cluster.ProofsTerminal Cluster.ProofsStep Cluster.ProofsAll.
From Coq Require Import ZArith.
Local Open Scope N_scope.

(** The job layer asks the core to cancel tasks after a failure only if the job has a failure limit
    and the number of failed tasks exceeds it. *)
Theorem C14_abort_only_over_limit : forall s t aborted k s' ids,
  process_task_failed s t aborted k = Ok (s', ids) -> ids <> [] ->
  exists j mf, find_job (h_jobs (hq_of s')) (fst t) = Some j /\ j_maxfails j = Some mf /\ mf < j_nfail j.
Proof. exact max_fails_rule. Qed.

(** ... and when it does, EVERY task of the job that had no outcome is aborted: the job is left
    with no waiting and no running task. *)
Theorem C14_exceed_aborts_all : forall s t aborted k s' ids,
  HOK (hq_of s) -> process_task_failed s t aborted k = Ok (s', ids) -> ids <> [] ->
  exists j', find_job (h_jobs (hq_of s')) (fst t) = Some j' /\ cnt (j_tasks j') JW + cnt (j_tasks j') JR = 0.
Proof. exact exceed_aborts_all. Qed.

Print Assumptions C14_abort_only_over_limit.
Print Assumptions C14_exceed_aborts_all.
