(** C02 - No task is lost or stuck: runnable work always gets run, jobs terminate. *)
From HQ Require Import Base.Prelude Cluster.Types Cluster.Core Cluster.Reactor Cluster.Worker Cluster.Server Cluster.Sys Cluster.Monitors Cluster.ProofsJob Cluster.ProofsCore Cluster.ProofsMore.
From Coq Require Import ZArith.
Local Open Scope N_scope.

(** No phantom tasks from auto-assigned ids: the ids registered in the job for a submit with n
    entries are exactly the n ids after the largest existing one and all of them reach the core. *)
Theorem C02_auto_ids_no_phantoms : forall mx n,
  let ids := range_from (mx + 1) (N.to_nat n) in
  N.of_nat (length ids) = n
  /\ (forall x, In x ids <-> mx < x <= mx + n)
  /\ fst (take_n (N.to_nat n) ids) = ids.
Proof. exact auto_ids_exact. Qed.

(** The ready queue keeps its priority levels in descending order, and the scheduler takes the
    next multi-node task from the highest level. *)
Theorem C02_ready_queue_sorted : forall es id p, qe_desc es -> qe_desc (qe_add es id p).
Proof. exact qe_add_desc. Qed.

Print Assumptions C02_auto_ids_no_phantoms.
Print Assumptions C02_ready_queue_sorted.
