(** C02 - No task is lost or stuck: runnable work always gets run, jobs terminate. *)
From HQ Require Import Base.Prelude Cluster.Types Cluster.Core Cluster.Reactor Cluster.Worker Cluster.Server Cluster.Sys Cluster.Monitors Cluster.ProofsJob Cluster.ProofsCore Cluster.ProofsMore Cluster.BijBase Cluster.BijFinal Cluster.BijWitness Cluster.RejHyp Cluster.InvWFinal Cluster.InvAll Cluster.NoPanicU0 Cluster.NoPanicU1 Cluster.NoPanicU20 Cluster.NoFresh Cluster.RestU1 Cluster.RestU12 Cluster.RestU13 Cluster.InvBundle Cluster.NoWf Cluster.NoPanicFull Cluster.RetractFree Cluster.Wake Cluster.WakeStep Cluster.WakeWitness Cluster.WakeRest Cluster.WakeSubmit Cluster.WakeCancel.
From Coq Require Import ZArith.
Local Open Scope N_scope.

(** No phantom tasks from auto-assigned ids: the ids registered in the job for a submit with n
    entries are exactly the n ids after the largest existing one and all of them reach the core. *)
Theorem C02_auto_ids_no_phantoms : forall mx n,
  let ids := range_from (mx + 1) (N.to_nat n) in
  N.of_nat (length ids) = n
  /\ (forall x, In x ids <-> mx < x <= mx + n)
  /\ fst (take_n (N.to_nat n) ids) = ids.
Proof. exact auto_ids_exact. Qed.

(** The ready queue keeps its priority levels in descending order, and the scheduler takes the
    next multi-node task from the highest level. *)
Theorem C02_ready_queue_sorted : forall es id p, qe_desc es -> qe_desc (qe_add es id p).
Proof. exact qe_add_desc. Qed.

(** "The set of unfinished tasks shown to the user for a job is always exactly the set of tasks the
    scheduler knows about (no phantom and no orphan tasks)" - for EVERY history of the system model:
    client requests, message deliveries in any order, scheduling rounds with any solver answer,
    worker losses, task ends, timers. [op_wf]: a submit sends as many entries as explicit ids. *)
Theorem C02_no_phantom_no_orphan : forall ops reserve maxfill s outs,
  Forall op_wf ops -> run (init_sys reserve maxfill) ops = Ok (s, outs) ->
  forall t, In t (map t_id (c_tasks (s_core s))) <->
            exists j, find_job (h_jobs (s_hq s)) (fst t) = Some j /\
                      (jt_find (j_tasks j) (snd t) = Some JW \/ jt_find (j_tasks j) (snd t) = Some JR).
Proof. exact no_phantom_no_orphan. Qed.

(** The hypotheses are met by a history that reaches a non-trivial state. *)
Theorem C02_no_phantom_example : Forall op_wf good_ops /\ exists s outs, run (init_sys 0 2) good_ops = Ok (s, outs)
  /\ map t_id (c_tasks (s_core s)) = [(1, 4); (1, 5); (1, 6); (2, 0)].
Proof. exact (conj good_ops_wf good_ops_run). Qed.

(** Finding F26 (fixed): a submit with three explicit ids and two entries was accepted by
    [handle_submit_array] - the job shows three waiting tasks, the scheduler knows two; since the
    repair the request is refused before it gets there, state untouched.  (The hypothesis [op_wf]
    of the theorems above is therefore true of every ACCEPTED submit.) *)
Theorem C02_ids_longer_than_entries_refuted :
  (exists s outs j, handle_submit_array (init_sys 0 2, []) None [4; 5; 6] (Some 2) BijWitness.rq1 0%Z CUnl false None = Ok (s, outs)
     /\ find_job (h_jobs (s_hq s)) 1 = Some j /\ jt_find (j_tasks j) 6 = Some JW
     /\ ~ In (1, 6) (map t_id (c_tasks (s_core s))))
  /\ run (init_sys 0 2) bad_ops = Ok (init_sys 0 2, [OResp (RSubmitErr 6 0)]).
Proof. exact bad_ops_phantom. Qed.

(** The server-side worker bookkeeping agrees with the task states in EVERY reachable state: every
    id in a worker's assigned / prefilled set is a task placed there, and conversely every placed
    task is in exactly the set its state names; a multi-node task's workers are reserved for it
    ([Mn t]: such a worker has no single-node set at all, it runs nothing else).
    Hypotheses: [op_wf] (entries as many as explicit ids) and the executable channel / solver-answer
    hypothesis [run_fresh] of RejHyp.v (monitored on every explored history). *)
Theorem C02_worker_sets_invariant : forall ops reserve maxfill s outs,
  Forall op_wf ops -> run_fresh (init_sys reserve maxfill) ops = true -> run (init_sys reserve maxfill) ops = Ok (s, outs) ->
  let c := s_core s in
  forallb (worker_sets_ok c) (c_workers c) = true /\
  (forall t, In t (c_tasks c) ->
     match t_state t with
     | Assigned w _ | Running w _ => (exists wk a p f, find_worker (c_workers c) w = Some wk /\ w_assign wk = Sn a p f /\ tid_mem (t_id t) a = true)
     | Prefilled w => (exists wk a p f, find_worker (c_workers c) w = Some wk /\ w_assign wk = Sn a p f /\ tid_mem (t_id t) p = true)
     | Retracting _ => forall target rv, find_redirect (c_redirects c) (t_id t) = Some (target, rv) ->
                         exists wk a p f, find_worker (c_workers c) target = Some wk /\ w_assign wk = Sn a p f /\ tid_mem (t_id t) a = true
     | RunningMN ws => forall w, In w ws -> exists wk root, find_worker (c_workers c) w = Some wk /\ w_assign wk = Mn (t_id t) root
     | _ => True
     end).
Proof. exact worker_sets_invariant. Qed.

(** The queue half of "no limbo": in EVERY reachable state the scheduler's queues agree with the task
    states - a task is in the ready queue of its request class iff it is Waiting with no unfinished
    dependency (or being retracted without a new destination), in the prefill set iff it is
    Prefilled, nowhere otherwise; every id in a queue is a live task of that class.
    Hypotheses as for the worker half: [op_wf] and the executable [run_fresh] (RejHyp.v). *)
Theorem C02_queue_invariant : forall ops reserve maxfill s outs,
  Forall op_wf ops -> run_fresh (init_sys reserve maxfill) ops = true -> run (init_sys reserve maxfill) ops = Ok (s, outs) ->
  let c := s_core s in
  queues_live_ok c = true /\
  (forall t, In t (c_tasks c) ->
     let q := queue_of c (t_rq t) in
     match t_state t with
     | Waiting n => in_ready q (t_id t) = N.eqb n 0 /\ in_prefill q (t_id t) = false
     | Prefilled _ => in_prefill q (t_id t) = true /\ in_ready q (t_id t) = false
     | Retracting _ => in_prefill q (t_id t) = false /\
                       (in_ready q (t_id t) = match find_redirect (c_redirects c) (t_id t) with Some _ => false | None => true end)
     | Assigned _ _ | Running _ _ | RunningMN _ => in_ready q (t_id t) = false /\ in_prefill q (t_id t) = false
     | Finished => False
     end) /\
  (forall rq q id, nth_error (c_queues c) rq = Some q -> (in_ready q id = true \/ in_prefill q id = true) ->
     exists t, find_task (c_tasks c) id = Some t /\ N.to_nat (t_rq t) = rq).
Proof. exact queue_invariant_reachable. Qed.

(** The hypothesis [run_fresh] of the invariants above is DERIVED (protocol invariant PROTO,
    NoPanicU*.v): the same statement under the static well-formedness [ops_ok] of the inputs
    (multi-node classes carry no resource amounts; scheduler answers use variant 0 and place
    classes in their own mode). *)
Theorem C02_worker_sets_invariant_static : forall ops reserve maxfill s outs,
  Forall op_wf ops -> ops_ok (init_sys reserve maxfill) ops = true -> run (init_sys reserve maxfill) ops = Ok (s, outs) ->
  let c := s_core s in
  forallb (worker_sets_ok c) (c_workers c) = true /\
  (forall t, In t (c_tasks c) ->
     match t_state t with
     | Assigned w _ | Running w _ => (exists wk a p f, find_worker (c_workers c) w = Some wk /\ w_assign wk = Sn a p f /\ tid_mem (t_id t) a = true)
     | Prefilled w => (exists wk a p f, find_worker (c_workers c) w = Some wk /\ w_assign wk = Sn a p f /\ tid_mem (t_id t) p = true)
     | Retracting _ => forall target rv, find_redirect (c_redirects c) (t_id t) = Some (target, rv) ->
                         exists wk a p f, find_worker (c_workers c) target = Some wk /\ w_assign wk = Sn a p f /\ tid_mem (t_id t) a = true
     | RunningMN ws => forall w, In w ws -> exists wk root, find_worker (c_workers c) w = Some wk /\ w_assign wk = Mn (t_id t) root
     | _ => True
     end).
Proof. exact worker_sets_invariant_ops. Qed.
Theorem C02_run_fresh_derived : forall ops reserve maxfill s outs,
  Forall op_wf ops -> ops_ok (init_sys reserve maxfill) ops = true -> run (init_sys reserve maxfill) ops = Ok (s, outs) ->
  run_fresh (init_sys reserve maxfill) ops = true.
Proof. exact fresh_of_ops. Qed.

(** NO TASK IN LIMBO AT REST (the safety part of the progress half).  In every reachable state in
    which the system is at rest - the scheduler has nothing to do ([c_flag] off) and every worker
    process has empty channels, no running task and no future ([at_rest]) - every task the
    scheduler knows is Waiting, with one exception that is real in the model: a task Prefilled on a
    worker whose entry is still in that worker's backlog (only the solver moves it; with empty
    backlogs: all Waiting).  No task is Assigned, Retracting or Running with nothing behind it.
    Hypotheses on the inputs only ([op_wf], [ops_ok]). *)
Theorem C02_at_rest_waiting_or_backlog : forall ops reserve maxfill s outs,
  Forall op_wf ops -> ops_ok (init_sys reserve maxfill) ops = true -> run (init_sys reserve maxfill) ops = Ok (s, outs) ->
  at_rest s -> forall x t, find_task (c_tasks (s_core s)) x = Some t ->
  match t_state t with
  | Waiting _ => True
  | Prefilled w => exists p, find_proc (s_procs s) w = Some p /\ bl_count x (p_backlog p) = 1%nat
  | _ => False
  end.
Proof. exact at_rest_waiting_or_backlog. Qed.
Theorem C02_at_rest_all_waiting : forall ops reserve maxfill s outs,
  Forall op_wf ops -> ops_ok (init_sys reserve maxfill) ops = true -> run (init_sys reserve maxfill) ops = Ok (s, outs) ->
  at_rest s -> (forall p, In p (s_procs s) -> p_backlog p = []) ->
  forall t, In t (c_tasks (s_core s)) -> exists n, t_state t = Waiting n.
Proof. exact at_rest_all_waiting. Qed.
(** ... in the form of the driver's monitor `task-in-limbo-at-rest`, and two corollaries. *)
Theorem C02_at_rest_monitor : forall ops reserve maxfill s outs,
  Forall op_wf ops -> ops_ok (init_sys reserve maxfill) ops = true -> run (init_sys reserve maxfill) ops = Ok (s, outs) ->
  at_rest_mon s = true -> forallb (fun p => is_nilb (p_backlog p)) (s_procs s) = true -> all_waiting s = true.
Proof. exact at_rest_monitor. Qed.
Theorem C02_at_rest_no_redirects : forall ops reserve maxfill s outs,
  Forall op_wf ops -> ops_ok (init_sys reserve maxfill) ops = true -> run (init_sys reserve maxfill) ops = Ok (s, outs) ->
  at_rest s -> c_redirects (s_core s) = [].
Proof. exact at_rest_no_redirects. Qed.
Theorem C02_at_rest_no_assigned : forall ops reserve maxfill s outs,
  Forall op_wf ops -> ops_ok (init_sys reserve maxfill) ops = true -> run (init_sys reserve maxfill) ops = Ok (s, outs) ->
  at_rest s -> forall w wk a p f, find_worker (c_workers (s_core s)) w = Some wk -> w_assign wk = Sn a p f -> a = [].
Proof. exact at_rest_no_assigned. Qed.

(** The hypothesis [op_wf] can be dropped from every statement about reachable states: since the
    repair of finding F26 an operation that is not [op_wf] is refused (a stutter step), so every
    reachable state is reachable by a well-formed history. *)
Theorem C02_op_wf_not_needed : forall (P : sys -> Prop) r m,
  (forall ops s outs, Forall op_wf ops -> ops_ok (init_sys r m) ops = true -> run (init_sys r m) ops = Ok (s, outs) -> P s) ->
  forall ops s outs, ops_ok (init_sys r m) ops = true -> run (init_sys r m) ops = Ok (s, outs) -> P s.
Proof. exact reach_drop_wf. Qed.
Theorem C02_all_invariants_inputs_only : forall ops r m s outs,
  ops_ok (init_sys r m) ops = true -> run (init_sys r m) ops = Ok (s, outs) -> INV s /\ PROTO s.
Proof. exact reachable_all_nowf. Qed.

(** "RUNNABLE WORK IS NOT FORGOTTEN" (the progress half, as far as it is a safety property).
    The scheduler sleeps while the flag [c_flag] is off; a round clears it.  [placeable c]
    (Cluster/Wake.v, executable): some request class holding a ready task of the top ready priority
    fits a connected worker NOW (single-node: worker in single-node mode, not stopping, class not
    blocked there, free amounts cover the request; multi-node: some group has enough free
    workers, free as [Worker::is_free] after the repair of F28).  [sched_complete s sol]: the
    solver's completeness contract for one answer - on the state after the round nothing is
    placeable.  [wake_inv s]: flag on, or nothing placeable, or a task in flight ([busy]: the
    worker owes the server a message that sets the flag).

    The full statement - NOT proved, and false of the server as it was (the three witnesses
    below; F30 and F31 reproduced on the real code and since repaired, the third is a witness of
    the model that the real solver's choices avoid): *)
Definition C02_wakeup_full : Prop := forall ops r m s outs,
  ops_ok (init_sys r m) ops = true -> ops_complete (init_sys r m) ops = true ->
  run (init_sys r m) ops = Ok (s, outs) -> wake_inv s = true.

(** What is proved: [wake_inv] is preserved by EVERY operation, where for OpCancel, OpDUp, OpSubmit,
    OpSubmitG this is an executable per-step hypothesis ([ops_wake_checked]: [wake_inv] holds after
    the step - a monitor), and for all other operations - worker connection and loss (flag left
    set), scheduling rounds (contract), open / close / forget / prune, deliveries to workers,
    task ends, timers (core untouched) - it is a theorem. *)
Theorem C02_wakeup_step_partial : forall s o s' outs,
  wake_inv s = true -> step s o = Ok (s', outs) -> op_complete s o = true -> op_wake_checked s o = true -> wake_inv s' = true.
Proof. exact wake_step. Qed.
Theorem C02_wakeup_partial : forall r m ops s outs,
  run (init_sys r m) ops = Ok (s, outs) -> ops_complete (init_sys r m) ops = true -> ops_wake_checked (init_sys r m) ops = true ->
  wake_inv s = true.
Proof. exact wake_reachable. Qed.

(** The property's text at rest: every non-terminal task of the JOB LAYER is known to the scheduler
    and is (a) waiting for an unfinished dependency, or (b) ready while its class - if it holds a
    ready task of the top ready priority - fits no connected worker (a lower-priority class waits
    behind a top-priority class that fits nowhere: C15's rule), or (c) prefilled with its entry in
    the worker's backlog.  First from [wake_inv] in the state itself, then for histories. *)
Theorem C02_rest_no_runnable_work_inv : forall ops r m s outs,
  Forall op_wf ops -> ops_ok (init_sys r m) ops = true -> run (init_sys r m) ops = Ok (s, outs) -> at_rest s -> wake_inv s = true ->
  forall j jb i, find_job (h_jobs (s_hq s)) j = Some jb -> (jt_find (j_tasks jb) i = Some JW \/ jt_find (j_tasks jb) i = Some JR) ->
  exists t, find_task (c_tasks (s_core s)) (j, i) = Some t /\
    match t_state t with
    | Waiting n =>
        n <> 0 \/
        (n = 0 /\ forall top, queues_top_priority (c_queues (s_core s)) = Some top ->
                    at_top top (queue_of (s_core s) (t_rq t)) = true -> class_fits (s_core s) (N.to_nat (t_rq t)) = false)
    | Prefilled w => exists p, find_proc (s_procs s) w = Some p /\ bl_count (j, i) (p_backlog p) = 1%nat
    | _ => False
    end.
Proof. exact rest_no_runnable_work_inv. Qed.
Theorem C02_rest_no_runnable_work : forall ops r m s outs,
  Forall op_wf ops -> ops_ok (init_sys r m) ops = true -> ops_complete (init_sys r m) ops = true -> ops_wake_checked (init_sys r m) ops = true ->
  run (init_sys r m) ops = Ok (s, outs) -> at_rest s ->
  forall j jb i, find_job (h_jobs (s_hq s)) j = Some jb -> (jt_find (j_tasks jb) i = Some JW \/ jt_find (j_tasks jb) i = Some JR) ->
  exists t, find_task (c_tasks (s_core s)) (j, i) = Some t /\ task_at_rest_ok s (j, i) t.
Proof. exact rest_no_runnable_work. Qed.
Theorem C02_rest_nothing_placeable : forall ops r m s outs,
  Forall op_wf ops -> ops_ok (init_sys r m) ops = true -> ops_complete (init_sys r m) ops = true -> ops_wake_checked (init_sys r m) ops = true ->
  run (init_sys r m) ops = Ok (s, outs) -> at_rest s -> placeable (s_core s) = false.
Proof. exact rest_nothing_placeable. Qed.

(** The submits are proved too (a submit that creates a task leaves the flag set; one that creates none
    at most appends empty request classes - needs the queue invariant, hence [op_wf] / [ops_ok]):
    the checked steps are OpCancel and OpDUp only ([ops_wake_checked_cd]) - the two operations in
    which the lost wake-ups below were found. *)
Theorem C02_wakeup_partial_cd : forall r m ops s outs,
  Forall op_wf ops -> ops_ok (init_sys r m) ops = true -> ops_complete (init_sys r m) ops = true -> ops_wake_checked_cd (init_sys r m) ops = true ->
  run (init_sys r m) ops = Ok (s, outs) -> wake_inv s = true.
Proof. exact wake_reachable_cd. Qed.
Theorem C02_rest_no_runnable_work_cd : forall ops r m s outs,
  Forall op_wf ops -> ops_ok (init_sys r m) ops = true -> ops_complete (init_sys r m) ops = true -> ops_wake_checked_cd (init_sys r m) ops = true ->
  run (init_sys r m) ops = Ok (s, outs) -> at_rest s ->
  forall j jb i, find_job (h_jobs (s_hq s)) j = Some jb -> (jt_find (j_tasks jb) i = Some JW \/ jt_find (j_tasks jb) i = Some JR) ->
  exists t, find_task (c_tasks (s_core s)) (j, i) = Some t /\ task_at_rest_ok s (j, i) t.
Proof. exact rest_no_runnable_work_cd. Qed.

(** ... and so are all cancels except the QUIET ones ([cancel_quiet]: every live task of the job that
    the scheduler knows is Prefilled): [on_cancel_tasks] asks for scheduling in every arm but the
    Prefilled one, so a cancel that finds a task in any other state leaves the flag set.  Checked
    steps ([ops_wake_checked_q]): OpDUp and quiet cancels - exactly where the three witnesses live. *)
Theorem C02_wakeup_partial_q : forall r m ops s outs,
  Forall op_wf ops -> ops_ok (init_sys r m) ops = true -> ops_complete (init_sys r m) ops = true -> ops_wake_checked_q (init_sys r m) ops = true ->
  run (init_sys r m) ops = Ok (s, outs) -> wake_inv s = true.
Proof. exact wake_reachable_q. Qed.
Theorem C02_cancel_sets_flag : forall s j s' outs,
  step s (OpCancel j) = Ok (s', outs) -> cancel_quiet s j = false -> c_flag (s_core s') = true.
Proof. exact step_cancel_flag. Qed.
Theorem C02_rest_no_runnable_work_q : forall ops r m s outs,
  Forall op_wf ops -> ops_ok (init_sys r m) ops = true -> ops_complete (init_sys r m) ops = true -> ops_wake_checked_q (init_sys r m) ops = true ->
  run (init_sys r m) ops = Ok (s, outs) -> at_rest s ->
  forall j jb i, find_job (h_jobs (s_hq s)) j = Some jb -> (jt_find (j_tasks jb) i = Some JW \/ jt_find (j_tasks jb) i = Some JR) ->
  exists t, find_task (c_tasks (s_core s)) (j, i) = Some t /\ task_at_rest_ok s (j, i) t.
Proof. exact rest_no_runnable_work_q. Qed.

(** The hypotheses are satisfiable on a non-trivial history at rest: a task too big for the
    connected worker stays ready, a fitting one has run; both scheduling answers are complete. *)
Theorem C02_rest_example :
  Forall op_wf ex_ops /\ ops_ok (init_sys 0 2) ex_ops = true /\ ops_complete (init_sys 0 2) ex_ops = true /\
  ops_wake_checked (init_sys 0 2) ex_ops = true /\
  exists s outs, run (init_sys 0 2) ex_ops = Ok (s, outs) /\ at_rest s /\
    map (fun t => (t_id t, t_state t)) (c_tasks (s_core s)) = [((1, 0), Waiting 0)] /\
    class_fits (s_core s) 0 = false /\ placeable (s_core s) = false /\
    map (fun jb => (j_id jb, j_tasks jb)) (h_jobs (s_hq s)) = [(1, [(0, JW)]); (2, [(0, JF)])].
Proof. exact rest_example. Qed.

(** LOST WAKE-UPS (findings F30, F31, and a third of the model only): histories of the transition
    system with the functions as they were before the repairs ([step_pre] / [run_pre] of
    Cluster/WakeWitness.v) that meet every hypothesis - [op_wf], [hyp] = [op_ok] + [sol_ok] +
    [sched_retract_ok] + distinct ids, every answer [sched_complete] - and end at rest, nothing in
    flight, flag off, with a ready task of the top priority that fits the idle worker.
    F30: the worker's [Finished t; RunningPrefilled t'] meets a cancel of t' (reproduced).
    F31: [on_retract_response] never asks for scheduling (reproduced).
    Third: the Prefilled arm of [on_cancel_tasks] does not ask (model; the real solver re-places
    the prefilled task first). *)
Theorem C02_lost_wakeup_prefill_pair_cancel_refuted : lost_wakeup 0 1 w1_ops.
Proof. exact wakeup_prefill_pair_cancel_refuted. Qed.
Theorem C02_lost_wakeup_retract_response_refuted : lost_wakeup 0 2 w2_ops.
Proof. exact wakeup_retract_response_refuted. Qed.
Theorem C02_lost_wakeup_cancel_prefilled_refuted : lost_wakeup 0 2 w3_ops.
Proof. exact wakeup_cancel_prefilled_refuted. Qed.

Print Assumptions C02_queue_invariant.
Print Assumptions C02_worker_sets_invariant.
Print Assumptions C02_no_phantom_no_orphan.
Print Assumptions C02_no_phantom_example.
Print Assumptions C02_ids_longer_than_entries_refuted.
Print Assumptions C02_auto_ids_no_phantoms.
Print Assumptions C02_ready_queue_sorted.
Print Assumptions C02_worker_sets_invariant_static.
Print Assumptions C02_run_fresh_derived.
Print Assumptions C02_at_rest_waiting_or_backlog.
Print Assumptions C02_at_rest_all_waiting.
Print Assumptions C02_at_rest_monitor.
Print Assumptions C02_at_rest_no_redirects.
Print Assumptions C02_at_rest_no_assigned.
Print Assumptions C02_op_wf_not_needed.
Print Assumptions C02_all_invariants_inputs_only.
Print Assumptions C02_wakeup_step_partial.
Print Assumptions C02_wakeup_partial.
Print Assumptions C02_rest_no_runnable_work_inv.
Print Assumptions C02_rest_no_runnable_work.
Print Assumptions C02_rest_nothing_placeable.
Print Assumptions C02_rest_example.
Print Assumptions C02_lost_wakeup_prefill_pair_cancel_refuted.
Print Assumptions C02_lost_wakeup_retract_response_refuted.
Print Assumptions C02_lost_wakeup_cancel_prefilled_refuted.
Print Assumptions C02_wakeup_partial_cd.
Print Assumptions C02_rest_no_runnable_work_cd.
Print Assumptions C02_wakeup_partial_q.
Print Assumptions C02_cancel_sets_flag.
Print Assumptions C02_rest_no_runnable_work_q.
