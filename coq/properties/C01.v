(** C01 - Every task gets exactly one terminal outcome, reported once, in order. *)
From HQ Require Import Base.Prelude Cluster.Types Cluster.Core Cluster.Reactor Cluster.Worker Cluster.Server Cluster.Sys Cluster.Monitors Cluster.ProofsJob Cluster.ProofsCore Cluster.ProofsMore Cluster.ProofsTerminal Cluster.ProofsStep Cluster.ProofsFinal Cluster.BijBase Cluster.ProofsOnce Cluster.RejHyp Cluster.BijFinal Cluster.StartFinBase Cluster.StartFin Cluster.StartFin2Base Cluster.StartFin2 Cluster.NoPanicU0 Cluster.ExecU19 Cluster.SilentBase Cluster.SilentStart Cluster.SilentRan.
From Coq Require Import ZArith.
Local Open Scope N_scope.

(** A finish is recorded (and TaskFinished emitted) only for a task the job layer shows Running:
    a finish without a preceding start, or after another outcome, is refused (the server panics
    rather than report it - see C09 for why that panic is unreachable). *)
Theorem C01_finished_only_from_running : forall s t s',
  process_task_finished s t = Ok s' -> task_state s t = Some JR.
Proof. exact finished_only_from_running. Qed.

(** A failure is recorded only for a task that has no outcome yet. *)
Theorem C01_failed_only_from_active : forall s t aborted k r,
  process_task_failed s t aborted k = Ok r ->
  exists s1, abort_tasks s (fst t) aborted = Ok s1 /\ (task_state s1 t = Some JW \/ task_state s1 t = Some JR).
Proof. exact failed_only_from_active. Qed.

(** Cancel / abort are recorded only for tasks without outcome, each at most once per call. *)
Theorem C01_cancel_abort_only_from_active : forall target site ids, (target = JC \/ target = JA) -> forall j j',
  mark_tasks j ids target site = Ok j' ->
  forall t, In t ids -> jt_find (j_tasks j) (snd t) = Some JW \/ jt_find (j_tasks j) (snd t) = Some JR.
Proof. exact mark_only_from_active. Qed.

(** An outcome is final, for the WHOLE system model: along any history of operations (client
    requests incl. submits and forgets, message deliveries in any order, scheduling rounds with any
    solver answer, worker losses, task ends, timers), once an outcome is recorded for a task every
    later state shows the same outcome - or the task's whole job has been forgotten, and a forgotten
    job id is never used again. *)
Theorem C01_outcome_final_system : forall ops1 ops2 reserve maxfill s1 o1 s2 o2 t v,
  run (init_sys reserve maxfill) ops1 = Ok (s1, o1) ->
  run s1 ops2 = Ok (s2, o2) ->
  task_state (s1, []) t = Some v -> terminal v ->
  task_state (s2, []) t = Some v \/ find_job (h_jobs (s_hq s2)) (fst t) = None.
Proof. exact outcome_final. Qed.

(** An outcome is final: once the job layer has recorded an outcome for a task, no client request
    and no task-progress callback - in any order, also ones the scheduler core would never send -
    changes it (the job id counter being ahead of all job ids, as it is after every history). *)
Theorem C01_outcome_final : forall s o s' t v,
  (forall j, In j (h_jobs (hq_of s)) -> j_id j < h_counter (hq_of s)) ->
  (match o with JForget _ => False | _ => True end) ->
  jstep s o = Ok s' -> task_state s t = Some v -> terminal v ->
  task_state s' t = Some v \/ find_job (h_jobs (hq_of s')) (fst t) = None.
Proof. exact jstep_outcome_final. Qed.

(** Only forgetting removes outcomes, together with the whole job, and only for a closed job all of
    whose tasks have an outcome. *)
Theorem C01_forget_only_terminated : forall s jid s',
  HOK (hq_of s) -> handle_forget s jid = Ok s' -> hq_of s' <> hq_of s ->
  exists j, find_job (hq_jobs s) jid = Some j /\ j_open j = false /\ cnt (j_tasks j) JW = 0 /\ cnt (j_tasks j) JR = 0.
Proof. exact forget_only_terminated. Qed.

(** "Reported once": in the events emitted along ANY history of the system model, every task is
    named by at most one terminal event (finished / failed / canceled / aborted), and a task that
    got one has a terminal outcome in the job layer - or its job has been forgotten. *)
Theorem C01_terminal_event_once : forall ops reserve maxfill s outs t,
  run (init_sys reserve maxfill) ops = Ok (s, outs) ->
  (count_occ tid_dec (terminal_ids outs) t <= 1)%nat /\
  (count_occ tid_dec (terminal_ids outs) t = 1%nat ->
     (exists v, task_state (s, []) t = Some v /\ terminal v) \/ find_job (h_jobs (s_hq s)) (fst t) = None).
Proof. exact terminal_event_once. Qed.

(** A history in which a task finishes: the premise is satisfiable with a non-empty event stream. *)
Theorem C01_terminal_event_example : exists s outs, run (init_sys 0 2) once_ops = Ok (s, outs)
  /\ terminal_ids outs = [(1, 0)] /\ task_state (s, []) (1, 0) = Some JF.
Proof. exact once_example. Qed.

(** "In order": in the event stream of EVERY history (no hypothesis), each TaskFinished of a task is
    preceded by a TaskStarted of the same task with no terminal event of the task in between - and,
    with [terminal_event_once], no terminal event of the task anywhere else in the stream. *)
Theorem C01_finished_after_started : forall ops reserve maxfill s outs pre t post,
  run (init_sys reserve maxfill) ops = Ok (s, outs) ->
  outs = pre ++ OEv (EvFinished t) :: post ->
  (exists a i ws rv b, pre = a ++ OEv (EvStarted t i ws rv) :: b /\ ~ In t (terminal_ids b)) /\
  ~ In t (terminal_ids pre) /\ ~ In t (terminal_ids post).
Proof.
  intros ops reserve maxfill s outs pre t post H E. split.
  - exact (finished_after_started ops reserve maxfill s outs H pre t post E).
  - exact (proj2 (finished_after_started_strong ops reserve maxfill s outs pre t post H E)).
Qed.

(** ... and the start it belongs to is the CURRENT one: after the last TaskStarted of the task
    before its TaskFinished there is no further start of the task, no terminal event of it, and the
    worker that started it (the root, for a multi-node task) has not been lost. *)
Theorem C01_finished_after_current_start : forall ops reserve maxfill s outs pre t post,
  Forall op_wf ops -> run_fresh (init_sys reserve maxfill) ops = true ->
  run (init_sys reserve maxfill) ops = Ok (s, outs) ->
  outs = pre ++ OEv (EvFinished t) :: post ->
  exists w a i ws rv b, pre = a ++ OEv (EvStarted t i ws rv) :: b /\ hd_error ws = Some w /\
    (forall i' ws' rv', ~ In (OEv (EvStarted t i' ws' rv')) b) /\
    ~ In t (terminal_ids b) /\ (forall r, ~ In (OEv (EvWLost w r)) b).
Proof.
  intros ops reserve maxfill s outs pre t post Hwf Hf H E.
  destruct (finished_after_started_no_loss ops reserve maxfill s outs Hwf Hf H pre t post E) as (w & a & i & ws & rv & b & X).
  exists w, a, i, ws, rv, b. exact X.
Qed.

(** The executable form of the first statement (used as a trace monitor), and non-vacuity. *)
Theorem C01_fas_check_spec : forall outs, fas_check outs = true <-> FAS outs.
Proof. exact fas_check_spec. Qed.
Definition C01_fas_example := fas_example.
Definition C01_fas2_example := fas2_example.
(** A failure event does NOT presuppose a start (launch failure; crash limit of a task whose
    worker was lost before it reported the start): witnesses. *)
Definition C01_failed_without_start_launch := failed_needs_start_refuted_launch.
Definition C01_failed_without_start_crash_mn := failed_needs_start_refuted_crash_mn.

(** "Finished means it ran", worker half: whatever a connected worker process runs, or reports as
    finished / failed with kind FTask / FTimeLimit (the message is still in its channel, hence also
    at the moment the server takes it), that same process launched successfully before - and the
    worker was not lost in between (it is still connected).  Not proved: that the server emits
    TaskFinished only while processing such a message (the link events <-> messages). *)
Theorem C01_reported_means_ran_partial : forall ops reserve maxfill s outs,
  Forall op_wf ops -> ops_ok (init_sys reserve maxfill) ops = true -> run (init_sys reserve maxfill) ops = Ok (s, outs) ->
  forall p x us, In p (s_procs s) ->
    (run_find (p_running p) x <> None \/
     (In (UUpdates us) (p_up p) /\ (In (UFinished x) us \/ In (UFailed x FTask) us \/ In (UFailed x FTimeLimit) us))) ->
    exists a l b, outs = a ++ OLaunch l :: b /\ l_w l = p_id p /\ l_t l = x /\ l_ok l = true.
Proof. exact reported_means_ran_partial. Qed.

(** SILENT AFTER TERMINAL (every history, no hypothesis): once a terminal event of a task is in the
    stream, no later event names the task at all - no second outcome, no start. *)
Theorem C01_silent_after_terminal : forall ops reserve maxfill s outs,
  run (init_sys reserve maxfill) ops = Ok (s, outs) ->
  forall pre e post t, outs = pre ++ OEv e :: post -> In t (terminal_ids [OEv e]) ->
  forall e', In (OEv e') post -> ~ In t (ev_names e').
Proof. exact silent_after_terminal. Qed.

(** FINISHED MEANS IT RAN: every TaskFinished (and every TaskFailed with kind task error / time
    limit) is emitted while the server processes a message of a worker that contains the report,
    and that worker launched the task successfully before. *)
Theorem C01_finished_means_ran : forall ops reserve maxfill s outs pre x post,
  Forall op_wf ops -> ops_ok (init_sys reserve maxfill) ops = true ->
  run (init_sys reserve maxfill) ops = Ok (s, outs) ->
  outs = pre ++ OEv (EvFinished x) :: post ->
  exists a l b us d,
    pre = a ++ OLaunch l :: b ++ OUp (l_w l) (UUpdates us) :: d /\
    l_t l = x /\ l_ok l = true /\ In (UFinished x) us /\ Forall not_up d.
Proof. exact finished_means_ran. Qed.
Theorem C01_failed_means_ran : forall ops reserve maxfill s outs pre x k post,
  Forall op_wf ops -> ops_ok (init_sys reserve maxfill) ops = true ->
  run (init_sys reserve maxfill) ops = Ok (s, outs) ->
  outs = pre ++ OEv (EvFailed x k) :: post -> k = FTask \/ k = FTimeLimit ->
  exists a l b us d,
    pre = a ++ OLaunch l :: b ++ OUp (l_w l) (UUpdates us) :: d /\
    l_t l = x /\ l_ok l = true /\ In (UFailed x k) us /\ Forall not_up d.
Proof. exact failed_means_ran. Qed.

Print Assumptions C01_terminal_event_once.
Print Assumptions C01_terminal_event_example.
Print Assumptions C01_outcome_final_system.
Print Assumptions C01_outcome_final.
Print Assumptions C01_forget_only_terminated.
Print Assumptions C01_finished_only_from_running.
Print Assumptions C01_failed_only_from_active.
Print Assumptions C01_cancel_abort_only_from_active.
Print Assumptions C01_finished_after_started.
Print Assumptions C01_finished_after_current_start.
Print Assumptions C01_fas_check_spec.
Print Assumptions C01_fas_example.
Print Assumptions C01_fas2_example.
Print Assumptions C01_failed_without_start_launch.
Print Assumptions C01_failed_without_start_crash_mn.
Print Assumptions C01_reported_means_ran_partial.
Print Assumptions C01_silent_after_terminal.
Print Assumptions C01_finished_means_ran.
Print Assumptions C01_failed_means_ran.
