(** C01 - Every task gets exactly one terminal outcome, reported once, in order. *)
From HQ Require Import Base.Prelude Cluster.Types Cluster.Core Cluster.Reactor Cluster.Worker Cluster.Server Cluster.Sys Cluster.Monitors Cluster.ProofsJob Cluster.ProofsCore Cluster.ProofsMore.
From Coq Require Import ZArith.
Local Open Scope N_scope.

(** A finish is recorded (and TaskFinished emitted) only for a task the job layer shows Running:
    a finish without a preceding start, or after another outcome, is refused (the server panics
    rather than report it - see C09 for why that panic is unreachable). *)
Theorem C01_finished_only_from_running : forall s t s',
  process_task_finished s t = Ok s' -> task_state s t = Some JR.
Proof. exact finished_only_from_running. Qed.

(** A failure is recorded only for a task that has no outcome yet. *)
Theorem C01_failed_only_from_active : forall s t aborted k r,
  process_task_failed s t aborted k = Ok r ->
  exists s1, abort_tasks s (fst t) aborted = Ok s1 /\ (task_state s1 t = Some JW \/ task_state s1 t = Some JR).
Proof. exact failed_only_from_active. Qed.

(** Cancel / abort are recorded only for tasks without outcome, each at most once per call. *)
Theorem C01_cancel_abort_only_from_active : forall target site ids, (target = JC \/ target = JA) -> forall j j',
  mark_tasks j ids target site = Ok j' ->
  forall t, In t ids -> jt_find (j_tasks j) (snd t) = Some JW \/ jt_find (j_tasks j) (snd t) = Some JR.
Proof. exact mark_only_from_active. Qed.

Print Assumptions C01_finished_only_from_running.
Print Assumptions C01_failed_only_from_active.
Print Assumptions C01_cancel_abort_only_from_active.
