(** C04 - Worker resources are exclusive and conserved. *)
From HQ Require Import Base.Prelude Gen.Consts Alloc.Model Alloc.Spec Alloc.Examples.

Theorem C04_example_run : exists s, ex_final = Ok s /\ s_live s = [].
Proof. exact ex_run_ok. Qed.

Print Assumptions C04_example_run.
