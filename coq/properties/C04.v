(** C04 - Worker resources are exclusive and conserved.
    Only statements closed by [exact]; the proofs live in HQ.Alloc.{Group,Pool,Inv,System,Theorems}.

    Reading guide.  [init d] = ResourceAllocator::new on a validated descriptor; [run s0 ops] replays any
    sequence of try_allocate / release_allocation / is_enabled calls with any witnesses (solver answers,
    tie breaks) the model accepts; [s_live s] = the allocations running tasks hold in state s;
    [worker_pools s0] = the initial pools (they define which (resource, group, index) the worker owns:
    [in_universe]); [live_held live r g i] = fractions of index i (group g, resource r) held by the live
    allocations (a whole index counts FRACTIONS_PER_UNIT); [pools_free] = free fractions of that index. *)
From HQ Require Import Base.Prelude Gen.Consts Alloc.Model Alloc.Spec Alloc.Lemmas Alloc.Group Alloc.Pool Alloc.Inv Alloc.System Alloc.Theorems Alloc.Mirror Alloc.MirrorSystem Alloc.Complete Alloc.CompleteTight Alloc.Admission Alloc.AllFree Alloc.CompleteAll Alloc.Examples.
Open Scope N_scope.

(** No individual resource is ever held beyond 100 %, and nothing but the worker's own indices is held. *)
Theorem C04_exclusive : forall d s0 ops s r p0 g i,
  init d = Ok s0 -> run s0 ops = Ok s ->
  r < len (worker_pools s0) -> nth_error (worker_pools s0) (nat_of r) = Some p0 ->
  live_held (s_live s) r g i <= FPU
  /\ (in_universe (worker_pools s0) r g i = false -> live_held (s_live s) r g i = 0).
Proof. exact exclusive_thm. Qed.

(** The amounts taken from a sum resource never exceed its size (free + taken = size). *)
Theorem C04_sum_bound : forall d s0 ops s r f x,
  init d = Ok s0 -> run s0 ops = Ok s ->
  r < len (worker_pools s0) -> nth_error (worker_pools s0) (nat_of r) = Some (PSum f x) ->
  live_sum_amount (s_live s) r <= f
  /\ exists free, nth_error (a_pools (s_alloc s)) (nat_of r) = Some (PSum f free) /\ free + live_sum_amount (s_live s) r = f.
Proof. exact sum_bound_thm. Qed.

(** Conservation: for every index of the worker, free + held = 100 % in every reachable state - the free
    state is a function of the multiset of live allocations, not of the history. *)
Theorem C04_conservation : forall d s0 ops s r p0 g i,
  init d = Ok s0 -> run s0 ops = Ok s ->
  r < len (worker_pools s0) -> nth_error (worker_pools s0) (nat_of r) = Some p0 ->
  in_universe (worker_pools s0) r g i = true ->
  pools_free (a_pools (s_alloc s)) r g i + live_held (s_live s) r g i = FPU.
Proof. exact conservation_thm. Qed.

(** The values a task is told about are the ones it holds: a grant takes exactly the listed indices
    (and fractions) out of the free state. *)
Theorem C04_told_is_held : forall d s0 ops s rq w s' al r p0 g i,
  init d = Ok s0 -> run s0 ops = Ok s -> step s (OAlloc rq w) = Ok (s', OutGrant al) ->
  r < len (worker_pools s0) -> nth_error (worker_pools s0) (nat_of r) = Some p0 ->
  in_universe (worker_pools s0) r g i = true ->
  pools_free (a_pools (s_alloc s)) r g i = pools_free (a_pools (s_alloc s')) r g i + alloc_held al r g i.
Proof. exact told_is_held_thm. Qed.

(** When a task ends everything it held becomes available again ... *)
Theorem C04_release_restores : forall d s0 ops s k s' o r p0 g i,
  init d = Ok s0 -> run s0 ops = Ok s -> step s (ORelease k) = Ok (s', o) ->
  r < len (worker_pools s0) -> nth_error (worker_pools s0) (nat_of r) = Some p0 ->
  in_universe (worker_pools s0) r g i = true ->
  exists al, nth_error (s_live s) (nat_of k) = Some al
             /\ pools_free (a_pools (s_alloc s')) r g i = pools_free (a_pools (s_alloc s)) r g i + alloc_held al r g i.
Proof. exact release_returns_thm. Qed.

(** ... and after releasing everything the free state is the initial one: every index whole and free,
    every sum resource at its size. *)
Theorem C04_release_all_restores_initial : forall d s0 ops s,
  init d = Ok s0 -> run s0 ops = Ok s -> s_live s = [] ->
  (forall r p0 g i, r < len (worker_pools s0) -> nth_error (worker_pools s0) (nat_of r) = Some p0 ->
                    in_universe (worker_pools s0) r g i = true -> pools_free (a_pools (s_alloc s)) r g i = FPU)
  /\ (forall r f x, r < len (worker_pools s0) -> nth_error (worker_pools s0) (nat_of r) = Some (PSum f x) ->
                    nth_error (a_pools (s_alloc s)) (nat_of r) = Some (PSum f f)).
Proof. exact release_all_restores_thm. Qed.

(** Returning the indices of an allocation that is held never hits the unwrap / assert of
    ResourcePool::release_allocation, and restores the pool invariant without them. *)
Theorem C04_release_no_panic : forall us l gs Hb,
  GsI us gs (hsum (Hb ++ l)) (hfany (Hb ++ l)) ->
  Forall (fun ix => ai_frac ix < FPU /\ ai_group ix < len gs) l ->
  exists gs', release_indices_groups gs l = Ok gs' /\ GsI us gs' (hsum Hb) (hfany Hb) /\ length gs' = length gs.
Proof. exact release_list. Qed.

(** [valid_op]: the entries of a request have pairwise distinct resource ids (ResourceRequest::validate). *)

(** Exact amount: every grant consists of exactly one resource allocation per entry of the request, each with
    exactly the requested amount (the full size for `all`), whole indices followed by at most one fractional
    index whose parts add up to the amount (no indices for a sum resource). *)
Theorem C04_exact_amount : forall d s0 ops s rq w s' al,
  init d = Ok s0 -> Forall valid_op ops -> run s0 ops = Ok s -> NoDup (map e_res rq) ->
  step s (OAlloc rq w) = Ok (s', OutGrant al) ->
  exact_amount_set_ok (worker_pools s0) rq al = true.
Proof. exact exact_amount_thm. Qed.

(** Concise mirror: in EVERY reachable state the admission summary (ConciseFreeResources) equals the summary
    recomputed from the pools, modulo zero entries - the debug-only ResourceAllocator::validate() as a theorem,
    through allocations AND releases, single-group and multi-group branches of concise.rs, sum resources. *)
Theorem C04_concise_mirrors : forall d s0 ops s,
  init d = Ok s0 -> Forall valid_op ops -> run s0 ops = Ok s ->
  mirror_ok (a_pools (s_alloc s)) (a_free (s_alloc s)) = true.
Proof. exact concise_mirrors_thm. Qed.

(** ConciseFreeResources::add does not panic when a live allocation is released. *)
Theorem C04_release_concise_no_panic : forall d s0 ops s k al pools',
  init d = Ok s0 -> Forall valid_op ops -> run s0 ops = Ok s ->
  nth_error (s_live s) (nat_of k) = Some al ->
  release_helper (a_pools (s_alloc s)) al = Ok pools' ->
  exists free', cf_add (a_free (s_alloc s)) al = Ok free'.
Proof. exact release_concise_no_panic. Qed.

(** per accepted claim: what the check [claim_ok] guarantees *)
Theorem C04_claim_ok_sound : forall p p' rid rq ra,
  claim_ok p p' rid rq ra = true ->
  ra_res ra = rid /\ ra_amount ra = req_amount rq (pool_full_size p)
  /\ same_kind p p' = true /\ pool_full_size p' = pool_full_size p
  /\ match p, p' with
     | PSum _ free, PSum _ free' => ra_amount ra <= free /\ free' = free - ra_amount ra /\ ra_indices ra = []
     | PEmpty, _ => False
     | _, _ => shape_ok (ra_indices ra) = true /\ ra_total ra = ra_amount ra
               /\ take_all (pool_groups p) (ra_indices ra) = Some (pool_groups p')
     end.
Proof. exact claim_ok_inv. Qed.

(** The check is transparent: whatever the modelled claim functions (take_indices, take_fraction_index_or_split,
    claim_scatter_from_groups incl. its sort, claim_compact_from_groups incl. its swap) compute on well-formed
    pools passes [claim_ok] - so a model step is never rejected by the check itself (only for a witness the
    model does not accept).  Not covered: `all` on a grouped resource (claim_all_from_groups). *)
Theorem C04_gate_transparent_direct : forall (A : Type) p rid rq wit (k : pool -> ralloc -> res A),
  gs_wf (pool_groups p) -> not_all_on_groups p rq ->
  checked (pool_claim p rid rq wit) p rid rq k = (do x <- pool_claim p rid rq wit; k (fst x) (snd x)).
Proof. exact @gate_transparent_direct. Qed.

Theorem C04_gate_transparent_coupled : forall (A : Type) p rid rq mask wit (k : pool -> ralloc -> res A),
  gs_wf (pool_groups p) ->
  checked (claim_with_group_mask p rid rq mask wit) p rid rq k = (do x <- claim_with_group_mask p rid rq mask wit; k (fst x) (snd x)).
Proof. exact @gate_transparent_coupled. Qed.

(** ... and `all` on a grouped resource passes the check when every index is free *)
Theorem C04_gate_all : forall full gs rid wit p' ra,
  gs_wf gs -> full = usize (PGroups full gs) * FPU ->
  pool_claim (PGroups full gs) rid ReqAll wit = Ok (p', ra) -> claim_ok (PGroups full gs) p' rid ReqAll ra = true.
Proof. exact claim_complete_all. Qed.

(** `all` is granted only when everything of the resource is free: every index of an index / group
    resource is whole and free in the state in which an `all` entry is granted ... *)
Theorem C04_all_only_when_free : forall d s0 ops s rq w s' al e p0,
  init d = Ok s0 -> Forall valid_op ops -> run s0 ops = Ok s ->
  step s (OAlloc rq w) = Ok (s', OutGrant al) -> In e rq -> e_req e = ReqAll ->
  nth_error (worker_pools s0) (nat_of (e_res e)) = Some p0 -> pool_is_sum p0 = false ->
  forall g i, in_universe (worker_pools s0) (e_res e) g i = true ->
              pools_free (a_pools (s_alloc s)) (e_res e) g i = FPU.
Proof. exact all_only_when_free_groups. Qed.

(** ... and nothing of a sum resource is taken. *)
Theorem C04_all_only_when_free_sum : forall d s0 ops s rq w s' al e f x,
  init d = Ok s0 -> Forall valid_op ops -> run s0 ops = Ok s ->
  step s (OAlloc rq w) = Ok (s', OutGrant al) -> In e rq -> e_req e = ReqAll ->
  nth_error (worker_pools s0) (nat_of (e_res e)) = Some (PSum f x) ->
  nth_error (a_pools (s_alloc s)) (nat_of (e_res e)) = Some (PSum f f).
Proof. exact all_only_when_free_sum. Qed.

(** non-vacuity: a concrete reachable state with three live allocations satisfying the hypotheses, on which
    the executable monitors (the same predicates, as booleans) evaluate to true *)
Theorem C04_example_reachable : exists s0 s, init ex_desc = Ok s0 /\ run s0 (firstn 3 ex_ops) = Ok s /\ length (s_live s) = 3%nat
  /\ exclusive_ok (a_pools (s_alloc s0)) (s_live s) = true
  /\ conserved_ok (a_pools (s_alloc s0)) (a_pools (s_alloc s)) (s_live s) = true
  /\ mirror_ok (a_pools (s_alloc s)) (a_free (s_alloc s)) = true.
Proof. exact ex_mid_ok. Qed.

Theorem C04_example_run : exists s, ex_final = Ok s /\ s_live s = [].
Proof. exact ex_run_ok. Qed.

Check C04_exclusive.
Check C04_conservation.
Print Assumptions C04_exclusive.
Print Assumptions C04_sum_bound.
Print Assumptions C04_conservation.
Print Assumptions C04_told_is_held.
Print Assumptions C04_release_restores.
Print Assumptions C04_release_all_restores_initial.
Print Assumptions C04_release_no_panic.
Print Assumptions C04_exact_amount.
Print Assumptions C04_concise_mirrors.
Print Assumptions C04_release_concise_no_panic.
Print Assumptions C04_claim_ok_sound.
Print Assumptions C04_gate_transparent_direct.
Print Assumptions C04_gate_transparent_coupled.
Print Assumptions C04_gate_all.
Print Assumptions C04_all_only_when_free.
Print Assumptions C04_all_only_when_free_sum.
