(** C09 - Server and workers survive every message order and fault (no reachable panic). *)
From HQ Require Import Base.Prelude Cluster.Types Cluster.Core Cluster.Reactor Cluster.Worker Cluster.Server Cluster.Sys Cluster.Monitors Cluster.ProofsJob Cluster.ProofsCore Cluster.ProofsMore Cluster.RejHyp Cluster.BijFinal Cluster.InvProcsDef Cluster.InvBundle Cluster.NoPanicC5 Cluster.NoPanicC6 Cluster.NoPanicC7 Cluster.NoPanicL0 Cluster.NoPanicL4 Cluster.NoPanicS7 Cluster.NoPanicS8 Cluster.NoPanicAll Cluster.RetractFree Cluster.BijCore Cluster.BijReact Cluster.NoPanicU0 Cluster.NoPanicU1 Cluster.NoPanicU20 Cluster.NoPanicU26 Cluster.NoPanicU29 Cluster.NoFresh Cluster.NoPanicFull Cluster.NoWf.
From Coq Require Import ZArith.
Local Open Scope N_scope.

(** NO REACHABLE PANIC.  For every history of operations of the system model - client requests,
    worker connections and losses, deliveries of messages in both directions in any order, scheduler
    rounds, task ends, launch failures, timers - that satisfies the executable well-formedness
    [run_hyp] (NoPanicFull.v: multi-node classes carry no resource amounts; every scheduler answer
    satisfies the solver contract [sol_ok], uses variant 0, places classes in their own mode and puts
    no multi-node task on a worker a task is being retracted from; explicit ids of an array submit
    are distinct) and [op_wf], the run is never a [Panic].  Nothing is assumed about messages in
    flight: that is the protocol invariant PROTO, proved (NoPanicU*.v).  Every conjunct of
    [run_hyp] is monitored on every step of every explored history of the real implementation. *)
Theorem C09_no_reachable_panic : forall ops reserve maxfill,
  Forall op_wf ops -> run_hyp (init_sys reserve maxfill) ops = true -> is_panic (run (init_sys reserve maxfill) ops) = false.
Proof. exact no_reachable_panic. Qed.

(** One more operation from any reachable state. *)
Theorem C09_step_never_panics : forall pre reserve maxfill s outs o,
  Forall op_wf pre -> run_hyp (init_sys reserve maxfill) pre = true -> run (init_sys reserve maxfill) pre = Ok (s, outs) ->
  hyp s o = true -> is_panic (step s o) = false.
Proof. exact step_never_panics. Qed.

(** The joint server / worker protocol invariant holds in every reachable state, and with it the
    hypothesis [run_fresh] of the core invariants is derived from the static [ops_ok]. *)
Theorem C09_protocol_invariant : forall ops reserve maxfill s outs,
  Forall op_wf ops -> ops_ok (init_sys reserve maxfill) ops = true -> run (init_sys reserve maxfill) ops = Ok (s, outs) ->
  proto_ok s = true /\ run_fresh (init_sys reserve maxfill) ops = true.
Proof.
  intros ops reserve maxfill s outs Hwf Hok H.
  destruct (reachable_PROTO ops reserve maxfill s outs Hwf Hok H) as [HP Hf].
  split; [|exact Hf]. apply NoPanicU1.PROTO_proto_ok; [|exact HP].
  apply BijCore.CS_sorted. exact (BijReact.cb_s _ (inv_cb _ (reachable_INV _ _ _ _ _ Hwf Hf H))).
Qed.

(** A worker's message never panics the server; a worker process never panics. *)
Theorem C09_worker_messages_never_panic : forall ops reserve maxfill s outs w,
  Forall op_wf ops -> ops_ok (init_sys reserve maxfill) ops = true ->
  ops_sol_ok (init_sys reserve maxfill) ops = true -> ops_retract_ok (init_sys reserve maxfill) ops = true ->
  run (init_sys reserve maxfill) ops = Ok (s, outs) -> is_panic (step s (OpDUp w)) = false.
Proof. exact worker_messages_never_panic. Qed.
Theorem C09_worker_process_never_panics : forall ops reserve maxfill s outs o,
  Forall op_wf ops -> ops_ok (init_sys reserve maxfill) ops = true -> run (init_sys reserve maxfill) ops = Ok (s, outs) ->
  NoPanicU5.worker_op o -> is_panic (step s o) = false.
Proof. exact worker_process_never_panics. Qed.

(** Non-vacuity, and the history of finding F28 (a reachable panic of the real server, found by the
    proof attempt; all other hypotheses hold on it) is excluded by exactly the clause its repair added. *)
Definition C09_no_panic_hypotheses_satisfiable := no_panic_hypotheses_satisfiable.
Definition C09_f28_history_excluded := f28_history_excluded.
Definition C09_f28_panic_reachable_without_repair := NoPanicU21.panic_102_reachable.

(** In EVERY reachable state of the system model (any history of client requests, worker
    connections and losses, deliveries in any order, scheduler rounds with any well-formed answer,
    task ends, launch failures, timers) no operation processed by the server itself - a client
    request, a worker connection, a worker loss, a scheduler answer - makes it panic.  Every
    unwrap / assert / unreachable / index / checked subtraction of the modelled code is a [Panic]
    result of the model, so this covers all of them on these paths.
    Hypotheses: on the history [op_wf] and [run_fresh] (RejHyp.v); on the operation [req_ok]:
    distinct explicit ids in an array submit (true of every message: the real IntArray is a set)
    and the executable [sol_ok] for a scheduler answer. *)
Theorem C09_server_never_panics : forall ops reserve maxfill s outs o,
  Forall op_wf ops -> run_fresh (init_sys reserve maxfill) ops = true -> run (init_sys reserve maxfill) ops = Ok (s, outs) ->
  server_op o -> req_ok s o -> is_panic (step s o) = false.
Proof. exact server_never_panics. Qed.

(** Client requests are in fact always processed ([Ok]: handled or answered with an error, never
    [Disabled] either) - "every such input is either handled or rejected with an error". *)
Theorem C09_client_requests_total : forall ops reserve maxfill s outs o,
  Forall op_wf ops -> run_fresh (init_sys reserve maxfill) ops = true -> run (init_sys reserve maxfill) ops = Ok (s, outs) ->
  client_op o -> NoPanicC5.op_ok s o -> exists r, step s o = Ok r.
Proof. exact client_requests_total_reachable. Qed.

(** One step, from the invariants (the form the reachable one is built from). *)
Theorem C09_scheduling_never_panics : forall s sol,
  INV s -> PW s -> sol_ok (s_core s) sol = true -> is_panic (step s (OpSched sol)) = false.
Proof. exact scheduling_never_panics. Qed.

(** The server has a connection for exactly the workers the scheduler knows - in every reachable
    state, no hypothesis ([send_worker] cannot fail). *)
Theorem C09_workers_have_connections : forall ops r m s outs, run (init_sys r m) ops = Ok (s, outs) -> PW s.
Proof. exact reachable_PW. Qed.

(** Finding F27 (fixed): a task graph naming an undefined resource request reaches the assertion /
    the index of [handle_submit_graph]; [step] now refuses it first, state untouched. *)
Theorem C09_malformed_graph_refused :
  handle_submit_graph (init_sys 0 2, []) None [] [(0, 0, 0%Z, CUnl, [])] None = Panic 224 /\
  step (init_sys 0 2) (OpSubmitG None [] [(0, 0, 0%Z, CUnl, [])] None) = Ok (init_sys 0 2, [OResp (RSubmitErr 5 0)]).
Proof. exact malformed_graph_panics_new_job. Qed.

(** Non-vacuity: reachable states with assigned, prefilled, retracting and multi-node tasks satisfy
    the hypotheses, with scheduler answers accepted by [sol_ok]; and every conjunct of [sol_ok] is
    needed (six reachable states, six panics). *)
Definition C09_hypotheses_satisfiable := sol_ok_satisfiable.
Definition C09_sol_ok_needed := sol_ok_needed.
Definition C09_client_theorem_applies := client_theorem_applies.

(** Client requests cannot panic a consistent job layer: the counter subtractions of close / forget
    never underflow. *)
Theorem C09_close_total : forall s jid, HOK (hq_of s) -> is_panic (handle_close s jid) = false.
Proof. exact close_total. Qed.
Theorem C09_forget_total : forall s jid, HOK (hq_of s) -> is_panic (handle_forget s jid) = false.
Proof. exact forget_total. Qed.
Theorem C09_open_total : forall s mf, is_panic (handle_open s mf) = false.
Proof. exact open_total. Qed.

(** The job-layer invariant these rely on holds after every history (C13). *)
Theorem C09_job_layer_invariant : forall ops s s', HOK (hq_of s) -> jrun s ops = Ok s' -> HOK (hq_of s').
Proof. exact jrun_ok. Qed.

(** ... and without [op_wf]: since the repair of finding F26 an ill-formed array submit is refused (a
    stutter step), so the executable [run_hyp] is the ONLY hypothesis. *)
Theorem C09_no_reachable_panic_nowf : forall ops reserve maxfill,
  run_hyp (init_sys reserve maxfill) ops = true -> is_panic (run (init_sys reserve maxfill) ops) = false.
Proof. exact no_reachable_panic_nowf. Qed.

Print Assumptions C09_server_never_panics.
Print Assumptions C09_client_requests_total.
Print Assumptions C09_scheduling_never_panics.
Print Assumptions C09_workers_have_connections.
Print Assumptions C09_malformed_graph_refused.
Print Assumptions C09_hypotheses_satisfiable.
Print Assumptions C09_sol_ok_needed.
Print Assumptions C09_client_theorem_applies.
Print Assumptions C09_close_total.
Print Assumptions C09_forget_total.
Print Assumptions C09_open_total.
Print Assumptions C09_job_layer_invariant.
Print Assumptions C09_no_reachable_panic.
Print Assumptions C09_step_never_panics.
Print Assumptions C09_protocol_invariant.
Print Assumptions C09_worker_messages_never_panic.
Print Assumptions C09_worker_process_never_panics.
Print Assumptions C09_no_panic_hypotheses_satisfiable.
Print Assumptions C09_f28_history_excluded.
Print Assumptions C09_f28_panic_reachable_without_repair.
Print Assumptions C09_no_reachable_panic_nowf.
