(** C09 - Server and workers survive every message order and fault (no reachable panic). *)
From HQ Require Import Base.Prelude Cluster.Types Cluster.Core Cluster.Reactor Cluster.Worker Cluster.Server Cluster.Sys Cluster.Monitors Cluster.ProofsJob Cluster.ProofsCore Cluster.ProofsMore.
From Coq Require Import ZArith.
Local Open Scope N_scope.

(** Client requests cannot panic a consistent job layer: the counter subtractions of close / forget
    never underflow. *)
Theorem C09_close_total : forall s jid, HOK (hq_of s) -> is_panic (handle_close s jid) = false.
Proof. exact close_total. Qed.
Theorem C09_forget_total : forall s jid, HOK (hq_of s) -> is_panic (handle_forget s jid) = false.
Proof. exact forget_total. Qed.
Theorem C09_open_total : forall s mf, is_panic (handle_open s mf) = false.
Proof. exact open_total. Qed.

(** The job-layer invariant these rely on holds after every history (C13). *)
Theorem C09_job_layer_invariant : forall ops s s', HOK (hq_of s) -> jrun s ops = Ok s' -> HOK (hq_of s').
Proof. exact jrun_ok. Qed.

Print Assumptions C09_close_total.
Print Assumptions C09_forget_total.
Print Assumptions C09_open_total.
Print Assumptions C09_job_layer_invariant.
