(** C06 - One live execution per task; instance ids strictly increase. *)
From HQ Require Import Base.Prelude Cluster.Types Cluster.Core Cluster.Reactor Cluster.Worker Cluster.Server Cluster.Sys Cluster.Monitors Cluster.ProofsJob Cluster.ProofsCore Cluster.ProofsMore Cluster.ProofsWorker.
From Coq Require Import ZArith.
Local Open Scope N_scope.

(** A worker that answers a retract request has removed every retracted task from the backlog of
    each request class it holds, so it cannot start one of them later without being sent it again. *)
Theorem C06_retract_removes_from_backlog : forall order b ids out b' out' rq x,
  retract_from b order ids out = (b', out') -> In rq order -> In x (bl_get b' rq) -> tid_mem (wt_id x) ids = false.
Proof. exact retract_removes. Qed.

(** For EVERY sequence of messages, task ends and timers of a worker process (starting from any
    reachable state): once the worker has given task [x] back - it processed a RetractTasks naming
    [x], or a CancelTasks naming [x] while not running it - no later event starts [x], until a
    ComputeTasks message names [x] again.  ("A worker that has confirmed giving a task back never
    starts it afterwards.") *)
Theorem C06_no_start_after_giveback : forall (p0 : wproc) es0 p e p1 l1 es p2 ls x,
  WInv p0 -> wrun p0 es0 = Ok (p, l1) ->
  wstep p e = Ok (p1, ls) -> gives_back p e x ->
  (forall e', In e' es -> ~ sends e' x) ->
  forall l2, wrun p1 es = Ok (p2, l2) -> ~ In x (launches_of (ls ++ l2)).
Proof. exact no_start_after_giveback. Qed.

(** ... and a freshly connected worker satisfies the premise [WInv]. *)
Theorem C06_new_worker_invariant : forall w rs rqs, WInv (mkWP w [] [] [] [] rs rs [] [] [] rqs [] []).
Proof. exact WInv_new. Qed.

Print Assumptions C06_no_start_after_giveback.
Print Assumptions C06_new_worker_invariant.
Print Assumptions C06_retract_removes_from_backlog.
