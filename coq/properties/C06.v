(** C06 - One live execution per task; instance ids strictly increase. *)
From HQ Require Import Base.Prelude Cluster.Types Cluster.Core Cluster.Reactor Cluster.Worker Cluster.Server Cluster.Sys Cluster.Monitors Cluster.ProofsJob Cluster.ProofsCore Cluster.ProofsMore.
From Coq Require Import ZArith.
Local Open Scope N_scope.

(** A worker that answers a retract request has removed every retracted task from the backlog of
    each request class it holds, so it cannot start one of them later without being sent it again. *)
Theorem C06_retract_removes_from_backlog : forall order b ids out b' out' rq x,
  retract_from b order ids out = (b', out') -> In rq order -> In x (bl_get b' rq) -> tid_mem (wt_id x) ids = false.
Proof. exact retract_removes. Qed.

Print Assumptions C06_retract_removes_from_backlog.
