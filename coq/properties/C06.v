(** C06 - One live execution per task; instance ids strictly increase. *)
From HQ Require Import Base.Prelude Cluster.Types Cluster.Core Cluster.Reactor Cluster.Worker Cluster.Server Cluster.Sys Cluster.Monitors Cluster.ProofsJob Cluster.ProofsCore Cluster.ProofsMore Cluster.ProofsWorker Cluster.BijFinal Cluster.NoPanicU0 Cluster.ExecU1 Cluster.ExecU15 Cluster.ExecU16 Cluster.ExecU17 Cluster.ExecU18.
From Coq Require Import ZArith.
Local Open Scope N_scope.

(** A worker that answers a retract request has removed every retracted task from the backlog of
    each request class it holds, so it cannot start one of them later without being sent it again. *)
Theorem C06_retract_removes_from_backlog : forall order b ids out b' out' rq x,
  retract_from b order ids out = (b', out') -> In rq order -> In x (bl_get b' rq) -> tid_mem (wt_id x) ids = false.
Proof. exact retract_removes. Qed.

(** For EVERY sequence of messages, task ends and timers of a worker process (starting from any
    reachable state): once the worker has given task [x] back - it processed a RetractTasks naming
    [x], or a CancelTasks naming [x] while not running it - no later event starts [x], until a
    ComputeTasks message names [x] again.  ("A worker that has confirmed giving a task back never
    starts it afterwards.") *)
Theorem C06_no_start_after_giveback : forall (p0 : wproc) es0 p e p1 l1 es p2 ls x,
  WInv p0 -> wrun p0 es0 = Ok (p, l1) ->
  wstep p e = Ok (p1, ls) -> gives_back p e x ->
  (forall e', In e' es -> ~ sends e' x) ->
  forall l2, wrun p1 es = Ok (p2, l2) -> ~ In x (launches_of (ls ++ l2)).
Proof. exact no_start_after_giveback. Qed.

(** ... and a freshly connected worker satisfies the premise [WInv]. *)
Theorem C06_new_worker_invariant : forall w rs rqs, WInv (mkWP w [] [] [] [] rs rs [] [] [] rqs [] []).
Proof. exact WInv_new. Qed.

(** Instance ids strictly increase: in the output of EVERY history (hypotheses on the inputs only:
    [op_wf], [ops_ok]) two launches of the same task carry strictly increasing instance ids - on
    whichever workers, with any number of retractions, rejects, redirects, cancels and worker
    losses in between.  (The server re-sends a task with the same instance id only when the worker
    confirmed it did not start it; the proof rests on the protocol invariant PROTO and on "at most
    one copy of a task in the whole system".) *)
Theorem C06_instances_increase : forall ops reserve maxfill s outs,
  Forall op_wf ops -> ops_ok (init_sys reserve maxfill) ops = true -> run (init_sys reserve maxfill) ops = Ok (s, outs) ->
  forall a l1 b l2 c, outs = a ++ OLaunch l1 :: b ++ OLaunch l2 :: c -> l_t l1 = l_t l2 -> l_inst l1 < l_inst l2.
Proof. exact instances_increase. Qed.
(** ... in the form of the executable trace monitor. *)
Theorem C06_instances_increase_monitor : forall ops reserve maxfill s outs,
  Forall op_wf ops -> ops_ok (init_sys reserve maxfill) ops = true -> run (init_sys reserve maxfill) ops = Ok (s, outs) ->
  Monitors.instances_increase [] (map ILaunch (launches outs)) = true.
Proof. exact instances_increase_monitor. Qed.

(** One live execution: in every reachable state a task running on one worker process is neither
    running on another nor even held by another (no compute message in flight to it, no backlog
    entry) - for every task id, also of tasks the server no longer knows. *)
Theorem C06_single_execution : forall ops reserve maxfill s outs,
  Forall op_wf ops -> ops_ok (init_sys reserve maxfill) ops = true -> run (init_sys reserve maxfill) ops = Ok (s, outs) ->
  forall p1 p2 x, In p1 (s_procs s) -> In p2 (s_procs s) -> p_id p1 <> p_id p2 ->
    run_find (p_running p1) x <> None -> run_find (p_running p2) x = None /\ pc x p2 = O.
Proof. exact single_execution. Qed.
Theorem C06_single_execution_monitor : forall ops reserve maxfill s outs,
  Forall op_wf ops -> ops_ok (init_sys reserve maxfill) ops = true -> run (init_sys reserve maxfill) ops = Ok (s, outs) ->
  single_execution_ok s = true.
Proof. exact single_execution_monitor. Qed.

Print Assumptions C06_no_start_after_giveback.
Print Assumptions C06_new_worker_invariant.
Print Assumptions C06_retract_removes_from_backlog.
Print Assumptions C06_instances_increase.
Print Assumptions C06_instances_increase_monitor.
Print Assumptions C06_single_execution.
Print Assumptions C06_single_execution_monitor.
