(** C19 - Streamed task output reads back complete, in order, and only from the last run.
    Only statements closed by [exact]; the proofs live in HQ.Stream.{Codec,Index,Runs,Proofs,Examples}. *)
From HQ Require Import Base.Prelude Gen.Consts Stream.Model Stream.Codec Stream.Index Stream.Runs Stream.Proofs Stream.Examples Stream.FullSup Stream.FullSupMain Stream.FullFin Stream.FullFinMain.
Open Scope N_scope.

(** Round trip.  For every directory of complete writer files [ws] (any number of files, ANY order
    of the list = any [read_dir] order; every file = file header + records in queue order, i.e. any
    interleaving of the chunk sequences of any tasks / instances / channels, any chunk sizes below
    4 GiB including none at all), and every task whose largest instance's headers are contiguous
    among the task's headers of ONE file ([last_contig]: a (task, instance) is written by one
    worker through one FIFO queue; other instances may be anywhere, also alternating):
    [open] succeeds, the reported instance is the largest one, the bytes returned per channel are
    exactly the concatenation of the data chunks that instance wrote on that channel, in order,
    [finished] iff it wrote an end marker, and all other index entries of the task are superseded
    entries with strictly smaller instance ids. *)
Theorem C19_roundtrip : forall u ws job task ch,
  Forall wf_ok ws -> Forall (fun w => fh_uid (fst w) = u) ws ->
  last_contig (map wf_afile ws) (job, task) = true -> ch < 2 ->
  exists lg X R i,
    open (hqs_ents (map wf_bytes ws)) None = ROk lg
    /\ max_inst (job, task) (all_recs ws) = Some i
    /\ gather (lg_index lg) job task = ROk R /\ in_id R = i
    /\ in_fin R = spec_finished (job, task) i (all_recs ws)
    /\ read_channel lg job task ch = ROk (spec_bytes (job, task) i ch (all_recs ws))
    /\ lookup (job, task) (lg_index lg) = Some (X ++ [R]) /\ superseded (X ++ [R]) = X
    /\ Forall (fun J => in_id J < i) X.
Proof. exact roundtrip. Qed.

(** Torn file.  One writer file cut at ANY byte offset [n] at or after its file header (the other
    files complete, any order): the reader does not fail; per task and channel it returns exactly
    the data of the surviving complete chunks of the largest surviving instance, or the I/O error
    [E_IO_EOF] when the cut chunk belongs to that instance and channel ([spec_read]) - never other
    bytes; [finished] = a surviving end marker of that instance ([spec_fin]). *)
Theorem C19_torn_file : forall u ws1 w ws2 n a job task ch,
  Forall wf_ok (ws1 ++ w :: ws2) -> Forall (fun w => fh_uid (fst w) = u) (ws1 ++ w :: ws2) ->
  cut_file (fst w) (snd w) n = Some a ->
  let fs := map wf_afile ws1 ++ a :: map wf_afile ws2 in
  let bs := map wf_bytes ws1 ++ firstnN n (wf_bytes w) :: map wf_bytes ws2 in
  last_contig fs (job, task) = true -> ch < 2 ->
  exists lg X R i,
    open (hqs_ents bs) None = ROk lg
    /\ max_inst (job, task) (all_seen fs) = Some i
    /\ gather (lg_index lg) job task = ROk R /\ in_id R = i
    /\ in_fin R = spec_fin fs (job, task)
    /\ read_channel lg job task ch = spec_read fs (job, task) ch
    /\ lookup (job, task) (lg_index lg) = Some (X ++ [R]) /\ superseded (X ++ [R]) = X
    /\ Forall (fun J => in_id J < i) X.
Proof. exact torn_file. Qed.

(** ... the bytes a cut file still contains are those of [cut_file]'s abstract file, for every [n] *)
Theorem C19_cut_any_byte : forall w n a,
  wf_ok w -> cut_file (fst w) (snd w) n = Some a -> file_repr (firstnN n (wf_bytes w)) a.
Proof. exact cut_file_repr. Qed.

(** ... and a file cut inside its file header fails [check_header] with EOF: [open] skips it. *)
Theorem C19_torn_header_skipped : forall w n,
  wf_ok w -> cut_file (fst w) (snd w) n = None -> check_header (firstnN n (wf_bytes w)) = DEof.
Proof. exact cut_file_header. Qed.

(** General form behind both: any directory whose files are [file_repr]-related to abstract files
    (complete records + at most one torn record + a partial header). *)
Theorem C19_reader_spec : forall u bs fs job task ch,
  Forall2 file_repr bs fs -> Forall (fun a => fh_uid (af_hdr a) = u) fs ->
  last_contig fs (job, task) = true -> ch < 2 ->
  exists lg X R i,
    open (hqs_ents bs) None = ROk lg
    /\ max_inst (job, task) (all_seen fs) = Some i
    /\ lookup (job, task) (lg_index lg) = Some (X ++ [R])
    /\ gather (lg_index lg) job task = ROk R
    /\ superseded (X ++ [R]) = X
    /\ Forall (fun J => in_id J < i) X
    /\ in_id R = i
    /\ in_fin R = spec_fin fs (job, task)
    /\ read_channel lg job task ch = spec_read fs (job, task) ch.
Proof. exact reader_spec. Qed.

(** Superseded instances are separate: full statement (exact ids and channel sizes of the
    superseded entries when every instance is contiguous) ... *)
Definition C19_superseded_full : Prop := forall u bs fs job task lg insts,
  Forall2 file_repr bs fs -> Forall (fun a => fh_uid (af_hdr a) = u) fs ->
  all_contig fs (job, task) = true ->
  open (hqs_ents bs) None = ROk lg -> lookup (job, task) (lg_index lg) = Some insts ->
  map (fun J => (in_id J, channel_size J 0, channel_size J 1)) (superseded insts)
  = map (fun i => (i, spec_size (job, task) i 0 (all_seen fs), spec_size (job, task) i 1 (all_seen fs)))
        (other_insts fs (job, task)).

(** ... proved part: the superseded entries are exactly the index entries other than the reported
    one and all carry strictly smaller instance ids (so nothing of them is in the result). *)
Theorem C19_superseded_separate_partial : forall u bs fs job task ch,
  Forall2 file_repr bs fs -> Forall (fun a => fh_uid (af_hdr a) = u) fs ->
  last_contig fs (job, task) = true -> ch < 2 ->
  exists lg X R i,
    open (hqs_ents bs) None = ROk lg /\ max_inst (job, task) (all_seen fs) = Some i
    /\ lookup (job, task) (lg_index lg) = Some (X ++ [R]) /\ gather (lg_index lg) job task = ROk R
    /\ superseded (X ++ [R]) = X /\ Forall (fun J => in_id J < i) X /\ in_id R = i
    /\ in_fin R = spec_fin fs (job, task)
    /\ read_channel lg job task ch = spec_read fs (job, task) ch.
Proof. exact reader_spec. Qed.

(** ... and the full statement holds. *)
Theorem C19_superseded_full_holds : C19_superseded_full.
Proof. exact superseded_full. Qed.
Definition C19_superseded_full_example := superseded_full_example.

(** Codec laws. *)
Theorem C19_codec_chunk_header : forall h rest,
  header_ok h = true ->
  dec_chunk_header (enc_chunk_header h ++ rest) = DOk h rest (lenN (enc_chunk_header h)).
Proof. exact dec_enc_chunk_header. Qed.

Theorem C19_codec_chunk_header_prefix : forall h p q,
  header_ok h = true -> enc_chunk_header h = p ++ q -> q <> [] -> dec_chunk_header p = DEof.
Proof. exact dec_chunk_header_prefix. Qed.

Theorem C19_codec_file_header : forall h rest,
  file_header_ok h = true ->
  check_header (enc_file_header h ++ rest) = DOk h rest (lenN (enc_file_header h)).
Proof. exact check_header_enc. Qed.

Theorem C19_codec_file_header_prefix : forall h p q,
  file_header_ok h = true -> enc_file_header h = p ++ q -> q <> [] -> check_header p = DEof.
Proof. exact check_header_prefix. Qed.

(** Known finding F20: "reported finished => complete" is false of the faithful model (the reader
    sets [finished] at the first end marker of either channel) ... *)
Theorem C19_finished_complete_refuted : ~ C19_finished_complete_full.
Proof. exact finished_complete_refuted. Qed.

(** ... and outside the class [f20_class] a stream reported finished lost no record. *)
Theorem C19_finished_outside_F20_partial : forall orig fs k i,
  f20_class orig fs k = false -> max_inst k (all_seen fs) = Some i ->
  spec_finished k i (all_complete fs) = true ->
  count_inst k i (all_seen orig) <= count_inst k i (all_complete fs).
Proof. exact finished_outside_f20. Qed.

(** ... and no BYTE: outside the class F20, for a directory [fs] obtained from the written one [orig]
    by cutting files at arbitrary bytes / losing files ([cut_dir]), a stream reported finished
    reads back exactly the bytes written for the reported instance, per channel. *)
Theorem C19_finished_outside_F20_bytes : forall u bs orig fs job task ch lg R,
  Forall2 file_repr bs fs -> Forall (fun a => fh_uid (af_hdr a) = u) fs ->
  cut_dir orig fs ->
  last_contig fs (job, task) = true -> ch < 2 ->
  open (hqs_ents bs) None = ROk lg ->
  gather (lg_index lg) job task = ROk R -> in_fin R = true ->
  f20_class orig fs (job, task) = false ->
  max_inst (job, task) (all_seen fs) = Some (in_id R)
  /\ filter (of_inst (job, task) (in_id R)) (all_seen orig)
     = filter (of_inst (job, task) (in_id R)) (all_complete fs)
  /\ existsb (of_inst (job, task) (in_id R)) (torn_recs fs) = false
  /\ read_channel lg job task ch = ROk (spec_bytes (job, task) (in_id R) ch (all_complete orig))
  /\ cat lg job task ch false = ROk (spec_bytes (job, task) (in_id R) ch (all_complete orig)).
Proof. exact finished_outside_f20_bytes. Qed.
Definition C19_finished_bytes_example := finished_bytes_example.

(** Non-vacuity. *)
Theorem C19_example_hyps :
  Forall wf_ok [wB; wA] /\ last_contig (map wf_afile [wB; wA]) (1, 0) = true
  /\ last_contig (map wf_afile [wA; wB]) (1, 0) = true /\ all_contig (map wf_afile [wA; wB]) (1, 0) = true.
Proof. exact ex_roundtrip_hyps. Qed.

Check C19_roundtrip.
Check C19_torn_file.
Print Assumptions C19_roundtrip.
Print Assumptions C19_torn_file.
Print Assumptions C19_cut_any_byte.
Print Assumptions C19_torn_header_skipped.
Print Assumptions C19_reader_spec.
Print Assumptions C19_superseded_separate_partial.
Print Assumptions C19_codec_chunk_header.
Print Assumptions C19_codec_chunk_header_prefix.
Print Assumptions C19_codec_file_header.
Print Assumptions C19_codec_file_header_prefix.
Print Assumptions C19_finished_complete_refuted.
Print Assumptions C19_finished_outside_F20_partial.
Print Assumptions C19_example_hyps.
Print Assumptions C19_superseded_full_holds.
Print Assumptions C19_superseded_full_example.
Print Assumptions C19_finished_outside_F20_bytes.
Print Assumptions C19_finished_bytes_example.
