(** C19 - Streamed task output reads back complete, in order, and only from the last run.
    Only statements closed by [exact]; the proofs live in HQ.Stream.{Codec,Index,Runs,Proofs}. *)
From HQ Require Import Base.Prelude Gen.Consts Stream.Model Stream.Codec.

(** Codec laws of the two headers: decode (encode h ++ rest) = (h, rest) ... *)
Theorem C19_codec_chunk_header : forall h rest,
  header_ok h = true ->
  dec_chunk_header (enc_chunk_header h ++ rest) = DOk h rest (lenN (enc_chunk_header h)).
Proof. exact dec_enc_chunk_header. Qed.

(** ... and every strict prefix of an encoding is detected as end of file. *)
Theorem C19_codec_chunk_header_prefix : forall h p q,
  header_ok h = true -> enc_chunk_header h = p ++ q -> q <> [] -> dec_chunk_header p = DEof.
Proof. exact dec_chunk_header_prefix. Qed.

Theorem C19_codec_file_header : forall h rest,
  file_header_ok h = true ->
  check_header (enc_file_header h ++ rest) = DOk h rest (lenN (enc_file_header h)).
Proof. exact check_header_enc. Qed.

Theorem C19_codec_file_header_prefix : forall h p q,
  file_header_ok h = true -> enc_file_header h = p ++ q -> q <> [] -> check_header p = DEof.
Proof. exact check_header_prefix. Qed.

Print Assumptions C19_codec_chunk_header.
Print Assumptions C19_codec_chunk_header_prefix.
Print Assumptions C19_codec_file_header.
Print Assumptions C19_codec_file_header_prefix.
