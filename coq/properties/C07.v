(** C07 - Worker loss: running tasks are restarted or failed per crash limit, nothing else. *)
From HQ Require Import Base.Prelude Cluster.Types Cluster.Core Cluster.Reactor Cluster.Worker Cluster.Server Cluster.Sys Cluster.Monitors Cluster.ProofsJob Cluster.ProofsCore Cluster.ProofsMore.
From Coq Require Import ZArith.
Local Open Scope N_scope.

(** The crash counter grows by exactly one and the task fails exactly when the limit is reached
    (never-restart: always; max n: when the new count reaches n; unlimited: never). *)
Theorem C07_crash_limit_rule : forall t,
  let '(t', limit) := increment_crash_counter t in
  t_crash t' = t_crash t + 1
  /\ (limit = true <-> match t_climit t with
                      | CNever => True
                      | CMax n => n <= t_crash t + 1
                      | CUnl => False
                      end).
Proof. exact crash_limit_rule. Qed.

(** Only a lost connection and missed heartbeats count as failures. *)
Theorem C07_failure_reasons : forall r, reason_is_failure r = true <-> r = 1 \/ r = 2.
Proof. exact failure_reasons. Qed.

Print Assumptions C07_crash_limit_rule.
Print Assumptions C07_failure_reasons.
