(** C07 - Worker loss: running tasks are restarted or failed per crash limit, nothing else. *)
From HQ Require Import Base.Prelude Cluster.Types Cluster.Core Cluster.Reactor Cluster.Worker Cluster.Server Cluster.Sys Cluster.Monitors Cluster.ProofsJob Cluster.ProofsCore Cluster.ProofsMore Cluster.BijFinal Cluster.CrashFrame Cluster.RejHyp Cluster.ReleaseLost0 Cluster.ReleaseLost.
From Coq Require Import ZArith.
Local Open Scope N_scope.

(** The crash counter grows by exactly one and the task fails exactly when the limit is reached
    (never-restart: always; max n: when the new count reaches n; unlimited: never). *)
Theorem C07_crash_limit_rule : forall t,
  let '(t', limit) := increment_crash_counter t in
  t_crash t' = t_crash t + 1
  /\ (limit = true <-> match t_climit t with
                      | CNever => True
                      | CMax n => n <= t_crash t + 1
                      | CUnl => False
                      end).
Proof. exact crash_limit_rule. Qed.

(** Only a lost connection and missed heartbeats count as failures. *)
Theorem C07_failure_reasons : forall r, reason_is_failure r = true <-> r = 1 \/ r = 2.
Proof. exact failure_reasons. Qed.

(** In every reachable state of the system model and for EVERY operation (client requests, message
    deliveries, scheduling rounds, worker losses, task ends, timers): a task that exists before and
    after keeps its crash limit, and its crash counter is unchanged - unless the operation is the
    loss of a worker for a failure reason and the task was running (single- or multi-node): then it
    grows by exactly one.  In particular tasks that were only assigned, prefilled or being retracted
    on the lost worker are rescheduled without penalty, and a stop / idle timeout / time limit of
    the worker never counts. *)
Theorem C07_crash_counter_rule : forall ops o reserve maxfill s outs s' outs',
  Forall op_wf ops -> run (init_sys reserve maxfill) ops = Ok (s, outs) -> step s o = Ok (s', outs') ->
  forall id t t', find_task (c_tasks (s_core s)) id = Some t -> find_task (c_tasks (s_core s')) id = Some t' ->
    t_climit t' = t_climit t /\
    (t_crash t' = t_crash t \/
     (t_crash t' = t_crash t + 1
      /\ (match o with OpLost _ reason _ _ _ => reason_is_failure reason | _ => false end) = true
      /\ ((exists w rv, t_state t = Running w rv) \/ (exists ws, t_state t = RunningMN ws)))).
Proof. exact crash_counter_rule. Qed.

(** The rule fires on a concrete history (a running task, its worker lost with ConnectionLost). *)
Theorem C07_crash_counter_example : Forall op_wf crash_ops /\ exists s outs s' outs' t t',
  run (init_sys 0 2) crash_ops = Ok (s, outs) /\ step s crash_last = Ok (s', outs') /\
  find_task (c_tasks (s_core s)) (1, 0) = Some t /\ find_task (c_tasks (s_core s')) (1, 0) = Some t' /\
  t_state t = Running 1 0 /\ t_crash t = 0 /\ t_crash t' = 1.
Proof. exact crash_example. Qed.

(** When a worker is lost for a failure reason, EVERY task that was running on it (or whose
    multi-node root it was) is counted: it stays with its counter + 1, or - the limit reached - it is
    failed with the right kind, or it was aborted with its job in the same step (another task of
    the job failed at its limit and the job exceeded max-fails; the example shows this third case
    cannot be dropped). *)
Theorem C07_lost_running_all_counted : forall ops reserve maxfill s outs w reason a p t s' outs' id tk,
  Forall op_wf ops -> run_fresh (init_sys reserve maxfill) ops = true -> run (init_sys reserve maxfill) ops = Ok (s, outs) ->
  step s (OpLost w reason a p t) = Ok (s', outs') -> reason_is_failure reason = true ->
  find_task (c_tasks (s_core s)) id = Some tk ->
  ((exists rv, t_state tk = Running w rv) \/ (exists rest, t_state tk = RunningMN (w :: rest))) ->
  (limit_hit tk = false /\
   exists tk', find_task (c_tasks (s_core s')) id = Some tk' /\ t_crash tk' = t_crash tk + 1 /\ t_climit tk' = t_climit tk) \/
  (find_task (c_tasks (s_core s')) id = None /\
   ((limit_hit tk = true /\ In (OEv (EvFailed id (fail_kind tk))) outs') \/
    exists ids, In id ids /\ In (OEv (EvAborted ids)) outs')).
Proof. exact lost_running_all_counted. Qed.
Definition C07_lost_counted_example_kept := lost_counted_example_kept.
Definition C07_lost_counted_example_failed := lost_counted_example_failed.
Definition C07_lost_counted_example_aborted := lost_counted_example_aborted.

Print Assumptions C07_crash_counter_rule.
Print Assumptions C07_crash_counter_example.
Print Assumptions C07_crash_limit_rule.
Print Assumptions C07_failure_reasons.
Print Assumptions C07_lost_running_all_counted.
Print Assumptions C07_lost_counted_example_kept.
Print Assumptions C07_lost_counted_example_failed.
Print Assumptions C07_lost_counted_example_aborted.
