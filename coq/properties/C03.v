(** C03 - Dependencies: never start early; failure/cancel propagates to all dependents. *)
From HQ Require Import Base.Prelude Cluster.Types Cluster.Core Cluster.Reactor Cluster.Worker Cluster.Server Cluster.Sys Cluster.Monitors Cluster.ProofsJob Cluster.ProofsCore Cluster.ProofsMore.
From Coq Require Import ZArith.
Local Open Scope N_scope.

(** Tasks leave the ready queue in priority order; a task enters it only with zero unfinished
    dependencies (model: [add_new_tasks] / [wake_consumers]); the trace predicate [deps_respected]
    is evaluated on every implementation history. *)
Theorem C03_take_one_highest : forall q id q',
  qe_desc (q_ready q) -> q_take_one q = Some (id, q') ->
  forall e, In e (q_ready q) -> exists e0, In e0 (q_ready q) /\ tid_mem id (qe_ids e0) = true /\ (qe_prio e <= qe_prio e0)%Z.
Proof. exact take_one_highest. Qed.

Print Assumptions C03_take_one_highest.
