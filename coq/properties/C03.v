(** C03 - Dependencies: never start early; failure/cancel propagates to all dependents. *)
From HQ Require Import Base.Prelude Cluster.Types Cluster.Core Cluster.Reactor Cluster.Worker Cluster.Server Cluster.Sys Cluster.Monitors Cluster.ProofsJob Cluster.ProofsCore Cluster.ProofsMore Cluster.BijFinal Cluster.RejHyp Cluster.InvAll Cluster.NoPanicU0 Cluster.NoPanicU1 Cluster.NoPanicU20 Cluster.NoFresh Cluster.DepOrderBase Cluster.DepOrderStep Cluster.DepOrderJournal Cluster.DepOrderAll Cluster.ProofsOnce.
From Coq Require Import ZArith.
Local Open Scope N_scope.

(** Tasks leave the ready queue in priority order; a task enters it only with zero unfinished
    dependencies (model: [add_new_tasks] / [wake_consumers]); the trace predicate [deps_respected]
    is evaluated on every implementation history. *)
Theorem C03_take_one_highest : forall q id q',
  qe_desc (q_ready q) -> q_take_one q = Some (id, q') ->
  forall e, In e (q_ready q) -> exists e0, In e0 (q_ready q) /\ tid_mem id (qe_ids e0) = true /\ (qe_prio e <= qe_prio e0)%Z.
Proof. exact take_one_highest. Qed.

(** The dependency bookkeeping of the core is exact in EVERY reachable state ([deps_ok]: the counter
    of a waiting task is the number of its dependencies still in the core, a task in any other state
    has none left, consumer lists mirror the dependency edges). *)
Theorem C03_dependency_invariant : forall ops reserve maxfill s outs,
  Forall op_wf ops -> run_fresh (init_sys reserve maxfill) ops = true -> run (init_sys reserve maxfill) ops = Ok (s, outs) ->
  forallb (deps_ok (s_core s)) (c_tasks (s_core s)) = true.
Proof. exact deps_invariant_reachable. Qed.

(** "A task is never started before every task it depends on has finished": a task that is no
    longer Waiting (assigned, prefilled, being retracted, running) has NO dependency left in the
    core, and neither has a task the scheduler may take (Waiting with counter 0).  A dependency
    leaves the core only by finishing - a failed or cancelled one takes its dependents with it
    ([C14] / [task_failed] remove the transitive consumers in the same step). *)
Theorem C03_placed_task_has_no_pending_dependency : forall ops reserve maxfill s outs,
  Forall op_wf ops -> run_fresh (init_sys reserve maxfill) ops = true -> run (init_sys reserve maxfill) ops = Ok (s, outs) ->
  forall t, In t (c_tasks (s_core s)) -> (match t_state t with Waiting _ => False | _ => True end) ->
  forall d, In d (t_deps t) -> find_task (c_tasks (s_core s)) d = None.
Proof. exact placed_task_has_no_pending_dependency. Qed.

Theorem C03_ready_task_has_no_pending_dependency : forall ops reserve maxfill s outs,
  Forall op_wf ops -> run_fresh (init_sys reserve maxfill) ops = true -> run (init_sys reserve maxfill) ops = Ok (s, outs) ->
  forall t, In t (c_tasks (s_core s)) -> t_state t = Waiting 0 ->
  forall d, In d (t_deps t) -> find_task (c_tasks (s_core s)) d = None.
Proof. exact ready_task_has_no_pending_dependency. Qed.

(** The same under the static well-formedness [ops_ok] instead of [run_fresh] (derived: NoFresh.v). *)
Theorem C03_dependency_invariant_static : forall ops reserve maxfill s outs,
  Forall op_wf ops -> ops_ok (init_sys reserve maxfill) ops = true -> run (init_sys reserve maxfill) ops = Ok (s, outs) ->
  forallb (deps_ok (s_core s)) (c_tasks (s_core s)) = true.
Proof. exact deps_invariant_ops. Qed.
Theorem C03_placed_task_has_no_pending_dependency_static : forall ops reserve maxfill s outs,
  Forall op_wf ops -> ops_ok (init_sys reserve maxfill) ops = true -> run (init_sys reserve maxfill) ops = Ok (s, outs) ->
  forall t, In t (c_tasks (s_core s)) -> (match t_state t with Waiting _ => False | _ => True end) ->
  forall d, In d (t_deps t) -> find_task (c_tasks (s_core s)) d = None.
Proof. exact placed_task_has_no_pending_dependency_ops. Qed.

(** Restart safety of the event order.  In the event stream of EVERY history, whenever an event
    kills a task t (TaskFailed, TasksCanceled, TasksAborted), every task x that the core ever held
    with a dependency on t - in any state of the history, before or after - is named by a terminal
    event up to and including that event: a server restarted from ANY PREFIX of the journal never
    finds a live task with a dead dependency.  (TasksAborted of the transitive dependents is
    written BEFORE TaskFailed; a cancel names every active task of the job in one event.) *)
Theorem C03_history_dep_closed : forall ops reserve maxfill,
  Forall op_wf ops -> ops_ok (init_sys reserve maxfill) ops = true ->
  forall s outs, run (init_sys reserve maxfill) ops = Ok (s, outs) ->
  forall pre e post t, outs = pre ++ OEv e :: post -> In t (kill_ids (OEv e)) ->
  forall ops1 ops2 s1 outs1 x tx, ops = ops1 ++ ops2 -> run (init_sys reserve maxfill) ops1 = Ok (s1, outs1) ->
    find_task (c_tasks (s_core s1)) x = Some tx -> In t (t_deps tx) ->
    In x (terminal_ids (pre ++ [OEv e])).
Proof. exact history_dep_closed_ops. Qed.
(** ... as the executable journal monitor (events + one item per accepted submit with its raw
    dependencies, as the driver builds them): it accepts every history. *)
Theorem C03_journal_dep_closed : forall ops reserve maxfill,
  Forall op_wf ops -> ops_ok (init_sys reserve maxfill) ops = true ->
  forall s items, run_items (init_sys reserve maxfill) ops = Ok (s, items) -> journal_dep_closed [] [] items = true.
Proof. exact journal_dep_closed_run_ops. Qed.
(** One step from a state with the invariants. *)
Theorem C03_step_dep_closed : forall s o s' outs pre e post t x tx,
  InvBundle.INV s -> step s o = Ok (s', outs) ->
  outs = pre ++ OEv e :: post -> In t (kill_ids (OEv e)) ->
  find_task (c_tasks (s_core s)) x = Some tx -> In t (t_deps tx) ->
  In x (terminal_ids (pre ++ [OEv e])).
Proof. exact step_dep_closed. Qed.

Print Assumptions C03_dependency_invariant.
Print Assumptions C03_placed_task_has_no_pending_dependency.
Print Assumptions C03_ready_task_has_no_pending_dependency.
Print Assumptions C03_take_one_highest.
Print Assumptions C03_dependency_invariant_static.
Print Assumptions C03_placed_task_has_no_pending_dependency_static.
Print Assumptions C03_history_dep_closed.
Print Assumptions C03_journal_dep_closed.
Print Assumptions C03_step_dep_closed.
