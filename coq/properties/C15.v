(** C15 - Priorities: lower-priority tasks never take what a waiting higher one fits.
    Only statements closed by [exact]; the proofs live in HQ.Sched.*. *)
From Coq Require Import Sorting.Sorted.
From HQ Require Import Base.Prelude Gen.Consts Sched.Model Sched.Proofs Sched.ProofsExact Sched.ExactFullRefuted Sched.ExactFullInst Sched.ExactFull Sched.ExactFullZeroU Sched.ExactFullSorted.

(** [Priority::from_user_priority] is strictly monotone on all of i32 ... *)
Theorem C15_priority_order_encoding : forall p q : Z,
  (- 2 ^ 31 <= p < 2 ^ 31)%Z -> (- 2 ^ 31 <= q < 2 ^ 31)%Z ->
  ((p < q)%Z <-> (from_user_priority p < from_user_priority q)%N).
Proof. exact priority_strictly_monotone. Qed.

(** ... and [take_tasks] pops exactly the first [n] tasks in the order "descending priority, then
    ascending id" (so the dispatched tasks of a class are always its top ones); asking for more than
    the queue holds is the [first_entry().unwrap()] panic. *)
Theorem C15_priority_order : forall q n l q',
  q_prefill q = None -> ready_wf (q_ready q) ->
  take_tasks q n = Ok (l, q') ->
  StronglySorted before (flat_tasks (q_ready q))
  /\ l = map snd (firstn (N.to_nat n) (flat_tasks (q_ready q)))
  /\ flat_ids (q_ready q') = map snd (skipn (N.to_nat n) (flat_tasks (q_ready q)))
  /\ q_prefill q' = None.
Proof. exact take_tasks_order. Qed.

(** With a prefill set: [take_tasks] pops the first [n] tasks of [pop_order] (first ready entry if it has
    the prefill's priority, then the prefill set, then the other ready entries), and under the queue
    invariant "the prefill set has the highest priority" that order is by non-increasing priority. *)
Theorem C15_priority_order_prefill : forall q n l q',
  take_tasks q n = Ok (l, q') -> l = map snd (firstn (N.to_nat n) (pop_order q)).
Proof. exact take_tasks_prefill_order. Qed.
Theorem C15_priority_order_prefill_sorted : forall q,
  prefill_wf q -> StronglySorted (fun a b => (fst b <= fst a)%N) (pop_order q).
Proof. exact pop_order_sorted. Qed.

(** The full statement of the property on the model: an optimal solution of the exact row system and a
    dispatch accepted by [mapping_ok] never exhibit an inversion.  It is FALSE of the faithful model
    (and of the real code): see the five refutations below. *)
Definition C15_full : Prop :=
  forall I bs m s d,
    create_task_batches I = Ok bs -> milp_of I bs = Ok m -> feasible m s = true ->
    (forall s', feasible m s' = true -> (objective m s' <= objective m s)%Z) ->
    mapping_ok I bs s d = true -> inversion I d = false.

Theorem C15_K1_refuted : exists I s d, refutes I s d VK1.
Proof. exact K1_refuted. Qed.
Theorem C15_K2_refuted : exists I s d, refutes I s d VK2.
Proof. exact K2_refuted. Qed.
Theorem C15_K3_refuted : exists I s d, refutes I s d VK3.
Proof. exact K3_refuted. Qed.
Theorem C15_K4_refuted : exists I s d, refutes I s d VK4.
Proof. exact K4_refuted. Qed.
Theorem C15_K5_refuted : exists I s d, refutes I s d VK5.
Proof. exact K5_refuted. Qed.

(** Semantics of the cut rows: in every feasible point of the exact row system, if the blocker [(h, bsz)]
    of a cut of batch [b] is open (unbounded, or fewer than [bsz] tasks of [h] counted - placements and
    reservations), then on every worker where [h] may run and whose gap is positive at most
    [cut + gap] tasks of [b]'s class are placed. *)
Theorem C15_cut_semantics : forall I bs m s b c h bsz w g,
  milp_of I bs = Ok m -> feasible m s = true ->
  In b bs -> count_vars I bs (b_rq b) <> [] -> In c (b_cuts b) -> In (h, bsz) (c_blockers c) ->
  blocker_open I bs s (h, bsz) = true ->
  In w (i_workers I) -> capable I w h = true -> gap I w h (b_rq b) = Ok g -> (0 < g)%N ->
  (placed I bs s w (b_rq b) <= c_size c + g)%N.
Proof. exact cut_semantics_gap. Qed.

(** ... and on the workers where [h] may run and whose gap is zero, together at most [cut] tasks of the
    low class are placed (bounded blocker; [zero_sum] adds the placement variables of those workers). *)
Theorem C15_cut_semantics_zero_gap : forall I bs m s b c h sz,
  milp_of I bs = Ok m -> feasible m s = true ->
  In b bs -> count_vars I bs (b_rq b) <> [] -> In c (b_cuts b) -> In (h, Some sz) (c_blockers c) ->
  blocker_open I bs s (h, Some sz) = true ->
  (zero_sum I bs s h (b_rq b) (i_workers I) <= Z.of_N (c_size c))%Z.
Proof. exact cut_semantics_zero. Qed.

(** What the TIGHT row K1 (cut budget shared by all workers where the blocker may run:
    sum_w max(0, x[w,l] - gap(w)) <= cut) guarantees: every real per-worker cut row, and the low class'
    total on those workers within [cut + total gap].  The step from there to [inversion = false] is NOT
    provable: the row system itself (K2, K4, K5) and the mapping (K3) invert priorities even when this
    row holds - see the refutations. *)
Theorem C15_tight_no_inversion_partial : forall I bs s l cut h,
  k1_violated I bs s l cut h = false ->
  (forall w, In w (i_workers I) -> capable I w h = true -> (placed I bs s w l <= cut + gap_or0 I w h l)%N)
  /\ (capable_total I bs s l h (i_workers I) <= cut + gap_total I l h (i_workers I))%N.
Proof. exact tight_k1_guarantees. Qed.

(** What the GAP guarantees (the rationale of the cut + gap rows): on a worker whose accounting is exact
    (free = resources - assigned), whatever is placed inside [gap_resources w h] - the capacity the
    blocker class [h] can never use when it is packed onto [w] - leaves room for EVERY task of [h]
    that fits the worker's free resources.  (The inversions K1..K5 come from granting more than this
    capacity, or from tasks that are not inside it, never from the gap notion itself.) *)
Theorem C15_gap_leaves_room : forall I w h G,
  no_all I ->
  gap_resources I w h = Ok G ->
  request_wf (req_of I h) -> request_nodup (req_of I h) ->
  (exists e, In e (req_of I h) /\ (rv_get (w_res w) (fst e) / snd e < SCHED_MAX_TASK_PER_WORKER)%N) ->
  (forall r, (rv_get (w_free w) r + demand I (w_assigned w) r)%N = rv_get (w_res w) r) ->
  forall (U : N -> N), (forall r, (U r <= rv_get G r)%N) ->
  forall k, (k <= task_max_count (w_free w) (req_of I h))%N ->
  forall r, (k * amount (req_of I h) r + U r <= rv_get (w_free w) r)%N.
Proof. exact gap_leaves_room. Qed.

(** An EXACT class: one worker, one resource kind, two request classes - the high class (0) at one
    priority level [ph], the low class (1) at any number of levels strictly below [ph] (any amounts, any
    number of tasks, any running tasks): an optimal solution of the exact row system, dispatched by any
    assignment [mapping_ok] accepts, has no priority inversion.
    ([R / ah <= MAX_TASK_PER_WORKER]: the worker cannot hold more than 1024 high tasks; [ready_wf] /
    [NoDup]: the representation invariant of the low class' queue.) *)
Theorem C15_no_inversion_exact_class : forall R F assigned ah al ph hs lq bs m s d,
  (0 < ah)%N -> (0 < al)%N -> (F <= R)%N -> (R / ah <= SCHED_MAX_TASK_PER_WORKER)%N ->
  Forall (fun e : N * list N => (fst e < ph)%N) lq -> ready_wf lq -> NoDup (flat_ids lq) ->
  create_task_batches (xinst R F assigned ah al ph hs lq) = Ok bs ->
  milp_of (xinst R F assigned ah al ph hs lq) bs = Ok m -> feasible m s = true ->
  (forall s', feasible m s' = true -> (objective m s' <= objective m s)%Z) ->
  mapping_ok (xinst R F assigned ah al ph hs lq) bs s d = true ->
  inversion (xinst R F assigned ah al ph hs lq) d = false.
Proof. exact exact_class_no_inversion. Qed.

(** The wider candidate (one worker, one resource kind, two classes with INTERLEAVED priority levels) is not
    proved; no counterexample in the dedicated harness mode `exact`.  With two resource kinds the class
    is inexact already (K4 witness: one worker, cpus + gpus). *)
Definition C15_no_inversion_exact_class_full : Prop :=
  forall I bs m s d w,
    i_workers I = [w] -> i_nres I = 1%N -> length (i_classes I) = 2%nat -> inst_wf I ->
    create_task_batches I = Ok bs -> milp_of I bs = Ok m -> feasible m s = true ->
    (forall s', feasible m s' = true -> (objective m s' <= objective m s)%Z) ->
    mapping_ok I bs s d = true -> inversion I d = false.

(** ... it is FALSE (observation K6, outside the property's domain of "up to 8 priority levels"):
    [create_task_batches] keeps at most 32 cuts per batch, two classes alternating more than 32
    levels lose cuts, and an optimal solution then dispatches below a waiting, fitting task
    (one worker with 133 units, classes asking 2 and 3, 40 levels each; confirmed on the real solver). *)
Theorem C15_no_inversion_exact_class_full_refuted : ~ C15_no_inversion_exact_class_full.
Proof. exact no_inversion_exact_class_full_refuted. Qed.

(** The true form: one worker, one resource kind, two classes whose priority levels INTERLEAVE in any
    way (shared levels included, any task counts, any running tasks), at most 32 levels per class
    (so no cut is pruned; the property's domain is 8) and R / a within the per-worker task cap: an
    OPTIMAL solution of the row system, dispatched by the mapping, has no priority inversion. *)
Theorem C15_no_inversion_exact_class_interleaved : forall R F assigned a0 a1 q0 q1 bs m s d,
  0 < a0 -> 0 < a1 -> F <= R ->
  R / a0 <= SCHED_MAX_TASK_PER_WORKER -> R / a1 <= SCHED_MAX_TASK_PER_WORKER ->
  ready_wf q0 -> NoDup (flat_ids q0) -> ready_wf q1 -> NoDup (flat_ids q1) ->
  (length q0 <= 32)%nat -> (length q1 <= 32)%nat ->
  create_task_batches (yinst R F assigned a0 a1 q0 q1) = Ok bs ->
  milp_of (yinst R F assigned a0 a1 q0 q1) bs = Ok m -> feasible m s = true ->
  (forall s', feasible m s' = true -> (objective m s' <= objective m s)%Z) ->
  mapping_ok (yinst R F assigned a0 a1 q0 q1) bs s d = true ->
  inversion (yinst R F assigned a0 a1 q0 q1) d = false.
Proof. exact exact_class_full_no_inversion. Qed.
Definition C15_exact_class_interleaved_instance := exact_class_full_instance.

(** Cut semantics, the case that was open: for an UNBOUNDED blocker the aggregate zero-gap bound
    holds for every cut of every batch (the row of the first cut naming the blocker implies it for
    the later ones, because cut sizes ascend - also after pruning). *)
Theorem C15_cut_semantics_zero_gap_unbounded : forall I bs m s b c h,
  create_task_batches I = Ok bs -> milp_of I bs = Ok m -> feasible m s = true ->
  In b bs -> count_vars I bs (b_rq b) <> [] -> In c (b_cuts b) -> In (h, None) (c_blockers c) ->
  (zero_sum I bs s h (b_rq b) (i_workers I) <= Z.of_N (c_size c))%Z.
Proof. exact cut_semantics_zero_unbounded_batches. Qed.

(** C05, row-system half (used by the cluster component).  [inst_on I w] resolves the classes for worker
    [w]: an entry with the [All] policy demands the worker's TOTAL of that resource.  A feasible point of the row system, turned
    into a dispatch accepted by [mapping_ok], never overbooks a worker, and tasks are only placed where
    the request fits the free resources, is not blocked and the worker has enough remaining time. *)
Theorem C05_feasible_no_overbook : forall I bs m s d,
  inst_wf I ->
  create_task_batches I = Ok bs -> milp_of I bs = Ok m -> feasible m s = true -> mapping_ok I bs s d = true ->
  forall w, In w (i_workers I) ->
    (exists v, free_after I d w = Some v
               /\ forall r, rv_get v r = (rv_get (w_free w) r - demand (inst_on I w) (rqs_on I d (w_id w)) r)%N)
    /\ (forall r, (demand (inst_on I w) (rqs_on I d (w_id w)) r <= rv_get (w_free w) r)%N)
    /\ (forall rq, In rq (rqs_on I d (w_id w)) -> placeable I w rq = true).
Proof. exact C05_feasible_no_overbook_thm. Qed.

Check C15_priority_order_encoding : forall p q : Z,
  (- 2 ^ 31 <= p < 2 ^ 31)%Z -> (- 2 ^ 31 <= q < 2 ^ 31)%Z ->
  ((p < q)%Z <-> (from_user_priority p < from_user_priority q)%N).

Print Assumptions C15_priority_order_encoding.
Print Assumptions C15_priority_order.
Print Assumptions C15_priority_order_prefill.
Print Assumptions C15_priority_order_prefill_sorted.
Print Assumptions C15_K1_refuted.
Print Assumptions C15_K2_refuted.
Print Assumptions C15_K3_refuted.
Print Assumptions C15_K4_refuted.
Print Assumptions C15_K5_refuted.
Print Assumptions C15_cut_semantics.
Print Assumptions C15_cut_semantics_zero_gap.
Print Assumptions C15_tight_no_inversion_partial.
Print Assumptions C15_gap_leaves_room.
Print Assumptions C15_no_inversion_exact_class.
Print Assumptions C05_feasible_no_overbook.
Print Assumptions C15_no_inversion_exact_class_full_refuted.
Print Assumptions C15_no_inversion_exact_class_interleaved.
Print Assumptions C15_exact_class_interleaved_instance.
Print Assumptions C15_cut_semantics_zero_gap_unbounded.
