(** C11 - Identifiers are never reused across restarts.
    Only statements closed by [exact]; the proofs live in HQ.Journal.IdProofs / HQ.Journal.PruneProofs. *)
From HQ Require Import Base.Prelude Journal.Event Journal.Restore Journal.Prune Journal.IdProofs Journal.PruneProofs.
Open Scope N_scope.

(** For ANY event list (no reachability needed): the next job id ([r_job_counter]), the next worker
    id ([r_worker_counter + 1]) and the next queue id ([r_queue_counter]) exceed every id of that
    kind occurring anywhere in the journal - job ids inside task ids, worker ids inside TaskStarted,
    ids of completed jobs, lost workers and removed queues included. *)
Theorem C11_ids_fresh : forall evs r,
  restore evs = Ok r ->
  forall e, In e evs ->
    (forall j, In j (ev_job_ids e) -> j < r_job_counter r)
    /\ (forall w, In w (ev_worker_ids e) -> w < r_worker_counter r + 1)
    /\ (forall q, In q (ev_queue_ids e) -> q < r_queue_counter r).
Proof. exact ids_fresh. Qed.

(** The restored server uid is the uid of the last ServerStart record. *)
Theorem C11_uid_kept : forall evs r, restore evs = Ok r -> r_uid r = last_uid evs.
Proof. exact uid_kept. Qed.

(** Repeated restarts: whatever is appended to the journal, the counters of a later restart are
    at least those of an earlier one. *)
Theorem C11_monotone_over_restarts : forall evs evs' r r',
  restore evs = Ok r -> restore (evs ++ evs') = Ok r' ->
  r_job_counter r <= r_job_counter r' /\ r_worker_counter r <= r_worker_counter r'
  /\ r_queue_counter r <= r_queue_counter r'.
Proof. exact ids_monotone_append. Qed.

(** Composed with prune: the counters of the pruned journal are never HIGHER than those of the
    original (C12_prune_equiv_partial) - and they can be strictly lower: prune removes every record
    of completed jobs / disconnected workers, so a restart after a prune may issue their ids again
    (known finding F8-prune-id-highwater). *)
Definition C11_prune_keeps_ids_full : Prop := forall lj lw evs r r',
  restore evs = Ok r -> restore (prune lj lw evs) = Ok r' ->
  r_job_counter r' = r_job_counter r /\ r_worker_counter r' = r_worker_counter r.

Theorem C11_prune_keeps_ids_refuted :
  exists evs lj lw r r', restore evs = Ok r /\ restore (prune lj lw evs) = Ok r'
    /\ r_job_counter r' < r_job_counter r /\ r_worker_counter r' < r_worker_counter r.
Proof. exact prune_keeps_ids_refuted. Qed.

(** The queue id counter does survive pruning. *)
Theorem C11_prune_keeps_queue_ids : forall lj lw evs r,
  restore evs = Ok r -> Forall (keeps_loss lw) evs ->
  exists r', restore (prune lj lw evs) = Ok r' /\ r_queue_counter r' = r_queue_counter r /\ r_uid r' = r_uid r.
Proof.
  exact (fun lj lw evs r H K => match prune_equiv lj lw evs r H K with
         | ex_intro _ r' (conj A (conj _ (conj _ (conj U (conj _ (conj Q _)))))) => ex_intro _ r' (conj A (conj Q U)) end).
Qed.

Check C11_ids_fresh : forall evs r, restore evs = Ok r -> forall e, In e evs ->
    (forall j, In j (ev_job_ids e) -> j < r_job_counter r)
    /\ (forall w, In w (ev_worker_ids e) -> w < r_worker_counter r + 1)
    /\ (forall q, In q (ev_queue_ids e) -> q < r_queue_counter r).

Print Assumptions C11_ids_fresh.
Print Assumptions C11_uid_kept.
Print Assumptions C11_monotone_over_restarts.
Print Assumptions C11_prune_keeps_ids_refuted.
Print Assumptions C11_prune_keeps_queue_ids.
