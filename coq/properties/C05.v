(** C05 - The server never overbooks a worker and only places tasks where they can run. *)
From HQ Require Import Base.Prelude Cluster.Types Cluster.Core Cluster.Reactor Cluster.Worker Cluster.Server Cluster.Sys Cluster.Monitors Cluster.ProofsJob Cluster.ProofsCore Cluster.ProofsMore Cluster.BijFinal Cluster.RejHyp Cluster.InvWFinal Cluster.CrashFrame Cluster.ProofsOnce Cluster.BijWitness Cluster.BijFinal Cluster.NoPanicU0 Cluster.AcctStep Cluster.AcctFinal Cluster.AcctCore.
From Coq Require Import ZArith.
Local Open Scope N_scope.
From HQ Require Sched.Model Sched.ProofsRows.
Module SM := HQ.Sched.Model.
Module SP := HQ.Sched.ProofsRows.

(** Reserving a request that fits and releasing it again restores the worker's free resources
    exactly (no saturation involved). *)
Theorem C05_reservation_roundtrip : forall w t rq w1 w2 a p f,
  w_assign w = Sn a p f -> tid_mem t a = false -> res_fits f rq = true -> length rq = length f ->
  Forall2 (fun x c => x <= c) f (w_res w) ->
  insert_sn_task w t rq = Ok w1 -> remove_sn_task w1 t rq = Ok w2 ->
  w_assign w2 = Sn (tid_remove t (tid_insert t a)) p f.
Proof. exact reservation_roundtrip. Qed.

(** A multi-node task is only put on workers that hold no assigned and no prefilled task. *)
Theorem C05_mn_only_on_free_workers : forall w t root w',
  set_mn_task w t root = Ok w' -> exists f, w_assign w = Sn [] [] f /\ w_stopping w = false.
Proof. exact mn_only_on_free_workers. Qed.

(** Every solution of the scheduler's row system, turned into a dispatch, stays within the free
    resources of every worker and places tasks only where they are runnable (component `sched`);
    [inst_on I w] resolves `all`-policy entries to the worker's total of the resource. *)
Theorem C05_feasible_no_overbook : forall I bs m s d,
  SP.inst_wf I ->
  SM.create_task_batches I = Ok bs -> SM.milp_of I bs = Ok m -> SM.feasible m s = true -> SM.mapping_ok I bs s d = true ->
  forall w, In w (SM.i_workers I) ->
    (exists v, SM.free_after I d w = Some v
               /\ forall r, SM.rv_get v r = (SM.rv_get (SM.w_free w) r - SP.demand (SM.inst_on I w) (SP.rqs_on I d (SM.w_id w)) r)%N)
    /\ (forall r, (SP.demand (SM.inst_on I w) (SP.rqs_on I d (SM.w_id w)) r <= SM.rv_get (SM.w_free w) r)%N)
    /\ (forall rq, In rq (SP.rqs_on I d (SM.w_id w)) -> SM.placeable I w rq = true).
Proof. exact HQ.Sched.ProofsRows.C05_feasible_no_overbook_thm. Qed.

(** The server-side worker bookkeeping agrees with the task states in EVERY reachable state: every
    id in a worker's assigned / prefilled set is a task placed there, and conversely every placed
    task is in exactly the set its state names; a multi-node task's workers are reserved for it
    ([Mn t]: such a worker has no single-node set at all, it runs nothing else).
    Hypotheses: [op_wf] (entries as many as explicit ids) and the executable channel / solver-answer
    hypothesis [run_fresh] of RejHyp.v (monitored on every explored history). *)
Theorem C05_worker_sets_invariant : forall ops reserve maxfill s outs,
  Forall op_wf ops -> run_fresh (init_sys reserve maxfill) ops = true -> run (init_sys reserve maxfill) ops = Ok (s, outs) ->
  let c := s_core s in
  forallb (worker_sets_ok c) (c_workers c) = true /\
  (forall t, In t (c_tasks c) ->
     match t_state t with
     | Assigned w _ | Running w _ => (exists wk a p f, find_worker (c_workers c) w = Some wk /\ w_assign wk = Sn a p f /\ tid_mem (t_id t) a = true)
     | Prefilled w => (exists wk a p f, find_worker (c_workers c) w = Some wk /\ w_assign wk = Sn a p f /\ tid_mem (t_id t) p = true)
     | Retracting _ => forall target rv, find_redirect (c_redirects c) (t_id t) = Some (target, rv) ->
                         exists wk a p f, find_worker (c_workers c) target = Some wk /\ w_assign wk = Sn a p f /\ tid_mem (t_id t) a = true
     | RunningMN ws => forall w, In w ws -> exists wk root, find_worker (c_workers c) w = Some wk /\ w_assign wk = Mn (t_id t) root
     | _ => True
     end).
Proof. exact worker_sets_invariant. Qed.

(** The hypotheses of the invariant are met by concrete histories that reach non-trivial states
    (a running task whose worker is lost; a task that runs and finishes). *)
Theorem C05_hypotheses_example :
  Forall op_wf (crash_ops ++ [crash_last]) /\ run_fresh (init_sys 0 2) (crash_ops ++ [crash_last]) = true /\
  Forall op_wf once_ops /\ run_fresh (init_sys 0 2) once_ops = true.
Proof. split; [repeat constructor|]. split; [vm_compute; reflexivity|]. split; [repeat constructor | vm_compute; reflexivity]. Qed.

(** The accounting conjunct, and what exactly the known finding F23 is.  In every reachable state of
    every history in which no subtraction from a free counter saturates ([fits_run], executable:
    every scheduler answer fits the free resources of the workers it uses, and every task a worker
    started from its prefilled backlog on its own fits the server's counter at the moment its
    message is processed - the negation of F23), the accounting is EXACT: for every worker in
    single-node mode, free + requests of the assigned tasks = total.  [op_dim]: requests have at
    most the three resource kinds of the monitor. *)
Theorem C05_accounting_exact : forall ops r m s outs,
  Forall op_wf ops -> Forall op_dim ops -> ops_ok (init_sys r m) ops = true -> fits_run (init_sys r m) ops = true ->
  run (init_sys r m) ops = Ok (s, outs) ->
  forallb (worker_accounting_ok (s_core s)) (c_workers (s_core s)) = true.
Proof. exact accounting_exact. Qed.
(** ... at every index, without the bound on the number of resource kinds. *)
Theorem C05_accounting_exact_all_indices : forall ops r m s outs,
  Forall op_wf ops -> ops_ok (init_sys r m) ops = true -> fits_run (init_sys r m) ops = true ->
  run (init_sys r m) ops = Ok (s, outs) ->
  forall wk a p f, In wk (c_workers (s_core s)) -> w_assign wk = Sn a p f ->
    length f = length (w_res wk) /\
    forall i, nth i f 0 + fold_right (fun id acc => nth i (request_of (s_core s) id) 0 + acc) 0 a = nth i (w_res wk) 0.
Proof. exact accounting_exact_all_indices. Qed.
(** The whole core invariant [core_ok] (the monitor evaluated on every explored state) then holds,
    up to the "one worker group" part of [mn_ok], which is a property of the solver's answer. *)
Theorem C05_core_ok_exact : forall ops r m s outs,
  Forall op_wf ops -> ops_ok (init_sys r m) ops = true -> run (init_sys r m) ops = Ok (s, outs) ->
  Forall op_dim ops -> fits_run (init_sys r m) ops = true ->
  forallb (mn_ok (s_core s)) (c_tasks (s_core s)) = true ->
  core_ok (s_core s) = true.
Proof. exact core_ok_exact. Qed.
(** The hypothesis is exactly F23 (a history on which everything holds up to the step that processes
    a self-started prefilled task; there [fits_step] is false and afterwards the accounting is),
    and it is satisfiable by histories in which workers do start prefilled tasks on their own. *)
Definition C05_f23_is_the_hypothesis := f23_is_the_hypothesis.
Definition C05_accounting_hyps_ok := accounting_exact_hyps_ok.

Print Assumptions C05_hypotheses_example.
Print Assumptions C05_worker_sets_invariant.
Print Assumptions C05_reservation_roundtrip.
Print Assumptions C05_mn_only_on_free_workers.
Print Assumptions C05_feasible_no_overbook.
Print Assumptions C05_accounting_exact.
Print Assumptions C05_accounting_exact_all_indices.
Print Assumptions C05_core_ok_exact.
Print Assumptions C05_f23_is_the_hypothesis.
Print Assumptions C05_accounting_hyps_ok.
