(** C05 - The server never overbooks a worker and only places tasks where they can run. *)
From HQ Require Import Base.Prelude Cluster.Types Cluster.Core Cluster.Reactor Cluster.Worker Cluster.Server Cluster.Sys Cluster.Monitors Cluster.ProofsJob Cluster.ProofsCore Cluster.ProofsMore.
From Coq Require Import ZArith.
Local Open Scope N_scope.
From HQ Require Sched.Model Sched.ProofsRows.
Module SM := HQ.Sched.Model.
Module SP := HQ.Sched.ProofsRows.

(** Reserving a request that fits and releasing it again restores the worker's free resources
    exactly (no saturation involved). *)
Theorem C05_reservation_roundtrip : forall w t rq w1 w2 a p f,
  w_assign w = Sn a p f -> tid_mem t a = false -> res_fits f rq = true -> length rq = length f ->
  insert_sn_task w t rq = Ok w1 -> remove_sn_task w1 t rq = Ok w2 ->
  w_assign w2 = Sn (tid_remove t (tid_insert t a)) p f.
Proof. exact reservation_roundtrip. Qed.

(** A multi-node task is only put on workers that hold no assigned and no prefilled task. *)
Theorem C05_mn_only_on_free_workers : forall w t root w',
  set_mn_task w t root = Ok w' -> exists f, w_assign w = Sn [] [] f /\ w_stopping w = false.
Proof. exact mn_only_on_free_workers. Qed.

(** Every solution of the scheduler's row system, turned into a dispatch, stays within the free
    resources of every worker and places tasks only where they are runnable (component `sched`). *)
Theorem C05_feasible_no_overbook : forall I bs m s d,
  SP.inst_wf I ->
  SM.create_task_batches I = Ok bs -> SM.milp_of I bs = Ok m -> SM.feasible m s = true -> SM.mapping_ok I bs s d = true ->
  forall w, In w (SM.i_workers I) ->
    (exists v, SM.free_after I d w = Some v
               /\ forall r, SM.rv_get v r = (SM.rv_get (SM.w_free w) r - SP.demand I (SP.rqs_on I d (SM.w_id w)) r)%N)
    /\ (forall r, (SP.demand I (SP.rqs_on I d (SM.w_id w)) r <= SM.rv_get (SM.w_free w) r)%N)
    /\ (forall rq, In rq (SP.rqs_on I d (SM.w_id w)) -> SM.placeable I w rq = true).
Proof. exact HQ.Sched.ProofsRows.C05_feasible_no_overbook_thm. Qed.

Print Assumptions C05_reservation_roundtrip.
Print Assumptions C05_mn_only_on_free_workers.
Print Assumptions C05_feasible_no_overbook.
