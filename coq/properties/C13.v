(** C13 - Job bookkeeping: counters match tasks, complete exactly once, atomic submits. *)
From HQ Require Import Base.Prelude Cluster.Types Cluster.Core Cluster.Reactor Cluster.Worker Cluster.Server Cluster.Sys Cluster.Monitors Cluster.ProofsJob Cluster.ProofsCore Cluster.ProofsMore Cluster.ProofsStep Cluster.ProofsSubmit.
From HQ Require Cluster.WaitModel Cluster.WaitProofs.
From Coq Require Import ZArith.
Local Open Scope N_scope.

(** For EVERY sequence of client requests (open / close / cancel / forget) and task-progress
    callbacks (started / finished / failed with dependents / worker lost) that the job layer
    processes without panicking - also sequences the scheduler core would never produce - the
    per-state counters of every job equal the number of its tasks in that state, and the completion
    flag is set only on a closed job without waiting or running tasks. *)
Theorem C13_counters_exact : forall ops reserve maxfill s',
  jrun (init_sys reserve maxfill, []) ops = Ok s' -> hq_ok (fst s') = true.
Proof. exact job_layer_counters_exact. Qed.

(** The same for the WHOLE system model (core + workers + channels + job layer): after any history
    of operations - client requests incl. submits, message deliveries in any order, scheduling rounds
    with any solver answer, worker losses, task ends, timers - that the model processes without
    panicking, the counters of every job are exact and the completion flag is sound. *)
Theorem C13_system_counters_exact : forall ops reserve maxfill s outs,
  run (init_sys reserve maxfill) ops = Ok (s, outs) -> hq_ok s = true.
Proof. exact system_counters_exact. Qed.

(** One step of the job layer preserves the invariant (the induction step of the theorem above). *)
Theorem C13_invariant_step : forall s o s', HOK (hq_of s) -> jstep s o = Ok s' -> HOK (hq_of s').
Proof. exact jstep_ok. Qed.

(** `n_tasks - running - finished - failed - canceled - aborted` never underflows on a consistent
    job and equals the number of waiting tasks (the derived "waiting" count shown to users). *)
Theorem C13_waiting_count_exact : forall j, JOK j -> n_waiting j = Ok (cnt (j_tasks j) JW).
Proof. exact n_waiting_ok. Qed.

(** Auto-assigned ids of a submit with n entries into an open job: exactly the n ids following the
    largest existing id, all of them handed to the scheduler. *)
Theorem C13_auto_ids_exact : forall mx n,
  let ids := range_from (mx + 1) (N.to_nat n) in
  N.of_nat (length ids) = n
  /\ (forall x, In x ids <-> mx < x <= mx + n)
  /\ fst (take_n (N.to_nat n) ids) = ids.
Proof. exact auto_ids_exact. Qed.

Check C13_counters_exact : forall ops reserve maxfill s', jrun (init_sys reserve maxfill, []) ops = Ok s' -> hq_ok (fst s') = true.
(** Atomic submits: a submit that is answered with an error (job not open / not found, task id
    already exists, non-unique id, invalid dependency) leaves the WHOLE system state - job layer,
    scheduler core, worker processes - exactly as it was. *)
Theorem C13_rejected_array_submit_no_effect : forall s jobsel ids entries rq prio cl tlim mf s' outs,
  step s (OpSubmit jobsel ids entries rq prio cl tlim mf) = Ok (s', outs) ->
  existsb is_submit_err outs = true -> s' = s.
Proof. exact submit_array_rejected_no_effect. Qed.

Theorem C13_rejected_graph_submit_no_effect : forall s jobsel rqs ts mf s' outs,
  step s (OpSubmitG jobsel rqs ts mf) = Ok (s', outs) ->
  existsb is_submit_ok outs = false -> s' = s.
Proof. exact submit_graph_rejected_no_effect. Qed.

Print Assumptions C13_rejected_array_submit_no_effect.
Print Assumptions C13_rejected_graph_submit_no_effect.
Print Assumptions C13_counters_exact.
Print Assumptions C13_system_counters_exact.
Print Assumptions C13_invariant_step.
Print Assumptions C13_waiting_count_exact.
Print Assumptions C13_auto_ids_exact.

(** ** Last sentence of C13: "a client that submits a job and asks to be told when it ends always
    receives the job's completion report" - on the yield-point model [Cluster/WaitModel.v] of
    [client_rpc_loop] / [start_streaming] / [stream_events] / [EventStreamer] (a handler runs
    atomically between two [await]s; between them any other server activity may run).  [cur cf]:
    the current code (listener registered before the journal flush is awaited; new listener id =
    largest id in use + 1), with or without a journal. *)

(** For EVERY interleaving (any label sequence: connection steps of any number of connections, task
    ends / cancels / closes / submits / forgets, journal acknowledgements, client closes): a
    connection that submitted job [j] asking for its job events and was not closed by its client is
    still being served, its listener is still registered under an id and a channel that no other
    listener has, and the [JobCompleted j] events emitted so far (at most one) are exactly those
    queued for it plus those already written to it. *)
Theorem C13_wait_gets_completion : forall cf ls s c r j,
  WaitProofs.cur cf -> WaitModel.wrun cf WaitModel.init ls = Ok s ->
  WaitModel.w_conns s c = Some r -> WaitModel.c_job r = Some j -> WaitModel.c_closed r = false ->
  (exists i l, WaitProofs.pc_lid (WaitModel.c_pc r) = Some i /\ In l (WaitModel.w_listeners s) /\ WaitModel.l_id l = i /\ WaitModel.l_chan l = c
               /\ WaitModel.fcheck (WaitModel.l_filter l) (WaitModel.WvCompleted j) = true
               /\ forall l', In l' (WaitModel.w_listeners s) -> WaitModel.l_id l' = i \/ WaitModel.l_chan l' = c -> l' = l)
  /\ count_occ WaitModel.ev_eq_dec (WaitModel.w_log s) (WaitModel.WvCompleted j)
     = (count_occ WaitModel.ev_eq_dec (WaitModel.c_queue r) (WaitModel.WvCompleted j)
        + count_occ WaitModel.msg_eq_dec (WaitModel.c_sent r) (WaitModel.MEvent (WaitModel.WvCompleted j)))%nat
  /\ (count_occ WaitModel.ev_eq_dec (WaitModel.w_log s) (WaitModel.WvCompleted j) <= 1)%nat.
Proof. exact WaitProofs.wait_gets_completion. Qed.

(** ... and once the job has completed, steps of the journal thread and of that connection alone
    make the handler write [JobCompleted j] to the client. *)
Theorem C13_wait_delivery_progress : forall cf ls s c r j,
  WaitProofs.cur cf -> WaitModel.wrun cf WaitModel.init ls = Ok s ->
  WaitModel.w_conns s c = Some r -> WaitModel.c_job r = Some j -> WaitModel.c_closed r = false -> In (WaitModel.WvCompleted j) (WaitModel.w_log s) ->
  exists ls' s' r',
    (forall l, In l ls' -> l = WaitModel.LFlushAck c \/ l = WaitModel.LConn c)
    /\ WaitModel.wrun cf s ls' = Ok s' /\ WaitModel.w_conns s' c = Some r' /\ WaitModel.told r' j = true.
Proof. exact WaitProofs.wait_delivery_progress. Qed.

(** The corner case "already complete at the first yield" cannot occur: after the handler's first
    atomic run the listener is registered and no [JobCompleted] of the job was emitted; a new job's
    response makes the client wait iff the submit has a task. *)
Theorem C13_wait_gets_completion_closed_immediately : forall cf ls s c r target n flt s',
  WaitProofs.cur cf -> WaitModel.wrun cf WaitModel.init ls = Ok s ->
  WaitModel.w_conns s c = Some r -> WaitModel.c_pc r = WaitModel.PcSubmitReq target n flt -> WaitModel.conn_step cf c s = Ok s' ->
  exists r', WaitModel.w_conns s' c = Some r'
    /\ (forall j, WaitModel.c_job r' = Some j ->
          ~ In (WaitModel.WvCompleted j) (WaitModel.w_log s') /\ WaitModel.c_queue r' = []
          /\ exists i l, WaitProofs.pc_lid (WaitModel.c_pc r') = Some i /\ In l (WaitModel.w_listeners s') /\ WaitModel.l_id l = i /\ WaitModel.l_chan l = c)
    /\ (target = None -> WaitModel.f_jobs flt = None -> WaitModel.f_job_ev flt = true ->
          WaitModel.c_job r' = Some (WaitModel.w_next_job s)
          /\ let m := WaitModel.MResp (WaitModel.w_next_job s) (0 <? n) in
             (exists i, WaitModel.c_pc r' = WaitModel.PcFlushReg i m) \/ WaitModel.c_sent r' = [m]).
Proof. exact WaitProofs.wait_gets_completion_closed_immediately. Qed.

(** At every check of a waiting connection whose handler is in its stream loop (the harness op
    WAITCHECK), after the executor has run the connection to quiescence, the client has been told
    iff the job has completed - the specification line of the harness scenario, as a theorem. *)
Theorem C13_wait_check_spec : forall cf ls s c r i j,
  WaitProofs.cur cf -> WaitModel.wrun cf WaitModel.init ls = Ok s ->
  WaitModel.w_conns s c = Some r -> WaitModel.c_pc r = WaitModel.PcStream i ->
  WaitModel.c_closed r = false -> WaitModel.c_job r = Some j ->
  exists s', WaitModel.settle_conn cf c s = Ok s'
             /\ WaitModel.observe s' c = Some (j, WaitModel.completed s j, WaitModel.completed s j).
Proof. exact WaitProofs.wait_check_spec. Qed.

(** An empty submit creates a job that is terminated from the start; the server never emits
    [JobCompleted] for it (and by the previous theorem its client was not told to wait). *)
Theorem C13_wait_empty_job_never_completes : forall cf ls s c r flt s' ls' s'',
  WaitProofs.cur cf -> WaitModel.wrun cf WaitModel.init ls = Ok s ->
  WaitModel.w_conns s c = Some r -> WaitModel.c_pc r = WaitModel.PcSubmitReq None 0 flt ->
  WaitModel.conn_step cf c s = Ok s' ->
  WaitModel.wrun cf s' ls' = Ok s'' -> ~ In (WaitModel.WvCompleted (WaitModel.w_next_job s)) (WaitModel.w_log s'').
Proof. exact WaitProofs.empty_job_never_completes. Qed.

(** Listener ids (and channels) are pairwise distinct in every reachable state; the [unwrap] in
    [unregister_listener] is unreachable. *)
Theorem C13_listener_ids_distinct : forall cf ls s,
  WaitProofs.cur cf -> WaitModel.wrun cf WaitModel.init ls = Ok s ->
  NoDup (map WaitModel.l_id (WaitModel.w_listeners s)) /\ NoDup (map WaitModel.l_chan (WaitModel.w_listeners s)).
Proof. exact WaitProofs.listener_ids_distinct. Qed.

Theorem C13_unregister_never_panics : forall cf ls site,
  WaitProofs.cur cf -> WaitModel.wrun cf WaitModel.init ls = Panic site -> site = WaitModel.site_lid_overflow.
Proof. exact WaitProofs.unregister_never_panics. Qed.

(** The order before fix 74067fa (defect F13) and the seeded change m13 (id = len + 1) violate it. *)
Theorem C13_wait_prefix_order_refuted :
  exists ls s r, WaitModel.wrun WaitModel.cfg_prefix WaitModel.init ls = Ok s /\ WaitModel.w_conns s 0 = Some r
    /\ WaitModel.c_job r = Some 1 /\ WaitModel.c_closed r = false /\ WaitModel.c_pc r = WaitModel.PcStream 1
    /\ In (WaitModel.WvCompleted 1) (WaitModel.w_log s) /\ WaitModel.c_queue r = [] /\ WaitModel.c_sent r = [WaitModel.MResp 1 true]
    /\ count_occ WaitModel.ev_eq_dec (WaitModel.w_log s) (WaitModel.WvCompleted 1)
       <> (count_occ WaitModel.ev_eq_dec (WaitModel.c_queue r) (WaitModel.WvCompleted 1%N)
           + count_occ WaitModel.msg_eq_dec (WaitModel.c_sent r) (WaitModel.MEvent (WaitModel.WvCompleted 1%N)))%nat.
Proof. exact WaitProofs.prefix_order_refuted. Qed.

Theorem C13_wait_len_plus_one_refuted :
  (exists s, WaitModel.wrun WaitModel.cfg_len WaitModel.init WaitProofs.m13_prefix = Ok s /\ map WaitModel.l_id (WaitModel.w_listeners s) = [2; 2])
  /\ (exists s r, WaitModel.wrun WaitModel.cfg_len WaitModel.init WaitProofs.m13_labels = Ok s /\ WaitModel.w_conns s 1 = Some r
        /\ WaitModel.c_job r = Some 1 /\ WaitModel.c_closed r = false /\ In (WaitModel.WvCompleted 1) (WaitModel.w_log s)
        /\ WaitModel.c_sent r = [WaitModel.MResp 1 true] /\ WaitModel.c_pc r = WaitModel.PcDone)
  /\ WaitModel.wrun WaitModel.cfg_len WaitModel.init WaitProofs.m13_panic_labels = Panic WaitModel.site_unregister_unwrap.
Proof. exact WaitProofs.len_plus_one_refuted. Qed.

Check C13_wait_gets_completion.
Print Assumptions C13_wait_gets_completion.
Print Assumptions C13_wait_delivery_progress.
Print Assumptions C13_wait_gets_completion_closed_immediately.
Print Assumptions C13_wait_check_spec.
Print Assumptions C13_wait_empty_job_never_completes.
Print Assumptions C13_listener_ids_distinct.
Print Assumptions C13_unregister_never_panics.
Print Assumptions C13_wait_prefix_order_refuted.
Print Assumptions C13_wait_len_plus_one_refuted.
