(** C13 - Job bookkeeping: counters match tasks, complete exactly once, atomic submits. *)
From HQ Require Import Base.Prelude Cluster.Types Cluster.Core Cluster.Reactor Cluster.Worker Cluster.Server Cluster.Sys Cluster.Monitors Cluster.ProofsJob Cluster.ProofsCore Cluster.ProofsMore Cluster.ProofsStep Cluster.ProofsSubmit.
From Coq Require Import ZArith.
Local Open Scope N_scope.

(** For EVERY sequence of client requests (open / close / cancel / forget) and task-progress
    callbacks (started / finished / failed with dependents / worker lost) that the job layer
    processes without panicking - also sequences the scheduler core would never produce - the
    per-state counters of every job equal the number of its tasks in that state, and the completion
    flag is set only on a closed job without waiting or running tasks. *)
Theorem C13_counters_exact : forall ops reserve maxfill s',
  jrun (init_sys reserve maxfill, []) ops = Ok s' -> hq_ok (fst s') = true.
Proof. exact job_layer_counters_exact. Qed.

(** The same for the WHOLE system model (core + workers + channels + job layer): after any history
    of operations - client requests incl. submits, message deliveries in any order, scheduling rounds
    with any solver answer, worker losses, task ends, timers - that the model processes without
    panicking, the counters of every job are exact and the completion flag is sound. *)
Theorem C13_system_counters_exact : forall ops reserve maxfill s outs,
  run (init_sys reserve maxfill) ops = Ok (s, outs) -> hq_ok s = true.
Proof. exact system_counters_exact. Qed.

(** One step of the job layer preserves the invariant (the induction step of the theorem above). *)
Theorem C13_invariant_step : forall s o s', HOK (hq_of s) -> jstep s o = Ok s' -> HOK (hq_of s').
Proof. exact jstep_ok. Qed.

(** `n_tasks - running - finished - failed - canceled - aborted` never underflows on a consistent
    job and equals the number of waiting tasks (the derived "waiting" count shown to users). *)
Theorem C13_waiting_count_exact : forall j, JOK j -> n_waiting j = Ok (cnt (j_tasks j) JW).
Proof. exact n_waiting_ok. Qed.

(** Auto-assigned ids of a submit with n entries into an open job: exactly the n ids following the
    largest existing id, all of them handed to the scheduler. *)
Theorem C13_auto_ids_exact : forall mx n,
  let ids := range_from (mx + 1) (N.to_nat n) in
  N.of_nat (length ids) = n
  /\ (forall x, In x ids <-> mx < x <= mx + n)
  /\ fst (take_n (N.to_nat n) ids) = ids.
Proof. exact auto_ids_exact. Qed.

Check C13_counters_exact : forall ops reserve maxfill s', jrun (init_sys reserve maxfill, []) ops = Ok s' -> hq_ok (fst s') = true.
(** Atomic submits: a submit that is answered with an error (job not open / not found, task id
    already exists, non-unique id, invalid dependency) leaves the WHOLE system state - job layer,
    scheduler core, worker processes - exactly as it was. *)
Theorem C13_rejected_array_submit_no_effect : forall s jobsel ids entries rq prio cl tlim mf s' outs,
  step s (OpSubmit jobsel ids entries rq prio cl tlim mf) = Ok (s', outs) ->
  existsb is_submit_err outs = true -> s' = s.
Proof. exact submit_array_rejected_no_effect. Qed.

Theorem C13_rejected_graph_submit_no_effect : forall s jobsel rqs ts mf s' outs,
  step s (OpSubmitG jobsel rqs ts mf) = Ok (s', outs) ->
  existsb is_submit_ok outs = false -> s' = s.
Proof. exact submit_graph_rejected_no_effect. Qed.

Print Assumptions C13_rejected_array_submit_no_effect.
Print Assumptions C13_rejected_graph_submit_no_effect.
Print Assumptions C13_counters_exact.
Print Assumptions C13_system_counters_exact.
Print Assumptions C13_invariant_step.
Print Assumptions C13_waiting_count_exact.
Print Assumptions C13_auto_ids_exact.
