(** C20 - Connections are accepted only from peers holding the same key and the right role.
    Only statements closed by [exact]; the proofs live in HQ.Auth.Proofs. *)
From HQ Require Import Base.Prelude Gen.Consts Auth.Model Auth.Proofs.

(** Matching configuration + undisturbed exchange: both ends accept. *)
Theorem C20_honest_accepts : forall A B fa fb,
  matching A B = true -> honest_exchange A B fa fb = (true, true).
Proof. exact honest_accepts. Qed.

(** Any mismatch (protocol, key presence, key, roles) + undisturbed exchange: both ends refuse. *)
Theorem C20_mismatch_both_refuse : forall A B fa fb,
  matching A B = false -> honest_exchange A B fa fb = (false, false).
Proof. exact mismatch_both_refuse. Qed.

(** Active Dolev-Yao attacker (replay, reflection, cross-session substitution, forged plaintext
    fields, garbage and ciphertexts under compromised keys): an endpoint that accepts either holds a
    compromised key or was answered - after it drew its challenge - by an honest holder of the same
    key acting in the role it expects. *)
Theorem C20_accept_implies_authentic : forall bad ops e r s',
  all_deliverable bad [] ops = true ->
  deliverable bad (run ops) (OFin e r) = true ->
  step (run ops) (OFin e r) = (s', OutFin true) ->
  exists x, nth_error (run ops) (N.to_nat e) = Some x /\ authentic bad (run ops) e x r = true.
Proof. exact accept_implies_authentic. Qed.

(** A reflected message is never what makes an endpoint with two different roles accept. *)
Theorem C20_no_reflection : forall e x k r y s j,
  Inv s -> nth_error s (N.to_nat e) = Some x -> nth_error s j = Some y ->
  a_my_role (ep_auth x) <> a_peer_role (ep_auth x) ->
  vouches e x k r y = true -> j <> N.to_nat e.
Proof. exact voucher_is_not_self. Qed.

(** Attacker restricted to substituting whole messages: protocol number and the voucher's view of
    the peer role are bound too. *)
Theorem C20_accept_implies_authentic_full_partial : forall ops e r s',
  all_verbatim [] ops = true ->
  verbatim (run ops) (OFin e r) = true ->
  step (run ops) (OFin e r) = (s', OutFin true) ->
  exists x, nth_error (run ops) (N.to_nat e) = Some x
            /\ authentic_full (fun _ => false) (run ops) e x r = true.
Proof. exact accept_implies_authentic_full. Qed.

(** ... but not against an attacker that rewrites the plaintext protocol field (finding F19). *)
Theorem C20_protocol_unbound_refuted :
  exists ops, all_deliverable (fun _ => false) [] ops = true
              /\ (exists x y, run ops = [x; y]
                              /\ ep_result x = Some true /\ ep_result y = Some true
                              /\ a_protocol (ep_auth x) <> a_protocol (ep_auth y)).
Proof. exact protocol_unbound_refuted. Qed.

(** The role pairs at the four real call sites satisfy the hypotheses above. *)
Theorem C20_call_sites_complementary :
  site_ok AUTH_SERVER_SITE_ROLES AUTH_SERVER_SITE_PEER AUTH_WORKER_SITE_ROLES AUTH_WORKER_SITE_PEER = true
  /\ site_ok AUTH_HQ_SERVER_SITE_ROLES AUTH_HQ_SERVER_SITE_PEER AUTH_HQ_CLIENT_SITE_ROLES AUTH_HQ_CLIENT_SITE_PEER = true.
Proof. exact call_sites_complementary. Qed.

Check C20_honest_accepts : forall A B fa fb, matching A B = true -> honest_exchange A B fa fb = (true, true).
Check C20_mismatch_both_refuse : forall A B fa fb, matching A B = false -> honest_exchange A B fa fb = (false, false).

Print Assumptions C20_honest_accepts.
Print Assumptions C20_mismatch_both_refuse.
Print Assumptions C20_accept_implies_authentic.
Print Assumptions C20_no_reflection.
Print Assumptions C20_accept_implies_authentic_full_partial.
Print Assumptions C20_protocol_unbound_refuted.
Print Assumptions C20_call_sites_complementary.
