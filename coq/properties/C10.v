(** C10 - Restart from the journal reproduces the pre-crash state at every crash point.
    Only statements closed by [exact]; proofs in HQ.Journal.RestoreProofs / HQ.Journal.Codec. *)
From HQ Require Import Base.Prelude Journal.Event Journal.Restore Journal.Gen Journal.RestoreProofs Journal.Codec.
From HQ Require Cluster.Types Cluster.Sys Cluster.Bridge Cluster.BridgeRel Cluster.BridgeInv Cluster.BridgeCor.
Open Scope N_scope.

(** Every journal the server can write ([grun g0 evs = Some g]: any history of submits into
    closed/open jobs, starts, finishes, failures before or after start, cancels, aborts, worker
    connects/losses, queue events, earlier restarts), cut at ANY record boundary [k], is restored
    without error and without panic. *)
Theorem C10_restore_total : forall evs k g,
  grun g0 evs = Some g -> exists r, restore (firstn k evs) = Ok r.
Proof. exact restore_total. Qed.

(** ... and the restored state is exactly the abstraction of the history's state: the jobs without
    JobCompleted record with their open flag, the recorded terminal outcome of every task (every
    other task waiting), counters = counts, every pending task handed to the core exactly once with
    the dependencies on unfinished tasks, next instance id = last journalled start + 1 and its crash
    count, the id counters, the server uid and the allocation queues.  (Every prefix of a producible
    journal is producible, so this holds at every crash point.) *)
Theorem C10_restore_refines : forall evs g,
  grun g0 evs = Some g -> exists r, restore evs = Ok r /\ view r = abs g.
Proof. exact restore_refines. Qed.

(** The queries the server runs on a restored job ([n_waiting_tasks], hence [is_terminated],
    job info) cannot underflow. *)
Theorem C10_restore_counters_safe : forall evs g r,
  grun g0 evs = Some g -> restore evs = Ok r ->
  forall j, In j (r_jobs r) -> exists n, n_waiting j = Ok n.
Proof. exact restore_counters_safe. Qed.

(** For every record format built from the codec combinators: a journal followed by a strict
    prefix of one more record is read back completely, the cut record is reported as partial data
    and [position] is the end of the last complete record. *)
Theorem C10_torn_tail : forall (A : Type) (c : Codec A),
  (forall a, enc c a <> []) ->
  forall vs v p, strict_prefix p (enc c v) ->
  read_all c (S (length vs)) (journal c vs ++ p) 0 =
  (vs, match p with [] => false | _ => true end, length (journal c vs), false).
Proof. exact (fun A c H => torn_tail c H). Qed.

(** Truncating at [position] and appending yields a well-formed journal. *)
Theorem C10_truncate_then_append : forall (A : Type) (c : Codec A),
  (forall a, enc c a <> []) ->
  forall vs v p vs', strict_prefix p (enc c v) ->
  firstn (length (journal c vs)) (journal c vs ++ p) = journal c vs
  /\ read_all c (S (length (vs ++ vs'))) (journal c vs ++ journal c vs') 0
     = (vs ++ vs', false, length (journal c (vs ++ vs')), false).
Proof. exact (fun A c H => truncate_then_append c H). Qed.

(** * The tie between the two models: the journal the WHOLE-SYSTEM model writes (component cluster)
    is a journal in the sense of [grun] (component journal).

    [Bridge.jrun] is [Sys.run] collecting the journal records of every step ([BridgeInv.run_jrun] /
    [jrun_run]: same final state, the records are the translation of the [OEv] outputs; a submit
    record carries the task specifications of the operation, as the real record does).
    For EVERY history of the system model (client requests, deliveries in any order, any solver
    answers, losses ...; no hypothesis): running the journal through the "journals the server can
    write" machine either accepts every record and ends in a state related to the job layer by
    [RelJ] (same uncompleted jobs, open flags, task sets, recorded outcomes, job-id high-water
    mark), or stops at a TaskStarted / TaskFinished / WorkerConnected / WorkerLost record
    ([LCore]); it never stops at a Submit, JobOpen, JobClose, JobCompleted, JobCancel, TaskFailed,
    TasksCanceled or TasksAborted record ([LBad]).  So all job-layer side conditions of [gstep]
    (validate_submit, "job terminated" for JobCompleted, "job active" for JobCancel, ...) are
    proved for the system model's journals. *)
Theorem C10_system_first_reject : forall ops reserve maxfill u s evs,
  Bridge.jrun (Sys.init_sys reserve maxfill) ops = Ok (s, evs) ->
  match BridgeRel.lrun g0 (Bridge.journal_of u evs) with
  | BridgeRel.LOk g => BridgeRel.RelJ (Types.s_hq s) g
  | BridgeRel.LCore => True
  | BridgeRel.LBad => False
  end.
Proof. exact BridgeInv.sys_journal_first_reject. Qed.

(** System-level C10 (PARTIAL: under the executable hypothesis [core_records_accepted] - no start /
    finish / worker record of the history is rejected; the unconditional statement is
    [BridgeInv.sys_journal_producible_full], not proved: it needs the converse of the
    start-before-finish invariant and frame lemmas for instance ids and the worker counter):
    restoring the journal of a system history succeeds and yields exactly the abstraction of a
    journal state related to the final job layer. *)
Theorem C10_system_restore_partial : forall ops reserve maxfill u s evs,
  Bridge.jrun (Sys.init_sys reserve maxfill) ops = Ok (s, evs) ->
  BridgeInv.core_records_accepted u evs = true ->
  exists r g, restore (Bridge.journal_of u evs) = Ok r /\ view r = abs g /\ BridgeInv.bridge_rel_job s g.
Proof. exact BridgeCor.sys_restore_partial. Qed.

(** [jrun] is [Sys.run] (same final state). *)
Theorem C10_system_jrun_is_run : forall s ops s' outs,
  Sys.run s ops = Ok (s', outs) -> Bridge.jrun s ops = Ok (s', BridgeInv.jevents_of_run s ops).
Proof. exact (fun s ops => BridgeInv.run_jrun ops s). Qed.

Check C10_restore_refines : forall evs g, grun g0 evs = Some g -> exists r, restore evs = Ok r /\ view r = abs g.

Print Assumptions C10_system_first_reject.
Print Assumptions C10_system_restore_partial.
Print Assumptions C10_system_jrun_is_run.
Print Assumptions C10_restore_total.
Print Assumptions C10_restore_refines.
Print Assumptions C10_restore_counters_safe.
Print Assumptions C10_torn_tail.
Print Assumptions C10_truncate_then_append.
