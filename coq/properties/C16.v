(** C16 - Allocation policies mean what the documentation says; no spurious refusals. *)
From HQ Require Import Base.Prelude Gen.Consts Alloc.Model Alloc.Spec Alloc.Examples.

Theorem C16_example_run : exists s, ex_final = Ok s /\ s_live s = [].
Proof. exact ex_run_ok. Qed.

Print Assumptions C16_example_run.
