(** C16 - Allocation policies mean what the documentation says; no spurious refusals.
    Only statements closed by [exact]; the proofs live in HQ.Alloc.GroupsProofs. *)
From HQ Require Import Base.Prelude Gen.Consts Alloc.Model Alloc.Spec Alloc.Lemmas Alloc.GroupsProofs Alloc.Examples.
Open Scope N_scope.

(** The reference [min_groups] is the true minimum number of groups that can hold (units, fraction):
    some set of that many groups is sufficient and no sufficient set is smaller; None iff no set is. *)
Theorem C16_min_groups_correct : forall per units fr,
  match min_groups per units fr with
  | Some k =>
      (exists m, In m (sublists (full_mask per)) /\ sufficient per units fr m = true /\ len m = k)
      /\ (forall m, In m (sublists (full_mask per)) -> sufficient per units fr m = true -> k <= len m)
  | None => forall m, In m (sublists (full_mask per)) -> sufficient per units fr m = false
  end.
Proof. exact min_groups_correct. Qed.

(** The constraint rows group_solver builds (groups.rs) hold for a selection of groups iff the selected groups
    can hold the amount: enough whole indices, the fractional remainder from ONE index. *)
Theorem C16_rows_mean_sufficient : forall per units fr m,
  mask_feasible per units fr m = sufficient per units fr m.
Proof. exact rows_mean_sufficient. Qed.

(** full statements that are monitored on every run but not proved (see tools/props/C16.json "partial") *)
Definition C16_admission_iff_feasible_full : Prop := forall a rq w ok yard,
  mirror_ok (a_pools a) (a_free a) = true ->
  forallb (fun e => negb (is_forced (e_req e))) rq = true ->
  has_resources a rq w = Ok (ok, yard) -> ok = request_fits (a_pools a) rq.
Definition C16_strict_sound_full : Prop := forall pools0 before e ra,
  (* for a granted strict entry *) is_forced (e_req e) = true -> group_count_ok pools0 before e ra = true.
Definition C16_claim_follows_policy_full : Prop := forall before e ra,
  scatter_ok before e ra = true /\ compact_even_ok before e ra = true /\ tight_ok before e ra = true.

(** the repaired strict admission: the scenario of corpus/alloc/strict-tiebreak-refusal.trace is granted *)
Theorem C16_strict_fix_example :
  exists s, (do s0 <- init ex_strict_desc; run s0 ex_strict_ops) = Ok s /\ length (s_live s) = 2%nat.
Proof. exact ex_strict_granted. Qed.

Theorem C16_min_groups_example :
  min_groups [(2, 0); (1, 5000); (3, 0)] 2 2500 = Some 1
  /\ min_groups [(2, 0); (1, 5000); (3, 0)] 3 7500 = Some 2
  /\ min_groups [(2, 0); (1, 5000); (3, 0)] 7 0 = None.
Proof. exact min_groups_example. Qed.

Print Assumptions C16_min_groups_correct.
Print Assumptions C16_rows_mean_sufficient.
Print Assumptions C16_strict_fix_example.
