(** C16 - Allocation policies mean what the documentation says; no spurious refusals.
    Only statements closed by [exact]; the proofs live in HQ.Alloc.GroupsProofs. *)
From HQ Require Import Base.Prelude Gen.Consts Alloc.Model Alloc.Spec Alloc.Lemmas Alloc.GroupsProofs Alloc.MirrorSystem Alloc.Admission Alloc.Objective Alloc.Strict Alloc.Examples.
(** The policy-shape and admission theorems (closed by [exact], proofs in HQ.Alloc.Policy*.v) are
    stated in the annex file HQ.Alloc.PolicyC16, re-exported here: C16_claim_follows_policy,
    C16_scatter_shape, C16_compact_shape, C16_round_robin, C16_tight_shape, C16_min_fraction_direct,
    C16_min_fraction_coupled, C16_admission_iff_feasible_all, C16_admission_all, C16_grant_has_room,
    C16_unfit_refused, C16_enabled_agrees, C16_strict_admission, C16_optimal_answer_minimal; and the
    group-count theorems for whole grants in HQ.Alloc.PolicyGCC16 (C16_claimed_subset_selected,
    C16_accepted_ge_min, C16_grant_claimed_within_selected, C16_claimed_eq_selected,
    C16_grant_group_count_nonstrict, C16_strict_grant_group_count, C16_strict_grant_group_count_optimal). *)
From HQ Require Export Alloc.PolicyC16 Alloc.PolicyGCC16.
Open Scope N_scope.

(** The reference [min_groups] is the true minimum number of groups that can hold (units, fraction):
    some set of that many groups is sufficient and no sufficient set is smaller; None iff no set is. *)
Theorem C16_min_groups_correct : forall per units fr,
  match min_groups per units fr with
  | Some k =>
      (exists m, In m (sublists (full_mask per)) /\ sufficient per units fr m = true /\ len m = k)
      /\ (forall m, In m (sublists (full_mask per)) -> sufficient per units fr m = true -> k <= len m)
  | None => forall m, In m (sublists (full_mask per)) -> sufficient per units fr m = false
  end.
Proof. exact min_groups_correct. Qed.

(** The constraint rows group_solver builds (groups.rs) hold for a selection of groups iff the selected groups
    can hold the amount: enough whole indices, the fractional remainder from ONE index. *)
Theorem C16_rows_mean_sufficient : forall per units fr m,
  mask_feasible per units fr m = sufficient per units fr m.
Proof. exact rows_mean_sufficient. Qed.

(** Admission = feasibility (non-strict policies compact / tight / scatter with an amount): in every reachable
    state the admission test [has_resources_for_request] - computed from the concise summary - does not panic
    and is true EXACTLY when the free resources in the POOLS contain enough for every entry (reference
    [request_fits]: enough whole indices and the fractional remainder from one index; enough of a sum
    resource).  So there are no spurious refusals, and by C16_rows_mean_sufficient the group solver has a
    solution whenever the test passes (the unwrap() in claim_resources cannot fail). *)
Theorem C16_admission_iff_feasible : forall d s0 ops s rq w,
  init d = Ok s0 -> Forall valid_op ops -> run s0 ops = Ok s ->
  forallb plain_entry rq = true ->
  has_resources (s_alloc s) rq w = Ok (request_fits (a_pools (s_alloc s)) rq, a_yard (s_alloc s)).
Proof. exact admission_iff_feasible_thm. Qed.

(** [bounded per]: fewer than 32*1024 whole free units in total, fewer than 64 groups, fractions < 1 unit. *)

(** The solver's objective orders selections of groups by their NUMBER first: under the size bounds a selection
    with fewer groups has a strictly larger objective, with or without the tie-breaking terms
    (-1024 per group dominates the -units/32 and the 16*fraction terms). *)
Theorem C16_objective_orders_by_group_count : forall per fr tie m m',
  bounded per -> In m (sublists (full_mask per)) -> In m' (sublists (full_mask per)) ->
  len m < len m' -> (mask_objective tie per fr m' < mask_objective tie per fr m)%Z.
Proof. exact objective_orders. Qed.

(** Hence an optimal feasible answer of the solver selects exactly [min_groups] groups: compact / tight use the
    smallest number of groups possible in the current state (optimality of HiGHS' answer itself is checked per
    answer by the monitor solver-suboptimal). *)
Theorem C16_optimal_is_minimal : forall per units fr tie m,
  bounded per -> In m (sublists (full_mask per)) -> mask_feasible per units fr m = true ->
  (forall m', In m' (sublists (full_mask per)) -> mask_feasible per units fr m' = true ->
              (mask_objective tie per fr m' <= mask_objective tie per fr m)%Z) ->
  min_groups per units fr = Some (len m).
Proof. exact optimal_is_minimal. Qed.

(** Strict policies (one entry, no coupling weights), the comparison has_resources_for_request makes after the
    fix: if the objective (tie-breaking off) of a selection feasible NOW is within the 0.1 slack of the objective
    of an optimal selection for the EMPTY worker, the amount fits NOW into at most the minimum number of groups
    of the empty worker - a strict request is only admitted in such states. *)
Theorem C16_strict_sound : forall per_now per_all units fr m_now m_all,
  In m_now (sublists (full_mask per_now)) -> In m_all (sublists (full_mask per_all)) ->
  mask_feasible per_now units fr m_now = true ->
  min_groups per_all units fr = Some (len m_all) ->
  (mask_objective false per_all fr m_all - SLACK <= mask_objective false per_now fr m_now)%Z ->
  exists k, min_groups per_now units fr = Some k /\ k <= len m_all.
Proof. exact strict_admission_sound. Qed.

(** The same at the level of the admission function: if has_resources_for_request admits a request with ONE
    strict entry on a grouped resource (first call, no coupling weights) and the solver's answer for the empty
    worker is optimal (selects min_groups groups - checked per answer by the monitor), then the amount fits NOW
    into at most the minimum number of groups of the empty worker. *)
Theorem C16_strict_admitted_sound : forall a e pol amt w yard p s_now s_all,
  (pol = ForceCompact \/ pol = ForceTight) -> e_req e = Req pol amt ->
  a_weights a = [] -> a_yard a = [] ->
  get_at (a_pools a) (e_res e) = Ok p -> is_groups p = true ->
  get_at (a_free a) (e_res e) = Ok s_now -> get_at (a_all a) (e_res e) = Ok s_all ->
  has_resources a [e] w = Ok (true, yard) ->
  (forall m_all, w_yard w = Some [m_all] ->
                 min_groups (amount_max_per_group s_all) (fst (split amt)) (snd (split amt)) = Some (len m_all)) ->
  exists k m_all, w_yard w = Some [m_all]
    /\ min_groups (amount_max_per_group s_now) (fst (split amt)) (snd (split amt)) = Some k /\ k <= len m_all.
Proof. exact strict_admitted_sound. Qed.

(** statements that are monitored on every run but not proved (see tools/props/C16.json "partial") *)
Definition C16_claim_follows_policy_full : Prop := forall before e ra,
  scatter_ok before e ra = true /\ compact_even_ok before e ra = true /\ tight_ok before e ra = true
  /\ min_fraction_ok before e ra = true.
Definition C16_strict_grant_group_count_full : Prop := forall pools0 before e ra,
  is_forced (e_req e) = true -> group_count_ok pools0 before e ra = true.

(** the repaired strict admission: the scenario of corpus/alloc/strict-tiebreak-refusal.trace is granted *)
Theorem C16_strict_fix_example :
  exists s, (do s0 <- init ex_strict_desc; run s0 ex_strict_ops) = Ok s /\ length (s_live s) = 2%nat.
Proof. exact ex_strict_granted. Qed.

Theorem C16_min_groups_example :
  min_groups [(2, 0); (1, 5000); (3, 0)] 2 2500 = Some 1
  /\ min_groups [(2, 0); (1, 5000); (3, 0)] 3 7500 = Some 2
  /\ min_groups [(2, 0); (1, 5000); (3, 0)] 7 0 = None.
Proof. exact min_groups_example. Qed.

Print Assumptions C16_min_groups_correct.
Print Assumptions C16_rows_mean_sufficient.
Print Assumptions C16_admission_iff_feasible.
Print Assumptions C16_objective_orders_by_group_count.
Print Assumptions C16_optimal_is_minimal.
Print Assumptions C16_strict_sound.
Print Assumptions C16_strict_admitted_sound.
Print Assumptions C16_strict_fix_example.
