(** Common prelude for the HyperQueue models (stdlib only). *)
From Coq Require Export List Bool Arith NArith ZArith Lia.
Export ListNotations.

(** Result of a model step: [Ok] normal result, [Disabled] the operation cannot occur in this
    state, [Panic site] a reachable unreachable!/assert!/unwrap/arith-overflow of the Rust code. *)
Inductive res (A : Type) : Type :=
| Ok (a : A)
| Disabled
| Panic (site : N).
Arguments Ok {A} a.
Arguments Disabled {A}.
Arguments Panic {A} site.

Definition bind {A B} (r : res A) (f : A -> res B) : res B :=
  match r with
  | Ok a => f a
  | Disabled => Disabled
  | Panic s => Panic s
  end.

Definition is_panic {A} (r : res A) : bool :=
  match r with Panic _ => true | _ => false end.

Definition is_ok {A} (r : res A) : bool :=
  match r with Ok _ => true | _ => false end.

Notation "'do' x <- r ; k" := (bind r (fun x => k)) (at level 200, x pattern, r at level 100, k at level 200).

Definition assert_or (b : bool) (site : N) : res unit := if b then Ok tt else Panic site.

Lemma bind_ok {A B} (r : res A) (f : A -> res B) b :
  bind r f = Ok b -> exists a, r = Ok a /\ f a = Ok b.
Proof. destruct r; simpl; intros H; try discriminate. eauto. Qed.
