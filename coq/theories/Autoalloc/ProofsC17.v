(** C17 - automatic allocation respects its limits and submits only on demand. *)
From HQ Require Import Base.Prelude Gen.Consts Autoalloc.Model Autoalloc.Spec Autoalloc.Lemmas Autoalloc.Trans.
From Coq Require Import ZifyBool ZifyN ZifyNat Lia.
Open Scope N_scope.
Arguments N.add : simpl never.
Arguments N.sub : simpl never.
Arguments N.mul : simpl never.
Arguments N.div : simpl never.
Arguments N.modulo : simpl never.
Arguments N.eqb : simpl never.
Arguments N.ltb : simpl never.
Arguments N.leb : simpl never.
Arguments N.min : simpl never.
Arguments N.of_nat : simpl never.
Arguments N.to_nat : simpl never.

(** * Reachability (all operation sequences, with the history variables of Spec.v) *)
Inductive Reach : state -> ghost -> Prop :=
| Reach_init q0 : Reach (init_state q0) init_ghost
| Reach_step s g o s' outs :
    Reach s g -> step s o = Ok (s', outs) -> Reach s' (ghost_step s o s' outs g).

(** * status synchronisation never adds queued / active allocations *)
Lemma sync_alloc_le qi a r a' evs fin : sync_alloc qi a r = (a', evs, fin) -> alloc_le a a'.
Proof.
  unfold sync_alloc, alloc_le, is_active, is_queued, is_running.
  destruct r; destruct (a_status a) eqn:Es; simpl; intros H;
    repeat match type of H with
           | context [if ?c then _ else _] => destruct c
           end;
    inv H; simpl; rewrite ?Es; simpl; auto.
Qed.

Lemma set_allocs_update_le q id a' :
  (forall a, In a (q_allocs q) -> a_id a = id -> alloc_le a a') ->
  queue_le q (set_allocs (update_alloc id (fun _ => a') (q_allocs q)) q).
Proof.
  intros H. unfold queue_le; simpl. split; [unfold same_params; simpl; tauto|]. split; auto.
  apply update_alloc_le. exact H.
Qed.

Lemma nodup_map_inj {A} (f : A -> N) l a b :
  NoDup (map f l) -> In a l -> In b l -> f a = f b -> a = b.
Proof.
  induction l as [|c l IH]; simpl; intros ND Ha Hb E; [tauto|].
  inv ND. destruct Ha as [Ha|Ha], Hb as [Hb|Hb]; subst; auto.
  - exfalso. apply H1. rewrite E. now apply in_map.
  - exfalso. apply H1. rewrite <- E. now apply in_map.
Qed.

Lemma find_alloc_unique_le id l a a' :
  find_alloc id l = Some a -> alloc_le a a' ->
  NoDup (map a_id l) -> forall b, In b l -> a_id b = id -> alloc_le b a'.
Proof.
  intros Hf Hle ND b Hb Hid. apply find_alloc_in in Hf. destruct Hf as [Ha Hida].
  assert (b = a) by (eapply nodup_map_inj; eauto; congruence).
  subst; auto.
Qed.

(** Without assuming unique ids: [update_alloc id (fun _ => a')] replaces every allocation with that
    id; [alloc_le] is required for each of them.  In this model [find_alloc] returns the first one;
    to stay independent of uniqueness the lemmas below carry [NoDup]. *)
Definition ids_nodup (q : queue) : Prop := NoDup (map a_id (q_allocs q)).

Lemma sync_allocation_status_le qi q id r q' outs :
  ids_nodup q -> sync_allocation_status qi q id r = (q', outs) -> queue_le q q'.
Proof.
  unfold sync_allocation_status. intros ND H.
  destruct (find_alloc id (q_allocs q)) as [a|] eqn:Ef; [|inv H; apply queue_le_refl].
  destruct (sync_alloc qi a r) as [[a' evs] fin] eqn:Es.
  pose proof (sync_alloc_le _ _ _ _ _ _ Es) as Hle.
  pose proof (set_allocs_update_le q id a' (find_alloc_unique_le _ _ _ _ Ef Hle ND)) as Hq.
  destruct fin as [[|]|]; inv H; auto.
  - eapply queue_le_trans; [exact Hq|]. unfold queue_le; simpl.
    split; [unfold same_params; simpl; tauto|]. split; [apply Forall2_alloc_le_refl|apply lim_ok_on_allocation_success].
  - eapply queue_le_trans; [exact Hq|]. unfold queue_le; simpl.
    split; [unfold same_params; simpl; tauto|]. split; [apply Forall2_alloc_le_refl|apply lim_ok_on_allocation_fail].
Qed.

Lemma increase_status_error_counter_le qi a a' evs :
  increase_status_error_counter qi a = (a', evs) -> alloc_le a a'.
Proof.
  unfold increase_status_error_counter, alloc_le, is_active, is_queued, is_running.
  destruct (a_status a) eqn:Es; simpl; intros H;
    repeat match type of H with
           | context [if ?c then _ else _] => destruct c
           end;
    inv H; simpl; rewrite ?Es; simpl; auto.
Qed.

Lemma queue_le_ids q q' : queue_le q q' -> map a_id (q_allocs q') = map a_id (q_allocs q).
Proof.
  intros (_ & H & _). induction H as [|a a' l l' Ha _ IH]; simpl; [reflexivity|].
  destruct Ha as (Hid & _). now rewrite Hid, IH.
Qed.

Lemma queue_le_nodup q q' : queue_le q q' -> ids_nodup q -> ids_nodup q'.
Proof. unfold ids_nodup. intros H. now rewrite (queue_le_ids _ _ H). Qed.

Lemma bump_le qi q id :
  ids_nodup q ->
  queue_le q (fst (match find_alloc id (q_allocs q) with
              | Some a => let '(a', evs) := increase_status_error_counter qi a in
                          (set_allocs (update_alloc id (fun _ => a') (q_allocs q)) q, evs)
              | None => (q, [])
              end)).
Proof.
  intros ND. destruct (find_alloc id (q_allocs q)) as [a|] eqn:Ef; [|apply queue_le_refl].
  destruct (increase_status_error_counter qi a) as [a' evs] eqn:Ei. simpl.
  apply set_allocs_update_le. eapply find_alloc_unique_le; eauto.
  eapply increase_status_error_counter_le; eauto.
Qed.

Lemma refresh_loop_le qi sts : forall q q' outs,
  ids_nodup q -> refresh_loop qi q sts = (q', outs) -> queue_le q q'.
Proof.
  induction sts as [|[id x] rest IH]; simpl; intros q q' outs ND H.
  - inv H. apply queue_le_refl.
  - destruct (reason_of x) as [r|] eqn:Er.
    + destruct (sync_allocation_status qi q id r) as [q1 o1] eqn:Es.
      destruct (refresh_loop qi q1 rest) as [q2 o2] eqn:El. inv H.
      pose proof (sync_allocation_status_le _ _ _ _ _ _ ND Es) as H1.
      eapply queue_le_trans; [exact H1|]. eapply IH; eauto. eapply queue_le_nodup; eauto.
    + pose proof (bump_le qi q id ND) as H1.
      destruct (find_alloc id (q_allocs q)) as [a|] eqn:Ef.
      * destruct (increase_status_error_counter qi a) as [a' evs] eqn:Ei. simpl in *.
        destruct (refresh_loop qi _ rest) as [q2 o2] eqn:El. inv H.
        eapply queue_le_trans; [exact H1|]. eapply IH; eauto. eapply queue_le_nodup; eauto.
      * simpl in *. destruct (refresh_loop qi q rest) as [q2 o2] eqn:El. inv H. eapply IH; eauto.
Qed.

Lemma refresh_err_loop_le qi order : forall q q' outs,
  ids_nodup q -> refresh_err_loop qi q order = (q', outs) -> queue_le q q'.
Proof.
  induction order as [|id rest IH]; simpl; intros q q' outs ND H.
  - inv H. apply queue_le_refl.
  - pose proof (bump_le qi q id ND) as H1.
    destruct (find_alloc id (q_allocs q)) as [a|] eqn:Ef.
    + destruct (increase_status_error_counter qi a) as [a' evs] eqn:Ei. simpl in *.
      destruct (refresh_err_loop qi _ rest) as [q2 o2] eqn:El. inv H.
      eapply queue_le_trans; [exact H1|]. eapply IH; eauto. eapply queue_le_nodup; eauto.
    + simpl in *. destruct (refresh_err_loop qi q rest) as [q2 o2] eqn:El. inv H. eapply IH; eauto.
Qed.

(** * The state invariant of C17 *)
Definition qinv2 (q : queue) : Prop := qinv q /\ ids_nodup q.
Definition sinv (s : state) : Prop := Forall (fun kv => qinv2 (snd kv)) (s_queues s).

Lemma queue_le_qinv2 q q' : queue_le q q' -> qinv2 q -> qinv2 q'.
Proof. intros H [H1 H2]. split; [eapply queue_le_qinv; eauto|eapply queue_le_nodup; eauto]. Qed.

Lemma Forall_update_queue_const (P : queue -> Prop) q v l :
  Forall (fun kv => P (snd kv)) l -> P v -> Forall (fun kv => P (snd kv)) (update_queue q (fun _ => v) l).
Proof.
  intros HF Hv. induction HF as [|[k w] l Hx HF IH]; simpl; constructor; auto.
  destruct (k =? q); simpl in *; auto.
Qed.

Lemma sinv_get s qi q : sinv s -> get_queue s qi = Some q -> qinv2 q.
Proof. unfold sinv, get_queue. intros H1 H2. eapply (Forall_alookup qinv2); eauto. Qed.

Lemma sinv_set_queue s qi v : sinv s -> qinv2 v -> sinv (set_queue s qi v).
Proof. unfold sinv, set_queue; simpl. intros. apply Forall_update_queue_const; auto. Qed.

Lemma find_alloc_none_notin id l : find_alloc id l = None -> ~ In id (map a_id l).
Proof.
  unfold find_alloc. intros H Hin. apply in_map_iff in Hin. destruct Hin as [a [Ha Hin]].
  eapply find_none in H; eauto. simpl in H. rewrite Ha, N.eqb_refl in H. discriminate.
Qed.

Lemma nodup_snoc (l : list N) x : NoDup l -> ~ In x l -> NoDup (l ++ [x]).
Proof.
  induction l as [|y l IH]; simpl; intros ND Hx.
  - constructor; [simpl; tauto|constructor].
  - inv ND. constructor.
    + rewrite in_app_iff. simpl. intros [H|[H|[]]]; subst; auto.
    + apply IH; auto.
Qed.

Lemma submit_loop_nodup qi permit : forall script q idx q2 idx2 outs sc,
  submit_loop qi permit script q idx = Ok (q2, idx2, outs, sc) -> ids_nodup q -> ids_nodup q2.
Proof.
  induction permit as [|n rest IH]; simpl; intros script q idx q2 idx2 outs sc H ND.
  - now inv H.
  - destruct script as [|[id| |] script']; [discriminate| | |].
    + destruct (alookup id idx); [discriminate|]. bind_inv H. bind_inv H.
      destruct x0 as [[[q2' idx2'] outs'] sc']. inv H.
      apply assert_or_ok in Hx.
      destruct (find_alloc id (q_allocs q)) eqn:Ef; [discriminate|].
      eapply IH in Hx0; eauto. unfold ids_nodup; simpl.
      rewrite map_app. simpl. apply nodup_snoc; auto. now apply find_alloc_none_notin.
    + now inv H.
    + now inv H.
Qed.

Lemma queue_try_submit_sinv s qi r script s' outs sc :
  queue_try_submit s qi r script = Ok (s', outs, sc) -> sinv s -> sinv s'.
Proof.
  unfold queue_try_submit. intros H Hs.
  destruct (resp_is_empty r); [now inv H|].
  destruct (get_queue s qi) as [q|] eqn:Eq; [|now inv H].
  destruct (negb (q_active q)); [now inv H|].
  bind_inv H. destruct x as [|p0 permit]; [now inv H|].
  destruct (submission_status (s_now s) (q_lim q)); try now inv H.
  bind_inv H. destruct x as [[[q1 idx1] outs1] sc1]. inv H.
  destruct (sinv_get _ _ _ Hs Eq) as [(H1 & H2 & H3 & H4) ND].
  destruct (permit_props _ _ _ Hx) as (P1 & P2 & P3).
  assert (Hq1 : qinv2 q1).
  { split.
    - eapply submit_loop_qinv; eauto; simpl; auto.
      + simpl in P1. lia.
      + intros m Hm. specialize (H2 m Hm). specialize (P2 m Hm). simpl in P2. lia.
    - eapply submit_loop_nodup; eauto. }
  unfold sinv; simpl. apply Forall_update_queue_const; auto.
Qed.

Lemma try_pause_queue_le now q : queue_le q (try_pause_queue now q).
Proof.
  unfold try_pause_queue. destruct (negb (q_active q)); [apply queue_le_refl|].
  destruct (submission_status now (q_lim q)); try apply queue_le_refl;
    (unfold queue_le, pause; simpl; split; [unfold same_params; simpl; tauto|];
     split; [apply Forall2_alloc_le_refl|auto]).
Qed.

Lemma try_pause_all_sinv s : sinv s -> sinv (try_pause_all s).
Proof.
  unfold sinv, try_pause_all; simpl. intros H. apply Forall_map.
  eapply Forall_impl; [|exact H]. intros [k q] Hq; simpl in *.
  eapply queue_le_qinv2; [apply try_pause_queue_le|exact Hq].
Qed.

Lemma submit_queues_sinv order : forall s resps scripts s' outs,
  submit_queues s order resps scripts = Ok (s', outs) -> sinv s -> sinv s'.
Proof.
  induction order as [|qi order IH]; simpl; intros s resps scripts s' outs H Hs.
  - now inv H.
  - destruct resps as [|r resps]; [now inv H|].
    bind_inv H. destruct x as [[s1 o1] sc1]. bind_inv H. destruct x as [s2 o2]. inv H.
    eapply IH; eauto. eapply queue_try_submit_sinv; eauto.
Qed.

Lemma perform_submits_sinv s order resps scripts s' outs :
  perform_submits s order resps scripts = Ok (s', outs) -> sinv s -> sinv s'.
Proof.
  unfold perform_submits. intros H Hs.
  destruct (negb (perm_of order (active_qids (try_pause_all s)))); [discriminate|].
  destruct (negb (forallb resp_valid resps)); [discriminate|].
  pose proof (try_pause_all_sinv _ Hs) as Hs1.
  destruct (active_qids (try_pause_all s)); [now inv H|].
  bind_inv H. destruct x; [now inv H|].
  bind_inv H. bind_inv H. destruct x0 as [s2 o2]. inv H.
  apply try_pause_all_sinv. eapply submit_queues_sinv; eauto.
Qed.

Lemma refresh_queue_allocations_sinv s qi w s' outs :
  refresh_queue_allocations s qi w = Ok (s', outs) -> sinv s -> sinv s'.
Proof.
  unfold refresh_queue_allocations. intros H Hs.
  destruct (get_queue s qi) as [q|] eqn:Eq; [|now inv H].
  destruct (active_ids q); [destruct w; [discriminate|now inv H]|].
  destruct w as [sw|]; [|discriminate].
  destruct (negb (perm_of _ _)); [discriminate|].
  pose proof (sinv_get _ _ _ Hs Eq) as Hq.
  destruct (sw_err sw).
  - destruct (refresh_err_loop qi q (map fst (sw_sts sw))) as [q' o'] eqn:El. inv H.
    apply sinv_set_queue; auto. eapply queue_le_qinv2; [|exact Hq].
    eapply refresh_err_loop_le; eauto. apply Hq.
  - destruct (refresh_loop qi q (sw_sts sw)) as [q' o'] eqn:El. inv H.
    apply sinv_set_queue; auto. eapply queue_le_qinv2; [|exact Hq].
    eapply refresh_loop_le; eauto. apply Hq.
Qed.

Lemma periodic_loop_sinv order : forall s wits s' outs,
  periodic_loop s order wits = Ok (s', outs) -> sinv s -> sinv s'.
Proof.
  induction order as [|qi order IH]; simpl; intros s wits s' outs H Hs.
  - now inv H.
  - bind_inv H. destruct x as [s1 o1]. bind_inv H. destruct x as [s2 o2]. inv H.
    eapply IH; eauto. eapply refresh_queue_allocations_sinv; eauto.
Qed.

Lemma worker_event_sinv s id r s' outs :
  worker_event s id r = (s', outs) -> sinv s -> sinv s'.
Proof.
  unfold worker_event. intros H Hs.
  destruct (alookup id (s_index s)) as [qi|]; [|now inv H].
  destruct (get_queue s qi) as [q|] eqn:Eq; [|now inv H].
  destruct (sync_allocation_status qi q id r) as [q' o'] eqn:Es. inv H.
  pose proof (sinv_get _ _ _ Hs Eq) as Hq.
  apply sinv_set_queue; auto. eapply queue_le_qinv2; [|exact Hq].
  eapply sync_allocation_status_le; eauto. apply Hq.
Qed.

Lemma qinv2_new backlog mwpa maxw lim : lim_ok lim = true -> qinv2 (mkQ true backlog mwpa maxw [] lim).
Proof.
  intros Hl. split; [|constructor].
  unfold qinv, qcount, acount; simpl. repeat split; auto; try lia; intros; lia.
Qed.

Lemma add_queue_sinv s backlog mwpa maxw lim :
  lim_ok lim = true -> sinv s -> sinv (fst (add_queue s backlog mwpa maxw lim)).
Proof.
  unfold add_queue. intros Hl Hs. unfold sinv; simpl.
  apply Forall_app. split; auto. constructor; auto. simpl. now apply qinv2_new.
Qed.

Lemma remove_queue_sinv s qi force s' outs :
  remove_queue s qi force = Ok (s', outs) -> sinv s -> sinv s'.
Proof.
  unfold remove_queue. intros H Hs.
  destruct (get_queue s qi) as [q|]; [|now inv H].
  destruct (existsb is_running (q_allocs q) && negb force); [now inv H|].
  bind_inv H. inv H. unfold sinv in *; simpl.
  rewrite Forall_forall in *. intros kv Hin. apply filter_In in Hin. apply Hs. tauto.
Qed.

Lemma step_sinv s o s' outs : step s o = Ok (s', outs) -> sinv s -> sinv s'.
Proof.
  destruct o; simpl; intros H Hs.
  - destruct lim as [[[delays sf] af]|].
    + destruct delays as [|d ds]; [discriminate|]. inv H.
      apply (add_queue_sinv s backlog mwpa maxw (new_limiter (d :: ds) sf af)); auto;
        apply lim_ok_new; discriminate.
    + inv H. apply (add_queue_sinv s backlog mwpa maxw default_limiter); auto; apply lim_ok_default.
  - eapply perform_submits_sinv; eauto.
  - destruct (negb (resp_valid r)); [discriminate|]. bind_inv H. destruct x as [[s1 o1] sc]. inv H.
    eapply queue_try_submit_sinv; eauto.
  - unfold do_periodic_update in H. destruct (negb (perm_of _ _)); [discriminate|].
    eapply periodic_loop_sinv; eauto.
  - destruct (worker_event s a (RConnected w)) as [s1 o1] eqn:Ew. inv H. eapply worker_event_sinv; eauto.
  - destruct (worker_event s a (RLost w crashed)) as [s1 o1] eqn:Ew. inv H. eapply worker_event_sinv; eauto.
  - now inv H.
  - destruct (get_queue s q) as [v|] eqn:Eq; inv H; auto.
    apply sinv_set_queue; auto. destruct (sinv_get _ _ _ Hs Eq) as [(H1 & H2 & H3 & H4) ND].
    split; auto. unfold qinv, pause; simpl. auto.
  - destruct (get_queue s q) as [v|] eqn:Eq; inv H; auto.
    apply sinv_set_queue; auto. destruct (sinv_get _ _ _ Hs Eq) as [(H1 & H2 & H3 & H4) ND].
    split; auto. unfold qinv, resume; simpl. repeat split; auto.
  - eapply remove_queue_sinv; eauto.
  - inv H. exact Hs.
Qed.

Lemma reach_sinv s g : Reach s g -> sinv s.
Proof.
  induction 1.
  - constructor.
  - eapply step_sinv; eauto.
Qed.

(** ** C17: the three bounds hold in every reachable state *)
Theorem limits_hold s g : Reach s g -> c17_state_ok s = true.
Proof.
  intros H. apply reach_sinv in H. unfold c17_state_ok. apply forallb_forall.
  intros [k q] Hin. simpl. apply qinv_iff. unfold sinv in H. rewrite Forall_forall in H.
  apply (H _ Hin).
Qed.

Lemma reach_queue s g qi q : Reach s g -> get_queue s qi = Some q -> queue_limits_ok q = true.
Proof. intros H Hq. apply qinv_iff. eapply sinv_get; eauto using reach_sinv. Qed.

Theorem backlog_holds s g qi q :
  Reach s g -> get_queue s qi = Some q -> queued_count q <= q_backlog q.
Proof.
  intros H Hq. pose proof (reach_queue _ _ _ _ H Hq) as Hl.
  unfold queue_limits_ok in Hl. rewrite !andb_true_iff in Hl. lia.
Qed.

Theorem max_workers_holds s g qi q m :
  Reach s g -> get_queue s qi = Some q -> q_maxw q = Some m -> active_worker_count q <= m.
Proof.
  intros H Hq Hm. pose proof (reach_queue _ _ _ _ H Hq) as Hl.
  unfold queue_limits_ok in Hl. rewrite !andb_true_iff, Hm in Hl. lia.
Qed.

Theorem alloc_size_holds s g qi q a :
  Reach s g -> get_queue s qi = Some q -> In a (q_allocs q) ->
  1 <= a_target a /\ a_target a <= q_mwpa q.
Proof.
  intros H Hq Ha. pose proof (reach_queue _ _ _ _ H Hq) as Hl.
  unfold queue_limits_ok in Hl. rewrite !andb_true_iff in Hl.
  destruct Hl as [[[_ _] Hs] _]. rewrite forallb_forall in Hs. specialize (Hs _ Ha).
  unfold size_ok in Hs. lia.
Qed.

(** the limiter's index is always valid (the `submission_delays[current_delay]` of
    [submission_status] cannot go out of bounds) *)
Theorem limiter_index_in_bounds s g qi q :
  Reach s g -> get_queue s qi = Some q -> l_level (q_lim q) < N.of_nat (length (l_delays (q_lim q))).
Proof.
  intros H Hq. pose proof (reach_queue _ _ _ _ H Hq) as Hl.
  unfold queue_limits_ok, lim_ok in Hl. rewrite !andb_true_iff in Hl. lia.
Qed.

(** * Who may submit: only an active queue with demand whose limiter says Ok *)
Lemma has_submit_app qi l1 l2 : has_submit qi (l1 ++ l2) = has_submit qi l1 || has_submit qi l2.
Proof. unfold has_submit. apply existsb_app. Qed.

Lemma queue_try_submit_other s qi r script s' outs sc q' :
  queue_try_submit s qi r script = Ok (s', outs, sc) -> q' <> qi ->
  get_queue s' q' = get_queue s q' /\ has_submit q' outs = false.
Proof.
  unfold queue_try_submit. intros H Hne.
  destruct (resp_is_empty r); [inv H; auto|].
  destruct (get_queue s qi) as [q|] eqn:Eq; [|inv H; auto].
  destruct (negb (q_active q)); [inv H; auto|].
  bind_inv H. destruct x as [|p0 permit]; [inv H; auto|].
  destruct (submission_status (s_now s) (q_lim q)); try (inv H; auto; fail).
  bind_inv H. destruct x as [[[q1 idx1] outs1] sc1]. inv H. split.
  - unfold get_queue; simpl. now apply alookup_update_queue_other.
  - apply submit_loop_outs in Hx0. destruct Hx0 as [H1 _].
    destruct (has_submit q' outs) eqn:E; auto. apply H1 in E. congruence.
Qed.

Lemma queue_try_submit_now s qi r script s' outs sc :
  queue_try_submit s qi r script = Ok (s', outs, sc) -> s_now s' = s_now s.
Proof.
  unfold queue_try_submit. intros H.
  destruct (resp_is_empty r); [now inv H|].
  destruct (get_queue s qi) as [q|]; [|now inv H].
  destruct (negb (q_active q)); [now inv H|].
  bind_inv H. destruct x as [|p0 permit]; [now inv H|].
  destruct (submission_status (s_now s) (q_lim q)); try now inv H.
  bind_inv H. destruct x as [[[q1 idx1] outs1] sc1]. now inv H.
Qed.

Lemma queue_try_submit_allowed s qi r script s' outs sc :
  queue_try_submit s qi r script = Ok (s', outs, sc) -> has_submit qi outs = true ->
  exists q, get_queue s qi = Some q /\ q_active q = true /\ resp_is_empty r = false
            /\ submission_status (s_now s) (q_lim q) = LOk.
Proof.
  unfold queue_try_submit. intros H Hsub.
  destruct (resp_is_empty r) eqn:Er; [inv H; discriminate|].
  destruct (get_queue s qi) as [q|] eqn:Eq; [|inv H; discriminate].
  destruct (q_active q) eqn:Ea; simpl in H; [|inv H; discriminate].
  bind_inv H. destruct x as [|p0 permit]; [inv H; discriminate|].
  destruct (submission_status (s_now s) (q_lim q)) eqn:Est; try (inv H; discriminate).
  exists q. auto.
Qed.

Lemma zip_lookup_in qi order : forall resps r, zip_lookup qi order resps = Some r -> In qi order.
Proof.
  induction order as [|q order IH]; simpl; intros resps r H; [discriminate|].
  destruct resps as [|r0 resps]; [discriminate|].
  destruct (q =? qi) eqn:E; [apply N.eqb_eq in E; auto|right; eauto].
Qed.

Lemma submit_queues_allowed order : forall s resps scripts s' outs qi,
  submit_queues s order resps scripts = Ok (s', outs) -> NoDup order ->
  has_submit qi outs = true ->
  exists q r, zip_lookup qi order resps = Some r /\ get_queue s qi = Some q /\ q_active q = true
              /\ resp_is_empty r = false /\ submission_status (s_now s) (q_lim q) = LOk.
Proof.
  induction order as [|qj order IH]; simpl; intros s resps scripts s' outs qi H ND Hsub.
  - inv H. discriminate.
  - destruct resps as [|r resps]; [inv H; discriminate|].
    bind_inv H. destruct x as [[s1 o1] sc1]. bind_inv H. destruct x as [s2 o2]. inv H.
    inv ND. rewrite has_submit_app in Hsub.
    destruct (qj =? qi) eqn:E.
    + apply N.eqb_eq in E. subst qj.
      destruct (has_submit qi o1) eqn:E1.
      * destruct (queue_try_submit_allowed _ _ _ _ _ _ _ Hx E1) as (q & A & B & C & D).
        exists q, r. auto.
      * simpl in Hsub. destruct (IH _ _ _ _ _ _ Hx0 H2 Hsub) as (q & r' & Z & _).
        apply zip_lookup_in in Z. contradiction.
    + assert (Hne : qi <> qj) by (intros ->; rewrite N.eqb_refl in E; discriminate).
      destruct (queue_try_submit_other _ _ _ _ _ _ _ qi Hx Hne) as [Hg Hn].
      rewrite Hn in Hsub. simpl in Hsub.
      destruct (IH _ _ _ _ _ _ Hx0 H2 Hsub) as (q & r' & Z & G & A & B & C).
      exists q, r'. rewrite <- Hg, <- (queue_try_submit_now _ _ _ _ _ _ _ Hx). auto.
Qed.

Lemma nodupb_NoDup l : nodupb l = true -> NoDup l.
Proof.
  induction l as [|x l IH]; simpl; intros H; [constructor|].
  apply andb_true_iff in H. destruct H as [H1 H2]. constructor; auto.
  intros Hin. apply negb_true_iff in H1.
  assert (existsb (N.eqb x) l = true); [|congruence].
  apply existsb_exists. exists x. split; auto. apply N.eqb_refl.
Qed.

Lemma perm_of_nodup l1 l2 : perm_of l1 l2 = true -> NoDup l1.
Proof. unfold perm_of. rewrite !andb_true_iff. intros [[_ H] _]. now apply nodupb_NoDup. Qed.

Lemma get_queue_try_pause_all s qi :
  get_queue (try_pause_all s) qi = option_map (try_pause_queue (s_now s)) (get_queue s qi).
Proof.
  unfold get_queue, try_pause_all; simpl. induction (s_queues s) as [|[k v] l IH]; simpl; auto.
  destruct (k =? qi); auto.
Qed.

Lemma try_pause_queue_active now q :
  q_active (try_pause_queue now q) = true ->
  q_active q = true /\ try_pause_queue now q = q.
Proof.
  unfold try_pause_queue. destruct (q_active q) eqn:Ea; simpl; [|rewrite Ea; discriminate].
  destruct (submission_status now (q_lim q)); simpl; auto; discriminate.
Qed.

(** only [submit_loop] calls the handler's submit *)
Definition only_events (outs : list out) : Prop := Forall (fun o => is_event o = true) outs.

Lemma only_events_no_submit outs qi : only_events outs -> has_submit qi outs = false.
Proof.
  induction 1 as [|o l Ho _ IH]; simpl; auto. rewrite IH. destruct o; simpl in *; auto; discriminate.
Qed.

Lemma only_events_app l1 l2 : only_events l1 -> only_events l2 -> only_events (l1 ++ l2).
Proof. unfold only_events. intros. apply Forall_app. auto. Qed.

Lemma sync_alloc_events qi a r a' evs fin : sync_alloc qi a r = (a', evs, fin) -> only_events evs.
Proof.
  unfold sync_alloc. destruct r; destruct (a_status a); simpl; intros H;
    repeat match type of H with context [if ?c then _ else _] => destruct c end;
    inv H; repeat constructor.
Qed.

Lemma sync_allocation_status_events qi q id r q' outs :
  sync_allocation_status qi q id r = (q', outs) -> only_events outs.
Proof.
  unfold sync_allocation_status. destruct (find_alloc id (q_allocs q)); [|intros H; inv H; constructor].
  destruct (sync_alloc qi a r) as [[a' evs] fin] eqn:Es. apply sync_alloc_events in Es.
  destruct fin as [[|]|]; intros H; inv H; auto; apply only_events_app; auto; repeat constructor.
Qed.

Lemma increase_status_error_counter_events qi a a' evs :
  increase_status_error_counter qi a = (a', evs) -> only_events evs.
Proof.
  unfold increase_status_error_counter. destruct (a_status a); intros H;
    repeat match type of H with context [if ?c then _ else _] => destruct c end;
    inv H; repeat constructor.
Qed.

Lemma refresh_loop_events qi sts : forall q q' outs, refresh_loop qi q sts = (q', outs) -> only_events outs.
Proof.
  induction sts as [|[id x] rest IH]; simpl; intros q q' outs H; [inv H; constructor|].
  destruct (reason_of x) as [r|].
  - destruct (sync_allocation_status qi q id r) as [q1 o1] eqn:Es.
    destruct (refresh_loop qi q1 rest) as [q2 o2] eqn:El. inv H.
    apply only_events_app; eauto using sync_allocation_status_events.
  - destruct (find_alloc id (q_allocs q)) as [a|].
    + destruct (increase_status_error_counter qi a) as [a' evs] eqn:Ei.
      destruct (refresh_loop qi _ rest) as [q2 o2] eqn:El. inv H.
      apply only_events_app; eauto using increase_status_error_counter_events.
    + destruct (refresh_loop qi q rest) as [q2 o2] eqn:El. inv H. simpl. eauto.
Qed.

Lemma refresh_err_loop_events qi order : forall q q' outs, refresh_err_loop qi q order = (q', outs) -> only_events outs.
Proof.
  induction order as [|id rest IH]; simpl; intros q q' outs H; [inv H; constructor|].
  destruct (find_alloc id (q_allocs q)) as [a|].
  - destruct (increase_status_error_counter qi a) as [a' evs] eqn:Ei.
    destruct (refresh_err_loop qi _ rest) as [q2 o2] eqn:El. inv H.
    apply only_events_app; eauto using increase_status_error_counter_events.
  - destruct (refresh_err_loop qi q rest) as [q2 o2] eqn:El. inv H. simpl. eauto.
Qed.

Lemma refresh_queue_allocations_events s qi w s' outs :
  refresh_queue_allocations s qi w = Ok (s', outs) -> only_events outs.
Proof.
  unfold refresh_queue_allocations. intros H.
  destruct (get_queue s qi) as [q|]; [|inv H; constructor].
  destruct (active_ids q); [destruct w; [discriminate|inv H; constructor]|].
  destruct w as [sw|]; [|discriminate].
  destruct (negb (perm_of _ _)); [discriminate|].
  destruct (sw_err sw).
  - destruct (refresh_err_loop qi q (map fst (sw_sts sw))) as [q' o'] eqn:El. inv H.
    eapply refresh_err_loop_events; eauto.
  - destruct (refresh_loop qi q (sw_sts sw)) as [q' o'] eqn:El. inv H.
    eapply refresh_loop_events; eauto.
Qed.

Lemma periodic_loop_events order : forall s wits s' outs,
  periodic_loop s order wits = Ok (s', outs) -> only_events outs.
Proof.
  induction order as [|qi order IH]; simpl; intros s wits s' outs H; [inv H; constructor|].
  bind_inv H. destruct x as [s1 o1]. bind_inv H. destruct x as [s2 o2]. inv H.
  apply only_events_app; eauto using refresh_queue_allocations_events.
Qed.

Lemma worker_event_events s id r s' outs : worker_event s id r = (s', outs) -> only_events outs.
Proof.
  unfold worker_event. intros H.
  destruct (alookup id (s_index s)) as [qi|]; [|inv H; constructor].
  destruct (get_queue s qi) as [q|]; [|inv H; constructor].
  destruct (sync_allocation_status qi q id r) as [q' o'] eqn:Es. inv H.
  eapply sync_allocation_status_events; eauto.
Qed.

Lemma has_submit_removes qi q (l : list alloc) :
  has_submit qi (map (fun a => OutRemove q (a_id a)) l) = false.
Proof. induction l; simpl; auto. Qed.

(** ** C17: nothing is submitted for a paused queue, without demand, or while rate limited
    (failure counters at their limit, or earlier than the current back-off delay after the
    previous attempt) *)
Theorem submit_only_when_allowed s o s' outs qi :
  step s o = Ok (s', outs) -> has_submit qi outs = true -> submit_allowed s o qi = true.
Proof.
  destruct o; simpl; intros H Hsub.
  - destruct lim as [[[delays sf] af]|]; [destruct delays; [discriminate|]|]; inv H; discriminate.
  - unfold perform_submits in H.
    destruct (perm_of order (active_qids (try_pause_all s))) eqn:Ep; simpl in H; [|discriminate].
    destruct (negb (forallb resp_valid resps)); [discriminate|].
    destruct (active_qids (try_pause_all s)) eqn:Ea; [inv H; discriminate|]. rewrite <- Ea in *.
    bind_inv H. destruct x; [inv H; discriminate|].
    bind_inv H. bind_inv H. destruct x0 as [s2 o2]. inv H.
    destruct (submit_queues_allowed _ _ _ _ _ _ qi Hx1 (perm_of_nodup _ _ Ep) Hsub)
      as (qq & rr & Z & G & A & B & C).
    rewrite get_queue_try_pause_all in G.
    destruct (get_queue s qi) as [q0|] eqn:G0; simpl in G; [|discriminate]. inv G.
    destruct (try_pause_queue_active _ _ A) as [A0 Eq]. rewrite Eq in C.
    unfold submit_allowed. simpl. rewrite G0, Z, A0, B. simpl in C. now rewrite C.
  - destruct (negb (resp_valid r)); [discriminate|]. bind_inv H. destruct x as [[s1 o1] sc]. inv H.
    destruct (N.eq_dec qi q) as [->|Hne].
    + destruct (queue_try_submit_allowed _ _ _ _ _ _ _ Hx Hsub) as (v & G & A & B & C).
      unfold submit_allowed. simpl. now rewrite G, N.eqb_refl, A, B, C.
    + destruct (queue_try_submit_other _ _ _ _ _ _ _ qi Hx Hne) as [_ Hn]. congruence.
  - unfold do_periodic_update in H. destruct (negb (perm_of _ _)); [discriminate|].
    apply periodic_loop_events in H. rewrite (only_events_no_submit _ qi H) in Hsub. discriminate.
  - destruct (worker_event s a (RConnected w)) as [s1 o1] eqn:Ew. inv H.
    apply worker_event_events in Ew. simpl in Hsub. rewrite (only_events_no_submit _ qi Ew) in Hsub. discriminate.
  - destruct (worker_event s a (RLost w crashed)) as [s1 o1] eqn:Ew. inv H.
    apply worker_event_events in Ew. simpl in Hsub. rewrite (only_events_no_submit _ qi Ew) in Hsub. discriminate.
  - inv H. discriminate.
  - destruct (get_queue s q); inv H; discriminate.
  - destruct (get_queue s q); inv H; discriminate.
  - unfold remove_queue in H. destruct (get_queue s q) as [v|]; [|inv H; discriminate].
    destruct (existsb is_running (q_allocs v) && negb force); [inv H; discriminate|].
    bind_inv H. inv H. simpl in Hsub. rewrite has_submit_app, has_submit_removes in Hsub. discriminate.
  - inv H. discriminate.
Qed.

Corollary silent_when_paused_or_no_demand s o s' outs qi :
  step s o = Ok (s', outs) -> has_submit qi outs = true ->
  exists q r, get_queue s qi = Some q /\ q_active q = true
              /\ demand_of o qi = Some r /\ resp_is_empty r = false.
Proof.
  intros H Hs. pose proof (submit_only_when_allowed _ _ _ _ _ H Hs) as A.
  unfold submit_allowed in A.
  destruct (get_queue s qi) as [q|]; [|discriminate].
  destruct (demand_of o qi) as [r|]; [|discriminate].
  rewrite !andb_true_iff, negb_true_iff in A. exists q, r. tauto.
Qed.

(** the attempt is at least [delay(level)] after the previous one, and the counters are below their limits *)
Corollary backoff_respected s o s' outs qi :
  step s o = Ok (s', outs) -> has_submit qi outs = true ->
  exists q, get_queue s qi = Some q /\ lim_exhausted (q_lim q) = false
            /\ match l_last (q_lim q) with
               | Some t => lim_delay (q_lim q) <= s_now s - t
               | None => True
               end.
Proof.
  intros H Hs. pose proof (submit_only_when_allowed _ _ _ _ _ H Hs) as A.
  unfold submit_allowed in A.
  destruct (get_queue s qi) as [q|]; [|discriminate].
  destruct (demand_of o qi) as [r|]; [|discriminate].
  rewrite !andb_true_iff in A. destruct A as [_ A].
  destruct (submission_status (s_now s) (q_lim q)) eqn:E; try discriminate.
  apply status_ok_iff in E. destruct E as [E1 E2]. exists q. repeat split; auto.
  unfold backoff_elapsed in E2. destruct (l_last (q_lim q)); auto. lia.
Qed.

(** * A paused queue stays paused (and therefore silent) until it is resumed *)
Theorem paused_until_resumed s o s' outs qi q :
  step s o = Ok (s', outs) -> get_queue s qi = Some q -> q_active q = false ->
  o <> OResume qi ->
  match get_queue s' qi with Some q' => q_active q' = false | None => True end.
Proof.
  intros H Hq Ha Hne. pose proof (step_qtrans _ _ _ _ _ _ H Hq) as T.
  destruct (get_queue s' qi) as [q'|]; auto.
  assert (E : is_resume_of o qi = false).
  { destruct o; simpl; auto. destruct (q0 =? qi) eqn:E; auto. apply N.eqb_eq in E. congruence. }
  rewrite E in T. destruct (q_active q') eqn:Ea'; auto.
  apply (qtrans_no_activation _ _ T) in Ea'. congruence.
Qed.

(** * After the configured number of consecutive failures a tick leaves the queue paused *)
Lemma try_pause_queue_lim now q : q_lim (try_pause_queue now q) = q_lim q.
Proof.
  unfold try_pause_queue. destruct (negb (q_active q)); auto.
  destruct (submission_status now (q_lim q)); auto.
Qed.

Lemma try_pause_queue_exhausted now q :
  lim_exhausted (q_lim q) = true -> q_active (try_pause_queue now q) = false.
Proof.
  intros He. unfold try_pause_queue. destruct (q_active q) eqn:Ea; simpl; auto.
  apply (exhausted_status now) in He. destruct He as [He|He]; rewrite He; reflexivity.
Qed.

Lemma try_pause_all_exhausted s : exhausted_paused (try_pause_all s) = true.
Proof.
  unfold exhausted_paused, try_pause_all; simpl. apply forallb_forall. intros kv Hin.
  apply in_map_iff in Hin. destruct Hin as [[k q] [<- Hin]]. simpl.
  rewrite try_pause_queue_lim. destruct (lim_exhausted (q_lim q)) eqn:He; simpl; auto.
  now rewrite try_pause_queue_exhausted.
Qed.

Theorem pause_after_fails s order resps scripts s' outs :
  step s (OTick order resps scripts) = Ok (s', outs) -> exhausted_paused s' = true.
Proof.
  simpl. unfold perform_submits. intros H.
  destruct (negb (perm_of order (active_qids (try_pause_all s)))); [discriminate|].
  destruct (negb (forallb resp_valid resps)); [discriminate|].
  destruct (active_qids (try_pause_all s)); [inv H; apply try_pause_all_exhausted|].
  bind_inv H. destruct x; [inv H; apply try_pause_all_exhausted|].
  bind_inv H. bind_inv H. destruct x0 as [s2 o2]. inv H. apply try_pause_all_exhausted.
Qed.

(** the counters count consecutive failures: a failed submission adds one, a successful one
    resets; a failed allocation adds one, a successful one resets *)
Lemma counters_count_consecutive_failures l :
  l_sfails (on_submission_fail l) = l_sfails l + 1 /\ l_sfails (on_submission_success l) = 0
  /\ l_afails (on_allocation_fail l) = l_afails l + 1 /\ l_afails (on_allocation_success l) = 0
  /\ l_afails (on_submission_fail l) = l_afails l /\ l_afails (on_submission_success l) = l_afails l
  /\ l_sfails (on_allocation_fail l) = l_sfails l /\ l_sfails (on_allocation_success l) = l_sfails l.
Proof.
  unfold on_submission_fail, on_allocation_fail, increase_delay; simpl.
  repeat split; auto;
    match goal with |- context [if ?c then _ else _] => destruct c end; reflexivity.
Qed.

(** * Resume: the next eligible tick submits *)
Lemma has_space_of_permit q r : permit_nonempty q r = true -> has_space_for_submit q = Ok true.
Proof.
  unfold permit_nonempty. destruct (compute_submission_permit q r) as [p| |] eqn:Ep; try discriminate.
  destruct p as [|p0 p]; [discriminate|]. intros _.
  pose proof (permit_props _ _ _ Ep) as (P1 & P2 & P3).
  unfold compute_submission_permit in Ep. bind_inv Ep. apply assert_or_ok in Hx.
  unfold has_space_for_submit. rewrite queued_count_eq. simpl in P1.
  destruct (q_backlog q <=? qcount (q_allocs q)) eqn:E1; [lia|].
  destruct (q_maxw q) as [m|] eqn:Em; auto.
  rewrite Hx. simpl. rewrite active_worker_count_eq in *.
  destruct (m - acount (q_allocs q) =? 0) eqn:E0; [inv Ep|].
  f_equal. lia.
Qed.

Lemma all_no_space_false l qi q b :
  all_no_space l = Ok b -> alookup qi l = Some q -> q_active q = true ->
  has_space_for_submit q = Ok true -> b = false.
Proof.
  induction l as [|[k v] l IH]; simpl; intros H Hl Ha Hs; [discriminate|].
  destruct (k =? qi) eqn:E.
  - inv Hl. rewrite Ha, Hs in H. simpl in H. now inv H.
  - destruct (q_active v); [|eauto]. bind_inv H. destruct x; [now inv H|eauto].
Qed.

Lemma queue_try_submit_eligible s qi r script s' outs sc q :
  queue_try_submit s qi r script = Ok (s', outs, sc) ->
  get_queue s qi = Some q -> q_active q = true -> permit_nonempty q r = true ->
  submission_status (s_now s) (q_lim q) = LOk ->
  has_submit qi outs = true.
Proof.
  unfold queue_try_submit, permit_nonempty. intros H G A P St.
  destruct (compute_submission_permit q r) as [p| |] eqn:Ep; try discriminate.
  destruct p as [|p0 p]; [discriminate|].
  destruct (resp_is_empty r) eqn:Er; [apply (permit_empty_resp _ _ _ Ep) in Er; discriminate|].
  rewrite G, A in H. cbv beta match delta [negb bind] in H. rewrite Ep in H.
  cbv beta match delta [bind] in H. rewrite St in H. cbv beta match in H.
  bind_inv H. destruct x as [[[q1 idx1] outs1] sc1]. inv H.
  apply submit_loop_outs in Hx. destruct Hx as [_ Hx]. apply Hx. discriminate.
Qed.

Lemma submit_queues_eligible order : forall s resps scripts s' outs qi q r,
  submit_queues s order resps scripts = Ok (s', outs) -> NoDup order ->
  zip_lookup qi order resps = Some r ->
  get_queue s qi = Some q -> q_active q = true -> permit_nonempty q r = true ->
  submission_status (s_now s) (q_lim q) = LOk ->
  has_submit qi outs = true.
Proof.
  induction order as [|qj order IH]; simpl; intros s resps scripts s' outs qi q r H ND Z G A P St;
    [discriminate|].
  destruct resps as [|r0 resps]; [discriminate|].
  bind_inv H. destruct x as [[s1 o1] sc1]. bind_inv H. destruct x as [s2 o2]. inv H.
  inv ND. rewrite has_submit_app. destruct (qj =? qi) eqn:E.
  - apply N.eqb_eq in E. subst qj. inv Z.
    erewrite queue_try_submit_eligible; eauto.
  - assert (Hne : qi <> qj) by (intros ->; rewrite N.eqb_refl in E; discriminate).
    destruct (queue_try_submit_other _ _ _ _ _ _ _ qi Hx Hne) as [Hg _].
    erewrite (IH _ _ _ _ _ _ _ _ Hx0 H2 Z); eauto; [apply orb_true_r|congruence|].
    now rewrite (queue_try_submit_now _ _ _ _ _ _ _ Hx).
Qed.

(** a tick at which queue [qi] is active, its failure counters are below their limits, the
    scheduler reports demand that the backlog / worker limits leave room for, and the back-off
    delay has elapsed performs a submission attempt for [qi] *)
Theorem eligible_tick_submits s order resps scripts s' outs qi q r :
  step s (OTick order resps scripts) = Ok (s', outs) ->
  get_queue s qi = Some q -> q_active q = true -> lim_exhausted (q_lim q) = false ->
  zip_lookup qi order resps = Some r -> permit_nonempty q r = true ->
  backoff_elapsed (s_now s) (q_lim q) = true ->
  has_submit qi outs = true.
Proof.
  simpl. unfold perform_submits. intros H G A Ex Z P B.
  assert (St : submission_status (s_now s) (q_lim q) = LOk) by (apply status_ok_iff; auto).
  assert (Tp : try_pause_queue (s_now s) q = q).
  { unfold try_pause_queue. rewrite A, St. reflexivity. }
  assert (G1 : get_queue (try_pause_all s) qi = Some q).
  { rewrite get_queue_try_pause_all, G. simpl. now rewrite Tp. }
  destruct (perm_of order (active_qids (try_pause_all s))) eqn:Ep; simpl in H; [|discriminate].
  destruct (negb (forallb resp_valid resps)); [discriminate|].
  assert (Hin : In qi (active_qids (try_pause_all s))).
  { unfold active_qids. apply in_map_iff. exists (qi, q). split; auto.
    apply filter_In. split; [now apply alookup_in|exact A]. }
  destruct (active_qids (try_pause_all s)) eqn:Ea; [destruct Hin|]. rewrite <- Ea in *.
  bind_inv H.
  pose proof (all_no_space_false _ _ _ _ Hx G1 A (has_space_of_permit _ _ P)) as ->.
  bind_inv H. bind_inv H. destruct x0 as [s2 o2]. inv H.
  eapply submit_queues_eligible; eauto using perm_of_nodup.
Qed.

(** [resume] makes the queue active with cleared failure counters and leaves everything the
    eligibility of the next tick depends on unchanged *)
Lemma resume_clears q :
  q_active (resume q) = true
  /\ l_sfails (q_lim (resume q)) = 0 /\ l_afails (q_lim (resume q)) = 0
  /\ q_allocs (resume q) = q_allocs q /\ same_params q (resume q)
  /\ l_last (q_lim (resume q)) = l_last (q_lim q) /\ l_level (q_lim (resume q)) = l_level (q_lim q)
  /\ l_delays (q_lim (resume q)) = l_delays (q_lim q)
  /\ l_maxaf (q_lim (resume q)) = l_maxaf (q_lim q) /\ l_maxsf (q_lim (resume q)) = l_maxsf (q_lim q).
Proof. unfold resume, same_params; simpl. tauto. Qed.

Lemma permit_resume q r : compute_submission_permit (resume q) r = compute_submission_permit q r.
Proof. reflexivity. Qed.

(** ** C17: resuming a paused queue - paused by the user or by the safety limits - makes it submit
    again: the next tick with demand, room and elapsed back-off attempts a submission *)
Theorem resume_submits s qi q s1 o1 order resps scripts s2 o2 r :
  get_queue s qi = Some q ->
  1 <= l_maxaf (q_lim q) -> 1 <= l_maxsf (q_lim q) ->
  step s (OResume qi) = Ok (s1, o1) ->
  step s1 (OTick order resps scripts) = Ok (s2, o2) ->
  zip_lookup qi order resps = Some r ->
  permit_nonempty q r = true ->                          (* demand, and the limits leave room *)
  backoff_elapsed (s_now s) (q_lim q) = true ->          (* back-off delay elapsed *)
  has_submit qi o2 = true.
Proof.
  intros G Ma Ms H1 H2 Z P B. simpl in H1. rewrite G in H1. inv H1.
  apply (eligible_tick_submits (set_queue s qi (resume q)) order resps scripts s2 o2 qi (resume q) r); auto.
  - eapply get_queue_set_queue_same; eauto.
  - unfold lim_exhausted, resume; simpl. lia.
Qed.

(** the same law for any number of steps between the resume and the tick, as long as the queue
    is still active and no new failure streak reached a limit: see [eligible_tick_submits]. *)

(** ** Finding F14 (before the fix): [resume] only flipped the state; the first pass of
    [try_pause_queue] of the next tick paused the queue again, nothing could ever be submitted *)
Definition f14_queue : queue :=
  mkQ false 2 1 None [] (mkLim [0] 0 (Some 0) 0 3 1 1).   (* one failed submission, max_submission_fails = 1 *)

Lemma F14_unfixed_refuted :
  exists q now r,
    q_active q = false /\ lim_exhausted (q_lim q) = true
    /\ permit_nonempty (resume_unfixed q) r = true /\ backoff_elapsed now (q_lim (resume_unfixed q)) = true
    /\ q_active (resume_unfixed q) = true
    /\ q_active (try_pause_queue now (resume_unfixed q)) = false          (* paused again by the next tick *)
    /\ q_active (try_pause_queue now (resume q)) = true.                   (* repaired code *)
Proof. exists f14_queue, 0, (2, 0, 0). vm_compute. repeat split; reflexivity. Qed.

(** every queue whose counters are at a limit is re-paused by the unfixed resume + tick, for all states *)
Lemma F14_unfixed_always_repaused now q :
  lim_exhausted (q_lim q) = true -> q_active (try_pause_queue now (resume_unfixed q)) = false.
Proof. intros H. apply try_pause_queue_exhausted. exact H. Qed.

(** * Non-vacuity *)
Definition ex_ops : list op :=
  [ OAddQueue 2 2 (Some 3) (Some ([0; 60], 1, 3));
    OTick [1] [(3, 0, 0)] [(1, [SubOk 10; SubOk 11])];        (* two allocations: 2 + 1 workers (max 3) *)
    OConnect 1 10;
    OTick [1] [(5, 0, 0)] [(1, [SubOk 12])];                  (* no room: max_worker_count reached *)
    OLost 1 10 false; OLost 2 10 false;                       (* allocation 10 finishes normally *)
    OTick [1] [(5, 0, 0)] [(1, [SubFail])];                   (* failed submission: counter = limit *)
    OResume 1; OAdvance 60;                                   (* back-off: level 1 = 60 s *)
    OTick [1] [(5, 0, 0)] [(1, [SubOk 13])] ].                (* resumed: submits again *)

Example ex_reach : exists s outs, run (init_state 1) ex_ops = Ok (s, outs)
  /\ c17_state_ok s = true /\ has_submit 1 outs = true
  /\ match get_queue s 1 with Some q => q_active q = true /\ length (q_allocs q) = 3%nat | None => False end.
Proof. eexists. eexists. split; [vm_compute; reflexivity|]. vm_compute. repeat split; reflexivity. Qed.

Lemma run_reach ops : forall s g s' outs, Reach s g -> run s ops = Ok (s', outs) -> exists g', Reach s' g'.
Proof.
  induction ops as [|o ops IH]; simpl; intros s g s' outs R H.
  - inv H. eauto.
  - bind_inv H. destruct x as [s1 o1]. bind_inv H. destruct x as [s2 o2]. inv H.
    eapply IH; [|eauto]. eapply Reach_step; eauto.
Qed.

Example ex_reachable : exists s g, Reach s g /\ s_queues s <> [] /\ c17_state_ok s = true.
Proof.
  destruct ex_reach as (s & outs & Hr & Hc & _ & Hq).
  destruct (run_reach _ _ _ _ _ (Reach_init 1) Hr) as [g R]. exists s, g. repeat split; auto.
  intros E. unfold get_queue in Hq. rewrite E in Hq. exact Hq.
Qed.
