(** C18 - allocation lifecycle is monotone and its worker accounting is exact. *)
From HQ Require Import Base.Prelude Gen.Consts Autoalloc.Model Autoalloc.Spec Autoalloc.Lemmas Autoalloc.Trans Autoalloc.ProofsC17.
From Coq Require Import ZifyBool ZifyN ZifyNat Lia.
Open Scope N_scope.
Arguments N.add : simpl never.
Arguments N.sub : simpl never.
Arguments N.mul : simpl never.
Arguments N.eqb : simpl never.
Arguments N.ltb : simpl never.
Arguments N.leb : simpl never.
Arguments N.of_nat : simpl never.

(** * Lifecycle: every allocation only moves forward and is frozen once finished *)
Lemma in_update_alloc id a' l b :
  In b (update_alloc id (fun _ => a') l) ->
  (b = a' /\ exists a, In a l /\ a_id a = id) \/ (In b l /\ a_id b <> id).
Proof.
  induction l as [|c l IH]; simpl; [tauto|].
  destruct (a_id c =? id) eqn:E; intros [H|H].
  - left. split; auto. exists c. apply N.eqb_eq in E. auto.
  - destruct (IH H) as [[H1 (a & Ha & Hid)]|[H1 H2]]; [left; split; eauto|right; auto].
  - right. subst. split; auto. intros Hid. rewrite Hid, N.eqb_refl in E. discriminate.
  - destruct (IH H) as [[H1 (a & Ha & Hid)]|[H1 H2]]; [left; split; eauto|right; auto].
Qed.

Lemma update_alloc_in_old id a' l a :
  In a l -> exists b, In b (update_alloc id (fun _ => a') l) /\ (if a_id a =? id then b = a' else b = a).
Proof.
  induction l as [|c l IH]; simpl; [tauto|]. intros [H|H].
  - subst. destruct (a_id a =? id) eqn:E; eexists; split; [left; reflexivity|reflexivity|left; reflexivity|reflexivity].
  - destruct (IH H) as (b & Hb & Hc). exists b. split; auto.
Qed.

Lemma update_alloc_const_ids id a' l :
  a_id a' = id -> map a_id (update_alloc id (fun _ => a') l) = map a_id l.
Proof.
  intros Hid. induction l as [|c l IH]; simpl; [reflexivity|]. rewrite IH.
  destruct (a_id c =? id) eqn:E; [apply N.eqb_eq in E; congruence|reflexivity].
Qed.

Lemma qprim_allocs ar q q' :
  qprim ar q q' -> ids_nodup q ->
  ids_nodup q' /\ forall a, In a (q_allocs q) -> exists a', In a' (q_allocs q') /\ alloc_trans a a'.
Proof.
  intros P ND. inv P; simpl.
  - (* one allocation updated *)
    destruct H0 as (Hid & Ht & Hr & Hf). split.
    + unfold ids_nodup; simpl. rewrite update_alloc_const_ids; auto.
      apply find_alloc_in in H. destruct H as [_ Hida]. congruence.
    + intros b Hb. destruct (update_alloc_in_old id a' _ _ Hb) as (c & Hc & Hcase).
      exists c. split; auto. destruct (a_id b =? id) eqn:E.
      * subst c. apply N.eqb_eq in E. apply find_alloc_in in H. destruct H as [Ha Hida].
        assert (b = a) by (eapply nodup_map_inj; eauto; congruence). subst b.
        unfold alloc_trans. auto.
      * subst c. apply alloc_trans_refl.
  - split; auto. intros a Ha. exists a. split; auto. apply alloc_trans_refl.
  - split.
    + unfold ids_nodup; simpl. rewrite map_app. simpl. apply nodup_snoc; auto.
      now apply find_alloc_none_notin.
    + intros a Ha. exists a. split; [apply in_or_app; auto|apply alloc_trans_refl].
  - split; auto. intros a Ha. exists a. split; auto. apply alloc_trans_refl.
  - split; auto. intros a Ha. exists a. split; auto. apply alloc_trans_refl.
Qed.

Lemma qtrans_allocs ar q q' :
  qtrans ar q q' -> ids_nodup q ->
  ids_nodup q' /\ forall a, In a (q_allocs q) -> exists a', In a' (q_allocs q') /\ alloc_trans a a'.
Proof.
  induction 1; intros ND.
  - split; auto. intros a Ha. exists a. split; auto. apply alloc_trans_refl.
  - destruct (IHqtrans ND) as [ND2 IH]. destruct (qprim_allocs _ _ _ H0 ND2) as [ND3 P].
    split; auto. intros a Ha. destruct (IH _ Ha) as (b & Hb & Tb). destruct (P _ Hb) as (c & Hc & Tc).
    exists c. split; auto. eapply alloc_trans_trans; eauto.
Qed.

Lemma in_find_alloc l a : NoDup (map a_id l) -> In a l -> find_alloc (a_id a) l = Some a.
Proof.
  induction l as [|c l IH]; simpl; [tauto|]. intros ND [H|H].
  - subst. unfold find_alloc; simpl. now rewrite N.eqb_refl.
  - inv ND. unfold find_alloc; simpl. destruct (a_id c =? a_id a) eqn:E.
    + apply N.eqb_eq in E. exfalso. apply H2. rewrite E. now apply in_map.
    + apply IH; auto.
Qed.

Lemma subset_refl l : subset l l = true.
Proof.
  unfold subset. apply forallb_forall. intros x Hx. unfold mem. apply existsb_exists.
  exists x. split; auto. apply N.eqb_refl.
Qed.

Lemma alloc_trans_step_ok a a' : alloc_trans a a' -> alloc_step_ok a a' = true.
Proof.
  intros (Hid & Ht & Hr & Hf). unfold alloc_step_ok.
  rewrite Hid, Ht, !N.eqb_refl. simpl.
  replace (rank (a_status a) <=? rank (a_status a')) with true by lia. simpl.
  destruct (is_finished a) eqn:Ef; auto. rewrite (Hf eq_refl).
  unfold is_finished in Ef. destruct (a_status a); simpl in Ef; try discriminate.
  - rewrite Nat.eqb_refl. simpl. apply (subset_refl (map fst disc)).
  - rewrite !Nat.eqb_refl, !subset_refl. simpl. destruct failed; reflexivity.
Qed.

(** ** C18: across ANY step every allocation of a surviving queue is still there, with the same
    id and size, a status that did not move backwards, and unchanged if it was finished *)
Theorem lifecycle_monotone s g o s' outs qi q a :
  Reach s g -> step s o = Ok (s', outs) -> get_queue s qi = Some q -> In a (q_allocs q) ->
  match get_queue s' qi with
  | Some q' => exists a', find_alloc (a_id a) (q_allocs q') = Some a'
                          /\ alloc_trans a a' /\ alloc_step_ok a a' = true
  | None => exists force, o = ORemove qi force
  end.
Proof.
  intros R H Hq Ha. pose proof (step_qtrans _ _ _ _ _ _ H Hq) as T.
  destruct (get_queue s' qi) as [q'|]; auto.
  destruct (sinv_get _ _ _ (reach_sinv _ _ R) Hq) as [_ ND].
  destruct (qtrans_allocs _ _ _ T ND) as [ND' P]. destruct (P _ Ha) as (a' & Ha' & Tr).
  exists a'. split; [|split; [exact Tr|now apply alloc_trans_step_ok]].
  destruct Tr as (Hid & _). rewrite <- Hid. now apply in_find_alloc.
Qed.

(** ** C18: workers naming an unknown allocation change nothing *)
Theorem unknown_allocation_noop s w a c :
  alookup a (s_index s) = None ->
  step s (OConnect w a) = Ok (s, [OutRet true]) /\ step s (OLost w a c) = Ok (s, [OutRet true]).
Proof. intros H. simpl. unfold worker_event. rewrite H. auto. Qed.

(** * Worker accounting: connected = connected-from-it minus lost; normal finish iff all lost *)
Lemma mem_true x l : mem x l = true <-> In x l.
Proof.
  unfold mem. rewrite existsb_exists. split.
  - intros (y & Hy & E). apply N.eqb_eq in E. now subst.
  - intros H. exists x. split; auto. apply N.eqb_refl.
Qed.

Lemma mem_false x l : mem x l = false <-> ~ In x l.
Proof. rewrite <- mem_true. destruct (mem x l); split; congruence. Qed.

Lemma subset_spec l1 l2 : subset l1 l2 = true <-> (forall x, In x l1 -> In x l2).
Proof.
  unfold subset. rewrite forallb_forall. split; intros H x Hx; [apply mem_true|apply mem_true]; auto.
Qed.

Lemma set_eq_spec l1 l2 : set_eq l1 l2 = true <-> (forall x, In x l1 <-> In x l2).
Proof.
  unfold set_eq. rewrite andb_true_iff, !subset_spec. split.
  - intros [H1 H2] x. split; auto.
  - intros H. split; intros x; apply H.
Qed.

Lemma in_diff x l1 l2 : In x (diff l1 l2) <-> In x l1 /\ ~ In x l2.
Proof. unfold diff. rewrite filter_In, negb_true_iff, mem_false. tauto. Qed.

Lemma in_add_set x y l : In x (add_set y l) <-> x = y \/ In x l.
Proof.
  unfold add_set. destruct (mem y l) eqn:E.
  - apply mem_true in E. split; [auto|intros [->|H]; auto].
  - rewrite in_app_iff. simpl. split; [intros [H|[H|[]]]; auto|intros [H|H]; auto].
Qed.

Lemma in_set_insert x w l : In x (set_insert w l) <-> x = w \/ In x l.
Proof.
  unfold set_insert. destruct (existsb (N.eqb w) l) eqn:E.
  - apply existsb_exists in E. destruct E as (y & Hy & E). apply N.eqb_eq in E. subst y.
    split; [auto|intros [->|H]; auto].
  - rewrite in_app_iff. simpl. split; [intros [H|[H|[]]]; auto|intros [H|H]; auto].
Qed.

Lemma in_set_remove x w l : In x (set_remove w l) <-> In x l /\ x <> w.
Proof.
  unfold set_remove. rewrite filter_In, negb_true_iff, N.eqb_neq. tauto.
Qed.

Lemma nodupb_spec l : nodupb l = true <-> NoDup l.
Proof.
  split; [apply nodupb_NoDup|]. induction 1 as [|x l Hx _ IH]; simpl; auto.
  rewrite IH, andb_true_r, negb_true_iff. destruct (existsb (N.eqb x) l) eqn:E; auto.
  apply existsb_exists in E. destruct E as (y & Hy & E). apply N.eqb_eq in E. subst. contradiction.
Qed.

Lemma nodup_set_insert w l : NoDup l -> NoDup (set_insert w l).
Proof.
  intros ND. unfold set_insert. destruct (existsb (N.eqb w) l) eqn:E; auto.
  apply nodup_snoc; auto. intros Hin.
  assert (existsb (N.eqb w) l = true); [|congruence].
  apply existsb_exists. exists w. split; auto. apply N.eqb_refl.
Qed.

Lemma nodup_set_remove w l : NoDup l -> NoDup (set_remove w l).
Proof. intros. unfold set_remove. now apply NoDup_filter. Qed.

(** keys of [map_insert] *)
Lemma map_insert_keys w c m :
  map fst (map_insert w c m) = if mem w (map fst m) then map fst m else map fst m ++ [w].
Proof.
  induction m as [|[k v] m IH]; simpl; [reflexivity|].
  unfold mem in *. simpl. rewrite (N.eqb_sym w k).
  destruct (k =? w) eqn:E; simpl; [reflexivity|]. rewrite IH.
  destruct (existsb (N.eqb w) (map fst m)); reflexivity.
Qed.

Lemma in_map_insert_keys x w c m : In x (map fst (map_insert w c m)) <-> x = w \/ In x (map fst m).
Proof.
  rewrite map_insert_keys. destruct (mem w (map fst m)) eqn:E.
  - apply mem_true in E. split; [auto|intros [->|H]; auto].
  - rewrite in_app_iff. simpl. split; [intros [H|[H|[]]]; auto|intros [H|H]; auto].
Qed.

Lemma nodup_map_insert_keys w c m : NoDup (map fst m) -> NoDup (map fst (map_insert w c m)).
Proof.
  intros ND. rewrite map_insert_keys. destruct (mem w (map fst m)) eqn:E; auto.
  apply nodup_snoc; auto. now apply mem_false.
Qed.

Lemma disc_count_insert w c m :
  disc_count (map_insert w c m) = if mem w (map fst m) then disc_count m else disc_count m + 1.
Proof.
  unfold disc_count. rewrite <- (map_length fst (map_insert w c m)), map_insert_keys.
  destruct (mem w (map fst m)); [now rewrite map_length|]. rewrite app_length, map_length. simpl. lia.
Qed.

Lemma nodup_add_set x l : NoDup l -> NoDup (add_set x l).
Proof.
  intros ND. unfold add_set. destruct (mem x l) eqn:E; auto.
  apply nodup_snoc; auto. now apply mem_false.
Qed.

Definition g_add_conn (w : wid) (x : galloc) : galloc := mkG (g_q x) (g_id x) (add_set w (g_conn x)) (g_lost x).
Definition g_add_lost (w : wid) (x : galloc) : galloc := mkG (g_q x) (g_id x) (g_conn x) (add_set w (g_lost x)).

Ltac acc_unfold := unfold accounting_ok in *; simpl in *.

(** a connect notification keeps the accounting exact (after the fix of F15) *)
Lemma connect_accounting qi a w ga a' evs fin :
  1 <= a_target a -> accounting_ok a ga = true ->
  sync_alloc qi a (RConnected w) = (a', evs, fin) ->
  accounting_ok a' (g_add_conn w ga) = true.
Proof.
  intros Ht Hacc H. unfold sync_alloc in H. destruct a as [id tg st]. simpl in *.
  unfold accounting_ok in Hacc. apply andb_true_iff in Hacc. destruct Hacc as [HN Hacc].
  unfold accounting_ok. apply andb_true_iff. split; [exact HN|]. simpl in *.
  destruct st as [e|e conn disc|disc|conn disc f].
  - inv H. simpl. destruct (g_conn ga) eqn:Ec; [|discriminate]. destruct (g_lost ga) eqn:El; [|discriminate].
    simpl. rewrite !andb_true_iff. repeat split; auto.
    + apply set_eq_spec. intros x. tauto.
    + unfold disc_count; simpl. lia.
  - rewrite !andb_true_iff in Hacc. destruct Hacc as [[[[A B] C] D] E].
    rewrite set_eq_spec in A, C. rewrite nodupb_spec in B.
    destruct (existsb (fun kv => fst kv =? w) disc) eqn:Ex.
    + (* the worker was already lost *)
      inv H. simpl. rewrite !andb_true_iff. repeat split; auto.
      * apply set_eq_spec. intros x. rewrite A, !in_diff, in_add_set.
        apply existsb_exists in Ex. destruct Ex as ([k v] & Hk & Ek). simpl in Ek. apply N.eqb_eq in Ek. subst k.
        assert (In w (g_lost ga)) by (apply C; change w with (fst (w, v)); now apply in_map).
        split; [tauto|]. intros [[->|Hx] Hn]; tauto.
      * apply nodupb_spec; auto.
      * apply set_eq_spec; exact C.
    + inv H. simpl. rewrite !andb_true_iff. repeat split; auto.
      * apply set_eq_spec. intros x. rewrite in_set_insert, A, !in_diff, in_add_set.
        assert (~ In w (g_lost ga)).
        { intros Hin. apply C in Hin. apply in_map_iff in Hin. destruct Hin as ([k v] & Hk & Hin). simpl in Hk. subst k.
          assert (existsb (fun kv => fst kv =? w) disc = true); [|congruence].
          apply existsb_exists. exists (w, v). split; auto. simpl. apply N.eqb_refl. }
        split; [intros [->|[? ?]]; auto|intros [[->|?] ?]; auto].
      * apply nodupb_spec. now apply nodup_set_insert.
      * apply set_eq_spec. exact C.
  - inv H. simpl. exact Hacc.
  - inv H. reflexivity.
Qed.

(** a loss notification keeps the accounting exact and finishes the allocation exactly when the
    number of distinct lost workers reaches the target *)
Lemma lost_accounting qi a w c ga a' evs fin :
  1 <= a_target a -> accounting_ok a ga = true ->
  sync_alloc qi a (RLost w c) = (a', evs, fin) ->
  accounting_ok a' (g_add_lost w ga) = true.
Proof.
  intros Ht Hacc H. unfold sync_alloc in H. destruct a as [id tg st]. simpl in *.
  unfold accounting_ok in Hacc. apply andb_true_iff in Hacc. destruct Hacc as [HN Hacc]. simpl in Hacc.
  assert (Core : forall e conn disc,
    set_eq conn (diff (g_conn ga) (g_lost ga)) = true -> nodupb conn = true ->
    set_eq (map fst disc) (g_lost ga) = true -> nodupb (map fst disc) = true ->
    disc_count disc < tg ->
    forall evs0,
    (if disc_count (map_insert w c disc) =? tg
     then ({| a_id := id; a_target := tg; a_status := Finished (map_insert w c disc) |}, evs0,
           Some (if all_crashed (map_insert w c disc) then FinFailure else FinSuccess))
     else ({| a_id := id; a_target := tg; a_status := Running e (set_remove w conn) (map_insert w c disc) |}, evs0, None))
    = (a', evs, fin) ->
    accounting_ok a' (g_add_lost w ga) = true).
  { intros e conn disc A B C D E evs0 H0.
    rewrite set_eq_spec in A, C. rewrite nodupb_spec in B, D.
    pose proof (disc_count_insert w c disc) as Hc.
    unfold accounting_ok. apply andb_true_iff. split; [apply nodupb_spec; apply nodup_add_set; apply nodupb_spec; exact HN|].
    destruct (disc_count (map_insert w c disc) =? tg) eqn:Eq; inv H0; simpl.
    - rewrite andb_true_iff. split; [apply nodupb_spec; now apply nodup_map_insert_keys|]. exact Eq.
    - rewrite !andb_true_iff. repeat split.
      + apply set_eq_spec. intros x. rewrite in_set_remove, A, !in_diff, in_add_set. tauto.
      + apply nodupb_spec. now apply nodup_set_remove.
      + apply set_eq_spec. intros x. rewrite in_map_insert_keys, in_add_set, C. tauto.
      + apply nodupb_spec. now apply nodup_map_insert_keys.
      + clear - E Eq Hc. match type of Hc with context [if ?b then _ else _] => destruct b end; lia. }
  destruct st as [e|e conn disc|disc|conn disc f].
  - assert (HE : g_conn ga = [] /\ g_lost ga = []).
    { clear - Hacc.
      destruct (g_conn ga); [|discriminate]. destruct (g_lost ga); [|discriminate]. auto. }
    destruct HE as [Ec El].
    eapply (Core 0 [] []); eauto; try reflexivity.
    + rewrite Ec, El. reflexivity.
    + rewrite El. reflexivity.
    + unfold disc_count; simpl. lia.
  - rewrite !andb_true_iff in Hacc. destruct Hacc as [[[[A B] C] D] E].
    eapply (Core e conn disc); eauto. lia.
  - inv H. unfold accounting_ok. apply andb_true_iff. split; [apply nodupb_spec; apply nodup_add_set; apply nodupb_spec; exact HN|exact Hacc].
  - inv H. unfold accounting_ok. apply andb_true_iff. split; [apply nodupb_spec; apply nodup_add_set; apply nodupb_spec; exact HN|reflexivity].
Qed.

(** external status reports and status errors do not touch the worker sets *)
Lemma ext_accounting qi a r ga a' evs fin :
  1 <= a_target a -> accounting_ok a ga = true ->
  (r = RExtQueued \/ r = RExtRunning \/ r = RExtFinished \/ r = RExtFailed) ->
  sync_alloc qi a r = (a', evs, fin) -> accounting_ok a' ga = true.
Proof.
  intros Ht Hacc Hr H. unfold sync_alloc in H. destruct a as [id tg st]. simpl in *.
  unfold accounting_ok in *. apply andb_true_iff in Hacc. destruct Hacc as [HN Hacc].
  apply andb_true_iff. split; [exact HN|]. simpl in *.
  destruct Hr as [ -> | [ -> | [ -> | -> ] ] ]; destruct st; inv H; simpl; auto.
  destruct (g_conn ga); [|discriminate]. destruct (g_lost ga); [|discriminate].
  simpl. unfold disc_count; simpl. lia.
Qed.

Lemma bump_accounting qi a ga a' evs :
  accounting_ok a ga = true -> increase_status_error_counter qi a = (a', evs) -> accounting_ok a' ga = true.
Proof.
  intros Hacc H. unfold increase_status_error_counter in H. destruct a as [id tg st]. simpl in *.
  unfold accounting_ok in *. apply andb_true_iff in Hacc. destruct Hacc as [HN Hacc].
  apply andb_true_iff. split; [exact HN|]. simpl in *.
  destruct st; simpl in H;
    repeat match type of H with context [if ?c then _ else _] => destruct c end;
    inv H; simpl; auto.
Qed.

(** * The accounting invariant over all reachable states *)
Definition ginv (s : state) (g : ghost) : Prop :=
  forall qi q a, get_queue s qi = Some q -> In a (q_allocs q) ->
    exists ga, g_find qi (a_id a) (gh_allocs g) = Some ga /\ accounting_ok a ga = true.

Definition acc_imp (a b : alloc) : Prop :=
  forall ga, accounting_ok a ga = true -> accounting_ok b ga = true.

(** every allocation of [s'] stems from an allocation of [s] with the same key whose accounting
    carries over (no worker notification, no new allocation in between) *)
Definition spres (s s' : state) : Prop :=
  forall qi q' b, get_queue s' qi = Some q' -> In b (q_allocs q') ->
    exists q a, get_queue s qi = Some q /\ In a (q_allocs q) /\ a_id a = a_id b /\ acc_imp a b.

Lemma spres_refl s : spres s s.
Proof. intros qi q b G Hb. exists q, b. repeat split; auto. intros ga; auto. Qed.

Lemma spres_trans s1 s2 s3 : spres s1 s2 -> spres s2 s3 -> spres s1 s3.
Proof.
  intros H1 H2 qi q3 c G Hc. destruct (H2 _ _ _ G Hc) as (q2 & b & G2 & Hb & Hid & Hi).
  destruct (H1 _ _ _ G2 Hb) as (q1 & a & G1 & Ha & Hid1 & Hi1).
  exists q1, a. repeat split; auto; [congruence|]. intros ga Hg. auto.
Qed.

Lemma ginv_frame s s' g g' : spres s s' -> gh_allocs g' = gh_allocs g -> ginv s g -> ginv s' g'.
Proof.
  intros P E I qi q' b G Hb. destruct (P _ _ _ G Hb) as (q & a & G0 & Ha & Hid & Hi).
  destruct (I _ _ _ G0 Ha) as (ga & F & A). exists ga. rewrite E, <- Hid. split; auto.
Qed.

(** queue-level version *)
Definition qpres (q q' : queue) : Prop :=
  forall b, In b (q_allocs q') -> exists a, In a (q_allocs q) /\ a_id a = a_id b /\ acc_imp a b.

Lemma qpres_refl q : qpres q q.
Proof. intros b Hb. exists b. repeat split; auto. intros ga; auto. Qed.
Lemma qpres_trans a b c : qpres a b -> qpres b c -> qpres a c.
Proof.
  intros H1 H2 z Hz. destruct (H2 _ Hz) as (y & Hy & Hid & Hi). destruct (H1 _ Hy) as (x & Hx & Hid' & Hi').
  exists x. repeat split; auto; [congruence|]. intros ga Hg; auto.
Qed.

Lemma spres_set_queue s qj v v0 :
  get_queue s qj = Some v0 -> qpres v0 v -> spres s (set_queue s qj v).
Proof.
  intros G P qi q' b G' Hb. destruct (N.eq_dec qi qj) as [->|Hne].
  - rewrite (get_queue_set_queue_same _ _ _ _ G) in G'. inv G'.
    destruct (P _ Hb) as (a & Ha & Hid & Hi). exists v0, a. auto.
  - rewrite get_queue_set_queue_other in G'; auto. exists q', b. repeat split; auto. intros ga; auto.
Qed.

Definition sizes_pos (q : queue) : Prop := forall a, In a (q_allocs q) -> 1 <= a_target a.

Lemma qinv2_sizes_pos q : qinv2 q -> sizes_pos q.
Proof.
  intros [(_ & _ & Hs & _) _] a Ha. rewrite forallb_forall in Hs. specialize (Hs _ Ha).
  unfold size_ok in Hs. lia.
Qed.

Lemma update_qpres q id a a' :
  find_alloc id (q_allocs q) = Some a -> ids_nodup q -> acc_imp a a' -> a_id a' = a_id a ->
  qpres q (set_allocs (update_alloc id (fun _ => a') (q_allocs q)) q).
Proof.
  intros Hf ND Hi Hid b Hb. simpl in Hb. apply in_update_alloc in Hb.
  apply find_alloc_in in Hf. destruct Hf as [Ha Hida].
  destruct Hb as [[-> _]|[Hb Hne]].
  - exists a. auto.
  - exists b. repeat split; auto. intros ga; auto.
Qed.

Lemma is_ext r : (exists w, r = RConnected w) \/ (exists w c, r = RLost w c)
                 \/ (r = RExtQueued \/ r = RExtRunning \/ r = RExtFinished \/ r = RExtFailed).
Proof. destruct r; eauto 6. Qed.

Lemma sync_allocation_status_ext_qpres qi q id r q' outs :
  (r = RExtQueued \/ r = RExtRunning \/ r = RExtFinished \/ r = RExtFailed) ->
  ids_nodup q -> sizes_pos q ->
  sync_allocation_status qi q id r = (q', outs) -> qpres q q'.
Proof.
  unfold sync_allocation_status. intros Hr ND Sz H.
  destruct (find_alloc id (q_allocs q)) as [a|] eqn:Ef; [|inv H; apply qpres_refl].
  destruct (sync_alloc qi a r) as [[a' evs] fin] eqn:Es.
  assert (P : qpres q (set_allocs (update_alloc id (fun _ => a') (q_allocs q)) q)).
  { eapply update_qpres; eauto.
    - intros ga Hg. eapply ext_accounting; eauto. apply Sz. now apply find_alloc_in in Ef.
    - apply sync_alloc_trans in Es. apply Es. }
  destruct fin as [[|]|]; inv H; exact P.
Qed.

Lemma reason_of_ext x r : reason_of x = Some r ->
  r = RExtQueued \/ r = RExtRunning \/ r = RExtFinished \/ r = RExtFailed.
Proof. destruct x; simpl; intros H; inv H; auto. Qed.

Lemma bump_qpres qi q id :
  ids_nodup q ->
  qpres q (fst (match find_alloc id (q_allocs q) with
                | Some a => let '(a', evs) := increase_status_error_counter qi a in
                            (set_allocs (update_alloc id (fun _ => a') (q_allocs q)) q, evs)
                | None => (q, [])
                end)).
Proof.
  intros ND. destruct (find_alloc id (q_allocs q)) as [a|] eqn:Ef; [|apply qpres_refl].
  destruct (increase_status_error_counter qi a) as [a' evs] eqn:Ei. simpl.
  eapply update_qpres; eauto.
  - intros ga Hg. eapply bump_accounting; eauto.
  - apply bump_trans in Ei. apply Ei.
Qed.

Lemma refresh_loop_qpres qi sts : forall q q' outs,
  qinv2 q -> refresh_loop qi q sts = (q', outs) -> qpres q q'.
Proof.
  induction sts as [|[id x] rest IH]; simpl; intros q q' outs Hq H.
  - inv H. apply qpres_refl.
  - destruct (reason_of x) as [r|] eqn:Er.
    + destruct (sync_allocation_status qi q id r) as [q1 o1] eqn:Es.
      destruct (refresh_loop qi q1 rest) as [q2 o2] eqn:El. inv H.
      eapply qpres_trans.
      * exact (sync_allocation_status_ext_qpres qi q id r q1 o1 (reason_of_ext _ _ Er) (proj2 Hq) (qinv2_sizes_pos _ Hq) Es).
      * eapply IH; eauto. eapply queue_le_qinv2; [|exact Hq]. eapply sync_allocation_status_le; eauto. apply Hq.
    + pose proof (bump_qpres qi q id (proj2 Hq)) as H1.
      pose proof (bump_le qi q id (proj2 Hq)) as H2.
      destruct (find_alloc id (q_allocs q)) as [a|] eqn:Ef.
      * destruct (increase_status_error_counter qi a) as [a' evs] eqn:Ei. simpl in *.
        destruct (refresh_loop qi _ rest) as [q2 o2] eqn:El. inv H.
        eapply qpres_trans; [exact H1|]. eapply IH; eauto. eapply queue_le_qinv2; eauto.
      * simpl in *. destruct (refresh_loop qi q rest) as [q2 o2] eqn:El. inv H. eauto.
Qed.

Lemma refresh_err_loop_qpres qi order : forall q q' outs,
  qinv2 q -> refresh_err_loop qi q order = (q', outs) -> qpres q q'.
Proof.
  induction order as [|id rest IH]; simpl; intros q q' outs Hq H.
  - inv H. apply qpres_refl.
  - pose proof (bump_qpres qi q id (proj2 Hq)) as H1.
    pose proof (bump_le qi q id (proj2 Hq)) as H2.
    destruct (find_alloc id (q_allocs q)) as [a|] eqn:Ef.
    + destruct (increase_status_error_counter qi a) as [a' evs] eqn:Ei. simpl in *.
      destruct (refresh_err_loop qi _ rest) as [q2 o2] eqn:El. inv H.
      eapply qpres_trans; [exact H1|]. eapply IH; eauto. eapply queue_le_qinv2; eauto.
    + simpl in *. destruct (refresh_err_loop qi q rest) as [q2 o2] eqn:El. inv H. eauto.
Qed.

Lemma refresh_queue_allocations_spres s qj w s' outs :
  sinv s -> refresh_queue_allocations s qj w = Ok (s', outs) -> spres s s'.
Proof.
  unfold refresh_queue_allocations. intros Hs H.
  destruct (get_queue s qj) as [q|] eqn:Eq; [|inv H; apply spres_refl].
  destruct (active_ids q); [destruct w; [discriminate|inv H; apply spres_refl]|].
  destruct w as [sw|]; [|discriminate].
  destruct (negb (perm_of _ _)); [discriminate|].
  pose proof (sinv_get _ _ _ Hs Eq) as Hq.
  destruct (sw_err sw).
  - destruct (refresh_err_loop qj q (map fst (sw_sts sw))) as [q' o'] eqn:El. inv H.
    eapply spres_set_queue; eauto. eapply refresh_err_loop_qpres; eauto.
  - destruct (refresh_loop qj q (sw_sts sw)) as [q' o'] eqn:El. inv H.
    eapply spres_set_queue; eauto. eapply refresh_loop_qpres; eauto.
Qed.

Lemma periodic_loop_spres order : forall s wits s' outs,
  sinv s -> periodic_loop s order wits = Ok (s', outs) -> spres s s'.
Proof.
  induction order as [|qj order IH]; simpl; intros s wits s' outs Hs H.
  - inv H. apply spres_refl.
  - bind_inv H. destruct x as [s1 o1]. bind_inv H. destruct x as [s2 o2]. inv H.
    eapply spres_trans; [eapply refresh_queue_allocations_spres; eauto|].
    eapply IH; eauto. eapply refresh_queue_allocations_sinv; eauto.
Qed.

(** outputs of status synchronisation are AllocationStarted / AllocationFinished events only *)
Definition status_events (outs : list out) : Prop :=
  Forall (fun o => match o with EvStarted _ _ | EvFinished _ _ => True | _ => False end) outs.

Lemma status_events_app l1 l2 : status_events l1 -> status_events l2 -> status_events (l1 ++ l2).
Proof. unfold status_events. intros. apply Forall_app. auto. Qed.

Lemma status_events_no_new outs : status_events outs -> new_gallocs outs = [].
Proof. induction 1 as [|o l Ho _ IH]; simpl; auto. destruct o; simpl in *; auto; contradiction. Qed.

Lemma new_gallocs_ret b outs : new_gallocs (OutRet b :: outs) = new_gallocs outs.
Proof. reflexivity. Qed.

Lemma sync_alloc_status_events qi a r a' evs fin : sync_alloc qi a r = (a', evs, fin) -> status_events evs.
Proof.
  unfold sync_alloc. destruct r; destruct (a_status a); simpl; intros H;
    repeat match type of H with context [if ?c then _ else _] => destruct c end;
    inv H; repeat constructor.
Qed.

Lemma sync_allocation_status_status_events qi q id r q' outs :
  sync_allocation_status qi q id r = (q', outs) -> status_events outs.
Proof.
  unfold sync_allocation_status. destruct (find_alloc id (q_allocs q)); [|intros H; inv H; constructor].
  destruct (sync_alloc qi a r) as [[a' evs] fin] eqn:Es. apply sync_alloc_status_events in Es.
  destruct fin as [[|]|]; intros H; inv H; auto; apply status_events_app; auto; repeat constructor.
Qed.

Lemma bump_status_events qi a a' evs :
  increase_status_error_counter qi a = (a', evs) -> status_events evs.
Proof.
  unfold increase_status_error_counter. destruct (a_status a); intros H;
    repeat match type of H with context [if ?c then _ else _] => destruct c end;
    inv H; repeat constructor.
Qed.

Lemma refresh_loop_status_events qi sts : forall q q' outs, refresh_loop qi q sts = (q', outs) -> status_events outs.
Proof.
  induction sts as [|[id x] rest IH]; simpl; intros q q' outs H; [inv H; constructor|].
  destruct (reason_of x) as [r|].
  - destruct (sync_allocation_status qi q id r) as [q1 o1] eqn:Es.
    destruct (refresh_loop qi q1 rest) as [q2 o2] eqn:El. inv H.
    apply status_events_app; eauto using sync_allocation_status_status_events.
  - destruct (find_alloc id (q_allocs q)) as [a|].
    + destruct (increase_status_error_counter qi a) as [a' evs] eqn:Ei.
      destruct (refresh_loop qi _ rest) as [q2 o2] eqn:El. inv H.
      apply status_events_app; eauto using bump_status_events.
    + destruct (refresh_loop qi q rest) as [q2 o2] eqn:El. inv H. simpl. eauto.
Qed.

Lemma refresh_err_loop_status_events qi order : forall q q' outs, refresh_err_loop qi q order = (q', outs) -> status_events outs.
Proof.
  induction order as [|id rest IH]; simpl; intros q q' outs H; [inv H; constructor|].
  destruct (find_alloc id (q_allocs q)) as [a|].
  - destruct (increase_status_error_counter qi a) as [a' evs] eqn:Ei.
    destruct (refresh_err_loop qi _ rest) as [q2 o2] eqn:El. inv H.
    apply status_events_app; eauto using bump_status_events.
  - destruct (refresh_err_loop qi q rest) as [q2 o2] eqn:El. inv H. simpl. eauto.
Qed.

Lemma refresh_queue_allocations_status_events s qi w s' outs :
  refresh_queue_allocations s qi w = Ok (s', outs) -> status_events outs.
Proof.
  unfold refresh_queue_allocations. intros H.
  destruct (get_queue s qi) as [q|]; [|inv H; constructor].
  destruct (active_ids q); [destruct w; [discriminate|inv H; constructor]|].
  destruct w as [sw|]; [|discriminate].
  destruct (negb (perm_of _ _)); [discriminate|].
  destruct (sw_err sw).
  - destruct (refresh_err_loop qi q (map fst (sw_sts sw))) as [q' o'] eqn:El. inv H.
    eapply refresh_err_loop_status_events; eauto.
  - destruct (refresh_loop qi q (sw_sts sw)) as [q' o'] eqn:El. inv H.
    eapply refresh_loop_status_events; eauto.
Qed.

Lemma periodic_loop_status_events order : forall s wits s' outs,
  periodic_loop s order wits = Ok (s', outs) -> status_events outs.
Proof.
  induction order as [|qi order IH]; simpl; intros s wits s' outs H; [inv H; constructor|].
  bind_inv H. destruct x as [s1 o1]. bind_inv H. destruct x as [s2 o2]. inv H.
  apply status_events_app; eauto using refresh_queue_allocations_status_events.
Qed.

Lemma worker_event_status_events s id r s' outs : worker_event s id r = (s', outs) -> status_events outs.
Proof.
  unfold worker_event. intros H.
  destruct (alookup id (s_index s)) as [qi|]; [|inv H; constructor].
  destruct (get_queue s qi) as [q|]; [|inv H; constructor].
  destruct (sync_allocation_status qi q id r) as [q' o'] eqn:Es. inv H.
  eapply sync_allocation_status_status_events; eauto.
Qed.

(** * worker notifications *)
Lemma g_find_update q id q0 id0 f l :
  (forall x, g_q (f x) = g_q x /\ g_id (f x) = g_id x) ->
  g_find q id (g_update q0 id0 f l) =
  if (q =? q0) && (id =? id0) then option_map f (g_find q id l) else g_find q id l.
Proof.
  intros Hf. unfold g_find, g_update. induction l as [|x l IH]; simpl; [destruct (_ && _); reflexivity|].
  destruct (Hf x) as [Hq Hi].
  destruct ((g_q x =? q) && (g_id x =? id)) eqn:T.
  - apply andb_true_iff in T. destruct T as [T1 T2]. apply N.eqb_eq in T1, T2. subst q id.
    destruct ((g_q x =? q0) && (g_id x =? id0)) eqn:M; simpl.
    + rewrite Hq, Hi, !N.eqb_refl. reflexivity.
    + rewrite !N.eqb_refl. reflexivity.
  - destruct ((g_q x =? q0) && (g_id x =? id0)) eqn:M; simpl.
    + rewrite Hq, Hi, T. exact IH.
    + rewrite T. exact IH.
Qed.

Lemma g_find_update_other q id q0 id0 f l :
  (forall x, g_q (f x) = g_q x /\ g_id (f x) = g_id x) ->
  (q <> q0 \/ id <> id0) -> g_find q id (g_update q0 id0 f l) = g_find q id l.
Proof.
  intros Hf Hne. rewrite g_find_update; auto.
  destruct ((q =? q0) && (id =? id0)) eqn:E; auto.
  apply andb_true_iff in E. destruct E as [E1 E2]. apply N.eqb_eq in E1, E2. tauto.
Qed.

Lemma g_add_conn_keys w x : g_q (g_add_conn w x) = g_q x /\ g_id (g_add_conn w x) = g_id x.
Proof. split; reflexivity. Qed.
Lemma g_add_lost_keys w x : g_q (g_add_lost w x) = g_q x /\ g_id (g_add_lost w x) = g_id x.
Proof. split; reflexivity. Qed.

(** [worker_event] for a connect / loss: the invariant is re-established with the history updated *)
Lemma ginv_worker_event s g id r s' outs f allocs' :
  sinv s -> ginv s g ->
  worker_event s id r = (s', outs) ->
  (forall x, g_q (f x) = g_q x /\ g_id (f x) = g_id x) ->
  (forall qi a ga a' evs fin, 1 <= a_target a -> accounting_ok a ga = true ->
      sync_alloc qi a r = (a', evs, fin) -> accounting_ok a' (f ga) = true) ->
  allocs' = match alookup id (s_index s) with
            | Some q => g_update q id f (gh_allocs g)
            | None => gh_allocs g
            end ->
  forall g', gh_allocs g' = allocs' -> ginv s' g'.
Proof.
  intros Hs I H Hf Hcore -> g' Eg. unfold worker_event in H.
  destruct (alookup id (s_index s)) as [qj|] eqn:Ei.
  2:{ inv H. intros qi q a G Ha. rewrite Eg. eauto. }
  destruct (get_queue s qj) as [qv|] eqn:Eq.
  2:{ inv H. intros qi q a G Ha. rewrite Eg. destruct (I _ _ _ G Ha) as (ga & F & A).
      exists ga. split; auto. rewrite g_find_update_other; auto. left. intros ->. congruence. }
  destruct (sync_allocation_status qj qv id r) as [qv' o'] eqn:Es. inv H.
  pose proof (sinv_get _ _ _ Hs Eq) as Hqv.
  intros qi q b G Hb. rewrite Eg.
  destruct (N.eq_dec qi qj) as [->|Hne].
  2:{ rewrite get_queue_set_queue_other in G; auto. destruct (I _ _ _ G Hb) as (ga & F & A).
      exists ga. split; auto. rewrite g_find_update_other; auto. }
  rewrite (get_queue_set_queue_same _ _ _ _ Eq) in G. inv G.
  unfold sync_allocation_status in Es.
  destruct (find_alloc id (q_allocs qv)) as [a|] eqn:Ef.
  2:{ inv Es. destruct (I _ _ _ Eq Hb) as (ga & F & A). exists ga. split; auto.
      rewrite g_find_update_other; auto. right. intros E.
      apply find_alloc_none_notin in Ef. apply Ef. rewrite <- E. now apply in_map. }
  destruct (sync_alloc qj a r) as [[a' evs] fin] eqn:Esa.
  assert (Hall : q_allocs q = update_alloc id (fun _ => a') (q_allocs qv)).
  { destruct fin as [[|]|]; inv Es; reflexivity. }
  rewrite Hall in Hb. apply in_update_alloc in Hb.
  pose proof (find_alloc_in _ _ _ Ef) as [Ha Hida].
  destruct Hb as [[-> _]|[Hb Hnid]].
  - destruct (I _ _ _ Eq Ha) as (ga & F & A). exists (f ga). split.
    + pose proof (sync_alloc_trans _ _ _ _ _ _ Esa) as (Hid' & _).
      rewrite g_find_update; auto. rewrite Hid', Hida, !N.eqb_refl. simpl. rewrite <- Hida, F. reflexivity.
    + eapply Hcore; eauto. apply (qinv2_sizes_pos _ Hqv). exact Ha.
  - destruct (I _ _ _ Eq Hb) as (ga & F & A). exists ga. split; auto.
    rewrite g_find_update_other; auto.
Qed.

(** * submissions: old allocations untouched, new ones queued and announced *)
Lemma find_alloc_app id l1 l2 :
  find_alloc id (l1 ++ l2) = match find_alloc id l1 with Some a => Some a | None => find_alloc id l2 end.
Proof.
  unfold find_alloc. induction l1 as [|a l IH]; simpl; auto. destruct (a_id a =? id); auto.
Qed.
Lemma submit_loop_shape qi permit : forall script q idx q2 idx2 outs sc,
  submit_loop qi permit script q idx = Ok (q2, idx2, outs, sc) ->
  exists news, q_allocs q2 = q_allocs q ++ news
    /\ (forall a, In a news -> a_status a = Queued 0 /\ In (EvQueued qi (a_id a) (a_target a)) outs
                              /\ find_alloc (a_id a) (q_allocs q) = None /\ alookup (a_id a) idx = None)
    /\ (forall q' id n, In (EvQueued q' id n) outs -> q' = qi /\ In id (map a_id news))
    /\ idx2 = rev (map (fun a => (a_id a, qi)) news) ++ idx
    /\ NoDup (map a_id news).
Proof.
  induction permit as [|n rest IH]; simpl; intros script q idx q2 idx2 outs sc H.
  - inv H. exists []. rewrite app_nil_r. repeat split; auto; try (intros; contradiction); constructor.
  - destruct script as [|[id| |] script']; [discriminate| | |].
    + destruct (alookup id idx) eqn:Ei; [discriminate|]. bind_inv H. bind_inv H.
      destruct x0 as [[[q2' idx2'] outs'] sc']. inv H. apply assert_or_ok in Hx.
      destruct (find_alloc id (q_allocs q)) eqn:Ef; [discriminate|].
      destruct (IH _ _ _ _ _ _ _ Hx0) as (news & Hall & Hnew & Hev & Hidx & Hnd). simpl in *.
      exists (new_alloc id n :: news). repeat split.
      * rewrite Hall, <- app_assoc. reflexivity.
      * destruct H as [<-|H]; [reflexivity|apply (Hnew _ H)].
      * destruct H as [<-|H]; [simpl; auto|]. right. right. apply (Hnew _ H).
      * destruct H as [<-|H]; [exact Ef|].
        destruct (Hnew _ H) as (_ & _ & Hf & _).
        rewrite find_alloc_app in Hf. destruct (find_alloc (a_id a) (q_allocs q)); [discriminate|reflexivity].
      * destruct H as [<-|H]; [exact Ei|].
        destruct (Hnew _ H) as (_ & _ & _ & Hl). simpl in Hl.
        destruct (id =? a_id a); [discriminate|exact Hl].
      * destruct H as [H|[H|H]]; [discriminate|inv H; reflexivity|apply (Hev _ _ _ H)].
      * destruct H as [H|[H|H]]; [discriminate|inv H; simpl; auto|]. simpl. right. apply (Hev _ _ _ H).
      * rewrite Hidx. simpl. rewrite <- app_assoc. reflexivity.
      * simpl. constructor; auto. intros Hin. apply in_map_iff in Hin. destruct Hin as (a & Ha & Hin).
        destruct (Hnew _ Hin) as (_ & _ & Hf & _). rewrite Ha in Hf.
        rewrite find_alloc_app in Hf. destruct (find_alloc id (q_allocs q)); [discriminate|].
        unfold find_alloc in Hf. simpl in Hf. rewrite N.eqb_refl in Hf. discriminate.
    + inv H. exists []. rewrite app_nil_r. repeat split; auto; try (intros; contradiction); try constructor;
        match goal with H : In _ [_] |- _ => destruct H as [H|[]]; discriminate end.
    + inv H. exists []. rewrite app_nil_r. repeat split; auto; try (intros; contradiction); try constructor;
        match goal with H : In _ [_] |- _ => destruct H as [H|[]]; discriminate end.
Qed.

(** what a submitting step does to the allocations of all queues *)
Definition grows (s s' : state) (outs : list out) : Prop :=
  (forall qi q' b, get_queue s' qi = Some q' -> In b (q_allocs q') ->
      (exists q, get_queue s qi = Some q /\ In b (q_allocs q))
      \/ (a_status b = Queued 0 /\ exists n, In (EvQueued qi (a_id b) n) outs))
  /\ (forall qi id n q b, In (EvQueued qi id n) outs -> get_queue s qi = Some q -> In b (q_allocs q) -> a_id b <> id)
  /\ (forall qi q b, get_queue s qi = Some q -> In b (q_allocs q) ->
        exists q', get_queue s' qi = Some q' /\ In b (q_allocs q')).

Lemma grows_refl s : grows s s [].
Proof. repeat split; intros; eauto; contradiction. Qed.

Lemma grows_trans s1 s2 s3 o1 o2 : grows s1 s2 o1 -> grows s2 s3 o2 -> grows s1 s3 (o1 ++ o2).
Proof.
  intros (A1 & A2 & A3) (B1 & B2 & B3). repeat split.
  - intros qi q' b G Hb. destruct (B1 _ _ _ G Hb) as [(q2 & G2 & Hb2)|(St & n & Hn)].
    + destruct (A1 _ _ _ G2 Hb2) as [?|(St & n & Hn)]; auto.
      right. split; auto. exists n. apply in_or_app. auto.
    + right. split; auto. exists n. apply in_or_app. auto.
  - intros qi id n q b Hin G Hb. apply in_app_or in Hin. destruct Hin as [Hin|Hin]; [eauto|].
    destruct (A3 _ _ _ G Hb) as (q2 & G2 & Hb2). eauto.
  - intros qi q b G Hb. destruct (A3 _ _ _ G Hb) as (q2 & G2 & Hb2). eauto.
Qed.

Lemma grows_same_allocs s s' :
  (forall qi, option_map q_allocs (get_queue s' qi) = option_map q_allocs (get_queue s qi)) -> grows s s' [].
Proof.
  intros H. repeat split.
  - intros qi q' b G Hb. left. specialize (H qi). rewrite G in H. simpl in H.
    destruct (get_queue s qi) as [q|]; [|discriminate]. inv H. exists q. rewrite <- H1. auto.
  - intros; contradiction.
  - intros qi q b G Hb. specialize (H qi). rewrite G in H. simpl in H.
    destruct (get_queue s' qi) as [q'|]; [|discriminate]. inv H. exists q'. rewrite H1. auto.
Qed.

Lemma try_pause_queue_allocs now q : q_allocs (try_pause_queue now q) = q_allocs q.
Proof.
  unfold try_pause_queue. destruct (negb (q_active q)); auto.
  destruct (submission_status now (q_lim q)); auto.
Qed.

Lemma try_pause_all_grows s : grows s (try_pause_all s) [].
Proof.
  apply grows_same_allocs. intros qi. rewrite get_queue_try_pause_all.
  destruct (get_queue s qi); simpl; auto. now rewrite try_pause_queue_allocs.
Qed.

Lemma queue_try_submit_grows s qj r script s' outs sc :
  queue_try_submit s qj r script = Ok (s', outs, sc) -> grows s s' outs.
Proof.
  unfold queue_try_submit. intros H.
  destruct (resp_is_empty r); [inv H; apply grows_refl|].
  destruct (get_queue s qj) as [q|] eqn:Eq; [|inv H; apply grows_refl].
  destruct (negb (q_active q)); [inv H; apply grows_refl|].
  bind_inv H. destruct x as [|p0 permit]; [inv H; apply grows_refl|].
  destruct (submission_status (s_now s) (q_lim q)); try (inv H; apply grows_refl).
  bind_inv H. destruct x as [[[q1 idx1] outs1] sc1]. inv H.
  destruct (submit_loop_shape _ _ _ _ _ _ _ _ _ Hx0) as (news & Hall & Hnew & Hev & _ & _). simpl in Hall.
  assert (G1 : forall qi, get_queue {| s_queues := update_queue qj (fun _ => q1) (s_queues s); s_index := idx1;
                                      s_next_qid := s_next_qid s; s_now := s_now s |} qi
                          = if qi =? qj then Some q1 else get_queue s qi).
  { intros qi. unfold get_queue; simpl. destruct (qi =? qj) eqn:E.
    - apply N.eqb_eq in E. subst. now apply alookup_update_queue_same with (v := q).
    - apply alookup_update_queue_other. intros ->. rewrite N.eqb_refl in E. discriminate. }
  repeat split.
  - intros qi q' b G Hb. rewrite G1 in G. destruct (qi =? qj) eqn:E.
    + apply N.eqb_eq in E. subst qi. inv G. rewrite Hall in Hb. apply in_app_or in Hb.
      destruct Hb as [Hb|Hb]; [left; eauto|]. right. destruct (Hnew _ Hb) as (St & Hin & _). eauto.
    + left. eauto.
  - intros qi id n q0 b Hin G Hb. destruct (Hev _ _ _ Hin) as [-> Hid].
    rewrite Eq in G. inv G. apply in_map_iff in Hid. destruct Hid as (a & Ha & Hia).
    destruct (Hnew _ Hia) as (_ & _ & Hf & _). intros E. apply find_alloc_none_notin in Hf.
    apply Hf. rewrite Ha, <- E. now apply in_map.
  - intros qi q0 b G Hb. rewrite G1. destruct (qi =? qj) eqn:E.
    + apply N.eqb_eq in E. subst qi. rewrite Eq in G. inv G. exists q1. split; auto.
      rewrite Hall. apply in_or_app. auto.
    + eauto.
Qed.

Lemma submit_queues_grows order : forall s resps scripts s' outs,
  submit_queues s order resps scripts = Ok (s', outs) -> grows s s' outs.
Proof.
  induction order as [|qj order IH]; simpl; intros s resps scripts s' outs H.
  - inv H. apply grows_refl.
  - destruct resps as [|r resps]; [inv H; apply grows_refl|].
    bind_inv H. destruct x as [[s1 o1] sc1]. bind_inv H. destruct x as [s2 o2]. inv H.
    eapply grows_trans; [eapply queue_try_submit_grows; eauto|eauto].
Qed.

Lemma perform_submits_grows s order resps scripts s' outs :
  perform_submits s order resps scripts = Ok (s', outs) -> grows s s' outs.
Proof.
  unfold perform_submits. intros H.
  destruct (negb (perm_of order (active_qids (try_pause_all s)))); [discriminate|].
  destruct (negb (forallb resp_valid resps)); [discriminate|].
  destruct (active_qids (try_pause_all s)); [inv H; apply try_pause_all_grows|].
  bind_inv H. destruct x; [inv H; apply try_pause_all_grows|].
  bind_inv H. bind_inv H. destruct x0 as [s2 o2]. inv H.
  pose proof (grows_trans _ _ _ _ _ (try_pause_all_grows s)
                (grows_trans _ _ _ _ _ (submit_queues_grows _ _ _ _ _ _ Hx1) (try_pause_all_grows s2))) as G.
  simpl in G. now rewrite app_nil_r in G.
Qed.

(** the history list after a submitting step *)
Lemma g_find_new_none q id outs l :
  (forall n, ~ In (EvQueued q id n) outs) -> g_find q id (new_gallocs outs ++ l) = g_find q id l.
Proof.
  unfold g_find. induction outs as [|o outs IH]; simpl; intros H; auto.
  assert (H' : forall n, ~ In (EvQueued q id n) outs) by (intros n Hn; apply (H n); auto).
  destruct o; simpl; auto.
  destruct ((q0 =? q) && (a =? id)) eqn:E; auto.
  apply andb_true_iff in E. destruct E as [E1 E2]. apply N.eqb_eq in E1, E2. subst.
  exfalso. apply (H n). auto.
Qed.

Lemma g_find_new_some q id n outs l :
  In (EvQueued q id n) outs -> g_find q id (new_gallocs outs ++ l) = Some (mkG q id [] []).
Proof.
  unfold g_find. induction outs as [|o outs IH]; simpl; intros H; [contradiction|].
  destruct H as [->|H].
  - simpl. now rewrite !N.eqb_refl.
  - destruct o; simpl; auto.
    destruct ((q0 =? q) && (a =? id)) eqn:E; auto.
    apply andb_true_iff in E. destruct E as [E1 E2]. apply N.eqb_eq in E1, E2. now subst.
Qed.

Lemma ginv_grows s s' outs g g' :
  grows s s' outs -> gh_allocs g' = new_gallocs outs ++ gh_allocs g -> ginv s g -> ginv s' g'.
Proof.
  intros (A1 & A2 & _) Eg I qi q' b G Hb. rewrite Eg.
  destruct (A1 _ _ _ G Hb) as [(q & G0 & Hb0)|(St & n & Hn)].
  - destruct (I _ _ _ G0 Hb0) as (ga & F & A). exists ga. split; auto.
    rewrite g_find_new_none; auto. intros n Hn. apply (A2 _ _ _ _ _ Hn G0 Hb0). reflexivity.
  - exists (mkG qi (a_id b) [] []). split; [eapply g_find_new_some; eauto|].
    unfold accounting_ok. rewrite St. reflexivity.
Qed.

(** frame steps *)
Lemma qpres_same_allocs q q' : q_allocs q' = q_allocs q -> qpres q q'.
Proof. intros E b Hb. exists b. rewrite <- E. repeat split; auto. intros ga; auto. Qed.

Lemma spres_same_allocs s s' :
  (forall qi q', get_queue s' qi = Some q' -> exists q, get_queue s qi = Some q /\ q_allocs q' = q_allocs q) ->
  spres s s'.
Proof.
  intros H qi q' b G Hb. destruct (H _ _ G) as (q & G0 & E). exists q, b. rewrite <- E.
  repeat split; auto. intros ga; auto.
Qed.

(** ** C18: in every reachable state the accounting of every allocation agrees with its history *)
Theorem reach_ginv s g : Reach s g -> ginv s g.
Proof.
  induction 1 as [q0|s g o s' outs R IH H].
  - intros qi q a G. unfold get_queue in G. simpl in G. discriminate.
  - pose proof (reach_sinv _ _ R) as Hs.
    destruct o; simpl in H.
    + (* add queue *)
      eapply ginv_frame; [| |exact IH].
      * destruct lim as [[[delays sf] af]|]; [destruct delays; [discriminate|]|]; inv H;
          (intros qi q' b G Hb; unfold get_queue in G; simpl in G;
           destruct (alookup qi (s_queues s)) as [q|] eqn:E;
           [rewrite (alookup_app_some _ _ _ _ E) in G; inv G; exists q', b; repeat split; auto; intros ga; auto
           |exfalso; clear - G Hb E; induction (s_queues s) as [|[k v] l IHl]; simpl in *;
              [destruct (s_next_qid s =? qi); [inv G; destruct Hb|discriminate]
              |destruct (k =? qi); [discriminate|auto]]]).
      * destruct lim as [[[delays sf] af]|]; [destruct delays; [discriminate|]|]; inv H; reflexivity.
    + (* tick *)
      eapply ginv_grows; [eapply perform_submits_grows; eauto| |exact IH]. reflexivity.
    + (* try *)
      destruct (negb (resp_valid r)); [discriminate|]. bind_inv H. destruct x as [[s1 o1] sc]. inv H.
      eapply ginv_grows; [eapply queue_try_submit_grows; eauto| |exact IH]. reflexivity.
    + (* refresh *)
      unfold do_periodic_update in H. destruct (negb (perm_of _ _)); [discriminate|].
      eapply ginv_frame; [eapply periodic_loop_spres; eauto| |exact IH].
      simpl. rewrite (status_events_no_new _ (periodic_loop_status_events _ _ _ _ _ H)). reflexivity.
    + (* connect *)
      destruct (worker_event s a (RConnected w)) as [s1 o1] eqn:Ew. inv H.
      eapply (ginv_worker_event s g a (RConnected w) s' o1 (g_add_conn w)); eauto using g_add_conn_keys.
      * intros. eapply connect_accounting; eauto.
      * simpl. rewrite (status_events_no_new _ (worker_event_status_events _ _ _ _ _ Ew)). reflexivity.
    + (* lost *)
      destruct (worker_event s a (RLost w crashed)) as [s1 o1] eqn:Ew. inv H.
      eapply (ginv_worker_event s g a (RLost w crashed) s' o1 (g_add_lost w)); eauto using g_add_lost_keys.
      * intros. eapply lost_accounting; eauto.
      * simpl. rewrite (status_events_no_new _ (worker_event_status_events _ _ _ _ _ Ew)). reflexivity.
    + inv H. eapply ginv_frame; [apply spres_refl|reflexivity|exact IH].
    + (* pause *)
      destruct (get_queue s q) as [v|] eqn:Eq; inv H; (eapply ginv_frame; [|reflexivity|exact IH]).
      * eapply spres_set_queue; eauto. apply qpres_same_allocs. reflexivity.
      * apply spres_refl.
    + (* resume *)
      destruct (get_queue s q) as [v|] eqn:Eq; inv H; (eapply ginv_frame; [|reflexivity|exact IH]).
      * eapply spres_set_queue; eauto. apply qpres_same_allocs. reflexivity.
      * apply spres_refl.
    + (* remove *)
      unfold remove_queue in H. destruct (get_queue s q) as [v|] eqn:Eq.
      2:{ inv H. eapply ginv_frame; [apply spres_refl|reflexivity|exact IH]. }
      destruct (existsb is_running (q_allocs v) && negb force).
      { inv H. eapply ginv_frame; [apply spres_refl|reflexivity|exact IH]. }
      bind_inv H. inv H. eapply ginv_frame; [| |exact IH].
      * apply spres_same_allocs. intros qi q' G. unfold get_queue in *; simpl in G.
        destruct (N.eq_dec qi q) as [->|Hne]; [rewrite alookup_filter_same in G; discriminate|].
        rewrite alookup_filter_other in G; auto. eauto.
      * assert (E : forall l, new_gallocs (map (fun a => OutRemove q (a_id a)) l ++ [EvQueueRemoved q]) = []).
        { induction l; simpl; auto. }
        unfold ghost_step. cbn [gh_allocs new_gallocs]. rewrite E. reflexivity.
    + inv H. eapply ginv_frame; [|reflexivity|exact IH]. apply spres_same_allocs. intros qi q' G. eauto.
Qed.

(** ** C18: while an allocation runs its connected workers are exactly those that connected from
    it and have not been lost; its disconnected workers are exactly those lost from it *)
Theorem connected_exact s g qi q a e conn disc :
  Reach s g -> get_queue s qi = Some q -> In a (q_allocs q) -> a_status a = Running e conn disc ->
  exists ga, g_find qi (a_id a) (gh_allocs g) = Some ga
    /\ (forall w, In w conn <-> In w (g_conn ga) /\ ~ In w (g_lost ga))
    /\ NoDup conn
    /\ (forall w, In w (map fst disc) <-> In w (g_lost ga))
    /\ NoDup (map fst disc).
Proof.
  intros R G Ha St. destruct (reach_ginv _ _ R _ _ _ G Ha) as (ga & F & A).
  exists ga. split; auto. unfold accounting_ok in A. rewrite St in A.
  rewrite !andb_true_iff in A. destruct A as [_ [[[[A B] C] D] E]].
  rewrite set_eq_spec in A, C. rewrite nodupb_spec in B, D.
  repeat split; auto; try (intros; apply C; auto).
  - apply A in H. apply in_diff in H. tauto.
  - apply A in H. apply in_diff in H. tauto.
  - intros [H1 H2]. apply A. apply in_diff. auto.
Qed.

From Coq Require Import Permutation.

Lemma nodup_set_eq_length (l1 l2 : list N) :
  NoDup l1 -> NoDup l2 -> (forall x, In x l1 <-> In x l2) -> length l1 = length l2.
Proof. intros N1 N2 H. apply Permutation_length. now apply NoDup_Permutation. Qed.

(** ** C18: a running allocation has fewer distinct lost workers than its size, a normally
    finished one exactly as many *)
Theorem finish_iff_all_lost_state s g qi q a :
  Reach s g -> get_queue s qi = Some q -> In a (q_allocs q) ->
  exists ga, g_find qi (a_id a) (gh_allocs g) = Some ga /\ NoDup (g_lost ga)
    /\ match a_status a with
       | Queued _ => g_lost ga = [] /\ g_conn ga = []
       | Running _ _ disc => N.of_nat (length (g_lost ga)) < a_target a /\ length disc = length (g_lost ga)
       | Finished disc => N.of_nat (length disc) = a_target a /\ NoDup (map fst disc)
       | FinishedU _ _ _ => True
       end.
Proof.
  intros R G Ha. destruct (reach_ginv _ _ R _ _ _ G Ha) as (ga & F & A).
  exists ga. split; auto. unfold accounting_ok in A. apply andb_true_iff in A. destruct A as [HN A].
  apply nodupb_spec in HN. split; auto.
  destruct (a_status a) as [e|e conn disc|disc|conn disc f]; auto.
  - destruct (g_conn ga); [|discriminate]. destruct (g_lost ga); [|discriminate]. auto.
  - rewrite !andb_true_iff in A. destruct A as [[[[A B] C] D] E].
    rewrite set_eq_spec in C. rewrite nodupb_spec in D.
    pose proof (nodup_set_eq_length _ _ D HN C) as L. rewrite map_length in L.
    split; [|exact L]. replace (length (g_lost ga)) with (length disc) by (exact L).
    unfold disc_count in E. lia.
  - rewrite andb_true_iff in A. destruct A as [D E]. apply nodupb_spec in D.
    unfold disc_count in E. split; [lia|exact D].
Qed.

(** ... and the step at which it finishes normally is exactly the loss notification that makes the
    number of distinct lost workers reach its size *)
Theorem finish_exactly_when qi a ga w c a' evs fin e conn disc :
  accounting_ok a ga = true -> a_status a = Running e conn disc ->
  sync_alloc qi a (RLost w c) = (a', evs, fin) ->
  ((exists d, a_status a' = Finished d) <-> N.of_nat (length (add_set w (g_lost ga))) = a_target a).
Proof.
  intros A St H. unfold accounting_ok in A. rewrite St in A. rewrite !andb_true_iff in A.
  destruct A as [HN [[[[A B] C] D] E]]. apply nodupb_spec in HN, D. rewrite set_eq_spec in C.
  assert (L : disc_count (map_insert w c disc) = N.of_nat (length (add_set w (g_lost ga)))).
  { unfold disc_count. f_equal. rewrite <- (map_length fst).
    apply nodup_set_eq_length; auto using nodup_map_insert_keys, nodup_add_set.
    intros x. rewrite in_map_insert_keys, in_add_set, C. tauto. }
  unfold sync_alloc in H. rewrite St in H. rewrite L in H.
  destruct (N.of_nat (length (add_set w (g_lost ga))) =? a_target a) eqn:Eq; inv H; simpl.
  - split; [intros _; lia|eauto].
  - split; [intros [d Hd]; discriminate|lia].
Qed.

Lemma only_loss_finishes_normally qi a r a' evs fin d :
  sync_alloc qi a r = (a', evs, fin) -> a_status a' = Finished d ->
  (exists d0, a_status a = Finished d0) \/ (exists w c, r = RLost w c).
Proof.
  unfold sync_alloc. destruct r; destruct (a_status a) eqn:St; simpl; intros H Hd;
    repeat match type of H with context [if ?c then _ else _] => destruct c end;
    inv H; simpl in *; try rewrite St in *; try discriminate; eauto.
Qed.

Lemma status_errors_never_finish_normally qi a a' evs d :
  increase_status_error_counter qi a = (a', evs) -> a_status a' = Finished d ->
  exists d0, a_status a = Finished d0.
Proof.
  unfold increase_status_error_counter. destruct (a_status a) eqn:St; intros H Hd;
    repeat match type of H with context [if ?c then _ else _] => destruct c end;
    inv H; simpl in *; try rewrite St in *; try discriminate; eauto.
Qed.

(** ** Finding F15 (before the fix): a worker whose loss was processed before its connection was
    re-inserted into the connected set, and a loss for a queued allocation was dropped *)
Lemma F15_unfixed_refuted :
  (exists a ga w a' evs fin,
      accounting_ok a ga = true /\ sync_alloc_unfixed 1 a (RConnected w) = (a', evs, fin)
      /\ accounting_ok a' (g_add_conn w ga) = false
      /\ (forall a2 e2 f2, sync_alloc 1 a (RConnected w) = (a2, e2, f2) -> accounting_ok a2 (g_add_conn w ga) = true))
  /\ (exists a ga w a' evs fin,
      accounting_ok a ga = true /\ sync_alloc_unfixed 1 a (RLost w false) = (a', evs, fin)
      /\ accounting_ok a' (g_add_lost w ga) = false
      /\ (forall a2 e2 f2, sync_alloc 1 a (RLost w false) = (a2, e2, f2) -> accounting_ok a2 (g_add_lost w ga) = true)).
Proof.
  split.
  - exists (mkAlloc 1 2 (Running 0 [1] [(2, false)])), (mkG 1 1 [1] [2]), 2.
    eexists. eexists. eexists. split; [reflexivity|]. split; [reflexivity|]. split; [reflexivity|].
    intros a2 e2 f2 H. inv H. reflexivity.
  - exists (mkAlloc 1 2 (Queued 0)), (mkG 1 1 [] []), 2.
    eexists. eexists. eexists. split; [reflexivity|]. split; [reflexivity|]. split; [reflexivity|].
    intros a2 e2 f2 H. inv H. reflexivity.
Qed.
