(** C18 (events) - the start of an allocation is announced at most once, its end exactly once,
    after the start if any; AllocationQueued exactly once. *)
From HQ Require Import Base.Prelude Gen.Consts Autoalloc.Model Autoalloc.Spec Autoalloc.Lemmas Autoalloc.Trans Autoalloc.ProofsC17 Autoalloc.ProofsC18 Autoalloc.ProofsIndex.
From Coq Require Import ZifyBool ZifyN ZifyNat Lia.
Open Scope N_scope.
Arguments N.add : simpl never.
Arguments N.sub : simpl never.
Arguments N.mul : simpl never.
Arguments N.eqb : simpl never.
Arguments N.ltb : simpl never.
Arguments N.leb : simpl never.
Arguments N.of_nat : simpl never.

Definition cq qi id l := count_ev (is_queued_ev qi id) l.
Definition cs qi id l := count_ev (is_started qi id) l.
Definition cf qi id l := count_ev (is_fin_ev qi id) l.
Notation nsaf := no_start_after_finish.

Lemma count_ev_app f l1 l2 : count_ev f (l1 ++ l2) = count_ev f l1 + count_ev f l2.
Proof. induction l1 as [|o l IH]; simpl; [lia|]. rewrite IH. lia. Qed.

Lemma nsaf_app qi id l1 l2 :
  nsaf qi id (l1 ++ l2) = true <->
  nsaf qi id l1 = true /\ nsaf qi id l2 = true /\ (cf qi id l1 = 0 \/ cs qi id l2 = 0).
Proof.
  induction l1 as [|o l IH]; simpl.
  - unfold cf; simpl. split; [intros H; repeat split; auto|tauto].
  - unfold cf, cs in *. simpl. destruct (is_fin_ev qi id o) eqn:E.
    + rewrite !andb_true_iff, IH, count_ev_app. split.
      * intros (H1 & H2 & H3 & H4). split; [split; [lia|exact H2]|]. split; [exact H3|]. right. lia.
      * intros ((H1 & H2) & H3 & H4). destruct H4 as [H4|H4]; [lia|].
        split; [lia|]. split; [exact H2|]. split; [exact H3|]. right; exact H4.
    + rewrite IH. replace (0 + count_ev (is_fin_ev qi id) l) with (count_ev (is_fin_ev qi id) l) by lia. tauto.
Qed.

(** an output that does not concern allocation (qi, id) *)
Definition about (qi : qid) (id : aid) (o : out) : bool :=
  is_queued_ev qi id o || is_started qi id o || is_fin_ev qi id o.
Definition noabout qi id (l : list out) : Prop := Forall (fun o => about qi id o = false) l.

Lemma noabout_counts qi id l : noabout qi id l -> cq qi id l = 0 /\ cs qi id l = 0 /\ cf qi id l = 0 /\ nsaf qi id l = true.
Proof.
  unfold cq, cs, cf. induction 1 as [|o l Ho _ IH]; simpl; [auto|].
  unfold about in Ho. rewrite !orb_false_iff in Ho. destruct Ho as [[H1 H2] H3]. rewrite H1, H2, H3.
  destruct IH as (A & B & C & D). repeat split; auto; lia.
Qed.

Lemma noabout_app qi id l1 l2 : noabout qi id l1 -> noabout qi id l2 -> noabout qi id (l1 ++ l2).
Proof. unfold noabout. intros. apply Forall_app. auto. Qed.

(** the event history of allocation (qi, a) is consistent with its status *)
Definition evok (evs : list out) (qi : qid) (a : alloc) : Prop :=
  cq qi (a_id a) evs = 1 /\ cs qi (a_id a) evs <= 1
  /\ (rank (a_status a) = 0 -> cs qi (a_id a) evs = 0)
  /\ cf qi (a_id a) evs = (if is_finished a then 1 else 0)
  /\ nsaf qi (a_id a) evs = true.

Definition silent qi id evs : Prop := cq qi id evs = 0 /\ cs qi id evs = 0 /\ cf qi id evs = 0.

Lemma evok_events_ok evs qi a : evok evs qi a -> events_ok evs qi a = true.
Proof.
  intros (A & B & _ & D & E). unfold events_ok. fold (cq qi (a_id a) evs) (cs qi (a_id a) evs) (cf qi (a_id a) evs).
  rewrite A, D, E. rewrite !andb_true_iff. repeat split; auto; try lia; destruct (is_finished a); reflexivity.
Qed.

Lemma evok_app_quiet evs outs qi a : evok evs qi a -> noabout qi (a_id a) outs -> evok (evs ++ outs) qi a.
Proof.
  intros (A & B & C & D & E) Q. destruct (noabout_counts _ _ _ Q) as (Q1 & Q2 & Q3 & Q4).
  unfold evok, cq, cs, cf in *. rewrite !count_ev_app.
  split; [lia|]. split; [lia|]. split; [intros H; specialize (C H); lia|]. split; [lia|].
  apply nsaf_app. unfold cf, cs. repeat split; auto.
Qed.

Lemma silent_app_quiet evs outs qi id : silent qi id evs -> noabout qi id outs -> silent qi id (evs ++ outs).
Proof.
  intros (A & B & C) Q. destruct (noabout_counts _ _ _ Q) as (Q1 & Q2 & Q3 & _).
  unfold silent, cq, cs, cf in *. rewrite !count_ev_app. lia.
Qed.

(** * one allocation *)
Lemma about_started_other qi id qj idj : (qj <> qi \/ idj <> id) -> about qj idj (EvStarted qi id) = false.
Proof.
  intros H. unfold about; simpl. destruct (qi =? qj) eqn:E1; simpl; auto. destruct (id =? idj) eqn:E2; simpl; auto.
  apply N.eqb_eq in E1, E2. subst. tauto.
Qed.
Lemma about_finished_other qi id qj idj : (qj <> qi \/ idj <> id) -> about qj idj (EvFinished qi id) = false.
Proof.
  intros H. unfold about; simpl. destruct (qi =? qj) eqn:E1; simpl; auto. destruct (id =? idj) eqn:E2; simpl; auto.
  apply N.eqb_eq in E1, E2. subst. tauto.
Qed.
Lemma about_queued_other qi id n qj idj : (qj <> qi \/ idj <> id) -> about qj idj (EvQueued qi id n) = false.
Proof.
  intros H. unfold about; simpl. destruct (qi =? qj) eqn:E1; simpl; auto. destruct (id =? idj) eqn:E2; simpl; auto.
  apply N.eqb_eq in E1, E2. subst. tauto.
Qed.

(** outputs that are all start / finish events of the one allocation (qi, id) *)
Definition evs_of (qi : qid) (id : aid) (l : list out) : Prop :=
  Forall (fun o => o = EvStarted qi id \/ o = EvFinished qi id) l.

Lemma evs_of_noabout qi id l qj idj : evs_of qi id l -> (qj <> qi \/ idj <> id) -> noabout qj idj l.
Proof.
  intros H Hne. induction H as [|o l Ho _ IH]; constructor; auto.
  destruct Ho as [->| ->]; [now apply about_started_other|now apply about_finished_other].
Qed.

Lemma counts_started qi id : cq qi id [EvStarted qi id] = 0 /\ cs qi id [EvStarted qi id] = 1 /\ cf qi id [EvStarted qi id] = 0.
Proof. unfold cq, cs, cf; simpl. rewrite !N.eqb_refl. simpl. repeat split; lia. Qed.
Lemma counts_finished qi id : cq qi id [EvFinished qi id] = 0 /\ cs qi id [EvFinished qi id] = 0 /\ cf qi id [EvFinished qi id] = 1.
Proof. unfold cq, cs, cf; simpl. rewrite !N.eqb_refl. simpl. repeat split; lia. Qed.

(** the four possible event outputs of one synchronisation and what they do to [evok] *)
Lemma evok_nothing evs qi a a' :
  evok evs qi a -> a_id a' = a_id a -> is_finished a' = is_finished a ->
  (rank (a_status a') = 0 -> rank (a_status a) = 0) -> evok (evs ++ []) qi a'.
Proof.
  intros (A & B & C & D & E) Hid Hf Hr. rewrite app_nil_r. unfold evok. rewrite Hid, Hf. repeat split; auto.
Qed.

Lemma evok_start evs qi a a' :
  evok evs qi a -> a_id a' = a_id a -> rank (a_status a) = 0 -> rank (a_status a') = 1 ->
  evok (evs ++ [EvStarted qi (a_id a)]) qi a'.
Proof.
  intros (A & B & C & D & E) Hid H0 H1. destruct (counts_started qi (a_id a)) as (S1 & S2 & S3).
  assert (Hf : is_finished a = false) by (unfold is_finished; rewrite H0; reflexivity).
  assert (Hf' : is_finished a' = false) by (unfold is_finished; rewrite H1; reflexivity).
  unfold evok, cq, cs, cf in *. rewrite Hid, Hf', !count_ev_app. rewrite Hf in D. specialize (C H0).
  split; [lia|]. split; [lia|]. split; [intros; lia|]. split; [lia|].
  apply nsaf_app. unfold cf, cs. split; [exact E|]. split; [reflexivity|]. left. exact D.
Qed.

Lemma evok_finish evs qi a a' :
  evok evs qi a -> a_id a' = a_id a -> is_finished a = false -> is_finished a' = true ->
  evok (evs ++ [EvFinished qi (a_id a)]) qi a'.
Proof.
  intros (A & B & C & D & E) Hid H0 H1. destruct (counts_finished qi (a_id a)) as (S1 & S2 & S3).
  unfold evok, cq, cs, cf in *. rewrite Hid, H1, !count_ev_app. rewrite H0 in D.
  split; [lia|]. split; [lia|].
  split; [intros Hr; unfold is_finished in H1; rewrite Hr in H1; discriminate|]. split; [lia|].
  apply nsaf_app. unfold cf, cs. split; [exact E|]. split; [|right; exact S2].
  simpl. rewrite !N.eqb_refl. reflexivity.
Qed.

Lemma evok_start_finish evs qi a a' :
  evok evs qi a -> a_id a' = a_id a -> rank (a_status a) = 0 -> is_finished a' = true ->
  evok (evs ++ [EvStarted qi (a_id a); EvFinished qi (a_id a)]) qi a'.
Proof.
  intros H Hid H0 H1.
  set (am := mkAlloc (a_id a) (a_target a) (Running 0 [] [])).
  assert (Hm : evok (evs ++ [EvStarted qi (a_id a)]) qi am) by (apply evok_start; auto).
  pose proof (evok_finish _ qi am a' Hm Hid eq_refl H1) as Hf. simpl in Hf.
  now rewrite <- app_assoc in Hf.
Qed.

(** one [sync_alloc] + the finish event appended by [sync_allocation_status] *)
Definition fin_events (qi : qid) (id : aid) (fin : option fin_kind) : list out :=
  match fin with Some _ => [EvFinished qi id] | None => [] end.

Lemma sync_alloc_evok qi a r a' evs_a fin evs :
  1 <= a_target a ->
  sync_alloc qi a r = (a', evs_a, fin) -> evok evs qi a ->
  evok (evs ++ evs_a ++ fin_events qi (a_id a) fin) qi a' /\ evs_of qi (a_id a) (evs_a ++ fin_events qi (a_id a) fin).
Proof.
  intros Ht H E. unfold sync_alloc in H. destruct a as [id tg st]. simpl in *.
  assert (Nothing : forall st', (rank st' = 0 -> rank st = 0) -> (rank st' =? 2) = (rank st =? 2) ->
            evok (evs ++ [] ++ []) qi (mkAlloc id tg st') /\ evs_of qi id ([] ++ [])).
  { intros st' H1 H2. split; [|constructor]. simpl. apply (evok_nothing evs qi (mkAlloc id tg st)); auto. }
  destruct r; destruct st as [e|e conn disc|disc|conn disc f]; simpl in H;
    repeat match type of H with context [if ?c then _ else _] => destruct c eqn:? end;
    inv H; simpl fin_events;
    try (apply Nothing; simpl; auto; try discriminate; fail).
  all: split; [|repeat (apply Forall_cons; [first [left; reflexivity | right; reflexivity]|]); apply Forall_nil].
  all: simpl; match goal with E : evok _ _ ?a0 |- _ =>
         first [ apply (evok_start evs qi a0); auto; fail
               | apply (evok_start_finish evs qi a0); auto; fail
               | apply (evok_finish evs qi a0); auto; fail ] end.
Qed.

Lemma bump_evok qi a a' evs_a evs :
  increase_status_error_counter qi a = (a', evs_a) -> evok evs qi a ->
  evok (evs ++ evs_a) qi a' /\ evs_of qi (a_id a) evs_a.
Proof.
  intros H E. unfold increase_status_error_counter in H. destruct a as [id tg st]. simpl in *.
  assert (Nothing : forall st', (rank st' = 0 -> rank st = 0) -> (rank st' =? 2) = (rank st =? 2) ->
            evok (evs ++ []) qi (mkAlloc id tg st') /\ evs_of qi id []).
  { intros st' H1 H2. split; [|constructor]. apply (evok_nothing evs qi (mkAlloc id tg st)); auto. }
  destruct st as [e|e conn disc|disc|conn disc f]; simpl in H;
    repeat match type of H with context [if ?c then _ else _] => destruct c eqn:? end;
    inv H; try (apply Nothing; simpl; auto; try discriminate; fail).
  all: split; [|repeat (apply Forall_cons; [first [left; reflexivity | right; reflexivity]|]); apply Forall_nil].
  all: simpl; match goal with E : evok _ _ ?a0 |- _ => apply (evok_finish evs qi a0); auto end.
Qed.

(** * one queue *)
Definition qeinv (qi : qid) (q : queue) (evs : list out) : Prop :=
  (forall a, In a (q_allocs q) -> evok evs qi a)
  /\ (forall id, ~ In id (qids q) -> silent qi id evs).

(** outputs that only concern allocations of queue [qi] with ids in [ids] *)
Definition only_about (qi : qid) (ids : list aid) (outs : list out) : Prop :=
  forall qj idj, (qj <> qi \/ ~ In idj ids) -> noabout qj idj outs.

Lemma only_about_app qi ids l1 l2 : only_about qi ids l1 -> only_about qi ids l2 -> only_about qi ids (l1 ++ l2).
Proof. intros H1 H2 qj idj Hne. apply noabout_app; auto. Qed.

Lemma only_about_nil qi ids : only_about qi ids [].
Proof. intros qj idj _. constructor. Qed.

Lemma evs_of_only_about qi id ids l : evs_of qi id l -> In id ids -> only_about qi ids l.
Proof.
  intros H Hin qj idj Hne. eapply evs_of_noabout; eauto.
  destruct Hne as [Hne|Hne]; auto. right. intros ->. contradiction.
Qed.

(** updating one allocation of a queue *)
Lemma qeinv_update qi q id a a' evs outs :
  ids_nodup q -> find_alloc id (q_allocs q) = Some a -> a_id a' = a_id a ->
  qeinv qi q evs -> evok (evs ++ outs) qi a' -> evs_of qi id outs ->
  qeinv qi (set_allocs (update_alloc id (fun _ => a') (q_allocs q)) q) (evs ++ outs).
Proof.
  intros ND Hf Hid (E1 & E2) Hok Hev. pose proof (find_alloc_in _ _ _ Hf) as [Ha Hida].
  split.
  - intros b Hb. simpl in Hb. apply in_update_alloc in Hb. destruct Hb as [[-> _]|[Hb Hne]]; auto.
    apply evok_app_quiet; auto. eapply evs_of_noabout; eauto.
  - intros idj Hn. apply silent_app_quiet.
    + apply E2. intros Hin. apply Hn. unfold qids in *. simpl. rewrite update_alloc_const_ids; auto. congruence.
    + eapply evs_of_noabout; eauto. right. intros ->. apply Hn. unfold qids; simpl.
      rewrite update_alloc_const_ids; [|congruence]. rewrite <- Hida. now apply in_map.
Qed.

Lemma set_lim_qeinv qi q l evs : qeinv qi q evs -> qeinv qi (set_lim l q) evs.
Proof. intros H. exact H. Qed.

Lemma sync_allocation_status_qeinv qi q id r q' outs evs :
  qinv2 q -> sync_allocation_status qi q id r = (q', outs) -> qeinv qi q evs ->
  qeinv qi q' (evs ++ outs) /\ only_about qi (qids q) outs.
Proof.
  intros Hq H E. unfold sync_allocation_status in H.
  destruct (find_alloc id (q_allocs q)) as [a|] eqn:Ef.
  2:{ inv H. rewrite app_nil_r. split; auto. apply only_about_nil. }
  destruct (sync_alloc qi a r) as [[a' evs_a] fin] eqn:Es.
  pose proof (find_alloc_in _ _ _ Ef) as [Ha Hida].
  assert (Ht : 1 <= a_target a) by (apply (qinv2_sizes_pos _ Hq); auto).
  destruct (sync_alloc_evok _ _ _ _ _ _ evs Ht Es (proj1 E _ Ha)) as [Hok Hev]. rewrite Hida in *.
  pose proof (sync_alloc_trans _ _ _ _ _ _ Es) as (Hid' & _).
  assert (R : qeinv qi (set_allocs (update_alloc id (fun _ => a') (q_allocs q)) q) (evs ++ evs_a ++ fin_events qi id fin)).
  { eapply qeinv_update; eauto. apply Hq. }
  assert (O : only_about qi (qids q) (evs_a ++ fin_events qi id fin)).
  { eapply evs_of_only_about; eauto. unfold qids. rewrite <- Hida. now apply in_map. }
  destruct fin as [[|]|]; inv H; simpl in *; try rewrite app_nil_r in *; auto.
Qed.

Lemma bump_qeinv qi q id evs :
  qinv2 q -> qeinv qi q evs ->
  let r := match find_alloc id (q_allocs q) with
           | Some a => let '(a', evs_a) := increase_status_error_counter qi a in
                       (set_allocs (update_alloc id (fun _ => a') (q_allocs q)) q, evs_a)
           | None => (q, [])
           end in
  qeinv qi (fst r) (evs ++ snd r) /\ only_about qi (qids q) (snd r).
Proof.
  intros Hq E. destruct (find_alloc id (q_allocs q)) as [a|] eqn:Ef.
  2:{ simpl. rewrite app_nil_r. split; auto. apply only_about_nil. }
  destruct (increase_status_error_counter qi a) as [a' evs_a] eqn:Ei. simpl.
  pose proof (find_alloc_in _ _ _ Ef) as [Ha Hida].
  destruct (bump_evok _ _ _ _ evs Ei (proj1 E _ Ha)) as [Hok Hev]. rewrite Hida in *.
  pose proof (bump_trans _ _ _ _ Ei) as (Hid' & _).
  split.
  - eapply qeinv_update; eauto. apply Hq.
  - eapply evs_of_only_about; eauto. unfold qids. rewrite <- Hida. now apply in_map.
Qed.

Lemma only_about_ids qi ids ids' l : only_about qi ids l -> (forall x, In x ids -> In x ids') -> only_about qi ids' l.
Proof. intros H Hs qj idj [Hne|Hne]; apply H; auto. Qed.

Lemma refresh_loop_qeinv qi sts : forall q q' outs evs,
  qinv2 q -> refresh_loop qi q sts = (q', outs) -> qeinv qi q evs ->
  qeinv qi q' (evs ++ outs) /\ only_about qi (qids q) outs.
Proof.
  induction sts as [|[id x] rest IH]; simpl; intros q q' outs evs Hq H E.
  - inv H. rewrite app_nil_r. split; auto. apply only_about_nil.
  - destruct (reason_of x) as [r|] eqn:Er.
    + destruct (sync_allocation_status qi q id r) as [q1 o1] eqn:Es.
      destruct (refresh_loop qi q1 rest) as [q2 o2] eqn:El. inv H.
      destruct (sync_allocation_status_qeinv _ _ _ _ _ _ evs Hq Es E) as [E1 O1].
      pose proof (sync_allocation_status_le _ _ _ _ _ _ (proj2 Hq) Es) as Hle.
      destruct (IH _ _ _ (evs ++ o1) (queue_le_qinv2 _ _ Hle Hq) El E1) as [E2 O2].
      rewrite app_assoc. split; auto. apply only_about_app; auto.
      rewrite (queue_le_qids _ _ Hle) in O2. exact O2.
    + pose proof (bump_qeinv qi q id evs Hq E) as B. pose proof (bump_le qi q id (proj2 Hq)) as Hle.
      destruct (find_alloc id (q_allocs q)) as [a|] eqn:Ef.
      * destruct (increase_status_error_counter qi a) as [a' evs_a] eqn:Ei. simpl in *.
        destruct (refresh_loop qi _ rest) as [q2 o2] eqn:El. inv H. destruct B as [E1 O1].
        destruct (IH _ _ _ (evs ++ evs_a) (queue_le_qinv2 _ _ Hle Hq) El E1) as [E2 O2].
        rewrite app_assoc. split; auto. apply only_about_app; auto.
        rewrite (queue_le_qids _ _ Hle) in O2. exact O2.
      * simpl in *. destruct (refresh_loop qi q rest) as [q2 o2] eqn:El. inv H. simpl. eauto.
Qed.

Lemma refresh_err_loop_qeinv qi order : forall q q' outs evs,
  qinv2 q -> refresh_err_loop qi q order = (q', outs) -> qeinv qi q evs ->
  qeinv qi q' (evs ++ outs) /\ only_about qi (qids q) outs.
Proof.
  induction order as [|id rest IH]; simpl; intros q q' outs evs Hq H E.
  - inv H. rewrite app_nil_r. split; auto. apply only_about_nil.
  - pose proof (bump_qeinv qi q id evs Hq E) as B. pose proof (bump_le qi q id (proj2 Hq)) as Hle.
    destruct (find_alloc id (q_allocs q)) as [a|] eqn:Ef.
    + destruct (increase_status_error_counter qi a) as [a' evs_a] eqn:Ei. simpl in *.
      destruct (refresh_err_loop qi _ rest) as [q2 o2] eqn:El. inv H. destruct B as [E1 O1].
      destruct (IH _ _ _ (evs ++ evs_a) (queue_le_qinv2 _ _ Hle Hq) El E1) as [E2 O2].
      rewrite app_assoc. split; auto. apply only_about_app; auto.
      rewrite (queue_le_qids _ _ Hle) in O2. exact O2.
    + simpl in *. destruct (refresh_err_loop qi q rest) as [q2 o2] eqn:El. inv H. simpl. eauto.
Qed.

(** * states *)
Definition einv (s : state) (evs : list out) : Prop :=
  (forall qi q, get_queue s qi = Some q -> qeinv qi q evs)
  /\ (forall qi id, get_queue s qi = None -> s_next_qid s <= qi -> silent qi id evs).

Definition only_queue (qi : qid) (outs : list out) : Prop :=
  forall qj idj, qj <> qi -> noabout qj idj outs.

Lemma only_about_queue qi ids outs : only_about qi ids outs -> only_queue qi outs.
Proof. intros H qj idj Hne. apply H. auto. Qed.

Lemma qeinv_app_quiet qi q evs outs :
  qeinv qi q evs -> (forall id, noabout qi id outs) -> qeinv qi q (evs ++ outs).
Proof.
  intros (E1 & E2) Q. split.
  - intros a Ha. apply evok_app_quiet; auto.
  - intros id Hn. apply silent_app_quiet; auto.
Qed.

Lemma qeinv_same_allocs qi q q' evs : q_allocs q' = q_allocs q -> qeinv qi q evs -> qeinv qi q' evs.
Proof. intros E (E1 & E2). unfold qeinv, qids. rewrite E. auto. Qed.

Lemma einv_app_quiet s evs outs :
  einv s evs -> (forall qi id, noabout qi id outs) -> einv s (evs ++ outs).
Proof.
  intros (E1 & E2) Q. split.
  - intros qi q G. apply qeinv_app_quiet; auto.
  - intros qi id G Hn. apply silent_app_quiet; auto.
Qed.

Lemma einv_set_queue s qi q q' evs outs :
  get_queue s qi = Some q -> einv s evs -> qeinv qi q' (evs ++ outs) -> only_queue qi outs ->
  einv (set_queue s qi q') (evs ++ outs).
Proof.
  intros G (E1 & E2) Hq O. split.
  - intros qj v Gj. destruct (N.eq_dec qj qi) as [->|Hne].
    + rewrite (get_queue_set_queue_same _ _ _ _ G) in Gj. now inv Gj.
    + rewrite get_queue_set_queue_other in Gj; auto. apply qeinv_app_quiet; auto.
  - intros qj id Gj Hn. simpl in Hn. destruct (N.eq_dec qj qi) as [->|Hne].
    + rewrite (get_queue_set_queue_same _ _ _ _ G) in Gj. discriminate.
    + rewrite get_queue_set_queue_other in Gj; auto. apply silent_app_quiet; auto.
Qed.

Lemma einv_same_allocs s s' evs :
  s_next_qid s' = s_next_qid s ->
  (forall qi, match get_queue s' qi with
              | Some q' => exists q, get_queue s qi = Some q /\ q_allocs q' = q_allocs q
              | None => get_queue s qi = None
              end) ->
  einv s evs -> einv s' evs.
Proof.
  intros En H (E1 & E2). split.
  - intros qi q' G. specialize (H qi). rewrite G in H. destruct H as (q & G0 & E).
    eapply qeinv_same_allocs; eauto.
  - intros qi id G Hn. specialize (H qi). rewrite G in H. rewrite En in Hn. auto.
Qed.

(** refresh / worker notifications *)
Lemma refresh_queue_allocations_einv s qj w s' outs evs :
  sinv s -> refresh_queue_allocations s qj w = Ok (s', outs) -> einv s evs -> einv s' (evs ++ outs).
Proof.
  unfold refresh_queue_allocations. intros Hs H E.
  assert (Nil : einv s (evs ++ [])) by now rewrite app_nil_r.
  destruct (get_queue s qj) as [q|] eqn:Eq; [|now inv H].
  destruct (active_ids q); [destruct w; [discriminate|now inv H]|].
  destruct w as [sw|]; [|discriminate].
  destruct (negb (perm_of _ _)); [discriminate|].
  pose proof (sinv_get _ _ _ Hs Eq) as Hq.
  destruct (sw_err sw).
  - destruct (refresh_err_loop qj q (map fst (sw_sts sw))) as [q' o'] eqn:El. inv H.
    destruct (refresh_err_loop_qeinv _ _ _ _ _ evs Hq El (proj1 E _ _ Eq)) as [E1 O1].
    eapply einv_set_queue; eauto using only_about_queue.
  - destruct (refresh_loop qj q (sw_sts sw)) as [q' o'] eqn:El. inv H.
    destruct (refresh_loop_qeinv _ _ _ _ _ evs Hq El (proj1 E _ _ Eq)) as [E1 O1].
    eapply einv_set_queue; eauto using only_about_queue.
Qed.

Lemma periodic_loop_einv order : forall s wits s' outs evs,
  sinv s -> periodic_loop s order wits = Ok (s', outs) -> einv s evs -> einv s' (evs ++ outs).
Proof.
  induction order as [|qj order IH]; simpl; intros s wits s' outs evs Hs H E.
  - inv H. now rewrite app_nil_r.
  - bind_inv H. destruct x as [s1 o1]. bind_inv H. destruct x as [s2 o2]. inv H.
    rewrite app_assoc. eapply IH; [eapply refresh_queue_allocations_sinv; eauto|exact Hx0|].
    eapply refresh_queue_allocations_einv; eauto.
Qed.

Lemma worker_event_einv s id r s' outs evs :
  sinv s -> worker_event s id r = (s', outs) -> einv s evs -> einv s' (evs ++ outs).
Proof.
  unfold worker_event. intros Hs H E.
  assert (Nil : einv s (evs ++ [])) by now rewrite app_nil_r.
  destruct (alookup id (s_index s)) as [qj|]; [|now inv H].
  destruct (get_queue s qj) as [q|] eqn:Eq; [|now inv H].
  destruct (sync_allocation_status qj q id r) as [q' o'] eqn:Es. inv H.
  destruct (sync_allocation_status_qeinv _ _ _ _ _ _ evs (sinv_get _ _ _ Hs Eq) Es (proj1 E _ _ Eq)) as [E1 O1].
  eapply einv_set_queue; eauto using only_about_queue.
Qed.

(** submissions *)
Lemma cf_zero_nsaf qi id l : cf qi id l = 0 -> nsaf qi id l = true.
Proof.
  unfold cf. induction l as [|o l IH]; simpl; auto. destruct (is_fin_ev qi id o); [lia|].
  intros H. apply IH. lia.
Qed.

Lemma noabout_submit qi n qj idj : about qj idj (OutSubmit qi n) = false.
Proof. reflexivity. Qed.

Lemma submit_loop_qeinv qi permit : forall script q idx q2 idx2 outs sc evs,
  submit_loop qi permit script q idx = Ok (q2, idx2, outs, sc) -> qeinv qi q evs ->
  qeinv qi q2 (evs ++ outs) /\ only_queue qi outs.
Proof.
  induction permit as [|n rest IH]; simpl; intros script q idx q2 idx2 outs sc evs H E.
  - inv H. rewrite app_nil_r. split; auto. intros qj idj _. constructor.
  - destruct script as [|[id| |] script']; [discriminate| | |].
    + destruct (alookup id idx); [discriminate|]. bind_inv H. bind_inv H.
      destruct x0 as [[[q2' idx2'] outs'] sc']. inv H. apply assert_or_ok in Hx.
      destruct (find_alloc id (q_allocs q)) eqn:Ef; [discriminate|].
      apply find_alloc_none_notin in Ef. destruct E as (E1 & E2).
      set (q1 := set_lim (on_submission_success (q_lim q)) (set_allocs (q_allocs q ++ [new_alloc id n]) q)) in *.
      assert (Q1 : qeinv qi q1 (evs ++ [OutSubmit qi n; EvQueued qi id n])).
      { split.
        - intros a Ha. simpl in Ha. apply in_app_or in Ha. destruct Ha as [Ha|[<-|[]]].
          + apply evok_app_quiet; auto. repeat constructor.
            apply about_queued_other. right. intros E. apply Ef. rewrite <- E. now apply in_map.
          + destruct (E2 id Ef) as (S1 & S2 & S3).
            unfold evok, cq, cs, cf in *. simpl a_id. rewrite !count_ev_app. simpl. rewrite !N.eqb_refl. simpl.
            split; [lia|]. split; [lia|]. split; [intros; lia|]. split; [lia|].
            apply nsaf_app. split; [now apply cf_zero_nsaf|]. split; [reflexivity|]. left. exact S3.
        - intros idj Hn. assert (Hne : idj <> id /\ ~ In idj (qids q)).
          { unfold qids in *. simpl in Hn. rewrite map_app in Hn. simpl in Hn. split.
            - intros ->. apply Hn. apply in_or_app. right. simpl. auto.
            - intros Hin. apply Hn. apply in_or_app. auto. }
          apply silent_app_quiet; [apply E2; tauto|]. repeat constructor.
          apply about_queued_other. right. tauto. }
      destruct (IH _ _ _ _ _ _ _ _ Hx0 Q1) as [R O]. split.
      * rewrite <- app_assoc in R. exact R.
      * intros qj idj Hne. constructor; [reflexivity|]. constructor; [apply about_queued_other; auto|]. apply O; auto.
    + inv H. split.
      * apply qeinv_app_quiet; [exact E|]. intros. repeat constructor.
      * intros qj idj _. repeat constructor.
    + inv H. split.
      * apply qeinv_app_quiet; [exact E|]. intros. repeat constructor.
      * intros qj idj _. repeat constructor.
Qed.

Lemma queue_try_submit_einv s qj r script s' outs sc evs :
  queue_try_submit s qj r script = Ok (s', outs, sc) -> einv s evs -> einv s' (evs ++ outs).
Proof.
  unfold queue_try_submit. intros H E.
  assert (Nil : einv s (evs ++ [])) by now rewrite app_nil_r.
  destruct (resp_is_empty r); [now inv H|].
  destruct (get_queue s qj) as [q|] eqn:Eq; [|now inv H].
  destruct (negb (q_active q)); [now inv H|].
  bind_inv H. destruct x as [|p0 permit]; [now inv H|].
  destruct (submission_status (s_now s) (q_lim q)); try now inv H.
  bind_inv H. destruct x as [[[q1 idx1] outs1] sc1]. inv H.
  assert (E0 : qeinv qj (set_lim (on_submission_attempt (s_now s) (q_lim q)) q) evs) by (apply (proj1 E _ _ Eq)).
  destruct (submit_loop_qeinv _ _ _ _ _ _ _ _ _ evs Hx0 E0) as [E1 O1].
  pose proof (einv_set_queue s qj q q1 evs outs Eq E E1 O1) as R.
  destruct R as (R1 & R2). split; [exact R1|exact R2].
Qed.

Lemma submit_queues_einv order : forall s resps scripts s' outs evs,
  submit_queues s order resps scripts = Ok (s', outs) -> einv s evs -> einv s' (evs ++ outs).
Proof.
  induction order as [|qj order IH]; simpl; intros s resps scripts s' outs evs H E.
  - inv H. now rewrite app_nil_r.
  - destruct resps as [|r resps]; [inv H; now rewrite app_nil_r|].
    bind_inv H. destruct x as [[s1 o1] sc1]. bind_inv H. destruct x as [s2 o2]. inv H.
    rewrite app_assoc. eauto using queue_try_submit_einv.
Qed.

Lemma try_pause_all_einv s evs : einv s evs -> einv (try_pause_all s) evs.
Proof.
  apply einv_same_allocs; auto. intros qi. rewrite get_queue_try_pause_all.
  destruct (get_queue s qi); simpl; auto. eexists. split; eauto. apply try_pause_queue_allocs.
Qed.

Lemma perform_submits_einv s order resps scripts s' outs evs :
  perform_submits s order resps scripts = Ok (s', outs) -> einv s evs -> einv s' (evs ++ outs).
Proof.
  unfold perform_submits. intros H E.
  destruct (negb (perm_of order (active_qids (try_pause_all s)))); [discriminate|].
  destruct (negb (forallb resp_valid resps)); [discriminate|].
  pose proof (try_pause_all_einv _ _ E) as E1.
  destruct (active_qids (try_pause_all s)); [inv H; now rewrite app_nil_r|].
  bind_inv H. destruct x; [inv H; now rewrite app_nil_r|].
  bind_inv H. bind_inv H. destruct x0 as [s2 o2]. inv H.
  apply try_pause_all_einv. eapply submit_queues_einv; eauto.
Qed.

(** * all steps *)
Lemma noabout_ret b qi id : about qi id (OutRet b) = false.
Proof. reflexivity. Qed.

Lemma step_einv s o s' outs evs :
  sinv s -> ixinv s -> step s o = Ok (s', outs) -> einv s evs -> einv s' (evs ++ outs).
Proof.
  intros Hs I H E. destruct o; simpl in H.
  - (* add queue *)
    assert (Hnew : get_queue s (s_next_qid s) = None).
    { destruct I as (_ & _ & _ & I4). unfold get_queue. destruct (alookup (s_next_qid s) (s_queues s)) eqn:El; auto.
      apply alookup_in in El.
      assert (In (s_next_qid s) (map fst (s_queues s))) by (change (s_next_qid s) with (fst (s_next_qid s, q)); now apply in_map).
      apply I4 in H0. lia. }
    assert (Q : forall lim0 : limiter,
              einv {| s_queues := s_queues s ++ [(s_next_qid s, mkQ true backlog mwpa maxw [] lim0)];
                      s_index := s_index s; s_next_qid := s_next_qid s + 1; s_now := s_now s |}
                   (evs ++ [OutRet true; EvQueueCreated (s_next_qid s)])).
    { intros lim0. destruct E as (E1 & E2).
      assert (NA : forall qi id, noabout qi id [OutRet true; EvQueueCreated (s_next_qid s)]) by (intros; repeat constructor).
      split.
      - intros qi q G. unfold get_queue in G; simpl in G. rewrite alookup_app in G.
        destruct (alookup qi (s_queues s)) as [q0|] eqn:El.
        + inv G. apply qeinv_app_quiet; auto.
        + simpl in G. destruct (s_next_qid s =? qi) eqn:En; [|discriminate]. inv G. apply N.eqb_eq in En. subst qi.
          split; [intros a []|]. intros id _. apply silent_app_quiet; auto. apply E2; auto. lia.
      - intros qi id G Hn. simpl in Hn. unfold get_queue in G; simpl in G. rewrite alookup_app in G.
        destruct (alookup qi (s_queues s)) eqn:El; [discriminate|].
        apply silent_app_quiet; auto. apply E2; auto. lia. }
    destruct lim as [[[delays sf] af]|]; [destruct delays as [|d ds]; [discriminate|]|]; inv H; apply Q.
  - eapply perform_submits_einv; eauto.
  - destruct (negb (resp_valid r)); [discriminate|]. bind_inv H. destruct x as [[s1 o1] sc]. inv H.
    eapply queue_try_submit_einv; eauto.
  - unfold do_periodic_update in H. destruct (negb (perm_of _ _)); [discriminate|].
    eapply periodic_loop_einv; eauto.
  - destruct (worker_event s a (RConnected w)) as [s1 o1] eqn:Ew. inv H.
    change (OutRet true :: o1) with ([OutRet true] ++ o1). rewrite app_assoc.
    eapply worker_event_einv; eauto. apply einv_app_quiet; auto. intros; repeat constructor.
  - destruct (worker_event s a (RLost w crashed)) as [s1 o1] eqn:Ew. inv H.
    change (OutRet true :: o1) with ([OutRet true] ++ o1). rewrite app_assoc.
    eapply worker_event_einv; eauto. apply einv_app_quiet; auto. intros; repeat constructor.
  - inv H. apply einv_app_quiet; auto. intros; repeat constructor.
  - (* pause *)
    destruct (get_queue s q) as [v|] eqn:Eq; inv H; (apply einv_app_quiet; [|intros; repeat constructor]); auto.
    eapply einv_same_allocs; [| |exact E]; auto. intros qi. destruct (N.eq_dec qi q) as [->|Hne].
    + rewrite (get_queue_set_queue_same _ _ _ _ Eq). eauto.
    + rewrite get_queue_set_queue_other; auto. destruct (get_queue s qi); eauto.
  - (* resume *)
    destruct (get_queue s q) as [v|] eqn:Eq; inv H; (apply einv_app_quiet; [|intros; repeat constructor]); auto.
    eapply einv_same_allocs; [| |exact E]; auto. intros qi. destruct (N.eq_dec qi q) as [->|Hne].
    + rewrite (get_queue_set_queue_same _ _ _ _ Eq). eauto.
    + rewrite get_queue_set_queue_other; auto. destruct (get_queue s qi); eauto.
  - (* remove *)
    unfold remove_queue in H. destruct (get_queue s q) as [v|] eqn:Eq.
    2:{ inv H. apply einv_app_quiet; auto. intros; repeat constructor. }
    destruct (existsb is_running (q_allocs v) && negb force).
    { inv H. apply einv_app_quiet; auto. intros; repeat constructor. }
    bind_inv H. inv H.
    assert (NA : forall qi id, noabout qi id (OutRet true :: map (fun a => OutRemove q (a_id a)) (filter is_active (q_allocs v)) ++ [EvQueueRemoved q])).
    { intros qi id. constructor; [reflexivity|]. apply noabout_app; [|repeat constructor].
      induction (filter is_active (q_allocs v)); simpl; constructor; auto. }
    apply einv_app_quiet; auto. destruct E as (E1 & E2). split.
    + intros qi q0 G. unfold get_queue in G; simpl in G. destruct (N.eq_dec qi q) as [->|Hne].
      * rewrite alookup_filter_same in G. discriminate.
      * rewrite alookup_filter_other in G; auto.
    + intros qi id G Hn. simpl in Hn. unfold get_queue in G; simpl in G. destruct (N.eq_dec qi q) as [->|Hne].
      * exfalso. destruct I as (_ & _ & _ & I4). apply alookup_in in Eq.
        assert (In q (map fst (s_queues s))) by (change q with (fst (q, v)); now apply in_map).
        apply I4 in H. lia.
      * rewrite alookup_filter_other in G; auto.
  - inv H. rewrite app_nil_r. destruct E as (E1 & E2). split; auto.
Qed.

(** non-events do not matter *)
Lemma count_filter_event f l :
  (forall o, f o = true -> is_event o = true) -> count_ev f (filter is_event l) = count_ev f l.
Proof.
  intros Hf. induction l as [|o l IH]; simpl; auto. destruct (is_event o) eqn:E; simpl; [now rewrite IH|].
  destruct (f o) eqn:F; [apply Hf in F; congruence|]. rewrite IH. lia.
Qed.

Lemma is_queued_ev_event qi id o : is_queued_ev qi id o = true -> is_event o = true.
Proof. destruct o; simpl; auto; discriminate. Qed.
Lemma is_started_event qi id o : is_started qi id o = true -> is_event o = true.
Proof. destruct o; simpl; auto; discriminate. Qed.
Lemma is_fin_ev_event qi id o : is_fin_ev qi id o = true -> is_event o = true.
Proof. destruct o; simpl; auto; discriminate. Qed.

Lemma nsaf_filter_event qi id l : nsaf qi id (filter is_event l) = nsaf qi id l.
Proof.
  induction l as [|o l IH]; simpl; auto. destruct (is_event o) eqn:E; simpl.
  - rewrite IH, (count_filter_event _ l (is_started_event qi id)). reflexivity.
  - destruct (is_fin_ev qi id o) eqn:F; [apply is_fin_ev_event in F; congruence|exact IH].
Qed.

Lemma evok_filter evs outs qi a : evok (evs ++ outs) qi a -> evok (evs ++ filter is_event outs) qi a.
Proof.
  intros (A & B & C & D & E). unfold evok, cq, cs, cf in *. rewrite !count_ev_app in *.
  rewrite (count_filter_event _ outs (is_queued_ev_event qi (a_id a))),
          (count_filter_event _ outs (is_started_event qi (a_id a))),
          (count_filter_event _ outs (is_fin_ev_event qi (a_id a))).
  repeat split; auto. apply nsaf_app in E. apply nsaf_app. destruct E as (E1 & E2 & E3).
  rewrite nsaf_filter_event. unfold cs in *. rewrite (count_filter_event _ outs (is_started_event qi (a_id a))). auto.
Qed.

Lemma silent_filter evs outs qi id : silent qi id (evs ++ outs) -> silent qi id (evs ++ filter is_event outs).
Proof.
  intros (A & B & C). unfold silent, cq, cs, cf in *. rewrite !count_ev_app in *.
  rewrite (count_filter_event _ outs (is_queued_ev_event qi id)),
          (count_filter_event _ outs (is_started_event qi id)),
          (count_filter_event _ outs (is_fin_ev_event qi id)). auto.
Qed.

Lemma einv_filter s evs outs : einv s (evs ++ outs) -> einv s (evs ++ filter is_event outs).
Proof.
  intros (E1 & E2). split.
  - intros qi q G. destruct (E1 _ _ G) as (A & B). split.
    + intros a Ha. apply evok_filter; auto.
    + intros id Hn. apply silent_filter; auto.
  - intros qi id G Hn. apply silent_filter; auto.
Qed.

Theorem reach_einv s g : Reach s g -> einv s (gh_events g).
Proof.
  induction 1 as [q0|s g o s' outs R IH H].
  - split; [intros qi q G; unfold get_queue in G; simpl in G; discriminate|].
    intros qi id _ _. unfold silent, cq, cs, cf; simpl. auto.
  - simpl. apply einv_filter. eapply step_einv; eauto using reach_sinv, index_exact.
Qed.

(** ** C18: AllocationQueued exactly once, AllocationStarted at most once, AllocationFinished
    exactly once for a finished allocation (none before), never a start after the finish *)
Theorem events_exact s g qi q a :
  Reach s g -> get_queue s qi = Some q -> In a (q_allocs q) ->
  events_ok (gh_events g) qi a = true
  /\ count_ev (is_queued_ev qi (a_id a)) (gh_events g) = 1
  /\ count_ev (is_started qi (a_id a)) (gh_events g) <= 1
  /\ count_ev (is_fin_ev qi (a_id a)) (gh_events g) = (if is_finished a then 1 else 0)
  /\ no_start_after_finish qi (a_id a) (gh_events g) = true.
Proof.
  intros R G Ha. destruct (reach_einv _ _ R) as (E1 & _). destruct (E1 _ _ G) as (A & _).
  pose proof (A _ Ha) as E. split; [now apply evok_events_ok|]. destruct E as (E & B & _ & D & F). auto.
Qed.

(** allocations that do not exist (yet) have no events *)
Theorem no_events_for_unknown s g qi q id :
  Reach s g -> get_queue s qi = Some q -> ~ In id (map a_id (q_allocs q)) ->
  count_ev (is_queued_ev qi id) (gh_events g) = 0 /\ count_ev (is_started qi id) (gh_events g) = 0
  /\ count_ev (is_fin_ev qi id) (gh_events g) = 0.
Proof.
  intros R G Hn. destruct (reach_einv _ _ R) as (E1 & _). destruct (E1 _ _ G) as (_ & B). apply (B _ Hn).
Qed.

(** the executable C18 state monitor holds on every reachable state (given a duplicate-free index) *)
Theorem c18_monitor_quiet s g :
  Reach s g -> forall qi q a, get_queue s qi = Some q -> In a (q_allocs q) ->
  exists ga, g_find qi (a_id a) (gh_allocs g) = Some ga /\ accounting_ok a ga = true
             /\ events_ok (gh_events g) qi a = true.
Proof.
  intros R qi q a G Ha. destruct (reach_ginv _ _ R _ _ _ G Ha) as (ga & F & A).
  exists ga. repeat split; auto. apply (events_exact _ _ _ _ _ R G Ha).
Qed.

(** * Non-vacuity: a concrete adversarial history *)
Fixpoint run_g (s : state) (g : ghost) (ops : list op) : res (state * ghost) :=
  match ops with
  | [] => Ok (s, g)
  | o :: r => match step s o with
              | Ok (s', outs) => run_g s' (ghost_step s o s' outs g) r
              | Disabled => Disabled
              | Panic x => Panic x
              end
  end.

Lemma run_g_reach ops : forall s g s' g', Reach s g -> run_g s g ops = Ok (s', g') -> Reach s' g'.
Proof.
  induction ops as [|o ops IH]; simpl; intros s g s' g' R H.
  - now inv H.
  - destruct (step s o) as [[s1 o1]| |] eqn:E; try discriminate. eapply IH; [|exact H]. eapply Reach_step; eauto.
Qed.

Definition ex18_ops : list op :=
  [ OAddQueue 2 2 None (Some ([0], 3, 3));
    OTick [1] [(4, 0, 0)] [(1, [SubOk 10; SubOk 11])];
    OLost 5 10 false;                    (* loss while queued, before any connect *)
    OConnect 5 10;                       (* connect after loss: must not count as connected *)
    OConnect 6 10; OConnect 6 10;        (* duplicate connect *)
    OConnect 9 99;                       (* unknown allocation *)
    OConnect 7 11; OLost 7 11 true; OLost 7 11 true; OConnect 8 11; OConnect 3 11;   (* duplicate loss, extra worker *)
    ORefresh [1] [(1, mkSW false [(11, XError); (10, XQueued)])];                     (* contradictory / failing reports *)
    OLost 8 11 false ].                  (* second distinct loss: allocation 11 (size 2) finishes *)

Example ex18_reach : exists s g, Reach s g
  /\ get_queue s 1 = Some (mkQ true 2 2 None
        [ mkAlloc 10 2 (Running 0 [6] [(5, false)]); mkAlloc 11 2 (Finished [(7, true); (8, false)]) ]
        (mkLim [0] 0 (Some 0) 0 3 0 3))
  /\ g_find 1 10 (gh_allocs g) = Some (mkG 1 10 [5; 6] [5])
  /\ g_find 1 11 (gh_allocs g) = Some (mkG 1 11 [7; 8; 3] [7; 8])
  /\ filter (fun o => about 1 11 o) (gh_events g) = [EvQueued 1 11 2; EvStarted 1 11; EvFinished 1 11]
  /\ mon_c18 s g = [].
Proof.
  destruct (run_g (init_state 1) init_ghost ex18_ops) as [[s g]| |] eqn:E; [|vm_compute in E; discriminate..].
  exists s, g. split; [eapply run_g_reach; [apply (Reach_init 1)|exact E]|].
  vm_compute in E. inv E. vm_compute. repeat split; reflexivity.
Qed.
