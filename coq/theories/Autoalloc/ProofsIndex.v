(** C18 (second half) - the index [allocation_to_queue] covers exactly the allocations of the
    existing queues; removing a queue cancels each of its active allocations once and forgets them. *)
From HQ Require Import Base.Prelude Gen.Consts Autoalloc.Model Autoalloc.Spec Autoalloc.Lemmas Autoalloc.Trans Autoalloc.ProofsC17 Autoalloc.ProofsC18.
From Coq Require Import ZifyBool ZifyN ZifyNat Lia.
Open Scope N_scope.
Arguments N.add : simpl never.
Arguments N.sub : simpl never.
Arguments N.mul : simpl never.
Arguments N.eqb : simpl never.
Arguments N.ltb : simpl never.
Arguments N.leb : simpl never.
Arguments N.of_nat : simpl never.

Definition qids (q : queue) : list aid := map a_id (q_allocs q).

Definition ixinv (s : state) : Prop :=
  (forall id qi, alookup id (s_index s) = Some qi -> exists q, get_queue s qi = Some q /\ In id (qids q))
  /\ (forall qi q id, get_queue s qi = Some q -> In id (qids q) -> alookup id (s_index s) = Some qi)
  /\ NoDup (map fst (s_queues s))
  /\ (forall qi, In qi (map fst (s_queues s)) -> qi < s_next_qid s).

(** states with the same index, counter, queue keys and allocation ids per queue *)
Definition same_skel (s s' : state) : Prop :=
  s_index s' = s_index s /\ s_next_qid s' = s_next_qid s
  /\ map fst (s_queues s') = map fst (s_queues s)
  /\ (forall qi, option_map qids (get_queue s' qi) = option_map qids (get_queue s qi)).

Lemma same_skel_refl s : same_skel s s.
Proof. unfold same_skel; auto. Qed.

Lemma same_skel_trans a b c : same_skel a b -> same_skel b c -> same_skel a c.
Proof.
  intros (A1 & A2 & A3 & A4) (B1 & B2 & B3 & B4). unfold same_skel.
  split; [congruence|]. split; [congruence|]. split; [congruence|].
  intros qi. now rewrite B4, A4.
Qed.

Lemma same_skel_ixinv s s' : same_skel s s' -> ixinv s -> ixinv s'.
Proof.
  intros (E1 & E2 & E3 & E4) (I1 & I2 & I3 & I4). unfold ixinv. rewrite E1, E2, E3. repeat split; auto.
  - intros id qi H. destruct (I1 _ _ H) as (q & G & Hin). specialize (E4 qi). rewrite G in E4. simpl in E4.
    destruct (get_queue s' qi) as [q'|]; [|discriminate]. inv E4. exists q'. split; auto. now rewrite H1.
  - intros qi q' id G Hin. specialize (E4 qi). rewrite G in E4. simpl in E4.
    destruct (get_queue s qi) as [q|] eqn:G0; [|discriminate]. inv E4. apply (I2 _ _ _ G0). now rewrite <- H0.
Qed.

Lemma same_skel_set_queue s qj v v0 :
  get_queue s qj = Some v0 -> qids v = qids v0 -> same_skel s (set_queue s qj v).
Proof.
  intros G E. unfold same_skel. repeat split; auto.
  - unfold set_queue; simpl. apply update_queue_keys.
  - intros qi. destruct (N.eq_dec qi qj) as [->|Hne].
    + rewrite (get_queue_set_queue_same _ _ _ _ G), G. simpl. now rewrite E.
    + now rewrite get_queue_set_queue_other.
Qed.

Lemma queue_le_qids q q' : queue_le q q' -> qids q' = qids q.
Proof. apply queue_le_ids. Qed.

Lemma try_pause_all_skel s : same_skel s (try_pause_all s).
Proof.
  unfold same_skel. repeat split; auto.
  - unfold try_pause_all; simpl. rewrite map_map. simpl. reflexivity.
  - intros qi. rewrite get_queue_try_pause_all. destruct (get_queue s qi); simpl; auto.
    unfold qids. now rewrite try_pause_queue_allocs.
Qed.

Lemma refresh_queue_allocations_skel s qj w s' outs :
  sinv s -> refresh_queue_allocations s qj w = Ok (s', outs) -> same_skel s s'.
Proof.
  unfold refresh_queue_allocations. intros Hs H.
  destruct (get_queue s qj) as [q|] eqn:Eq; [|inv H; apply same_skel_refl].
  destruct (active_ids q); [destruct w; [discriminate|inv H; apply same_skel_refl]|].
  destruct w as [sw|]; [|discriminate].
  destruct (negb (perm_of _ _)); [discriminate|].
  pose proof (sinv_get _ _ _ Hs Eq) as Hq.
  destruct (sw_err sw).
  - destruct (refresh_err_loop qj q (map fst (sw_sts sw))) as [q' o'] eqn:El. inv H.
    eapply same_skel_set_queue; eauto. apply queue_le_qids. eapply refresh_err_loop_le; eauto. apply Hq.
  - destruct (refresh_loop qj q (sw_sts sw)) as [q' o'] eqn:El. inv H.
    eapply same_skel_set_queue; eauto. apply queue_le_qids. eapply refresh_loop_le; eauto. apply Hq.
Qed.

Lemma periodic_loop_skel order : forall s wits s' outs,
  sinv s -> periodic_loop s order wits = Ok (s', outs) -> same_skel s s'.
Proof.
  induction order as [|qj order IH]; simpl; intros s wits s' outs Hs H.
  - inv H. apply same_skel_refl.
  - bind_inv H. destruct x as [s1 o1]. bind_inv H. destruct x as [s2 o2]. inv H.
    eapply same_skel_trans; [eapply refresh_queue_allocations_skel; eauto|].
    eapply IH; eauto. eapply refresh_queue_allocations_sinv; eauto.
Qed.

Lemma worker_event_skel s id r s' outs :
  sinv s -> worker_event s id r = (s', outs) -> same_skel s s'.
Proof.
  unfold worker_event. intros Hs H.
  destruct (alookup id (s_index s)) as [qj|]; [|inv H; apply same_skel_refl].
  destruct (get_queue s qj) as [q|] eqn:Eq; [|inv H; apply same_skel_refl].
  destruct (sync_allocation_status qj q id r) as [q' o'] eqn:Es. inv H.
  eapply same_skel_set_queue; eauto. apply queue_le_qids.
  eapply sync_allocation_status_le; eauto. apply (sinv_get _ _ _ Hs Eq).
Qed.

(** * submissions *)
Lemma alookup_app {A} k (l1 l2 : list (N * A)) :
  alookup k (l1 ++ l2) = match alookup k l1 with Some v => Some v | None => alookup k l2 end.
Proof. induction l1 as [|[k' v'] l IH]; simpl; auto. destruct (k' =? k); auto. Qed.

Lemma alookup_new_entries id (qj : qid) (news : list alloc) :
  alookup id (rev (map (fun a => (a_id a, qj)) news)) = if mem id (map a_id news) then Some qj else None.
Proof.
  induction news as [|a news IH]; simpl; auto.
  rewrite alookup_app, IH. unfold mem. simpl. rewrite (N.eqb_sym id (a_id a)).
  destruct (existsb (N.eqb id) (map a_id news)); [now rewrite orb_true_r|].
  rewrite orb_false_r. destruct (a_id a =? id); reflexivity.
Qed.

Lemma queue_try_submit_ixinv s qj r script s' outs sc :
  queue_try_submit s qj r script = Ok (s', outs, sc) -> ixinv s -> ixinv s'.
Proof.
  unfold queue_try_submit. intros H I.
  destruct (resp_is_empty r); [now inv H|].
  destruct (get_queue s qj) as [q|] eqn:Eq; [|now inv H].
  destruct (negb (q_active q)); [now inv H|].
  bind_inv H. destruct x as [|p0 permit]; [now inv H|].
  destruct (submission_status (s_now s) (q_lim q)); try now inv H.
  bind_inv H. destruct x as [[[q1 idx1] outs1] sc1]. inv H.
  destruct (submit_loop_shape _ _ _ _ _ _ _ _ _ Hx0) as (news & Hall & Hnew & _ & Hidx & Hnd). simpl in Hall.
  destruct I as (I1 & I2 & I3 & I4).
  set (s' := {| s_queues := update_queue qj (fun _ => q1) (s_queues s); s_index := idx1;
                s_next_qid := s_next_qid s; s_now := s_now s |}).
  assert (G1 : forall qi, get_queue s' qi = if qi =? qj then Some q1 else get_queue s qi).
  { intros qi. unfold get_queue; simpl. destruct (qi =? qj) eqn:E.
    - apply N.eqb_eq in E. subst. now apply alookup_update_queue_same with (v := q).
    - apply alookup_update_queue_other. intros ->. rewrite N.eqb_refl in E. discriminate. }
  assert (Q1 : qids q1 = qids q ++ map a_id news) by (unfold qids; now rewrite Hall, map_app).
  assert (L : forall id, alookup id idx1 = if mem id (map a_id news) then Some qj else alookup id (s_index s)).
  { intros id. rewrite Hidx, alookup_app, alookup_new_entries. destruct (mem id (map a_id news)); auto. }
  assert (Fresh : forall id, In id (map a_id news) -> alookup id (s_index s) = None).
  { intros id Hin. apply in_map_iff in Hin. destruct Hin as (a & <- & Ha). apply (Hnew _ Ha). }
  unfold ixinv. repeat split.
  - intros id qi Hl. simpl in Hl. rewrite L in Hl. destruct (mem id (map a_id news)) eqn:M.
    + inv Hl. exists q1. rewrite G1, N.eqb_refl. split; auto. rewrite Q1. apply in_or_app. right. now apply mem_true.
    + destruct (I1 _ _ Hl) as (q0 & G & Hin). rewrite G1. destruct (qi =? qj) eqn:E.
      * apply N.eqb_eq in E. subst. rewrite Eq in G. inv G. exists q1. split; auto. rewrite Q1. apply in_or_app. auto.
      * eauto.
  - intros qi q0 id G Hin. simpl. rewrite L. rewrite G1 in G. destruct (qi =? qj) eqn:E.
    + apply N.eqb_eq in E. subst. inv G. rewrite Q1 in Hin. apply in_app_or in Hin.
      destruct (mem id (map a_id news)) eqn:M; auto. destruct Hin as [Hin|Hin].
      * apply (I2 _ _ _ Eq Hin).
      * apply mem_true in Hin. congruence.
    + destruct (mem id (map a_id news)) eqn:M; [|eauto].
      apply mem_true in M. pose proof (I2 _ _ _ G Hin) as A. specialize (Fresh _ M). congruence.
  - simpl. now rewrite update_queue_keys.
  - simpl. rewrite update_queue_keys. exact I4.
Qed.

Lemma submit_queues_ixinv order : forall s resps scripts s' outs,
  submit_queues s order resps scripts = Ok (s', outs) -> ixinv s -> ixinv s'.
Proof.
  induction order as [|qi order IH]; simpl; intros s resps scripts s' outs H I.
  - now inv H.
  - destruct resps as [|r resps]; [now inv H|].
    bind_inv H. destruct x as [[s1 o1] sc1]. bind_inv H. destruct x as [s2 o2]. inv H.
    eapply IH; eauto. eapply queue_try_submit_ixinv; eauto.
Qed.

Lemma perform_submits_ixinv s order resps scripts s' outs :
  perform_submits s order resps scripts = Ok (s', outs) -> ixinv s -> ixinv s'.
Proof.
  unfold perform_submits. intros H I.
  destruct (negb (perm_of order (active_qids (try_pause_all s)))); [discriminate|].
  destruct (negb (forallb resp_valid resps)); [discriminate|].
  pose proof (same_skel_ixinv _ _ (try_pause_all_skel s) I) as I1.
  destruct (active_qids (try_pause_all s)); [now inv H|].
  bind_inv H. destruct x; [now inv H|].
  bind_inv H. bind_inv H. destruct x0 as [s2 o2]. inv H.
  eapply same_skel_ixinv; [apply try_pause_all_skel|]. eapply submit_queues_ixinv; eauto.
Qed.

(** * removing a queue *)
Lemma index_remove_all_spec ids : forall idx idx',
  index_remove_all ids idx = Ok idx' ->
  forall id, alookup id idx' = if mem id ids then None else alookup id idx.
Proof.
  induction ids as [|x ids IH]; simpl; intros idx idx' H id.
  - now inv H.
  - destruct (alookup x idx); [|discriminate]. rewrite (IH _ _ H id). unfold mem. simpl.
    destruct (existsb (N.eqb id) ids); [now rewrite orb_true_r|]. rewrite orb_false_r.
    destruct (id =? x) eqn:E.
    + apply N.eqb_eq in E. subst. apply alookup_filter_same.
    + apply alookup_filter_other. intros ->. rewrite N.eqb_refl in E. discriminate.
Qed.

Lemma nodup_map_filter {A} (f : A -> N) g (l : list A) : NoDup (map f l) -> NoDup (map f (filter g l)).
Proof.
  induction l as [|x l IH]; simpl; intros ND; [constructor|]. inv ND.
  destruct (g x); simpl; auto. constructor; auto.
  intros Hin. apply H1. apply in_map_iff in Hin. destruct Hin as (y & E & Hy).
  apply filter_In in Hy. rewrite <- E. apply in_map. tauto.
Qed.

Lemma removes_of_shape qi (l : list alloc) :
  removes_of qi (OutRet true :: map (fun a => OutRemove qi (a_id a)) l ++ [EvQueueRemoved qi]) = map a_id l.
Proof. simpl. induction l as [|a l IH]; simpl; auto. now rewrite N.eqb_refl, IH. Qed.

Lemma remove_queue_ixinv s qi force s' outs :
  remove_queue s qi force = Ok (s', outs) -> ixinv s -> ixinv s'.
Proof.
  unfold remove_queue. intros H I.
  destruct (get_queue s qi) as [q|] eqn:Eq; [|now inv H].
  destruct (existsb is_running (q_allocs q) && negb force); [now inv H|].
  bind_inv H. inv H. pose proof (index_remove_all_spec _ _ _ Hx) as L.
  destruct I as (I1 & I2 & I3 & I4).
  assert (G1 : forall qj, get_queue {| s_queues := filter (fun kv => negb (fst kv =? qi)) (s_queues s);
                                       s_index := x; s_next_qid := s_next_qid s; s_now := s_now s |} qj
                          = if qj =? qi then None else get_queue s qj).
  { intros qj. unfold get_queue; simpl. destruct (qj =? qi) eqn:E.
    - apply N.eqb_eq in E. subst. apply alookup_filter_same.
    - apply alookup_filter_other. intros ->. rewrite N.eqb_refl in E. discriminate. }
  unfold ixinv. repeat split.
  - intros id qj Hl. simpl in Hl. rewrite L in Hl. destruct (mem id (map a_id (q_allocs q))) eqn:M; [discriminate|].
    destruct (I1 _ _ Hl) as (q0 & G & Hin). rewrite G1. destruct (qj =? qi) eqn:E.
    + apply N.eqb_eq in E. subst. rewrite Eq in G. inv G. apply mem_false in M. contradiction.
    + eauto.
  - intros qj q0 id G Hin. rewrite G1 in G. destruct (qj =? qi) eqn:E; [discriminate|].
    simpl. rewrite L. destruct (mem id (map a_id (q_allocs q))) eqn:M; [|eauto].
    apply mem_true in M. pose proof (I2 _ _ _ Eq M) as A. pose proof (I2 _ _ _ G Hin) as B.
    rewrite A in B. inv B. rewrite N.eqb_refl in E. discriminate.
  - simpl. now apply nodup_map_filter.
  - simpl. intros qj Hin. apply I4. apply in_map_iff in Hin. destruct Hin as (kv & E & Hin).
    apply filter_In in Hin. rewrite <- E. apply in_map. tauto.
Qed.

Lemma add_queue_ixinv s backlog mwpa maxw lim :
  ixinv s -> ixinv (fst (add_queue s backlog mwpa maxw lim)).
Proof.
  intros (I1 & I2 & I3 & I4). unfold add_queue, ixinv; simpl.
  assert (Hnew : alookup (s_next_qid s) (s_queues s) = None).
  { destruct (alookup (s_next_qid s) (s_queues s)) eqn:E; auto. apply alookup_in in E.
    assert (In (s_next_qid s) (map fst (s_queues s))) by (change (s_next_qid s) with (fst (s_next_qid s, q)); now apply in_map).
    apply I4 in H. lia. }
  assert (G1 : forall qi q, get_queue {| s_queues := s_queues s ++ [(s_next_qid s, mkQ true backlog mwpa maxw [] lim)];
                                         s_index := s_index s; s_next_qid := s_next_qid s + 1; s_now := s_now s |} qi = Some q ->
                            get_queue s qi = Some q \/ q_allocs q = []).
  { intros qi q. unfold get_queue; simpl. rewrite alookup_app. destruct (alookup qi (s_queues s)); auto.
    simpl. destruct (s_next_qid s =? qi); [intros H; inv H; auto|discriminate]. }
  repeat split.
  - intros id qi H. destruct (I1 _ _ H) as (q & G & Hin). exists q. split; auto.
    unfold get_queue in *; simpl. now apply alookup_app_some.
  - intros qi q id G Hin. destruct (G1 _ _ G) as [G0|E]; [eauto|]. unfold qids in Hin. rewrite E in Hin. destruct Hin.
  - rewrite map_app. simpl. apply nodup_snoc; auto. intros Hin. apply I4 in Hin. lia.
  - intros qi Hin. rewrite map_app in Hin. apply in_app_or in Hin. simpl in Hin.
    destruct Hin as [Hin|[<-|[]]]; [apply I4 in Hin|]; lia.
Qed.

Lemma step_ixinv s o s' outs : sinv s -> step s o = Ok (s', outs) -> ixinv s -> ixinv s'.
Proof.
  destruct o; simpl; intros Hs H I.
  - destruct lim as [[[delays sf] af]|]; [destruct delays as [|d ds]; [discriminate|]|]; inv H.
    + apply (add_queue_ixinv s backlog mwpa maxw (new_limiter (d :: ds) sf af) I).
    + apply (add_queue_ixinv s backlog mwpa maxw default_limiter I).
  - eapply perform_submits_ixinv; eauto.
  - destruct (negb (resp_valid r)); [discriminate|]. bind_inv H. destruct x as [[s1 o1] sc]. inv H.
    eapply queue_try_submit_ixinv; eauto.
  - unfold do_periodic_update in H. destruct (negb (perm_of _ _)); [discriminate|].
    eapply same_skel_ixinv; [eapply periodic_loop_skel; eauto|exact I].
  - destruct (worker_event s a (RConnected w)) as [s1 o1] eqn:Ew. inv H.
    eapply same_skel_ixinv; [eapply worker_event_skel; eauto|exact I].
  - destruct (worker_event s a (RLost w crashed)) as [s1 o1] eqn:Ew. inv H.
    eapply same_skel_ixinv; [eapply worker_event_skel; eauto|exact I].
  - now inv H.
  - destruct (get_queue s q) as [v|] eqn:Eq; inv H; auto.
    eapply same_skel_ixinv; [eapply same_skel_set_queue; eauto|exact I].
  - destruct (get_queue s q) as [v|] eqn:Eq; inv H; auto.
    eapply same_skel_ixinv; [eapply same_skel_set_queue; eauto|exact I].
  - eapply remove_queue_ixinv; eauto.
  - inv H. destruct I as (I1 & I2 & I3 & I4). unfold ixinv; simpl. auto.
Qed.

(** ** C18: the index covers exactly the allocations of the existing queues, in every reachable state *)
Theorem index_exact s g : Reach s g -> ixinv s.
Proof.
  induction 1 as [q0|s g o s' outs R IH H].
  - unfold ixinv, init_state, get_queue; simpl. repeat split; try discriminate; try constructor; intros; contradiction.
  - eapply step_ixinv; eauto using reach_sinv.
Qed.

(** ** C18: removing a queue cancels each of its active allocations exactly once and forgets them;
    a refused removal changes nothing *)
Theorem remove_queue_exact s g qi force s' outs q :
  Reach s g -> get_queue s qi = Some q -> step s (ORemove qi force) = Ok (s', outs) ->
  if existsb is_running (q_allocs q) && negb force
  then s' = s /\ outs = [OutRet false]
  else removes_of qi outs = active_ids q /\ NoDup (active_ids q)
       /\ In (EvQueueRemoved qi) outs
       /\ get_queue s' qi = None
       /\ (forall id, alookup id (s_index s') <> Some qi)
       /\ ixinv s'.
Proof.
  intros R G H. pose proof (index_exact _ _ R) as I. pose proof (reach_sinv _ _ R) as Hs.
  pose proof (step_ixinv _ _ _ _ Hs H I) as I'.
  simpl in H. unfold remove_queue in H. rewrite G in H.
  destruct (existsb is_running (q_allocs q) && negb force); [inv H; auto|].
  bind_inv H. inv H.
  assert (G' : get_queue {| s_queues := filter (fun kv => negb (fst kv =? qi)) (s_queues s);
                            s_index := x; s_next_qid := s_next_qid s; s_now := s_now s |} qi = None).
  { unfold get_queue; simpl. apply alookup_filter_same. }
  split; [apply removes_of_shape|].
  split; [unfold active_ids; apply nodup_map_filter; apply (sinv_get _ _ _ Hs G)|].
  split; [simpl; right; apply in_or_app; right; simpl; auto|].
  split; [exact G'|]. split; [|exact I'].
  intros id Hl. destruct I' as (I1 & _). destruct (I1 _ _ Hl) as (q0 & G0 & _). congruence.
Qed.

(** reflection: the Prop invariant implies the executable monitor *)
Lemma ixinv_index_ok s : sinv s -> ixinv s -> NoDup (map fst (s_index s)) -> index_ok s = true.
Proof.
  intros Hs (I1 & I2 & I3 & I4) ND. unfold index_ok. rewrite !andb_true_iff. repeat split.
  - apply forallb_forall. intros [id qi] Hin. simpl.
    pose proof (in_alookup _ _ _ ND Hin) as Hl. destruct (I1 _ _ Hl) as (q & G & Hq). rewrite G.
    destruct (find_alloc id (q_allocs q)) eqn:Ef; auto. apply find_alloc_none_notin in Ef. contradiction.
  - apply forallb_forall. intros [qi q] Hin. simpl. apply forallb_forall. intros a Ha.
    assert (G : get_queue s qi = Some q) by (apply in_alookup; auto).
    rewrite (I2 _ _ _ G (in_map a_id _ _ Ha)). apply N.eqb_refl.
  - now apply nodupb_spec.
  - now apply nodupb_spec.
  - apply forallb_forall. intros [qi q] Hin. simpl. apply nodupb_spec.
    unfold sinv in Hs. rewrite Forall_forall in Hs. apply (Hs _ Hin).
Qed.

(** * the index has no duplicate keys, hence the executable monitor [index_ok] holds *)
Definition idx_nodup (s : state) : Prop := NoDup (map fst (s_index s)).

Lemma alookup_none_notin {A} k (l : list (N * A)) : alookup k l = None -> ~ In k (map fst l).
Proof.
  induction l as [|[k' v] l IH]; simpl; [tauto|]. destruct (k' =? k) eqn:E; [discriminate|].
  intros H [H1|H1]; [subst; rewrite N.eqb_refl in E; discriminate|]. now apply IH.
Qed.

Lemma submit_loop_idx_nodup qi permit : forall script q idx q2 idx2 outs sc,
  submit_loop qi permit script q idx = Ok (q2, idx2, outs, sc) -> NoDup (map fst idx) -> NoDup (map fst idx2).
Proof.
  induction permit as [|n rest IH]; simpl; intros script q idx q2 idx2 outs sc H ND; [now inv H|].
  destruct script as [|[id| |] script']; [discriminate| | |].
  - destruct (alookup id idx) eqn:Ei; [discriminate|]. bind_inv H. bind_inv H.
    destruct x0 as [[[q2' idx2'] outs'] sc']. inv H. eapply IH; eauto. simpl. constructor; auto.
    now apply alookup_none_notin.
  - now inv H.
  - now inv H.
Qed.

Lemma queue_try_submit_idx_nodup s qj r script s' outs sc :
  queue_try_submit s qj r script = Ok (s', outs, sc) -> idx_nodup s -> idx_nodup s'.
Proof.
  unfold queue_try_submit, idx_nodup. intros H I.
  destruct (resp_is_empty r); [now inv H|].
  destruct (get_queue s qj) as [q|] eqn:Eq; [|now inv H].
  destruct (negb (q_active q)); [now inv H|].
  bind_inv H. destruct x as [|p0 permit]; [now inv H|].
  destruct (submission_status (s_now s) (q_lim q)); try now inv H.
  bind_inv H. destruct x as [[[q1 idx1] outs1] sc1]. inv H. simpl.
  eapply submit_loop_idx_nodup; eauto.
Qed.

Lemma submit_queues_idx_nodup order : forall s resps scripts s' outs,
  submit_queues s order resps scripts = Ok (s', outs) -> idx_nodup s -> idx_nodup s'.
Proof.
  induction order as [|qi order IH]; simpl; intros s resps scripts s' outs H I; [now inv H|].
  destruct resps as [|r resps]; [now inv H|].
  bind_inv H. destruct x as [[s1 o1] sc1]. bind_inv H. destruct x as [s2 o2]. inv H.
  eapply IH; eauto. eapply queue_try_submit_idx_nodup; eauto.
Qed.

Lemma index_remove_all_nodup ids : forall idx idx',
  index_remove_all ids idx = Ok idx' -> NoDup (map fst idx) -> NoDup (map fst idx').
Proof.
  induction ids as [|x ids IH]; simpl; intros idx idx' H ND; [now inv H|].
  destruct (alookup x idx); [|discriminate]. eapply IH; eauto. now apply nodup_map_filter.
Qed.

Lemma step_idx_nodup s o s' outs : sinv s -> step s o = Ok (s', outs) -> idx_nodup s -> idx_nodup s'.
Proof.
  unfold idx_nodup. destruct o; simpl; intros Hs H I.
  - destruct lim as [[[delays sf] af]|]; [destruct delays as [|d ds]; [discriminate|]|]; inv H; exact I.
  - unfold perform_submits in H.
    destruct (negb (perm_of order (active_qids (try_pause_all s)))); [discriminate|].
    destruct (negb (forallb resp_valid resps)); [discriminate|].
    destruct (active_qids (try_pause_all s)); [now inv H|].
    bind_inv H. destruct x; [now inv H|].
    bind_inv H. bind_inv H. destruct x0 as [s2 o2]. inv H. simpl.
    apply (submit_queues_idx_nodup _ _ _ _ _ _ Hx1). exact I.
  - destruct (negb (resp_valid r)); [discriminate|]. bind_inv H. destruct x as [[s1 o1] sc]. inv H.
    eapply queue_try_submit_idx_nodup; eauto.
  - unfold do_periodic_update in H. destruct (negb (perm_of _ _)); [discriminate|].
    destruct (periodic_loop_skel _ _ _ _ _ Hs H) as (E & _). now rewrite E.
  - destruct (worker_event s a (RConnected w)) as [s1 o1] eqn:Ew. inv H.
    destruct (worker_event_skel _ _ _ _ _ Hs Ew) as (E & _). now rewrite E.
  - destruct (worker_event s a (RLost w crashed)) as [s1 o1] eqn:Ew. inv H.
    destruct (worker_event_skel _ _ _ _ _ Hs Ew) as (E & _). now rewrite E.
  - now inv H.
  - destruct (get_queue s q); inv H; exact I.
  - destruct (get_queue s q); inv H; exact I.
  - unfold remove_queue in H. destruct (get_queue s q) as [v|]; [|now inv H].
    destruct (existsb is_running (q_allocs v) && negb force); [now inv H|].
    bind_inv H. inv H. simpl. eapply index_remove_all_nodup; eauto.
  - inv H. exact I.
Qed.

Theorem index_nodup s g : Reach s g -> idx_nodup s.
Proof.
  induction 1 as [q0|s g o s' outs R IH H]; [constructor|].
  eapply step_idx_nodup; eauto using reach_sinv.
Qed.

(** ** the executable index monitor holds on every reachable state *)
Theorem index_monitor s g : Reach s g -> index_ok s = true.
Proof.
  intros R. apply ixinv_index_ok; [eapply reach_sinv; eauto|eapply index_exact; eauto|eapply index_nodup; eauto].
Qed.
