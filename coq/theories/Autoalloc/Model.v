(** Executable model of HyperQueue's automatic allocation state machine
    (crates/hyperqueue/src/server/autoalloc/{state.rs,process.rs}), function for function.

    Abstractions (DESIGN §3.6, §8):
    - allocation ids (strings handed out by PBS/Slurm) and worker ids are numbers;
    - wall-clock time is the abstract counter [s_now] (seconds), moved only by [OAdvance]; the
      limiter's [last_submission : Option<Instant>] is the value of that counter at the attempt;
    - the batch system is an oracle: the results of [submit_allocation] and
      [get_status_of_allocations] are witnesses carried by the operations;
    - the scheduler's answer to [new_worker_query] is a witness of [OTick] / [OTry];
    - hash-map iteration orders that influence the behaviour (order of queues in [perform_submits] /
      [do_periodic_update], order of the active allocations in [refresh_queue_allocations]) are
      witnesses that the model validates (they must be permutations of what the model expects);
    - the batch system never hands out an allocation id that is still known to the server
      ([SubOk id] with a known [id] is rejected by the model: [Disabled]);
    - [LostWorkerDetails] is reduced to the boolean [DisconnectedWorkers::all_crashed] looks at;
    - working directories / [remove_inactive_directories] (file system) are not modelled;
    - u32/u64 counters are unbounded [N]; the u32 sum in [active_worker_count] and the u32 product in
      [create_queue_worker_query] are checked (a wrap would be a debug-build panic: [Panic]). *)
From HQ Require Import Base.Prelude Gen.Consts.
Open Scope N_scope.

Definition wid := N.
Definition aid := N.
Definition qid := N.

(** Panic sites *)
Definition SITE_MOD_ZERO : N := 1.            (* process.rs compute_submission_permit: `% max_workers_per_alloc` *)
Definition SITE_PERMIT_ASSERT : N := 2.       (* process.rs compute_submission_permit: assert!(target <= max_workers_per_alloc) *)
Definition SITE_DUP_ALLOC : N := 3.           (* state.rs AllocationQueue::add_allocation assert *)
Definition SITE_WORKER_SUM : N := 4.          (* state.rs active_worker_count: u32 sum overflow *)
Definition SITE_QUERY_MUL : N := 5.           (* process.rs create_queue_worker_query: backlog * max_workers_per_alloc *)
Definition SITE_INDEX_REMOVE : N := 6.        (* state.rs AutoAllocState::remove_queue assert *)

Definition U32_LIMIT : N := 4294967296.
Definition U32_MAX : N := 4294967295.
(** above this value `(x as f32 / y as f32).floor()` may differ from integer division *)
Definition F32_EXACT_LIMIT : N := 16777216.

(** * Rate limiter (state.rs) *)

Record limiter := mkLim {
  l_delays : list N;        (* submission_delays, seconds *)
  l_level : N;              (* current_delay *)
  l_last : option N;        (* last_submission *)
  l_afails : N;             (* allocation_fails *)
  l_maxaf : N;
  l_sfails : N;             (* submission_fails *)
  l_maxsf : N
}.

Inductive lstatus := LOk | LWait | LTooManySub | LTooManyAlloc.

Definition new_limiter (delays : list N) (maxsf maxaf : N) : limiter :=
  mkLim delays 0 None 0 maxaf 0 maxsf.

(** [create_rate_limiter]: the constants are read from config.rs by the translator. *)
Definition default_limiter : limiter :=
  new_limiter AA_SUBMISSION_DELAYS AA_MAX_SUBMISSION_FAILS AA_DEFAULT_MAX_ALLOCATION_FAILS.

Definition lim_delay (l : limiter) : N := nth (N.to_nat (l_level l)) (l_delays l) 0.

Definition increase_delay (l : limiter) : limiter :=
  if l_level l <? N.of_nat (length (l_delays l)) - 1
  then mkLim (l_delays l) (l_level l + 1) (l_last l) (l_afails l) (l_maxaf l) (l_sfails l) (l_maxsf l)
  else l.

Definition on_submission_success (l : limiter) : limiter :=
  mkLim (l_delays l) (if l_afails l =? 0 then 0 else l_level l) (l_last l) (l_afails l) (l_maxaf l) 0 (l_maxsf l).

Definition on_submission_fail (l : limiter) : limiter :=
  increase_delay (mkLim (l_delays l) (l_level l) (l_last l) (l_afails l) (l_maxaf l) (l_sfails l + 1) (l_maxsf l)).

Definition on_allocation_success (l : limiter) : limiter :=
  mkLim (l_delays l) 0 (l_last l) 0 (l_maxaf l) (l_sfails l) (l_maxsf l).

Definition on_allocation_fail (l : limiter) : limiter :=
  increase_delay (mkLim (l_delays l) (l_level l) (l_last l) (l_afails l + 1) (l_maxaf l) (l_sfails l) (l_maxsf l)).

(** [on_queue_resumed] (added by the fix of finding F14) *)
Definition on_queue_resumed (l : limiter) : limiter :=
  mkLim (l_delays l) (l_level l) (l_last l) 0 (l_maxaf l) 0 (l_maxsf l).

Definition on_submission_attempt (now : N) (l : limiter) : limiter :=
  mkLim (l_delays l) (l_level l) (Some now) (l_afails l) (l_maxaf l) (l_sfails l) (l_maxsf l).

Definition submission_status (now : N) (l : limiter) : lstatus :=
  if l_maxaf l <=? l_afails l then LTooManyAlloc
  else if l_maxsf l <=? l_sfails l then LTooManySub
  else match l_last l with
       | Some t => if now - t <? lim_delay l then LWait else LOk
       | None => LOk
       end.

(** * Allocations (state.rs) *)

Inductive astate :=
| Queued (err : N)
| Running (err : N) (conn : list wid) (disc : list (wid * bool))
| Finished (disc : list (wid * bool))
| FinishedU (conn : list wid) (disc : list (wid * bool)) (failed : bool).

Record alloc := mkAlloc { a_id : aid; a_target : N; a_status : astate }.

Definition is_queued (a : alloc) : bool := match a_status a with Queued _ => true | _ => false end.
Definition is_running (a : alloc) : bool := match a_status a with Running _ _ _ => true | _ => false end.
Definition is_active (a : alloc) : bool := is_queued a || is_running a.

(** [Set::insert] *)
Definition set_insert (w : wid) (s : list wid) : list wid :=
  if existsb (N.eqb w) s then s else s ++ [w].
(** [Set::remove] *)
Definition set_remove (w : wid) (s : list wid) : list wid :=
  filter (fun x => negb (N.eqb x w)) s.
(** [DisconnectedWorkers::add_lost_worker] = [Map::insert]: a second loss overwrites the details *)
Fixpoint map_insert (w : wid) (c : bool) (m : list (wid * bool)) : list (wid * bool) :=
  match m with
  | [] => [(w, c)]
  | (k, v) :: r => if k =? w then (k, c) :: r else (k, v) :: map_insert w c r
  end.
Definition disc_count (m : list (wid * bool)) : N := N.of_nat (length m).
Definition all_crashed (m : list (wid * bool)) : bool := forallb snd m.

(** * Queues (state.rs) *)

Record queue := mkQ {
  q_active : bool;
  q_backlog : N;
  q_mwpa : N;                 (* max_workers_per_alloc *)
  q_maxw : option N;          (* max_worker_count *)
  q_allocs : list alloc;
  q_lim : limiter
}.

Definition set_active (b : bool) (q : queue) : queue :=
  mkQ b (q_backlog q) (q_mwpa q) (q_maxw q) (q_allocs q) (q_lim q).
Definition set_allocs (l : list alloc) (q : queue) : queue :=
  mkQ (q_active q) (q_backlog q) (q_mwpa q) (q_maxw q) l (q_lim q).
Definition set_lim (l : limiter) (q : queue) : queue :=
  mkQ (q_active q) (q_backlog q) (q_mwpa q) (q_maxw q) (q_allocs q) l.

Definition find_alloc (id : aid) (l : list alloc) : option alloc :=
  find (fun a => a_id a =? id) l.
Definition update_alloc (id : aid) (f : alloc -> alloc) (l : list alloc) : list alloc :=
  map (fun a => if a_id a =? id then f a else a) l.

Definition queued_count (q : queue) : N := N.of_nat (length (filter is_queued (q_allocs q))).
Definition sum_targets (l : list alloc) : N := fold_right (fun a acc => a_target a + acc) 0 l.
Definition active_worker_count (q : queue) : N := sum_targets (filter is_active (q_allocs q)).

(** [has_space_for_submit] *)
Definition has_space_for_submit (q : queue) : res bool :=
  if q_backlog q <=? queued_count q then Ok false
  else match q_maxw q with
       | Some m => do _ <- assert_or (active_worker_count q <? U32_LIMIT) SITE_WORKER_SUM;
                   Ok (negb (m <=? active_worker_count q))
       | None => Ok true
       end.

(** [AllocationQueue::pause] / [resume] *)
Definition pause (q : queue) : queue := set_active false q.
Definition resume (q : queue) : queue := set_lim (on_queue_resumed (q_lim q)) (set_active true q).
(** [resume] as it was before the fix of finding F14 (kept for the refutation witness only) *)
Definition resume_unfixed (q : queue) : queue := set_active true q.

(** * Global state *)

Record state := mkSt {
  s_queues : list (qid * queue);
  s_index : list (aid * qid);           (* allocation_to_queue *)
  s_next_qid : N;                       (* queue_id_counter *)
  s_now : N
}.

Definition init_state (first_qid : N) : state := mkSt [] [] first_qid 0.

Fixpoint alookup {A} (k : N) (l : list (N * A)) : option A :=
  match l with
  | [] => None
  | (k', v) :: r => if k' =? k then Some v else alookup k r
  end.

Definition get_queue (s : state) (q : qid) : option queue := alookup q (s_queues s).
Definition update_queue (q : qid) (f : queue -> queue) (l : list (qid * queue)) : list (qid * queue) :=
  map (fun kv => if fst kv =? q then (fst kv, f (snd kv)) else kv) l.
Definition set_queue (s : state) (q : qid) (v : queue) : state :=
  mkSt (update_queue q (fun _ => v) (s_queues s)) (s_index s) (s_next_qid s) (s_now s).

(** * Outputs *)

Inductive out :=
| OutRet (b : bool)                         (* return value of handle_message / Ok-ness of the response *)
| OutSubmit (q : qid) (n : N)               (* QueueHandler::submit_allocation(worker_count) *)
| OutRemove (q : qid) (a : aid)             (* QueueHandler::remove_allocation *)
| EvQueueCreated (q : qid)
| EvQueueRemoved (q : qid)
| EvQueued (q : qid) (a : aid) (n : N)
| EvStarted (q : qid) (a : aid)
| EvFinished (q : qid) (a : aid).

(** * Submission (process.rs) *)

(** query response: (single_node_workers, multinode_allocations, multinode_workers_per_alloc) *)
Definition resp := (N * N * N)%type.
Definition resp_sn (r : resp) : N := fst (fst r).
Definition resp_mn (r : resp) : N := snd (fst r).
Definition resp_mnw (r : resp) : N := snd r.
Definition resp_is_empty (r : resp) : bool := (resp_sn r =? 0) && (resp_mn r =? 0).
(** witness validation: u32 values, and [single_node_workers] small enough for the f32 division to be exact *)
Definition resp_valid (r : resp) : bool :=
  (resp_sn r <? F32_EXACT_LIMIT) && (resp_mn r <? U32_LIMIT) && (resp_mnw r <? U32_LIMIT).

(** step 1 of [compute_submission_permit]: queued allocations already cover part of the demand *)
Fixpoint permit_step1 (mnw : N) (queued : list alloc) (mn sn : N) : N * N :=
  match queued with
  | [] => (mn, sn)
  | a :: r =>
      let wc := a_target a in
      if (0 <? mn) && (mnw <=? wc)
      then permit_step1 mnw r (mn - 1) (sn - (wc - mnw))
      else permit_step1 mnw r mn (sn - wc)
  end.

(** the lazy iterator `(0..mn).map(mnw).chain(full x mwpa).chain(remainder).take(fuel)` *)
Fixpoint gen_allocs (fuel : nat) (mn mnw full mwpa rem : N) : list N :=
  match fuel with
  | O => []
  | S f =>
      if 0 <? mn then mnw :: gen_allocs f (mn - 1) mnw full mwpa rem
      else if 0 <? full then mwpa :: gen_allocs f mn mnw (full - 1) mwpa rem
      else if negb (rem =? 0) then [rem] else []
  end.

(** the final loop of [compute_submission_permit] *)
Fixpoint permit_loop (mwpa : N) (cands : list N) (remaining : N) : res (list N) :=
  match cands with
  | [] => Ok []
  | t :: r =>
      do _ <- assert_or (t <=? mwpa) SITE_PERMIT_ASSERT;
      let to_spawn := N.min t remaining in
      if to_spawn =? 0 then Ok []
      else do rest <- permit_loop mwpa r (remaining - to_spawn); Ok (to_spawn :: rest)
  end.

Definition compute_submission_permit (q : queue) (r : resp) : res (list N) :=
  do _ <- assert_or (active_worker_count q <? U32_LIMIT) SITE_WORKER_SUM;
  let active := active_worker_count q in
  let queued := filter is_queued (q_allocs q) in
  let remaining := match q_maxw q with Some m => m - active | None => U32_MAX end in
  if remaining =? 0 then Ok []
  else
    let '(mn, sn) := permit_step1 (resp_mnw r) queued (resp_mn r) (resp_sn r) in
    do _ <- assert_or (negb (q_mwpa q =? 0)) SITE_MOD_ZERO;
    let full := sn / q_mwpa q in
    let rem := sn mod q_mwpa q in
    let max_allocs := q_backlog q - N.of_nat (length queued) in
    permit_loop (q_mwpa q) (gen_allocs (N.to_nat max_allocs) mn (resp_mnw r) full (q_mwpa q) rem) remaining.

(** result of one [submit_allocation] call (witness): Ok(Ok(id)) / Ok(Err) - directory created,
    submission rejected / Err - the directory could not be created *)
Inductive sres := SubOk (id : aid) | SubFail | SubDirFail.

Definition new_alloc (id : aid) (n : N) : alloc := mkAlloc id n (Queued 0).

(** the `for workers_to_spawn in permit.allocs_to_submit` loop of [queue_try_submit], on the queue
    [qi] (its value [q]) and the allocation index; returns the unused rest of the script *)
Fixpoint submit_loop (qi : qid) (permit : list N) (script : list sres) (q : queue) (idx : list (aid * qid))
  : res (queue * list (aid * qid) * list out * list sres) :=
  match permit with
  | [] => Ok (q, idx, [], script)
  | n :: rest =>
      match script with
      | [] => Disabled                      (* witness exhausted *)
      | SubOk id :: script' =>
          match alookup id idx with
          | Some _ => Disabled              (* the batch system reuses a live id: outside the model *)
          | None =>
              do _ <- assert_or (match find_alloc id (q_allocs q) with None => true | Some _ => false end) SITE_DUP_ALLOC;
              let q1 := set_lim (on_submission_success (q_lim q)) (set_allocs (q_allocs q ++ [new_alloc id n]) q) in
              do r <- submit_loop qi rest script' q1 ((id, qi) :: idx);
              let '(q2, idx2, outs, sc) := r in
              Ok (q2, idx2, OutSubmit qi n :: EvQueued qi id n :: outs, sc)
          end
      | SubFail :: script' | SubDirFail :: script' =>
          Ok (set_lim (on_submission_fail (q_lim q)) q, idx, [OutSubmit qi n], script')
      end
  end.

(** [queue_try_submit] *)
Definition queue_try_submit (s : state) (qi : qid) (r : resp) (script : list sres)
  : res (state * list out * list sres) :=
  if resp_is_empty r then Ok (s, [], script)
  else match get_queue s qi with
       | None => Ok (s, [], script)
       | Some q =>
           if negb (q_active q) then Ok (s, [], script)
           else
             do permit <- compute_submission_permit q r;
             match permit with
             | [] => Ok (s, [], script)
             | _ =>
                 match submission_status (s_now s) (q_lim q) with
                 | LOk =>
                     let q0 := set_lim (on_submission_attempt (s_now s) (q_lim q)) q in
                     do x <- submit_loop qi permit script q0 (s_index s);
                     let '(q1, idx1, outs, sc) := x in
                     Ok (mkSt (update_queue qi (fun _ => q1) (s_queues s)) idx1 (s_next_qid s) (s_now s), outs, sc)
                 | _ => Ok (s, [], script)
                 end
             end
       end.

(** [try_pause_queue] *)
Definition try_pause_queue (now : N) (q : queue) : queue :=
  if negb (q_active q) then q
  else match submission_status now (q_lim q) with
       | LTooManySub | LTooManyAlloc => pause q
       | LOk | LWait => q
       end.

Definition try_pause_all (s : state) : state :=
  mkSt (map (fun kv => (fst kv, try_pause_queue (s_now s) (snd kv))) (s_queues s)) (s_index s) (s_next_qid s) (s_now s).

Definition active_qids (s : state) : list qid :=
  map fst (filter (fun kv => q_active (snd kv)) (s_queues s)).

(** [l1] is a permutation of the duplicate-free list [l2] *)
Definition nodupb (l : list N) : bool :=
  (fix go (l : list N) : bool := match l with [] => true | x :: r => negb (existsb (N.eqb x) r) && go r end) l.
Definition perm_of (l1 l2 : list N) : bool :=
  (length l1 =? length l2)%nat && nodupb l1 && forallb (fun x => existsb (N.eqb x) l2) l1.

(** the zip loop of [perform_submits]: responses x queue ids; every queue has its own handler and
    therefore its own script of submission results *)
Fixpoint submit_queues (s : state) (order : list qid) (resps : list resp) (scripts : list (qid * list sres))
  : res (state * list out) :=
  match order, resps with
  | qi :: order', r :: resps' =>
      let script := match alookup qi scripts with Some sc => sc | None => [] end in
      do x <- queue_try_submit s qi r script;
      let '(s1, outs1, _) := x in
      do y <- submit_queues s1 order' resps' scripts;
      let '(s2, outs2) := y in
      Ok (s2, outs1 ++ outs2)
  | _, _ => Ok (s, [])
  end.

Fixpoint all_no_space (l : list (qid * queue)) : res bool :=
  match l with
  | [] => Ok true
  | (_, q) :: r =>
      if q_active q then
        do b <- has_space_for_submit q;
        if b then Ok false else all_no_space r
      else all_no_space r
  end.

Fixpoint query_mul_ok (l : list (qid * queue)) : bool :=
  match l with
  | [] => true
  | (_, q) :: r => (if q_active q then q_backlog q * q_mwpa q <? U32_LIMIT else true) && query_mul_ok r
  end.

(** [perform_submits].  [order] = the iteration order of the active queues (validated),
    [resps] = the aggregated query responses (zipped with [order]). *)
Definition perform_submits (s : state) (order : list qid) (resps : list resp) (scripts : list (qid * list sres))
  : res (state * list out) :=
  let s1 := try_pause_all s in
  if negb (perm_of order (active_qids s1)) then Disabled
  else if negb (forallb resp_valid resps) then Disabled
  else
    match active_qids s1 with
    | [] => Ok (s1, [])
    | _ =>
        do nospace <- all_no_space (s_queues s1);
        if nospace then Ok (s1, [])
        else
          do _ <- assert_or (query_mul_ok (s_queues s1)) SITE_QUERY_MUL;
          do x <- submit_queues s1 order resps scripts;
          let '(s2, outs) := x in
          Ok (try_pause_all s2, outs)
    end.

(** * Allocation status synchronisation (process.rs) *)

Inductive sync_reason :=
| RConnected (w : wid)
| RLost (w : wid) (crashed : bool)
| RExtQueued | RExtRunning | RExtFinished | RExtFailed.

Inductive fin_kind := FinSuccess | FinFailure.

(** the big match of [sync_allocation_status] on one allocation: new allocation, events, finish kind *)
Definition sync_alloc (qi : qid) (a : alloc) (r : sync_reason) : alloc * list out * option fin_kind :=
  let id := a_id a in
  let keep := (a, [], None) in
  match r with
  | RConnected w =>
      match a_status a with
      | Queued _ => (mkAlloc id (a_target a) (Running 0 [w] []), [EvStarted qi id], None)
      | Running e conn disc =>
          (* fix of finding F15: a worker that was already lost is not connected *)
          if existsb (fun kv => fst kv =? w) disc then keep
          else (mkAlloc id (a_target a) (Running e (set_insert w conn) disc), [], None)
      | _ => keep
      end
  | RLost w crashed =>
      (* fix of finding F15: a loss reported for a queued allocation first registers its start *)
      let '(st, evs) :=
        match a_status a with
        | Queued _ => (Running 0 [] [], [EvStarted qi id])
        | st => (st, [])
        end in
      match st with
      | Running e conn disc =>
          let conn' := set_remove w conn in
          let disc' := map_insert w crashed disc in
          if disc_count disc' =? a_target a
          then (mkAlloc id (a_target a) (Finished disc'), evs,
                Some (if all_crashed disc' then FinFailure else FinSuccess))
          else (mkAlloc id (a_target a) (Running e conn' disc'), evs, None)
      | _ => keep
      end
  | RExtQueued => keep
  | RExtRunning =>
      match a_status a with
      | Queued _ => (mkAlloc id (a_target a) (Running 0 [] []), [], None)
      | _ => keep
      end
  | RExtFinished =>
      match a_status a with
      | Queued _ => (mkAlloc id (a_target a) (FinishedU [] [] false), [], Some FinSuccess)
      | Running _ conn disc => (mkAlloc id (a_target a) (FinishedU conn disc false), [], Some FinSuccess)
      | _ => keep
      end
  | RExtFailed =>
      match a_status a with
      | Queued _ => (mkAlloc id (a_target a) (FinishedU [] [] true), [], Some FinFailure)
      | Running _ conn disc => (mkAlloc id (a_target a) (FinishedU conn disc true), [], Some FinFailure)
      | _ => keep
      end
  end.

(** the connect / loss arms of [sync_allocation_status] as they were before the fix of finding F15
    (kept for the refutation witness only) *)
Definition sync_alloc_unfixed (qi : qid) (a : alloc) (r : sync_reason) : alloc * list out * option fin_kind :=
  match r, a_status a with
  | RConnected w, Running e conn disc =>
      (mkAlloc (a_id a) (a_target a) (Running e (set_insert w conn) disc), [], None)
  | RLost _ _, Queued _ => (a, [], None)
  | _, _ => sync_alloc qi a r
  end.

(** [sync_allocation_status] *)
Definition sync_allocation_status (qi : qid) (q : queue) (id : aid) (r : sync_reason) : queue * list out :=
  match find_alloc id (q_allocs q) with
  | None => (q, [])
  | Some a =>
      let '(a', evs, fin) := sync_alloc qi a r in
      let q1 := set_allocs (update_alloc id (fun _ => a') (q_allocs q)) q in
      match fin with
      | Some FinSuccess => (set_lim (on_allocation_success (q_lim q1)) q1, evs ++ [EvFinished qi id])
      | Some FinFailure => (set_lim (on_allocation_fail (q_lim q1)) q1, evs ++ [EvFinished qi id])
      | None => (q1, evs)
      end
  end.

(** [increase_status_error_counter] *)
Definition increase_status_error_counter (qi : qid) (a : alloc) : alloc * list out :=
  match a_status a with
  | Queued e =>
      if AA_MAX_QUEUED_STATUS_ERROR_COUNT <? e + 1
      then (mkAlloc (a_id a) (a_target a) (FinishedU [] [] true), [EvFinished qi (a_id a)])
      else (mkAlloc (a_id a) (a_target a) (Queued (e + 1)), [])
  | Running e conn disc =>
      if AA_MAX_RUNNING_STATUS_ERROR_COUNT <? e + 1
      then (mkAlloc (a_id a) (a_target a) (FinishedU conn disc false), [EvFinished qi (a_id a)])
      else (mkAlloc (a_id a) (a_target a) (Running (e + 1) conn disc), [])
  | _ => (a, [])
  end.

(** external status of one allocation as reported by the batch system (witness) *)
Inductive xstatus := XQueued | XRunning | XFinished | XFailed | XError | XMissing.

Definition reason_of (x : xstatus) : option sync_reason :=
  match x with
  | XQueued => Some RExtQueued
  | XRunning => Some RExtRunning
  | XFinished => Some RExtFinished
  | XFailed | XMissing => Some RExtFailed
  | XError => None
  end.

(** the `for allocation_id in allocation_ids` loop of [refresh_queue_allocations] (Ok branch) *)
Fixpoint refresh_loop (qi : qid) (q : queue) (sts : list (aid * xstatus)) : queue * list out :=
  match sts with
  | [] => (q, [])
  | (id, x) :: rest =>
      let '(q1, o1) :=
        match reason_of x with
        | Some r => sync_allocation_status qi q id r
        | None =>
            match find_alloc id (q_allocs q) with
            | Some a =>
                let '(a', evs) := increase_status_error_counter qi a in
                (set_allocs (update_alloc id (fun _ => a') (q_allocs q)) q, evs)
            | None => (q, [])
            end
        end in
      let '(q2, o2) := refresh_loop qi q1 rest in
      (q2, o1 ++ o2)
  end.

(** Err branch: bump the counter of every active allocation ([active_allocations_mut]); the events
    of this loop are emitted in hash order, [order] is that order (validated by the caller) *)
Fixpoint refresh_err_loop (qi : qid) (q : queue) (order : list aid) : queue * list out :=
  match order with
  | [] => (q, [])
  | id :: rest =>
      let '(q1, o1) :=
        match find_alloc id (q_allocs q) with
        | Some a =>
            let '(a', evs) := increase_status_error_counter qi a in
            (set_allocs (update_alloc id (fun _ => a') (q_allocs q)) q, evs)
        | None => (q, [])
        end in
      let '(q2, o2) := refresh_err_loop qi q1 rest in
      (q2, o1 ++ o2)
  end.

Definition active_ids (q : queue) : list aid := map a_id (filter is_active (q_allocs q)).

(** witness of one [get_status_of_allocations] call: the allocations in the order the handler
    received them, with the reported status; [whole_err] = the call itself returned Err *)
Record status_wit := mkSW { sw_err : bool; sw_sts : list (aid * xstatus) }.

(** [refresh_queue_allocations] *)
Definition refresh_queue_allocations (s : state) (qi : qid) (w : option status_wit) : res (state * list out) :=
  match get_queue s qi with
  | None => Ok (s, [])
  | Some q =>
      match active_ids q with
      | [] => match w with None => Ok (s, []) | Some _ => Disabled end
      | ids =>
          match w with
          | None => Disabled
          | Some sw =>
              if negb (perm_of (map fst (sw_sts sw)) ids) then Disabled
              else
                let '(q', outs) :=
                  if sw_err sw then refresh_err_loop qi q (map fst (sw_sts sw))
                  else refresh_loop qi q (sw_sts sw) in
                Ok (set_queue s qi q', outs)
          end
      end
  end.

(** [do_periodic_update]: [order] = iteration order of the queue ids (validated) *)
Fixpoint periodic_loop (s : state) (order : list qid) (wits : list (qid * status_wit)) : res (state * list out) :=
  match order with
  | [] => Ok (s, [])
  | qi :: rest =>
      do x <- refresh_queue_allocations s qi (alookup qi wits);
      let '(s1, o1) := x in
      do y <- periodic_loop s1 rest wits;
      let '(s2, o2) := y in
      Ok (s2, o1 ++ o2)
  end.

Definition do_periodic_update (s : state) (order : list qid) (wits : list (qid * status_wit)) : res (state * list out) :=
  if negb (perm_of order (map fst (s_queues s))) then Disabled
  else periodic_loop s order wits.

(** * Messages (process.rs handle_message) *)

(** [get_data_from_worker] + [sync_allocation_status] *)
Definition worker_event (s : state) (id : aid) (r : sync_reason) : state * list out :=
  match alookup id (s_index s) with
  | None => (s, [])
  | Some qi =>
      match get_queue s qi with
      | None => (s, [])
      | Some q =>
          let '(q', outs) := sync_allocation_status qi q id r in
          (set_queue s qi q', outs)
      end
  end.

(** [create_queue] (the handler is injected by the harness, so creation cannot fail) +
    [AutoAllocState::add_queue] with [queue_id = None] *)
Definition add_queue (s : state) (backlog mwpa : N) (maxw : option N) (lim : limiter) : state * list out :=
  let id := s_next_qid s in
  (mkSt (s_queues s ++ [(id, mkQ true backlog mwpa maxw [] lim)]) (s_index s) (id + 1) (s_now s),
   [EvQueueCreated id]).

(** [remove_queue] (process.rs) + [AutoAllocState::remove_queue] (state.rs) *)
Fixpoint index_remove_all (ids : list aid) (idx : list (aid * qid)) : res (list (aid * qid)) :=
  match ids with
  | [] => Ok idx
  | id :: r =>
      match alookup id idx with
      | None => Panic SITE_INDEX_REMOVE
      | Some _ => index_remove_all r (filter (fun kv => negb (fst kv =? id)) idx)
      end
  end.

Definition remove_queue (s : state) (qi : qid) (force : bool) : res (state * list out) :=
  match get_queue s qi with
  | None => Ok (s, [OutRet false])
  | Some q =>
      if existsb is_running (q_allocs q) && negb force then Ok (s, [OutRet false])
      else
        let removes := map (fun a => OutRemove qi (a_id a)) (filter is_active (q_allocs q)) in
        do idx <- index_remove_all (map a_id (q_allocs q)) (s_index s);
        Ok (mkSt (filter (fun kv => negb (fst kv =? qi)) (s_queues s)) idx (s_next_qid s) (s_now s),
            OutRet true :: removes ++ [EvQueueRemoved qi])
  end.

(** * Operations *)

Inductive op :=
| OAddQueue (backlog mwpa : N) (maxw : option N) (lim : option (list N * N * N))
    (* lim = None: the limiter of [create_rate_limiter]; Some (delays, max_sub_fails, max_alloc_fails) *)
| OTick (order : list qid) (resps : list resp) (scripts : list (qid * list sres))
| OTry (q : qid) (r : resp) (script : list sres)          (* queue_try_submit alone *)
| ORefresh (order : list qid) (wits : list (qid * status_wit))
| OConnect (w : wid) (a : aid)
| OLost (w : wid) (a : aid) (crashed : bool)
| OJob
| OPause (q : qid)
| OResume (q : qid)
| ORemove (q : qid) (force : bool)
| OAdvance (d : N).

Definition step (s : state) (o : op) : res (state * list out) :=
  match o with
  | OAddQueue backlog mwpa maxw lim =>
      match lim with
      | None => let '(s', outs) := add_queue s backlog mwpa maxw default_limiter in Ok (s', OutRet true :: outs)
      | Some (delays, maxsf, maxaf) =>
          match delays with
          | [] => Disabled                (* RateLimiter::new asserts a non-empty delay table *)
          | _ => let '(s', outs) := add_queue s backlog mwpa maxw (new_limiter delays maxsf maxaf) in
                 Ok (s', OutRet true :: outs)
          end
      end
  | OTick order resps scripts => perform_submits s order resps scripts
  | OTry q r script =>
      if negb (resp_valid r) then Disabled
      else do x <- queue_try_submit s q r script; let '(s', outs, _) := x in Ok (s', outs)
  | ORefresh order wits => do_periodic_update s order wits
  | OConnect w a => let '(s', outs) := worker_event s a (RConnected w) in Ok (s', OutRet true :: outs)
  | OLost w a c => let '(s', outs) := worker_event s a (RLost w c) in Ok (s', OutRet true :: outs)
  | OJob => Ok (s, [OutRet true])
  | OPause q =>
      match get_queue s q with
      | Some v => Ok (set_queue s q (pause v), [OutRet true])
      | None => Ok (s, [OutRet false])
      end
  | OResume q =>
      match get_queue s q with
      | Some v => Ok (set_queue s q (resume v), [OutRet true])
      | None => Ok (s, [OutRet false])
      end
  | ORemove q force => remove_queue s q force
  | OAdvance d => Ok (mkSt (s_queues s) (s_index s) (s_next_qid s) (s_now s + d), [])
  end.

(** run a whole trace; stops at the first non-Ok step *)
Fixpoint run (s : state) (ops : list op) : res (state * list out) :=
  match ops with
  | [] => Ok (s, [])
  | o :: r =>
      do x <- step s o;
      let '(s1, o1) := x in
      do y <- run s1 r;
      let '(s2, o2) := y in
      Ok (s2, o1 ++ o2)
  end.
