(** Specification side of the autoalloc component: history (ghost) variables and the executable
    predicates of properties C17 / C18.  The same predicates are (a) the statements of the theorems
    in Proofs*.v and (b) extracted and evaluated by the model runner on the IMPLEMENTATION's
    snapshots (monitors). *)
From HQ Require Import Base.Prelude Gen.Consts Autoalloc.Model.
Open Scope N_scope.

(** * History variables *)

(** what happened to one allocation while the server knew it *)
Record galloc := mkG {
  g_q : qid;
  g_id : aid;
  g_conn : list wid;      (* workers that connected from it *)
  g_lost : list wid       (* workers lost from it *)
}.

Record ghost := mkGhost {
  gh_allocs : list galloc;
  gh_events : list out;          (* every event emitted so far, in order *)
  gh_resumed : list qid          (* queues resumed and not yet paused / failed / served since *)
}.

Definition init_ghost : ghost := mkGhost [] [] [].

Definition is_event (o : out) : bool :=
  match o with
  | EvQueueCreated _ | EvQueueRemoved _ | EvQueued _ _ _ | EvStarted _ _ | EvFinished _ _ => true
  | _ => false
  end.

Definition mem (x : N) (l : list N) : bool := existsb (N.eqb x) l.
Definition add_set (x : N) (l : list N) : list N := if mem x l then l else l ++ [x].

Definition g_update (q : qid) (id : aid) (f : galloc -> galloc) (l : list galloc) : list galloc :=
  map (fun g => if (g_q g =? q) && (g_id g =? id) then f g else g) l.
Definition g_find (q : qid) (id : aid) (l : list galloc) : option galloc :=
  find (fun g => (g_q g =? q) && (g_id g =? id)) l.

Fixpoint new_gallocs (outs : list out) : list galloc :=
  match outs with
  | [] => []
  | EvQueued q id _ :: r => mkG q id [] [] :: new_gallocs r
  | _ :: r => new_gallocs r
  end.

Definition lim_fails_grew (q q' : queue) : bool :=
  (l_sfails (q_lim q) <? l_sfails (q_lim q')) || (l_afails (q_lim q) <? l_afails (q_lim q')).

Definition has_submit (qi : qid) (outs : list out) : bool :=
  existsb (fun o => match o with OutSubmit q _ => q =? qi | _ => false end) outs.

(** [gh_resumed]: a queue enters on a successful [OResume]; it leaves when the user pauses or removes
    it, when a new failure is recorded by its limiter, or when a tick was eligible for it (served) *)
Definition resumed_keep (s : state) (o : op) (s' : state) (outs : list out) (qi : qid) : bool :=
  match get_queue s qi, get_queue s' qi with
  | Some q, Some q' =>
      negb (lim_fails_grew q q')
      && match o with
         | OPause p => negb (p =? qi)
         | OTick _ _ _ | OTry _ _ _ => negb (has_submit qi outs)
         | _ => true
         end
  | _, _ => false
  end.

Definition ghost_step (s : state) (o : op) (s' : state) (outs : list out) (g : ghost) : ghost :=
  let allocs1 :=
    match o with
    | OConnect w a =>
        match alookup a (s_index s) with
        | Some q => g_update q a (fun x => mkG (g_q x) (g_id x) (add_set w (g_conn x)) (g_lost x)) (gh_allocs g)
        | None => gh_allocs g
        end
    | OLost w a _ =>
        match alookup a (s_index s) with
        | Some q => g_update q a (fun x => mkG (g_q x) (g_id x) (g_conn x) (add_set w (g_lost x))) (gh_allocs g)
        | None => gh_allocs g
        end
    | _ => gh_allocs g
    end in
  let resumed1 := filter (resumed_keep s o s' outs) (gh_resumed g) in
  let resumed2 :=
    match o with
    | OResume q => match get_queue s q with Some _ => add_set q resumed1 | None => resumed1 end
    | _ => resumed1
    end in
  mkGhost (new_gallocs outs ++ allocs1) (gh_events g ++ filter is_event outs) resumed2.

(** * C17: limits *)

Definition size_ok (mwpa : N) (a : alloc) : bool := (1 <=? a_target a) && (a_target a <=? mwpa).

Definition lim_ok (l : limiter) : bool := l_level l <? N.of_nat (length (l_delays l)).

(** the three bounds of the statement, on one queue *)
Definition queue_limits_ok (q : queue) : bool :=
  (queued_count q <=? q_backlog q)
  && match q_maxw q with Some m => active_worker_count q <=? m | None => true end
  && forallb (size_ok (q_mwpa q)) (q_allocs q)
  && lim_ok (q_lim q).

Definition c17_state_ok (s : state) : bool := forallb (fun kv => queue_limits_ok (snd kv)) (s_queues s).

Definition backlog_ok (q : queue) : bool := queued_count q <=? q_backlog q.
Definition max_workers_ok (q : queue) : bool :=
  match q_maxw q with Some m => active_worker_count q <=? m | None => true end.
Definition sizes_ok (q : queue) : bool := forallb (size_ok (q_mwpa q)) (q_allocs q).

Definition lim_exhausted (l : limiter) : bool := (l_maxaf l <=? l_afails l) || (l_maxsf l <=? l_sfails l).

Definition backoff_elapsed (now : N) (l : limiter) : bool :=
  match l_last l with Some t => negb (now - t <? lim_delay l) | None => true end.

(** demand for queue [qi] carried by an operation *)
Fixpoint zip_lookup (qi : qid) (order : list qid) (resps : list resp) : option resp :=
  match order, resps with
  | q :: o', r :: r' => if q =? qi then Some r else zip_lookup qi o' r'
  | _, _ => None
  end.
Definition demand_of (o : op) (qi : qid) : option resp :=
  match o with
  | OTick order resps _ => zip_lookup qi order resps
  | OTry q r _ => if q =? qi then Some r else None
  | _ => None
  end.

(** a submission for [qi] in this step is legitimate: queue active, demand present, limiter says Ok *)
Definition submit_allowed (s : state) (o : op) (qi : qid) : bool :=
  match get_queue s qi, demand_of o qi with
  | Some q, Some r =>
      q_active q && negb (resp_is_empty r)
      && match submission_status (s_now s) (q_lim q) with LOk => true | _ => false end
  | _, _ => false
  end.

Definition submitted_qids (outs : list out) : list qid :=
  fold_right (fun o acc => match o with OutSubmit q _ => add_set q acc | _ => acc end) [] outs.

(** after a tick every queue whose failure counters reached their limit is paused *)
Definition exhausted_paused (s : state) : bool :=
  forallb (fun kv => negb (lim_exhausted (q_lim (snd kv))) || negb (q_active (snd kv))) (s_queues s).

(** queue [qi] is eligible at a tick with response [r]: active, the limits leave room for at least
    one allocation that the residual demand asks for, back-off elapsed *)
Definition permit_nonempty (q : queue) (r : resp) : bool :=
  match compute_submission_permit q r with Ok (_ :: _) => true | _ => false end.
Definition eligible (s : state) (qi : qid) (r : resp) : bool :=
  match get_queue s qi with
  | Some q => q_active q && permit_nonempty q r && backoff_elapsed (s_now s) (q_lim q)
              && (1 <=? l_maxaf (q_lim q)) && (1 <=? l_maxsf (q_lim q))
  | None => false
  end.

(** step monitor for C17; returns violation codes (code, queue) *)
Definition mon_step_c17 (g : ghost) (s : state) (o : op) (s' : state) (outs : list out) : list (N * N) :=
  (* 4: submit for a queue that is paused / has no demand / is rate limited *)
  map (fun q => (4, q)) (filter (fun q => negb (submit_allowed s o q)) (submitted_qids outs))
  (* 7: after a tick an exhausted queue is still active *)
  ++ match o with
     | OTick _ _ _ =>
         map (fun kv => (7, fst kv))
             (filter (fun kv => lim_exhausted (q_lim (snd kv)) && q_active (snd kv)) (s_queues s'))
     | _ => []
     end
  (* 8: resumed queue, eligible tick, no submission attempt (F14) *)
  ++ match o with
     | OTick order resps _ =>
         map (fun q => (8, q))
             (filter (fun q => match zip_lookup q order resps with
                               | Some r => eligible s q r && negb (has_submit q outs)
                               | None => false
                               end) (gh_resumed g))
         (* ... or the tick paused it again although no failure was recorded since the resume *)
         ++ map (fun q => (8, q))
             (filter (fun q => match get_queue s q, get_queue s' q with
                               | Some v, Some v' => q_active v && negb (q_active v') && negb (lim_fails_grew v v')
                                                    && (1 <=? l_maxaf (q_lim v)) && (1 <=? l_maxsf (q_lim v))
                               | _, _ => false
                               end) (gh_resumed g))
     | _ => []
     end.

(** state monitor for C17: (code, queue): 1 backlog, 2 max workers, 3 size, 9 limiter index *)
Definition mon_c17 (s : state) : list (N * N) :=
  flat_map (fun kv =>
    let q := snd kv in
    (if backlog_ok q then [] else [(1, fst kv)])
    ++ (if max_workers_ok q then [] else [(2, fst kv)])
    ++ (if sizes_ok q then [] else [(3, fst kv)])
    ++ (if lim_ok (q_lim q) then [] else [(9, fst kv)])) (s_queues s).

(** * C18: lifecycle *)

Definition rank (st : astate) : N :=
  match st with Queued _ => 0 | Running _ _ _ => 1 | Finished _ | FinishedU _ _ _ => 2 end.
Definition is_finished (a : alloc) : bool := rank (a_status a) =? 2.

Definition subset (l1 l2 : list N) : bool := forallb (fun x => mem x l2) l1.
Definition set_eq (l1 l2 : list N) : bool := subset l1 l2 && subset l2 l1.
Definition diff (l1 l2 : list N) : list N := filter (fun x => negb (mem x l2)) l1.

(** the worker accounting of one allocation agrees with its history *)
Definition accounting_ok (a : alloc) (g : galloc) : bool :=
  nodupb (g_lost g) &&
  match a_status a with
  | Queued _ => match g_conn g, g_lost g with [], [] => true | _, _ => false end
  | Running _ conn disc =>
      set_eq conn (diff (g_conn g) (g_lost g))
      && nodupb conn
      && set_eq (map fst disc) (g_lost g)
      && nodupb (map fst disc)
      && (disc_count disc <? a_target a)
  | Finished disc => nodupb (map fst disc) && (disc_count disc =? a_target a)
  | FinishedU _ _ _ => true
  end.

Fixpoint count_ev (f : out -> bool) (l : list out) : N :=
  match l with [] => 0 | o :: r => (if f o then 1 else 0) + count_ev f r end.
Definition is_started (q : qid) (id : aid) (o : out) : bool :=
  match o with EvStarted q' id' => (q' =? q) && (id' =? id) | _ => false end.
Definition is_fin_ev (q : qid) (id : aid) (o : out) : bool :=
  match o with EvFinished q' id' => (q' =? q) && (id' =? id) | _ => false end.
Definition is_queued_ev (q : qid) (id : aid) (o : out) : bool :=
  match o with EvQueued q' id' _ => (q' =? q) && (id' =? id) | _ => false end.

(** no [EvStarted q id] after the first [EvFinished q id] *)
Fixpoint no_start_after_finish (q : qid) (id : aid) (l : list out) : bool :=
  match l with
  | [] => true
  | o :: r => if is_fin_ev q id o then (count_ev (is_started q id) r =? 0) && no_start_after_finish q id r
              else no_start_after_finish q id r
  end.

Definition events_ok (evs : list out) (q : qid) (a : alloc) : bool :=
  (count_ev (is_queued_ev q (a_id a)) evs =? 1)
  && (count_ev (is_started q (a_id a)) evs <=? 1)
  && (count_ev (is_fin_ev q (a_id a)) evs =? (if is_finished a then 1 else 0))
  && no_start_after_finish q (a_id a) evs.

(** the index covers exactly the allocations of the existing queues *)
Definition index_ok (s : state) : bool :=
  forallb (fun kv => match get_queue s (snd kv) with
                     | Some q => match find_alloc (fst kv) (q_allocs q) with Some _ => true | None => false end
                     | None => false
                     end) (s_index s)
  && forallb (fun kv => forallb (fun a => match alookup (a_id a) (s_index s) with
                                          | Some q => q =? fst kv
                                          | None => false
                                          end) (q_allocs (snd kv))) (s_queues s)
  && nodupb (map fst (s_index s))
  && nodupb (map fst (s_queues s))
  && forallb (fun kv => nodupb (map a_id (q_allocs (snd kv)))) (s_queues s).

(** state monitor for C18: (code, queue, alloc): 11 accounting, 12 events, 13 no history, 15 index *)
Definition mon_c18 (s : state) (g : ghost) : list (N * N * N) :=
  flat_map (fun kv =>
    flat_map (fun a =>
      match g_find (fst kv) (a_id a) (gh_allocs g) with
      | None => [(13, fst kv, a_id a)]
      | Some ga =>
          (if accounting_ok a ga then [] else [(11, fst kv, a_id a)])
          ++ (if events_ok (gh_events g) (fst kv) a then [] else [(12, fst kv, a_id a)])
      end) (q_allocs (snd kv))) (s_queues s)
  ++ (if index_ok s then [] else [(15, 0, 0)]).

(** one allocation across one step: never backwards, frozen once finished *)
Definition alloc_step_ok (a a' : alloc) : bool :=
  (a_id a =? a_id a') && (a_target a =? a_target a')
  && (rank (a_status a) <=? rank (a_status a'))
  && (if is_finished a
      then match a_status a, a_status a' with
           | Finished d, Finished d' => (length d =? length d')%nat && forallb (fun x => mem x (map fst d')) (map fst d)
           | FinishedU c d f, FinishedU c' d' f' =>
               (length c =? length c')%nat && subset c c' && (length d =? length d')%nat
               && subset (map fst d) (map fst d') && Bool.eqb f f'
           | _, _ => false
           end
      else true).

Definition removes_of (qi : qid) (outs : list out) : list aid :=
  fold_right (fun o acc => match o with OutRemove q a => if q =? qi then a :: acc else acc | _ => acc end) [] outs.
Definition ret_of (outs : list out) : option bool :=
  match outs with OutRet b :: _ => Some b | _ => None end.

(** step monitor for C18: (code, queue, alloc): 21 lifecycle, 24 remove_queue *)
Definition mon_step_c18 (s : state) (o : op) (s' : state) (outs : list out) : list (N * N * N) :=
  flat_map (fun kv =>
    match get_queue s' (fst kv) with
    | None => match o with ORemove q _ => if q =? fst kv then [] else [(21, fst kv, 0)] | _ => [(21, fst kv, 0)] end
    | Some q' =>
        flat_map (fun a => match find_alloc (a_id a) (q_allocs q') with
                           | Some a' => if alloc_step_ok a a' then [] else [(21, fst kv, a_id a)]
                           | None => [(21, fst kv, a_id a)]
                           end) (q_allocs (snd kv))
    end) (s_queues s)
  ++ match o with
     | ORemove qi _ =>
         match get_queue s qi, ret_of outs with
         | Some q, Some true =>
             if set_eq (removes_of qi outs) (active_ids q) && nodupb (removes_of qi outs)
                && match get_queue s' qi with None => true | Some _ => false end
                && forallb (fun kv => negb (snd kv =? qi)) (s_index s')
             then [] else [(24, qi, 0)]
         | _, _ => match removes_of qi outs with [] => [] | _ => [(24, qi, 0)] end
         end
     | _ => []
     end.
