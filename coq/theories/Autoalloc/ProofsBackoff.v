(** C17 (back-off, second half) - the limiter's [last_submission] is exactly the time of the last
    step that made a submission attempt for the queue: it is set to "now" by such a step and changed
    by nothing else.  Together with [backoff_respected] (an attempt happens only when
    now - last_submission >= delay(level)) this is "no attempt sooner than the current back-off
    delay after the previous attempt". *)
From HQ Require Import Base.Prelude Gen.Consts Autoalloc.Model Autoalloc.Spec Autoalloc.Lemmas Autoalloc.Trans Autoalloc.ProofsC17.
From Coq Require Import ZifyBool ZifyN ZifyNat Lia.
Open Scope N_scope.
Arguments N.add : simpl never.
Arguments N.sub : simpl never.
Arguments N.eqb : simpl never.
Arguments N.ltb : simpl never.
Arguments N.leb : simpl never.
Arguments N.of_nat : simpl never.

Definition last_of (q : queue) : option N := l_last (q_lim q).

Lemma increase_delay_last l : l_last (increase_delay l) = l_last l.
Proof. unfold increase_delay. destruct (_ <? _); reflexivity. Qed.

Lemma sync_allocation_status_last qi q id r q' outs :
  sync_allocation_status qi q id r = (q', outs) -> last_of q' = last_of q.
Proof.
  unfold sync_allocation_status, last_of. destruct (find_alloc id (q_allocs q)); [|intros H; now inv H].
  destruct (sync_alloc qi a r) as [[a' evs] fin]. destruct fin as [[|]|]; intros H; inv H; simpl; auto.
  unfold on_allocation_fail. now rewrite increase_delay_last.
Qed.

Lemma refresh_loop_last qi sts : forall q q' outs, refresh_loop qi q sts = (q', outs) -> last_of q' = last_of q.
Proof.
  induction sts as [|[id x] rest IH]; simpl; intros q q' outs H; [now inv H|].
  destruct (reason_of x) as [r|].
  - destruct (sync_allocation_status qi q id r) as [q1 o1] eqn:Es.
    destruct (refresh_loop qi q1 rest) as [q2 o2] eqn:El. inv H.
    rewrite (IH _ _ _ El). eapply sync_allocation_status_last; eauto.
  - destruct (find_alloc id (q_allocs q)) as [a|].
    + destruct (increase_status_error_counter qi a) as [a' evs].
      destruct (refresh_loop qi _ rest) as [q2 o2] eqn:El. inv H. now rewrite (IH _ _ _ El).
    + destruct (refresh_loop qi q rest) as [q2 o2] eqn:El. inv H. eauto.
Qed.

Lemma refresh_err_loop_last qi order : forall q q' outs, refresh_err_loop qi q order = (q', outs) -> last_of q' = last_of q.
Proof.
  induction order as [|id rest IH]; simpl; intros q q' outs H; [now inv H|].
  destruct (find_alloc id (q_allocs q)) as [a|].
  - destruct (increase_status_error_counter qi a) as [a' evs].
    destruct (refresh_err_loop qi _ rest) as [q2 o2] eqn:El. inv H. now rewrite (IH _ _ _ El).
  - destruct (refresh_err_loop qi q rest) as [q2 o2] eqn:El. inv H. eauto.
Qed.

Lemma submit_loop_last qi permit : forall script q idx q2 idx2 outs sc,
  submit_loop qi permit script q idx = Ok (q2, idx2, outs, sc) -> last_of q2 = last_of q.
Proof.
  induction permit as [|n rest IH]; simpl; intros script q idx q2 idx2 outs sc H; [now inv H|].
  destruct script as [|[id| |] script']; [discriminate| | |].
  - destruct (alookup id idx); [discriminate|]. bind_inv H. bind_inv H.
    destruct x0 as [[[q2' idx2'] outs'] sc']. inv H. rewrite (IH _ _ _ _ _ _ _ Hx0). reflexivity.
  - inv H. unfold last_of; simpl. unfold on_submission_fail. now rewrite increase_delay_last.
  - inv H. unfold last_of; simpl. unfold on_submission_fail. now rewrite increase_delay_last.
Qed.

(** what a state transformer does to the [last_submission] of queue [qi] *)
Definition last_rel (s s' : state) (qi : qid) (outs : list out) : Prop :=
  forall q, get_queue s qi = Some q ->
    exists q', get_queue s' qi = Some q'
      /\ (if has_submit qi outs then last_of q' = Some (s_now s) else last_of q' = last_of q).

Lemma last_rel_refl s qi : last_rel s s qi [].
Proof. intros q G. exists q. split; [auto|reflexivity]. Qed.

Lemma last_rel_same s s' qi :
  (forall q, get_queue s qi = Some q -> exists q', get_queue s' qi = Some q' /\ last_of q' = last_of q) ->
  last_rel s s' qi [].
Proof. intros H q G. destruct (H _ G) as (q' & G' & L). exists q'. split; [auto|exact L]. Qed.

Lemma last_rel_events s s' qi outs :
  only_events outs ->
  (forall q, get_queue s qi = Some q -> exists q', get_queue s' qi = Some q' /\ last_of q' = last_of q) ->
  last_rel s s' qi outs.
Proof.
  intros He H q G. destruct (H _ G) as (q' & G' & L). exists q'. split; auto.
  now rewrite (only_events_no_submit _ qi He).
Qed.

Lemma last_rel_trans s1 s2 s3 qi o1 o2 :
  s_now s2 = s_now s1 ->
  (has_submit qi o1 = true -> has_submit qi o2 = false) ->
  last_rel s1 s2 qi o1 -> last_rel s2 s3 qi o2 -> last_rel s1 s3 qi (o1 ++ o2).
Proof.
  intros En Hx H1 H2 q G. destruct (H1 _ G) as (q2 & G2 & L2). destruct (H2 _ G2) as (q3 & G3 & L3).
  exists q3. split; auto. rewrite has_submit_app. rewrite En in L3.
  destruct (has_submit qi o1) eqn:E1; simpl.
  - rewrite (Hx eq_refl) in L3. congruence.
  - destruct (has_submit qi o2); congruence.
Qed.

Lemma queue_try_submit_last s qj r script s' outs sc qi :
  queue_try_submit s qj r script = Ok (s', outs, sc) -> last_rel s s' qi outs.
Proof.
  unfold queue_try_submit. intros H.
  destruct (resp_is_empty r); [inv H; apply last_rel_refl|].
  destruct (get_queue s qj) as [q|] eqn:Eq; [|inv H; apply last_rel_refl].
  destruct (negb (q_active q)); [inv H; apply last_rel_refl|].
  bind_inv H. destruct x as [|p0 permit]; [inv H; apply last_rel_refl|].
  destruct (submission_status (s_now s) (q_lim q)); try (inv H; apply last_rel_refl).
  bind_inv H. destruct x as [[[q1 idx1] outs1] sc1]. inv H.
  pose proof (submit_loop_last _ _ _ _ _ _ _ _ _ Hx0) as L. unfold last_of in L; simpl in L.
  destruct (submit_loop_outs _ _ _ _ _ _ _ _ _ Hx0) as [O1 O2].
  intros v Hv. destruct (N.eq_dec qi qj) as [->|Hne].
  - exists q1. unfold get_queue in *; simpl. rewrite (alookup_update_queue_same _ _ _ _ Eq). split; auto.
    rewrite O2 by discriminate. exact L.
  - exists v. unfold get_queue in *; simpl. rewrite alookup_update_queue_other; auto. split; auto.
    destruct (has_submit qi outs) eqn:E; auto. apply O1 in E. congruence.
Qed.

Lemma try_pause_all_last s qi : last_rel s (try_pause_all s) qi [].
Proof.
  apply last_rel_same. intros q G. rewrite get_queue_try_pause_all, G. simpl. eexists. split; eauto.
  unfold last_of. now rewrite try_pause_queue_lim.
Qed.

Lemma try_pause_all_now s : s_now (try_pause_all s) = s_now s.
Proof. reflexivity. Qed.

Lemma submit_queues_now order : forall s resps scripts s' outs,
  submit_queues s order resps scripts = Ok (s', outs) -> s_now s' = s_now s.
Proof.
  induction order as [|qj order IH]; simpl; intros s resps scripts s' outs H; [now inv H|].
  destruct resps as [|r resps]; [now inv H|].
  bind_inv H. destruct x as [[s1 o1] sc1]. bind_inv H. destruct x as [s2 o2]. inv H.
  rewrite (IH _ _ _ _ _ Hx0). eapply queue_try_submit_now; eauto.
Qed.

Lemma submit_queues_no_submit order : forall s resps scripts s' outs qi,
  submit_queues s order resps scripts = Ok (s', outs) -> ~ In qi order -> has_submit qi outs = false.
Proof.
  induction order as [|qj order IH]; simpl; intros s resps scripts s' outs qi H Hn; [now inv H|].
  destruct resps as [|r resps]; [now inv H|].
  bind_inv H. destruct x as [[s1 o1] sc1]. bind_inv H. destruct x as [s2 o2]. inv H.
  rewrite has_submit_app. assert (Hne : qi <> qj) by (intros ->; apply Hn; auto).
  destruct (queue_try_submit_other _ _ _ _ _ _ _ qi Hx Hne) as [_ ->]. simpl. eapply IH; eauto.
Qed.

Lemma submit_queues_last order : forall s resps scripts s' outs qi,
  submit_queues s order resps scripts = Ok (s', outs) -> NoDup order -> last_rel s s' qi outs.
Proof.
  induction order as [|qj order IH]; simpl; intros s resps scripts s' outs qi H ND.
  - inv H. apply last_rel_refl.
  - destruct resps as [|r resps]; [inv H; apply last_rel_refl|].
    bind_inv H. destruct x as [[s1 o1] sc1]. bind_inv H. destruct x as [s2 o2]. inv H. inv ND.
    eapply last_rel_trans; [eapply queue_try_submit_now; eauto| |eapply queue_try_submit_last; eauto|eauto].
    intros E. destruct (N.eq_dec qi qj) as [->|Hne].
    + eapply submit_queues_no_submit; eauto.
    + destruct (queue_try_submit_other _ _ _ _ _ _ _ qi Hx Hne) as [_ E']. congruence.
Qed.

Lemma perform_submits_last s order resps scripts s' outs qi :
  perform_submits s order resps scripts = Ok (s', outs) -> last_rel s s' qi outs.
Proof.
  unfold perform_submits. intros H.
  destruct (perm_of order (active_qids (try_pause_all s))) eqn:Ep; simpl in H; [|discriminate].
  destruct (negb (forallb resp_valid resps)); [discriminate|].
  destruct (active_qids (try_pause_all s)); [inv H; apply try_pause_all_last|].
  bind_inv H. destruct x; [inv H; apply try_pause_all_last|].
  bind_inv H. bind_inv H. destruct x0 as [s2 o2]. inv H.
  pose proof (last_rel_trans s (try_pause_all s) s2 qi [] outs (try_pause_all_now s) (fun E => match Bool.diff_false_true E with end)
                (try_pause_all_last s qi) (submit_queues_last _ _ _ _ _ _ qi Hx1 (perm_of_nodup _ _ Ep))) as L1.
  simpl in L1.
  pose proof (last_rel_trans s s2 (try_pause_all s2) qi outs [] (submit_queues_now _ _ _ _ _ _ Hx1) (fun _ => eq_refl) L1) as L2.
  rewrite app_nil_r in L2. apply L2. intros v G. rewrite get_queue_try_pause_all, G. simpl. eexists. split; eauto.
  unfold last_of. simpl. rewrite try_pause_queue_lim. reflexivity.
Qed.

Definition keeps_last (s s' : state) (qi : qid) : Prop :=
  forall q, get_queue s qi = Some q -> exists q', get_queue s' qi = Some q' /\ last_of q' = last_of q.

Lemma keeps_last_refl s qi : keeps_last s s qi.
Proof. intros q G. eauto. Qed.

Lemma keeps_last_trans s1 s2 s3 qi : keeps_last s1 s2 qi -> keeps_last s2 s3 qi -> keeps_last s1 s3 qi.
Proof.
  intros H1 H2 q G. destruct (H1 _ G) as (q2 & G2 & L2). destruct (H2 _ G2) as (q3 & G3 & L3).
  exists q3. split; auto. congruence.
Qed.

Lemma keeps_last_set_queue s qj v v0 qi :
  get_queue s qj = Some v0 -> last_of v = last_of v0 -> keeps_last s (set_queue s qj v) qi.
Proof.
  intros G L q Hq. destruct (N.eq_dec qi qj) as [->|Hne].
  - exists v. split; [eapply get_queue_set_queue_same; eauto|congruence].
  - exists q. split; [rewrite get_queue_set_queue_other; auto|reflexivity].
Qed.

Lemma refresh_queue_allocations_keeps s qj w s' outs qi :
  refresh_queue_allocations s qj w = Ok (s', outs) -> keeps_last s s' qi.
Proof.
  unfold refresh_queue_allocations. intros H.
  destruct (get_queue s qj) as [q|] eqn:Eq; [|inv H; apply keeps_last_refl].
  destruct (active_ids q); [destruct w; [discriminate|inv H; apply keeps_last_refl]|].
  destruct w as [sw|]; [|discriminate].
  destruct (negb (perm_of _ _)); [discriminate|].
  destruct (sw_err sw).
  - destruct (refresh_err_loop qj q (map fst (sw_sts sw))) as [q' o'] eqn:El. inv H.
    eapply keeps_last_set_queue; eauto. eapply refresh_err_loop_last; eauto.
  - destruct (refresh_loop qj q (sw_sts sw)) as [q' o'] eqn:El. inv H.
    eapply keeps_last_set_queue; eauto. eapply refresh_loop_last; eauto.
Qed.

Lemma periodic_loop_keeps order : forall s wits s' outs qi,
  periodic_loop s order wits = Ok (s', outs) -> keeps_last s s' qi.
Proof.
  induction order as [|qj order IH]; simpl; intros s wits s' outs qi H.
  - inv H. apply keeps_last_refl.
  - bind_inv H. destruct x as [s1 o1]. bind_inv H. destruct x as [s2 o2]. inv H.
    eapply keeps_last_trans; [eapply refresh_queue_allocations_keeps; eauto|eauto].
Qed.

Lemma worker_event_keeps s id r s' outs qi : worker_event s id r = (s', outs) -> keeps_last s s' qi.
Proof.
  unfold worker_event. intros H.
  destruct (alookup id (s_index s)) as [qj|]; [|inv H; apply keeps_last_refl].
  destruct (get_queue s qj) as [q|] eqn:Eq; [|inv H; apply keeps_last_refl].
  destruct (sync_allocation_status qj q id r) as [q' o'] eqn:Es. inv H.
  eapply keeps_last_set_queue; eauto. eapply sync_allocation_status_last; eauto.
Qed.

(** ** C17: [last_submission] of a queue is set to the current time by exactly the steps that make
    a submission attempt for it, and is left alone by every other step *)
Theorem last_attempt_recorded s o s' outs qi q :
  step s o = Ok (s', outs) -> get_queue s qi = Some q ->
  match get_queue s' qi with
  | Some q' => if has_submit qi outs then last_of q' = Some (s_now s) else last_of q' = last_of q
  | None => True
  end.
Proof.
  intros H G.
  assert (K : forall s1 o1, only_events o1 -> keeps_last s s1 qi ->
              match get_queue s1 qi with
              | Some q' => if has_submit qi (OutRet true :: o1) then last_of q' = Some (s_now s) else last_of q' = last_of q
              | None => True
              end).
  { intros s1 o1 He Hk. destruct (Hk _ G) as (q' & G' & L). rewrite G'. simpl.
    now rewrite (only_events_no_submit _ qi He). }
  assert (R : forall s1 o1, last_rel s s1 qi o1 ->
              match get_queue s1 qi with
              | Some q' => if has_submit qi o1 then last_of q' = Some (s_now s) else last_of q' = last_of q
              | None => True
              end).
  { intros s1 o1 Hr. destruct (Hr _ G) as (q' & G' & L). now rewrite G'. }
  destruct o; simpl in H.
  - destruct lim as [[[delays sf] af]|]; [destruct delays; [discriminate|]|]; inv H;
      unfold get_queue in *; simpl; rewrite (alookup_app_some _ _ _ _ G); reflexivity.
  - apply R. eapply perform_submits_last; eauto.
  - destruct (negb (resp_valid r)); [discriminate|]. bind_inv H. destruct x as [[s1 o1] sc]. inv H.
    apply R. eapply queue_try_submit_last; eauto.
  - unfold do_periodic_update in H. destruct (negb (perm_of _ _)); [discriminate|].
    destruct (periodic_loop_keeps _ _ _ _ _ qi H _ G) as (q' & G' & L). rewrite G'.
    now rewrite (only_events_no_submit _ qi (periodic_loop_events _ _ _ _ _ H)).
  - destruct (worker_event s a (RConnected w)) as [s1 o1] eqn:Ew. inv H.
    apply K; eauto using worker_event_events, worker_event_keeps.
  - destruct (worker_event s a (RLost w crashed)) as [s1 o1] eqn:Ew. inv H.
    apply K; eauto using worker_event_events, worker_event_keeps.
  - inv H. rewrite G. reflexivity.
  - destruct (get_queue s q0) as [v|] eqn:Eq; inv H; [|rewrite G; reflexivity].
    destruct (keeps_last_set_queue s q0 (pause v) v qi Eq eq_refl _ G) as (q' & G' & L). now rewrite G'.
  - destruct (get_queue s q0) as [v|] eqn:Eq; inv H; [|rewrite G; reflexivity].
    destruct (keeps_last_set_queue s q0 (resume v) v qi Eq eq_refl _ G) as (q' & G' & L). now rewrite G'.
  - unfold remove_queue in H. destruct (get_queue s q0) as [v|] eqn:Eq; [|inv H; rewrite G; reflexivity].
    destruct (existsb is_running (q_allocs v) && negb force); [inv H; rewrite G; reflexivity|].
    bind_inv H. inv H. unfold get_queue in *; simpl.
    destruct (N.eq_dec qi q0) as [->|Hne]; [now rewrite alookup_filter_same|].
    rewrite alookup_filter_other; auto. rewrite G. simpl.
    rewrite has_submit_app, has_submit_removes. reflexivity.
  - inv H. unfold get_queue in *; simpl. rewrite G. reflexivity.
Qed.
