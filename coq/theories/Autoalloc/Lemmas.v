(** Basic lemmas about the autoalloc model: association lists, limiter, permits, the submit loop. *)
From HQ Require Import Base.Prelude Gen.Consts Autoalloc.Model Autoalloc.Spec.
From Coq Require Import ZifyBool ZifyN ZifyNat Lia.
Open Scope N_scope.
Arguments N.add : simpl never.
Arguments N.sub : simpl never.
Arguments N.mul : simpl never.
Arguments N.div : simpl never.
Arguments N.modulo : simpl never.
Arguments N.eqb : simpl never.
Arguments N.ltb : simpl never.
Arguments N.leb : simpl never.
Arguments N.min : simpl never.
Arguments N.of_nat : simpl never.
Arguments N.to_nat : simpl never.

Ltac inv H := inversion H; subst; clear H.

(** * res monad *)
Lemma bind_ok' {A B} (r : res A) (f : A -> res B) b :
  bind r f = Ok b -> exists a, r = Ok a /\ f a = Ok b.
Proof. apply bind_ok. Qed.

Lemma assert_or_ok b site u : assert_or b site = Ok u -> b = true.
Proof. destruct b; simpl; congruence. Qed.

Ltac bind_inv H :=
  let x := fresh "x" in let Hx := fresh "Hx" in
  apply bind_ok' in H; destruct H as [x [Hx H]].

(** * association lists *)
Lemma alookup_in {A} k (l : list (N * A)) v : alookup k l = Some v -> In (k, v) l.
Proof.
  induction l as [|[k' v'] l IH]; simpl; [discriminate|].
  destruct (k' =? k) eqn:E; intros H.
  - inv H. apply N.eqb_eq in E. subst. now left.
  - right. auto.
Qed.

Lemma in_alookup {A} k (l : list (N * A)) v :
  NoDup (map fst l) -> In (k, v) l -> alookup k l = Some v.
Proof.
  induction l as [|[k' v'] l IH]; simpl; [tauto|].
  intros ND [H|H].
  - inv H. now rewrite N.eqb_refl.
  - inv ND. destruct (k' =? k) eqn:E.
    + apply N.eqb_eq in E. subst. exfalso. apply H2. change k with (fst (k, v)). now apply in_map.
    + auto.
Qed.

Lemma alookup_update_queue_same q f l v :
  alookup q l = Some v -> alookup q (update_queue q f l) = Some (f v).
Proof.
  induction l as [|[k w] l IH]; simpl; [discriminate|].
  destruct (k =? q) eqn:E; simpl; rewrite E; intros H.
  - now inv H.
  - auto.
Qed.

Lemma alookup_update_queue_other q q' f l :
  q' <> q -> alookup q' (update_queue q f l) = alookup q' l.
Proof.
  intros Hne. induction l as [|[k w] l IH]; simpl; [reflexivity|].
  destruct (k =? q) eqn:E; simpl.
  - apply N.eqb_eq in E. subst. destruct (q =? q') eqn:E2; [apply N.eqb_eq in E2; congruence|auto].
  - destruct (k =? q'); auto.
Qed.

Lemma alookup_update_queue_none q q' f l :
  alookup q' l = None -> alookup q' (update_queue q f l) = None.
Proof.
  induction l as [|[k w] l IH]; simpl; [reflexivity|].
  destruct (k =? q') eqn:E; [discriminate|]. intros H.
  destruct (k =? q); simpl; rewrite E; auto.
Qed.

Lemma update_queue_keys q f l : map fst (update_queue q f l) = map fst l.
Proof.
  induction l as [|[k w] l IH]; simpl; [reflexivity|].
  destruct (k =? q); simpl; now rewrite IH.
Qed.

Lemma Forall_update_queue (P : queue -> Prop) q f l :
  Forall (fun kv => P (snd kv)) l ->
  (forall v, alookup q l = Some v \/ True -> P v -> P (f v)) ->
  Forall (fun kv => P (snd kv)) (update_queue q f l).
Proof.
  intros HF Hf. induction HF as [|[k w] l Hx HF IH]; simpl; constructor; auto.
  destruct (k =? q); simpl in *; auto.
Qed.

Lemma Forall_alookup {A} (P : A -> Prop) k (l : list (N * A)) v :
  Forall (fun kv => P (snd kv)) l -> alookup k l = Some v -> P v.
Proof.
  intros HF H. apply alookup_in in H. rewrite Forall_forall in HF. apply (HF _ H).
Qed.

Lemma Forall_set_queue (P : queue -> Prop) s q v :
  Forall (fun kv => P (snd kv)) (s_queues s) -> P v ->
  Forall (fun kv => P (snd kv)) (s_queues (set_queue s q v)).
Proof.
  intros HF Hv. unfold set_queue; simpl. apply Forall_update_queue; auto.
Qed.

Lemma get_queue_set_queue_same s q v v0 :
  get_queue s q = Some v0 -> get_queue (set_queue s q v) q = Some v.
Proof. unfold get_queue, set_queue; simpl. intros H. now rewrite (alookup_update_queue_same _ _ _ _ H). Qed.

Lemma get_queue_set_queue_other s q q' v :
  q' <> q -> get_queue (set_queue s q v) q' = get_queue s q'.
Proof. unfold get_queue, set_queue; simpl. intros. now apply alookup_update_queue_other. Qed.

(** * limiter *)
Lemma lim_ok_increase l : lim_ok l = true -> lim_ok (increase_delay l) = true.
Proof.
  unfold lim_ok, increase_delay. intros H.
  destruct (l_level l <? N.of_nat (length (l_delays l)) - 1) eqn:E; simpl; lia.
Qed.

Lemma lim_ok_pos l : lim_ok l = true -> 0 < N.of_nat (length (l_delays l)).
Proof. unfold lim_ok. lia. Qed.

Lemma lim_ok_on_submission_success l : lim_ok l = true -> lim_ok (on_submission_success l) = true.
Proof. unfold lim_ok, on_submission_success; simpl. destruct (l_afails l =? 0); lia. Qed.
Lemma lim_ok_on_submission_fail l : lim_ok l = true -> lim_ok (on_submission_fail l) = true.
Proof. intros. unfold on_submission_fail. apply lim_ok_increase. exact H. Qed.
Lemma lim_ok_on_allocation_success l : lim_ok l = true -> lim_ok (on_allocation_success l) = true.
Proof. unfold lim_ok, on_allocation_success; simpl. lia. Qed.
Lemma lim_ok_on_allocation_fail l : lim_ok l = true -> lim_ok (on_allocation_fail l) = true.
Proof. intros. unfold on_allocation_fail. apply lim_ok_increase. exact H. Qed.
Lemma lim_ok_on_submission_attempt now l : lim_ok l = true -> lim_ok (on_submission_attempt now l) = true.
Proof. unfold lim_ok; simpl. auto. Qed.
Lemma lim_ok_on_queue_resumed l : lim_ok l = true -> lim_ok (on_queue_resumed l) = true.
Proof. unfold lim_ok; simpl. auto. Qed.
Lemma lim_ok_new delays sf af : delays <> [] -> lim_ok (new_limiter delays sf af) = true.
Proof. unfold lim_ok, new_limiter; simpl. destruct delays; [congruence|]. simpl. lia. Qed.
Lemma lim_ok_default : lim_ok default_limiter = true.
Proof. vm_compute. reflexivity. Qed.

Lemma exhausted_status now l :
  lim_exhausted l = true <->
  (submission_status now l = LTooManyAlloc \/ submission_status now l = LTooManySub).
Proof.
  unfold lim_exhausted, submission_status.
  destruct (l_maxaf l <=? l_afails l) eqn:E1; simpl.
  - split; auto.
  - destruct (l_maxsf l <=? l_sfails l) eqn:E2; simpl.
    + split; auto.
    + split; [discriminate|]. destruct (l_last l); [destruct (_ <? _)|]; intros [H|H]; discriminate.
Qed.

Lemma status_ok_iff now l :
  submission_status now l = LOk <-> (lim_exhausted l = false /\ backoff_elapsed now l = true).
Proof.
  unfold lim_exhausted, submission_status, backoff_elapsed.
  destruct (l_maxaf l <=? l_afails l) eqn:E1; simpl; [split; [discriminate|intros [? ?]; discriminate]|].
  destruct (l_maxsf l <=? l_sfails l) eqn:E2; simpl; [split; [discriminate|intros [? ?]; discriminate]|].
  destruct (l_last l); [destruct (_ <? _)|]; simpl; split; try tauto; try discriminate; intros [? ?]; discriminate.
Qed.

(** * counting allocations *)
Definition qcount (l : list alloc) : N := N.of_nat (length (filter is_queued l)).
Definition acount (l : list alloc) : N := sum_targets (filter is_active l).

Lemma queued_count_eq q : queued_count q = qcount (q_allocs q).
Proof. reflexivity. Qed.
Lemma active_worker_count_eq q : active_worker_count q = acount (q_allocs q).
Proof. reflexivity. Qed.

Lemma sum_targets_app l1 l2 : sum_targets (l1 ++ l2) = sum_targets l1 + sum_targets l2.
Proof. induction l1; simpl; [lia|]. rewrite IHl1. lia. Qed.

Lemma qcount_app l1 l2 : qcount (l1 ++ l2) = qcount l1 + qcount l2.
Proof. unfold qcount. rewrite filter_app, app_length. lia. Qed.
Lemma acount_app l1 l2 : acount (l1 ++ l2) = acount l1 + acount l2.
Proof. unfold acount. rewrite filter_app, sum_targets_app. reflexivity. Qed.

Lemma qcount_new id n : qcount [new_alloc id n] = 1.
Proof. reflexivity. Qed.
Lemma acount_new id n : acount [new_alloc id n] = n.
Proof. unfold acount; simpl. lia. Qed.

(** one allocation evolved: same identity and size, never (back) into queued / active *)
Definition alloc_le (a a' : alloc) : Prop :=
  a_id a' = a_id a /\ a_target a' = a_target a
  /\ (is_queued a' = true -> is_queued a = true)
  /\ (is_active a' = true -> is_active a = true).

Lemma alloc_le_refl a : alloc_le a a.
Proof. unfold alloc_le; tauto. Qed.

Lemma alloc_le_trans a b c : alloc_le a b -> alloc_le b c -> alloc_le a c.
Proof. unfold alloc_le. intros (?&?&?&?) (?&?&?&?). repeat split; try congruence; auto. Qed.

Lemma Forall2_alloc_le_refl l : Forall2 alloc_le l l.
Proof. induction l; constructor; auto using alloc_le_refl. Qed.

Lemma Forall2_alloc_le_trans l1 l2 l3 :
  Forall2 alloc_le l1 l2 -> Forall2 alloc_le l2 l3 -> Forall2 alloc_le l1 l3.
Proof.
  intros H. revert l3. induction H; intros l3 H3; inv H3; constructor; eauto using alloc_le_trans.
Qed.

Lemma Forall2_alloc_le_counts l l' :
  Forall2 alloc_le l l' -> qcount l' <= qcount l /\ acount l' <= acount l.
Proof.
  unfold qcount, acount. induction 1 as [|a a' l l' Ha _ IH]; simpl; [lia|].
  destruct Ha as (_ & Ht & Hq & Hact).
  destruct (is_queued a') eqn:Eq'; [rewrite (Hq eq_refl)|destruct (is_queued a)];
  (destruct (is_active a') eqn:Ea'; [rewrite (Hact eq_refl)|destruct (is_active a)]); simpl; lia.
Qed.

Lemma Forall2_alloc_le_sizes mwpa l l' :
  Forall2 alloc_le l l' -> forallb (size_ok mwpa) l = true -> forallb (size_ok mwpa) l' = true.
Proof.
  induction 1 as [|a a' l l' Ha _ IH]; simpl; [auto|].
  rewrite !andb_true_iff. intros [H1 H2]. split; auto.
  destruct Ha as (_ & Ht & _). unfold size_ok in *. rewrite Ht. exact H1.
Qed.

Lemma update_alloc_le id a' l :
  (forall a, In a l -> a_id a = id -> alloc_le a a') ->
  Forall2 alloc_le l (update_alloc id (fun _ => a') l).
Proof.
  induction l as [|a l IH]; simpl; intros H; constructor.
  - destruct (a_id a =? id) eqn:E; [apply N.eqb_eq in E; apply H; auto|apply alloc_le_refl].
  - apply IH. intros; apply H; auto.
Qed.

Lemma find_alloc_in id l a : find_alloc id l = Some a -> In a l /\ a_id a = id.
Proof.
  unfold find_alloc. intros H. apply find_some in H. destruct H as [H1 H2].
  apply N.eqb_eq in H2. auto.
Qed.

Lemma update_alloc_ids id f l :
  (forall a, a_id (f a) = a_id a) -> map a_id (update_alloc id f l) = map a_id l.
Proof.
  intros Hf. induction l as [|a l IH]; simpl; [reflexivity|].
  rewrite IH. destruct (a_id a =? id); [rewrite Hf|]; reflexivity.
Qed.

(** * the queue-level invariant of C17, in Prop form *)
Definition qinv (q : queue) : Prop :=
  qcount (q_allocs q) <= q_backlog q
  /\ (forall m, q_maxw q = Some m -> acount (q_allocs q) <= m)
  /\ forallb (size_ok (q_mwpa q)) (q_allocs q) = true
  /\ lim_ok (q_lim q) = true.

Lemma qinv_iff q : queue_limits_ok q = true <-> qinv q.
Proof.
  unfold queue_limits_ok, qinv. rewrite !andb_true_iff, queued_count_eq, active_worker_count_eq.
  split.
  - intros [[[H1 H2] H3] H4]. repeat split; auto; [lia|]. intros m Hm. rewrite Hm in H2. lia.
  - intros (H1 & H2 & H3 & H4). repeat split; auto; [lia|].
    destruct (q_maxw q) as [m|]; [specialize (H2 m eq_refl); lia|reflexivity].
Qed.

(** same parameters *)
Definition same_params (q q' : queue) : Prop :=
  q_backlog q' = q_backlog q /\ q_mwpa q' = q_mwpa q /\ q_maxw q' = q_maxw q.

Lemma same_params_refl q : same_params q q.
Proof. unfold same_params; tauto. Qed.
Lemma same_params_trans a b c : same_params a b -> same_params b c -> same_params a c.
Proof. unfold same_params. intros (?&?&?) (?&?&?). repeat split; congruence. Qed.

(** a queue evolved without gaining queued / active allocations *)
Definition queue_le (q q' : queue) : Prop :=
  same_params q q' /\ Forall2 alloc_le (q_allocs q) (q_allocs q')
  /\ (lim_ok (q_lim q) = true -> lim_ok (q_lim q') = true).

Lemma queue_le_refl q : queue_le q q.
Proof. unfold queue_le. split; [apply same_params_refl|]. split; [apply Forall2_alloc_le_refl|auto]. Qed.
Lemma queue_le_trans a b c : queue_le a b -> queue_le b c -> queue_le a c.
Proof.
  unfold queue_le. intros (?&?&?) (?&?&?).
  split; [eauto using same_params_trans|]. split; [eauto using Forall2_alloc_le_trans|auto].
Qed.

Lemma queue_le_qinv q q' : queue_le q q' -> qinv q -> qinv q'.
Proof.
  intros ((Hb & Hm & Hw) & Hall & Hl) (H1 & H2 & H3 & H4).
  destruct (Forall2_alloc_le_counts _ _ Hall) as [Hq Ha].
  unfold qinv. rewrite Hb, Hm, Hw. repeat split; auto.
  - lia.
  - intros m Hm'. specialize (H2 m Hm'). lia.
  - eapply Forall2_alloc_le_sizes; eauto.
Qed.

(** * permits *)
Fixpoint sum_list (l : list N) : N := match l with [] => 0 | x :: r => x + sum_list r end.

Lemma permit_loop_props mwpa cands : forall remaining out,
  permit_loop mwpa cands remaining = Ok out ->
  (length out <= length cands)%nat /\ sum_list out <= remaining
  /\ Forall (fun n => 1 <= n /\ n <= mwpa) out.
Proof.
  induction cands as [|t r IH]; simpl; intros remaining out H.
  - inv H. simpl. repeat split; auto; lia.
  - bind_inv H. apply assert_or_ok in Hx.
    destruct (N.min t remaining =? 0) eqn:E.
    + inv H. simpl. repeat split; auto; lia.
    + bind_inv H. inv H. destruct (IH _ _ Hx0) as (L & S & F).
      simpl. repeat split; [lia|lia|]. constructor; auto. lia.
Qed.

Lemma gen_allocs_length fuel : forall mn mnw full mwpa rem,
  (length (gen_allocs fuel mn mnw full mwpa rem) <= fuel)%nat.
Proof.
  induction fuel as [|f IH]; simpl; intros; [lia|].
  destruct (0 <? mn); simpl; [specialize (IH (mn - 1) mnw full mwpa rem); lia|].
  destruct (0 <? full); simpl; [specialize (IH mn mnw (full - 1) mwpa rem); lia|].
  destruct (negb (rem =? 0)); simpl; lia.
Qed.

Lemma permit_props q r p :
  compute_submission_permit q r = Ok p ->
  N.of_nat (length p) <= q_backlog q - qcount (q_allocs q)
  /\ (forall m, q_maxw q = Some m -> sum_list p <= m - acount (q_allocs q))
  /\ Forall (fun n => 1 <= n /\ n <= q_mwpa q) p.
Proof.
  unfold compute_submission_permit. intros H. bind_inv H. clear Hx x.
  rewrite active_worker_count_eq in H.
  destruct (_ =? 0) eqn:E0 in H.
  - inv H. simpl. repeat split; auto; try lia; intros; lia.
  - destruct (permit_step1 _ _ _ _) as [mn sn]. bind_inv H. clear Hx x.
    apply permit_loop_props in H. destruct H as (L & S & F).
    pose proof (gen_allocs_length (N.to_nat (q_backlog q - N.of_nat (length (filter is_queued (q_allocs q)))))
                  mn (resp_mnw r) (sn / q_mwpa q) (q_mwpa q) (sn mod q_mwpa q)) as G.
    unfold qcount. repeat split; auto; [lia|].
    intros m Hm. rewrite Hm in S. exact S.
Qed.

Lemma permit_empty_resp q r p :
  compute_submission_permit q r = Ok p -> resp_is_empty r = true -> p = [].
Proof.
  unfold compute_submission_permit, resp_is_empty. intros H Hr.
  apply andb_true_iff in Hr. destruct Hr as [Hs Hm].
  bind_inv H. destruct (_ =? 0) in H; [now inv H|].
  assert (Hst : forall l, permit_step1 (resp_mnw r) l 0 0 = (0, 0)).
  { induction l as [|a l IH]; simpl; auto. }
  apply N.eqb_eq in Hs, Hm. rewrite Hs, Hm, Hst in H.
  bind_inv H. apply assert_or_ok in Hx0.
  replace (0 / q_mwpa q) with 0 in H by (symmetry; apply N.div_0_l; lia).
  replace (0 mod q_mwpa q) with 0 in H by (symmetry; apply N.mod_0_l; lia).
  destruct (N.to_nat _) in H; simpl in H; [now inv H|].
  replace (0 <? 0) with false in H by reflexivity. simpl in H. now inv H.
Qed.

(** * the submit loop *)
Lemma submit_loop_params qi permit : forall script q idx q2 idx2 outs sc,
  submit_loop qi permit script q idx = Ok (q2, idx2, outs, sc) ->
  same_params q q2 /\ q_active q2 = q_active q.
Proof.
  induction permit as [|n rest IH]; simpl; intros script q idx q2 idx2 outs sc H.
  - inv H. split; [apply same_params_refl|reflexivity].
  - destruct script as [|[id| |] script']; [discriminate| | |].
    + destruct (alookup id idx); [discriminate|]. bind_inv H. bind_inv H.
      destruct x0 as [[[q2' idx2'] outs'] sc']. inv H.
      apply IH in Hx0. destruct Hx0 as [Hp Ha]. split; [|exact Ha].
      eapply same_params_trans; [|exact Hp]. unfold same_params; simpl; tauto.
    + inv H. split; [unfold same_params; simpl; tauto|reflexivity].
    + inv H. split; [unfold same_params; simpl; tauto|reflexivity].
Qed.

Lemma submit_loop_qinv qi permit : forall script q idx q2 idx2 outs sc,
  submit_loop qi permit script q idx = Ok (q2, idx2, outs, sc) ->
  qcount (q_allocs q) + N.of_nat (length permit) <= q_backlog q ->
  (forall m, q_maxw q = Some m -> acount (q_allocs q) + sum_list permit <= m) ->
  forallb (size_ok (q_mwpa q)) (q_allocs q) = true ->
  Forall (fun n => 1 <= n /\ n <= q_mwpa q) permit ->
  lim_ok (q_lim q) = true ->
  qinv q2.
Proof.
  induction permit as [|n rest IH]; simpl; intros script q idx q2 idx2 outs sc H Hb Hm Hs Hp Hl.
  - inv H. unfold qinv. repeat split; auto; [lia|]. intros m Hm'. specialize (Hm m Hm'). lia.
  - destruct script as [|[id| |] script']; [discriminate| | |].
    + destruct (alookup id idx); [discriminate|]. bind_inv H. bind_inv H.
      destruct x0 as [[[q2' idx2'] outs'] sc']. inv H.
      inv Hp.
      eapply IH in Hx0; eauto; simpl.
      * rewrite qcount_app, qcount_new. lia.
      * intros m Hm'. specialize (Hm m Hm'). rewrite acount_app, acount_new. lia.
      * rewrite forallb_app, Hs. simpl. unfold size_ok; simpl. lia.
      * apply lim_ok_on_submission_success. exact Hl.
    + inv H. unfold qinv; simpl. repeat split; auto; [lia| |apply lim_ok_on_submission_fail; exact Hl].
      intros m Hm'. specialize (Hm m Hm'). lia.
    + inv H. unfold qinv; simpl. repeat split; auto; [lia| |apply lim_ok_on_submission_fail; exact Hl].
      intros m Hm'. specialize (Hm m Hm'). lia.
Qed.

(** every [OutSubmit] of the loop is for queue [qi]; a non-empty permit makes at least one call *)
Lemma submit_loop_outs qi permit : forall script q idx q2 idx2 outs sc,
  submit_loop qi permit script q idx = Ok (q2, idx2, outs, sc) ->
  (forall q' , has_submit q' outs = true -> q' = qi)
  /\ (permit <> [] -> has_submit qi outs = true).
Proof.
  induction permit as [|n rest IH]; simpl; intros script q idx q2 idx2 outs sc H.
  - inv H. split; [simpl; discriminate|congruence].
  - destruct script as [|[id| |] script']; [discriminate| | |].
    + destruct (alookup id idx); [discriminate|]. bind_inv H. bind_inv H.
      destruct x0 as [[[q2' idx2'] outs'] sc']. inv H.
      apply IH in Hx0. destruct Hx0 as [H1 H2]. split.
      * intros q'. simpl. rewrite orb_true_iff. intros [E|E]; [apply N.eqb_eq in E; auto|auto].
      * intros _. simpl. now rewrite N.eqb_refl.
    + inv H. split.
      * intros q'. simpl. rewrite orb_false_r. intros E. apply N.eqb_eq in E. auto.
      * intros _. simpl. now rewrite N.eqb_refl.
    + inv H. split.
      * intros q'. simpl. rewrite orb_false_r. intros E. apply N.eqb_eq in E. auto.
      * intros _. simpl. now rewrite N.eqb_refl.
Qed.
