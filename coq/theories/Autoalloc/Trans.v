(** How one queue evolves across any step of the autoalloc state machine: every step transforms
    each existing queue by a sequence of primitive transformations (or removes it).  Properties
    preserved by the primitives lift to all steps (used by C17 "a paused queue stays paused" and by
    C18 "lifecycle is monotone"). *)
From HQ Require Import Base.Prelude Gen.Consts Autoalloc.Model Autoalloc.Spec Autoalloc.Lemmas.
From Coq Require Import ZifyBool ZifyN ZifyNat Lia.
Open Scope N_scope.
Arguments N.add : simpl never.
Arguments N.sub : simpl never.
Arguments N.mul : simpl never.
Arguments N.eqb : simpl never.
Arguments N.ltb : simpl never.
Arguments N.leb : simpl never.
Arguments N.of_nat : simpl never.

(** one allocation across one transformation: same identity and size, never backwards, frozen
    once finished *)
Definition alloc_trans (a a' : alloc) : Prop :=
  a_id a' = a_id a /\ a_target a' = a_target a
  /\ rank (a_status a) <= rank (a_status a')
  /\ (is_finished a = true -> a' = a).

Lemma alloc_trans_refl a : alloc_trans a a.
Proof. unfold alloc_trans. repeat split; auto; lia. Qed.

Lemma alloc_trans_trans a b c : alloc_trans a b -> alloc_trans b c -> alloc_trans a c.
Proof.
  unfold alloc_trans. intros (A1 & A2 & A3 & A4) (B1 & B2 & B3 & B4).
  repeat split; try congruence; try lia.
  intros Hf. specialize (A4 Hf). subst b. auto.
Qed.

Lemma sync_alloc_trans qi a r a' evs fin : sync_alloc qi a r = (a', evs, fin) -> alloc_trans a a'.
Proof.
  unfold sync_alloc, alloc_trans, is_finished. destruct a as [id tg st].
  destruct r; destruct st; simpl; intros H;
    repeat match type of H with context [if ?c then _ else _] => destruct c end;
    inv H; simpl; repeat split; auto; try lia; try discriminate.
Qed.

Lemma bump_trans qi a a' evs : increase_status_error_counter qi a = (a', evs) -> alloc_trans a a'.
Proof.
  unfold increase_status_error_counter, alloc_trans, is_finished. destruct a as [id tg st].
  destruct st; simpl; intros H;
    repeat match type of H with context [if ?c then _ else _] => destruct c end;
    inv H; simpl; repeat split; auto; try lia; try discriminate.
Qed.

(** primitive transformations of a queue; [ar] = resuming is allowed *)
Inductive qprim (ar : bool) : queue -> queue -> Prop :=
| qp_alloc q id a a' :
    find_alloc id (q_allocs q) = Some a -> alloc_trans a a' ->
    qprim ar q (set_allocs (update_alloc id (fun _ => a') (q_allocs q)) q)
| qp_lim q l : qprim ar q (set_lim l q)
| qp_new q id n :
    find_alloc id (q_allocs q) = None ->
    qprim ar q (set_allocs (q_allocs q ++ [new_alloc id n]) q)
| qp_pause q : qprim ar q (pause q)
| qp_resume q : ar = true -> qprim ar q (resume q).

Inductive qtrans (ar : bool) : queue -> queue -> Prop :=
| qt_refl q : qtrans ar q q
| qt_step q1 q2 q3 : qtrans ar q1 q2 -> qprim ar q2 q3 -> qtrans ar q1 q3.

Lemma qtrans_trans ar a b c : qtrans ar a b -> qtrans ar b c -> qtrans ar a c.
Proof. intros H1 H2. induction H2; [exact H1|]. eapply qt_step; [apply IHqtrans; exact H1|exact H]. Qed.

Lemma qtrans_prim ar a b : qprim ar a b -> qtrans ar a b.
Proof. intros. eapply qt_step; [apply qt_refl|auto]. Qed.

Lemma qtrans_weaken a b : qtrans false a b -> forall ar, qtrans ar a b.
Proof.
  induction 1; intros ar; [apply qt_refl|]. eapply qt_step; [apply IHqtrans|].
  inv H0; [eapply qp_alloc; eauto|apply qp_lim|apply qp_new; auto|apply qp_pause|congruence].
Qed.

(** * the functions of the model are such sequences *)
Lemma sync_allocation_status_qtrans ar qi q id r q' outs :
  sync_allocation_status qi q id r = (q', outs) -> qtrans ar q q'.
Proof.
  unfold sync_allocation_status. intros H.
  destruct (find_alloc id (q_allocs q)) as [a|] eqn:Ef; [|inv H; apply qt_refl].
  destruct (sync_alloc qi a r) as [[a' evs] fin] eqn:Es.
  pose proof (sync_alloc_trans _ _ _ _ _ _ Es) as Ht.
  pose proof (qp_alloc ar q id a a' Ef Ht) as P.
  destruct fin as [[|]|]; inv H.
  - eapply qt_step; [apply qtrans_prim; exact P|]. apply qp_lim.
  - eapply qt_step; [apply qtrans_prim; exact P|]. apply qp_lim.
  - apply qtrans_prim; exact P.
Qed.

Lemma bump_qtrans ar qi q id :
  qtrans ar q (fst (match find_alloc id (q_allocs q) with
                    | Some a => let '(a', evs) := increase_status_error_counter qi a in
                                (set_allocs (update_alloc id (fun _ => a') (q_allocs q)) q, evs)
                    | None => (q, [])
                    end)).
Proof.
  destruct (find_alloc id (q_allocs q)) as [a|] eqn:Ef; [|apply qt_refl].
  destruct (increase_status_error_counter qi a) as [a' evs] eqn:Ei. simpl.
  apply qtrans_prim. eapply qp_alloc; eauto. eapply bump_trans; eauto.
Qed.

Lemma refresh_loop_qtrans ar qi sts : forall q q' outs,
  refresh_loop qi q sts = (q', outs) -> qtrans ar q q'.
Proof.
  induction sts as [|[id x] rest IH]; simpl; intros q q' outs H.
  - inv H. apply qt_refl.
  - destruct (reason_of x) as [r|] eqn:Er.
    + destruct (sync_allocation_status qi q id r) as [q1 o1] eqn:Es.
      destruct (refresh_loop qi q1 rest) as [q2 o2] eqn:El. inv H.
      eapply qtrans_trans; [eapply sync_allocation_status_qtrans; eauto|eauto].
    + pose proof (bump_qtrans ar qi q id) as H1.
      destruct (find_alloc id (q_allocs q)) as [a|] eqn:Ef.
      * destruct (increase_status_error_counter qi a) as [a' evs] eqn:Ei. simpl in *.
        destruct (refresh_loop qi _ rest) as [q2 o2] eqn:El. inv H.
        eapply qtrans_trans; [exact H1|eauto].
      * simpl in *. destruct (refresh_loop qi q rest) as [q2 o2] eqn:El. inv H. eauto.
Qed.

Lemma refresh_err_loop_qtrans ar qi order : forall q q' outs,
  refresh_err_loop qi q order = (q', outs) -> qtrans ar q q'.
Proof.
  induction order as [|id rest IH]; simpl; intros q q' outs H.
  - inv H. apply qt_refl.
  - pose proof (bump_qtrans ar qi q id) as H1.
    destruct (find_alloc id (q_allocs q)) as [a|] eqn:Ef.
    + destruct (increase_status_error_counter qi a) as [a' evs] eqn:Ei. simpl in *.
      destruct (refresh_err_loop qi _ rest) as [q2 o2] eqn:El. inv H.
      eapply qtrans_trans; [exact H1|eauto].
    + simpl in *. destruct (refresh_err_loop qi q rest) as [q2 o2] eqn:El. inv H. eauto.
Qed.

Lemma submit_loop_qtrans ar qi permit : forall script q idx q2 idx2 outs sc,
  submit_loop qi permit script q idx = Ok (q2, idx2, outs, sc) -> qtrans ar q q2.
Proof.
  induction permit as [|n rest IH]; simpl; intros script q idx q2 idx2 outs sc H.
  - inv H. apply qt_refl.
  - destruct script as [|[id| |] script']; [discriminate| | |].
    + destruct (alookup id idx); [discriminate|]. bind_inv H. bind_inv H.
      destruct x0 as [[[q2' idx2'] outs'] sc']. inv H.
      apply assert_or_ok in Hx.
      destruct (find_alloc id (q_allocs q)) eqn:Ef; [discriminate|].
      eapply qtrans_trans; [|eapply IH; eauto].
      eapply qt_step; [apply qtrans_prim; apply (qp_new ar q id n Ef)|]. apply qp_lim.
    + inv H. apply qtrans_prim. apply qp_lim.
    + inv H. apply qtrans_prim. apply qp_lim.
Qed.

Lemma try_pause_queue_qtrans ar now q : qtrans ar q (try_pause_queue now q).
Proof.
  unfold try_pause_queue. destruct (negb (q_active q)); [apply qt_refl|].
  destruct (submission_status now (q_lim q)); try apply qt_refl; apply qtrans_prim; apply qp_pause.
Qed.

(** * lifting to states *)
Lemma alookup_app_some {A} k (l1 l2 : list (N * A)) v :
  alookup k l1 = Some v -> alookup k (l1 ++ l2) = Some v.
Proof.
  induction l1 as [|[k' v'] l IH]; simpl; [discriminate|]. destruct (k' =? k); auto.
Qed.

Lemma alookup_filter_other {A} k q (l : list (N * A)) :
  k <> q -> alookup k (filter (fun kv => negb (fst kv =? q)) l) = alookup k l.
Proof.
  intros Hne. induction l as [|[k' v'] l IH]; simpl; auto.
  destruct (k' =? q) eqn:E; simpl.
  - apply N.eqb_eq in E. subst. destruct (q =? k) eqn:E2; [apply N.eqb_eq in E2; congruence|auto].
  - destruct (k' =? k); auto.
Qed.

Lemma alookup_filter_same {A} q (l : list (N * A)) :
  alookup q (filter (fun kv => negb (fst kv =? q)) l) = None.
Proof.
  induction l as [|[k' v'] l IH]; simpl; auto.
  destruct (k' =? q) eqn:E; simpl; auto. now rewrite E.
Qed.

(** what a state transformer does to the queue [qi] that existed before *)
Definition lifts (ar : bool) (s s' : state) (qi : qid) : Prop :=
  forall q, get_queue s qi = Some q -> exists q', get_queue s' qi = Some q' /\ qtrans ar q q'.

Lemma lifts_refl ar s qi : lifts ar s s qi.
Proof. intros q H. exists q. split; auto. apply qt_refl. Qed.

Lemma lifts_trans ar s1 s2 s3 qi : lifts ar s1 s2 qi -> lifts ar s2 s3 qi -> lifts ar s1 s3 qi.
Proof.
  intros H1 H2 q Hq. destruct (H1 _ Hq) as (q' & G & T). destruct (H2 _ G) as (q'' & G' & T').
  exists q''. split; auto. eapply qtrans_trans; eauto.
Qed.

Lemma lifts_set_queue ar s qj v v0 qi :
  get_queue s qj = Some v0 -> qtrans ar v0 v -> lifts ar s (set_queue s qj v) qi.
Proof.
  intros G T q Hq. destruct (N.eq_dec qi qj) as [->|Hne].
  - exists v. split; [eapply get_queue_set_queue_same; eauto|]. congruence.
  - exists q. split; [rewrite get_queue_set_queue_other; auto|apply qt_refl].
Qed.

Lemma queue_try_submit_lifts s qj r script s' outs sc qi :
  queue_try_submit s qj r script = Ok (s', outs, sc) -> lifts false s s' qi.
Proof.
  unfold queue_try_submit. intros H.
  destruct (resp_is_empty r); [inv H; apply lifts_refl|].
  destruct (get_queue s qj) as [q|] eqn:Eq; [|inv H; apply lifts_refl].
  destruct (negb (q_active q)); [inv H; apply lifts_refl|].
  bind_inv H. destruct x as [|p0 permit]; [inv H; apply lifts_refl|].
  destruct (submission_status (s_now s) (q_lim q)); try (inv H; apply lifts_refl).
  bind_inv H. destruct x as [[[q1 idx1] outs1] sc1]. inv H.
  apply (submit_loop_qtrans false) in Hx0.
  intros v Hv. destruct (N.eq_dec qi qj) as [->|Hne].
  - exists q1. unfold get_queue in *; simpl. rewrite (alookup_update_queue_same _ _ _ _ Eq). split; auto.
    rewrite Eq in Hv. inv Hv. eapply qtrans_trans; [|exact Hx0]. apply qtrans_prim. apply qp_lim.
  - exists v. unfold get_queue in *; simpl. rewrite alookup_update_queue_other; auto. split; auto. apply qt_refl.
Qed.

Lemma get_queue_try_pause_all' s qi :
  get_queue (try_pause_all s) qi = option_map (try_pause_queue (s_now s)) (get_queue s qi).
Proof.
  unfold get_queue, try_pause_all; simpl. induction (s_queues s) as [|[k v] l IH]; simpl; auto.
  destruct (k =? qi); auto.
Qed.

Lemma try_pause_all_lifts s qi : lifts false s (try_pause_all s) qi.
Proof.
  intros q Hq. rewrite get_queue_try_pause_all', Hq. simpl. eexists. split; eauto.
  apply try_pause_queue_qtrans.
Qed.

Lemma submit_queues_lifts order : forall s resps scripts s' outs qi,
  submit_queues s order resps scripts = Ok (s', outs) -> lifts false s s' qi.
Proof.
  induction order as [|qj order IH]; simpl; intros s resps scripts s' outs qi H.
  - inv H. apply lifts_refl.
  - destruct resps as [|r resps]; [inv H; apply lifts_refl|].
    bind_inv H. destruct x as [[s1 o1] sc1]. bind_inv H. destruct x as [s2 o2]. inv H.
    eapply lifts_trans; [eapply queue_try_submit_lifts; eauto|eauto].
Qed.

Lemma perform_submits_lifts s order resps scripts s' outs qi :
  perform_submits s order resps scripts = Ok (s', outs) -> lifts false s s' qi.
Proof.
  unfold perform_submits. intros H.
  destruct (negb (perm_of order (active_qids (try_pause_all s)))); [discriminate|].
  destruct (negb (forallb resp_valid resps)); [discriminate|].
  destruct (active_qids (try_pause_all s)); [inv H; apply try_pause_all_lifts|].
  bind_inv H. destruct x; [inv H; apply try_pause_all_lifts|].
  bind_inv H. bind_inv H. destruct x0 as [s2 o2]. inv H.
  eapply lifts_trans; [apply try_pause_all_lifts|].
  eapply lifts_trans; [eapply submit_queues_lifts; eauto|apply try_pause_all_lifts].
Qed.

Lemma refresh_queue_allocations_lifts s qj w s' outs qi :
  refresh_queue_allocations s qj w = Ok (s', outs) -> lifts false s s' qi.
Proof.
  unfold refresh_queue_allocations. intros H.
  destruct (get_queue s qj) as [q|] eqn:Eq; [|inv H; apply lifts_refl].
  destruct (active_ids q); [destruct w; [discriminate|inv H; apply lifts_refl]|].
  destruct w as [sw|]; [|discriminate].
  destruct (negb (perm_of _ _)); [discriminate|].
  destruct (sw_err sw).
  - destruct (refresh_err_loop qj q (map fst (sw_sts sw))) as [q' o'] eqn:El. inv H.
    eapply lifts_set_queue; eauto. eapply refresh_err_loop_qtrans; eauto.
  - destruct (refresh_loop qj q (sw_sts sw)) as [q' o'] eqn:El. inv H.
    eapply lifts_set_queue; eauto. eapply refresh_loop_qtrans; eauto.
Qed.

Lemma periodic_loop_lifts order : forall s wits s' outs qi,
  periodic_loop s order wits = Ok (s', outs) -> lifts false s s' qi.
Proof.
  induction order as [|qj order IH]; simpl; intros s wits s' outs qi H.
  - inv H. apply lifts_refl.
  - bind_inv H. destruct x as [s1 o1]. bind_inv H. destruct x as [s2 o2]. inv H.
    eapply lifts_trans; [eapply refresh_queue_allocations_lifts; eauto|eauto].
Qed.

Lemma worker_event_lifts s id r s' outs qi :
  worker_event s id r = (s', outs) -> lifts false s s' qi.
Proof.
  unfold worker_event. intros H.
  destruct (alookup id (s_index s)) as [qj|]; [|inv H; apply lifts_refl].
  destruct (get_queue s qj) as [q|] eqn:Eq; [|inv H; apply lifts_refl].
  destruct (sync_allocation_status qj q id r) as [q' o'] eqn:Es. inv H.
  eapply lifts_set_queue; eauto. eapply sync_allocation_status_qtrans; eauto.
Qed.

Definition is_resume_of (o : op) (qi : qid) : bool :=
  match o with OResume q => q =? qi | _ => false end.

(** ** every step transforms each existing queue by primitive transformations, or removes it *)
Theorem step_qtrans s o s' outs qi q :
  step s o = Ok (s', outs) -> get_queue s qi = Some q ->
  match get_queue s' qi with
  | Some q' => qtrans (is_resume_of o qi) q q'
  | None => exists force, o = ORemove qi force
  end.
Proof.
  intros H Hq.
  assert (L : forall s1, lifts false s s1 qi ->
              match get_queue s1 qi with
              | Some q' => qtrans (is_resume_of o qi) q q'
              | None => exists force, o = ORemove qi force
              end).
  { intros s1 L. destruct (L _ Hq) as (q' & G & T). rewrite G. now apply qtrans_weaken. }
  destruct o; simpl in H.
  - destruct lim as [[[delays sf] af]|]; [destruct delays; [discriminate|]|]; inv H;
      unfold get_queue in *; simpl; rewrite (alookup_app_some _ _ _ _ Hq); apply qt_refl.
  - apply L. eapply perform_submits_lifts; eauto.
  - destruct (negb (resp_valid r)); [discriminate|]. bind_inv H. destruct x as [[s1 o1] sc]. inv H.
    apply L. eapply queue_try_submit_lifts; eauto.
  - unfold do_periodic_update in H. destruct (negb (perm_of _ _)); [discriminate|].
    apply L. eapply periodic_loop_lifts; eauto.
  - destruct (worker_event s a (RConnected w)) as [s1 o1] eqn:Ew. inv H.
    apply L. eapply worker_event_lifts; eauto.
  - destruct (worker_event s a (RLost w crashed)) as [s1 o1] eqn:Ew. inv H.
    apply L. eapply worker_event_lifts; eauto.
  - inv H. rewrite Hq. apply qt_refl.
  - destruct (get_queue s q0) as [v|] eqn:Eq; inv H; [|rewrite Hq; apply qt_refl].
    apply L. eapply lifts_set_queue; eauto. apply qtrans_prim. apply qp_pause.
  - destruct (get_queue s q0) as [v|] eqn:Eq; inv H; [|rewrite Hq; apply qt_refl].
    simpl. destruct (N.eq_dec qi q0) as [->|Hne].
    + rewrite (get_queue_set_queue_same _ _ _ _ Eq). rewrite Eq in Hq. inv Hq.
      apply qtrans_prim. apply qp_resume. apply N.eqb_refl.
    + rewrite get_queue_set_queue_other; auto. rewrite Hq. apply qt_refl.
  - unfold remove_queue in H. destruct (get_queue s q0) as [v|] eqn:Eq; [|inv H; rewrite Hq; apply qt_refl].
    destruct (existsb is_running (q_allocs v) && negb force); [inv H; rewrite Hq; apply qt_refl|].
    bind_inv H. inv H. unfold get_queue in *; simpl.
    destruct (N.eq_dec qi q0) as [->|Hne].
    + rewrite alookup_filter_same. eauto.
    + rewrite alookup_filter_other; auto. rewrite Hq. apply qt_refl.
  - inv H. unfold get_queue in *; simpl. rewrite Hq. apply qt_refl.
Qed.

(** * properties preserved by the primitives *)
Lemma qtrans_params ar q q' : qtrans ar q q' -> same_params q q'.
Proof.
  induction 1; [apply same_params_refl|]. eapply same_params_trans; [exact IHqtrans|].
  inv H0; unfold same_params; simpl; tauto.
Qed.

(** without a resume the queue is never re-activated *)
Lemma qtrans_no_activation q q' : qtrans false q q' -> q_active q' = true -> q_active q = true.
Proof.
  induction 1; auto. intros Ha. apply IHqtrans. inv H0; simpl in *; auto; congruence.
Qed.
