(** Proofs about the handshake model: honest runs, mismatches, and authentication against an
    active Dolev-Yao attacker. *)
From Coq Require Import String.
From HQ Require Import Base.Prelude Gen.Consts Auth.Model.

Lemma chal_eqb_eq a b : chal_eqb a b = true <-> a = b.
Proof.
  destruct a as [x|x], b as [y|y]; simpl; split; intros H; try discriminate;
    try (apply N.eqb_eq in H; subst; reflexivity);
    try (inversion H; subst; apply N.eqb_refl).
Qed.

Lemma cipher_eqb_eq a b : cipher_eqb a b = true <-> a = b.
Proof.
  destruct a as [k r c l|g], b as [k' r' c' l'|g']; simpl; split; intros H; try discriminate.
  - repeat (apply andb_true_iff in H; destruct H as [H ?]).
    apply N.eqb_eq in H. apply chal_eqb_eq in H1.
    match goal with X : N.eqb r r' = true |- _ => apply N.eqb_eq in X end.
    match goal with X : N.eqb l l' = true |- _ => apply N.eqb_eq in X end.
    subst; reflexivity.
  - inversion H; subst. rewrite !N.eqb_refl. simpl.
    assert (chal_eqb c' c' = true) as -> by (apply chal_eqb_eq; reflexivity). reflexivity.
  - apply N.eqb_eq in H; subst; reflexivity.
  - inversion H; subst; apply N.eqb_refl.
Qed.

(** * Undisturbed exchange between two endpoints *)

Lemma chal_eqb_refl c : chal_eqb c c = true.
Proof. apply chal_eqb_eq; reflexivity. Qed.

Theorem honest_accepts A B fa fb :
  matching A B = true -> honest_exchange A B fa fb = (true, true).
Proof.
  destruct A as [pa ma ea ka], B as [pb mb eb kb]. unfold matching, honest_exchange. simpl.
  intros H. repeat (apply andb_true_iff in H; destruct H as [H ?]).
  apply N.eqb_eq in H.
  repeat match goal with X : N.eqb _ _ = true |- _ => apply N.eqb_eq in X end. subst.
  destruct ka as [ka|], kb as [kb|]; simpl in *; try discriminate.
  { match goal with X : N.eqb ka kb = true |- _ => apply N.eqb_eq in X end. subst.
    unfold make_auth_response, finish_authentication; simpl.
    rewrite !N.eqb_refl. simpl. rewrite !N.eqb_refl. simpl. rewrite !chal_eqb_refl. reflexivity. }
  unfold make_auth_response, finish_authentication; simpl.
  rewrite !N.eqb_refl. reflexivity.
Qed.

Theorem mismatch_both_refuse A B fa fb :
  matching A B = false -> honest_exchange A B fa fb = (false, false).
Proof.
  destruct A as [pa ma ea ka], B as [pb mb eb kb]. unfold matching, honest_exchange. simpl.
  intros H.
  unfold make_auth_request, make_auth_response, finish_authentication; simpl.
  destruct ka as [ka|], kb as [kb|]; simpl in *;
    destruct (N.eqb pa pb) eqn:Hp; rewrite ?(N.eqb_sym pb pa), ?Hp; simpl; try reflexivity;
    destruct (N.eqb ea mb) eqn:H1; rewrite ?(N.eqb_sym mb ea), ?H1; simpl;
    destruct (N.eqb eb ma) eqn:H2; rewrite ?(N.eqb_sym ma eb), ?H2; simpl; try reflexivity;
    try discriminate.
  all: try (destruct (N.eqb ka kb) eqn:Hk; rewrite ?(N.eqb_sym kb ka), ?Hk; simpl; try reflexivity; try discriminate).
  all: try (rewrite ?Hk in H; simpl in H; discriminate).
Qed.

(** * Invariant of the attacked network *)

Lemma upd_length {A} (l : list A) i x : length (upd l i x) = length l.
Proof. revert i; induction l as [|h t IH]; intros [|i]; simpl; auto. Qed.

Lemma nth_error_upd {A} (l : list A) i j x :
  nth_error (upd l i x) j = if Nat.eqb i j then (match nth_error l j with Some _ => Some x | None => None end) else nth_error l j.
Proof.
  revert i j; induction l as [|h t IH]; intros [|i] [|j]; simpl; auto.
  destruct (Nat.eqb i j); reflexivity.
Qed.

Definition ep_wf (n : nat) (i : nat) (y : ep) : Prop :=
  let a := ep_auth y in
  a_challenge a = match a_key a with Some _ => Some (HC (N.of_nat i)) | None => None end
  /\ (N.to_nat (ep_resp_when y) <= n)%nat
  /\ (forall b, ep_resp_out y = Some (REnc b) ->
        exists q k c len,
          ep_req_in y = Some q /\ a_key a = Some k /\ b = Sealed k (a_my_role a) c len
          /\ rq_mode q = MEnc c len /\ len = CHALLENGE_LENGTH
          /\ rq_protocol q = a_protocol a /\ rq_role q = a_peer_role a
          /\ (forall m, c = HC m -> (m < ep_resp_when y)%N)).

Definition Inv (s : state) : Prop := forall i y, nth_error s i = Some y -> ep_wf (length s) i y.

Lemma inv_init : Inv [].
Proof. intros [|i] y H; discriminate. Qed.

Lemma ep_wf_mono n n' i y : (n <= n')%nat -> ep_wf n i y -> ep_wf n' i y.
Proof. unfold ep_wf; intros Hn (H1 & H2 & H3); repeat split; auto; lia. Qed.

Lemma make_auth_response_static a q a' r :
  make_auth_response a q = (a', r) ->
  a_protocol a' = a_protocol a /\ a_my_role a' = a_my_role a /\ a_peer_role a' = a_peer_role a
  /\ a_key a' = a_key a /\ a_challenge a' = a_challenge a.
Proof.
  unfold make_auth_response.
  destruct (negb (N.eqb (rq_protocol q) (a_protocol a)));
    [intros H; inversion H; subst; simpl; repeat split; reflexivity|].
  destruct (negb (N.eqb (rq_role q) (a_peer_role a)));
    [intros H; inversion H; subst; simpl; repeat split; reflexivity|].
  destruct (rq_mode q) as [|c len], (a_key a) as [k|] eqn:Hk;
    try (destruct (negb (N.eqb len CHALLENGE_LENGTH)));
    intros H; inversion H; subst; simpl; repeat split; auto.
Qed.

Lemma make_auth_response_enc a q a' b :
  make_auth_response a q = (a', REnc b) ->
  exists k c len, a_key a = Some k /\ b = Sealed k (a_my_role a) c len /\ rq_mode q = MEnc c len
                  /\ len = CHALLENGE_LENGTH /\ rq_protocol q = a_protocol a /\ rq_role q = a_peer_role a.
Proof.
  unfold make_auth_response.
  destruct (N.eqb (rq_protocol q) (a_protocol a)) eqn:Hp; simpl; [|intros H; inversion H].
  destruct (N.eqb (rq_role q) (a_peer_role a)) eqn:Hr; simpl; [|intros H; inversion H].
  destruct (rq_mode q) as [|c len], (a_key a) as [k|]; try (intros H; inversion H; fail).
  destruct (N.eqb len CHALLENGE_LENGTH) eqn:Hl; simpl; intros H; inversion H; subst.
  apply N.eqb_eq in Hp, Hr, Hl. exists k, c, len. repeat split; auto.
Qed.

Lemma inv_step bad s o :
  Inv s -> deliverable bad s o = true -> Inv (fst (step s o)).
Proof.
  intros HI Hd. destruct o as [p me peer k | e q | e r]; simpl.
  - (* ONew *)
    destruct (make_auth_request (new_auth p me peer k) (HC (N.of_nat (length s)))) as [a q] eqn:Hq.
    simpl. intros i y Hy. rewrite app_length; simpl.
    destruct (Nat.lt_ge_cases i (length s)) as [Hlt|Hge].
    + rewrite nth_error_app1 in Hy by assumption. eapply ep_wf_mono; [|apply HI; eassumption]. lia.
    + rewrite nth_error_app2 in Hy by assumption.
      destruct (i - length s)%nat as [|j] eqn:Hj; simpl in Hy; [|destruct j; discriminate].
      inversion Hy; subst y. assert (i = length s) by lia. subst i.
      unfold make_auth_request, new_auth in Hq; simpl in Hq.
      destruct k as [k|]; inversion Hq; subst; unfold ep_wf; simpl; repeat split; auto; try lia;
        intros b Hb; discriminate.
  - (* OResp *)
    destruct (nth_error s (N.to_nat e)) as [x|] eqn:Hx; [|exact HI].
    destruct (ep_resp_out x) eqn:Hro; [exact HI|].
    destruct (make_auth_response (ep_auth x) q) as [a r] eqn:Hr. simpl.
    intros i y Hy. rewrite upd_length. rewrite nth_error_upd in Hy.
    destruct (Nat.eqb (N.to_nat e) i) eqn:Hei.
    + apply Nat.eqb_eq in Hei. subst i. rewrite Hx in Hy. inversion Hy; subst y.
      pose proof (HI _ _ Hx) as (Hc & Hw & _).
      pose proof (make_auth_response_static _ _ _ _ Hr) as (S1 & S2 & S3 & S4 & S5).
      unfold ep_wf; simpl. rewrite S4, S5. repeat split; auto.
      * rewrite Nat2N.id. lia.
      * intros b Hb. inversion Hb; subst r.
        destruct (make_auth_response_enc _ _ _ _ Hr) as (k & c & len & K1 & K2 & K3 & K4 & K5 & K6).
        exists q, k, c, len. rewrite S1, S2, S3. repeat split; auto.
        intros m Hm. subst c. simpl in Hd. rewrite K3 in Hd. simpl in Hd.
        apply N.ltb_lt in Hd. exact Hd.
    + apply HI; assumption.
  - (* OFin *)
    destruct (nth_error s (N.to_nat e)) as [x|] eqn:Hx; [|exact HI].
    destruct (ep_resp_out x) eqn:Hro; [|exact HI].
    destruct (ep_result x) eqn:Hres; [exact HI|]. simpl.
    intros i y Hy. rewrite upd_length. rewrite nth_error_upd in Hy.
    destruct (Nat.eqb (N.to_nat e) i) eqn:Hei.
    + apply Nat.eqb_eq in Hei. subst i. rewrite Hx in Hy. inversion Hy; subst y.
      pose proof (HI _ _ Hx) as (Hc & Hw & Hb). unfold ep_wf; simpl. repeat split; auto.
      rewrite <- Hro. exact Hb.
    + apply HI; assumption.
Qed.

Lemma inv_run bad ops s :
  Inv s -> all_deliverable bad s ops = true -> Inv (fold_left (fun s o => fst (step s o)) ops s).
Proof.
  revert s; induction ops as [|o t IH]; simpl; intros s HI Hd; [exact HI|].
  apply andb_true_iff in Hd; destruct Hd as [H1 H2].
  apply IH; [eapply inv_step; eassumption | exact H2].
Qed.

Lemma existsb_nth {A} (f : A -> bool) l :
  existsb f l = true -> exists i y, nth_error l i = Some y /\ f y = true.
Proof.
  intros H. apply existsb_exists in H. destruct H as (y & Hin & Hf).
  apply In_nth_error in Hin. destruct Hin as [i Hi]. eauto.
Qed.

(** * Accept implies authentic (any Dolev-Yao attacker) *)

Lemma finish_keyed_accept a k r :
  a_key a = Some k -> finish_authentication a r = true ->
  exists c len mine, r = REnc (Sealed k (a_peer_role a) c len) /\ a_challenge a = Some mine /\ c = mine /\ len = CHALLENGE_LENGTH.
Proof.
  unfold finish_authentication. intros Hk. rewrite Hk.
  destruct (a_error a); [discriminate|].
  destruct r as [|body|]; try discriminate.
  destruct body as [k' r c len|g]; simpl; [|discriminate].
  destruct (N.eqb k k') eqn:Hkk; [|discriminate]. apply N.eqb_eq in Hkk; subst k'.
  destruct (a_challenge a) as [mine|]; [|discriminate].
  intros H. repeat (apply andb_true_iff in H; destruct H as [H ?]).
  apply N.eqb_eq in H. apply chal_eqb_eq in H1.
  match goal with X : N.eqb len _ = true |- _ => apply N.eqb_eq in X end.
  subst. eauto 10.
Qed.

Theorem accept_implies_authentic bad ops e r s' :
  all_deliverable bad [] ops = true ->
  let s := run ops in
  deliverable bad s (OFin e r) = true ->
  step s (OFin e r) = (s', OutFin true) ->
  exists x, nth_error s (N.to_nat e) = Some x /\ authentic bad s e x r = true.
Proof.
  intros Hops s Hd Hstep.
  assert (HI : Inv s) by (apply (inv_run bad); [apply inv_init | exact Hops]).
  simpl in Hstep.
  destruct (nth_error s (N.to_nat e)) as [x|] eqn:Hx; [|inversion Hstep].
  exists x; split; [reflexivity|].
  destruct (ep_resp_out x) eqn:Hro; [|inversion Hstep].
  destruct (ep_result x) eqn:Hres; [inversion Hstep|].
  assert (Hacc : finish_authentication (ep_auth x) r = true) by congruence. clear Hstep.
  unfold authentic. destruct (a_key (ep_auth x)) as [k|] eqn:Hk.
  - destruct (finish_keyed_accept _ _ _ Hk Hacc) as (c & len & mine & -> & Hmine & -> & ->).
    simpl in Hd. apply orb_true_iff in Hd. apply orb_true_iff. destruct Hd as [Hb|Hem]; [left; exact Hb|right].
    unfold emitted in Hem. apply existsb_exists in Hem. destruct Hem as (y & Hin & Hy).
    apply existsb_exists. exists y; split; [exact Hin|].
    destruct (In_nth_error _ _ Hin) as [j Hj].
    pose proof (HI _ _ Hj) as (Yc & Yw & Yb).
    destruct (ep_resp_out y) as [[|b'|]|] eqn:Yro; try discriminate.
    apply cipher_eqb_eq in Hy. subst b'.
    destruct (Yb _ eq_refl) as (q & k' & c' & len' & Q1 & Q2 & Q3 & Q4 & Q5 & Q6 & Q7 & Q8).
    inversion Q3; subst k' c' len'.
    pose proof (HI _ _ Hx) as (Xc & _ & _). rewrite Hk in Xc. rewrite Xc in Hmine. inversion Hmine; subst mine.
    unfold vouches. rewrite Yro, Q1, Xc, Q2, Q4.
    assert (cipher_eqb (Sealed k (a_peer_role (ep_auth x)) (HC (N.of_nat (N.to_nat e))) CHALLENGE_LENGTH)
                       (Sealed k (a_peer_role (ep_auth x)) (HC (N.of_nat (N.to_nat e))) CHALLENGE_LENGTH) = true) as ->
        by (apply cipher_eqb_eq; reflexivity).
    rewrite N.eqb_refl. rewrite <- H1. rewrite N.eqb_refl. rewrite chal_eqb_refl. rewrite N.eqb_refl. simpl.
    apply N.ltb_lt. specialize (Q8 _ eq_refl). rewrite N2Nat.id in Q8. exact Q8.
  - unfold finish_authentication in Hacc. rewrite Hk in Hacc.
    destruct (a_error (ep_auth x)); [discriminate|].
    destruct r; try discriminate. reflexivity.
Qed.

(** The voucher is a different endpoint whenever the two roles differ: a reflected message is
    never accepted. *)
Theorem voucher_is_not_self e x k r y s j :
  Inv s -> nth_error s (N.to_nat e) = Some x -> nth_error s j = Some y ->
  a_my_role (ep_auth x) <> a_peer_role (ep_auth x) ->
  vouches e x k r y = true -> j <> N.to_nat e.
Proof.
  intros HI Hx Hy Hne Hv Heq. subst j. rewrite Hx in Hy. inversion Hy; subst y.
  unfold vouches in Hv.
  destruct (ep_resp_out x) as [r'|]; [|discriminate].
  destruct (ep_req_in x) as [q|]; [|discriminate].
  destruct (a_challenge (ep_auth x)); [|discriminate].
  destruct r; try discriminate. destruct r'; try discriminate.
  repeat (apply andb_true_iff in Hv; destruct Hv as [Hv ?]).
  match goal with X : N.eqb (a_my_role _) _ = true |- _ => apply N.eqb_eq in X; contradiction end.
Qed.

(** * Substitution-only attacker: whole messages may be replayed, reflected or swapped between
    sessions, but not altered.  Then the protocol number and the voucher's expectation about its
    peer's role are bound as well. *)

Definition request_emitted (s : state) (q : request) : bool :=
  existsb (fun x =>
             let a := ep_auth x in
             N.eqb (rq_protocol q) (a_protocol a) && N.eqb (rq_role q) (a_my_role a)
             && match rq_mode q, a_key a, a_challenge a with
                | MNoAuth, None, _ => true
                | MEnc c len, Some _, Some mine => chal_eqb c mine && N.eqb len CHALLENGE_LENGTH
                | _, _, _ => false
                end) s.

Definition verbatim (s : state) (o : op) : bool :=
  match o with
  | ONew _ _ _ _ => true
  | OResp _ q => request_emitted s q
  | OFin _ (REnc b) => emitted s b
  | OFin _ _ => true
  end.

Fixpoint all_verbatim (s : state) (ops : list op) : bool :=
  match ops with
  | [] => true
  | o :: t => verbatim s o && all_verbatim (fst (step s o)) t
  end.

Definition ep_wf2 (s : state) (y : ep) : Prop :=
  forall q, ep_req_in y = Some q -> request_emitted s q = true.

Definition Inv2 (s : state) : Prop := forall y, In y s -> ep_wf2 s y.

Lemma step_static s o i x :
  nth_error s i = Some x ->
  exists x', nth_error (fst (step s o)) i = Some x'
             /\ a_protocol (ep_auth x') = a_protocol (ep_auth x)
             /\ a_my_role (ep_auth x') = a_my_role (ep_auth x)
             /\ a_peer_role (ep_auth x') = a_peer_role (ep_auth x)
             /\ a_key (ep_auth x') = a_key (ep_auth x)
             /\ a_challenge (ep_auth x') = a_challenge (ep_auth x).
Proof.
  intros Hx. destruct o as [p me peer k | e q | e r]; simpl.
  - destruct (make_auth_request _ _) as [a q]. simpl.
    exists x. rewrite nth_error_app1; [auto 10|]. apply nth_error_Some. congruence.
  - destruct (nth_error s (N.to_nat e)) as [z|] eqn:Hz; [|exists x; auto 10].
    destruct (ep_resp_out z); [exists x; auto 10|].
    destruct (make_auth_response (ep_auth z) q) as [a r] eqn:Hr. simpl.
    rewrite nth_error_upd. destruct (Nat.eqb (N.to_nat e) i) eqn:Hei.
    + apply Nat.eqb_eq in Hei; subst i. rewrite Hx. rewrite Hz in Hx; inversion Hx; subst z.
      eexists; split; [reflexivity|]. simpl.
      pose proof (make_auth_response_static _ _ _ _ Hr) as (S1 & S2 & S3 & S4 & S5). auto 10.
    + exists x; auto 10.
  - destruct (nth_error s (N.to_nat e)) as [z|] eqn:Hz; [|exists x; auto 10].
    destruct (ep_resp_out z); [|exists x; auto 10].
    destruct (ep_result z); [exists x; auto 10|]. simpl.
    rewrite nth_error_upd. destruct (Nat.eqb (N.to_nat e) i) eqn:Hei.
    + apply Nat.eqb_eq in Hei; subst i. rewrite Hx. rewrite Hz in Hx; inversion Hx; subst z.
      eexists; split; [reflexivity|]. simpl. auto 10.
    + exists x; auto 10.
Qed.

Lemma request_emitted_step s o q :
  request_emitted s q = true -> request_emitted (fst (step s o)) q = true.
Proof.
  unfold request_emitted. intros H. apply existsb_exists in H. destruct H as (x & Hin & Hx).
  destruct (In_nth_error _ _ Hin) as [i Hi].
  destruct (step_static s o i x Hi) as (x' & Hx' & S1 & S2 & S3 & S4 & S5).
  apply existsb_exists. exists x'. split; [eapply nth_error_In; eassumption|].
  rewrite S1, S2, S4, S5. exact Hx.
Qed.

Lemma in_upd {A} (l : list A) i x y : In y (upd l i x) -> y = x \/ In y l.
Proof.
  revert i; induction l as [|h t IH]; intros [|i]; simpl; auto.
  - intros [H|H]; auto.
  - intros [H|H]; auto. destruct (IH _ H); auto.
Qed.

Lemma inv2_step s o : Inv2 s -> verbatim s o = true -> Inv2 (fst (step s o)).
Proof.
  intros HI Hv y Hy q Hq.
  assert (Hold : forall y0, In y0 s -> ep_req_in y0 = Some q -> request_emitted (fst (step s o)) q = true).
  { intros y0 H0 H1. apply request_emitted_step. eapply HI; eassumption. }
  destruct o as [p me peer k | e q0 | e r]; simpl in *.
  - destruct (make_auth_request _ _) as [a q1]. simpl in *.
    apply in_app_or in Hy. destruct Hy as [Hy|[Hy|[]]]; [eapply Hold; eassumption|].
    subst y. simpl in Hq. discriminate.
  - destruct (nth_error s (N.to_nat e)) as [z|] eqn:Hz; [|eapply Hold; eassumption].
    destruct (ep_resp_out z) eqn:Hro; [eapply Hold; eassumption|].
    destruct (make_auth_response (ep_auth z) q0) as [a r] eqn:Hr. simpl in *.
    apply in_upd in Hy. destruct Hy as [Hy|Hy]; [|eapply Hold; eassumption].
    subst y. simpl in Hq. inversion Hq; subst q0.
    pose proof (request_emitted_step s (OResp e q) q Hv) as H. simpl in H. rewrite Hz, Hro, Hr in H. exact H.
  - destruct (nth_error s (N.to_nat e)) as [z|] eqn:Hz; [|eapply Hold; eassumption].
    destruct (ep_resp_out z) eqn:Hro; [|eapply Hold; eassumption].
    destruct (ep_result z) eqn:Hres; [eapply Hold; eassumption|]. simpl in *.
    apply in_upd in Hy. destruct Hy as [Hy|Hy]; [|eapply Hold; eassumption].
    subst y. simpl in Hq. eapply Hold; [eapply nth_error_In; exact Hz | exact Hq].
Qed.

Lemma inv2_run ops s :
  Inv2 s -> all_verbatim s ops = true -> Inv2 (fold_left (fun s o => fst (step s o)) ops s).
Proof.
  revert s; induction ops as [|o t IH]; simpl; intros s HI Hd; [exact HI|].
  apply andb_true_iff in Hd; destruct Hd as [H1 H2].
  apply IH; [apply inv2_step; assumption | exact H2].
Qed.

Lemma verbatim_deliverable s o : Inv s -> verbatim s o = true -> deliverable (fun _ => false) s o = true.
Proof.
  intros HI. destruct o as [| e q | e r]; simpl; auto.
  - intros H. destruct (rq_mode q) as [|c len] eqn:Hm; auto.
    unfold request_emitted in H. apply existsb_exists in H. destruct H as (x & Hin & Hx).
    rewrite Hm in Hx. repeat (apply andb_true_iff in Hx; destruct Hx as [Hx ?]).
    destruct (In_nth_error _ _ Hin) as [i Hi]. pose proof (HI _ _ Hi) as (Xc & _ & _).
    destruct (a_key (ep_auth x)); [|discriminate]. rewrite Xc in *.
    match goal with X : _ && _ = true |- _ => apply andb_true_iff in X; destruct X as [X _]; apply chal_eqb_eq in X end.
    subst c. simpl. apply N.ltb_lt.
    assert (i < length s)%nat by (apply nth_error_Some; congruence). lia.
  - destruct r as [|[k r c l|g]|]; auto.
Qed.

Lemma all_verbatim_deliverable ops s :
  Inv s -> all_verbatim s ops = true -> all_deliverable (fun _ => false) s ops = true.
Proof.
  revert s; induction ops as [|o t IH]; simpl; intros s HI H; auto.
  apply andb_true_iff in H; destruct H as [H1 H2].
  pose proof (verbatim_deliverable _ _ HI H1) as Hd. rewrite Hd. simpl.
  apply IH; [eapply inv_step; eassumption | exact H2].
Qed.

Theorem accept_implies_authentic_full ops e r s' :
  all_verbatim [] ops = true ->
  let s := run ops in
  verbatim s (OFin e r) = true ->
  step s (OFin e r) = (s', OutFin true) ->
  exists x, nth_error s (N.to_nat e) = Some x /\ authentic_full (fun _ => false) s e x r = true.
Proof.
  intros Hops s Hv Hstep.
  assert (Hdel : all_deliverable (fun _ => false) [] ops = true)
    by (apply all_verbatim_deliverable; [apply inv_init | exact Hops]).
  assert (HI : Inv s) by (apply (inv_run (fun _ => false)); [apply inv_init | exact Hdel]).
  assert (HI2 : Inv2 s) by (apply inv2_run; [intros y [] | exact Hops]).
  destruct (accept_implies_authentic (fun _ => false) ops e r s' Hdel (verbatim_deliverable _ _ HI Hv) Hstep)
    as (x & Hx & Ha).
  exists x; split; [exact Hx|].
  unfold authentic in Ha. unfold authentic_full.
  destruct (a_key (ep_auth x)) as [k|] eqn:Hk; [|exact Ha].
  simpl in *. apply existsb_exists in Ha. destruct Ha as (y & Hin & Hy).
  apply existsb_exists. exists y; split; [exact Hin|].
  unfold vouches_full. rewrite Hy. simpl.
  (* y answered a request q that carries x's challenge; q was emitted verbatim by some z;
     only x owns that challenge, so z = x and q's protocol / role are x's. *)
  unfold vouches in Hy.
  destruct (ep_resp_out y) as [r'|] eqn:Yro; [|discriminate].
  destruct (ep_req_in y) as [q|] eqn:Yq; [|discriminate].
  destruct (a_challenge (ep_auth x)) as [mine|] eqn:Xm; [|discriminate].
  destruct r as [|b|]; try discriminate. destruct r' as [|b'|]; try discriminate.
  repeat (apply andb_true_iff in Hy; destruct Hy as [Hy ?]).
  destruct (rq_mode q) as [|c l] eqn:Hm; [discriminate|].
  match goal with X : chal_eqb c mine && _ = true |- _ => apply andb_true_iff in X; destruct X as [X1 X2]; apply chal_eqb_eq in X1 end.
  subst c.
  pose proof (HI2 y Hin q Yq) as Hem. unfold request_emitted in Hem.
  apply existsb_exists in Hem. destruct Hem as (z & Hzin & Hz).
  rewrite Hm in Hz. repeat (apply andb_true_iff in Hz; destruct Hz as [Hz ?]).
  destruct (In_nth_error _ _ Hzin) as [iz Hiz].
  pose proof (HI _ _ Hiz) as (Zc & _ & _).
  pose proof (HI _ _ Hx) as (Xc & _ & _). rewrite Hk in Xc. rewrite Xc in Xm. inversion Xm; subst mine.
  destruct (a_key (ep_auth z)) as [kz|]; [|discriminate]. rewrite Zc in *.
  match goal with X : chal_eqb _ _ && _ = true |- _ => apply andb_true_iff in X; destruct X as [X _]; apply chal_eqb_eq in X; inversion X as [Hidx] end.
  assert (iz = N.to_nat e) by lia. subst iz.
  pose proof (eq_trans (eq_sym Hiz) Hx) as Ezx. inversion Ezx; subst z.
  destruct (In_nth_error _ _ Hin) as [j Hj].
  pose proof (HI _ _ Hj) as (_ & _ & Yb).
  destruct (Yb _ Yro) as (q' & k' & c' & len' & Q1 & Q2 & Q3 & Q4 & Q5 & Q6 & Q7 & Q8).
  rewrite Yq in Q1. inversion Q1; subst q'.
  apply N.eqb_eq in Hz.
  match goal with X : N.eqb (rq_role q) _ = true |- _ => apply N.eqb_eq in X; rewrite X in Q7 end.
  rewrite Hz in Q6. rewrite <- Q6, <- Q7, !N.eqb_refl. reflexivity.
Qed.

(** * The protocol number is not cryptographically bound (finding F19).

    Two endpoints with different protocol numbers but the same key and complementary roles both
    accept when the attacker rewrites the plaintext protocol field of the two requests. *)
Local Open Scope N_scope.
Definition f19_ops : list op :=
  [ ONew 1 10 20 (Some 7);                       (* endpoint 0: protocol 1, role 10 -> 20 *)
    ONew 2 20 10 (Some 7);                       (* endpoint 1: protocol 2, role 20 -> 10 *)
    OResp 0 (mkReq 1 20 (MEnc (HC 1) CHALLENGE_LENGTH));       (* endpoint 1's request with protocol rewritten 2 -> 1 *)
    OResp 1 (mkReq 2 10 (MEnc (HC 0) CHALLENGE_LENGTH));       (* endpoint 0's request with protocol rewritten 1 -> 2 *)
    OFin 0 (REnc (Sealed 7 20 (HC 0) CHALLENGE_LENGTH));
    OFin 1 (REnc (Sealed 7 10 (HC 1) CHALLENGE_LENGTH)) ].

Theorem protocol_unbound_refuted :
  exists ops, all_deliverable (fun _ => false) [] ops = true
              /\ (exists x y, run ops = [x; y]
                              /\ ep_result x = Some true /\ ep_result y = Some true
                              /\ a_protocol (ep_auth x) <> a_protocol (ep_auth y)).
Proof.
  exists f19_ops. split; [vm_compute; reflexivity|].
  eexists; eexists. split; [vm_compute; reflexivity|]. simpl. repeat split; discriminate.
Qed.

(** Non-vacuity: an attacked run in which an endpoint accepts and a voucher exists. *)
Example attacked_run_accepts :
  let ops := [ ONew 0 10 20 (Some 7); ONew 0 20 10 (Some 7);
               OResp 0 (mkReq 0 20 (MEnc (HC 1) CHALLENGE_LENGTH)); OResp 1 (mkReq 0 10 (MEnc (HC 0) CHALLENGE_LENGTH)) ] in
  all_verbatim [] ops = true
  /\ verbatim (run ops) (OFin 0 (REnc (Sealed 7 20 (HC 0) CHALLENGE_LENGTH))) = true
  /\ snd (step (run ops) (OFin 0 (REnc (Sealed 7 20 (HC 0) CHALLENGE_LENGTH)))) = OutFin true.
Proof. vm_compute. repeat split. Qed.

(** * The four real call sites of [do_authentication] (role strings read from the source by the
    constants translator): each site's role differs from its peer role, and the two ends of each
    connection kind are complementary - the hypotheses [me <> peer] / [matching] are satisfiable
    exactly there. *)
Definition site_ok (me peer me' peer' : string) : bool :=
  negb (String.eqb me peer) && String.eqb me peer' && String.eqb peer me'.

Theorem call_sites_complementary :
  site_ok AUTH_SERVER_SITE_ROLES AUTH_SERVER_SITE_PEER AUTH_WORKER_SITE_ROLES AUTH_WORKER_SITE_PEER = true
  /\ site_ok AUTH_HQ_SERVER_SITE_ROLES AUTH_HQ_SERVER_SITE_PEER AUTH_HQ_CLIENT_SITE_ROLES AUTH_HQ_CLIENT_SITE_PEER = true.
Proof. split; vm_compute; reflexivity. Qed.
