(** Symbolic (Dolev-Yao) model of tako's connection handshake
    (crates/tako/src/internal/transfer/auth.rs: [Authenticator::{make_auth_request,
    make_auth_response, finish_authentication}]).

    Abstractions (DESIGN §3.6, §8): orion's streaming AEAD is ideal - a sealed chunk can only be
    produced by a holder of the key and only opens under the same key; challenges produced by
    [secure_rand_bytes] are fresh identifiers (128-bit collisions ignored); role strings and keys are
    identified by numbers (the correspondence harness maps the real strings / keys to them);
    a byte string that is not a well-formed ciphertext is [Garbage]. *)
From HQ Require Import Base.Prelude Gen.Consts.

Definition key := N.
Definition role := N.
(** Identity of a challenge: [HC n] = the random bytes drawn by honest endpoint number [n]
    (unpredictable before that endpoint exists), [AC n] = bytes chosen by the attacker. *)
Inductive chal := HC (n : N) | AC (n : N).
Definition chal_eqb (a b : chal) : bool :=
  match a, b with
  | HC x, HC y => N.eqb x y
  | AC x, AC y => N.eqb x y
  | _, _ => false
  end.

(** [AuthenticationMode]; the challenge carries its length because the responder checks it. *)
Inductive mode :=
| MNoAuth
| MEnc (c : chal) (len : N).

Record request := mkReq { rq_protocol : N; rq_role : role; rq_mode : mode }.

(** Bytes of [EncryptionResponse.response] (with its nonce): either the seal of
    [role ++ challenge] under a key, or something that opens under no key. *)
Inductive cipher :=
| Sealed (k : key) (r : role) (c : chal) (len : N)
| Garbage (g : N).

Inductive response :=
| RNoAuth
| REnc (body : cipher)
| RErr.

Record auth := mkAuth {
  a_protocol : N;
  a_my_role : role;
  a_peer_role : role;
  a_key : option key;
  a_challenge : option chal;   (* [challenge] field; None = still empty *)
  a_error : bool;              (* [error.is_some()] *)
  a_sealer : bool              (* [sealer.is_some()] *)
}.

(** [CHALLENGE_LENGTH], read from the Rust source by the constants translator. *)
Definition CHALLENGE_LENGTH : N := AUTH_CHALLENGE_LENGTH.

Definition new_auth (protocol : N) (me peer : role) (k : option key) : auth :=
  mkAuth protocol me peer k None false false.

(** [make_auth_request]: [fresh] is the identity of the random challenge drawn here. *)
Definition make_auth_request (a : auth) (fresh : chal) : auth * request :=
  match a_key a with
  | Some _ =>
      (mkAuth (a_protocol a) (a_my_role a) (a_peer_role a) (a_key a) (Some fresh) (a_error a) (a_sealer a),
       mkReq (a_protocol a) (a_my_role a) (MEnc fresh CHALLENGE_LENGTH))
  | None => (a, mkReq (a_protocol a) (a_my_role a) MNoAuth)
  end.

Definition set_error (a : auth) : auth :=
  mkAuth (a_protocol a) (a_my_role a) (a_peer_role a) (a_key a) (a_challenge a) true (a_sealer a).

Definition set_sealer (a : auth) : auth :=
  mkAuth (a_protocol a) (a_my_role a) (a_peer_role a) (a_key a) (a_challenge a) (a_error a) true.

(** [make_auth_response] *)
Definition make_auth_response (a : auth) (m : request) : auth * response :=
  if negb (N.eqb (rq_protocol m) (a_protocol a)) then (set_error a, RErr)
  else if negb (N.eqb (rq_role m) (a_peer_role a)) then (set_error a, RErr)
  else match rq_mode m, a_key a with
       | MNoAuth, None => (a, RNoAuth)
       | MEnc c len, Some k =>
           if negb (N.eqb len CHALLENGE_LENGTH) then (set_error a, RErr)
           else (set_sealer a, REnc (Sealed k (a_my_role a) c len))
       | MEnc _ _, None => (set_error a, RErr)
       | MNoAuth, Some _ => (set_error a, RErr)
       end.

(** Opening a ciphertext under a key (ideal AEAD). *)
Definition open_cipher (k : key) (b : cipher) : option (role * chal * N) :=
  match b with
  | Sealed k' r c len => if N.eqb k k' then Some (r, c, len) else None
  | Garbage _ => None
  end.

(** [finish_authentication]: [true] = Ok (accept), [false] = AuthenticationRejected. *)
Definition finish_authentication (a : auth) (m : response) : bool :=
  if a_error a then false
  else match m, a_key a with
       | RErr, _ => false
       | RNoAuth, None => true
       | REnc body, Some k =>
           match open_cipher k body, a_challenge a with
           | Some (r, c, len), Some mine =>
               N.eqb r (a_peer_role a) && chal_eqb c mine && N.eqb len CHALLENGE_LENGTH
           | Some (r, c, len), None => false (* cannot happen: a keyed endpoint always drew a challenge *)
           | None, _ => false
           end
       | _, _ => false
       end.

(** One endpoint's whole run of [do_authentication], given what the network delivers to it. *)
Definition run_endpoint (protocol : N) (me peer : role) (k : option key) (fresh : chal)
           (req_in : request) (resp_in : response) : request * response * bool :=
  let a0 := new_auth protocol me peer k in
  let '(a1, q) := make_auth_request a0 fresh in
  let '(a2, r) := make_auth_response a1 req_in in
  (q, r, finish_authentication a2 resp_in).

(** * The network: honest endpoints driven by an active attacker.

    Endpoint number [n] (creation order) draws challenge [HC n].  The attacker chooses which
    request and which response every endpoint receives. *)
Record ep := mkEp {
  ep_auth : auth;
  ep_req_in : option request;     (* the request this endpoint answered *)
  ep_resp_out : option response;  (* what it answered *)
  ep_resp_when : N;               (* how many endpoints existed when it answered (0 = not yet) *)
  ep_result : option bool         (* result of finish_authentication *)
}.

Inductive op :=
| ONew (protocol : N) (me peer : role) (k : option key)
| OResp (e : N) (q : request)
| OFin (e : N) (r : response).

Inductive out :=
| OutReq (q : request)
| OutResp (r : response)
| OutFin (accept : bool)
| OutDisabled.

Definition state := list ep.

Fixpoint upd {A} (l : list A) (i : nat) (x : A) : list A :=
  match l, i with
  | [], _ => []
  | _ :: t, O => x :: t
  | h :: t, S j => h :: upd t j x
  end.

Definition step (s : state) (o : op) : state * out :=
  match o with
  | ONew p me peer k =>
      let '(a, q) := make_auth_request (new_auth p me peer k) (HC (N.of_nat (length s))) in
      (s ++ [mkEp a None None 0 None], OutReq q)
  | OResp e q =>
      match nth_error s (N.to_nat e) with
      | Some x =>
          match ep_resp_out x with
          | Some _ => (s, OutDisabled)
          | None =>
              let '(a, r) := make_auth_response (ep_auth x) q in
              (upd s (N.to_nat e) (mkEp a (Some q) (Some r) (N.of_nat (length s)) None), OutResp r)
          end
      | None => (s, OutDisabled)
      end
  | OFin e r =>
      match nth_error s (N.to_nat e) with
      | Some x =>
          match ep_resp_out x, ep_result x with
          | Some _, None =>
              let b := finish_authentication (ep_auth x) r in
              (upd s (N.to_nat e) (mkEp (ep_auth x) (ep_req_in x) (ep_resp_out x) (ep_resp_when x) (Some b)), OutFin b)
          | _, _ => (s, OutDisabled)
          end
      | None => (s, OutDisabled)
      end
  end.

Definition run (ops : list op) : state := fold_left (fun s o => fst (step s o)) ops [].

(** ** What the attacker can put on the wire (Dolev-Yao).

    Requests are plaintext: any request can be delivered, except that a challenge of an honest
    endpoint that does not exist yet cannot be guessed.  A response body is deliverable if it is
    garbage, sealed under a compromised key, or was emitted by some honest endpoint. *)
Definition chal_known (s : state) (c : chal) : bool :=
  match c with
  | HC n => N.ltb n (N.of_nat (length s))
  | AC _ => true
  end.

Definition cipher_eqb (a b : cipher) : bool :=
  match a, b with
  | Sealed k r c l, Sealed k' r' c' l' => N.eqb k k' && N.eqb r r' && chal_eqb c c' && N.eqb l l'
  | Garbage g, Garbage g' => N.eqb g g'
  | _, _ => false
  end.

Definition emitted (s : state) (b : cipher) : bool :=
  existsb (fun x => match ep_resp_out x with Some (REnc b') => cipher_eqb b b' | _ => false end) s.

Definition deliverable (bad : key -> bool) (s : state) (o : op) : bool :=
  match o with
  | ONew _ _ _ _ => true
  | OResp _ q => match rq_mode q with MEnc c _ => chal_known s c | MNoAuth => true end
  | OFin _ (REnc (Sealed k r c l)) => bad k || emitted s (Sealed k r c l)
  | OFin _ _ => true
  end.

Fixpoint all_deliverable (bad : key -> bool) (s : state) (ops : list op) : bool :=
  match ops with
  | [] => true
  | o :: t => deliverable bad s o && all_deliverable bad (fst (step s o)) t
  end.

(** ** The authentication predicate (also the run-time monitor on the implementation's trace).

    Endpoint number [e] (= [x]) accepted response [r]; [s] is the state of all endpoints at that
    moment.  [y] vouches for it if [y] holds the same key, acts in the role [x] expects, and sealed
    exactly this response when answering - after [x] existed - a request carrying [x]'s challenge. *)
Definition vouches (e : N) (x : ep) (k : key) (r : response) (y : ep) : bool :=
  match ep_resp_out y, ep_req_in y, a_challenge (ep_auth x) with
  | Some r', Some q, Some mine =>
      match r, r' with
      | REnc b, REnc b' =>
          cipher_eqb b b'
          && match a_key (ep_auth y) with Some k' => N.eqb k k' | None => false end
          && N.eqb (a_my_role (ep_auth y)) (a_peer_role (ep_auth x))
          && match rq_mode q with MEnc c l => chal_eqb c mine && N.eqb l CHALLENGE_LENGTH | MNoAuth => false end
          && N.ltb e (ep_resp_when y)
      | _, _ => false
      end
  | _, _, _ => false
  end.

Definition authentic (bad : key -> bool) (s : state) (e : N) (x : ep) (r : response) : bool :=
  match a_key (ep_auth x) with
  | None => match r with RNoAuth => true | _ => false end
  | Some k => bad k || existsb (vouches e x k r) s
  end.

(** The stronger predicate that also binds the protocol number and the voucher's view of the
    peer role (holds when the attacker only substitutes whole messages, see Proofs). *)
Definition vouches_full (e : N) (x : ep) (k : key) (r : response) (y : ep) : bool :=
  vouches e x k r y
  && N.eqb (a_protocol (ep_auth y)) (a_protocol (ep_auth x))
  && N.eqb (a_peer_role (ep_auth y)) (a_my_role (ep_auth x)).

Definition authentic_full (bad : key -> bool) (s : state) (e : N) (x : ep) (r : response) : bool :=
  match a_key (ep_auth x) with
  | None => match r with RNoAuth => true | _ => false end
  | Some k => bad k || existsb (vouches_full e x k r) s
  end.

(** Same, binding only the protocol number in addition (used to classify finding F19). *)
Definition authentic_proto (bad : key -> bool) (s : state) (e : N) (x : ep) (r : response) : bool :=
  match a_key (ep_auth x) with
  | None => match r with RNoAuth => true | _ => false end
  | Some k => bad k || existsb (fun y => vouches e x k r y && N.eqb (a_protocol (ep_auth y)) (a_protocol (ep_auth x))) s
  end.

(** * Undisturbed exchange between two endpoints (used by the theorems and by the monitor) *)
Record endpoint_cfg := mkCfg { c_protocol : N; c_me : role; c_peer : role; c_key : option key }.

(** Both ends run [do_authentication]; the network delivers each end's messages to the other. *)
Definition honest_exchange (A B : endpoint_cfg) (fa fb : chal) : bool * bool :=
  let a0 := new_auth (c_protocol A) (c_me A) (c_peer A) (c_key A) in
  let b0 := new_auth (c_protocol B) (c_me B) (c_peer B) (c_key B) in
  let '(a1, qa) := make_auth_request a0 fa in
  let '(b1, qb) := make_auth_request b0 fb in
  let '(a2, ra) := make_auth_response a1 qb in
  let '(b2, rb) := make_auth_response b1 qa in
  (finish_authentication a2 rb, finish_authentication b2 ra).

Definition opt_key_eqb (a b : option key) : bool :=
  match a, b with
  | None, None => true
  | Some x, Some y => N.eqb x y
  | _, _ => false
  end.

Definition matching (A B : endpoint_cfg) : bool :=
  N.eqb (c_protocol A) (c_protocol B)
  && opt_key_eqb (c_key A) (c_key B)
  && N.eqb (c_peer A) (c_me B)
  && N.eqb (c_peer B) (c_me A).

