(** C15: an EXACT class.  One worker, one resource kind, two request classes: the high class (0) with
    one priority level, the low class (1) with any number of priority levels strictly below it
    (arbitrary amounts, task counts, running tasks).  Every optimal solution of the exact row system,
    dispatched by any assignment [mapping_ok] accepts, is free of priority inversions
    ([exact_class_no_inversion]).  The proof computes the batches of the class symbolically
    ([merge_gen], [xbatches]), characterises ALL entries of the row system ([all_items_inv], [emit_inv]:
    completeness of the row description), shows that inside a class the dispatched tasks are its top ones
    ([same_class_order]) and that an inversion would allow a strictly better feasible point (one more
    high task instead of the low tasks, which fit into less than one high task's room because they sit
    in the gap). *)
From HQ Require Import Base.Prelude Gen.Consts Sched.Model Sched.ProofsOrder Sched.ProofsRows Sched.ProofsCuts.
Require Import ZifyBool ZifyN ZifyNat.
From Coq Require Import Sorting.Sorted.
Open Scope N_scope.
Local Arguments N.add : simpl never. Local Arguments N.sub : simpl never. Local Arguments N.mul : simpl never.
Local Arguments N.eqb : simpl never. Local Arguments N.ltb : simpl never. Local Arguments N.leb : simpl never.
Local Arguments N.of_nat : simpl never. Local Arguments N.to_nat : simpl never. Local Arguments N.div : simpl never.
Local Arguments N.min : simpl never. Local Arguments N.max : simpl never.

(** * An exact class of C15: one worker, one resource kind, two request classes with one priority
      level each (class 0 strictly above class 1) *)

Definition xworker (R F : N) (assigned : list N) : worker :=
  {| w_id := 1; w_res := [R]; w_free := [F]; w_assigned := assigned; w_blocked := []; w_term := None |}.

Definition xinst (R F : N) (assigned : list N) (ah al ph : N) (hs : list N) (lq : list (N * list N)) : inst :=
  {| i_nres := 1; i_now := 0;
     i_workers := [xworker R F assigned];
     i_classes := [ {| rc_entries := [(0, ah)]; rc_min_time := 0; rc_all := [] |}; {| rc_entries := [(0, al)]; rc_min_time := 0; rc_all := [] |} ];
     i_queues := [ {| q_ready := [(ph, hs)]; q_prefill := None |}; {| q_ready := lq; q_prefill := None |} ] |}.

(** the (priority, size) levels of the low class and the size / limit flag the merge loop ends with *)
Definition levels (lq : list (N * list N)) : list (N * N) := map (fun e => (fst e, nlen (snd e))) lq.
Fixpoint low_size (limit size : N) (lv : list (N * N)) : N :=
  match lv with
  | [] => size
  | (_, sz) :: t => if limit <? size + sz then limit else low_size limit (size + sz) t
  end.
Fixpoint low_lr (limit size : N) (lv : list (N * N)) : bool :=
  match lv with
  | [] => false
  | (_, sz) :: t => if limit <? size + sz then true else low_lr limit (size + sz) t
  end.

Definition xbatch_h (F ah : N) (hs : list N) : batch :=
  let limit := task_max_count [F] [(0, ah)] in
  {| b_rq := 0; b_cuts := []; b_size := if limit <? nlen hs then limit else nlen hs; b_limit := limit;
     b_lr := limit <? nlen hs; b_blk := true |}.

Definition xbatch_l (F ah al : N) (hs : list N) (lq : list (N * list N)) : batch :=
  let limit := task_max_count [F] [(0, al)] in
  let bh := xbatch_h F ah hs in
  {| b_rq := 1; b_cuts := [ {| c_size := 0; c_blockers := [(0, if b_lr bh then None else Some (b_size bh))] |} ];
     b_size := low_size limit 0 (levels lq); b_limit := limit;
     b_lr := low_lr limit 0 (levels lq); b_blk := false |}.

Lemma tmc1 : forall F a, task_max_count [F] [(0, a)] = N.min (F / a) SCHED_MAX_TASK_PER_WORKER.
Proof. reflexivity. Qed.


Definition b0 (rq limit : N) : batch :=
  {| b_rq := rq; b_cuts := []; b_size := 0; b_limit := limit; b_lr := false; b_blk := false |}.

Lemma merge_loop_S : forall f st u, merge_loop (S f) st u =
  match found_from st (highest_prio st) 0 with
  | [] => st
  | [i] => if (match u with Some u0 => Nat.eqb u0 i | None => false end)
           then merge_loop f (map_at advance_one st i) u
           else merge_loop f (map_at advance_one (add_cut st i) i) (Some i)
  | found => merge_loop f (fold_left (fun s i => map_at advance_one s i) found (fold_left add_cut found st)) None
  end.
Proof. intros. simpl. destruct (found_from st (highest_prio st) 0) as [|i [|j r]]; reflexivity. Qed.

Definition bh1 (lh nh : N) : batch :=
  {| b_rq := 0; b_cuts := []; b_size := if lh <? nh then lh else nh; b_limit := lh; b_lr := lh <? nh; b_blk := false |}.


(** the low class keeps consuming its levels once it is the only class left ([unique = Some 1]) *)
Fixpoint run (b : batch) (rem : list (N * N)) : batch :=
  match rem with
  | [] => b
  | (_, sz) :: t =>
      let s := b_size b + sz in
      if b_limit b <? s then set_size b (b_limit b) true else run (set_size b s (b_lr b)) t
  end.

Lemma merge_tail : forall rem fuel b bhf, (length rem <= fuel)%nat ->
  merge_loop fuel [(bhf, []); (b, rem)] (Some 1%nat) = [(bhf, []); (run b rem, [])].
Proof.
  induction rem as [|[p sz] t IH]; intros fuel b bhf Hf.
  - destruct fuel; [reflexivity|]. rewrite merge_loop_S. reflexivity.
  - destruct fuel as [|fuel]; [simpl in Hf; lia|]. rewrite merge_loop_S.
    assert (H1 : highest_prio [(bhf, []); (b, (p, sz) :: t)] = p) by (cbn; lia).
    rewrite H1.
    assert (F1 : found_from [(bhf, []); (b, (p, sz) :: t)] p 0 = [1%nat]) by (cbn; rewrite N.eqb_refl; reflexivity).
    rewrite F1. cbn [Nat.eqb]. cbn [map_at advance_one snd fst run].
    destruct (b_limit b <? b_size b + sz).
    + destruct fuel; [reflexivity|]. rewrite merge_loop_S. reflexivity.
    + apply IH. simpl in Hf. lia.
Qed.

Lemma run_eq : forall rem b, b_lr b = false ->
  run b rem = {| b_rq := b_rq b; b_cuts := b_cuts b; b_size := low_size (b_limit b) (b_size b) rem;
                 b_limit := b_limit b; b_lr := low_lr (b_limit b) (b_size b) rem; b_blk := b_blk b |}.
Proof.
  induction rem as [|[p sz] t IH]; intros b Hlr.
  - destruct b. simpl in *. subst. reflexivity.
  - cbn [run low_size low_lr]. destruct (b_limit b <? b_size b + sz); [reflexivity|].
    rewrite IH by (cbn; assumption). reflexivity.
Qed.

Lemma merge_gen : forall lh ll ph nh p1 n1 rest, p1 < ph -> 0 < nh ->
  merge_loop (S (S (length ((p1, n1) :: rest)))) [(b0 0 lh, [(ph, nh)]); (b0 1 ll, (p1, n1) :: rest)] None =
  [ (set_blk (bh1 lh nh), []);
    ({| b_rq := 1; b_cuts := [ {| c_size := 0; c_blockers := [(0, if lh <? nh then None else Some nh)] |} ];
        b_size := low_size ll 0 ((p1, n1) :: rest); b_limit := ll; b_lr := low_lr ll 0 ((p1, n1) :: rest); b_blk := false |}, []) ].
Proof.
  intros lh ll ph nh p1 n1 rest Hp Hnh.
  rewrite merge_loop_S.
  assert (H1 : highest_prio [(b0 0 lh, [(ph, nh)]); (b0 1 ll, (p1, n1) :: rest)] = ph) by (cbn; lia).
  rewrite H1.
  assert (F1 : found_from [(b0 0 lh, [(ph, nh)]); (b0 1 ll, (p1, n1) :: rest)] ph 0 = [0%nat]).
  { cbn. rewrite N.eqb_refl. destruct (N.eqb_spec p1 ph); [lia|reflexivity]. }
  rewrite F1.
  assert (A1 : add_cut [(b0 0 lh, [(ph, nh)]); (b0 1 ll, (p1, n1) :: rest)] 0 = [(b0 0 lh, [(ph, nh)]); (b0 1 ll, (p1, n1) :: rest)])
    by reflexivity.
  rewrite A1.
  assert (S1 : map_at advance_one [(b0 0 lh, [(ph, nh)]); (b0 1 ll, (p1, n1) :: rest)] 0 = [(bh1 lh nh, []); (b0 1 ll, (p1, n1) :: rest)]).
  { cbn [map_at advance_one snd fst b0 b_size b_limit]. replace (0 + nh) with nh by lia.
    unfold bh1. destruct (lh <? nh); reflexivity. }
  rewrite S1.
  rewrite merge_loop_S.
  assert (H2 : highest_prio [(bh1 lh nh, []); (b0 1 ll, (p1, n1) :: rest)] = p1) by (cbn; lia).
  rewrite H2.
  assert (F2 : found_from [(bh1 lh nh, []); (b0 1 ll, (p1, n1) :: rest)] p1 0 = [1%nat]) by (cbn; rewrite N.eqb_refl; reflexivity).
  rewrite F2. cbn [Nat.eqb].
  set (cut := {| c_size := 0; c_blockers := [(0, if lh <? nh then None else Some nh)] |}).
  assert (A2 : add_cut [(bh1 lh nh, []); (b0 1 ll, (p1, n1) :: rest)] 1 =
               [(set_blk (bh1 lh nh), []); (push_cut (b0 1 ll) cut, (p1, n1) :: rest)]).
  { unfold add_cut. cbn [higher_priorities mapi_from concat fst is_higher Nat.eqb negb andb nth_error b_size b0 app b_lr b_rq].
    assert (Hh : ((0 <? b_size (bh1 lh nh)) || b_lr (bh1 lh nh)) = true).
    { unfold bh1. cbn [b_size b_lr]. destruct (N.ltb_spec lh nh); [apply Bool.orb_true_r|].
      destruct (N.ltb_spec 0 nh); [reflexivity|lia]. }
    rewrite Hh. replace (0 <? 0) with false by reflexivity.
    cbn [andb orb app concat map_at snd fst]. unfold cut, bh1. cbn [b_lr b_size b_rq].
    destruct (lh <? nh); reflexivity. }
  rewrite A2.
  (* the first low level is consumed like all the later ones *)
  assert (S2 : map_at advance_one [(set_blk (bh1 lh nh), []); (push_cut (b0 1 ll) cut, (p1, n1) :: rest)] 1 =
               [(set_blk (bh1 lh nh), []);
                (if ll <? 0 + n1 then (set_size (push_cut (b0 1 ll) cut) ll true, [])
                 else (set_size (push_cut (b0 1 ll) cut) (0 + n1) false, rest))]).
  { cbn [map_at advance_one snd fst push_cut b0 b_size b_limit b_cuts b_rq b_lr b_blk app].
    destruct (ll <? 0 + n1); reflexivity. }
  rewrite S2. clear S2.
  pose proof (run_eq ((p1, n1) :: rest) (push_cut (b0 1 ll) cut) eq_refl) as Hr.
  cbn [push_cut b0 b_rq b_cuts b_size b_limit b_lr b_blk app] in Hr. rewrite <- Hr. clear Hr.
  cbn [run push_cut b0 b_size b_limit b_lr].
  destruct (ll <? 0 + n1).
  - cbn [length]. rewrite merge_loop_S. reflexivity.
  - rewrite merge_tail by (simpl; lia). reflexivity.
Qed.


Lemma xbatch_limit_h : forall R F assigned ah al ph hs lq, 0 < ah -> ah <= F -> F <= R ->
  batch_limit (xinst R F assigned ah al ph hs lq) 0 = task_max_count [F] [(0, ah)].
Proof.
  intros. unfold batch_limit. cbn [xinst i_workers fold_right].
  assert (Hc : capable (xinst R F assigned ah al ph hs lq) (xworker R F assigned) 0 = true).
  { change (capable (xinst R F assigned ah al ph hs lq) (xworker R F assigned) 0) with ((ah <=? R) && true).
    destruct (N.leb_spec ah R); [reflexivity|lia]. }
  rewrite Hc. change (task_max_count_cls (w_free (xworker R F assigned)) (class_of (xinst R F assigned ah al ph hs lq) 0)) with (task_max_count [F] [(0, ah)]).
  assert (1 <= task_max_count [F] [(0, ah)]).
  { rewrite tmc1. assert (1 <= F / ah) by (apply N.div_le_lower_bound; lia). unfold SCHED_MAX_TASK_PER_WORKER. lia. }
  destruct (N.ltb_spec 0 (task_max_count [F] [(0, ah)])); lia.
Qed.

Lemma xbatch_limit_l : forall R F assigned ah al ph hs lq, 0 < al -> al <= F -> F <= R ->
  batch_limit (xinst R F assigned ah al ph hs lq) 1 = task_max_count [F] [(0, al)].
Proof.
  intros. unfold batch_limit. cbn [xinst i_workers fold_right].
  assert (Hc : capable (xinst R F assigned ah al ph hs lq) (xworker R F assigned) 1 = true).
  { change (capable (xinst R F assigned ah al ph hs lq) (xworker R F assigned) 1) with ((al <=? R) && true).
    destruct (N.leb_spec al R); [reflexivity|lia]. }
  rewrite Hc. change (task_max_count_cls (w_free (xworker R F assigned)) (class_of (xinst R F assigned ah al ph hs lq) 1)) with (task_max_count [F] [(0, al)]).
  assert (1 <= task_max_count [F] [(0, al)]).
  { rewrite tmc1. assert (1 <= F / al) by (apply N.div_le_lower_bound; lia). unfold SCHED_MAX_TASK_PER_WORKER. lia. }
  destruct (N.ltb_spec 0 (task_max_count [F] [(0, al)])); lia.
Qed.

Lemma low_size_ge : forall lv limit s, N.min limit s <= low_size limit s lv.
Proof.
  induction lv as [|[p sz] t IH]; intros limit s; cbn [low_size]; [lia|].
  destruct (N.ltb_spec limit (s + sz)); [lia|]. specialize (IH limit (s + sz)). lia.
Qed.

Lemma xbatches : forall R F assigned ah al ph hs lq,
  0 < ah -> 0 < al -> ah <= F -> al <= F -> F <= R ->
  Forall (fun e : N * list N => fst e < ph) lq -> hs <> [] -> lq <> [] -> Forall (fun e : N * list N => snd e <> []) lq ->
  create_task_batches (xinst R F assigned ah al ph hs lq) = Ok [xbatch_h F ah hs; xbatch_l F ah al hs lq].
Proof.
  intros R F assigned ah al ph hs lq Hah Hal HhF HlF HFR Hp Hhs Hls Hne.
  assert (Hlh : 1 <= task_max_count [F] [(0, ah)]).
  { rewrite tmc1. assert (1 <= F / ah) by (apply N.div_le_lower_bound; lia). unfold SCHED_MAX_TASK_PER_WORKER. lia. }
  assert (Hll : 1 <= task_max_count [F] [(0, al)]).
  { rewrite tmc1. assert (1 <= F / al) by (apply N.div_le_lower_bound; lia). unfold SCHED_MAX_TASK_PER_WORKER. lia. }
  assert (Hnh : 1 <= nlen hs) by (destruct hs; [congruence|unfold nlen; simpl; lia]).
  destruct lq as [|[p1 ids1] lq']; [congruence|].
  inversion Hp as [|? ? Hp1 Hp']; subst. inversion Hne as [|? ? Hne1 Hne']; subst. simpl in Hp1, Hne1.
  assert (Hn1 : 1 <= nlen ids1) by (destruct ids1; [congruence|unfold nlen; simpl; lia]).
  unfold create_task_batches.
  assert (Hq : filter (fun e : N * queue => negb (queue_is_empty (snd e)))
                 (mapi_from (fun i q => (N.of_nat i, q)) (i_queues (xinst R F assigned ah al ph hs ((p1, ids1) :: lq'))) 0)
               = [(0, {| q_ready := [(ph, hs)]; q_prefill := None |}); (1, {| q_ready := (p1, ids1) :: lq'; q_prefill := None |})]).
  { destruct hs; [congruence|]. reflexivity. }
  rewrite Hq. cbn [map fst snd iter_priority_sizes q_ready q_prefill].
  rewrite xbatch_limit_h, xbatch_limit_l by assumption.
  fold (b0 0 (task_max_count [F] [(0, ah)])). fold (b0 1 (task_max_count [F] [(0, al)])).
  cbn [fold_right snd length Nat.add].
  change (map (fun e : N * list N => (fst e, nlen (snd e))) lq') with (levels lq').
  replace (S (S (S (length (levels lq') + 0)))) with (S (S (length ((p1, nlen ids1) :: levels lq')))) by (simpl; lia).
  rewrite merge_gen by lia.
  cbn [map fst b_cuts set_blk bh1].
  assert (Hp0 : forall A (v : list A), (nlen v <=? SCHED_BATCH_PRUNING_MAX_SIZE) = true ->
            prune_progressive v SCHED_BATCH_PRUNING_FIXED_PREFIX SCHED_BATCH_PRUNING_MAX_SIZE = Ok v).
  { intros A v E. unfold prune_progressive. rewrite E. reflexivity. }
  rewrite !Hp0 by reflexivity. cbn [bind collect_res set_cuts b_rq b_size b_limit b_lr b_blk b_cuts].
  cbn [filter b_size].
  assert (S1 : 0 <? (if task_max_count [F] [(0, ah)] <? nlen hs then task_max_count [F] [(0, ah)] else nlen hs) = true)
    by (destruct (task_max_count [F] [(0, ah)] <? nlen hs); lia).
  assert (S2 : 0 <? low_size (task_max_count [F] [(0, al)]) 0 ((p1, nlen ids1) :: levels lq') = true).
  { cbn [low_size]. destruct (N.ltb_spec (task_max_count [F] [(0, al)]) (0 + nlen ids1)); [lia|].
    pose proof (low_size_ge (levels lq') (task_max_count [F] [(0, al)]) (0 + nlen ids1)). lia. }
  unfold set_cuts, set_blk, bh1. cbn [b_size b_rq b_cuts b_limit b_lr b_blk].
  rewrite S1, S2. unfold xbatch_h, xbatch_l. cbn [b_lr b_size xbatch_h levels map fst snd].
  destruct (task_max_count [F] [(0, ah)] <? nlen hs); reflexivity.
Qed.

(** ** the gap of the exact class *)

Lemma rv1_remove : forall x a n, rv_remove_multiple [x] [(0, a)] n = Ok [x - a * n].
Proof. reflexivity. Qed.

Lemma remove_assigned_x : forall R F assigned ah al ph hs lq x asg h,
  exists y, remove_assigned (xinst R F assigned ah al ph hs lq) [x] asg h = Ok [y] /\ y <= x.
Proof.
  intros R F assigned ah al ph hs lq x asg h. revert x.
  induction asg as [|rq t IH]; intros x; cbn [remove_assigned].
  - exists x. split; [reflexivity|lia].
  - destruct (rq =? h); [apply IH|].
    assert (Hr : exists y, rv_remove_cls [x] (class_of (xinst R F assigned ah al ph hs lq) rq) 1 = Ok [y] /\ y <= x).
    { unfold class_of. cbn [xinst i_classes].
      destruct (N.to_nat rq) as [|[|n]] eqn:E; cbn [nth].
      - change (rv_remove_cls [x] {| rc_entries := [(0, ah)]; rc_min_time := 0; rc_all := [] |} 1) with (rv_remove_multiple [x] [(0, ah)] 1).
        rewrite rv1_remove. exists (x - ah * 1). split; [reflexivity|lia].
      - change (rv_remove_cls [x] {| rc_entries := [(0, al)]; rc_min_time := 0; rc_all := [] |} 1) with (rv_remove_multiple [x] [(0, al)] 1).
        rewrite rv1_remove. exists (x - al * 1). split; [reflexivity|lia].
      - destruct n; cbn; exists x; split; try reflexivity; lia. }
    destruct Hr as (y & Hy & Hle). rewrite Hy. cbn [bind].
    destruct (IH y) as (y' & Hy' & Hle'). exists y'. split; [assumption|lia].
Qed.

Lemma xgap : forall R F assigned ah al ph hs lq,
  0 < ah -> 0 < al -> R / ah <= SCHED_MAX_TASK_PER_WORKER ->
  exists g, gap (xinst R F assigned ah al ph hs lq) (xworker R F assigned) 0 1 = Ok g /\ g * al < ah.
Proof.
  intros R F assigned ah al ph hs lq Hah Hal Hcap.
  unfold gap. change (rc_all (class_of (xinst R F assigned ah al ph hs lq) 0)) with (@nil N). cbv iota.
  unfold gap_resources. cbv zeta.
  change (task_max_count_cls (w_res (xworker R F assigned)) (class_of (xinst R F assigned ah al ph hs lq) 0)) with (task_max_count [R] [(0, ah)]).
  change (rv_remove_cls (w_res (xworker R F assigned)) (class_of (xinst R F assigned ah al ph hs lq) 0)) with (rv_remove_multiple [R] [(0, ah)]).
  change (w_assigned (xworker R F assigned)) with assigned.
  rewrite rv1_remove. cbn [bind].
  destruct (remove_assigned_x R F assigned ah al ph hs lq (R - ah * task_max_count [R] [(0, ah)]) assigned 0) as (y & Hy & Hle).
  rewrite Hy. cbn [bind]. exists (task_max_count [y] [(0, al)]). split; [reflexivity|].
  rewrite !tmc1 in *. replace (N.min (R / ah) SCHED_MAX_TASK_PER_WORKER) with (R / ah) in Hle by lia.
  assert (Hmod : R - ah * (R / ah) < ah).
  { pose proof (N.mod_lt R ah ltac:(lia)). pose proof (N.div_mod R ah ltac:(lia)). lia. }
  assert (Hy2 : y / al * al <= y) by (pose proof (N.div_mod y al ltac:(lia)); pose proof (N.mod_lt y al ltac:(lia)); nia).
  assert (N.min (y / al) SCHED_MAX_TASK_PER_WORKER <= y / al) by lia. nia.
Qed.

(** * Completeness of the row description: every entry of [milp_of] is one of the described forms *)

Lemma collect_res_out : forall {A B} (f : A -> res B) l out b,
  collect_res (map f l) = Ok out -> In b out -> exists a, In a l /\ f a = Ok b.
Proof.
  intros A B f. induction l as [|x t IH]; intros out b H Hin; simpl in H.
  - inversion H; subst. contradiction.
  - destruct (f x) as [bx| |] eqn:E; simpl in H; try discriminate.
    destruct (collect_res (map f t)) as [bs| |] eqn:E2; simpl in H; try discriminate.
    inversion H; subst. destruct Hin as [<-|Hin].
    + exists x. split; [left; reflexivity|assumption].
    + destruct (IH bs b eq_refl Hin) as (a & Ha & Hf). exists a. split; [right; assumption|assumption].
Qed.

(** the items of one (cut, blocker) *)
Inductive gap_item (I : inst) (bs : list batch) (b : batch) (c : cut) (h : N) (bsz : option N) : item -> Prop :=
| GI_B : forall w g sz, bsz = Some sz -> In w (i_workers I) -> capable I w h = true -> gap I w h (b_rq b) = Ok g -> 0 < g ->
         gap_item I bs b c h bsz (IGapB (w_id w) (b_rq b) h (c_size c) sz g (b_size b) (xvars I bs w (b_rq b)))
| GI_U : forall w g, bsz = None -> In w (i_workers I) -> capable I w h = true -> gap I w h (b_rq b) = Ok g -> 0 < g ->
         gap_item I bs b c h bsz (IGapU (w_id w) (b_rq b) h (c_size c) g (xvars I bs w (b_rq b))).

Lemma blocker_items_inv : forall I bs b c h bsz hb ws zero its zero' it,
  (forall w, In w ws -> In w (i_workers I)) ->
  blocker_items I bs b c h bsz hb ws zero = Ok (its, zero') -> In it its -> gap_item I bs b c h bsz it.
Proof.
  intros I bs b c h bsz hb. induction ws as [|w t IH]; intros zero its zero' it Hsub H Hin.
  - simpl in H. inversion H; subst. contradiction.
  - rewrite blocker_items_cons in H. destruct (capable I w h) eqn:Hc.
    + destruct (gap I w h (b_rq b)) as [g| |] eqn:Hg; cbn [bind] in H; try discriminate.
      destruct (N.ltb_spec 0 g) as [Hpos|Hz].
      * destruct (blocker_items I bs b c h bsz hb t zero) as [[its1 z1]| |] eqn:E; cbn [bind fst snd] in H; try discriminate.
        inversion H; subst. apply in_app_or in Hin. destruct Hin as [Hin|Hin].
        -- destruct bsz as [sz|].
           ++ destruct hb; [|contradiction]. destruct Hin as [<-|[]].
              apply GI_B; auto. apply Hsub. left. reflexivity.
           ++ destruct Hin as [<-|[]]. apply GI_U; auto. apply Hsub. left. reflexivity.
        -- eapply IH; [|exact E|exact Hin]. intros w' Hw'. apply Hsub. right. assumption.
      * eapply IH; [|exact H|exact Hin]. intros w' Hw'. apply Hsub. right. assumption.
    + eapply IH; [|exact H|exact Hin]. intros w' Hw'. apply Hsub. right. assumption.
Qed.

(** an item of a batch *)
Inductive batch_item (I : inst) (bs : list batch) (b : batch) : item -> Prop :=
| BI_size : b_lr b = false -> batch_item I bs b (ISize (b_rq b) (b_size b))
| BI_gap : forall c h bsz it, In c (b_cuts b) -> In (h, bsz) (c_blockers c) -> gap_item I bs b c h bsz it -> batch_item I bs b it
| BI_zeroB : forall c h sz zero, In c (b_cuts b) -> In (h, Some sz) (c_blockers c) ->
             (forall s : sol, lhs s (ones zero) = zero_sum I bs s h (b_rq b) (i_workers I)) ->
             batch_item I bs b (IZeroB (b_rq b) h (c_size c) sz (b_size b) zero)
| BI_zeroU : forall c h zero, In c (b_cuts b) -> In (h, None) (c_blockers c) ->
             (forall s : sol, lhs s (ones zero) = zero_sum I bs s h (b_rq b) (i_workers I)) ->
             batch_item I bs b (IZeroU (b_rq b) h (c_size c) zero).

Lemma cut_items_inv : forall I bs b c bl seen its seen' it,
  cut_items I bs b c bl seen = Ok (its, seen') -> In it its ->
  (exists h bsz, In (h, bsz) bl /\ gap_item I bs b c h bsz it)
  \/ (exists h sz zero, In (h, Some sz) bl /\ it = IZeroB (b_rq b) h (c_size c) sz (b_size b) zero
                        /\ forall s : sol, lhs s (ones zero) = zero_sum I bs s h (b_rq b) (i_workers I))
  \/ (exists h zero, In (h, None) bl /\ it = IZeroU (b_rq b) h (c_size c) zero
                     /\ forall s : sol, lhs s (ones zero) = zero_sum I bs s h (b_rq b) (i_workers I)).
Proof.
  intros I bs b c. induction bl as [|[h0 bsz0] t IH]; intros seen its seen' it H Hin.
  - simpl in H. inversion H; subst. contradiction.
  - simpl in H.
    destruct (blocker_items I bs b c h0 bsz0 _ (i_workers I) []) as [[its1 zero]| |] eqn:E; simpl in H; try discriminate.
    assert (Hz : forall s : sol, lhs s (ones zero) = zero_sum I bs s h0 (b_rq b) (i_workers I)).
    { intros s. rewrite (blocker_items_zero I bs s _ _ _ _ _ _ _ _ _ E). simpl. lia. }
    set (zz := match zero with [] => _ | _ => _ end) in H. destruct zz as [zitem seen1] eqn:Ezz.
    destruct (cut_items I bs b c t seen1) as [[its2 seen2]| |] eqn:E2; simpl in H; try discriminate.
    inversion H; subst. apply in_app_or in Hin. destruct Hin as [Hin|Hin].
    + left. exists h0, bsz0. split; [left; reflexivity|].
      eapply blocker_items_inv; [|exact E|exact Hin]. auto.
    + apply in_app_or in Hin. destruct Hin as [Hin|Hin].
      * unfold zz in Ezz. destruct zero as [|v vs]; [inversion Ezz; subst; contradiction|].
        destruct bsz0 as [sz|].
        -- destruct (match count_vars I bs h0 with [] => false | _ => true end); inversion Ezz; subst; [|contradiction].
           destruct Hin as [<-|[]]. right. left. exists h0, sz, (v :: vs). split; [left; reflexivity|split; [reflexivity|assumption]].
        -- destruct (existsb (N.eqb h0) seen); inversion Ezz; subst; [contradiction|].
           destruct Hin as [<-|[]]. right. right. exists h0, (v :: vs). split; [left; reflexivity|split; [reflexivity|assumption]].
      * destruct (IH _ _ _ it E2 Hin) as [(h & bsz & Hb & Hg)|[(h & sz & z0 & Hb & He & Hs)|(h & z0 & Hb & He & Hs)]].
        -- left. exists h, bsz. split; [right; assumption|assumption].
        -- right. left. exists h, sz, z0. split; [right; assumption|auto].
        -- right. right. exists h, z0. split; [right; assumption|auto].
Qed.

Lemma cuts_items_inv : forall I bs b cs seen its it,
  cuts_items I bs b cs seen = Ok its -> In it its ->
  exists c, In c cs /\
  ((exists h bsz, In (h, bsz) (c_blockers c) /\ gap_item I bs b c h bsz it)
   \/ (exists h sz zero, In (h, Some sz) (c_blockers c) /\ it = IZeroB (b_rq b) h (c_size c) sz (b_size b) zero
                         /\ forall s : sol, lhs s (ones zero) = zero_sum I bs s h (b_rq b) (i_workers I))
   \/ (exists h zero, In (h, None) (c_blockers c) /\ it = IZeroU (b_rq b) h (c_size c) zero
                      /\ forall s : sol, lhs s (ones zero) = zero_sum I bs s h (b_rq b) (i_workers I))).
Proof.
  intros I bs b. induction cs as [|c0 t IH]; intros seen its it H Hin.
  - simpl in H. inversion H; subst. contradiction.
  - simpl in H. destruct (cut_items I bs b c0 (c_blockers c0) seen) as [[its1 seen1]| |] eqn:E; simpl in H; try discriminate.
    destruct (cuts_items I bs b t seen1) as [its2| |] eqn:E2; simpl in H; try discriminate.
    inversion H; subst. apply in_app_or in Hin. destruct Hin as [Hin|Hin].
    + exists c0. split; [left; reflexivity|]. eapply cut_items_inv; eassumption.
    + destruct (IH _ _ it E2 Hin) as (c & Hc & Hx). exists c. split; [right; assumption|assumption].
Qed.

Lemma all_items_inv : forall I bs its it, all_items I bs = Ok its -> In it its ->
  exists b, In b bs /\ batch_item I bs b it.
Proof.
  intros I bs its it H Hin. unfold all_items in H.
  destruct (collect_res (map (batch_items I bs) bs)) as [l| |] eqn:E; simpl in H; try discriminate.
  inversion H; subst. apply in_concat in Hin. destruct Hin as (bi & Hbi & Hin).
  destruct (collect_res_out _ _ _ _ E Hbi) as (b & Hb & Hf). exists b. split; [assumption|].
  unfold batch_items in Hf. destruct (count_vars I bs (b_rq b)); [inversion Hf; subst; contradiction|].
  destruct (cuts_items I bs b (b_cuts b) []) as [ci| |] eqn:E3; simpl in Hf; try discriminate. inversion Hf; subst.
  apply in_app_or in Hin. destruct Hin as [Hin|Hin].
  - destruct (b_lr b) eqn:Elr; [contradiction|]. destruct Hin as [<-|[]]. apply BI_size. assumption.
  - destruct (cuts_items_inv _ _ _ _ _ _ it E3 Hin) as (c & Hc & [(h & bsz & Hb' & Hg)|[(h & sz & z0 & Hb' & -> & Hs)|(h & z0 & Hb' & -> & Hs)]]).
    + eapply BI_gap; eassumption.
    + eapply BI_zeroB; eassumption.
    + eapply BI_zeroU; eassumption.
Qed.

(** entries of the emission *)
Lemma emit_inv : forall I bs its created e, In e (emit I bs created its) ->
  (exists it, In it its /\ e = ERow (item_row I bs it))
  \/ (exists it h sz, In it its /\ item_bvar it = Some (h, sz) /\ (e = EVar (VB h sz) KBool 0%Z \/ e = ERow (blk_row I bs h sz))).
Proof.
  intros I bs. induction its as [|i0 t IH]; intros created e Hin; [contradiction|].
  simpl in Hin. destruct (item_bvar i0) as [[h sz]|] eqn:Eb.
  - destruct (pair_mem (h, sz) created).
    + destruct Hin as [<-|Hin]; [left; exists i0; split; [left|]; reflexivity|].
      destruct (IH _ _ Hin) as [(it & Hi & He)|(it & h' & sz' & Hi & Hb & He)].
      * left. exists it. split; [right; assumption|assumption].
      * right. exists it, h', sz'. split; [right; assumption|auto].
    + destruct Hin as [<-|[<-|[<-|Hin]]].
      * right. exists i0, h, sz. split; [left; reflexivity|auto].
      * right. exists i0, h, sz. split; [left; reflexivity|auto].
      * left. exists i0. split; [left|]; reflexivity.
      * destruct (IH _ _ Hin) as [(it & Hi & He)|(it & h' & sz' & Hi & Hb & He)].
        -- left. exists it. split; [right; assumption|assumption].
        -- right. exists it, h', sz'. split; [right; assumption|auto].
  - destruct Hin as [<-|Hin]; [left; exists i0; split; [left|]; reflexivity|].
    destruct (IH _ _ Hin) as [(it & Hi & He)|(it & h' & sz' & Hi & Hb & He)].
    + left. exists it. split; [right; assumption|assumption].
    + right. exists it, h', sz'. split; [right; assumption|auto].
Qed.

Lemma objective_app : forall a b s, objective (a ++ b) s = (objective a s + objective b s)%Z.
Proof.
  intros a b s. unfold objective. induction a as [|e t IH]; simpl; [lia|].
  rewrite IH. destruct e; lia.
Qed.

Lemma objective_emit : forall I bs its created s, objective (emit I bs created its) s = 0%Z.
Proof.
  intros I bs. induction its as [|i0 t IH]; intros created s; [reflexivity|].
  simpl. destruct (item_bvar i0) as [hs|].
  - destruct (pair_mem hs created); unfold objective in *; simpl; rewrite IH; lia.
  - unfold objective in *. simpl. apply IH.
Qed.


Section Exact.
Variables (R F : N) (assigned : list N) (ah al ph : N) (hs : list N) (lq : list (N * list N)).
Hypothesis Hah : 0 < ah.
Hypothesis Hal : 0 < al.
Hypothesis HhF : ah <= F.
Hypothesis HlF : al <= F.
Hypothesis HFR : F <= R.
Hypothesis Hp : Forall (fun e : N * list N => fst e < ph) lq.

Let I := xinst R F assigned ah al ph hs lq.
Let W := xworker R F assigned.
Let bh := xbatch_h F ah hs.
Let bl := xbatch_l F ah al hs lq.

Lemma x_placeable_h : placeable I W 0 = true.
Proof.
  change (placeable I W 0) with (negb false && true && ((ah <=? F) && true)).
  destruct (N.leb_spec ah F); [reflexivity|lia].
Qed.
Lemma x_placeable_l : placeable I W 1 = true.
Proof.
  change (placeable I W 1) with (negb false && true && ((al <=? F) && true)).
  destruct (N.leb_spec al F); [reflexivity|lia].
Qed.
Lemma x_pk_h : placement_kind I W bh = PX.
Proof. apply placement_px. exact x_placeable_h. Qed.
Lemma x_pk_l : placement_kind I W bl = PX.
Proof. apply placement_px. exact x_placeable_l. Qed.

Lemma x_weight_h : x_weight I 0 0 = 100 * ah.
Proof.
  unfold x_weight. change (req_of I 0) with [(0, ah)]. change (nlen (i_workers I)) with 1.
  cbn [fold_right fst snd]. change (resource_sum I 0) with (F + 0).
  change (prod_sums_except I (Some 0)) with 1.
  destruct (N.eqb_spec (F + 0) 0); [lia|]. unfold SCHED_RESERVATION_WEIGHT_DIV. lia.
Qed.
Lemma x_weight_l : x_weight I 0 1 = 100 * al.
Proof.
  unfold x_weight. change (req_of I 1) with [(0, al)]. change (nlen (i_workers I)) with 1.
  cbn [fold_right fst snd]. change (resource_sum I 0) with (F + 0).
  change (prod_sums_except I (Some 0)) with 1.
  destruct (N.eqb_spec (F + 0) 0); [lia|]. unfold SCHED_RESERVATION_WEIGHT_DIV. lia.
Qed.

Lemma x_worker_entries : worker_entries I [bh; bl] 0 W =
  [EVar (VX 1 0) KNat (z (100 * ah)); EVar (VX 1 1) KNat (z (100 * al));
   ERow {| r_kind := RRes 1 0; r_terms := [(VX 1 0, z ah); (VX 1 1, z al)]; r_le := true; r_bound := z F |}].
Proof.
  unfold worker_entries. change (inst_on I W) with I. cbn [map concat]. rewrite x_pk_h, x_pk_l.
  change (b_rq bh) with 0. change (b_rq bl) with 1. change (w_id W) with 1.
  rewrite x_weight_h, x_weight_l.
  change (seqN 0 (N.to_nat (i_nres I))) with [0]. cbn [map concat app].
  change (req_of I 0) with [(0, ah)]. change (req_of I 1) with [(0, al)].
  cbn [map concat fst snd app]. change (0 =? 0) with true. cbn [app].
  change (rv_get (w_free W) 0) with F. reflexivity.
Qed.

End Exact.


Section ExactD.
Variables (R F : N) (assigned : list N) (ah al ph : N) (hs : list N) (lq : list (N * list N)).
Hypothesis Hah : 0 < ah.
Hypothesis Hal : 0 < al.
Hypothesis HhF : ah <= F.
Hypothesis HlF : al <= F.
Hypothesis HFR : F <= R.
Hypothesis Hp : Forall (fun e : N * list N => fst e < ph) lq.

Let I := xinst R F assigned ah al ph hs lq.
Let W := xworker R F assigned.
Let bh := xbatch_h F ah hs.
Let bl := xbatch_l F ah al hs lq.
Let bs := [bh; bl].

Definition th (id : N) : dtask := {| t_id := id; t_rq := 0; t_prio := ph |}.
Definition low_tasks : list dtask :=
  concat (map (fun e : N * list N => map (fun id => {| t_id := id; t_rq := 1; t_prio := fst e |}) (snd e)) lq).

Lemma x_ready : ready_tasks I = map th hs ++ low_tasks.
Proof.
  unfold ready_tasks, low_tasks. cbn [I xinst i_queues mapi_from concat q_ready map snd fst].
  rewrite !app_nil_r. reflexivity.
Qed.

Lemma low_tasks_prio : forall t, In t low_tasks -> t_rq t = 1 /\ t_prio t < ph.
Proof.
  intros t Ht. unfold low_tasks in Ht. apply in_concat in Ht. destruct Ht as (l & Hl & Ht).
  apply in_map_iff in Hl. destruct Hl as (e & <- & He). apply in_map_iff in Ht. destruct Ht as (id & <- & _).
  simpl. split; [reflexivity|]. rewrite Forall_forall in Hp. apply (Hp e He).
Qed.

Lemma x_ready_cases : forall t, In t (ready_tasks I) ->
  (t_rq t = 0 /\ t_prio t = ph /\ In (t_id t) hs) \/ (t_rq t = 1 /\ t_prio t < ph /\ In t low_tasks).
Proof.
  intros t Ht. rewrite x_ready in Ht. apply in_app_or in Ht. destruct Ht as [Ht|Ht].
  - apply in_map_iff in Ht. destruct Ht as (id & <- & Hid). simpl. auto.
  - right. destruct (low_tasks_prio t Ht). auto.
Qed.

Lemma find_task_in : forall ts id t, find_task ts id = Some t -> In t ts /\ t_id t = id.
Proof.
  intros ts id t H. unfold find_task in H. apply find_some in H. destruct H as [H1 H2]. apply N.eqb_eq in H2. auto.
Qed.

(** the requests kept next to a waiting class-0 task are exactly the dispatched class-0 tasks *)
Lemma x_keep : forall d (u : dtask), t_prio u = ph ->
  concat (map (fun p : N * N =>
      if snd p =? w_id W then
        match find_task (ready_tasks I) (fst p) with
        | Some t => if t_prio u <=? t_prio t then [t_rq t] else []
        | None => []
        end
      else []) d) = repeat 0 (N.to_nat (count_on I d 1 0)).
Proof.
  intros d u Hu. rewrite Hu. induction d as [|p d IH]; [reflexivity|].
  rewrite count_on_cons. cbn [map concat]. rewrite IH. change (w_id W) with 1.
  destruct (snd p =? 1); cbn [andb]; [|reflexivity].
  destruct (find_task (ready_tasks I) (fst p)) as [t|] eqn:E; [|reflexivity].
  apply find_task_in in E. destruct E as [Hin _].
  destruct (x_ready_cases t Hin) as [(Hr & Hpr & _)|(Hr & Hpr & _)]; rewrite Hr; [rewrite Hpr|].
  - destruct (N.leb_spec ph ph); [|lia]. change (0 =? 0) with true. cbn [andb].
    replace (N.to_nat (1 + count_on I d 1 0)) with (S (N.to_nat (count_on I d 1 0))) by lia. reflexivity.
  - destruct (N.leb_spec ph (t_prio t)); [lia|]. change (1 =? 0) with false. cbn [andb app]. reflexivity.
Qed.

Lemma x_sub_all : forall k x, sub_all I [x] (repeat 0 k) = if N.of_nat k * ah <=? x then Some [x - N.of_nat k * ah] else None.
Proof.
  induction k as [|k IH]; intros x.
  - cbn [repeat sub_all]. destruct (N.leb_spec (N.of_nat 0 * ah) x); [f_equal; f_equal; lia|lia].
  - cbn [repeat sub_all]. change (req_of I 0) with [(0, ah)].
    change (rv_sub_checked [x] [(0, ah)]) with (if (ah <=? x) then Some [x - ah] else None).
    destruct (N.leb_spec ah x) as [Hle|Hgt].
    + rewrite IH. destruct (N.leb_spec (N.of_nat k * ah) (x - ah)); destruct (N.leb_spec (N.of_nat (S k) * ah) x); try lia.
      * f_equal. f_equal. lia.
      * reflexivity.
    + destruct (N.leb_spec (N.of_nat (S k) * ah) x); [nia|reflexivity].
Qed.

(** a waiting class-0 task fits next to the dispatched class-0 tasks *)
Lemma x_fits : forall d (u : dtask), t_prio u = ph -> t_rq u = 0 ->
  fits_without_lower I d W u = true -> (count_on I d 1 0 + 1) * ah <= F.
Proof.
  intros d u Hu Hr H. unfold fits_without_lower in H. change (inst_on I W) with I in H. rewrite (x_keep d u Hu) in H.
  change (w_free W) with [F] in H. rewrite x_sub_all in H. rewrite N2Nat.id in H.
  destruct (N.leb_spec (count_on I d 1 0 * ah) F) as [Hle|]; [|discriminate].
  rewrite Hr in H. change (req_of I 0) with [(0, ah)] in H.
  change (capable_res [F - count_on I d 1 0 * ah] [(0, ah)]) with ((ah <=? F - count_on I d 1 0 * ah) && true) in H.
  destruct (N.leb_spec ah (F - count_on I d 1 0 * ah)); [nia|discriminate].
Qed.

Lemma list_eqb_eq : forall a b, list_eqb a b = true -> a = b.
Proof.
  induction a as [|x a IH]; intros [|y b] H; simpl in H; try discriminate; [reflexivity|].
  apply andb_true_iff in H. destruct H as [H1 H2]. apply N.eqb_eq in H1. subst. f_equal. auto.
Qed.

Lemma sorted_insert_in : forall x l y, In y (sorted_insert x l) <-> y = x \/ In y l.
Proof.
  induction l as [|z t IH]; intros y; simpl; [intuition|].
  destruct (x <=? z); simpl; [intuition|]. rewrite IH. intuition.
Qed.
Lemma sortN_in : forall l y, In y (sortN l) <-> In y l.
Proof.
  induction l as [|x t IH]; intros y; simpl; [tauto|]. rewrite sorted_insert_in, IH. intuition.
Qed.

Lemma x_has_x_h : has_x I bs W 0 = true.
Proof. change 0 with (b_rq bh). rewrite has_x_placeable; [apply x_placeable_h; assumption|left; reflexivity]. Qed.
Lemma x_has_x_l : has_x I bs W 1 = true.
Proof. change 1 with (b_rq bl). rewrite has_x_placeable; [apply x_placeable_l; assumption|right; left; reflexivity]. Qed.

(** what [mapping_ok] says in the exact class *)
Lemma x_mapping : forall s d, mapping_ok I bs s d = true ->
  count_on I d 1 0 = sol_x s 1 0 /\ count_on I d 1 1 = sol_x s 1 1
  /\ (forall id, In id hs -> dispatched d id = false -> sol_x s 1 0 < nlen hs).
Proof.
  intros s d H. unfold mapping_ok in H. apply andb_true_iff in H. destruct H as [H _].
  cbn [bs forallb] in H. apply andb_true_iff in H. destruct H as [Hh H]. apply andb_true_iff in H. destruct H as [Hl _].
  change (b_rq bh) with 0 in Hh. change (b_rq bl) with 1 in Hl.
  assert (Pt0 : placed_total I bs s 0 = sol_x s 1 0).
  { unfold placed_total. cbn [I xinst i_workers fold_right]. fold I. fold W. rewrite x_has_x_h. change (w_id W) with 1. lia. }
  assert (Pt1 : placed_total I bs s 1 = sol_x s 1 1).
  { unfold placed_total. cbn [I xinst i_workers fold_right]. fold I. fold W. rewrite x_has_x_l. change (w_id W) with 1. lia. }
  rewrite Pt0 in Hh. rewrite Pt1 in Hl.
  destruct (take_tasks _ (sol_x s 1 0)) as [[taken0 q0]| |] eqn:T0; try discriminate.
  destruct (take_tasks _ (sol_x s 1 1)) as [[taken1 q1]| |] eqn:T1; try discriminate.
  apply andb_true_iff in Hh. destruct Hh as [Heq0 Hc0]. apply andb_true_iff in Hl. destruct Hl as [_ Hc1].
  cbn [I xinst i_workers forallb] in Hc0, Hc1. fold I in Hc0, Hc1. fold W in Hc0, Hc1.
  rewrite x_has_x_h in Hc0. rewrite x_has_x_l in Hc1. change (w_id W) with 1 in Hc0, Hc1.
  apply andb_true_iff in Hc0. destruct Hc0 as [Hc0 _]. apply andb_true_iff in Hc1. destruct Hc1 as [Hc1 _].
  apply N.eqb_eq in Hc0. apply N.eqb_eq in Hc1. split; [assumption|]. split; [assumption|].
  intros id Hid Hnd.
  change (nth (N.to_nat 0) (i_queues I) empty_queue) with {| q_ready := [(ph, hs)]; q_prefill := None |} in T0.
  unfold take_tasks in T0. cbn [q_prefill q_ready] in T0.
  destruct (take_loop [(ph, hs)] (sol_x s 1 0)) as [[l rd]| |] eqn:TL; cbn [bind] in T0; try discriminate.
  injection T0 as E1 E2. cbn [fst] in E1. destruct (take_loop_spec _ _ _ _ TL) as (H1 & _ & H3).
  unfold flat_ids in *. cbn [map concat snd] in *. rewrite app_nil_r in *.
  destruct (N.ltb_spec (sol_x s 1 0) (nlen hs)) as [|Hge]; [assumption|exfalso].
  assert (Hall : taken0 = hs) by (rewrite <- E1, H1; apply firstn_all2; unfold nlen in *; lia).
  rewrite Hall in Heq0. apply list_eqb_eq in Heq0.
  assert (Hin : In id (sortN hs)) by (apply sortN_in; assumption).
  rewrite Heq0 in Hin. apply (proj1 (sortN_in _ _)) in Hin. try (apply (proj1 (sortN_in _ _)) in Hin). apply in_map_iff in Hin. destruct Hin as (p & Hp' & Hpin).
  apply filter_In in Hpin. destruct Hpin as [Hpd _].
  unfold dispatched in Hnd. assert (Hex : existsb (fun p0 : N * N => fst p0 =? id) d = true).
  { apply existsb_exists. exists p. split; [assumption|]. apply N.eqb_eq. assumption. }
  congruence.
Qed.

End ExactD.


(** ** monotonicity of the checked subtraction *)
Lemma rv_sub_checked_le : forall rq v v', rv_sub_checked v rq = Some v' -> forall r, rv_get v' r <= rv_get v r.
Proof.
  induction rq as [|[r0 a] t IH]; intros v v' H r; simpl in H.
  - inversion H; subst. lia.
  - destruct (Nat.ltb_spec (N.to_nat r0) (length v)) as [Hin|]; [|discriminate].
    destruct (N.leb_spec a (rv_get v r0)); [|discriminate]. simpl in H.
    specialize (IH _ _ H r). rewrite rv_get_set in IH by assumption.
    destruct (N.eqb_spec r r0); subst; lia.
Qed.

Lemma sub_all_le : forall I rqs v v', sub_all I v rqs = Some v' -> forall r, rv_get v' r <= rv_get v r.
Proof.
  induction rqs as [|rq t IH]; intros v v' H r; simpl in H.
  - inversion H; subst. lia.
  - destruct (rv_sub_checked v (req_of I rq)) as [v1|] eqn:E; [|discriminate].
    pose proof (rv_sub_checked_le _ _ _ E r). specialize (IH _ _ H r). lia.
Qed.

Lemma xinst_wf : forall R F assigned ah al ph hs lq, 0 < ah -> 0 < al -> inst_wf (xinst R F assigned ah al ph hs lq).
Proof.
  intros. split.
  - cbn. repeat constructor. intros [].
  - intros c Hc. cbn in Hc. destruct Hc as [<-|[<-|[]]]; split; repeat constructor; cbn; lia.
  - intros c Hc. cbn in Hc. destruct Hc as [<-|[<-|[]]]; constructor.
Qed.

(** forward membership of the unbounded aggregate row for the first cut / first blocker *)
Lemma cuts_items_zeroU_head : forall I bs b c cs h t its,
  cuts_items I bs b (c :: cs) [] = Ok its -> c_blockers c = (h, None) :: t ->
  exists zero, (forall s : sol, lhs s (ones zero) = zero_sum I bs s h (b_rq b) (i_workers I))
               /\ (zero = [] \/ In (IZeroU (b_rq b) h (c_size c) zero) its).
Proof.
  intros I bs b c cs h t its H Hbl. simpl in H. rewrite Hbl in H. simpl in H.
  destruct (blocker_items I bs b c h None _ (i_workers I) []) as [[its1 zero]| |] eqn:E; simpl in H; try discriminate.
  exists zero. split.
  - intros s. rewrite (blocker_items_zero I bs s _ _ _ _ _ _ _ _ _ E). simpl. lia.
  - destruct zero as [|v vs]; [left; reflexivity|right].
    destruct (cut_items I bs b c t [h]) as [[its2 seen2]| |] eqn:E2; simpl in H; try discriminate.
    destruct (cuts_items I bs b cs seen2) as [its3| |] eqn:E3; simpl in H; try discriminate.
    inversion H; subst. apply in_or_app. left. apply in_or_app. right. left. reflexivity.
Qed.

Lemma lhs_ones_nonneg : forall (s : sol) vs, (forall v, (0 <= s v)%Z) -> (0 <= lhs s (ones vs))%Z.
Proof. intros s vs H. induction vs as [|v t IH]; simpl; [lia|]. specialize (H v). lia. Qed.

Lemma feasible_app : forall a b s, feasible (a ++ b) s = feasible a s && feasible b s.
Proof. intros. unfold feasible. apply forallb_app. Qed.


Lemma sorted_app_rel : forall {A} (R : A -> A -> Prop) a b, StronglySorted R (a ++ b) ->
  forall x y, In x a -> In y b -> R x y.
Proof.
  intros A R. induction a as [|z a IH]; intros b Hs x y Hx Hy; [contradiction|].
  simpl in Hs. inversion Hs as [|? ? Hs' Hall]; subst. destruct Hx as [->|Hx].
  - rewrite Forall_forall in Hall. apply Hall. apply in_or_app. right. assumption.
  - apply (IH b Hs' x y Hx Hy).
Qed.

Lemma nodup_snd_inj : forall (l : list (N * N)) p p' i, NoDup (map snd l) -> In (p, i) l -> In (p', i) l -> p = p'.
Proof.
  induction l as [|[q j] t IH]; intros p p' i Hnd H1 H2; [contradiction|].
  simpl in Hnd. inversion Hnd as [|? ? Hnj Hnd']; subst.
  destruct H1 as [E1|H1]; destruct H2 as [E2|H2].
  - congruence.
  - inversion E1; subst. exfalso. apply Hnj. change i with (snd (p', i)). apply in_map. assumption.
  - inversion E2; subst. exfalso. apply Hnj. change i with (snd (p, i)). apply in_map. assumption.
  - apply (IH p p' i Hnd' H1 H2).
Qed.

Section SameClass.
Variables (R F : N) (assigned : list N) (ah al ph : N) (hs : list N) (lq : list (N * list N)).
Let I := xinst R F assigned ah al ph hs lq.

Lemma low_tasks_flat : forall t, In t (low_tasks lq) -> In (t_prio t, t_id t) (flat_tasks lq).
Proof.
  intros t Ht. unfold low_tasks in Ht. unfold flat_tasks. apply in_concat in Ht. destruct Ht as (l & Hl & Ht).
  apply in_map_iff in Hl. destruct Hl as (e & <- & He). apply in_map_iff in Ht. destruct Ht as (id & <- & Hid).
  simpl. apply in_concat. exists (map (fun id0 => (fst e, id0)) (snd e)). split.
  - apply in_map_iff. exists e. auto.
  - apply in_map_iff. exists id. auto.
Qed.

Lemma low_tasks_rq : forall t, In t (low_tasks lq) -> t_rq t = 1.
Proof.
  intros t Ht. unfold low_tasks in Ht. apply in_concat in Ht. destruct Ht as (l & Hl & Ht).
  apply in_map_iff in Hl. destruct Hl as (e & <- & He). apply in_map_iff in Ht. destruct Ht as (id & <- & _). reflexivity.
Qed.

(** inside the low class the dispatched tasks are the top ones: no inversion between two of its tasks *)
Lemma same_class_order : forall bs b s d (t u : dtask) (p : N * N),
  ready_wf lq -> NoDup (flat_ids lq) ->
  In b bs -> b_rq b = 1 ->
  mapping_ok I bs s d = true ->
  In t (low_tasks lq) -> In u (low_tasks lq) ->
  In p d -> fst p = t_id t -> find_task (ready_tasks I) (fst p) = Some t ->
  dispatched d (t_id u) = false -> t_prio t < t_prio u -> False.
Proof.
  intros bs b s d t u p Hwf Hnd Hb Hbrq Hmap Ht Hu Hpd Hpt Hft Hundisp Hprio.
  unfold mapping_ok in Hmap. apply andb_true_iff in Hmap. destruct Hmap as [Hmap _].
  rewrite forallb_forall in Hmap. specialize (Hmap _ Hb). rewrite Hbrq in Hmap.
  change (nth (N.to_nat 1) (i_queues I) empty_queue) with {| q_ready := lq; q_prefill := None |} in Hmap.
  destruct (take_tasks {| q_ready := lq; q_prefill := None |} (placed_total I bs s 1)) as [[taken q']| |] eqn:T; try discriminate.
  apply andb_true_iff in Hmap. destruct Hmap as [Heq _]. apply list_eqb_eq in Heq.
  destruct (take_tasks_order {| q_ready := lq; q_prefill := None |} _ _ _ eq_refl Hwf T) as (Hsorted & Htaken & _).
  cbn [q_ready] in Hsorted, Htaken.
  set (n := N.to_nat (placed_total I bs s 1)) in *.
  (* t is among the taken ones, u is not *)
  assert (Htin : In (t_id t) taken).
  { apply (proj1 (sortN_in _ _)). rewrite Heq. apply (proj2 (sortN_in _ _)). apply in_map_iff. exists p. split; [assumption|].
    apply filter_In. split; [assumption|]. rewrite Hft, (low_tasks_rq t Ht). reflexivity. }
  assert (Hunot : ~ In (t_id u) taken).
  { intros Hin. apply (proj2 (sortN_in _ _)) in Hin. rewrite Heq in Hin. apply (proj1 (sortN_in _ _)) in Hin.
    apply in_map_iff in Hin. destruct Hin as (p' & Hp' & Hpin). apply filter_In in Hpin. destruct Hpin as [Hpd' _].
    unfold dispatched in Hundisp.
    assert (Hex : existsb (fun p0 : N * N => fst p0 =? t_id u) d = true).
    { apply existsb_exists. exists p'. split; [assumption|]. apply N.eqb_eq. assumption. }
    congruence. }
  rewrite Htaken in Htin, Hunot.
  apply in_map_iff in Htin. destruct Htin as ([p' i'] & Hi' & Hfirst). simpl in Hi'. subst i'.
  pose proof (low_tasks_flat t Ht) as Htf. pose proof (low_tasks_flat u Hu) as Huf.
  assert (Hp' : p' = t_prio t).
  { apply (nodup_snd_inj (flat_tasks lq) p' (t_prio t) (t_id t)); [rewrite <- flat_ids_tasks; assumption| |assumption].
    rewrite <- (firstn_skipn n (flat_tasks lq)). apply in_or_app. left. assumption. }
  subst p'.
  assert (Huskip : In (t_prio u, t_id u) (skipn n (flat_tasks lq))).
  { rewrite <- (firstn_skipn n (flat_tasks lq)) in Huf. apply in_app_or in Huf. destruct Huf as [Huf|Huf]; [|assumption].
    exfalso. apply Hunot. apply in_map_iff. exists (t_prio u, t_id u). auto. }
  rewrite <- (firstn_skipn n (flat_tasks lq)) in Hsorted.
  pose proof (sorted_app_rel before _ _ Hsorted _ _ Hfirst Huskip) as Hb'.
  unfold before in Hb'. simpl in Hb'. lia.
Qed.
End SameClass.


Definition xsol' (s : sol) : sol :=
  fun v => match v with
           | VX w r => if (w =? 1) && (r =? 0) then (s (VX 1 0) + 1)%Z else 0%Z
           | VR _ _ => 0%Z
           | VB _ _ => 1%Z
           end.

Lemma xsol'_nonneg : forall s, (0 <= s (VX 1 0))%Z -> forall v, (0 <= xsol' s v)%Z.
Proof. intros s H [w r|w r|h sz]; simpl; try lia. destruct ((w =? 1) && (r =? 0)); lia. Qed.

Theorem exact_class_no_inversion : forall R F assigned ah al ph hs lq bs m s d,
  0 < ah -> 0 < al -> F <= R -> R / ah <= SCHED_MAX_TASK_PER_WORKER ->
  Forall (fun e : N * list N => fst e < ph) lq -> ready_wf lq -> NoDup (flat_ids lq) ->
  create_task_batches (xinst R F assigned ah al ph hs lq) = Ok bs ->
  milp_of (xinst R F assigned ah al ph hs lq) bs = Ok m -> feasible m s = true ->
  (forall s', feasible m s' = true -> (objective m s' <= objective m s)%Z) ->
  mapping_ok (xinst R F assigned ah al ph hs lq) bs s d = true ->
  inversion (xinst R F assigned ah al ph hs lq) d = false.
Proof.
  intros R F assigned ah al ph hs lq bs m s d Hah Hal HFR Hcap Hp Hlwf Hlnd Hbs Hm Hf Hopt Hmap.
  set (I := xinst R F assigned ah al ph hs lq) in *. set (W := xworker R F assigned).
  destruct (inversion I d) eqn:Einv; [exfalso|reflexivity].
  (* 1. the witness *)
  unfold inversion in Einv. destruct (inversions I d) as [|x xs] eqn:Ex; [discriminate|]. clear Einv.
  assert (Hx : In x (inversions I d)) by (rewrite Ex; left; reflexivity). clear Ex xs.
  unfold inversions in Hx. apply in_concat in Hx. destruct Hx as (l1 & Hl1 & Hx).
  apply in_map_iff in Hl1. destruct Hl1 as (p & <- & Hp_d).
  destruct (find_task (ready_tasks I) (fst p)) as [t|] eqn:Et; [|contradiction].
  destruct (find_worker I (snd p)) as [w|] eqn:Ew; [|contradiction].
  apply in_concat in Hx. destruct Hx as (l2 & Hl2 & Hx).
  apply in_map_iff in Hl2. destruct Hl2 as (u & <- & Hu_ready).
  match type of Hx with In _ (if ?c then _ else _) => destruct c eqn:Ec; [|contradiction] end. clear Hx.
  repeat (apply andb_true_iff in Ec; destruct Ec as [Ec ?]).
  rename H into Hnobusy, H0 into Hfits, H1 into Htime, H2 into Hnblk, H3 into Hprio.
  apply negb_true_iff in Ec. rename Ec into Hundisp.
  (* the worker *)
  assert (Hw : w = W).
  { unfold find_worker in Ew. apply find_some in Ew. destruct Ew as [Hin _]. cbn in Hin. destruct Hin as [<-|[]]. reflexivity. }
  subst w.
  assert (Hsp : snd p = 1).
  { unfold find_worker in Ew. apply find_some in Ew. destruct Ew as [_ E]. apply N.eqb_eq in E. symmetry. exact E. }
  (* classes of t and u *)
  pose proof Et as Eft. apply find_task_in in Et. destruct Et as [Ht_ready Htid].
  destruct (x_ready_cases R F assigned ah al ph hs lq Hp t Ht_ready) as [(Htr & Htp & _)|(Htr & Htp & Htl)];
  destruct (x_ready_cases R F assigned ah al ph hs lq Hp u Hu_ready) as [(Hur & Hup & Huh)|(Hur & Hup & Hul)].
  { rewrite Htp, Hup in Hprio. lia. }
  { rewrite Htp in Hprio. lia. }
  2: { (* both of the low class: the dispatched tasks of a class are its top ones *)
    exfalso. unfold mapping_ok in Hmap. pose proof Hmap as Hmap0. apply andb_true_iff in Hmap0. destruct Hmap0 as [_ Hcls].
    rewrite forallb_forall in Hcls. specialize (Hcls p Hp_d). rewrite Eft in Hcls.
    apply existsb_exists in Hcls. destruct Hcls as (b & Hb & Hbrq). apply N.eqb_eq in Hbrq. rewrite Htr in Hbrq.
    apply (same_class_order R F assigned ah al ph hs lq bs b s d t u p Hlwf Hlnd Hb Hbrq Hmap Htl Hul Hp_d (eq_sym Htid) Eft Hundisp).
    lia. }
  (* t is of class 1 (low), u of class 0 (high) *)
  assert (Hls : lq <> []) by (intros E; rewrite E in Htl; contradiction).
  assert (Hhs : hs <> []) by (intros E; rewrite E in Huh; contradiction).
  assert (Hlne : Forall (fun e : N * list N => snd e <> []) lq).
  { destruct Hlwf as [_ Hf0]. eapply Forall_impl; [|exact Hf0]. intros e [He _]. exact He. }
  (* 2. ah <= F (u fits), al <= F (t was placed: C05) *)
  assert (HhF : ah <= F).
  { unfold fits_without_lower in Hfits. change (inst_on I W) with I in Hfits.
    destruct (sub_all I (w_free W) _) as [v|] eqn:Es; [|discriminate].
    pose proof (sub_all_le _ _ _ _ Es 0) as Hle. rewrite Hur in Hfits.
    change (req_of I 0) with [(0, ah)] in Hfits. change (capable_res v [(0, ah)]) with ((ah <=? rv_get v 0) && true) in Hfits.
    change (rv_get (w_free W) 0) with F in Hle. lia. }
  assert (Hwf : inst_wf I) by (apply xinst_wf; assumption).
  assert (HlF : al <= F).
  { pose proof (C05_feasible_no_overbook_thm I bs m s d Hwf Hbs Hm Hf Hmap W (or_introl eq_refl)) as (_ & _ & Hpl).
    assert (Hin1 : In 1 (rqs_on I d (w_id W))).
    { unfold rqs_on. apply in_concat. exists [t_rq t]. split; [|rewrite Htr; left; reflexivity].
      apply in_map_iff. exists p. split; [|assumption]. change (w_id W) with 1. rewrite Hsp, N.eqb_refl.
      rewrite Eft. reflexivity. }
    specialize (Hpl 1 Hin1).
    change (placeable I W 1) with (negb false && true && ((al <=? F) && true)) in Hpl. lia. }
  (* 3. the batches, the mapping facts *)
  pose proof (xbatches R F assigned ah al ph hs lq Hah Hal HhF HlF HFR Hp Hhs Hls Hlne) as Hxb. fold I in Hxb. rewrite Hxb in Hbs.
  injection Hbs as Hbs. subst bs.
  set (bh := xbatch_h F ah hs) in *. set (bl := xbatch_l F ah al hs lq) in *.
  destruct (x_mapping R F assigned ah al ph hs lq Hah Hal HhF HlF HFR s d Hmap) as (Hc0 & Hc1 & Hlt).
  fold I in Hc0, Hc1.
  assert (Hxh_lt : sol_x s 1 0 < nlen hs) by (apply (Hlt (t_id u) Huh Hundisp)).
  assert (Hfit : (sol_x s 1 0 + 1) * ah <= F).
  { rewrite <- Hc0. apply (x_fits R F assigned ah al ph hs lq Hah Hal HhF HlF HFR Hp d u Hup Hur Hfits). }
  assert (Hxl_pos : 1 <= sol_x s 1 1).
  { rewrite <- Hc1. unfold count_on.
    assert (Hpf : In p (filter (fun p0 : N * N => (snd p0 =? 1) && match find_task (ready_tasks I) (fst p0) with Some t0 => t_rq t0 =? 1 | None => false end) d)).
    { apply filter_In. split; [assumption|]. rewrite Hsp, Eft, Htr. reflexivity. }
    destruct (filter _ d); [contradiction|]. unfold nlen. simpl. lia. }
  (* 4. structure of m *)
  pose proof Hm as Hm0. unfold milp_of in Hm0.
  destruct (all_items I [bh; bl]) as [its| |] eqn:Eits; simpl in Hm0; try discriminate.
  injection Hm0 as Hm0.
  assert (Hm1 : m = worker_entries I [bh; bl] 0 W ++ emit I [bh; bl] [] its).
  { rewrite <- Hm0. cbn [I xinst i_workers mapi_from concat]. rewrite app_nil_r. reflexivity. }
  clear Hm0.
  pose proof (x_worker_entries R F assigned ah al ph hs lq Hah Hal HhF HlF HFR) as Hwe.
  fold I in Hwe. fold W in Hwe. fold bh in Hwe. fold bl in Hwe. rewrite Hwe in Hm1. clear Hwe.
  (* values of s *)
  assert (Hsx0 : (0 <= s (VX 1 0))%Z).
  { rewrite Hm1 in Hf. unfold feasible in Hf. cbn [app forallb entry_ok] in Hf. lia. }
  assert (Hsx1 : (0 <= s (VX 1 1))%Z).
  { rewrite Hm1 in Hf. unfold feasible in Hf. cbn [app forallb entry_ok] in Hf. lia. }
  assert (Hx0 : Z.of_N (sol_x s 1 0) = s (VX 1 0)) by (unfold sol_x; lia).
  assert (Hx1 : Z.of_N (sol_x s 1 1) = s (VX 1 1)) by (unfold sol_x; lia).
  (* 5. the gap bounds the low class *)
  destruct (xgap R F assigned ah al ph hs lq Hah Hal Hcap) as (g & Hg & Hgal). fold I in Hg. fold W in Hg.
  assert (Pk_h : placement_kind I W bh = PX).
  { apply placement_px. change (placeable I W (b_rq bh)) with (negb false && true && ((ah <=? F) && true)).
    destruct (N.leb_spec ah F); [reflexivity|lia]. }
  assert (Pk_l : placement_kind I W bl = PX).
  { apply placement_px. change (placeable I W (b_rq bl)) with (negb false && true && ((al <=? F) && true)).
    destruct (N.leb_spec al F); [reflexivity|lia]. }
  assert (Hx_l : has_x I [bh; bl] W 1 = true).
  { unfold has_x. cbn [existsb]. rewrite Pk_l. change (b_rq bl =? 1) with true. apply Bool.orb_true_iff. right. reflexivity. }
  assert (Hcv0 : count_vars I [bh; bl] 0 = [VX 1 0]).
  { unfold count_vars. cbn [I xinst i_workers map concat]. fold I. fold W. rewrite Pk_h, Pk_l. reflexivity. }
  assert (Hcv1 : count_vars I [bh; bl] 1 = [VX 1 1]).
  { unfold count_vars. cbn [I xinst i_workers map concat]. fold I. fold W. rewrite Pk_h, Pk_l. reflexivity. }
  assert (Hxl_le : sol_x s 1 1 <= g).
  { (* the only cut of the low class is in force: the blocker is open *)
    set (c := {| c_size := 0; c_blockers := [(0, if b_lr bh then None else Some (b_size bh))] |}).
    assert (Hcut : In c (b_cuts bl)) by (left; reflexivity).
    assert (Hblk : In (0, if b_lr bh then None else Some (b_size bh)) (c_blockers c)) by (left; reflexivity).
    assert (Hopen : blocker_open I [bh; bl] s (0, if b_lr bh then None else Some (b_size bh)) = true).
    { unfold blocker_open. cbn [snd fst]. destruct (b_lr bh) eqn:Elr; [reflexivity|].
      rewrite Hcv0. unfold count_of. rewrite Hcv0. cbn [fold_right].
      unfold bh, xbatch_h in Elr |- *. cbn [b_lr b_size] in Elr |- *. rewrite Elr. unfold z. lia. }
    assert (Hplaced : placed I [bh; bl] s W 1 = sol_x s 1 1).
    { unfold placed. rewrite Hx_l. reflexivity. }
    assert (Hcap0 : capable I W 0 = true).
    { change (capable I W 0) with ((ah <=? R) && true). destruct (N.leb_spec ah R); [reflexivity|lia]. }
    assert (Hcvne : count_vars I [bh; bl] (b_rq bl) <> []) by (change (b_rq bl) with 1; rewrite Hcv1; discriminate).
    destruct (N.ltb_spec 0 g) as [Hgpos|Hg0].
    - pose proof (cut_semantics_gap I [bh; bl] m s bl c 0 _ W g Hm Hf (or_intror (or_introl eq_refl)) Hcvne Hcut Hblk Hopen
                    (or_introl eq_refl) Hcap0 Hg Hgpos) as Hb.
      change (b_rq bl) with 1 in Hb. rewrite Hplaced in Hb. cbn [c_size c] in Hb. clear - Hb. lia.
    - exfalso. assert (g = 0) by (clear - Hg0; lia). subst g.
      assert (Hzs : forall s0 : sol, zero_sum I [bh; bl] s0 0 1 (i_workers I) = s0 (VX 1 1)).
      { intros s0. cbn [I xinst i_workers zero_sum fold_right]. fold I. fold W.
        unfold zero_gap. rewrite Hcap0, Hg. cbn [andb]. change (0 =? 0) with true.
        unfold xvars. rewrite Hx_l. change (w_id W) with 1. cbn [lhs ones map fold_right fst snd]. clear. lia. }
      destruct (b_lr bh) eqn:Elr.
      + (* unbounded blocker: the aggregate row of the first cut *)
        destruct (milp_items I [bh; bl] m Hm) as (its' & Hits' & Hemit). rewrite Eits in Hits'. injection Hits' as <-.
        unfold all_items in Eits. cbn [map collect_res] in Eits.
        destruct (batch_items I [bh; bl] bh) as [ih| |] eqn:Eih; cbn [bind] in Eits; try discriminate.
        destruct (batch_items I [bh; bl] bl) as [il| |] eqn:Eil; cbn [bind] in Eits; try discriminate.
        injection Eits as Eits. unfold batch_items in Eil. change (b_rq bl) with 1 in Eil. rewrite Hcv1 in Eil.
        destruct (cuts_items I [bh; bl] bl (b_cuts bl) []) as [ci| |] eqn:Eci; cbn [bind] in Eil; try discriminate.
        injection Eil as Eil.
        change (b_cuts bl) with [ {| c_size := 0; c_blockers := [(0, if b_lr bh then None else Some (b_size bh))] |} ] in Eci.
        rewrite Elr in Eci.
        destruct (cuts_items_zeroU_head I [bh; bl] bl c [] 0 [] ci Eci) as (zero & Hz & Hor).
        { reflexivity. }
        change (b_rq bl) with 1 in Hz, Hor.
        destruct Hor as [->|Hin].
        * specialize (Hz s). rewrite Hzs in Hz. cbn [ones map lhs fold_right] in Hz. clear - Hz Hx1 Hxl_pos. lia.
        * assert (Hin' : In (IZeroU 1 0 (c_size c) zero) its).
          { rewrite <- Eits. cbn [concat]. apply in_or_app. right. apply in_or_app. left. rewrite <- Eil. apply in_or_app. right. assumption. }
          pose proof (feasible_in m s _ Hf (Hemit _ (emit_row_in I [bh; bl] its [] _ Hin'))) as Hr.
          cbn [item_row entry_ok] in Hr. unfold row_ok, row_lhs in Hr. cbn [r_le r_terms r_bound] in Hr.
          fold (lhs s (ones zero)) in Hr. rewrite Hz, Hzs in Hr. cbn [c_size c] in Hr. unfold z in Hr. clear - Hr Hx1 Hxl_pos. lia.
      + pose proof (cut_semantics_zero I [bh; bl] m s bl c 0 (b_size bh) Hm Hf (or_intror (or_introl eq_refl)) Hcvne Hcut) as Hb.
        specialize (Hb Hblk Hopen). change (b_rq bl) with 1 in Hb. rewrite Hzs in Hb.
        cbn [c_size c] in Hb. clear - Hb Hx1 Hxl_pos. lia. }
  (* 6. a strictly better feasible point: one more high task, no low task *)
  set (s' := xsol' s).
  assert (Hnn : forall v, (0 <= s' v)%Z) by (apply xsol'_nonneg; assumption).
  assert (Hs'0 : s' (VX 1 0) = (s (VX 1 0) + 1)%Z) by reflexivity.
  assert (Hs'1 : s' (VX 1 1) = 0%Z) by reflexivity.
  assert (Hzs' : zero_sum I [bh; bl] s' 0 1 (i_workers I) = 0%Z).
  { cbn [I xinst i_workers zero_sum fold_right]. fold I. fold W. unfold xvars. rewrite Hx_l. change (w_id W) with 1.
    destruct (zero_gap I W 0 1); cbn [lhs ones map fold_right fst snd]; rewrite ?Hs'1; lia. }
  assert (Hf' : feasible m s' = true).
  { clear - Hm1 Eits Hcv0 Hcv1 Hs'0 Hs'1 Hzs' Hnn Hfit Hx0 Hxh_lt Hx_l Hsx0.
    rewrite Hm1, feasible_app. apply andb_true_iff. split.
    - unfold feasible. cbn [forallb entry_ok row_ok row_lhs r_le r_terms r_bound fold_right fst snd].
      rewrite Hs'0, Hs'1. unfold z. apply andb_true_iff. split; [lia|]. apply andb_true_iff. split; [lia|].
      apply andb_true_iff. split; [|reflexivity]. nia.
    - unfold feasible. apply forallb_forall. intros e He.
      destruct (emit_inv I [bh; bl] its [] e He) as [(it & Hit & ->)|(it & h & sz & Hit & Hbv & [->| ->])].
      + (* a row of an item *)
        destruct (all_items_inv I [bh; bl] its it Eits Hit) as (b & Hb & Hbi).
        cbn [entry_ok]. unfold row_ok, row_lhs.
        destruct Hbi as [Hlr|c0 h0 bsz0 it0 Hc0' Hbl0 Hgi|c0 h0 sz0 zero Hc0' Hbl0 Hz|c0 h0 zero Hc0' Hbl0 Hz].
        * (* size rows *)
          cbn [item_row r_le r_terms r_bound]. fold (lhs s' (ones (count_vars I [bh; bl] (b_rq b)))).
          destruct Hb as [<-|[<-|[]]].
          -- change (b_rq bh) with 0. rewrite Hcv0. cbn [ones map lhs fold_right fst snd]. rewrite Hs'0.
             unfold bh, xbatch_h in Hlr |- *. cbn [b_lr b_size] in Hlr |- *. rewrite Hlr. unfold z. lia.
          -- change (b_rq bl) with 1. rewrite Hcv1. cbn [ones map lhs fold_right fst snd]. rewrite Hs'1. unfold z. lia.
        * (* per-worker gap rows: only the low class has a cut *)
          destruct Hb as [<-|[<-|[]]]; [destruct Hc0'|].
          destruct Hgi as [w0 g0 sz0 Hbsz Hw0 Hcw Hgw Hgp|w0 g0 Hbsz Hw0 Hcw Hgw Hgp];
            (destruct Hw0 as [Hw0|[]]; subst w0); unfold xvars; change (b_rq bl) with 1; fold W; rewrite Hx_l; change (w_id W) with 1;
            cbn [item_row r_le r_terms r_bound ones map app]; cbn [fold_right fst snd]; rewrite Hs'1; unfold z; cbn; lia.
        * destruct Hb as [<-|[<-|[]]]; [destruct Hc0'|].
          cbn [item_row r_le r_terms r_bound]. fold (lhs s' (ones zero ++ [(VB h0 sz0, z (b_size bl))])).
          rewrite lhs_app, Hz. destruct Hc0' as [<-|[]]. destruct Hbl0 as [Heq|[]]. injection Heq as <- _.
          change (b_rq bl) with 1. rewrite Hzs'. cbn [lhs fold_right fst snd c_size]. unfold z. change (s' (VB 0 sz0)) with 1%Z. lia.
        * destruct Hb as [<-|[<-|[]]]; [destruct Hc0'|].
          cbn [item_row r_le r_terms r_bound]. fold (lhs s' (ones zero)).
          rewrite Hz. destruct Hc0' as [<-|[]]. destruct Hbl0 as [Heq|[]]. injection Heq as <- _.
          change (b_rq bl) with 1. rewrite Hzs'. reflexivity.
      + reflexivity.
      + cbn [entry_ok]. unfold row_ok, row_lhs, blk_row. cbn [r_le r_terms r_bound].
        fold (lhs s' (ones (count_vars I [bh; bl] h) ++ [(VB h sz, z sz)])). rewrite lhs_app.
        pose proof (lhs_ones_nonneg s' (count_vars I [bh; bl] h) Hnn) as Hge. cbn [lhs fold_right fst snd]. unfold z.
        change (s' (VB h sz)) with 1%Z. clear - Hge. lia. }
  (* 7. ... with a larger objective *)
  specialize (Hopt s' Hf'). rewrite Hm1, !objective_app, !objective_emit in Hopt.
  unfold objective in Hopt. cbn [fold_right] in Hopt. rewrite Hs'0, Hs'1 in Hopt. unfold z in Hopt.
  clear - Hopt Hgal Hxl_le Hx1 Hx0 Hah Hal. nia.
Qed.
