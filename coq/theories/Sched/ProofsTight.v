(** C15: what the tight K1 row (cut budget shared by all workers where the blocker may run) guarantees. *)
From HQ Require Import Base.Prelude Gen.Consts Sched.Model Sched.ProofsRows.
Require Import ZifyBool ZifyN ZifyNat.
Open Scope N_scope.

(** * What the tight K1 row guarantees *)

Definition capable_total (I : inst) (bs : list batch) (s : sol) (l h : N) (ws : list worker) : N :=
  fold_right (fun w acc => (if capable I w h then placed I bs s w l else 0) + acc) 0 ws.
Definition gap_total (I : inst) (l h : N) (ws : list worker) : N :=
  fold_right (fun w acc => (if capable I w h then gap_or0 I w h l else 0) + acc) 0 ws.
Definition excess (I : inst) (bs : list batch) (s : sol) (l h : N) (ws : list worker) : N :=
  fold_right (fun w acc => (if capable I w h then placed I bs s w l - gap_or0 I w h l else 0) + acc) 0 ws.

Lemma excess_bounds : forall I bs s l h ws,
  (forall w, In w ws -> capable I w h = true -> placed I bs s w l <= excess I bs s l h ws + gap_or0 I w h l)
  /\ capable_total I bs s l h ws <= excess I bs s l h ws + gap_total I l h ws.
Proof.
  intros I bs s l h. induction ws as [|w0 t [IH1 IH2]]; simpl.
  - split; [intros w []|lia].
  - split.
    + intros w [->|Hin] Hc.
      * rewrite Hc. lia.
      * specialize (IH1 w Hin Hc). destruct (capable I w0 h); lia.
    + destruct (capable I w0 h); lia.
Qed.

(** If the tight row K1 holds for (low class l, cut, blocker h) - the cut budget is shared by all workers
    where h may run - then every real per-worker cut row holds, and the low class' total on the workers
    where h may run stays within the budget [cut + total gap]. *)
Theorem tight_k1_guarantees : forall I bs s l cut h,
  k1_violated I bs s l cut h = false ->
  (forall w, In w (i_workers I) -> capable I w h = true -> placed I bs s w l <= cut + gap_or0 I w h l)
  /\ capable_total I bs s l h (i_workers I) <= cut + gap_total I l h (i_workers I).
Proof.
  intros I bs s l cut h H. unfold k1_violated, k1_excess in H. fold (excess I bs s l h (i_workers I)) in H.
  destruct (excess_bounds I bs s l h (i_workers I)) as [H1 H2]. split.
  - intros w Hw Hc. specialize (H1 w Hw Hc). lia.
  - lia.
Qed.

(** * What the gap guarantees: tasks placed into the gap never take room the blocker class could use *)

Lemma rv_remove_multiple_get : forall rq v n v', rv_remove_multiple v rq n = Ok v' ->
  forall r, rv_get v' r = rv_get v r - amount rq r * n.
Proof.
  induction rq as [|[r0 a] t IH]; intros v n v' H r; simpl in H.
  - inversion H; subst. unfold amount. simpl. lia.
  - destruct (Nat.ltb_spec (N.to_nat r0) (length v)) as [Hin|]; [|discriminate].
    rewrite (IH _ _ _ H r), rv_get_set by assumption.
    unfold amount. simpl. fold (amount t r).
    destruct (N.eqb_spec r r0) as [->|Hne].
    + rewrite N.eqb_refl. lia.
    + destruct (N.eqb_spec r0 r); [congruence|]. lia.
Qed.

(** instances whose classes have no [All] entry (the gap of a blocker with an [All] entry is 0 by definition) *)
Definition no_all (I : inst) : Prop := forall rq, rc_all (class_of I rq) = [].

Lemma rv_remove_cls_noall : forall v c n, rc_all c = [] -> rv_remove_cls v c n = rv_remove_multiple v (rc_entries c) n.
Proof. intros v c n H. unfold rv_remove_cls. rewrite H. reflexivity. Qed.

Lemma tmc_cls_noall : forall v c, rc_all c = [] -> task_max_count_cls v c = task_max_count v (rc_entries c).
Proof. intros v c H. unfold task_max_count_cls, task_max_count. rewrite H. simpl. rewrite app_nil_r. reflexivity. Qed.

(** demand of the assigned tasks that are not of class [h] *)
Definition demand_except (I : inst) (assigned : list N) (h r : N) : N :=
  fold_right (fun rq acc => (if rq =? h then 0 else amount (req_of I rq) r) + acc) 0 assigned.

Lemma remove_assigned_get : forall I assigned free h f', no_all I -> remove_assigned I free assigned h = Ok f' ->
  forall r, rv_get f' r = rv_get free r - demand_except I assigned h r.
Proof.
  induction assigned as [|rq t IH]; intros free h f' Hna H r; simpl in H.
  - inversion H; subst. unfold demand_except. simpl. lia.
  - unfold demand_except. simpl. fold (demand_except I t h r). destruct (rq =? h).
    + rewrite (IH _ _ _ Hna H r). lia.
    + rewrite (rv_remove_cls_noall _ _ _ (Hna rq)) in H. fold (req_of I rq) in H.
      destruct (rv_remove_multiple free (req_of I rq) 1) as [f1| |] eqn:E; simpl in H; try discriminate.
      rewrite (IH _ _ _ Hna H r), (rv_remove_multiple_get _ _ _ _ E r). lia.
Qed.

Definition count_class (assigned : list N) (h : N) : N := nlen (filter (fun rq => rq =? h) assigned).

Lemma demand_cons : forall I rq t r, demand I (rq :: t) r = amount (req_of I rq) r + demand I t r.
Proof. reflexivity. Qed.
Lemma demand_except_cons : forall I rq t h r,
  demand_except I (rq :: t) h r = (if rq =? h then 0 else amount (req_of I rq) r) + demand_except I t h r.
Proof. reflexivity. Qed.
Lemma count_class_cons : forall rq t h, count_class (rq :: t) h = (if rq =? h then 1 else 0) + count_class t h.
Proof. intros. unfold count_class. simpl. destruct (rq =? h); unfold nlen; simpl; lia. Qed.

Lemma demand_split : forall I assigned h r,
  demand I assigned r = count_class assigned h * amount (req_of I h) r + demand_except I assigned h r.
Proof.
  intros I assigned h r. induction assigned as [|rq t IH]; [reflexivity|].
  rewrite demand_cons, demand_except_cons, count_class_cons, IH.
  destruct (N.eqb_spec rq h) as [->|Hne]; lia.
Qed.

(** requests with at most one entry per resource *)
Definition request_nodup (rq : request) : Prop := NoDup (map fst rq).

Lemma amount_entry : forall rq e, request_nodup rq -> In e rq -> amount rq (fst e) = snd e.
Proof.
  induction rq as [|x t IH]; intros e Hnd Hin; [contradiction|].
  unfold request_nodup in Hnd. simpl in Hnd. inversion Hnd as [|? ? Hx Hnd']; subst.
  unfold amount. simpl. fold (amount t (fst e)). destruct Hin as [->|Hin].
  - rewrite N.eqb_refl. assert (Hz : amount t (fst e) = 0).
    { clear - Hx. induction t as [|y t IH]; [reflexivity|]. unfold amount. simpl. fold (amount t (fst e)).
      destruct (N.eqb_spec (fst y) (fst e)) as [E|_]; [exfalso; apply Hx; left; assumption|].
      rewrite IH; [lia|]. intros H. apply Hx. right. assumption. }
    lia.
  - destruct (N.eqb_spec (fst x) (fst e)) as [E|_].
    + exfalso. apply Hx. rewrite E. apply in_map. assumption.
    + rewrite (IH e Hnd' Hin). lia.
Qed.

Lemma amount_zero_or_entry : forall rq r, amount rq r = 0 \/ exists e, In e rq /\ fst e = r /\ 0 < snd e.
Proof.
  induction rq as [|x t IH]; intros r; [left; reflexivity|].
  unfold amount. simpl. fold (amount t r). destruct (N.eqb_spec (fst x) r) as [E|Hne].
  - destruct (N.eq_dec (snd x) 0) as [Hz|Hnz].
    + destruct (IH r) as [H0|(e & He & Hr & Hp)]; [left; lia|right; exists e; simpl; auto].
    + right. exists x. simpl. split; [left; reflexivity|split; [assumption|lia]].
  - destruct (IH r) as [H0|(e & He & Hr & Hp)]; [left; lia|right; exists e; simpl; auto].
Qed.

(** [task_max_count v rq = k'] bounds every entry *)
Lemma list_min_le : forall l m x, list_min l = Some m -> In x l -> m <= x.
Proof.
  induction l as [|y t IH]; intros m x H Hin; [contradiction|]. simpl in H.
  destruct (list_min t) as [m'|] eqn:E.
  - inversion H; subst. destruct Hin as [->|Hin]; [lia|]. specialize (IH m' x eq_refl Hin). lia.
  - inversion H; subst. destruct Hin as [->|Hin]; [lia|]. destruct t; [contradiction|simpl in E; destruct (list_min t); discriminate].
Qed.

Lemma tmc_entry : forall v rq e k, In e rq -> 0 < snd e -> k <= task_max_count v rq -> k * snd e <= rv_get v (fst e).
Proof.
  intros v rq e k Hin Hpos Hk. unfold task_max_count in Hk.
  destruct (list_min _) as [m|] eqn:E.
  - assert (Hm : m <= N.min (rv_get v (fst e) / snd e) SCHED_MAX_TASK_PER_WORKER).
    { eapply list_min_le; [exact E|]. apply in_map_iff. exists e. auto. }
    assert (Hd : rv_get v (fst e) / snd e * snd e <= rv_get v (fst e)).
    { pose proof (N.div_mod (rv_get v (fst e)) (snd e) ltac:(lia)). nia. }
    nia.
  - assert (k = 0) by lia. subst. lia.
Qed.

Lemma list_min_ge : forall l k, l <> [] -> (forall x, In x l -> k <= x) -> exists m, list_min l = Some m /\ k <= m.
Proof.
  induction l as [|y t IH]; intros k Hn Ha; [congruence|]. simpl. destruct t as [|z t'].
  - simpl. exists y. split; [reflexivity|apply Ha; left; reflexivity].
  - destruct (IH k) as (m & Hm & Hk); [discriminate|intros x Hx; apply Ha; right; assumption|].
    rewrite Hm. exists (N.min y m). split; [reflexivity|]. specialize (Ha y (or_introl eq_refl)). lia.
Qed.

(** a count not reaching the cap that fits every entry is below [task_max_count] *)
Lemma tmc_ge : forall v rq k, rq <> [] -> k < SCHED_MAX_TASK_PER_WORKER ->
  (forall e, In e rq -> 0 < snd e /\ k * snd e <= rv_get v (fst e)) -> k <= task_max_count v rq.
Proof.
  intros v rq k Hne Hcap H. unfold task_max_count.
  destruct (list_min_ge (map (fun e => N.min (rv_get v (fst e) / snd e) SCHED_MAX_TASK_PER_WORKER) rq) k) as (m & Hm & Hk).
  - destruct rq; [congruence|discriminate].
  - intros x Hx. apply in_map_iff in Hx. destruct Hx as (e & <- & He). destruct (H e He) as [Hp Hke].
    assert (k <= rv_get v (fst e) / snd e) by (apply N.div_le_lower_bound; lia). lia.
  - rewrite Hm. assumption.
Qed.


Theorem gap_leaves_room : forall I w h G,
  no_all I ->
  gap_resources I w h = Ok G ->
  request_wf (req_of I h) -> request_nodup (req_of I h) ->
  (exists e, In e (req_of I h) /\ rv_get (w_res w) (fst e) / snd e < SCHED_MAX_TASK_PER_WORKER) ->
  (forall r, rv_get (w_free w) r + demand I (w_assigned w) r = rv_get (w_res w) r) ->
  forall (U : N -> N), (forall r, U r <= rv_get G r) ->
  forall k, k <= task_max_count (w_free w) (req_of I h) ->
  forall r, k * amount (req_of I h) r + U r <= rv_get (w_free w) r.
Proof.
  intros I w h G Hna HG Hwf Hnd (e0 & He0 & Hsmall) Hacc U HU k Hk r.
  unfold gap_resources in HG. cbv zeta in HG.
  rewrite (rv_remove_cls_noall _ _ _ (Hna h)), (tmc_cls_noall _ _ (Hna h)) in HG. fold (req_of I h) in HG.
  destruct (rv_remove_multiple (w_res w) (req_of I h) (task_max_count (w_res w) (req_of I h))) as [f1| |] eqn:E1;
    simpl in HG; try discriminate.
  pose proof (remove_assigned_get _ _ _ _ _ Hna HG r) as HGr.
  rewrite (rv_remove_multiple_get _ _ _ _ E1 r) in HGr.
  set (m := task_max_count (w_res w) (req_of I h)) in *.
  set (nh := count_class (w_assigned w) h).
  pose proof (Hacc r) as Hr. rewrite (demand_split I (w_assigned w) h r) in Hr. fold nh in Hr.
  specialize (HU r).
  unfold request_wf in Hwf. rewrite Forall_forall in Hwf.
  (* k + nh tasks of h fit the worker's total resources, hence k + nh <= m *)
  assert (Hm : k + nh <= m).
  { apply tmc_ge.
    - intros E. rewrite E in He0. contradiction.
    - assert (Hb : (k + nh) * snd e0 <= rv_get (w_res w) (fst e0)).
      { pose proof (tmc_entry (w_free w) (req_of I h) e0 k He0 (Hwf e0 He0) Hk) as Hke.
        pose proof (Hacc (fst e0)) as Hr0. rewrite (demand_split I (w_assigned w) h (fst e0)) in Hr0. fold nh in Hr0.
        rewrite (amount_entry _ e0 Hnd He0) in Hr0. nia. }
      assert (k + nh <= rv_get (w_res w) (fst e0) / snd e0).
      { apply N.div_le_lower_bound; [specialize (Hwf e0 He0); lia|]. lia. }
      lia.
    - intros e He. split; [apply Hwf; assumption|].
      pose proof (tmc_entry (w_free w) (req_of I h) e k He (Hwf e He) Hk) as Hke.
      pose proof (Hacc (fst e)) as Hre. rewrite (demand_split I (w_assigned w) h (fst e)) in Hre. fold nh in Hre.
      rewrite (amount_entry _ e Hnd He) in Hre. nia. }
  destruct (amount_zero_or_entry (req_of I h) r) as [Hz|(e & He & Hfe & Hpe)].
  - rewrite Hz in *. lia.
  - subst r. rewrite (amount_entry _ e Hnd He) in *.
    pose proof (tmc_entry (w_free w) (req_of I h) e k He Hpe Hk) as Hke. nia.
Qed.
