(** C15: what the tight K1 row (cut budget shared by all workers where the blocker may run) guarantees. *)
From HQ Require Import Base.Prelude Gen.Consts Sched.Model.
Require Import ZifyBool ZifyN ZifyNat.
Open Scope N_scope.

(** * What the tight K1 row guarantees *)

Definition capable_total (I : inst) (bs : list batch) (s : sol) (l h : N) (ws : list worker) : N :=
  fold_right (fun w acc => (if capable I w h then placed I bs s w l else 0) + acc) 0 ws.
Definition gap_total (I : inst) (l h : N) (ws : list worker) : N :=
  fold_right (fun w acc => (if capable I w h then gap_or0 I w h l else 0) + acc) 0 ws.
Definition excess (I : inst) (bs : list batch) (s : sol) (l h : N) (ws : list worker) : N :=
  fold_right (fun w acc => (if capable I w h then placed I bs s w l - gap_or0 I w h l else 0) + acc) 0 ws.

Lemma excess_bounds : forall I bs s l h ws,
  (forall w, In w ws -> capable I w h = true -> placed I bs s w l <= excess I bs s l h ws + gap_or0 I w h l)
  /\ capable_total I bs s l h ws <= excess I bs s l h ws + gap_total I l h ws.
Proof.
  intros I bs s l h. induction ws as [|w0 t [IH1 IH2]]; simpl.
  - split; [intros w []|lia].
  - split.
    + intros w [->|Hin] Hc.
      * rewrite Hc. lia.
      * specialize (IH1 w Hin Hc). destruct (capable I w0 h); lia.
    + destruct (capable I w0 h); lia.
Qed.

(** If the tight row K1 holds for (low class l, cut, blocker h) - the cut budget is shared by all workers
    where h may run - then every real per-worker cut row holds, and the low class' total on the workers
    where h may run stays within the budget [cut + total gap]. *)
Theorem tight_k1_guarantees : forall I bs s l cut h,
  k1_violated I bs s l cut h = false ->
  (forall w, In w (i_workers I) -> capable I w h = true -> placed I bs s w l <= cut + gap_or0 I w h l)
  /\ capable_total I bs s l h (i_workers I) <= cut + gap_total I l h (i_workers I).
Proof.
  intros I bs s l cut h H. unfold k1_violated, k1_excess in H. fold (excess I bs s l h (i_workers I)) in H.
  destruct (excess_bounds I bs s l h (i_workers I)) as [H1 H2]. split.
  - intros w Hw Hc. specialize (H1 w Hw Hc). lia.
  - lia.
Qed.
