(** C15: the EXACT class with INTERLEAVED priority levels.  One worker, one resource kind, two request
    classes with arbitrary ready queues (any number of tasks per level, the levels of the two classes
    interleaved in any way, at most 32 levels per class so that no cut is pruned): every optimal solution
    of the exact row system, dispatched by any assignment [mapping_ok] accepts, is free of priority
    inversions ([exact_class_full_no_inversion]).

    The proof: an inversion (task [t] of class Y runs, task [u] of class X with a higher priority [p]
    waits and would fit without the lower tasks) is between two classes ([same_class_order_y]); the merge
    loop has given Y a cut of at most "Y's tasks of priority >= p" guarded by X ([bf_guard]), so Y places
    at most that many tasks plus the gap, and the gap holds less than one X task; every cut of X is
    either not in force once Y holds its tasks of priority >= p or already admits one more X task
    ([bf_xcut]); hence "one more X task, Y cut back to its tasks of priority >= p" is feasible
    ([exchange]) and uses strictly more of the resource - the solution was not optimal.

    The wider statement without the bound on the number of levels is false: [ExactFullRefuted]. *)
From HQ Require Import Base.Prelude Gen.Consts Sched.Model Sched.ProofsOrder Sched.ProofsRows Sched.ProofsCuts
  Sched.ProofsExact Sched.ExactFullMerge Sched.ExactFullInst Sched.ExactFullBatches Sched.ExactFullQueue Sched.ExactFullRows Sched.Optimal.
Require Import ZifyBool ZifyN ZifyNat.
From Coq Require Import Sorting.Sorted.
Open Scope N_scope.
Local Arguments N.add : simpl never. Local Arguments N.sub : simpl never. Local Arguments N.mul : simpl never.
Local Arguments N.eqb : simpl never. Local Arguments N.ltb : simpl never. Local Arguments N.leb : simpl never.
Local Arguments N.of_nat : simpl never. Local Arguments N.to_nat : simpl never. Local Arguments N.div : simpl never.
Local Arguments N.min : simpl never. Local Arguments N.max : simpl never.

Lemma yinst_wf : forall R F assigned a0 a1 q0 q1, 0 < a0 -> 0 < a1 -> inst_wf (yinst R F assigned a0 a1 q0 q1).
Proof.
  intros. split.
  - cbn. repeat constructor. intros [].
  - intros c Hc. cbn in Hc. destruct Hc as [<-|[<-|[]]]; split; repeat constructor; cbn; lia.
  - intros c Hc. cbn in Hc. destruct Hc as [<-|[<-|[]]]; constructor.
Qed.

Lemma flat_nonempty : forall q x, In x (flat_tasks q) -> q <> [].
Proof. intros q x H E. rewrite E in H. exact H. Qed.

Lemma Tge_ent0 : forall rq limit q p, Tge (ent0 rq limit q) p = sum_ge p (levels q).
Proof. intros. unfold Tge, ent0. cbn [fst snd b0 b_size]. lia. Qed.
Lemma Tgt_ent0 : forall rq limit q p, Tgt (ent0 rq limit q) p = sum_gt p (levels q).
Proof. intros. unfold Tgt, ent0. cbn [fst snd b0 b_size]. lia. Qed.

Theorem exact_class_full_no_inversion : forall R F assigned a0 a1 q0 q1 bs m s d,
  0 < a0 -> 0 < a1 -> F <= R ->
  R / a0 <= SCHED_MAX_TASK_PER_WORKER -> R / a1 <= SCHED_MAX_TASK_PER_WORKER ->
  ready_wf q0 -> NoDup (flat_ids q0) -> ready_wf q1 -> NoDup (flat_ids q1) ->
  (length q0 <= 32)%nat -> (length q1 <= 32)%nat ->
  create_task_batches (yinst R F assigned a0 a1 q0 q1) = Ok bs ->
  milp_of (yinst R F assigned a0 a1 q0 q1) bs = Ok m -> feasible m s = true ->
  (forall s', feasible m s' = true -> (objective m s' <= objective m s)%Z) ->
  mapping_ok (yinst R F assigned a0 a1 q0 q1) bs s d = true ->
  inversion (yinst R F assigned a0 a1 q0 q1) d = false.
Proof.
  intros R F assigned a0 a1 q0 q1 bs m s d Ha0 Ha1 HFR Hc0 Hc1 Hw0 Hnd0 Hw1 Hnd1 Hl0 Hl1 Hbs Hm Hf Hopt Hmap.
  set (I := yinst R F assigned a0 a1 q0 q1) in *. set (W := xworker R F assigned).
  destruct (inversion I d) eqn:Einv; [exfalso|reflexivity].
  (* 1. the witness *)
  unfold inversion in Einv. destruct (inversions I d) as [|x xs] eqn:Ex; [discriminate|]. clear Einv.
  assert (Hx : In x (inversions I d)) by (rewrite Ex; left; reflexivity). clear Ex xs.
  unfold inversions in Hx. apply in_concat in Hx. destruct Hx as (l1 & Hll1 & Hx).
  apply in_map_iff in Hll1. destruct Hll1 as (pr & <- & Hpr).
  destruct (find_task (ready_tasks I) (fst pr)) as [t|] eqn:Et; [|contradiction].
  destruct (find_worker I (snd pr)) as [w|] eqn:Ew; [|contradiction].
  apply in_concat in Hx. destruct Hx as (l2 & Hl2 & Hx).
  apply in_map_iff in Hl2. destruct Hl2 as (u & <- & Hu_ready).
  match type of Hx with In _ (if ?c then _ else _) => destruct c eqn:Ec; [|contradiction] end. clear Hx.
  repeat (apply andb_true_iff in Ec; destruct Ec as [Ec ?]).
  rename H into Hnobusy, H0 into Hfits, H1 into Htime, H2 into Hnblk, H3 into Hprio.
  apply negb_true_iff in Ec. rename Ec into Hundisp. apply N.ltb_lt in Hprio.
  assert (Hw : w = W).
  { unfold find_worker in Ew. apply find_some in Ew. destruct Ew as [Hin _]. cbn in Hin. destruct Hin as [<-|[]]. reflexivity. }
  subst w.
  assert (Hsp : snd pr = 1).
  { unfold find_worker in Ew. apply find_some in Ew. destruct Ew as [_ E]. apply N.eqb_eq in E. symmetry. exact E. }
  pose proof Et as Eft. apply find_task_in in Et. destruct Et as [Ht_ready Htid].
  destruct (ready_cases R F assigned a0 a1 q0 q1 t Ht_ready) as [HtZ Htfl]. fold I in Ht_ready.
  destruct (ready_cases R F assigned a0 a1 q0 q1 u Hu_ready) as [HuZ Hufl].
  set (X := t_rq u) in *. set (Y := t_rq t) in *.
  (* 2. the class of the dispatched task is placeable and has a batch *)
  assert (Hwf : inst_wf I) by (apply yinst_wf; assumption).
  assert (HplY : placeable I W Y = true).
  { pose proof (C05_feasible_no_overbook_thm I bs m s d Hwf Hbs Hm Hf Hmap W (or_introl eq_refl)) as (_ & _ & Hpl).
    apply Hpl. unfold rqs_on. apply in_concat. exists [t_rq t]. split; [|left; reflexivity].
    apply in_map_iff. exists pr. split; [|assumption]. change (w_id W) with 1. rewrite Hsp, N.eqb_refl.
    rewrite Eft. reflexivity. }
  assert (HbY : exists b, In b bs /\ b_rq b = Y).
  { unfold mapping_ok in Hmap. apply andb_true_iff in Hmap. destruct Hmap as [_ Hcls].
    rewrite forallb_forall in Hcls. specialize (Hcls pr Hpr). rewrite Eft in Hcls.
    apply existsb_exists in Hcls. destruct Hcls as (b & Hb & Hbrq). apply N.eqb_eq in Hbrq. exists b. auto. }
  destruct HbY as (bY0 & HbY0 & HrqY0).
  assert (HxY : has_x I bs W Y = true) by (rewrite <- HrqY0, has_x_placeable by assumption; rewrite HrqY0; exact HplY).
  pose proof (mapping_MZ R F assigned a0 a1 q0 q1 Hw0 Hw1 bs s d bY0 Y Hmap HbY0 HrqY0 HtZ HxY) as HMY.
  (* 3. the two tasks are of different classes *)
  destruct (N.eq_dec X Y) as [HXeqY|HXneY].
  { apply (same_class_order_y R F assigned a0 a1 q0 q1 Hw0 Hw1 Hnd0 Hnd1 s d Y u t pr HMY Hu_ready Hundisp Hpr Eft Hprio HXeqY eq_refl). }
  assert (HXY : (X = 0 /\ Y = 1) \/ (X = 1 /\ Y = 0)) by (destruct HtZ as [E1|E1]; destruct HuZ as [E2|E2]; rewrite ?E1, ?E2 in *; auto; congruence).
  (* 4. both classes fit the free resources *)
  assert (HaX : az a0 a1 X <= F).
  { destruct (fits_unfold R F assigned a0 a1 q0 q1 d u Hfits) as (v & Hsub & Hcap).
    pose proof (sub_all_le _ _ _ _ Hsub 0) as Hle. change (rv_get [F] 0) with F in Hle. fold X in Hcap. unfold az.
    destruct HXY as [[E1 _]|[E1 _]]; rewrite E1 in *.
    - change (req_of (yinst R F assigned a0 a1 q0 q1) 0) with [(0, a0)] in Hcap.
      cbn [capable_res forallb fst snd] in Hcap. change (0 =? 0) with true. lia.
    - change (req_of (yinst R F assigned a0 a1 q0 q1) 1) with [(0, a1)] in Hcap.
      cbn [capable_res forallb fst snd] in Hcap. change (1 =? 0) with false. lia. }
  assert (HaY : az a0 a1 Y <= F).
  { unfold az. destruct HXY as [[_ E2]|[_ E2]]; rewrite E2 in *.
    - change (placeable I W 1) with (negb false && true && ((a1 <=? F) && true)) in HplY. change (1 =? 0) with false. lia.
    - change (placeable I W 0) with (negb false && true && ((a0 <=? F) && true)) in HplY. change (0 =? 0) with true. lia. }
  assert (H0F : a0 <= F) by (unfold az in HaX, HaY; destruct HXY as [[E1 E2]|[E1 E2]]; rewrite E1 in HaX; rewrite E2 in HaY; assumption).
  assert (H1F : a1 <= F) by (unfold az in HaX, HaY; destruct HXY as [[E1 E2]|[E1 E2]]; rewrite E1 in HaX; rewrite E2 in HaY; assumption).
  assert (Hn0 : q0 <> []).
  { destruct HXY as [[E1 E2]|[E1 E2]]; [rewrite E1 in Hufl; exact (flat_nonempty _ _ Hufl)|rewrite E2 in Htfl; exact (flat_nonempty _ _ Htfl)]. }
  assert (Hn1 : q1 <> []).
  { destruct HXY as [[E1 E2]|[E1 E2]]; [rewrite E2 in Htfl; exact (flat_nonempty _ _ Htfl)|rewrite E1 in Hufl; exact (flat_nonempty _ _ Hufl)]. }
  (* 5. the batches *)
  destruct (ybatches_BF R F assigned a0 a1 q0 q1 Ha0 Ha1 H0F H1F HFR Hc0 Hc1 Hw0 Hw1 Hn0 Hn1 Hl0 Hl1) as (bA & bB & Ecr & BF01 & BF10).
  fold I in Ecr. rewrite Ecr in Hbs. injection Hbs as Hbs. subst bs.
  pose proof (bf_rqX _ _ _ _ _ _ BF01) as HrqA. pose proof (bf_rqY _ _ _ _ _ _ BF01) as HrqB.
  set (eZ := fun Z : N => if Z =? 0 then eA0 F a0 q0 else eB0 F a1 q1).
  assert (HBF : BF (eZ X) (eZ Y) X Y (bz bA bB X) (bz bA bB Y)).
  { destruct HXY as [[E1 E2]|[E1 E2]]; rewrite E1, E2; [exact BF01|exact BF10]. }
  assert (HMX : MZ R F assigned a0 a1 q0 q1 s d X).
  { destruct HXY as [[E1 E2]|[E1 E2]]; rewrite E1.
    - apply (mapping_MZ R F assigned a0 a1 q0 q1 Hw0 Hw1 [bA; bB] s d bA 0 Hmap (or_introl eq_refl) HrqA (or_introl eq_refl)).
      apply y_hasx0; assumption.
    - apply (mapping_MZ R F assigned a0 a1 q0 q1 Hw0 Hw1 [bA; bB] s d bB 1 Hmap (or_intror (or_introl eq_refl)) HrqB (or_intror eq_refl)).
      apply y_hasx1; assumption. }
  (* 6. the numbers *)
  destruct (waiting_facts R F assigned a0 a1 q0 q1 Hw0 Hw1 s d X Y HXY HMX u t pr Hu_ready Hundisp Hprio eq_refl) as [_ N1].
  destruct (running_facts R F assigned a0 a1 q0 q1 Hw0 Hw1 Hnd0 Hnd1 s d X Y HXY HMY u t pr Hundisp Hpr Eft Hprio eq_refl eq_refl) as (_ & N2 & N4).
  pose proof (fits_numbers R F assigned a0 a1 q0 q1 Hw0 Hw1 Hnd0 Hnd1 s d X Y HXY HMX HMY u t pr Hu_ready Hundisp Hpr Eft Hprio eq_refl eq_refl Hfits) as N3.
  pose proof (flat_prio_level _ _ _ Hufl) as N5.
  assert (EX : forall pi, Tge (eZ X) pi = sum_ge pi (levels (qz q0 q1 X)) /\ Tgt (eZ X) pi = sum_gt pi (levels (qz q0 q1 X))
                        /\ prios (eZ X) = map fst (levels (qz q0 q1 X))).
  { intros pi. unfold eZ, qz, eA0, eB0. destruct (X =? 0); rewrite Tge_ent0, Tgt_ent0; auto. }
  assert (EY : forall pi, Tge (eZ Y) pi = sum_ge pi (levels (qz q0 q1 Y)) /\ Tgt (eZ Y) pi = sum_gt pi (levels (qz q0 q1 Y))
                        /\ prios (eZ Y) = map fst (levels (qz q0 q1 Y))).
  { intros pi. unfold eZ, qz, eA0, eB0. destruct (Y =? 0); rewrite Tge_ent0, Tgt_ent0; auto. }
  (* 7. a strictly better feasible point *)
  destruct (exchange R F assigned a0 a1 q0 q1 Ha0 Ha1 H0F H1F HFR Hc0 Hc1 bA bB HrqA HrqB X Y HXY (eZ X) (eZ Y)
              (t_prio u) (t_prio t) HBF) with (m := m) (s := s) as (s' & Hf' & Hlt).
  - unfold eZ. destruct (Y =? 0); reflexivity.
  - unfold eZ, az. destruct (X =? 0); reflexivity.
  - unfold eZ, az. destruct (Y =? 0); reflexivity.
  - exact Hm.
  - exact Hf.
  - rewrite (proj1 (EX _)). exact N1.
  - rewrite (proj1 (proj2 (EY _))). exact N2.
  - rewrite (proj1 (EY _)). exact N3.
  - rewrite (proj2 (proj2 (EX 0))). exact N5.
  - rewrite (proj2 (proj2 (EY 0))). exact N4.
  - exact Hprio.
  - specialize (Hopt s' Hf'). lia.
Qed.

(** the hypotheses are satisfiable by a non-trivial instance: interleaved levels incl. a common one, a
    running task, a positive gap, the limit of both classes reached; optimality by exhaustive enumeration *)
Definition ex_q0 : list (N * list N) := [(9, [1; 2]); (5, [3]); (2, [4; 5])].
Definition ex_q1 : list (N * list N) := [(7, [11]); (5, [12; 13]); (3, [14]); (1, [15])].
Definition ex_inst : inst := yinst 11 8 [0] 3 2 ex_q0 ex_q1.
Definition ex_bs : list batch := Eval vm_compute in (match create_task_batches ex_inst with Ok b => b | _ => [] end).
Definition ex_m : list entry := Eval vm_compute in (match milp_of ex_inst ex_bs with Ok x => x | _ => [] end).
Definition ex_sol : sol := sol_of [(VX 1 0, 2%Z); (VX 1 1, 1%Z); (VB 1 1, 0%Z); (VB 0 2, 0%Z)].
Definition ex_ubs : list (var * Z) := [(VX 1 0, 4%Z); (VX 1 1, 4%Z); (VB 1 1, 1%Z); (VB 0 2, 1%Z)].
Definition ex_dispatch : dispatch := [(1, 1); (11, 1); (2, 1)].

Example exact_class_full_instance :
  0 < 3 /\ 0 < 2 /\ 8 <= 11 /\ 11 / 3 <= SCHED_MAX_TASK_PER_WORKER /\ 11 / 2 <= SCHED_MAX_TASK_PER_WORKER
  /\ ready_wf ex_q0 /\ NoDup (flat_ids ex_q0) /\ ready_wf ex_q1 /\ NoDup (flat_ids ex_q1)
  /\ (length ex_q0 <= 32)%nat /\ (length ex_q1 <= 32)%nat
  /\ create_task_batches ex_inst = Ok ex_bs /\ milp_of ex_inst ex_bs = Ok ex_m /\ feasible ex_m ex_sol = true
  /\ (forall s', feasible ex_m s' = true -> (objective ex_m s' <= objective ex_m ex_sol)%Z)
  /\ mapping_ok ex_inst ex_bs ex_sol ex_dispatch = true
  /\ map (fun b => length (b_cuts b)) ex_bs = [1%nat; 3%nat]
  /\ gap ex_inst (xworker 11 8 [0]) 0 1 = Ok 1.
Proof.
  repeat match goal with |- _ /\ _ => split end; try (vm_compute; congruence); try (cbn; lia); try (vm_compute; reflexivity).
  - split; repeat constructor; cbn; try lia; try discriminate.
  - unfold ex_q0, flat_ids. cbn [map concat snd app]. repeat constructor; cbn; intuition congruence.
  - split; repeat constructor; cbn; try lia; try discriminate.
  - unfold ex_q1, flat_ids. cbn [map concat snd app]. repeat constructor; cbn; intuition congruence.
  - apply (optimal_by_enumeration ex_m ex_ubs); vm_compute; reflexivity.
Qed.

(** ... and the theorem applies to it *)
Example exact_class_full_instance_no_inversion : inversion ex_inst ex_dispatch = false.
Proof.
  destruct exact_class_full_instance as (A1 & A2 & A3 & A4 & A5 & A6 & A7 & A8 & A9 & A10 & A11 & A12 & A13 & A14 & A15 & A16 & _).
  exact (exact_class_full_no_inversion 11 8 [0] 3 2 ex_q0 ex_q1 ex_bs ex_m ex_sol ex_dispatch
           A1 A2 A3 A4 A5 A6 A7 A8 A9 A10 A11 A12 A13 A14 A15 A16).
Qed.

Print Assumptions exact_class_full_no_inversion.
