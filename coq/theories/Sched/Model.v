(** Executable model of one scheduling decision of tako's MILP scheduler (single-node,
    single-variant request classes):

      common/priority.rs        [from_user_priority]
      scheduler/taskqueue.rs    [queue], [queue_add], [queue_remove], [iter_priority_sizes], [take_tasks]
      server/workerload.rs      [capable_res], [task_max_count], [rv_remove], [rv_remove_multiple]
      server/worker.rs          [has_time], [capable], [blocked]
      scheduler/batches.rs      [create_task_batches], [prune_progressive]
      scheduler/gap.rs          [gap]  (trivial-request branch: closed form, no LP)
      scheduler/solver.rs       [milp_of] = the exact list of variables and rows run_scheduling_solver hands
                                to the LP solver, in creation order; [feasible]; [objective]
      scheduler/mapping.rs      [mapping_ok] (create_task_mapping: the dispatch is a witness that is validated)

    plus the property-level definitions of C15: [inversion], the tight rows [k1_violated] /
    [k2_violated] and the classifier [classify].

    Numbers are unbounded [N]/[Z]; resource amounts are in fractions (1 unit = FRACTIONS_PER_UNIT).
    Rust panics reachable in the modelled functions are [Panic site]. *)
From HQ Require Import Base.Prelude Gen.Consts.
Open Scope N_scope.

(** * Priority encoding (common/priority.rs) *)

(** [Priority((user_priority.0 as u64 ^ 0x8000_0000) << 32)]: the [as u64] cast of an [i32] sign-extends
    (= [p mod 2^64]); [<<] on [u64] drops the bits shifted out. *)
Definition from_user_priority (p : Z) : N :=
  Z.to_N ((Z.shiftl (Z.lxor (p mod 2 ^ 64) (Z.of_N SCHED_PRIORITY_SIGN_FLIP)) (Z.of_N SCHED_PRIORITY_SHIFT)) mod 2 ^ 64)%Z.

(** * Resource vectors (server/workerload.rs) *)

Definition rvec := list N.
Definition request := list (N * N).   (* entries (resource id, amount > 0), each resource at most once *)

Definition rv_get (v : rvec) (r : N) : N := nth (N.to_nat r) v 0.

Fixpoint rv_set (v : rvec) (r : nat) (x : N) : rvec :=
  match v, r with
  | [], _ => []
  | _ :: t, O => x :: t
  | h :: t, S r' => h :: rv_set t r' x
  end.

(** [is_capable_to_run_request]: every asked amount is available ([get] is 0 outside the vector). *)
Definition capable_res (v : rvec) (rq : request) : bool :=
  forallb (fun e => snd e <=? rv_get v (fst e)) rq.

Fixpoint list_min (l : list N) : option N :=
  match l with
  | [] => None
  | x :: t => match list_min t with None => Some x | Some m => Some (N.min x m) end
  end.

(** [task_max_count_for_request] (no [All] policies in the modelled class). *)
Definition task_max_count (v : rvec) (rq : request) : N :=
  match list_min (map (fun e => N.min (rv_get v (fst e) / snd e) SCHED_MAX_TASK_PER_WORKER) rq) with
  | Some m => m
  | None => 0
  end.

(** [remove_multiple] ([remove] = n 1): saturating subtraction, [IndexVec] indexing panics outside. *)
Fixpoint rv_remove_multiple (v : rvec) (rq : request) (n : N) : res rvec :=
  match rq with
  | [] => Ok v
  | (r, a) :: t =>
      if Nat.ltb (N.to_nat r) (length v) then
        rv_remove_multiple (rv_set v (N.to_nat r) (rv_get v r - a * n)) t n
      else Panic 1501
  end.

(** * Task queue (scheduler/taskqueue.rs) *)

(** [q_ready]: the [BTreeMap<Reverse<Priority>, OneOrMoreTaskIds>] as an association list in iteration
    order (descending priority), each id set as an ascending list ([One x] = [[x]]).
    [q_prefill]: the prefill set; its list order is the hash-iteration order (a witness). *)
Record queue := { q_ready : list (N * list N); q_prefill : option (N * list N) }.

Definition empty_queue : queue := {| q_ready := []; q_prefill := None |}.

Fixpoint insert_id (x : N) (ids : list N) : list N :=
  match ids with
  | [] => [x]
  | y :: t => if x <? y then x :: ids else if x =? y then ids else y :: insert_id x t
  end.

Fixpoint ready_add (rd : list (N * list N)) (id p : N) : list (N * list N) :=
  match rd with
  | [] => [(p, [id])]
  | (q, ids) :: t =>
      if q <? p then (p, [id]) :: rd
      else if q =? p then (q, insert_id id ids) :: t
      else (q, ids) :: ready_add t id p
  end.

(** [TaskQueue::add] *)
Definition queue_add (q : queue) (id p : N) : queue :=
  {| q_ready := ready_add (q_ready q) id p; q_prefill := q_prefill q |}.

Definition remove_id (x : N) (ids : list N) : list N := filter (fun y => negb (y =? x)) ids.

Fixpoint ready_remove (rd : list (N * list N)) (id p : N) : list (N * list N) :=
  match rd with
  | [] => []
  | (q, ids) :: t =>
      if q =? p then (match remove_id id ids with [] => t | ids' => (q, ids') :: t end)
      else (q, ids) :: ready_remove t id p
  end.

(** [TaskQueue::remove] for a task that is in the ready part (the [assert_eq!] of the [One] arm holds
    because the harness only removes tasks that are in the queue). *)
Definition queue_remove (q : queue) (id p : N) : queue :=
  match q_prefill q with
  | Some (pp, ts) =>
      if (pp =? p) && existsb (N.eqb id) ts then
        {| q_ready := q_ready q; q_prefill := Some (pp, remove_id id ts) |}
      else {| q_ready := ready_remove (q_ready q) id p; q_prefill := q_prefill q |}
  | None => {| q_ready := ready_remove (q_ready q) id p; q_prefill := None |}
  end.

Definition nlen {A} (l : list A) : N := N.of_nat (length l).

(** [is_empty] *)
Definition queue_is_empty (q : queue) : bool :=
  match q_ready q, q_prefill q with
  | [], None => true
  | [], Some (_, []) => true
  | _, _ => false
  end.

Definition queue_size (q : queue) : N := fold_right (fun e acc => nlen (snd e) + acc) 0 (q_ready q).

(** [iter_priority_sizes] *)
Definition iter_priority_sizes (q : queue) : list (N * N) :=
  let it := map (fun e => (fst e, nlen (snd e))) (q_ready q) in
  match q_prefill q with
  | None => it
  | Some (pp, ts) =>
      match it with
      | (fp, fs) :: rest => if fp =? pp then (fp, fs + nlen ts) :: rest else (pp, nlen ts) :: (fp, fs) :: rest
      | [] => [(pp, nlen ts)]
      end
  end.

(** the [while count > 0 { first_entry().unwrap(); take_from_entry }] loop *)
Fixpoint take_loop (rd : list (N * list N)) (count : N) : res (list N * list (N * list N)) :=
  if count =? 0 then Ok ([], rd)
  else match rd with
       | [] => Panic 1601                       (* first_entry().unwrap() on an empty map *)
       | (p, ids) :: t =>
           if nlen ids <=? count then
             do r <- take_loop t (count - nlen ids);
             Ok (ids ++ fst r, snd r)
           else Ok (firstn (N.to_nat count) ids, (p, skipn (N.to_nat count) ids) :: t)
       end.

(** [drain_prefill] *)
Definition drain_prefill (pf : option (N * list N)) (count : N) : list N * option (N * list N) * N :=
  match pf with
  | None => ([], None, count)
  | Some (pp, ts) =>
      let k := N.min count (nlen ts) in
      let rest := skipn (N.to_nat k) ts in
      (firstn (N.to_nat k) ts, match rest with [] => None | _ => Some (pp, rest) end, count - k)
  end.

(** [take_tasks] *)
Definition take_tasks (q : queue) (count : N) : res (list N * queue) :=
  match q_prefill q with
  | None =>
      do r <- take_loop (q_ready q) count;
      Ok (fst r, {| q_ready := snd r; q_prefill := None |})
  | Some (pp, _) =>
      match q_ready q with
      | (fp, ids) :: t =>
          if fp =? pp then
            (* same priority: first entry of the queue, then the prefill, then the rest *)
            let k := N.min count (nlen ids) in
            let taken1 := firstn (N.to_nat k) ids in
            let rd1 := match skipn (N.to_nat k) ids with [] => t | rest => (fp, rest) :: t end in
            let '(taken2, pf2, c2) := drain_prefill (q_prefill q) (count - k) in
            do r <- take_loop rd1 c2;
            Ok (taken1 ++ taken2 ++ fst r, {| q_ready := snd r; q_prefill := pf2 |})
          else
            let '(taken2, pf2, c2) := drain_prefill (q_prefill q) count in
            do r <- take_loop (q_ready q) c2;
            Ok (taken2 ++ fst r, {| q_ready := snd r; q_prefill := pf2 |})
      | [] =>
          let '(taken2, pf2, c2) := drain_prefill (q_prefill q) count in
          do r <- take_loop [] c2;
          Ok (taken2 ++ fst r, {| q_ready := snd r; q_prefill := pf2 |})
      end
  end.

(** * Instance of one scheduling decision *)

Record worker := {
  w_id : N;
  w_res : rvec;              (* [Worker::resources] *)
  w_free : rvec;             (* [sn_assignment().free_resources] *)
  w_assigned : list N;       (* request class ids of the assigned / running tasks (for the gap) *)
  w_blocked : list N;        (* blocked request classes (variant 0) *)
  w_term : option N          (* termination time *)
}.

(** [rc_entries]: the entries with an amount (Compact ...); [rc_all]: the resources requested with the
    [All] policy (the whole resource of the worker the task runs on) *)
Record rclass := { rc_entries : request; rc_min_time : N; rc_all : list N }.

Record inst := {
  i_nres : N;
  i_now : N;
  i_workers : list worker;   (* sorted by id, as the solver sorts them *)
  i_classes : list rclass;   (* index = ResourceRqId *)
  i_queues : list queue      (* index = ResourceRqId *)
}.

Definition class_of (I : inst) (rq : N) : rclass :=
  nth (N.to_nat rq) (i_classes I) {| rc_entries := []; rc_min_time := 0; rc_all := [] |}.
Definition req_of (I : inst) (rq : N) : request := rc_entries (class_of I rq).

(** [min_amount] of every entry: an [All] entry asks for at least one fraction *)
Definition min_req (I : inst) (rq : N) : request :=
  req_of I rq ++ map (fun r => (r, 1)) (rc_all (class_of I rq)).

(** What a class demands ON a given worker: an [All] entry is the worker's TOTAL of that resource
    ([amount_or_none_if_all().unwrap_or_else(|| worker.resources.get(r))]).  [inst_on I w] is [I] with
    every class resolved for worker [w]; [req_of (inst_on I w) rq] is the demand of class [rq] on [w]. *)
Definition class_on (total : rvec) (c : rclass) : rclass :=
  {| rc_entries := rc_entries c ++ map (fun r => (r, rv_get total r)) (rc_all c);
     rc_min_time := rc_min_time c; rc_all := [] |}.
Definition inst_on (I : inst) (w : worker) : inst :=
  {| i_nres := i_nres I; i_now := i_now I; i_workers := i_workers I;
     i_classes := map (class_on (w_res w)) (i_classes I); i_queues := i_queues I |}.

(** [task_max_count_for_request]: an [All] entry allows one task if the resource is there at all *)
Definition task_max_count_cls (v : rvec) (c : rclass) : N :=
  match list_min (map (fun e => N.min (rv_get v (fst e) / snd e) SCHED_MAX_TASK_PER_WORKER) (rc_entries c)
                  ++ map (fun r => if rv_get v r =? 0 then 0 else 1) (rc_all c)) with
  | Some m => m
  | None => 0
  end.

(** [remove] / [remove_multiple]: an [All] entry zeroes the resource *)
Fixpoint rv_zero (v : rvec) (rs : list N) : res rvec :=
  match rs with
  | [] => Ok v
  | r :: t => if Nat.ltb (N.to_nat r) (length v) then rv_zero (rv_set v (N.to_nat r) 0) t else Panic 1501
  end.
Definition rv_remove_cls (v : rvec) (c : rclass) (n : N) : res rvec :=
  match rc_all c with
  | [] => rv_remove_multiple v (rc_entries c) n
  | rs => do v' <- rv_remove_multiple v (rc_entries c) n; rv_zero v' rs
  end.

(** [has_time_to_run] *)
Definition has_time (I : inst) (w : worker) (c : rclass) : bool :=
  match w_term w with None => true | Some t => i_now I + rc_min_time c <=? t end.
(** [is_capable_to_run] (single node) *)
Definition capable (I : inst) (w : worker) (rq : N) : bool :=
  has_time I w (class_of I rq) && capable_res (w_res w) (min_req I rq).
Definition blocked (w : worker) (rq : N) : bool := existsb (N.eqb rq) (w_blocked w).
(** the filter under which a placement variable is created *)
Definition placeable (I : inst) (w : worker) (rq : N) : bool :=
  negb (blocked w rq) && has_time I w (class_of I rq) && capable_res (w_free w) (min_req I rq).

(** * Batches (scheduler/batches.rs) *)

Record cut := { c_size : N; c_blockers : list (N * option N) }.
Record batch := { b_rq : N; b_cuts : list cut; b_size : N; b_limit : N; b_lr : bool; b_blk : bool }.

Definition batch_limit (I : inst) (rq : N) : N :=
  fold_right (fun w acc =>
    (if capable I w rq then
       let runnable := task_max_count_cls (w_free w) (class_of I rq) in
       if 0 <? runnable then runnable else 1
     else 0) + acc) 0 (i_workers I).

(** state of the merge loop: per class the batch and the not yet consumed (priority, size) items;
    the head of the list is [current[idx]], [[]] = [None] *)
Definition bstate := list (batch * list (N * N)).

Definition head_prio (e : batch * list (N * N)) : option N :=
  match snd e with [] => None | (p, _) :: _ => Some p end.

Definition highest_prio (st : bstate) : N :=
  fold_right (fun e acc => match head_prio e with Some p => N.max p acc | None => acc end) 0 st.

Fixpoint found_from (st : bstate) (hp : N) (i : nat) : list nat :=
  match st with
  | [] => []
  | e :: t => match head_prio e with
              | Some p => if p =? hp then i :: found_from t hp (S i) else found_from t hp (S i)
              | None => found_from t hp (S i)
              end
  end.

Definition set_size (b : batch) (s : N) (lr : bool) : batch :=
  {| b_rq := b_rq b; b_cuts := b_cuts b; b_size := s; b_limit := b_limit b; b_lr := lr; b_blk := b_blk b |}.
Definition set_blk (b : batch) : batch :=
  {| b_rq := b_rq b; b_cuts := b_cuts b; b_size := b_size b; b_limit := b_limit b; b_lr := b_lr b; b_blk := true |}.
Definition push_cut (b : batch) (c : cut) : batch :=
  {| b_rq := b_rq b; b_cuts := b_cuts b ++ [c]; b_size := b_size b; b_limit := b_limit b; b_lr := b_lr b; b_blk := b_blk b |}.
Definition set_cuts (b : batch) (cs : list cut) : batch :=
  {| b_rq := b_rq b; b_cuts := cs; b_size := b_size b; b_limit := b_limit b; b_lr := b_lr b; b_blk := b_blk b |}.

(** consume the current item of class [idx] *)
Definition advance_one (e : batch * list (N * N)) : batch * list (N * N) :=
  match snd e with
  | [] => e
  | (_, sz) :: rest =>
      let b := fst e in
      let s := b_size b + sz in
      if b_limit b <? s then (set_size b (b_limit b) true, [])
      else (set_size b s (b_lr b), rest)
  end.

Fixpoint map_at {A} (f : A -> A) (l : list A) (i : nat) : list A :=
  match l, i with
  | [], _ => []
  | x :: t, O => f x :: t
  | x :: t, S i' => x :: map_at f t i'
  end.

Fixpoint mapi_from {A B} (f : nat -> A -> B) (l : list A) (i : nat) : list B :=
  match l with [] => [] | x :: t => f i x :: mapi_from f t (S i) end.

Definition is_higher (idx : nat) (j : nat) (b : batch) : bool :=
  negb (Nat.eqb j idx) && ((0 <? b_size b) || b_lr b).

(** the blockers of a cut of class [idx]: every other class that already holds tasks (or hit its limit) *)
Definition higher_priorities (st : bstate) (idx : nat) : list (N * option N) :=
  concat (mapi_from (fun j e =>
    let b := fst e in
    if is_higher idx j b then [(b_rq b, if b_lr b then None else Some (b_size b))] else []) st 0).

Definition add_cut (st : bstate) (idx : nat) : bstate :=
  let hp := higher_priorities st idx in
  let size := match nth_error st idx with Some e => b_size (fst e) | None => 0 end in
  let st1 := mapi_from (fun j e => if is_higher idx j (fst e) then (set_blk (fst e), snd e) else e) st 0 in
  match hp with
  | [] => st1
  | _ => map_at (fun e => (push_cut (fst e) {| c_size := size; c_blockers := hp |}, snd e)) st1 idx
  end.

Fixpoint merge_loop (fuel : nat) (st : bstate) (unique : option nat) : bstate :=
  match fuel with
  | O => st
  | S fuel' =>
      let found := found_from st (highest_prio st) 0 in
      match found with
      | [] => st
      | [i] =>
          if (match unique with Some u => Nat.eqb u i | None => false end) then
            merge_loop fuel' (map_at advance_one st i) unique
          else
            merge_loop fuel' (map_at advance_one (add_cut st i) i) (Some i)
      | _ =>
          let st1 := fold_left add_cut found st in
          let st2 := fold_left (fun s i => map_at advance_one s i) found st1 in
          merge_loop fuel' st2 None
      end
  end.

(** [prune_progressive(vec, prefix, limit)]; the Rust code computes
    [round((i/(rem-1))^2 * (pool-1))] in f64; the model uses the exact rational value rounded half up
    (identical as long as the f64 error stays below the distance 1/(2(rem-1)^2) to a half integer, i.e.
    for every vector length below 2^40). *)
Fixpoint prune_indices (n : nat) (i : N) (last : N) (prefix pool rem : N) : list N :=
  match n with
  | O => []
  | S n' =>
      let d := (rem - 1) * (rem - 1) in
      let nat_idx := prefix + (2 * i * i * (pool - 1) + d) / (2 * d) in
      let idx := if nat_idx <=? last then last + 1 else nat_idx in
      idx :: prune_indices n' (i + 1) idx prefix pool rem
  end.

Fixpoint seqN (start : N) (n : nat) : list N :=
  match n with O => [] | S n' => start :: seqN (start + 1) n' end.

Definition prune_progressive {A} (v : list A) (prefix limit : N) : res (list A) :=
  if nlen v <=? limit then Ok v
  else
    let rem := limit - prefix in
    let pool := nlen v - prefix in
    let idxs := seqN 0 (N.to_nat prefix)
                ++ prune_indices (N.to_nat rem) 0 (prefix - 1) prefix pool rem in
    fold_right (fun i acc =>
      do l <- acc;
      match nth_error v (N.to_nat i) with
      | Some x => Ok (x :: l)
      | None => Panic 1701                        (* vec.swap index out of bounds *)
      end) (Ok []) idxs.

Fixpoint collect_res {A} (l : list (res A)) : res (list A) :=
  match l with
  | [] => Ok []
  | r :: t => do x <- r; do xs <- collect_res t; Ok (x :: xs)
  end.

Definition create_task_batches (I : inst) : res (list batch) :=
  let qs := filter (fun e => negb (queue_is_empty (snd e)))
                   (mapi_from (fun i q => (N.of_nat i, q)) (i_queues I) 0) in
  let st0 : bstate :=
    map (fun e => ({| b_rq := fst e; b_cuts := []; b_size := 0; b_limit := batch_limit I (fst e);
                      b_lr := false; b_blk := false |},
                   iter_priority_sizes (snd e))) qs in
  let fuel := S (fold_right (fun e acc => length (snd e) + acc)%nat O st0) in
  let st := merge_loop fuel st0 None in
  do pruned <- collect_res (map (fun e =>
      do cs <- prune_progressive (b_cuts (fst e)) SCHED_BATCH_PRUNING_FIXED_PREFIX SCHED_BATCH_PRUNING_MAX_SIZE;
      Ok (set_cuts (fst e) cs)) st);
  Ok (filter (fun b => 0 <? b_size b) pruned).

(** * Gap (scheduler/gap.rs, trivial high-priority request) *)

Fixpoint remove_assigned (I : inst) (free : rvec) (assigned : list N) (h : N) : res rvec :=
  match assigned with
  | [] => Ok free
  | rq :: t =>
      if rq =? h then remove_assigned I free t h
      else do f <- rv_remove_cls free (class_of I rq) 1; remove_assigned I f t h
  end.

Definition gap_resources (I : inst) (w : worker) (h : N) : res rvec :=
  let hc := class_of I h in
  let count := task_max_count_cls (w_res w) hc in
  do free <- rv_remove_cls (w_res w) hc count;
  remove_assigned I free (w_assigned w) h.

(** [GapCache::get_gap(h, l, w.resources, w.assigned_tasks)]; a blocker with an [All] entry has no gap *)
Definition gap (I : inst) (w : worker) (h l : N) : res N :=
  match rc_all (class_of I h) with
  | [] => do free <- gap_resources I w h; Ok (task_max_count_cls free (class_of I l))
  | _ => Ok 0
  end.

(** * The row system (scheduler/solver.rs) *)

Inductive var := VX (w rq : N) | VR (w rq : N) | VB (rq s : N).

Definition var_eqb (a b : var) : bool :=
  match a, b with
  | VX w r, VX w' r' => (w =? w') && (r =? r')
  | VR w r, VR w' r' => (w =? w') && (r =? r')
  | VB r s, VB r' s' => (r =? r') && (s =? s')
  | _, _ => false
  end.

Inductive vkind := KNat | KBool.

(** what a row says (used by the theorems; the LP only sees terms / sense / bound) *)
Inductive rkind :=
| RRes (w r : N)                       (* worker resource limit *)
| RSize (rq : N)                       (* batch size limit *)
| RBlk (h s : N)                       (* B(h,s) = 0 only if at least s tasks of h are counted *)
| RGapB (w l h cut s g : N)            (* w: if #h < s then #l <= cut + g *)
| RGapU (w l h cut g : N)              (* w: #l <= cut + g *)
| RZeroB (l h cut s : N)               (* zero-gap workers: if #h < s then #l <= cut *)
| RZeroU (l h cut : N).                (* zero-gap workers: #l <= cut *)

Record row := { r_kind : rkind; r_terms : list (var * Z); r_le : bool; r_bound : Z }.

Inductive entry := EVar (v : var) (k : vkind) (weight : Z) | ERow (r : row).

Definition sol := var -> Z.

Definition row_lhs (s : sol) (r : row) : Z := fold_right (fun t acc => (snd t * s (fst t) + acc)%Z) 0%Z (r_terms r).
Definition row_ok (s : sol) (r : row) : bool :=
  if r_le r then (row_lhs s r <=? r_bound r)%Z else (r_bound r <=? row_lhs s r)%Z.
Definition entry_ok (s : sol) (e : entry) : bool :=
  match e with
  | EVar v KNat _ => (0 <=? s v)%Z
  | EVar v KBool _ => (0 <=? s v)%Z && (s v <=? 1)%Z
  | ERow r => row_ok s r
  end.
Definition feasible (m : list entry) (s : sol) : bool := forallb (entry_ok s) m.

(** objective (maximised), scaled by the common denominator [objective_scale] *)
Definition objective (m : list entry) (s : sol) : Z :=
  fold_right (fun e acc => match e with EVar v _ wt => (wt * s v + acc)%Z | ERow _ => acc end) 0%Z m.

(** [resource_sums]: per resource the sum of the workers' free amounts *)
Definition resource_sum (I : inst) (r : N) : N :=
  fold_right (fun w acc => rv_get (w_free w) r + acc) 0 (i_workers I).

Definition prod_sums_except (I : inst) (skip : option N) : N :=
  fold_right (fun r acc =>
    if (match skip with Some k => r =? k | None => false end) then acc
    else let g := resource_sum I r in if g =? 0 then acc else g * acc) 1 (seqN 0 (N.to_nat (i_nres I))).

(** common denominator of all weights: 100 * n_workers * prod of the non-zero resource sums *)
Definition objective_scale (I : inst) : N :=
  SCHED_RESERVATION_WEIGHT_DIV * nlen (i_workers I) * prod_sums_except I None.

(** [create_sn_var] weight (request weight 1.0): sum_e amount_e/global_e * (n - w_idx) / n *)
Definition x_weight (I : inst) (w_idx : N) (rq : N) : N :=
  SCHED_RESERVATION_WEIGHT_DIV * (nlen (i_workers I) - w_idx)
  * fold_right (fun e acc =>
      (if resource_sum I (fst e) =? 0 then 0 else snd e * prod_sums_except I (Some (fst e))) + acc) 0 (req_of I rq).
(** reservation variable weight: w_idx / (n * 100) *)
Definition r_weight (I : inst) (w_idx : N) : N := w_idx * prod_sums_except I None.

Inductive pvar := PX | PR | PNone.

(** which variable the solver creates for (worker, batch) *)
Definition placement_kind (I : inst) (w : worker) (b : batch) : pvar :=
  if placeable I w (b_rq b) then PX
  else if b_blk b && capable I w (b_rq b) then PR
  else PNone.

Definition has_x (I : inst) (bs : list batch) (w : worker) (rq : N) : bool :=
  existsb (fun b => (b_rq b =? rq) && match placement_kind I w b with PX => true | _ => false end) bs.

Definition z (n : N) : Z := Z.of_N n.

(** per-worker block: the variables of the worker, then its resource rows *)
Definition worker_entries (I : inst) (bs : list batch) (w_idx : N) (w : worker) : list entry :=
  let vars := concat (map (fun b =>
      match placement_kind I w b with
      | PX => [EVar (VX (w_id w) (b_rq b)) KNat (z (x_weight (inst_on I w) w_idx (b_rq b)))]
      | PR => [EVar (VR (w_id w) (b_rq b)) KBool (z (r_weight I w_idx))]
      | PNone => []
      end) bs) in
  let res_terms (r : N) : list (var * Z) :=
    concat (map (fun b =>
      match placement_kind I w b with
      | PX => concat (map (fun e => if fst e =? r then [(VX (w_id w) (b_rq b), z (snd e))] else []) (req_of (inst_on I w) (b_rq b)))
      | PR => if 0 <? rv_get (w_free w) r then [(VR (w_id w) (b_rq b), z (rv_get (w_free w) r))] else []
      | PNone => []
      end) bs) in
  let rows := concat (map (fun r =>
      match res_terms r with
      | [] => []
      | ts => [ERow {| r_kind := RRes (w_id w) r; r_terms := ts; r_le := true; r_bound := z (rv_get (w_free w) r) |}]
      end) (seqN 0 (N.to_nat (i_nres I)))) in
  vars ++ rows.

(** [tasks_count_vars[rq]] *)
Definition count_vars (I : inst) (bs : list batch) (rq : N) : list var :=
  concat (map (fun w =>
    concat (map (fun b =>
      if b_rq b =? rq then
        match placement_kind I w b with
        | PX => [VX (w_id w) rq]
        | PR => [VR (w_id w) rq]
        | PNone => []
        end
      else []) bs)) (i_workers I)).

Definition ones (vs : list var) : list (var * Z) := map (fun v => (v, 1%Z)) vs.

(** second phase: rows that still need the lazily created blocker variables *)
Inductive item :=
| ISize (rq size : N)
| IGapB (w l h cut s g bsize : N) (vars : list var)
| IGapU (w l h cut g : N) (vars : list var)
| IZeroB (l h cut s bsize : N) (vars : list var)
| IZeroU (l h cut : N) (vars : list var).

(** per (cut, blocker): the per-worker gap items and the zero-gap condition *)
Fixpoint blocker_items (I : inst) (bs : list batch) (b : batch) (c : cut) (h : N) (bsz : option N)
         (has_bvar : bool) (ws : list worker) (zero : list var) : res (list item * list var) :=
  match ws with
  | [] => Ok ([], zero)
  | w :: t =>
      if capable I w h then
        do g <- gap I w h (b_rq b);
        let vars := if has_x I bs w (b_rq b) then [VX (w_id w) (b_rq b)] else [] in
        if 0 <? g then
          do r <- blocker_items I bs b c h bsz has_bvar t zero;
          let it := match bsz with
                    | Some s => if has_bvar then [IGapB (w_id w) (b_rq b) h (c_size c) s g (b_size b) vars] else []
                    | None => [IGapU (w_id w) (b_rq b) h (c_size c) g vars]
                    end in
          Ok (it ++ fst r, snd r)
        else blocker_items I bs b c h bsz has_bvar t (zero ++ vars)
      else blocker_items I bs b c h bsz has_bvar t zero
  end.

Fixpoint cut_items (I : inst) (bs : list batch) (b : batch) (c : cut) (bl : list (N * option N)) (seen : list N)
  : res (list item * list N) :=
  match bl with
  | [] => Ok ([], seen)
  | (h, bsz) :: t =>
      let has_bvar := match count_vars I bs h with [] => false | _ => true end in
      do r <- blocker_items I bs b c h bsz has_bvar (i_workers I) [];
      let '(its, zero) := r in
      let '(zitem, seen') :=
        match zero with
        | [] => ([], seen)
        | _ => match bsz with
               | Some s => (if has_bvar then [IZeroB (b_rq b) h (c_size c) s (b_size b) zero] else [], seen)
               | None => if existsb (N.eqb h) seen then ([], seen)
                         else ([IZeroU (b_rq b) h (c_size c) zero], h :: seen)
               end
        end in
      do r2 <- cut_items I bs b c t seen';
      Ok (its ++ zitem ++ fst r2, snd r2)
  end.

Fixpoint cuts_items (I : inst) (bs : list batch) (b : batch) (cs : list cut) (seen : list N) : res (list item) :=
  match cs with
  | [] => Ok []
  | c :: t =>
      do r <- cut_items I bs b c (c_blockers c) seen;
      do r2 <- cuts_items I bs b t (snd r);
      Ok (fst r ++ r2)
  end.

Definition batch_items (I : inst) (bs : list batch) (b : batch) : res (list item) :=
  match count_vars I bs (b_rq b) with
  | [] => Ok []
  | _ =>
      do its <- cuts_items I bs b (b_cuts b) [];
      Ok ((if b_lr b then [] else [ISize (b_rq b) (b_size b)]) ++ its)
  end.

Definition blk_row (I : inst) (bs : list batch) (h s : N) : row :=
  {| r_kind := RBlk h s; r_terms := ones (count_vars I bs h) ++ [(VB h s, z s)]; r_le := false; r_bound := z s |}.

Definition item_bvar (it : item) : option (N * N) :=
  match it with
  | IGapB _ _ h _ s _ _ _ => Some (h, s)
  | IZeroB _ h _ s _ _ => Some (h, s)
  | _ => None
  end.

Definition item_row (I : inst) (bs : list batch) (it : item) : row :=
  match it with
  | ISize rq size =>
      {| r_kind := RSize rq; r_terms := ones (count_vars I bs rq); r_le := true; r_bound := z size |}
  | IGapB w l h cut s g bsize vars =>
      {| r_kind := RGapB w l h cut s g; r_terms := ones vars ++ [(VB h s, z bsize)]; r_le := true;
         r_bound := z (cut + bsize + g) |}
  | IGapU w l h cut g vars =>
      {| r_kind := RGapU w l h cut g; r_terms := ones vars; r_le := true; r_bound := z (cut + g) |}
  | IZeroB l h cut s bsize vars =>
      {| r_kind := RZeroB l h cut s; r_terms := ones vars ++ [(VB h s, z bsize)]; r_le := true;
         r_bound := z (bsize + cut) |}
  | IZeroU l h cut vars =>
      {| r_kind := RZeroU l h cut; r_terms := ones vars; r_le := true; r_bound := z cut |}
  end.

Definition pair_mem (p : N * N) (l : list (N * N)) : bool :=
  existsb (fun q => (fst q =? fst p) && (snd q =? snd p)) l.

(** emission: a blocker variable (and its row) is created at its first use *)
Fixpoint emit (I : inst) (bs : list batch) (created : list (N * N)) (its : list item) : list entry :=
  match its with
  | [] => []
  | it :: t =>
      match item_bvar it with
      | Some hs =>
          if pair_mem hs created then ERow (item_row I bs it) :: emit I bs created t
          else EVar (VB (fst hs) (snd hs)) KBool 0%Z :: ERow (blk_row I bs (fst hs) (snd hs))
               :: ERow (item_row I bs it) :: emit I bs (hs :: created) t
      | None => ERow (item_row I bs it) :: emit I bs created t
      end
  end.

Definition all_items (I : inst) (bs : list batch) : res (list item) :=
  do l <- collect_res (map (batch_items I bs) bs); Ok (concat l).

(** the exact list of variables and rows built for the batches [bs] *)
Definition milp_of (I : inst) (bs : list batch) : res (list entry) :=
  do its <- all_items I bs;
  Ok (concat (mapi_from (fun i w => worker_entries I bs (N.of_nat i) w) (i_workers I) 0) ++ emit I bs [] its).

(** * Dispatch (scheduler/mapping.rs) *)

Definition sol_x (s : sol) (w rq : N) : N := Z.to_N (s (VX w rq)).

(** number of tasks of class [rq] the solution places = argument of [take_tasks] *)
Definition placed_total (I : inst) (bs : list batch) (s : sol) (rq : N) : N :=
  fold_right (fun w acc => (if has_x I bs w rq then sol_x s (w_id w) rq else 0) + acc) 0 (i_workers I).

Record dtask := { t_id : N; t_rq : N; t_prio : N }.

(** all ready tasks of the instance, with class and priority *)
Definition ready_tasks (I : inst) : list dtask :=
  concat (mapi_from (fun i q =>
    concat (map (fun e => map (fun id => {| t_id := id; t_rq := N.of_nat i; t_prio := fst e |}) (snd e)) (q_ready q)))
    (i_queues I) 0).

Definition find_task (ts : list dtask) (id : N) : option dtask := find (fun t => t_id t =? id) ts.

Definition dispatch := list (N * N).     (* (task, worker) *)

Definition count_on (I : inst) (d : dispatch) (w rq : N) : N :=
  nlen (filter (fun p => (snd p =? w) &&
                  match find_task (ready_tasks I) (fst p) with Some t => t_rq t =? rq | None => false end) d).

Fixpoint sorted_insert (x : N) (l : list N) : list N :=
  match l with [] => [x] | y :: t => if x <=? y then x :: l else y :: sorted_insert x t end.
Definition sortN (l : list N) : list N := fold_right sorted_insert [] l.

Fixpoint list_eqb (a b : list N) : bool :=
  match a, b with
  | [], [] => true
  | x :: a', y :: b' => (x =? y) && list_eqb a' b'
  | _, _ => false
  end.

(** [create_task_mapping] hands the tasks popped by [take_tasks(sum)] to the workers round-robin in
    hash-map order; the dispatch is therefore a witness.  It is accepted iff for every class the set of
    dispatched tasks is exactly what [take_tasks] pops and every worker gets the solved count. *)
Definition mapping_ok (I : inst) (bs : list batch) (s : sol) (d : dispatch) : bool :=
  forallb (fun b =>
    let rq := b_rq b in
    match take_tasks (nth (N.to_nat rq) (i_queues I) empty_queue) (placed_total I bs s rq) with
    | Ok (taken, _) =>
        list_eqb (sortN taken)
                 (sortN (map fst (filter (fun p => match find_task (ready_tasks I) (fst p) with
                                                   | Some t => t_rq t =? rq | None => false end) d)))
        && forallb (fun w => count_on I d (w_id w) rq =? (if has_x I bs w rq then sol_x s (w_id w) rq else 0)) (i_workers I)
    | _ => false
    end) bs
  && forallb (fun p => match find_task (ready_tasks I) (fst p) with
                       | Some t => existsb (fun b => b_rq b =? t_rq t) bs | None => false end) d.

(** free resources of a worker after the dispatch (checked subtraction: [None] = overbooked) *)
Fixpoint rv_sub_checked (v : rvec) (rq : request) : option rvec :=
  match rq with
  | [] => Some v
  | (r, a) :: t =>
      if Nat.ltb (N.to_nat r) (length v) && (a <=? rv_get v r) then rv_sub_checked (rv_set v (N.to_nat r) (rv_get v r - a)) t
      else None
  end.

Fixpoint sub_all (I : inst) (v : rvec) (rqs : list N) : option rvec :=
  match rqs with
  | [] => Some v
  | rq :: t => match rv_sub_checked v (req_of I rq) with Some v' => sub_all I v' t | None => None end
  end.

Definition free_after (I : inst) (d : dispatch) (w : worker) : option rvec :=
  sub_all (inst_on I w) (w_free w)
    (concat (map (fun p => if snd p =? w_id w then
                             match find_task (ready_tasks I) (fst p) with Some t => [t_rq t] | None => [] end
                           else []) d)).

(** * The property: priority inversion (C15) *)

Definition dispatched (d : dispatch) (id : N) : bool := existsb (fun p => fst p =? id) d.

(** [u] would fit on [w] once the tasks dispatched to [w] in this decision with priority lower than
    [u]'s are left out *)
Definition fits_without_lower (I : inst) (d : dispatch) (w : worker) (u : dtask) : bool :=
  let keep := concat (map (fun p =>
      if snd p =? w_id w then
        match find_task (ready_tasks I) (fst p) with
        | Some t => if t_prio u <=? t_prio t then [t_rq t] else []
        | None => []
        end
      else []) d) in
  match sub_all (inst_on I w) (w_free w) keep with
  | Some v => capable_res v (req_of (inst_on I w) (t_rq u))
  | None => false
  end.

(** the exception of the statement: another worker could run [u] but is currently too busy to start it *)
Definition waits_for_busy (I : inst) (w : worker) (u : dtask) : bool :=
  existsb (fun w' => negb (w_id w' =? w_id w) && capable I w' (t_rq u) && negb (blocked w' (t_rq u))
                     && negb (capable_res (w_free w') (req_of (inst_on I w') (t_rq u)))) (i_workers I).

Definition find_worker (I : inst) (id : N) : option worker := find (fun w => w_id w =? id) (i_workers I).

(** the witnesses (dispatched task, its worker, waiting higher-priority task) of an inversion *)
Definition inversions (I : inst) (d : dispatch) : list (dtask * worker * dtask) :=
  let ready := ready_tasks I in
  concat (map (fun p =>
    match find_task ready (fst p), find_worker I (snd p) with
    | Some t, Some w =>
        concat (map (fun u =>
          if negb (dispatched d (t_id u)) && (t_prio t <? t_prio u)
             && negb (blocked w (t_rq u)) && capable I w (t_rq u)
             && fits_without_lower I d w u && negb (waits_for_busy I w u)
          then [(t, w, u)] else []) ready)
    | _, _ => []
    end) d).

Definition inversion (I : inst) (d : dispatch) : bool :=
  match inversions I d with [] => false | _ => true end.

(** * Tight rows and the classification of inversions *)

Definition count_of (I : inst) (bs : list batch) (s : sol) (h : N) : Z :=
  fold_right (fun v acc => (s v + acc)%Z) 0%Z (count_vars I bs h).

(** blocker [(h, bsz)] is unsatisfied in [s] (then the cut is in force) *)
Definition blocker_open (I : inst) (bs : list batch) (s : sol) (hb : N * option N) : bool :=
  match snd hb with
  | None => true
  | Some sz => match count_vars I bs (fst hb) with [] => false | _ => (count_of I bs s (fst hb) <? z sz)%Z end
  end.

Definition gap_or0 (I : inst) (w : worker) (h l : N) : N :=
  match gap I w h l with Ok g => g | _ => 0 end.

Definition placed (I : inst) (bs : list batch) (s : sol) (w : worker) (rq : N) : N :=
  if has_x I bs w rq then sol_x s (w_id w) rq else 0.

(** tight row K1 for (low class l, cut, blocker h): the cut budget is shared by all workers where h may
    run: sum_w max(0, x[w,l] - gap(w)) <= cut *)
Definition k1_excess (I : inst) (bs : list batch) (s : sol) (l h : N) : N :=
  fold_right (fun w acc => (if capable I w h then placed I bs s w l - gap_or0 I w h l else 0) + acc) 0 (i_workers I).
Definition k1_violated (I : inst) (bs : list batch) (s : sol) (l cut h : N) : bool :=
  cut <? k1_excess I bs s l h.

(** the smallest cut of class [l] whose blocker [h] is unsatisfied *)
Definition open_cut (I : inst) (bs : list batch) (s : sol) (l h : N) : option N :=
  match find (fun b => b_rq b =? l) bs with
  | None => None
  | Some b =>
      list_min (concat (map (fun c =>
        if existsb (fun hb => (fst hb =? h) && blocker_open I bs s hb) (c_blockers c) then [c_size c] else [])
        (b_cuts b)))
  end.

Fixpoint rv_add_scaled (acc : rvec) (rq : request) (n : N) : rvec :=
  match rq with
  | [] => acc
  | (r, a) :: t => rv_add_scaled (rv_set acc (N.to_nat r) (rv_get acc r + a * n)) t n
  end.

Definition rv_le (a b : rvec) : bool :=
  forallb (fun i => rv_get a i <=? rv_get b i) (seqN 0 (length a)).

(** tight row K2 for (worker w, blocker h): what the low classes place on w beyond their cuts shares
    the capacity h can never use: sum_l rq_l * max(0, x[w,l] - cut_l) <= gap_resources(w,h) *)
Definition k2_violated (I : inst) (bs : list batch) (s : sol) (w : worker) (h : N) : bool :=
  match gap_resources I w h with
  | Ok g =>
      let used := fold_right (fun b acc =>
          if b_rq b =? h then acc
          else match open_cut I bs s (b_rq b) h with
               | Some c => rv_add_scaled acc (req_of (inst_on I w) (b_rq b)) (placed I bs s w (b_rq b) - c)
               | None => acc
               end) (map (fun _ => 0) g) bs in
      negb (rv_le used g)
  | _ => false
  end.

(** ** K3: the task -> worker assignment inside a class is not priority aware

    [create_task_mapping] hands the tasks popped by [take_tasks] to the workers round-robin in hash-map
    order, so which priorities land on which worker is arbitrary, while the cut rows reason as if the
    tasks before the cut went where the blocker may run and the tasks behind the cut into the gaps / onto
    the other workers.  An inversion is attributed to the mapping iff some other assignment with the SAME
    counts per (class, worker) has no inversion; the candidates are the "sorted fills": per class a
    worker order along which the popped tasks are handed out in priority order. *)

Fixpoint insert_all {A} (x : A) (l : list A) : list (list A) :=
  match l with
  | [] => [[x]]
  | y :: t => (x :: l) :: map (cons y) (insert_all x t)
  end.

Fixpoint perms {A} (l : list A) : list (list A) :=
  match l with
  | [] => [[]]
  | x :: t => concat (map (insert_all x) (perms t))
  end.

Fixpoint fill (tasks : list N) (order : list (N * N)) : dispatch :=
  match order with
  | [] => []
  | (w, c) :: t => map (fun id => (id, w)) (firstn (N.to_nat c) tasks) ++ fill (skipn (N.to_nat c) tasks) t
  end.

Definition class_fills (I : inst) (bs : list batch) (s : sol) (rq : N) : list dispatch :=
  let total := placed_total I bs s rq in
  if total =? 0 then [[]]
  else match take_tasks (nth (N.to_nat rq) (i_queues I) empty_queue) total with
       | Ok (taken, _) =>
           map (fun ord => fill taken (map (fun w => (w_id w, placed I bs s w rq)) ord)) (perms (i_workers I))
       | _ => []
       end.

Definition alt_dispatches (I : inst) (bs : list batch) (s : sol) : list dispatch :=
  fold_right (fun fills acc => concat (map (fun f => map (fun a => f ++ a) acc) fills)) [[]]
             (map (fun b => class_fills I bs s (b_rq b)) bs).

(** the waiting task [u] has no inversion under some other assignment of the same counts *)
Definition k3_mapping (I : inst) (bs : list batch) (s : sol) (u : dtask) : bool :=
  existsb (fun d' => forallb (fun x => negb (t_id (snd x) =? t_id u)) (inversions I d')) (alt_dispatches I bs s).

(** ** K4: the gap ignores what the same decision places on the worker

    The row [x[w,l] <= cut + gap(w)] takes [gap(w)] from the worker's total resources and its running
    tasks: what the blocker can never use if ONLY blocker tasks are packed on [w].  The tasks the same
    decision places on [w] that stay (priority >= the waiting task's: tasks of the low class before the
    cut, tasks of other classes) shift that packing, so the real gap next to them is smaller.
    For the event (worker w, waiting task u of class h): [kept] = requests of the tasks dispatched to [w]
    with priority >= u's; the lower-priority tasks on [w] do not fit into what the maximal packing of
    [h] leaves next to [kept], and for one of their classes the gap next to [kept] is smaller than the
    gap the rows granted. *)

Definition dispatched_on (I : inst) (d : dispatch) (w : worker) : list dtask :=
  concat (map (fun p => if snd p =? w_id w then
                          match find_task (ready_tasks I) (fst p) with Some t => [t] | None => [] end
                        else []) d).

Definition lows_on (I : inst) (d : dispatch) (w : worker) (u : dtask) : list dtask :=
  filter (fun t => t_prio t <? t_prio u) (dispatched_on I d w).
Definition kept_on (I : inst) (d : dispatch) (w : worker) (u : dtask) : list dtask :=
  filter (fun t => t_prio u <=? t_prio t) (dispatched_on I d w).

(** [gap] recomputed next to the kept tasks *)
Definition gap_next_to (I : inst) (w : worker) (kept : list N) (h l : N) : N :=
  match sub_all (inst_on I w) (w_res w) kept with
  | Some base =>
      let hr := req_of (inst_on I w) h in
      match rv_remove_multiple base hr (task_max_count base hr) with
      | Ok f1 => match remove_assigned I f1 (w_assigned w) h with
                 | Ok f2 => task_max_count f2 (req_of (inst_on I w) l)
                 | _ => 0
                 end
      | _ => 0
      end
  | None => 0
  end.

Definition k4_event (I : inst) (d : dispatch) (w : worker) (u : dtask) : bool :=
  let h := t_rq u in
  let kept := map t_rq (kept_on I d w u) in
  let lows := map t_rq (lows_on I d w u) in
  match sub_all (inst_on I w) (w_free w) kept with
  | Some base =>
      let hr := req_of (inst_on I w) h in
      match rv_remove_multiple base hr (task_max_count base hr) with
      | Ok room =>
          (match sub_all (inst_on I w) room lows with Some _ => false | None => true end)
          && existsb (fun l => gap_next_to I w kept h l <? gap_or0 I w h l) lows
      | _ => false
      end
  | None => false
  end.

(** counts-level form of K4 for (low class l, cut, blocker h): there is no split of the low class' tasks
    on the workers where h may run into at most [cut] tasks "before the cut" and a rest that fits into
    the gap left NEXT TO those tasks *)
Definition gap_with_highs (I : inst) (w : worker) (h l zh : N) : N :=
  match rv_remove_multiple (w_res w) (req_of (inst_on I w) l) zh with
  | Ok base =>
      let hr := req_of (inst_on I w) h in
      match rv_remove_multiple base hr (task_max_count base hr) with
      | Ok f1 => match remove_assigned I f1 (w_assigned w) h with
                 | Ok f2 => task_max_count f2 (req_of (inst_on I w) l)
                 | _ => 0
                 end
      | _ => 0
      end
  | _ => 0
  end.

Fixpoint min_highs (fuel : nat) (I : inst) (w : worker) (h l x zh : N) : N :=
  match fuel with
  | O => x
  | S f => if x - zh <=? gap_with_highs I w h l zh then zh else min_highs f I w h l x (zh + 1)
  end.

Definition k4_needed (I : inst) (bs : list batch) (s : sol) (l h : N) : N :=
  fold_right (fun w acc =>
    (if capable I w h then
       let x := placed I bs s w l in min_highs (S (N.to_nat x)) I w h l x 0
     else 0) + acc) 0 (i_workers I).
Definition k4_violated (I : inst) (bs : list batch) (s : sol) (l cut h : N) : bool :=
  cut <? k4_needed I bs s l h.

(** ** K5: held back for a blocker that is not placed

    The waiting task [u] fits on [w] even NEXT TO everything the decision dispatched there: nothing took
    its place; it is held back by a cut of its own class (room kept for a still higher-priority class
    that is not placed in this decision) while a lower-priority task of another class is not restrained
    by that blocker. *)
Definition k5_event (I : inst) (d : dispatch) (w : worker) (u : dtask) : bool :=
  match free_after I d w with
  | Some v => capable_res v (req_of (inst_on I w) (t_rq u))
  | None => false
  end.

(** the same under some other assignment of the same counts: used when NO assignment avoids the inversion
    of [u] (K3 fails), i.e. the counts themselves are at fault *)
Definition k4_any (I : inst) (bs : list batch) (s : sol) (u : dtask) : bool :=
  existsb (fun d' =>
    existsb (fun x => (t_id (snd x) =? t_id u) && k4_event I d' (snd (fst x)) (snd x)) (inversions I d'))
    (alt_dispatches I bs s).

Inductive verdict := VK1 | VK2 | VK3 | VK4 | VK5 | VUnclassified.

(** classification of one inversion witness (t on w, waiting u): the event is (w, u); every class with
    lower-priority tasks on w is a candidate low class *)
Definition classify (I : inst) (bs : list batch) (s : sol) (d : dispatch) (x : dtask * worker * dtask) : verdict :=
  let '(_, w, u) := x in
  let h := t_rq u in
  let low_classes := map t_rq (lows_on I d w u) in
  let some_low (f : N -> N -> bool) :=
    existsb (fun l => match open_cut I bs s l h with Some c => f l c | None => false end) low_classes in
  if k5_event I d w u then VK5
  else if some_low (fun l c => k1_violated I bs s l c h) then VK1
  else if k2_violated I bs s w h then VK2
  else if some_low (fun l c => k4_violated I bs s l c h) then VK4
  else if k3_mapping I bs s u then VK3
  else if k4_event I d w u || k4_any I bs s u then VK4
  else VUnclassified.

(** * C05 on multi-variant request classes: check of a placement decision

    The row-system model above covers single-variant classes.  For classes with several variants (each
    with its own resources and [min_time]) the model does not rebuild the rows; it CHECKS the decision of
    the implementation, placement by placement, against the filter under which [run_scheduling_solver]
    may create the placement variable x[w, rq, variant]:
    [!worker.is_request_blocked(rq, variant) && worker.has_time_to_run(variant.min_time(), now)
     && worker.have_immediate_resources_for_rq(variant)], and against overbooking of the worker. *)

Record variant := { v_entries : request; v_min_time : N; v_all : list N }.
Record vworker := { vw_id : N; vw_res : rvec; vw_free : rvec; vw_term : option N; vw_blocked : list (N * N) }.

(** demand of a variant on a worker: an [All] entry is the worker's total of that resource *)
Definition v_demand (w : vworker) (v : variant) : request :=
  v_entries v ++ map (fun r => (r, rv_get (vw_res w) r)) (v_all v).

Definition variant_of (classes : list (list variant)) (rq vi : N) : option variant :=
  nth_error (nth (N.to_nat rq) classes []) (N.to_nat vi).

Inductive verror := VNoVariant | VBlocked | VNoTime | VNoResources.

(** errors of one placement of (class [rq], variant [vi]) on [w] *)
Definition vplace_errors (now : N) (classes : list (list variant)) (w : vworker) (rq vi : N) : list verror :=
  match variant_of classes rq vi with
  | None => [VNoVariant]
  | Some v =>
      (if existsb (fun p => (fst p =? rq) && (snd p =? vi)) (vw_blocked w) then [VBlocked] else [])
      ++ (match vw_term w with
          | Some t => if now + v_min_time v <=? t then [] else [VNoTime]
          | None => []
          end)
      (* the demand fits the free resources; an [All] resource must exist and be entirely free *)
      ++ (if capable_res (vw_free w) (v_demand w v) && forallb (fun r => 0 <? rv_get (vw_res w) r) (v_all v)
          then [] else [VNoResources])
  end.

(** free resources after the placements [(rq, variant)] on one worker; [None] = overbooked *)
Fixpoint vfree_after (classes : list (list variant)) (w : vworker) (free : rvec) (ps : list (N * N)) : option rvec :=
  match ps with
  | [] => Some free
  | (rq, vi) :: t =>
      match variant_of classes rq vi with
      | Some v => match rv_sub_checked free (v_demand w v) with
                  | Some f => vfree_after classes w f t
                  | None => None
                  end
      | None => None
      end
  end.

Definition vdecision_ok (now : N) (classes : list (list variant)) (w : vworker) (ps : list (N * N)) : bool :=
  forallb (fun p => match vplace_errors now classes w (fst p) (snd p) with [] => true | _ => false end) ps
  && match vfree_after classes w (vw_free w) ps with Some _ => true | None => false end.
