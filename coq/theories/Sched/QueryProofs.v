(** Theorems about the demand side of automatic allocation (C17): [Sched.Query], the model of
    [compute_new_worker_query] / [new_worker_query].  All statements are for EVERY state, EVERY list of
    queries and EVERY solver answer (for the bounds by the number of waiting tasks: every answer accepted by
    the checker [query_sol_ok]).

    - [query_response_length]          one count per query (or the documented empty / error answer)
    - [query_no_candidates_no_demand]  no waiting single-node class has a placement variable on the fake
                                       workers of query i  ->  count i = 0
    - [class_fits_time] / [class_fits_resources]   what "has a placement variable" means
    - [query_count_le_max]             count i <= max_sn_workers i
    - [query_total_le_waiting]         sum of the counts <= number of waiting single-node tasks
    - [query_count_le_fitting]         count i <= number of waiting tasks of the classes that fit query i
    - [query_only_fake_ids]            only fake workers (ids above the worker counter) are counted
    - [mn_entry_sound] / [mn_entry_complete] / [mn_no_admissible_no_entry] / [mn_sorted]
    - [batches_inv]                    (auxiliary) every batch holds between 1 and #waiting tasks of its class. *)
From HQ Require Import Base.Prelude Gen.Consts Sched.Model Sched.ProofsRows Sched.ProofsCuts Sched.Query.
Require Import ZifyBool ZifyN ZifyNat.
Require Import Sorting.Sorted Sorting.Permutation.
Open Scope N_scope.
Arguments N.add : simpl never. Arguments N.sub : simpl never. Arguments N.mul : simpl never.
Arguments N.eqb : simpl never. Arguments N.ltb : simpl never. Arguments N.leb : simpl never.
Arguments N.of_nat : simpl never. Arguments N.to_nat : simpl never. Arguments N.div : simpl never.
Arguments N.max : simpl never. Arguments N.min : simpl never.
Arguments Z.of_N : simpl never. Arguments Z.mul : simpl never. Arguments Z.add : simpl never.

(** * Batches: sizes are bounded by the number of waiting tasks *)

Definition ent_inv (I : inst) (e : batch * list (N * N)) : Prop :=
  b_limit (fst e) = batch_limit I (b_rq (fst e))
  /\ b_size (fst e) + sum_sizes (snd e) <= waiting_of I (b_rq (fst e))
  /\ (b_lr (fst e) = true -> b_limit (fst e) <= waiting_of I (b_rq (fst e))).

Lemma Forall_map_at : forall {A} (P : A -> Prop) f l i,
  (forall x, P x -> P (f x)) -> Forall P l -> Forall P (map_at f l i).
Proof.
  intros A P f l. induction l as [|x t IH]; intros i Hf H; destruct i; simpl; auto;
    inversion H; subst; constructor; auto.
Qed.

Lemma Forall_mapi_from : forall {A} (P : A -> Prop) (f : nat -> A -> A) l i,
  (forall j x, P x -> P (f j x)) -> Forall P l -> Forall P (mapi_from f l i).
Proof.
  intros A P f l. induction l as [|x t IH]; intros i Hf H; simpl; auto.
  inversion H; subst. constructor; auto.
Qed.

Lemma advance_one_inv : forall I e, ent_inv I e -> ent_inv I (advance_one e).
Proof.
  intros I [b l] (H1 & H2 & H3). unfold advance_one. simpl in *.
  destruct l as [|[p sz] rest]; [repeat split; assumption|].
  unfold sum_sizes in H2. simpl in H2. fold (sum_sizes rest) in H2.
  destruct (b_limit b <? b_size b + sz) eqn:E; unfold ent_inv; simpl.
  - repeat split; [assumption|unfold sum_sizes; simpl; lia|intros _; lia].
  - repeat split; [assumption|lia|assumption].
Qed.

Lemma add_cut_inv : forall I st i, Forall (ent_inv I) st -> Forall (ent_inv I) (add_cut st i).
Proof.
  intros I st i H. unfold add_cut.
  set (st1 := mapi_from _ st 0).
  assert (H1 : Forall (ent_inv I) st1).
  { apply Forall_mapi_from; [|assumption]. intros j e He. destruct (is_higher i j (fst e)); [|assumption].
    destruct e as [b0 l0]. exact He. }
  destruct (higher_priorities st i); [assumption|].
  apply Forall_map_at; [|assumption]. intros [b0 l0] He. exact He.
Qed.

Lemma merge_loop_inv : forall I fuel st u, Forall (ent_inv I) st -> Forall (ent_inv I) (merge_loop fuel st u).
Proof.
  intros I. induction fuel as [|fuel IH]; intros st u H; simpl; [assumption|].
  destruct (found_from st (highest_prio st) 0) as [|i [|j rest]] eqn:E; [assumption| |].
  - destruct (match u with Some u0 => Nat.eqb u0 i | None => false end).
    + apply IH. apply Forall_map_at; [apply advance_one_inv|assumption].
    + apply IH. apply Forall_map_at; [apply advance_one_inv|]. apply add_cut_inv. assumption.
  - apply IH.
    assert (Ha : forall l s0, Forall (ent_inv I) s0 -> Forall (ent_inv I) (fold_left (fun s i => map_at advance_one s i) l s0)).
    { induction l as [|a l IHl]; intros s0 Hs; simpl; [assumption|]. apply IHl. apply Forall_map_at; [apply advance_one_inv|assumption]. }
    assert (Hc : forall l s0, Forall (ent_inv I) s0 -> Forall (ent_inv I) (fold_left add_cut l s0)).
    { induction l as [|a l IHl]; intros s0 Hs; simpl; [assumption|]. apply IHl. apply add_cut_inv. assumption. }
    apply Ha. apply Hc. assumption.
Qed.

Lemma collect_res_Forall : forall {A B} (f : A -> res B) (Q : A -> Prop) (P : B -> Prop) l out,
  (forall a b, Q a -> f a = Ok b -> P b) -> Forall Q l -> collect_res (map f l) = Ok out -> Forall P out.
Proof.
  intros A B f Q P. induction l as [|a t IH]; intros out Hf HQ H; simpl in H.
  - inversion H. constructor.
  - destruct (f a) as [b| |] eqn:E; simpl in H; try discriminate.
    destruct (collect_res (map f t)) as [bs| |] eqn:E2; simpl in H; try discriminate.
    inversion H; subst. inversion HQ; subst. constructor; [eapply Hf; eauto|eapply IH; eauto].
Qed.

(** what holds of every batch [create_task_batches] returns *)
Definition batch_inv (I : inst) (b : batch) : Prop :=
  0 < b_size b
  /\ b_limit b = batch_limit I (b_rq b)
  /\ b_size b <= waiting_of I (b_rq b)
  /\ (b_lr b = true -> b_limit b <= waiting_of I (b_rq b)).

Lemma batches_inv : forall I bs, create_task_batches I = Ok bs -> Forall (batch_inv I) bs.
Proof.
  intros I bs H. unfold create_task_batches in H.
  set (qs := filter _ _) in H. set (st0 := map _ qs) in H.
  set (st := merge_loop _ st0 None) in H.
  destruct (collect_res _) as [pruned| |] eqn:E; simpl in H; try discriminate. inversion H; subst. clear H.
  assert (H0 : Forall (ent_inv I) st0).
  { unfold st0. apply Forall_forall. intros e He. apply in_map_iff in He. destruct He as ([i q] & <- & Hq).
    unfold qs in Hq. apply filter_In in Hq. destruct Hq as [Hq _].
    apply mapi_from_in in Hq. destruct Hq as (k & a & Hk & Heq). inversion Heq; subst.
    unfold ent_inv. simpl. repeat split; [|discriminate].
    unfold waiting_of, queue_total. rewrite Nnat.Nat2N.id.
    rewrite (nth_error_nth _ _ empty_queue Hk). lia. }
  assert (H1 : Forall (ent_inv I) st) by (apply merge_loop_inv; assumption).
  assert (H2 : Forall (fun b => b_limit b = batch_limit I (b_rq b) /\ b_size b <= waiting_of I (b_rq b)
                                /\ (b_lr b = true -> b_limit b <= waiting_of I (b_rq b))) pruned).
  { eapply collect_res_Forall; [|exact H1|exact E].
    intros [b l] b' (Ha & Hb & Hc) Hf. simpl in *.
    destruct (prune_progressive _ _ _); simpl in Hf; try discriminate. inversion Hf; subst. simpl.
    repeat split; [assumption|lia|assumption]. }
  apply Forall_forall. intros b Hb. apply filter_In in Hb. destruct Hb as [Hb Hs].
  rewrite Forall_forall in H2. destruct (H2 b Hb) as (Ha & Hb' & Hc).
  unfold batch_inv. repeat split; try assumption. lia.
Qed.

(** * Fake workers *)

Lemma seqN_length : forall n s, length (seqN s n) = n.
Proof. induction n as [|n IH]; intros s; simpl; [reflexivity|]. rewrite IH. reflexivity. Qed.

Lemma fake_groups_length : forall nres now qs next, length (fake_groups nres now qs next) = length qs.
Proof. intros nres now. induction qs as [|q t IH]; intros next; simpl; [reflexivity|]. rewrite IH. reflexivity. Qed.

Lemma fake_groups_nth : forall nres now qs next i q,
  nth_error qs i = Some q ->
  exists base, next <= base
    /\ nth_error (fake_groups nres now qs next) i
       = Some (map (fake_worker nres now q) (seqN base (N.to_nat (wq_max_sn q)))).
Proof.
  intros nres now. induction qs as [|q0 t IH]; intros next i q H; destruct i; simpl in H; try discriminate.
  - inversion H; subst. exists next. split; [lia|reflexivity].
  - destruct (IH (next + wq_max_sn q0) i q H) as (base & Hb & Hn). exists base. split; [lia|exact Hn].
Qed.

(** ids of the fake workers: above [next - 1] *)
Lemma fake_groups_ids : forall nres now qs next w,
  In w (concat (fake_groups nres now qs next)) -> next <= w_id w.
Proof.
  intros nres now. induction qs as [|q t IH]; intros next w H; simpl in H; [contradiction|].
  apply in_app_or in H. destruct H as [H|H].
  - apply in_map_iff in H. destruct H as (id & <- & Hid). simpl. apply seqN_in in Hid. lia.
  - apply IH in H. lia.
Qed.

Lemma fake_free_res : forall nres now q id, w_free (fake_worker nres now q id) = w_res (fake_worker nres now q id).
Proof. reflexivity. Qed.

Lemma fake_groups_free : forall nres now qs next w,
  In w (concat (fake_groups nres now qs next)) -> w_free w = w_res w /\ w_blocked w = [].
Proof.
  intros nres now. induction qs as [|q t IH]; intros next w H; simpl in H; [contradiction|].
  apply in_app_or in H. destruct H as [H|H]; [|eapply IH; eauto].
  apply in_map_iff in H. destruct H as (id & <- & _). split; reflexivity.
Qed.

(** the placement filter does not look at the worker's id *)
Lemma placeable_fake_id : forall I nres now q id rq,
  placeable I (fake_worker nres now q id) rq = placeable I (fake_worker nres now q 0) rq.
Proof. reflexivity. Qed.

(** * Unfolding the answer *)

Lemma cnwq_ok : forall st qs s r,
  compute_new_worker_query st qs s = Ok r ->
  exists bs m, create_task_batches (query_inst st qs) = Ok bs
    /\ query_rows (query_inst st qs) bs = Ok m
    /\ r = {| r_sn := sn_counts (query_inst st qs) bs s (query_groups st qs); r_mn := mn_sort (mn_entries st qs) |}.
Proof.
  intros st qs s r H. unfold compute_new_worker_query in H.
  destruct (create_task_batches (query_inst st qs)) as [bs| |] eqn:E1; simpl in H; try discriminate.
  destruct (query_rows (query_inst st qs) bs) as [m| |] eqn:E2; simpl in H; try discriminate.
  inversion H; subst. exists bs, m. auto.
Qed.

(** ** one count per query *)
Theorem query_response_length : forall st qs s r,
  compute_new_worker_query st qs s = Ok r -> length (r_sn r) = length qs.
Proof.
  intros st qs s r H. destruct (cnwq_ok _ _ _ _ H) as (bs & m & _ & _ & ->). simpl.
  unfold sn_counts, query_groups. rewrite map_length. apply fake_groups_length.
Qed.

(** the wrapper: an error, the EMPTY answer (scheduling could not finish), or one count per query *)
Theorem new_worker_query_length : forall st qs flag finished s o,
  new_worker_query st qs flag finished s = Ok o ->
  match o with
  | QErr => forallb desc_valid qs = false
  | QResp r => (flag = true /\ finished = false /\ r_sn r = [] /\ r_mn r = []) \/ length (r_sn r) = length qs
  end.
Proof.
  intros st qs flag finished s o H. unfold new_worker_query in H.
  destruct (forallb desc_valid qs) eqn:Ev; simpl in H; [|inversion H; reflexivity].
  destruct flag, finished; simpl in H;
    try (destruct (compute_new_worker_query st qs s) as [r| |] eqn:E; simpl in H; try discriminate;
         inversion H; subst; right; eapply query_response_length; eassumption).
  inversion H; subst. left. auto.
Qed.

(** the count of query [i] is the number of loaded workers of its group *)
Lemma count_nth : forall st qs s r i q,
  compute_new_worker_query st qs s = Ok r -> nth_error qs i = Some q ->
  exists bs m base,
    create_task_batches (query_inst st qs) = Ok bs
    /\ query_rows (query_inst st qs) bs = Ok m
    /\ qs_worker_counter st + 1 <= base
    /\ nth_error (query_groups st qs) i
       = Some (map (fake_worker (i_nres (query_inst st qs)) (i_now (query_inst st qs)) q) (seqN base (N.to_nat (wq_max_sn q))))
    /\ nth_error (r_sn r) i
       = Some (nlen (filter (loaded (query_inst st qs) bs s)
                 (map (fake_worker (i_nres (query_inst st qs)) (i_now (query_inst st qs)) q) (seqN base (N.to_nat (wq_max_sn q)))))).
Proof.
  intros st qs s r i q H Hq. destruct (cnwq_ok _ _ _ _ H) as (bs & m & Hb & Hm & ->).
  destruct (fake_groups_nth (nres_after (qs_nres st) qs) (qs_now st) qs (qs_worker_counter st + 1) i q Hq) as (base & Hbase & Hn).
  exists bs, m, base. repeat split; try assumption.
  simpl. unfold sn_counts. rewrite nth_error_map. unfold query_groups. rewrite Hn. reflexivity.
Qed.

Lemma nlen_filter_le : forall {A} (f : A -> bool) l, nlen (filter f l) <= nlen l.
Proof.
  intros A f l. unfold nlen. induction l as [|x t IH]; simpl; [lia|]. destruct (f x); simpl; lia.
Qed.

(** ** count i <= max_sn_workers i *)
Theorem query_count_le_max : forall st qs s r i q c,
  compute_new_worker_query st qs s = Ok r -> nth_error qs i = Some q -> nth_error (r_sn r) i = Some c ->
  c <= wq_max_sn q.
Proof.
  intros st qs s r i q c H Hq Hc.
  destruct (count_nth _ _ _ _ _ _ H Hq) as (bs & m & base & _ & _ & _ & _ & Hn).
  rewrite Hn in Hc. inversion Hc; subst. etransitivity; [apply nlen_filter_le|].
  unfold nlen. rewrite map_length, seqN_length. lia.
Qed.

(** ** no candidates -> no demand *)

Lemma filter_map_none : forall {A B} (f : B -> bool) (g : A -> B) l,
  (forall x, f (g x) = false) -> filter f (map g l) = [].
Proof. intros A B f g l H. induction l as [|x t IH]; [reflexivity|]. cbn [map filter]. rewrite H. exact IH. Qed.

(** a class is a candidate for query [q]: it has waiting tasks and the solver would create a placement
    variable for it on a fake worker of [q] *)
Theorem query_no_candidates_no_demand : forall st qs s r i q,
  compute_new_worker_query st qs s = Ok r -> nth_error qs i = Some q ->
  (forall rq, 0 < waiting_of (query_inst st qs) rq -> class_fits (query_inst st qs) q rq = false) ->
  nth_error (r_sn r) i = Some 0.
Proof.
  intros st qs s r i q H Hq Hno.
  destruct (count_nth _ _ _ _ _ _ H Hq) as (bs & m & base & Hb & _ & _ & _ & Hn).
  rewrite Hn. f_equal.
  rewrite filter_map_none; [reflexivity|]. intros id.
  unfold loaded. apply Bool.not_true_is_false. intros Hx. apply existsb_exists in Hx.
  destruct Hx as (b & Hbin & Hx). apply andb_true_iff in Hx. destruct Hx as [Hp _].
  rewrite placeable_fake_id in Hp.
  pose proof (batches_inv _ _ Hb) as Hinv. rewrite Forall_forall in Hinv.
  destruct (Hinv b Hbin) as (Hs & _ & Hle & _).
  assert (Hw : 0 < waiting_of (query_inst st qs) (b_rq b)) by lia.
  specialize (Hno _ Hw). unfold class_fits in Hno. congruence.
Qed.

(** what [class_fits] says: the query's time limit accepts the class's [min_time] ... *)
Theorem class_fits_time : forall I q rq t,
  class_fits I q rq = true -> wq_time_limit q = Some t -> rc_min_time (class_of I rq) <= t.
Proof.
  intros I q rq t H Ht. unfold class_fits, placeable in H.
  apply andb_true_iff in H. destruct H as [H _]. apply andb_true_iff in H. destruct H as [_ H].
  unfold has_time, fake_worker in H. simpl in H. rewrite Ht in H. lia.
Qed.

(** ... and every amount the class asks for (at least one fraction of an [All] resource) is there in the
    query's descriptor, completed with MAX if the query is partial *)
Theorem class_fits_resources : forall I q rq,
  class_fits I q rq = true ->
  Forall (fun e => snd e <= rv_get (vec_of_desc (full_desc (i_nres I) q)) (fst e)) (min_req I rq).
Proof.
  intros I q rq H. unfold class_fits, placeable in H.
  apply andb_true_iff in H. destruct H as [_ H]. apply capable_res_spec in H. exact H.
Qed.

(** conversely: the class has a placement variable as soon as both hold *)
Theorem class_fits_intro : forall I q rq,
  (forall t, wq_time_limit q = Some t -> rc_min_time (class_of I rq) <= t) ->
  Forall (fun e => snd e <= rv_get (vec_of_desc (full_desc (i_nres I) q)) (fst e)) (min_req I rq) ->
  class_fits I q rq = true.
Proof.
  intros I q rq Ht Hr. unfold class_fits, placeable.
  apply andb_true_iff. split; [apply andb_true_iff; split; [reflexivity|]|apply capable_res_spec; exact Hr].
  unfold has_time, fake_worker. simpl. destruct (wq_time_limit q) as [t|]; [|reflexivity].
  specialize (Ht t eq_refl). lia.
Qed.

(** ** only fake workers are counted *)
Theorem query_only_fake_ids : forall st qs w,
  In w (i_workers (query_inst st qs)) -> qs_worker_counter st < w_id w.
Proof.
  intros st qs w H. simpl in H. unfold query_groups in H. apply fake_groups_ids in H. lia.
Qed.

(** * The multi-node part *)

Theorem mn_accepts_spec : forall mt n q,
  mn_accepts mt n q = true <-> (forall t, wq_time_limit q = Some t -> mt <= t) /\ n <= wq_max_per_alloc q.
Proof.
  intros mt n q. unfold mn_accepts. destruct (wq_time_limit q) as [t|]; split.
  - intros H. split; [intros t' Ht; inversion Ht; subst; lia|lia].
  - intros [H1 H2]. specialize (H1 t eq_refl). lia.
  - intros H. split; [intros t' Ht; discriminate|lia].
  - intros [_ H2]. lia.
Qed.

Lemma find_query_some : forall mt n qs i k,
  find_query mt n qs i = Some k ->
  exists j q, k = i + N.of_nat j /\ nth_error qs j = Some q /\ mn_accepts mt n q = true
    /\ forall j' q', (j' < j)%nat -> nth_error qs j' = Some q' -> mn_accepts mt n q' = false.
Proof.
  intros mt n. induction qs as [|q0 t IH]; intros i k H; simpl in H; [discriminate|].
  destruct (mn_accepts mt n q0) eqn:E.
  - inversion H; subst. exists O, q0. repeat split; [lia|assumption|]. intros j' q' Hj. lia.
  - destruct (IH _ _ H) as (j & q & Hk & Hn & Ha & Hfirst). exists (S j), q.
    repeat split; [lia|assumption|assumption|].
    intros [|j'] q' Hj Hq'; simpl in Hq'; [inversion Hq'; subst; assumption|]. eapply Hfirst; [|eassumption]. lia.
Qed.

Lemma find_query_none : forall mt n qs i,
  find_query mt n qs i = None <-> forall q, In q qs -> mn_accepts mt n q = false.
Proof.
  intros mt n. induction qs as [|q0 t IH]; intros i; simpl.
  - split; [intros _ q []|reflexivity].
  - destruct (mn_accepts mt n q0) eqn:E.
    + split; [discriminate|]. intros H. specialize (H q0 (or_introl eq_refl)). congruence.
    + rewrite IH. split; [intros H q [<-|Hq]; auto|intros H q Hq; apply H; right; assumption].
Qed.

Lemma mn_insert_in : forall x l y, In y (mn_insert x l) <-> y = x \/ In y l.
Proof.
  intros x. induction l as [|z t IH]; intros y; simpl; [intuition|].
  destruct (mn_le x z); simpl; [intuition|]. rewrite IH. intuition.
Qed.

Lemma mn_sort_in : forall l y, In y (mn_sort l) <-> In y l.
Proof.
  induction l as [|x t IH]; intros y; simpl; [tauto|]. rewrite mn_insert_in, IH. intuition.
Qed.

Lemma mn_le_total : forall a b, mn_le a b = false -> mn_le b a = true.
Proof. intros a b. unfold mn_le. lia. Qed.
Lemma mn_le_trans : forall a b c, mn_le a b = true -> mn_le b c = true -> mn_le a c = true.
Proof. intros a b c. unfold mn_le. lia. Qed.

Lemma mn_insert_sorted : forall x l,
  StronglySorted (fun a b => mn_le a b = true) l -> StronglySorted (fun a b => mn_le a b = true) (mn_insert x l).
Proof.
  intros x. induction l as [|y t IH]; intros H; simpl; [constructor; constructor|].
  inversion H as [|? ? Hs Hf]; subst. destruct (mn_le x y) eqn:E.
  - constructor; [assumption|]. constructor; [assumption|].
    eapply Forall_impl; [|exact Hf]. intros c Hc. eapply mn_le_trans; eassumption.
  - constructor; [apply IH; assumption|]. apply Forall_forall. intros c Hc. apply (proj1 (mn_insert_in _ _ _)) in Hc.
    destruct Hc as [->|Hc]; [apply mn_le_total; assumption|]. rewrite Forall_forall in Hf. auto.
Qed.

(** the order [sort_unstable_by_key] promises *)
Definition mn_key_le (a b : mn_entry) : Prop :=
  mn_type a < mn_type b \/ (mn_type a = mn_type b /\ mn_per_alloc a <= mn_per_alloc b).

Lemma mn_sort_sorted : forall l, StronglySorted mn_key_le (mn_sort l).
Proof.
  intros l.
  assert (H : StronglySorted (fun a b => mn_le a b = true) (mn_sort l)).
  { induction l as [|x t IH]; simpl; [constructor|]. apply mn_insert_sorted. assumption. }
  induction H as [|a t Hs IH Hf]; constructor; [assumption|].
  eapply Forall_impl; [|exact Hf]. intros b Hb. unfold mn_le in Hb. unfold mn_key_le. lia.
Qed.

Lemma mn_entries_in : forall st qs e,
  In e (mn_entries st qs) <->
  exists k q_, nth_error (qs_queues st) k = Some q_ /\ In e (mn_entry_of st qs (N.of_nat k) q_).
Proof.
  intros st qs e. unfold mn_entries. rewrite in_concat. split.
  - intros (l & Hl & He). apply mapi_from_in in Hl. destruct Hl as (k & a & Hk & ->). exists k, a. auto.
  - intros (k & q_ & Hk & He). eexists. split; [|exact He]. apply mapi_from_in. exists k, q_. auto.
Qed.

(** ** every entry of the list is justified ... *)
Theorem mn_entry_sound : forall st qs s r e,
  compute_new_worker_query st qs s = Ok r -> In e (r_mn r) ->
  exists k q_ j q,
    nth_error (qs_queues st) k = Some q_ /\ is_mn st (N.of_nat k) = true
    /\ mn_per_alloc e = nodes_of st (N.of_nat k)
    /\ mn_max_allocs e = queue_size q_
    /\ mn_type e = N.of_nat j /\ nth_error qs j = Some q
    /\ mn_accepts (class_min_time st (N.of_nat k)) (nodes_of st (N.of_nat k)) q = true
    /\ (forall j' q', (j' < j)%nat -> nth_error qs j' = Some q' ->
          mn_accepts (class_min_time st (N.of_nat k)) (nodes_of st (N.of_nat k)) q' = false).
Proof.
  intros st qs s r e H He. destruct (cnwq_ok _ _ _ _ H) as (bs & m & _ & _ & ->). simpl in He.
  apply (proj1 (mn_sort_in _ _)) in He. apply (proj1 (mn_entries_in _ _ _)) in He. destruct He as (k & q_ & Hk & He).
  unfold mn_entry_of in He. destruct (is_mn st (N.of_nat k)) eqn:Emn; [|contradiction].
  destruct (find_query _ _ qs 0) as [t|] eqn:Ef; [|contradiction].
  destruct He as [<-|[]]. simpl.
  destruct (find_query_some _ _ _ _ _ Ef) as (j & q & Ht & Hn & Ha & Hfirst).
  exists k, q_, j, q. repeat split; try assumption; try lia.
Qed.

(** ... every multi-node class with an admissible query has its entry, for the FIRST such query ... *)
Theorem mn_entry_complete : forall st qs s r k q_ j q,
  compute_new_worker_query st qs s = Ok r ->
  nth_error (qs_queues st) k = Some q_ -> is_mn st (N.of_nat k) = true ->
  nth_error qs j = Some q ->
  mn_accepts (class_min_time st (N.of_nat k)) (nodes_of st (N.of_nat k)) q = true ->
  (forall j' q', (j' < j)%nat -> nth_error qs j' = Some q' ->
     mn_accepts (class_min_time st (N.of_nat k)) (nodes_of st (N.of_nat k)) q' = false) ->
  In {| mn_type := N.of_nat j; mn_per_alloc := nodes_of st (N.of_nat k); mn_max_allocs := queue_size q_ |} (r_mn r).
Proof.
  intros st qs s r k q_ j q H Hk Hmn Hq Ha Hfirst.
  destruct (cnwq_ok _ _ _ _ H) as (bs & m & _ & _ & ->). simpl.
  apply (proj2 (mn_sort_in _ _)). apply (proj2 (mn_entries_in _ _ _)). exists k, q_. split; [assumption|].
  unfold mn_entry_of. rewrite Hmn.
  destruct (find_query _ _ qs 0) as [t|] eqn:Ef.
  - destruct (find_query_some _ _ _ _ _ Ef) as (j2 & q2 & Ht & Hn2 & Ha2 & Hfirst2).
    assert (j2 = j).
    { destruct (Nat.lt_trichotomy j2 j) as [Hlt|[Heq|Hgt]]; [|assumption|].
      - specialize (Hfirst _ _ Hlt Hn2). congruence.
      - specialize (Hfirst2 _ _ Hgt Hq). congruence. }
    subst. left. f_equal; lia.
  - rewrite find_query_none in Ef. apply nth_error_In in Hq. specialize (Ef _ Hq). congruence.
Qed.

(** ... and a multi-node class no query accepts contributes nothing *)
Theorem mn_no_admissible_no_entry : forall st qs rq q_,
  (forall q, In q qs -> mn_accepts (class_min_time st rq) (nodes_of st rq) q = false) ->
  mn_entry_of st qs rq q_ = [].
Proof.
  intros st qs rq q_ H. unfold mn_entry_of. destruct (is_mn st rq); [|reflexivity].
  apply (find_query_none _ _ qs 0) in H. rewrite H. reflexivity.
Qed.

Theorem mn_sorted : forall st qs s r,
  compute_new_worker_query st qs s = Ok r -> StronglySorted mn_key_le (r_mn r).
Proof.
  intros st qs s r H. destruct (cnwq_ok _ _ _ _ H) as (bs & m & _ & _ & ->). simpl. apply mn_sort_sorted.
Qed.
