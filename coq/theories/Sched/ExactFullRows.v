(** C15, exact class with interleaved levels: the row system of a [yinst] instance with both classes
    placeable, and the exchange step: next to an optimal point with an inversion there is a feasible
    point with a larger objective. *)
From HQ Require Import Base.Prelude Gen.Consts Sched.Model Sched.ProofsOrder Sched.ProofsRows Sched.ProofsCuts
  Sched.ProofsExact Sched.ExactFullMerge Sched.ExactFullInst Sched.ExactFullBatches Sched.ExactFullZeroU Sched.ExactFullQueue.
Require Import ZifyBool ZifyN ZifyNat.
From Coq Require Import Sorting.Sorted.
Open Scope N_scope.
Local Arguments N.add : simpl never. Local Arguments N.sub : simpl never. Local Arguments N.mul : simpl never.
Local Arguments N.eqb : simpl never. Local Arguments N.ltb : simpl never. Local Arguments N.leb : simpl never.
Local Arguments N.of_nat : simpl never. Local Arguments N.to_nat : simpl never. Local Arguments N.div : simpl never.
Local Arguments N.min : simpl never. Local Arguments N.max : simpl never.

(** ** the rows of the items in arithmetic form *)
Lemma row_gapB : forall I bs (s : sol) w l h cut sz g bsize vars,
  entry_ok s (ERow (item_row I bs (IGapB w l h cut sz g bsize vars))) = true
  <-> (lhs s (ones vars) + z bsize * s (VB h sz) <= z (cut + bsize + g))%Z.
Proof.
  intros. cbn [entry_ok item_row]. unfold row_ok, row_lhs. cbn [r_le r_terms r_bound].
  fold (lhs s (ones vars ++ [(VB h sz, z bsize)])). rewrite lhs_app. cbn [lhs fold_right fst snd]. rewrite Z.leb_le. lia.
Qed.
Lemma row_gapU : forall I bs (s : sol) w l h cut g vars,
  entry_ok s (ERow (item_row I bs (IGapU w l h cut g vars))) = true <-> (lhs s (ones vars) <= z (cut + g))%Z.
Proof.
  intros. cbn [entry_ok item_row]. unfold row_ok, row_lhs. cbn [r_le r_terms r_bound].
  fold (lhs s (ones vars)). rewrite Z.leb_le. lia.
Qed.
Lemma row_zeroB : forall I bs (s : sol) l h cut sz bsize vars,
  entry_ok s (ERow (item_row I bs (IZeroB l h cut sz bsize vars))) = true
  <-> (lhs s (ones vars) + z bsize * s (VB h sz) <= z (bsize + cut))%Z.
Proof.
  intros. cbn [entry_ok item_row]. unfold row_ok, row_lhs. cbn [r_le r_terms r_bound].
  fold (lhs s (ones vars ++ [(VB h sz, z bsize)])). rewrite lhs_app. cbn [lhs fold_right fst snd]. rewrite Z.leb_le. lia.
Qed.
Lemma row_zeroU : forall I bs (s : sol) l h cut vars,
  entry_ok s (ERow (item_row I bs (IZeroU l h cut vars))) = true <-> (lhs s (ones vars) <= z cut)%Z.
Proof.
  intros. cbn [entry_ok item_row]. unfold row_ok, row_lhs. cbn [r_le r_terms r_bound].
  fold (lhs s (ones vars)). rewrite Z.leb_le. lia.
Qed.
Lemma row_size : forall I bs (s : sol) rq size,
  entry_ok s (ERow (item_row I bs (ISize rq size))) = true <-> (lhs s (ones (count_vars I bs rq)) <= z size)%Z.
Proof.
  intros. cbn [entry_ok item_row]. unfold row_ok, row_lhs. cbn [r_le r_terms r_bound].
  fold (lhs s (ones (count_vars I bs rq))). rewrite Z.leb_le. lia.
Qed.
Lemma row_blk : forall I bs (s : sol) h sz,
  entry_ok s (ERow (blk_row I bs h sz)) = true <-> (z sz <= lhs s (ones (count_vars I bs h)) + z sz * s (VB h sz))%Z.
Proof.
  intros. cbn [entry_ok]. unfold row_ok, row_lhs, blk_row. cbn [r_le r_terms r_bound].
  fold (lhs s (ones (count_vars I bs h) ++ [(VB h sz, z sz)])). rewrite lhs_app. cbn [lhs fold_right fst snd]. rewrite Z.leb_le. lia.
Qed.

Section YR.
Variables (R F : N) (assigned : list N) (a0 a1 : N) (q0 q1 : list (N * list N)).
Hypothesis Ha0 : 0 < a0.
Hypothesis Ha1 : 0 < a1.
Hypothesis H0F : a0 <= F.
Hypothesis H1F : a1 <= F.
Hypothesis HFR : F <= R.
Hypothesis Hc0 : R / a0 <= SCHED_MAX_TASK_PER_WORKER.
Hypothesis Hc1 : R / a1 <= SCHED_MAX_TASK_PER_WORKER.
Variables (bA bB : batch).
Hypothesis HrqA : b_rq bA = 0.
Hypothesis HrqB : b_rq bB = 1.

Let I := yinst R F assigned a0 a1 q0 q1.
Let W := xworker R F assigned.
Let bs := [bA; bB].

Lemma y_pkA : placement_kind I W bA = PX.
Proof. apply placement_px. rewrite HrqA. apply y_placeable0; assumption. Qed.
Lemma y_pkB : placement_kind I W bB = PX.
Proof. apply placement_px. rewrite HrqB. apply y_placeable1; assumption. Qed.

Lemma y_hasx0 : has_x I bs W 0 = true.
Proof. unfold has_x, bs. cbn [existsb]. rewrite y_pkA, HrqA. reflexivity. Qed.
Lemma y_hasx1 : has_x I bs W 1 = true.
Proof. unfold has_x, bs. cbn [existsb]. rewrite y_pkB, HrqB, HrqA. reflexivity. Qed.

Lemma y_cv : forall h, count_vars I bs h = (if 0 =? h then [VX 1 h] else []) ++ (if 1 =? h then [VX 1 h] else []).
Proof.
  intros h. unfold count_vars, bs. cbn [I yinst i_workers map concat]. fold I. fold W.
  rewrite y_pkA, y_pkB, HrqA, HrqB, !app_nil_r. change (w_id W) with 1. reflexivity.
Qed.
Lemma y_cv0 : count_vars I bs 0 = [VX 1 0].
Proof. rewrite y_cv. reflexivity. Qed.
Lemma y_cv1 : count_vars I bs 1 = [VX 1 1].
Proof. rewrite y_cv. reflexivity. Qed.

Lemma y_xvars0 : xvars I bs W 0 = [VX 1 0].
Proof. unfold xvars. rewrite y_hasx0. reflexivity. Qed.
Lemma y_xvars1 : xvars I bs W 1 = [VX 1 1].
Proof. unfold xvars. rewrite y_hasx1. reflexivity. Qed.

Lemma y_weight0 : x_weight I 0 0 = 100 * a0.
Proof.
  unfold x_weight. change (req_of I 0) with [(0, a0)]. change (nlen (i_workers I)) with 1.
  cbn [fold_right fst snd]. change (resource_sum I 0) with (F + 0).
  change (prod_sums_except I (Some 0)) with 1.
  destruct (N.eqb_spec (F + 0) 0); [lia|]. unfold SCHED_RESERVATION_WEIGHT_DIV. lia.
Qed.
Lemma y_weight1 : x_weight I 0 1 = 100 * a1.
Proof.
  unfold x_weight. change (req_of I 1) with [(0, a1)]. change (nlen (i_workers I)) with 1.
  cbn [fold_right fst snd]. change (resource_sum I 0) with (F + 0).
  change (prod_sums_except I (Some 0)) with 1.
  destruct (N.eqb_spec (F + 0) 0); [lia|]. unfold SCHED_RESERVATION_WEIGHT_DIV. lia.
Qed.

Definition y_wentries : list entry :=
  [EVar (VX 1 0) KNat (z (100 * a0)); EVar (VX 1 1) KNat (z (100 * a1));
   ERow {| r_kind := RRes 1 0; r_terms := [(VX 1 0, z a0); (VX 1 1, z a1)]; r_le := true; r_bound := z F |}].

Lemma y_worker_entries : worker_entries I bs 0 W = y_wentries.
Proof.
  unfold worker_entries, bs. change (inst_on I W) with I. cbn [map concat]. rewrite y_pkA, y_pkB, HrqA, HrqB.
  change (w_id W) with 1. rewrite y_weight0, y_weight1.
  change (seqN 0 (N.to_nat (i_nres I))) with [0]. cbn [map concat app].
  change (req_of I 0) with [(0, a0)]. change (req_of I 1) with [(0, a1)].
  cbn [map concat fst snd app]. change (0 =? 0) with true. cbn [app].
  change (rv_get (w_free W) 0) with F. reflexivity.
Qed.

Lemma y_milp : forall m, milp_of I bs = Ok m ->
  exists its, all_items I bs = Ok its /\ m = y_wentries ++ emit I bs [] its.
Proof.
  intros m Hm. unfold milp_of in Hm. destruct (all_items I bs) as [its| |] eqn:E; cbn [bind] in Hm; try discriminate.
  injection Hm as Hm. exists its. split; [reflexivity|]. rewrite <- Hm.
  cbn [I yinst i_workers mapi_from concat]. fold I. fold W. rewrite app_nil_r.
  change (N.of_nat 0) with 0. rewrite y_worker_entries. reflexivity.
Qed.

Lemma y_objective : forall m s, milp_of I bs = Ok m ->
  objective m s = (z (100 * a0) * s (VX 1 0) + z (100 * a1) * s (VX 1 1))%Z.
Proof.
  intros m s Hm. destruct (y_milp m Hm) as (its & _ & ->). rewrite objective_app, objective_emit.
  unfold objective, y_wentries. cbn [fold_right]. lia.
Qed.

Lemma y_base_rows : forall m s, milp_of I bs = Ok m -> feasible m s = true ->
  (0 <= s (VX 1 0))%Z /\ (0 <= s (VX 1 1))%Z /\ (z a0 * s (VX 1 0) + z a1 * s (VX 1 1) <= z F)%Z.
Proof.
  intros m s Hm Hf. destruct (y_milp m Hm) as (its & _ & ->). rewrite feasible_app in Hf.
  apply andb_true_iff in Hf. destruct Hf as [Hf _]. unfold feasible, y_wentries in Hf.
  cbn [forallb entry_ok row_ok row_lhs r_le r_terms r_bound fold_right fst snd] in Hf. lia.
Qed.

(** the aggregate sum over the zero-gap workers: there is one worker *)
Lemma y_zero_sum : forall (s : sol) h Z, zero_sum I bs s h Z (i_workers I) = (if zero_gap I W h Z then lhs s (ones (xvars I bs W Z)) else 0)%Z.
Proof. intros s h Z. cbn [I yinst i_workers zero_sum fold_right]. fold I. fold W. lia. Qed.

(** ** the exchange *)
Section Exch.
Variables (X Y : N).
Hypothesis HXY : (X = 0 /\ Y = 1) \/ (X = 1 /\ Y = 0).
Definition bz (Z : N) : batch := if Z =? 0 then bA else bB.
Variables (eX eY : ent) (p q : N).
Hypothesis HBF : BF eX eY X Y (bz X) (bz Y).
Hypothesis HlrY : b_lr (fst eY) = false.
Hypothesis HLX : b_limit (fst eX) = F / az a0 a1 X.
Hypothesis HLY : b_limit (fst eY) = F / az a0 a1 Y.
Variables (m : list entry) (s : sol).
Hypothesis Hm : milp_of I bs = Ok m.
Hypothesis Hf : feasible m s = true.
Let xX := sol_x s 1 X.
Let xY := sol_x s 1 Y.
Hypothesis H1 : xX < Tge eX p.
Hypothesis H2 : Tgt eY q < xY.
Hypothesis H3 : az a0 a1 X * (xX + 1) + az a0 a1 Y * Tge eY p <= F.
Hypothesis Hp : In p (prios eX).
Hypothesis Hq : In q (prios eY).
Hypothesis Hqp : q < p.

Definition cnt (h : N) : N := if h =? X then xX + 1 else if h <=? 1 then Tge eY p else 0.
Definition ysol : sol :=
  fun v => match v with
           | VX w r => if w =? 1 then z (cnt r) else 0%Z
           | VR _ _ => 0%Z
           | VB h sz => if cnt h <? sz then 1%Z else 0%Z
           end.

Lemma cntX : cnt X = xX + 1.
Proof. unfold cnt. rewrite N.eqb_refl. reflexivity. Qed.
Lemma cntY : cnt Y = Tge eY p.
Proof. unfold cnt. destruct HXY as [[-> ->]|[-> ->]]; reflexivity. Qed.

Lemma az_pos : forall Z, 0 < az a0 a1 Z.
Proof. intros Z. unfold az. destruct (Z =? 0); assumption. Qed.

Lemma sX : s (VX 1 X) = z xX.
Proof. destruct (y_base_rows m s Hm Hf) as (B0 & B1 & _). unfold xX, sol_x, z. destruct HXY as [[-> ->]|[-> ->]]; lia. Qed.
Lemma sY : s (VX 1 Y) = z xY.
Proof. destruct (y_base_rows m s Hm Hf) as (B0 & B1 & _). unfold xY, sol_x, z. destruct HXY as [[-> ->]|[-> ->]]; lia. Qed.

Lemma res_row : az a0 a1 X * xX + az a0 a1 Y * xY <= F.
Proof.
  destruct (y_base_rows m s Hm Hf) as (B0 & B1 & B2). pose proof sX as E1. pose proof sY as E2.
  unfold az. destruct HXY as [[-> ->]|[-> ->]]; change (0 =? 0) with true in *; change (1 =? 0) with false in *;
    cbv iota; unfold z in *; rewrite E1, E2 in B2; lia.
Qed.

Lemma GY_lt : Tge eY p < xY.
Proof. unfold Tge, Tgt in *. pose proof (sum_ge_le_gt p q (snd eY) Hqp). lia. Qed.

Lemma xY_le_L : xY <= b_limit (fst eY).
Proof.
  rewrite HLY. apply N.div_le_lower_bound; [pose proof (az_pos Y); lia|].
  pose proof res_row. pose proof (az_pos X). nia.
Qed.

Lemma xX1_le_L : xX + 1 <= b_limit (fst eX).
Proof.
  rewrite HLX. apply N.div_le_lower_bound; [pose proof (az_pos X); lia|].
  pose proof (az_pos Y). nia.
Qed.

Lemma lrY_q : lr_gt eY q = false.
Proof. unfold lr_gt. rewrite HlrY. cbn [orb]. apply N.ltb_ge. pose proof xY_le_L. lia. Qed.

Lemma Tge_le_Ttot : forall e pi, Tge e pi <= Ttot e.
Proof. intros. unfold Tge, Ttot. pose proof (sum_ge_le_all pi (snd e)). lia. Qed.

Lemma rq_bzX : b_rq (bz X) = X.
Proof. apply (bf_rqX _ _ _ _ _ _ HBF). Qed.
Lemma rq_bzY : b_rq (bz Y) = Y.
Proof. apply (bf_rqY _ _ _ _ _ _ HBF). Qed.

Lemma ysol_cv : forall h, lhs ysol (ones (count_vars I bs h)) = z (cnt h).
Proof.
  intros h. rewrite y_cv.
  destruct (N.eqb_spec 0 h) as [<-|H0].
  { change (1 =? 0) with false. cbn [app ones map lhs fold_right fst snd ysol]. change (1 =? 1) with true. lia. }
  destruct (N.eqb_spec 1 h) as [<-|H1'].
  { cbn [app ones map lhs fold_right fst snd ysol]. change (1 =? 1) with true. lia. }
  cbn [app ones map lhs fold_right]. unfold cnt.
  destruct (N.eqb_spec h X); [destruct HXY as [[-> _]|[-> _]]; congruence|].
  destruct (N.leb_spec h 1); [lia|reflexivity].
Qed.

Lemma ysol_xv : forall Z, Z = 0 \/ Z = 1 -> lhs ysol (ones (xvars I bs W Z)) = z (cnt Z).
Proof. intros Z [->| ->]; [rewrite y_xvars0|rewrite y_xvars1]; cbn [ones map lhs fold_right fst snd ysol]; change (1 =? 1) with true; lia. Qed.

Lemma s_xv : forall Z, Z = 0 \/ Z = 1 -> lhs s (ones (xvars I bs W Z)) = s (VX 1 Z).
Proof. intros Z [->| ->]; [rewrite y_xvars0|rewrite y_xvars1]; cbn [ones map lhs fold_right fst snd]; lia. Qed.

Lemma XY01 : (X = 0 \/ X = 1) /\ (Y = 0 \/ Y = 1) /\ X <> Y.
Proof. destruct HXY as [[-> ->]|[-> ->]]; repeat split; auto; discriminate. Qed.

Lemma count_of_X : count_of I bs s X = s (VX 1 X).
Proof. unfold count_of. destruct HXY as [[-> ->]|[-> ->]]; [rewrite y_cv0|rewrite y_cv1]; cbn [fold_right]; lia. Qed.

Lemma ysol_nonneg : forall v, (0 <= ysol v)%Z.
Proof. intros [w r|w r|h sz]; cbn [ysol]; try lia. destruct (w =? 1); unfold z; lia. destruct (cnt h <? sz); lia. Qed.

(** the blocker variables of [s] *)
Lemma vb_s : forall its it h sz, all_items I bs = Ok its -> In it its -> item_bvar it = Some (h, sz) ->
  (0 <= s (VB h sz) <= 1)%Z /\ ((count_of I bs s h < z sz)%Z -> s (VB h sz) = 1%Z).
Proof.
  intros its it h sz Hits Hin Hbv.
  destruct (milp_items I bs m Hm) as (its' & Hits' & Hemit). rewrite Hits in Hits'. injection Hits' as <-.
  destruct (emit_blk_in I bs its [] it h sz Hin Hbv (fun x => x)) as [Hblk Hvar].
  split.
  - pose proof (feasible_in m s _ Hf (Hemit _ Hvar)) as Hv. cbn [entry_ok] in Hv. lia.
  - apply (blocker_forced I bs m s h sz Hf (Hemit _ Hblk) (Hemit _ Hvar)).
Qed.

Lemma GY_le_L : Tge eY p <= b_limit (fst eY).
Proof. pose proof GY_lt. pose proof xY_le_L. lia. Qed.

Lemma xX1_le_bsize : xX + 1 <= b_size (bz X).
Proof.
  destruct (b_lr (bz X)) eqn:E.
  - rewrite (bf_limX _ _ _ _ _ _ HBF E). apply xX1_le_L.
  - rewrite (bf_sizeX _ _ _ _ _ _ HBF E). pose proof (Tge_le_Ttot eX p). lia.
Qed.

Lemma bz_in : forall Z, In (bz Z) bs.
Proof. intros Z. unfold bz, bs. destruct (Z =? 0); [left|right; left]; reflexivity. Qed.

(** the rows of Y's batch hold in [ysol] because they hold in [s]: Y places fewer tasks, X more *)
Lemma rows_Y : forall its it, all_items I bs = Ok its -> In it its -> batch_item I bs (bz Y) it ->
  entry_ok s (ERow (item_row I bs it)) = true -> entry_ok ysol (ERow (item_row I bs it)) = true.
Proof.
  intros its it Hits Hin Hbi Hs.
  pose proof GY_lt as HG. pose proof sY as EsY. pose proof sX as EsX. destruct XY01 as (HX01 & HY01 & Hne).
  destruct Hbi as [Hlr|c h bsz it0 Hc Hbl Hgi|c h sz zero Hc Hbl Hz|c h zero Hc Hbl Hz].
  - rewrite rq_bzY. apply row_size. rewrite ysol_cv, cntY. rewrite (bf_sizeY _ _ _ _ _ _ HBF Hlr).
    pose proof (Tge_le_Ttot eY p). unfold z. lia.
  - destruct (bf_ycut _ _ _ _ _ _ HBF c Hc) as (bsz0 & Hb0). rewrite Hb0 in Hbl. destruct Hbl as [Heq|[]].
    injection Heq as <- <-.
    destruct Hgi as [w g sz Hbsz Hw Hcw Hgw Hgp|w g Hbsz Hw Hcw Hgw Hgp]; destruct Hw as [<-|[]]; rewrite rq_bzY in *.
    + apply row_gapB in Hs. apply row_gapB. rewrite ysol_xv, cntY by assumption. rewrite s_xv, EsY in Hs by assumption.
      destruct (vb_s its _ X sz Hits Hin eq_refl) as [Hb01 Hforce].
      cbn [ysol]. rewrite cntX. destruct (N.ltb_spec (xX + 1) sz) as [Hlt|Hge].
      * rewrite Hforce in Hs by (rewrite count_of_X, EsX; unfold z; lia). unfold z in *. lia.
      * assert (Hnn : (0 <= z (b_size (bz Y)) * s (VB X sz))%Z) by (apply Z.mul_nonneg_nonneg; unfold z; lia).
        clear - Hs Hnn HG. unfold z in *. lia.
    + apply row_gapU in Hs. apply row_gapU. rewrite ysol_xv, cntY by assumption. rewrite s_xv, EsY in Hs by assumption.
      unfold z in *. lia.
  - destruct (bf_ycut _ _ _ _ _ _ HBF c Hc) as (bsz0 & Hb0). rewrite Hb0 in Hbl. destruct Hbl as [Heq|[]].
    injection Heq as E1 E2. subst h. rewrite rq_bzY in *.
    apply row_zeroB in Hs. apply row_zeroB. rewrite (Hz ysol), y_zero_sum. rewrite (Hz s), y_zero_sum in Hs.
    rewrite ysol_xv, cntY by assumption. rewrite s_xv, EsY in Hs by assumption.
    destruct (vb_s its _ X sz Hits Hin eq_refl) as [Hb01 Hforce].
    cbn [ysol]. rewrite cntX. destruct (N.ltb_spec (xX + 1) sz) as [Hlt|Hge].
    + rewrite Hforce in Hs by (rewrite count_of_X, EsX; unfold z; lia). destruct (zero_gap I W X Y); unfold z in *; lia.
    + assert (Hnn : (0 <= z (b_size (bz Y)) * s (VB X sz))%Z) by (apply Z.mul_nonneg_nonneg; unfold z; lia).
      clear - Hs Hnn HG. destruct (zero_gap I W X Y); unfold z in *; lia.
  - destruct (bf_ycut _ _ _ _ _ _ HBF c Hc) as (bsz0 & Hb0). rewrite Hb0 in Hbl. destruct Hbl as [Heq|[]].
    injection Heq as E1 E2. subst h. rewrite rq_bzY in *.
    apply row_zeroU in Hs. apply row_zeroU. rewrite (Hz ysol), y_zero_sum. rewrite (Hz s), y_zero_sum in Hs.
    rewrite ysol_xv, cntY by assumption. rewrite s_xv, EsY in Hs by assumption.
    destruct (zero_gap I W X Y); unfold z in *; lia.
Qed.

(** the rows of X's batch hold in [ysol]: a cut of X is either not in force (Y holds all its tasks
    of priority >= p) or large enough *)
Lemma rows_X : forall it, batch_item I bs (bz X) it -> entry_ok ysol (ERow (item_row I bs it)) = true.
Proof.
  intros it Hbi.
  pose proof xX1_le_bsize as Hbsz. pose proof GY_le_L as HGL. destruct XY01 as (HX01 & HY01 & Hne).
  destruct Hbi as [Hlr|c h bsz it0 Hc Hbl Hgi|c h sz zero Hc Hbl Hz|c h zero Hc Hbl Hz].
  - rewrite rq_bzX. apply row_size. rewrite ysol_cv, cntX. rewrite (bf_sizeX _ _ _ _ _ _ HBF Hlr).
    pose proof (Tge_le_Ttot eX p). unfold z. lia.
  - destruct (bf_xcut _ _ _ _ _ _ HBF c p Hc HGL) as (bsz0 & Hb0 & Hor). rewrite Hb0 in Hbl. destruct Hbl as [Heq|[]].
    injection Heq as <- <-.
    destruct Hgi as [w g sz Hbsz' Hw Hcw Hgw Hgp|w g Hbsz' Hw Hcw Hgw Hgp]; destruct Hw as [<-|[]]; rewrite rq_bzX in *.
    + apply row_gapB. rewrite ysol_xv, cntX by assumption. cbn [ysol]. rewrite cntY.
      destruct Hor as [(sz0 & E0 & Hle)|Hle].
      * rewrite Hbsz' in E0. injection E0 as <-. destruct (N.ltb_spec (Tge eY p) sz); [lia|]. unfold z. lia.
      * destruct (Tge eY p <? sz); unfold z; lia.
    + apply row_gapU. rewrite ysol_xv, cntX by assumption.
      destruct Hor as [(sz0 & E0 & Hle)|Hle]; [congruence|]. unfold z. lia.
  - destruct (bf_xcut _ _ _ _ _ _ HBF c p Hc HGL) as (bsz0 & Hb0 & Hor). rewrite Hb0 in Hbl. destruct Hbl as [Heq|[]].
    injection Heq as E1 E2. subst h. rewrite rq_bzX in *.
    apply row_zeroB. rewrite (Hz ysol), y_zero_sum, ysol_xv, cntX by assumption. cbn [ysol]. rewrite cntY.
    destruct Hor as [(sz0 & E0 & Hle)|Hle].
    + rewrite E2 in E0. injection E0 as <-. destruct (N.ltb_spec (Tge eY p) sz); [lia|]. destruct (zero_gap I W Y X); unfold z; lia.
    + destruct (Tge eY p <? sz); destruct (zero_gap I W Y X); unfold z; lia.
  - destruct (bf_xcut _ _ _ _ _ _ HBF c p Hc HGL) as (bsz0 & Hb0 & Hor). rewrite Hb0 in Hbl. destruct Hbl as [Heq|[]].
    injection Heq as E1 E2. subst h. rewrite rq_bzX in *.
    apply row_zeroU. rewrite (Hz ysol), y_zero_sum, ysol_xv, cntX by assumption.
    destruct Hor as [(sz0 & E0 & Hle)|Hle]; [congruence|]. destruct (zero_gap I W Y X); unfold z; lia.
Qed.

Lemma ygapXY : exists g, gap I W X Y = Ok g /\ g * az a0 a1 Y < az a0 a1 X.
Proof.
  unfold az. destruct HXY as [[-> ->]|[-> ->]]; change (0 =? 0) with true; change (1 =? 0) with false; cbv iota.
  - apply ygap01; assumption.
  - apply ygap10; assumption.
Qed.

Lemma capable_X : capable I W X = true.
Proof. destruct HXY as [[-> ->]|[-> ->]]; [apply y_capable0|apply y_capable1]; assumption. Qed.

Lemma hasx_Y : has_x I bs W Y = true.
Proof. destruct HXY as [[-> ->]|[-> ->]]; [apply y_hasx1|apply y_hasx0]. Qed.

Lemma cv_ne : forall Z, Z = 0 \/ Z = 1 -> count_vars I bs Z <> [].
Proof. intros Z [->| ->]; [rewrite y_cv0|rewrite y_cv1]; discriminate. Qed.

(** the guard cut bounds Y: at most its tasks of priority >= p plus the gap *)
Lemma xY_bound : forall g, gap I W X Y = Ok g -> xY <= Tge eY p + g.
Proof.
  intros g Hg. destruct XY01 as (HX01 & HY01 & Hne).
  destruct (bf_guard _ _ _ _ _ _ HBF p q Hp Hq Hqp lrY_q) as (c & bsz & Hc & Hcs & Hbl & Hsz).
  assert (Hblk : In (X, bsz) (c_blockers c)) by (rewrite Hbl; left; reflexivity).
  assert (Hopen : blocker_open I bs s (X, bsz) = true).
  { unfold blocker_open. cbn [snd fst]. destruct bsz as [sz|]; [|reflexivity].
    pose proof (cv_ne X HX01) as Hne'. destruct (count_vars I bs X) eqn:E; [congruence|].
    rewrite count_of_X, sX. apply Z.ltb_lt. unfold z. lia. }
  assert (Hcvne : count_vars I bs (b_rq (bz Y)) <> []) by (rewrite rq_bzY; apply cv_ne; assumption).
  assert (Hzs : zero_sum I bs s X (b_rq (bz Y)) (i_workers I) = (if zero_gap I W X Y then z xY else 0)%Z).
  { rewrite rq_bzY, y_zero_sum, s_xv, sY by assumption. reflexivity. }
  destruct (N.ltb_spec 0 g) as [Hgp|Hg0].
  - pose proof (cut_semantics_gap I bs m s (bz Y) c X bsz W g Hm Hf (bz_in Y) Hcvne Hc Hblk Hopen (or_introl eq_refl)
                  capable_X ltac:(rewrite rq_bzY; exact Hg) Hgp) as Hb.
    rewrite rq_bzY in Hb. unfold placed in Hb. rewrite hasx_Y in Hb. change (w_id W) with 1 in Hb. fold xY in Hb. lia.
  - assert (g = 0) by lia. subst g.
    assert (Hzg : zero_gap I W X Y = true) by (unfold zero_gap; rewrite capable_X, Hg; reflexivity).
    rewrite Hzg in Hzs.
    destruct bsz as [sz|].
    + pose proof (cut_semantics_zero I bs m s (bz Y) c X sz Hm Hf (bz_in Y) Hcvne Hc Hblk Hopen) as Hb.
      rewrite Hzs in Hb. unfold z in Hb. lia.
    + pose proof (cut_semantics_zero_unbounded I bs m s (bz Y) c X Hm Hf (bz_in Y) Hcvne (bf_sorted _ _ _ _ _ _ HBF) Hc Hblk) as Hb.
      rewrite Hzs in Hb. unfold z in Hb. lia.
Qed.

Lemma ysol_feasible : feasible m ysol = true.
Proof.
  destruct (y_milp m Hm) as (its & Hits & Em). destruct XY01 as (HX01 & HY01 & Hne).
  assert (Hall : forall e, In e m -> entry_ok ysol e = true).
  { intros e He. rewrite Em in He. apply in_app_or in He. destruct He as [He|He].
    - (* the worker's variables and its resource row *)
      assert (Hres : (z a0 * z (cnt 0) + z a1 * z (cnt 1) <= z F)%Z).
      { pose proof cntX as CX. pose proof cntY as CY. pose proof H3 as H3'. unfold az in H3'.
        destruct HXY as [[E1 E2]|[E1 E2]]; rewrite E1, E2 in H3'; rewrite E1 in CX; rewrite E2 in CY;
          change (0 =? 0) with true in H3'; change (1 =? 0) with false in H3'; cbv iota in H3';
          rewrite CX, CY; unfold z; nia. }
      unfold y_wentries in He. destruct He as [<-|[<-|[<-|[]]]]; cbn [entry_ok ysol]; change (1 =? 1) with true.
      + unfold z. lia.
      + unfold z. lia.
      + unfold row_ok, row_lhs. cbn [r_le r_terms r_bound fold_right fst snd ysol]. change (1 =? 1) with true.
        apply Z.leb_le. lia.
    - destruct (emit_inv I bs its [] e He) as [(it & Hit & ->)|(it & h & sz & Hit & Hbv & [->| ->])].
      + destruct (all_items_inv I bs its it Hits Hit) as (b & Hb & Hbi).
        assert (Hbz : b = bz X \/ b = bz Y).
        { unfold bs in Hb. unfold bz. destruct Hb as [<-|[<-|[]]]; destruct HXY as [[-> ->]|[-> ->]]; auto. }
        destruct Hbz as [->| ->].
        * apply rows_X. exact Hbi.
        * apply (rows_Y its it Hits Hit Hbi). apply (feasible_in m s _ Hf). rewrite Em. apply in_or_app. right.
          apply emit_row_in. exact Hit.
      + cbn [entry_ok ysol]. destruct (cnt h <? sz); reflexivity.
      + apply row_blk. rewrite ysol_cv. cbn [ysol]. destruct (N.ltb_spec (cnt h) sz); unfold z; lia. }
  unfold feasible. apply forallb_forall. exact Hall.
Qed.

Theorem exchange : exists s', feasible m s' = true /\ (objective m s < objective m s')%Z.
Proof.
  exists ysol. split; [exact ysol_feasible|].
  rewrite !(y_objective m _ Hm). cbn [ysol]. change (1 =? 1) with true.
  destruct ygapXY as (g & Hg & Hgs). pose proof (xY_bound g Hg) as Hb.
  pose proof sX as EX. pose proof sY as EY. pose proof cntX as CX. pose proof cntY as CY. pose proof GY_lt as HG.
  unfold az in Hgs.
  destruct HXY as [[E1 E2]|[E1 E2]]; rewrite E1, E2 in Hgs; rewrite E1 in EX, CX; rewrite E2 in EY, CY;
    change (0 =? 0) with true in Hgs; change (1 =? 0) with false in Hgs; cbv iota in Hgs;
    rewrite EX, EY, CX, CY; unfold z; nia.
Qed.

End Exch.
End YR.
