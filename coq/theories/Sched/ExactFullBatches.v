(** C15, exact class with interleaved levels: what the main proof needs to know about the two batches
    of a [yinst] instance, for both orientations (waiting class X, dispatched lower class Y). *)
From HQ Require Import Base.Prelude Gen.Consts Sched.Model Sched.ProofsOrder Sched.ProofsRows Sched.ProofsCuts
  Sched.ProofsExact Sched.ExactFullMerge Sched.ExactFullGuard Sched.ExactFullInst.
Require Import ZifyBool ZifyN ZifyNat.
From Coq Require Import Sorting.Sorted.
Open Scope N_scope.
Local Arguments N.add : simpl never. Local Arguments N.sub : simpl never. Local Arguments N.mul : simpl never.
Local Arguments N.eqb : simpl never. Local Arguments N.ltb : simpl never. Local Arguments N.leb : simpl never.
Local Arguments N.of_nat : simpl never. Local Arguments N.to_nat : simpl never. Local Arguments N.div : simpl never.
Local Arguments N.min : simpl never. Local Arguments N.max : simpl never.

Lemma sum_gt_le_ge2 : forall p pi rem, p <= pi -> sum_gt pi rem <= sum_ge p rem.
Proof.
  intros p pi rem H. induction rem as [|l t IH]; cbn [sum_gt sum_ge]; [lia|].
  destruct (N.ltb_spec pi (fst l)); destruct (N.leb_spec p (fst l)); lia.
Qed.

(** facts about the final batches [bX] (class of the waiting task) and [bY] (class of the dispatched
    lower task); [eX], [eY] are the initial entries *)
Record BF (eX eY : ent) (X Y : N) (bX bY : batch) : Prop := {
  bf_rqX : b_rq bX = X;
  bf_rqY : b_rq bY = Y;
  bf_sizeX : b_lr bX = false -> b_size bX = Ttot eX;
  bf_limX : b_lr bX = true -> b_size bX = b_limit (fst eX);
  bf_sizeY : b_lr bY = false -> b_size bY = Ttot eY;
  bf_limY : b_lr bY = true -> b_size bY = b_limit (fst eY);
  bf_xcut : forall c p, In c (b_cuts bX) -> Tge eY p <= b_limit (fst eY) ->
            exists bsz, c_blockers c = [(Y, bsz)]
                        /\ ((exists sz, bsz = Some sz /\ sz <= Tge eY p) \/ Tge eX p <= c_size c);
  bf_ycut : forall c, In c (b_cuts bY) -> exists bsz, c_blockers c = [(X, bsz)];
  bf_guard : forall p q, In p (prios eX) -> In q (prios eY) -> q < p -> lr_gt eY q = false ->
             exists c bsz, In c (b_cuts bY) /\ c_size c <= Tge eY p /\ c_blockers c = [(X, bsz)]
                           /\ match bsz with None => True | Some sz => Tge eX p <= sz end;
  bf_sorted : StronglySorted le_size (b_cuts bY)
}.

Lemma post_BF_half : forall eX eY bX bY,
  b_lr (fst eX) = false -> b_lr (fst eY) = false -> b_cuts (fst eX) = [] -> b_cuts (fst eY) = [] ->
  PostZ eX eY (bX, []) -> PostZ eY eX (bY, []) ->
  (b_lr bX = false -> b_size bX = Ttot eX) /\ (b_lr bX = true -> b_size bX = b_limit (fst eX))
  /\ (forall c p, In c (b_cuts bX) -> Tge eY p <= b_limit (fst eY) ->
        exists bsz, c_blockers c = [(b_rq (fst eY), bsz)]
                    /\ ((exists sz, bsz = Some sz /\ sz <= Tge eY p) \/ Tge eX p <= c_size c))
  /\ (forall c, In c (b_cuts bY) -> exists bsz, c_blockers c = [(b_rq (fst eX), bsz)])
  /\ StronglySorted le_size (b_cuts bY).
Proof.
  intros eX eY bX bY LX LY CX CY PX PY.
  split; [|split; [|split; [|split]]].
  - intros E. apply (pz_size_tot _ _ _ PX). rewrite <- (pz_lr _ _ _ PX). exact E.
  - intros E. apply (pz_size_lim _ _ _ PX LX). rewrite <- (pz_lr _ _ _ PX). exact E.
  - intros c p Hc Hle. destruct (pz_cuts _ _ _ PX) as (l & L1 & _ & _ & _ & L5).
    cbn [fst] in L1. rewrite CX in L1. cbn [app] in L1. rewrite L1 in Hc.
    destruct (L5 c Hc) as (pi & Hpi & ->). unfold cutform. cbn [c_blockers c_size].
    eexists. split; [reflexivity|].
    destruct (N.le_gt_cases p pi) as [Hp|Hp].
    + left. assert (HT : Tgt eY pi <= Tge eY p) by (unfold Tgt, Tge; pose proof (sum_gt_le_ge2 p pi (snd eY) Hp); lia).
      assert (Hl : lr_gt eY pi = false).
      { unfold lr_gt. rewrite LY. cbn [orb]. apply N.ltb_ge. lia. }
      rewrite Hl. eexists. split; [reflexivity|exact HT].
    + right. unfold Tgt, Tge. pose proof (sum_ge_le_gt p pi (snd eX) Hp). lia.
  - intros c Hc. destruct (pz_cuts _ _ _ PY) as (l & L1 & _ & _ & _ & L5).
    cbn [fst] in L1. rewrite CY in L1. cbn [app] in L1. rewrite L1 in Hc.
    destruct (L5 c Hc) as (pi & Hpi & ->). unfold cutform. cbn [c_blockers]. eexists. reflexivity.
  - destruct (pz_cuts _ _ _ PY) as (l & L1 & _ & _ & L4 & _).
    cbn [fst] in L1. rewrite CY in L1. cbn [app] in L1. rewrite L1. exact L4.
Qed.

Section YB.
Variables (R F : N) (assigned : list N) (a0 a1 : N) (q0 q1 : list (N * list N)).
Hypothesis Ha0 : 0 < a0.
Hypothesis Ha1 : 0 < a1.
Hypothesis H0F : a0 <= F.
Hypothesis H1F : a1 <= F.
Hypothesis HFR : F <= R.
Hypothesis Hc0 : R / a0 <= SCHED_MAX_TASK_PER_WORKER.
Hypothesis Hc1 : R / a1 <= SCHED_MAX_TASK_PER_WORKER.

Let I := yinst R F assigned a0 a1 q0 q1.
Let eA := eA0 F a0 q0.
Let eB := eB0 F a1 q1.

Theorem ybatches_BF : ready_wf q0 -> ready_wf q1 -> q0 <> [] -> q1 <> [] -> (length q0 <= 32)%nat -> (length q1 <= 32)%nat ->
  exists bA bB, create_task_batches I = Ok [bA; bB] /\ BF eA eB 0 1 bA bB /\ BF eB eA 1 0 bB bA.
Proof.
  intros Hw0 Hw1 Hn0 Hn1 Hl0 Hl1.
  destruct (ybatches R F assigned a0 a1 q0 q1 Ha0 Ha1 H0F H1F HFR Hc0 Hc1 Hw0 Hw1 Hn0 Hn1 Hl0 Hl1)
    as (bA & bB & Ecr & Eml & PA & PB).
  fold I in Ecr. fold eA eB in Eml, PA, PB.
  exists bA, bB. split; [exact Ecr|].
  pose proof (ent0_inv 0 (F / a0) q0 Hw0) as IA. pose proof (ent0_inv 1 (F / a1) q1 Hw1) as IB.
  fold (eA0 F a0 q0) in IA. fold (eB0 F a1 q1) in IB. fold eA in IA. fold eB in IB.
  destruct (post_BF_half eA eB bA bB eq_refl eq_refl eq_refl eq_refl PA PB) as (A1 & A2 & A3 & A4 & A5).
  destruct (post_BF_half eB eA bB bA eq_refl eq_refl eq_refl eq_refl PB PA) as (B1 & B2 & B3 & B4 & B5).
  pose proof (pz_rq _ _ _ PA) as RA. pose proof (pz_rq _ _ _ PB) as RB. cbn in RA, RB.
  assert (Hlen : (length (snd eA) + length (snd eB) < S (length (levels q0) + (length (levels q1) + 0)))%nat).
  { cbn [eA eB eA0 eB0 ent0 snd]. lia. }
  split.
  - split; try assumption.
    intros p q Hp Hq Hqp Hlr.
    destruct (phase1_B _ eA eB None p q (bA, []) (bB, []) IA IB Hlen Hp Hq Hqp Hlr Eml) as [(c & bsz & G1 & G2 & G3 & G4) _].
    cbn [fst] in G1, G3. rewrite RA in G3. exists c, bsz. repeat split; assumption.
  - split; try assumption.
    intros p q Hp Hq Hqp Hlr.
    destruct (phase1_A _ eB eA None p q (bB, []) (bA, []) IB IA Hlen Hp Hq Hqp Hlr Eml) as [(c & bsz & G1 & G2 & G3 & G4) _].
    cbn [fst] in G1, G3. rewrite RB in G3. exists c, bsz. repeat split; assumption.
Qed.

End YB.
