(** C15: the wider candidate [C15_no_inversion_exact_class_full] (one worker, one resource kind, two
    request classes with INTERLEAVED priority levels) is FALSE of the faithful model.

    K6 - pruning of the cuts.  [create_task_batches] keeps at most SCHED_BATCH_PRUNING_MAX_SIZE = 32 cuts
    per batch ([prune_progressive]: the first 4, then a quadratically thinned selection).  Two classes
    whose priority levels alternate more than 32 times lose cuts; for a lost cut "fewer than s tasks of
    X placed => at most c tasks of Y" the next kept cut (c' > c) takes over, so Y may place tasks of
    levels BELOW a waiting X task.

    Witness: one worker with 133 fractions, class 0 asks 2, class 1 asks 3 (all gaps are 0), 40 levels
    per class with one task each, priorities 80, 78, ... (class 0) and 79, 77, ... (class 1).  With all
    cuts the feasible placements are (k, k) and (k + 1, k); the pruning drops (among others) the cut
    "x0 >= 27 or x1 <= 26" of class 1, which admits (26, 27) - the only way to use all 133 fractions
    (2 * 26 + 3 * 27 = 133; the best regular point (27, 26) uses 132).  It is optimal, it dispatches the
    class-1 task of priority 27 while the class-0 task of priority 28 waits and fits. *)
From HQ Require Import Base.Prelude Gen.Consts Sched.Model Sched.ProofsOrder Sched.ProofsRows Sched.ProofsCuts Sched.ProofsExact.
Require Import ZifyBool ZifyN ZifyNat.
Open Scope N_scope.

Definition k6_q0 : list (N * list N) := map (fun k => (82 - 2 * k, [k])) (seqN 1 40).
Definition k6_q1 : list (N * list N) := map (fun k => (81 - 2 * k, [100 + k])) (seqN 1 40).

Definition k6_inst : inst :=
  {| i_nres := 1; i_now := 0;
     i_workers := [{| w_id := 1; w_res := [133]; w_free := [133]; w_assigned := []; w_blocked := []; w_term := None |}];
     i_classes := [ {| rc_entries := [(0, 2)]; rc_min_time := 0; rc_all := [] |};
                    {| rc_entries := [(0, 3)]; rc_min_time := 0; rc_all := [] |} ];
     i_queues := [ {| q_ready := k6_q0; q_prefill := None |}; {| q_ready := k6_q1; q_prefill := None |} ] |}.

(** 26 tasks of class 0, 27 of class 1; every blocker variable at its forced value *)
Definition k6_sol : sol :=
  fun v => match v with
           | VX 1 0 => 26%Z
           | VX 1 1 => 27%Z
           | VX _ _ => 0%Z
           | VR _ _ => 0%Z
           | VB 0 sz => if 26 <? sz then 1%Z else 0%Z
           | VB _ sz => if 27 <? sz then 1%Z else 0%Z
           end.

Definition k6_dispatch : dispatch :=
  map (fun k => (k, 1)) (seqN 1 26) ++ map (fun k => (100 + k, 1)) (seqN 1 27).

Definition k6_bs : list batch :=
  Eval vm_compute in (match create_task_batches k6_inst with Ok b => b | _ => [] end).
Definition k6_m : list entry :=
  Eval vm_compute in (match milp_of k6_inst k6_bs with Ok x => x | _ => [] end).

(** the cut "x0 >= 27 or x1 <= 26" of class 1 is gone: 40 cuts were built, 32 are kept *)
Example k6_pruned :
  map (fun b => length (b_cuts b)) k6_bs = [32%nat; 32%nat]
  /\ existsb (fun b => existsb (fun c => c_size c =? 26) (b_cuts b) && (b_rq b =? 1)) k6_bs = false
  /\ existsb (fun b => existsb (fun c => c_size c =? 25) (b_cuts b) && (b_rq b =? 1)) k6_bs = true.
Proof. vm_compute. repeat split. Qed.

Lemma k6_batches : create_task_batches k6_inst = Ok k6_bs.
Proof. vm_compute. reflexivity. Qed.
Lemma k6_milp : milp_of k6_inst k6_bs = Ok k6_m.
Proof. vm_compute. reflexivity. Qed.
Lemma k6_feasible : feasible k6_m k6_sol = true.
Proof. vm_compute. reflexivity. Qed.
Lemma k6_objective : objective k6_m k6_sol = 13300%Z.
Proof. vm_compute. reflexivity. Qed.

(** optimality: the resource row bounds the objective of every feasible point by 100 * 133 *)
Definition k6_its : list item :=
  Eval vm_compute in (match all_items k6_inst k6_bs with Ok x => x | _ => [] end).
Definition k6_W : list entry :=
  [EVar (VX 1 0) KNat 200%Z; EVar (VX 1 1) KNat 300%Z;
   ERow {| r_kind := RRes 1 0; r_terms := [(VX 1 0, 2%Z); (VX 1 1, 3%Z)]; r_le := true; r_bound := 133%Z |}].
Lemma k6_m_eq : k6_m = k6_W ++ emit k6_inst k6_bs [] k6_its.
Proof. vm_compute. reflexivity. Qed.

Lemma k6_optimal : forall s', feasible k6_m s' = true -> (objective k6_m s' <= objective k6_m k6_sol)%Z.
Proof.
  intros s' Hf. rewrite k6_objective. rewrite k6_m_eq in Hf |- *.
  rewrite feasible_app in Hf. apply andb_true_iff in Hf. destruct Hf as [Hf _].
  rewrite objective_app, objective_emit.
  unfold feasible, k6_W in Hf. cbn [forallb entry_ok row_ok row_lhs r_le r_terms r_bound fold_right fst snd] in Hf.
  unfold objective, k6_W. cbn [fold_right]. lia.
Qed.

Lemma k6_mapping : mapping_ok k6_inst k6_bs k6_sol k6_dispatch = true.
Proof. vm_compute. reflexivity. Qed.
Lemma k6_inversion : inversion k6_inst k6_dispatch = true.
Proof. vm_compute. reflexivity. Qed.

(** the inversion: the class-1 task 127 (priority 27) runs, the class-0 task 27 (priority 28) waits *)
Example k6_witness :
  In ({| t_id := 127; t_rq := 1; t_prio := 27 |},
      {| w_id := 1; w_res := [133]; w_free := [133]; w_assigned := []; w_blocked := []; w_term := None |},
      {| t_id := 27; t_rq := 0; t_prio := 28 |}) (inversions k6_inst k6_dispatch).
Proof. vm_compute. tauto. Qed.

(** none of the known classes K1 .. K5 explains it: K5 does not apply (the waiting task does not fit
    next to everything dispatched) and the tight rows K1, K2, K4 hold *)
Example k6_unclassified :
  forallb (fun x => match classify k6_inst k6_bs k6_sol k6_dispatch x with VUnclassified | VK3 | VK4 => true | _ => false end)
          (inversions k6_inst k6_dispatch) = true.
Proof. vm_compute. reflexivity. Qed.

(** the statement of [properties/C15.v] ([C15_no_inversion_exact_class_full]), repeated verbatim *)
Definition no_inversion_exact_class_full : Prop :=
  forall I bs m s d w,
    i_workers I = [w] -> i_nres I = 1%N -> length (i_classes I) = 2%nat -> inst_wf I ->
    create_task_batches I = Ok bs -> milp_of I bs = Ok m -> feasible m s = true ->
    (forall s', feasible m s' = true -> (objective m s' <= objective m s)%Z) ->
    mapping_ok I bs s d = true -> inversion I d = false.

Lemma k6_inst_wf : inst_wf k6_inst.
Proof.
  split.
  - cbn. repeat constructor. intros [].
  - intros c Hc. cbn in Hc. destruct Hc as [<-|[<-|[]]]; split; repeat constructor; cbn; lia.
  - intros c Hc. cbn in Hc. destruct Hc as [<-|[<-|[]]]; constructor.
Qed.

Theorem no_inversion_exact_class_full_refuted : ~ no_inversion_exact_class_full.
Proof.
  intros H.
  pose proof (H k6_inst k6_bs k6_m k6_sol k6_dispatch _ eq_refl eq_refl eq_refl k6_inst_wf
                k6_batches k6_milp k6_feasible k6_optimal k6_mapping) as Hn.
  rewrite k6_inversion in Hn. discriminate.
Qed.

(** in the form of the other refutations ([Witness.refutes] without the verdict) *)
Theorem K6_refuted : exists I s d bs m,
  (exists w, i_workers I = [w]) /\ i_nres I = 1 /\ length (i_classes I) = 2%nat /\ inst_wf I
  /\ create_task_batches I = Ok bs /\ milp_of I bs = Ok m /\ feasible m s = true
  /\ (forall s', feasible m s' = true -> (objective m s' <= objective m s)%Z)
  /\ mapping_ok I bs s d = true /\ inversion I d = true.
Proof.
  exists k6_inst, k6_sol, k6_dispatch, k6_bs, k6_m.
  split; [eexists; reflexivity|]. split; [reflexivity|]. split; [reflexivity|]. split; [exact k6_inst_wf|].
  split; [exact k6_batches|]. split; [exact k6_milp|]. split; [exact k6_feasible|]. split; [exact k6_optimal|].
  split; [exact k6_mapping|exact k6_inversion].
Qed.

Print Assumptions no_inversion_exact_class_full_refuted.
Print Assumptions K6_refuted.
