(** C15: semantics of the cut rows.  Every feasible point of the exact row system satisfies, for every
    batch (low class), cut and blocker whose blocking size is not reached (or that is unbounded): on every
    worker where the blocker class may run and the gap is positive, at most [cut + gap] tasks of the low
    class are placed ([cut_semantics_gap]). *)
From HQ Require Import Base.Prelude Gen.Consts Sched.Model Sched.ProofsRows.
Require Import ZifyBool ZifyN ZifyNat.
Open Scope N_scope.

Definition xvars (I : inst) (bs : list batch) (w : worker) (l : N) : list var :=
  if has_x I bs w l then [VX (w_id w) l] else [].

(** ** inversion of the result monad *)
Lemma collect_res_in : forall {A B} (f : A -> res B) l out a,
  collect_res (map f l) = Ok out -> In a l -> exists b, f a = Ok b /\ In b out.
Proof.
  intros A B f. induction l as [|x t IH]; intros out a H Hin; simpl in *; [contradiction|].
  destruct (f x) as [bx| |] eqn:E; simpl in H; try discriminate.
  destruct (collect_res (map f t)) as [bs| |] eqn:E2; simpl in H; try discriminate.
  inversion H; subst. destruct Hin as [->|Hin].
  - exists bx. split; [assumption|left; reflexivity].
  - destruct (IH bs a eq_refl Hin) as (b & Hb & Hi). exists b. split; [assumption|right; assumption].
Qed.

(** ** the items generated for one (cut, blocker) over the workers *)
Lemma blocker_items_cons : forall I bs b c h bsz hb w t zero,
  blocker_items I bs b c h bsz hb (w :: t) zero =
  if capable I w h then
    do g <- gap I w h (b_rq b);
    let vars := if has_x I bs w (b_rq b) then [VX (w_id w) (b_rq b)] else [] in
    if 0 <? g then
      do r <- blocker_items I bs b c h bsz hb t zero;
      let it := match bsz with
                | Some s => if hb then [IGapB (w_id w) (b_rq b) h (c_size c) s g (b_size b) vars] else []
                | None => [IGapU (w_id w) (b_rq b) h (c_size c) g vars]
                end in
      Ok (it ++ fst r, snd r)
    else blocker_items I bs b c h bsz hb t (zero ++ vars)
  else blocker_items I bs b c h bsz hb t zero.
Proof. reflexivity. Qed.

Lemma blocker_items_gap : forall I bs b c h bsz hb ws zero its zero' w g,
  blocker_items I bs b c h bsz hb ws zero = Ok (its, zero') ->
  In w ws -> capable I w h = true -> gap I w h (b_rq b) = Ok g -> 0 < g ->
  match bsz with
  | Some s => hb = true -> In (IGapB (w_id w) (b_rq b) h (c_size c) s g (b_size b) (xvars I bs w (b_rq b))) its
  | None => In (IGapU (w_id w) (b_rq b) h (c_size c) g (xvars I bs w (b_rq b))) its
  end.
Proof.
  intros I bs b c h bsz hb ws. induction ws as [|w0 t IH]; intros zero its zero' w g H Hin Hcap Hg Hpos; [contradiction|].
  rewrite blocker_items_cons in H. destruct Hin as [->|Hin].
  - rewrite Hcap, Hg in H. cbn [bind] in H. destruct (N.ltb_spec 0 g) as [_|]; [|lia].
    destruct (blocker_items I bs b c h bsz hb t zero) as [[its1 z1]| |] eqn:E; cbn [bind fst snd] in H; try discriminate.
    inversion H; subst. destruct bsz as [s|].
    + intros ->. apply in_or_app. left. left. reflexivity.
    + apply in_or_app. left. left. reflexivity.
  - destruct (capable I w0 h).
    + destruct (gap I w0 h (b_rq b)) as [g0| |]; cbn [bind] in H; try discriminate.
      destruct (0 <? g0).
      * destruct (blocker_items I bs b c h bsz hb t zero) as [[its1 z1]| |] eqn:E; cbn [bind fst snd] in H; try discriminate.
        inversion H; subst. specialize (IH _ _ _ w g E Hin Hcap Hg Hpos).
        destruct bsz; [intros Hb; apply in_or_app; right; apply IH; assumption|apply in_or_app; right; apply IH].
      * apply (IH _ _ _ w g H Hin Hcap Hg Hpos).
    + apply (IH _ _ _ w g H Hin Hcap Hg Hpos).
Qed.

Lemma cut_items_gap : forall I bs b c bl seen its seen' h bsz w g,
  cut_items I bs b c bl seen = Ok (its, seen') ->
  In (h, bsz) bl -> In w (i_workers I) -> capable I w h = true -> gap I w h (b_rq b) = Ok g -> 0 < g ->
  match bsz with
  | Some s => count_vars I bs h <> [] -> In (IGapB (w_id w) (b_rq b) h (c_size c) s g (b_size b) (xvars I bs w (b_rq b))) its
  | None => In (IGapU (w_id w) (b_rq b) h (c_size c) g (xvars I bs w (b_rq b))) its
  end.
Proof.
  intros I bs b c. induction bl as [|[h0 bsz0] t IH]; intros seen its seen' h bsz w g H Hin Hw Hcap Hg Hpos; [contradiction|].
  simpl in H.
  destruct (blocker_items I bs b c h0 bsz0 _ (i_workers I) []) as [[its1 zero]| |] eqn:E; simpl in H; try discriminate.
  set (zz := match zero with [] => _ | _ => _ end) in H. destruct zz as [zitem seen1].
  destruct (cut_items I bs b c t seen1) as [[its2 seen2]| |] eqn:E2; simpl in H; try discriminate.
  inversion H; subst. destruct Hin as [Heq|Hin].
  - inversion Heq; subst. pose proof (blocker_items_gap _ _ _ _ _ _ _ _ _ _ _ w g E Hw Hcap Hg Hpos) as Hb.
    simpl in Hb. destruct bsz as [s|].
    + intros Hcv. apply in_or_app. left. apply Hb. destruct (count_vars I bs h); [congruence|reflexivity].
    + apply in_or_app. left. assumption.
  - specialize (IH _ _ _ h bsz w g E2 Hin Hw Hcap Hg Hpos). destruct bsz; [intros Hcv; apply in_or_app; right; apply in_or_app; right; auto
                  |apply in_or_app; right; apply in_or_app; right; auto].
Qed.

Lemma cuts_items_gap : forall I bs b cs seen its c h bsz w g,
  cuts_items I bs b cs seen = Ok its ->
  In c cs -> In (h, bsz) (c_blockers c) -> In w (i_workers I) -> capable I w h = true ->
  gap I w h (b_rq b) = Ok g -> 0 < g ->
  match bsz with
  | Some s => count_vars I bs h <> [] -> In (IGapB (w_id w) (b_rq b) h (c_size c) s g (b_size b) (xvars I bs w (b_rq b))) its
  | None => In (IGapU (w_id w) (b_rq b) h (c_size c) g (xvars I bs w (b_rq b))) its
  end.
Proof.
  intros I bs b. induction cs as [|c0 t IH]; intros seen its c h bsz w g H Hc Hbl Hw Hcap Hg Hpos; [contradiction|].
  simpl in H. destruct (cut_items I bs b c0 (c_blockers c0) seen) as [[its1 seen1]| |] eqn:E; simpl in H; try discriminate.
  destruct (cuts_items I bs b t seen1) as [its2| |] eqn:E2; simpl in H; try discriminate.
  inversion H; subst. destruct Hc as [->|Hc].
  - pose proof (cut_items_gap _ _ _ _ _ _ _ _ h bsz w g E Hbl Hw Hcap Hg Hpos) as Hb.
    destruct bsz; [intros Hcv; apply in_or_app; left; auto|apply in_or_app; left; auto].
  - specialize (IH _ _ c h bsz w g E2 Hc Hbl Hw Hcap Hg Hpos). destruct bsz; [intros Hcv; apply in_or_app; right; auto|apply in_or_app; right; auto].
Qed.

Lemma all_items_gap : forall I bs its b c h bsz w g,
  all_items I bs = Ok its -> In b bs -> count_vars I bs (b_rq b) <> [] ->
  In c (b_cuts b) -> In (h, bsz) (c_blockers c) -> In w (i_workers I) -> capable I w h = true ->
  gap I w h (b_rq b) = Ok g -> 0 < g ->
  match bsz with
  | Some s => count_vars I bs h <> [] -> In (IGapB (w_id w) (b_rq b) h (c_size c) s g (b_size b) (xvars I bs w (b_rq b))) its
  | None => In (IGapU (w_id w) (b_rq b) h (c_size c) g (xvars I bs w (b_rq b))) its
  end.
Proof.
  intros I bs its b c h bsz w g H Hb Hcv Hc Hbl Hw Hcap Hg Hpos.
  unfold all_items in H. destruct (collect_res (map (batch_items I bs) bs)) as [l| |] eqn:E; simpl in H; try discriminate.
  inversion H; subst. destruct (collect_res_in _ _ _ b E Hb) as (bi & Hbi & Hin).
  unfold batch_items in Hbi. destruct (count_vars I bs (b_rq b)) eqn:Ecv; [congruence|].
  destruct (cuts_items I bs b (b_cuts b) []) as [ci| |] eqn:E3; simpl in Hbi; try discriminate. inversion Hbi; subst.
  pose proof (cuts_items_gap _ _ _ _ _ _ c h bsz w g E3 Hc Hbl Hw Hcap Hg Hpos) as Hx.
  destruct bsz.
  - intros Hcvh. apply in_concat. eexists. split; [exact Hin|]. apply in_or_app. right. auto.
  - apply in_concat. eexists. split; [exact Hin|]. apply in_or_app. right. auto.
Qed.

(** ** emission *)
Lemma emit_row_in : forall I bs its created it, In it its -> In (ERow (item_row I bs it)) (emit I bs created its).
Proof.
  intros I bs. induction its as [|i0 t IH]; intros created it Hin; [contradiction|].
  simpl. destruct Hin as [->|Hin].
  - destruct (item_bvar it) as [hs|]; [destruct (pair_mem hs created)|]; simpl; auto.
  - destruct (item_bvar i0) as [hs|]; [destruct (pair_mem hs created)|]; simpl; auto 6.
Qed.

Lemma pair_mem_spec : forall p l, pair_mem p l = true <-> In p l.
Proof.
  intros [a b] l. unfold pair_mem. rewrite existsb_exists. split.
  - intros ([x y] & Hin & H). simpl in H. apply andb_true_iff in H. destruct H as [H1 H2].
    apply N.eqb_eq in H1. apply N.eqb_eq in H2. subst. assumption.
  - intros H. exists (a, b). split; [assumption|]. simpl. rewrite !N.eqb_refl. reflexivity.
Qed.

Lemma emit_blk_in : forall I bs its created it h s,
  In it its -> item_bvar it = Some (h, s) -> ~ In (h, s) created ->
  In (ERow (blk_row I bs h s)) (emit I bs created its) /\ In (EVar (VB h s) KBool 0%Z) (emit I bs created its).
Proof.
  intros I bs. induction its as [|i0 t IH]; intros created it h s Hin Hb Hnc; [contradiction|].
  simpl. destruct (item_bvar i0) as [hs|] eqn:E0.
  - destruct (pair_mem hs created) eqn:Em.
    + destruct Hin as [->|Hin].
      * rewrite Hb in E0. inversion E0; subst. apply pair_mem_spec in Em. contradiction.
      * destruct (IH created it h s Hin Hb Hnc). split; right; assumption.
    + destruct hs as [h0 s0]. simpl.
      destruct (N.eq_dec h0 h) as [->|Hh]; [destruct (N.eq_dec s0 s) as [->|Hs]|].
      * split; auto.
      * destruct Hin as [->|Hin]; [rewrite Hb in E0; inversion E0; congruence|].
        destruct (IH ((h, s0) :: created) it h s Hin Hb) as [H1 H2]; [intros [H|H]; [inversion H; congruence|contradiction]|].
        split; auto.
      * destruct Hin as [->|Hin]; [rewrite Hb in E0; inversion E0; congruence|].
        destruct (IH ((h0, s0) :: created) it h s Hin Hb) as [H1 H2]; [intros [H|H]; [inversion H; congruence|contradiction]|].
        split; auto.
  - destruct Hin as [->|Hin]; [congruence|].
    destruct (IH created it h s Hin Hb Hnc). split; right; assumption.
Qed.

Lemma milp_items : forall I bs m, milp_of I bs = Ok m ->
  exists its, all_items I bs = Ok its /\ forall e, In e (emit I bs [] its) -> In e m.
Proof.
  intros I bs m H. unfold milp_of in H. destruct (all_items I bs) as [its| |]; simpl in H; try discriminate.
  inversion H; subst. exists its. split; [reflexivity|]. intros e He. apply in_or_app. right. assumption.
Qed.


Lemma lhs_ones : forall (s : sol) vs, lhs s (ones vs) = fold_right (fun v acc => (s v + acc)%Z) 0%Z vs.
Proof. intros s vs. induction vs as [|v t IH]; simpl; [reflexivity|]. rewrite IH. lia. Qed.

Lemma lhs_xvars : forall I bs (s : sol) w l,
  lhs s (ones (xvars I bs w l)) = if has_x I bs w l then s (VX (w_id w) l) else 0%Z.
Proof. intros. unfold xvars. destruct (has_x I bs w l); simpl; lia. Qed.

Lemma placed_le : forall I bs (s : sol) w l (k : N),
  (lhs s (ones (xvars I bs w l)) <= Z.of_N k)%Z -> placed I bs s w l <= k.
Proof.
  intros I bs s w l k H. rewrite lhs_xvars in H. unfold placed, sol_x.
  destruct (has_x I bs w l); lia.
Qed.

(** an unsatisfied blocker forces its blocker variable to 1 *)
Lemma blocker_forced : forall I bs m (s : sol) h sz,
  feasible m s = true ->
  In (ERow (blk_row I bs h sz)) m -> In (EVar (VB h sz) KBool 0%Z) m ->
  (count_of I bs s h < Z.of_N sz)%Z -> s (VB h sz) = 1%Z.
Proof.
  intros I bs m s h sz Hf Hrow Hvar Hlt.
  pose proof (feasible_in m s _ Hf Hrow) as Hr. pose proof (feasible_in m s _ Hf Hvar) as Hv.
  simpl in Hv. unfold blk_row in Hr. simpl in Hr. unfold row_ok, row_lhs in Hr. simpl in Hr.
  fold (lhs s (ones (count_vars I bs h) ++ [(VB h sz, z sz)])) in Hr. rewrite lhs_app, lhs_ones in Hr.
  fold (count_of I bs s h) in Hr. simpl in Hr. unfold z in *. nia.
Qed.

(** * C15: semantics of the cut rows (per worker with a positive gap) *)
Theorem cut_semantics_gap : forall I bs m s b c h bsz w g,
  milp_of I bs = Ok m -> feasible m s = true ->
  In b bs -> count_vars I bs (b_rq b) <> [] -> In c (b_cuts b) -> In (h, bsz) (c_blockers c) ->
  blocker_open I bs s (h, bsz) = true ->
  In w (i_workers I) -> capable I w h = true -> gap I w h (b_rq b) = Ok g -> 0 < g ->
  placed I bs s w (b_rq b) <= c_size c + g.
Proof.
  intros I bs m s b c h bsz w g Hm Hf Hb Hcv Hc Hbl Hopen Hw Hcap Hg Hpos.
  destruct (milp_items I bs m Hm) as (its & Hits & Hemit).
  pose proof (all_items_gap I bs its b c h bsz w g Hits Hb Hcv Hc Hbl Hw Hcap Hg Hpos) as Hitem.
  unfold blocker_open in Hopen. simpl in Hopen.
  destruct bsz as [sz|].
  - destruct (count_vars I bs h) eqn:Ecv; [discriminate|]. rewrite <- Ecv in *.
    assert (Hcvh : count_vars I bs h <> []) by (rewrite Ecv; discriminate).
    specialize (Hitem Hcvh).
    pose proof (Hemit _ (emit_row_in I bs its [] _ Hitem)) as Hrow.
    destruct (emit_blk_in I bs its [] _ h sz Hitem eq_refl (fun x => x)) as [Hblk Hvar].
    pose proof (blocker_forced I bs m s h sz Hf (Hemit _ Hblk) (Hemit _ Hvar)) as HB.
    assert (Hlt : (count_of I bs s h < Z.of_N sz)%Z) by (unfold z in Hopen; lia).
    specialize (HB Hlt).
    pose proof (feasible_in m s _ Hf Hrow) as Hr. simpl in Hr. unfold row_ok, row_lhs in Hr. simpl in Hr.
    fold (lhs s (ones (xvars I bs w (b_rq b)) ++ [(VB h sz, z (b_size b))])) in Hr. rewrite lhs_app in Hr.
    simpl in Hr. rewrite HB in Hr. apply placed_le. unfold z in *. lia.
  - pose proof (Hemit _ (emit_row_in I bs its [] _ Hitem)) as Hrow.
    pose proof (feasible_in m s _ Hf Hrow) as Hr. simpl in Hr. unfold row_ok, row_lhs in Hr. simpl in Hr.
    fold (lhs s (ones (xvars I bs w (b_rq b)))) in Hr. apply placed_le. unfold z in *. lia.
Qed.

(** ** the aggregate row over the zero-gap workers *)

Definition zero_gap (I : inst) (w : worker) (h l : N) : bool :=
  capable I w h && match gap I w h l with Ok g => g =? 0 | _ => false end.

Definition zero_sum (I : inst) (bs : list batch) (s : sol) (h l : N) (ws : list worker) : Z :=
  fold_right (fun w acc => ((if zero_gap I w h l then lhs s (ones (xvars I bs w l)) else 0) + acc)%Z) 0%Z ws.

Lemma ones_app : forall a b, ones (a ++ b) = ones a ++ ones b.
Proof. intros. unfold ones. apply map_app. Qed.

Lemma blocker_items_zero : forall I bs (s : sol) b c h bsz hb ws zero its zero',
  blocker_items I bs b c h bsz hb ws zero = Ok (its, zero') ->
  lhs s (ones zero') = (lhs s (ones zero) + zero_sum I bs s h (b_rq b) ws)%Z.
Proof.
  intros I bs s b c h bsz hb. induction ws as [|w t IH]; intros zero its zero' H.
  - simpl in H. inversion H; subst. simpl. lia.
  - rewrite blocker_items_cons in H. cbn [zero_sum fold_right]. fold (zero_sum I bs s h (b_rq b) t).
    unfold zero_gap. destruct (capable I w h); cbn [andb].
    + destruct (gap I w h (b_rq b)) as [g| |]; cbn [bind] in H; try discriminate.
      destruct (N.ltb_spec 0 g) as [Hpos|Hz].
      * destruct (blocker_items I bs b c h bsz hb t zero) as [[its1 z1]| |] eqn:E; cbn [bind fst snd] in H; try discriminate.
        inversion H; subst. rewrite (IH _ _ _ E). destruct (N.eqb_spec g 0); lia.
      * rewrite (IH _ _ _ H). fold (xvars I bs w (b_rq b)). rewrite ones_app, lhs_app.
        destruct (N.eqb_spec g 0); lia.
    + rewrite (IH _ _ _ H). lia.
Qed.

Lemma cut_items_zero : forall I bs b c bl seen its seen' h sz,
  cut_items I bs b c bl seen = Ok (its, seen') -> In (h, Some sz) bl -> count_vars I bs h <> [] ->
  exists zero, (forall s : sol, lhs s (ones zero) = zero_sum I bs s h (b_rq b) (i_workers I))
               /\ (zero = [] \/ In (IZeroB (b_rq b) h (c_size c) sz (b_size b) zero) its).
Proof.
  intros I bs b c. induction bl as [|[h0 bsz0] t IH]; intros seen its seen' h sz H Hin Hcv; [contradiction|].
  simpl in H.
  destruct (blocker_items I bs b c h0 bsz0 _ (i_workers I) []) as [[its1 zero]| |] eqn:E; simpl in H; try discriminate.
  destruct Hin as [Heq|Hin].
  - inversion Heq; subst. exists zero. split.
    + intros s. rewrite (blocker_items_zero I bs s _ _ _ _ _ _ _ _ _ E). simpl. lia.
    + destruct zero as [|v vs]; [left; reflexivity|right].
      destruct (count_vars I bs h) eqn:Ecv; [congruence|].
      destruct (cut_items I bs b c t seen) as [[its2 seen2]| |] eqn:E2; simpl in H; try discriminate.
      inversion H; subst. apply in_or_app. right. left. reflexivity.
  - set (zz := match zero with [] => _ | _ => _ end) in H. destruct zz as [zitem seen1].
    destruct (cut_items I bs b c t seen1) as [[its2 seen2]| |] eqn:E2; simpl in H; try discriminate.
    inversion H; subst. destruct (IH _ _ _ h sz E2 Hin Hcv) as (z0 & Hz & Hor). exists z0. split; [assumption|].
    destruct Hor as [->|Hi]; [left; reflexivity|right]. apply in_or_app. right. apply in_or_app. right. assumption.
Qed.

Lemma cuts_items_zero : forall I bs b cs seen its c h sz,
  cuts_items I bs b cs seen = Ok its -> In c cs -> In (h, Some sz) (c_blockers c) -> count_vars I bs h <> [] ->
  exists zero, (forall s : sol, lhs s (ones zero) = zero_sum I bs s h (b_rq b) (i_workers I))
               /\ (zero = [] \/ In (IZeroB (b_rq b) h (c_size c) sz (b_size b) zero) its).
Proof.
  intros I bs b. induction cs as [|c0 t IH]; intros seen its c h sz H Hc Hbl Hcv; [contradiction|].
  simpl in H. destruct (cut_items I bs b c0 (c_blockers c0) seen) as [[its1 seen1]| |] eqn:E; simpl in H; try discriminate.
  destruct (cuts_items I bs b t seen1) as [its2| |] eqn:E2; simpl in H; try discriminate.
  inversion H; subst. destruct Hc as [->|Hc].
  - destruct (cut_items_zero _ _ _ _ _ _ _ _ h sz E Hbl Hcv) as (z0 & Hz & Hor). exists z0. split; [assumption|].
    destruct Hor as [->|Hi]; [left; reflexivity|right; apply in_or_app; left; assumption].
  - destruct (IH _ _ c h sz E2 Hc Hbl Hcv) as (z0 & Hz & Hor). exists z0. split; [assumption|].
    destruct Hor as [->|Hi]; [left; reflexivity|right; apply in_or_app; right; assumption].
Qed.

(** * C15: semantics of the cut rows (aggregate over the zero-gap workers, bounded blocker) *)
Theorem cut_semantics_zero : forall I bs m s b c h sz,
  milp_of I bs = Ok m -> feasible m s = true ->
  In b bs -> count_vars I bs (b_rq b) <> [] -> In c (b_cuts b) -> In (h, Some sz) (c_blockers c) ->
  blocker_open I bs s (h, Some sz) = true ->
  (zero_sum I bs s h (b_rq b) (i_workers I) <= Z.of_N (c_size c))%Z.
Proof.
  intros I bs m s b c h sz Hm Hf Hb Hcv Hc Hbl Hopen.
  destruct (milp_items I bs m Hm) as (its & Hits & Hemit).
  unfold blocker_open in Hopen. simpl in Hopen.
  assert (Hcvh : count_vars I bs h <> []) by (intros E0; rewrite E0 in Hopen; discriminate).
  assert (Hlt : (count_of I bs s h < Z.of_N sz)%Z)
    by (destruct (count_vars I bs h); [congruence|unfold z in Hopen; lia]).
  (* locate the item *)
  unfold all_items in Hits. destruct (collect_res (map (batch_items I bs) bs)) as [l| |] eqn:E; simpl in Hits; try discriminate.
  inversion Hits; subst. destruct (collect_res_in _ _ _ b E Hb) as (bi & Hbi & Hin).
  unfold batch_items in Hbi. destruct (count_vars I bs (b_rq b)) eqn:Ecvb; [congruence|].
  destruct (cuts_items I bs b (b_cuts b) []) as [ci| |] eqn:E3; simpl in Hbi; try discriminate. inversion Hbi; subst.
  destruct (cuts_items_zero _ _ _ _ _ _ c h sz E3 Hc Hbl Hcvh) as (zero & Hz & Hor).
  rewrite <- Hz. destruct Hor as [->|Hi]; [simpl; lia|].
  assert (Hitem : In (IZeroB (b_rq b) h (c_size c) sz (b_size b) zero) (concat l)).
  { apply in_concat. eexists. split; [exact Hin|]. apply in_or_app. right. assumption. }
  pose proof (Hemit _ (emit_row_in I bs _ [] _ Hitem)) as Hrow.
  destruct (emit_blk_in I bs _ [] _ h sz Hitem eq_refl (fun x => x)) as [Hblk Hvar].
  pose proof (blocker_forced I bs m s h sz Hf (Hemit _ Hblk) (Hemit _ Hvar) Hlt) as HB.
  pose proof (feasible_in m s _ Hf Hrow) as Hr. simpl in Hr. unfold row_ok, row_lhs in Hr. simpl in Hr.
  fold (lhs s (ones zero ++ [(VB h sz, z (b_size b))])) in Hr. rewrite lhs_app in Hr.
  simpl in Hr. rewrite HB in Hr. unfold z in *. lia.
Qed.
