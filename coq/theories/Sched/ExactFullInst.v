(** C15, exact class with interleaved levels: the instance class [yinst] (one worker, one resource kind,
    two request classes with arbitrary ready queues), its batches (via the two-class merge analysis of
    [ExactFullMerge]) and its gaps. *)
From HQ Require Import Base.Prelude Gen.Consts Sched.Model Sched.ProofsOrder Sched.ProofsRows Sched.ProofsCuts
  Sched.ProofsExact Sched.ExactFullMerge.
Require Import ZifyBool ZifyN ZifyNat.
From Coq Require Import Sorting.Sorted.
Open Scope N_scope.
Local Arguments N.add : simpl never. Local Arguments N.sub : simpl never. Local Arguments N.mul : simpl never.
Local Arguments N.eqb : simpl never. Local Arguments N.ltb : simpl never. Local Arguments N.leb : simpl never.
Local Arguments N.of_nat : simpl never. Local Arguments N.to_nat : simpl never. Local Arguments N.div : simpl never.
Local Arguments N.min : simpl never. Local Arguments N.max : simpl never.

Definition yinst (R F : N) (assigned : list N) (a0 a1 : N) (q0 q1 : list (N * list N)) : inst :=
  {| i_nres := 1; i_now := 0;
     i_workers := [xworker R F assigned];
     i_classes := [ {| rc_entries := [(0, a0)]; rc_min_time := 0; rc_all := [] |}; {| rc_entries := [(0, a1)]; rc_min_time := 0; rc_all := [] |} ];
     i_queues := [ {| q_ready := q0; q_prefill := None |}; {| q_ready := q1; q_prefill := None |} ] |}.

(** the instance class of [ProofsExact] is the special case of one level in class 0 *)
Lemma xinst_yinst : forall R F assigned ah al ph hs lq,
  xinst R F assigned ah al ph hs lq = yinst R F assigned ah al [(ph, hs)] lq.
Proof. reflexivity. Qed.

(** ** level sums = task counts *)
Lemma filter_tag : forall (f : N -> bool) (p : N) ids,
  filter (fun t : N * N => f (fst t)) (map (fun id => (p, id)) ids) = if f p then map (fun id => (p, id)) ids else [].
Proof.
  intros f p ids. induction ids as [|i t IH]; cbn [map filter fst]; [destruct (f p); reflexivity|].
  rewrite IH. destruct (f p); reflexivity.
Qed.

Lemma filter_concat : forall {A} (f : A -> bool) ls, filter f (concat ls) = concat (map (filter f) ls).
Proof. intros A f ls. induction ls as [|l t IH]; cbn [concat map]; [reflexivity|]. rewrite filter_app, IH. reflexivity. Qed.

Lemma sum_flat : forall (f : N -> bool) q,
  nlen (filter (fun t : N * N => f (fst t)) (flat_tasks q))
  = fold_right (fun e acc => (if f (fst e) then snd e else 0) + acc) 0 (levels q).
Proof.
  intros f q. unfold flat_tasks, levels. induction q as [|e t IH]; [reflexivity|].
  cbn [map concat fold_right fst snd]. rewrite filter_app, nlen_app, IH, filter_tag.
  destruct (f (fst e)); [|reflexivity]. unfold nlen. rewrite map_length. reflexivity.
Qed.

Lemma sum_ge_flat : forall p q, sum_ge p (levels q) = nlen (filter (fun t : N * N => p <=? fst t) (flat_tasks q)).
Proof.
  intros p q. rewrite (sum_flat (fun x => p <=? x)). induction (levels q) as [|e t IH]; [reflexivity|].
  cbn [sum_ge fold_right]. rewrite IH. reflexivity.
Qed.
Lemma sum_gt_flat : forall p q, sum_gt p (levels q) = nlen (filter (fun t : N * N => p <? fst t) (flat_tasks q)).
Proof.
  intros p q. rewrite (sum_flat (fun x => p <? x)). induction (levels q) as [|e t IH]; [reflexivity|].
  cbn [sum_gt fold_right]. rewrite IH. reflexivity.
Qed.
Lemma sum_all_flat : forall q, sum_all (levels q) = nlen (flat_tasks q).
Proof.
  intros q. unfold flat_tasks, levels. induction q as [|e t IH]; [reflexivity|].
  cbn [map concat sum_all fst snd]. rewrite nlen_app, IH. unfold nlen. rewrite map_length. reflexivity.
Qed.

(** ** the initial entries of the merge loop *)
Definition ent0 (rq limit : N) (q : list (N * list N)) : ent := (b0 rq limit, levels q).

Lemma ent0_inv : forall rq limit q, ready_wf q -> Einv (ent0 rq limit q).
Proof.
  intros rq limit q [Hs Hf]. split; cbn [ent0 fst snd b0 b_lr b_size b_limit].
  - unfold desc, levels. induction Hs as [|e t Hs IH Hall]; cbn [map]; constructor.
    + apply IH. inversion Hf; assumption.
    + rewrite Forall_map. eapply Forall_impl; [|exact Hall]. cbv beta. intros x Hx. exact Hx.
  - unfold levels. rewrite Forall_map. eapply Forall_impl; [|exact Hf]. cbv beta. intros e [Hne _]. cbn [snd].
    destruct (snd e); [congruence|]. unfold nlen. cbn [length]. lia.
  - discriminate.
  - intros _. lia.
Qed.

Lemma set_cuts_same : forall b, set_cuts b (b_cuts b) = b.
Proof. intros []. reflexivity. Qed.

Lemma prune_small : forall {A} (v : list A), (length v <= 32)%nat ->
  prune_progressive v SCHED_BATCH_PRUNING_FIXED_PREFIX SCHED_BATCH_PRUNING_MAX_SIZE = Ok v.
Proof.
  intros A v H. unfold prune_progressive.
  destruct (N.leb_spec (nlen v) SCHED_BATCH_PRUNING_MAX_SIZE) as [_|Hgt]; [reflexivity|].
  unfold nlen, SCHED_BATCH_PRUNING_MAX_SIZE in Hgt. lia.
Qed.

Section Y.
Variables (R F : N) (assigned : list N) (a0 a1 : N) (q0 q1 : list (N * list N)).
Hypothesis Ha0 : 0 < a0.
Hypothesis Ha1 : 0 < a1.
Hypothesis H0F : a0 <= F.
Hypothesis H1F : a1 <= F.
Hypothesis HFR : F <= R.
Hypothesis Hc0 : R / a0 <= SCHED_MAX_TASK_PER_WORKER.
Hypothesis Hc1 : R / a1 <= SCHED_MAX_TASK_PER_WORKER.

Let I := yinst R F assigned a0 a1 q0 q1.
Let W := xworker R F assigned.

Lemma y_placeable0 : placeable I W 0 = true.
Proof. change (placeable I W 0) with (negb false && true && ((a0 <=? F) && true)). destruct (N.leb_spec a0 F); [reflexivity|lia]. Qed.
Lemma y_placeable1 : placeable I W 1 = true.
Proof. change (placeable I W 1) with (negb false && true && ((a1 <=? F) && true)). destruct (N.leb_spec a1 F); [reflexivity|lia]. Qed.
Lemma y_capable0 : capable I W 0 = true.
Proof. change (capable I W 0) with ((a0 <=? R) && true). destruct (N.leb_spec a0 R); [reflexivity|lia]. Qed.
Lemma y_capable1 : capable I W 1 = true.
Proof. change (capable I W 1) with ((a1 <=? R) && true). destruct (N.leb_spec a1 R); [reflexivity|lia]. Qed.

Lemma div_cap : forall a, 0 < a -> R / a <= SCHED_MAX_TASK_PER_WORKER -> N.min (F / a) SCHED_MAX_TASK_PER_WORKER = F / a.
Proof. intros a Ha Hc. assert (F / a <= R / a) by (apply N.div_le_mono; lia). lia. Qed.

Lemma y_limit0 : batch_limit I 0 = F / a0.
Proof.
  unfold batch_limit. cbn [I yinst i_workers fold_right]. fold I. fold W. rewrite y_capable0.
  change (task_max_count_cls (w_free W) (class_of I 0)) with (task_max_count [F] [(0, a0)]).
  rewrite tmc1, (div_cap a0 Ha0 Hc0).
  assert (1 <= F / a0) by (apply N.div_le_lower_bound; lia).
  destruct (N.ltb_spec 0 (F / a0)); lia.
Qed.
Lemma y_limit1 : batch_limit I 1 = F / a1.
Proof.
  unfold batch_limit. cbn [I yinst i_workers fold_right]. fold I. fold W. rewrite y_capable1.
  change (task_max_count_cls (w_free W) (class_of I 1)) with (task_max_count [F] [(0, a1)]).
  rewrite tmc1, (div_cap a1 Ha1 Hc1).
  assert (1 <= F / a1) by (apply N.div_le_lower_bound; lia).
  destruct (N.ltb_spec 0 (F / a1)); lia.
Qed.

Definition eA0 : ent := ent0 0 (F / a0) q0.
Definition eB0 : ent := ent0 1 (F / a1) q1.

Lemma sum_all_pos : forall q, ready_wf q -> q <> [] -> 0 < sum_all (levels q).
Proof.
  intros q Hwf Hne. pose proof (ei_pos _ (ent0_inv 0 0 q Hwf)) as Hp. cbn [ent0 snd] in Hp.
  destruct q as [|e t]; [congruence|]. cbn [levels map] in *. inversion Hp; subst. cbn [sum_all snd] in *. lia.
Qed.

Lemma post_size_pos : forall e o e' q rq limit, e = ent0 rq limit q -> ready_wf q -> q <> [] -> 1 <= limit ->
  PostZ e o e' -> 0 < b_size (fst e').
Proof.
  intros e o e' q rq limit -> Hwf Hne Hl P.
  destruct (lr_tot (ent0 rq limit q)) eqn:E.
  - rewrite (pz_size_lim _ _ _ P eq_refl E). cbn. lia.
  - rewrite (pz_size_tot _ _ _ P E). unfold Ttot. cbn [ent0 fst snd b0 b_size]. pose proof (sum_all_pos q Hwf Hne). lia.
Qed.

Theorem ybatches : ready_wf q0 -> ready_wf q1 -> q0 <> [] -> q1 <> [] -> (length q0 <= 32)%nat -> (length q1 <= 32)%nat ->
  exists bA bB, create_task_batches I = Ok [bA; bB]
    /\ merge_loop (S (length (levels q0) + (length (levels q1) + 0))) [eA0; eB0] None = [(bA, []); (bB, [])]
    /\ PostZ eA0 eB0 (bA, []) /\ PostZ eB0 eA0 (bB, []).
Proof.
  intros Hw0 Hw1 Hn0 Hn1 Hl0 Hl1.
  destruct (merge2_post (S (length (levels q0) + (length (levels q1) + 0))) eA0 eB0 None
              (ent0_inv _ _ _ Hw0) (ent0_inv _ _ _ Hw1)) as (eA' & eB' & E & PA & PB).
  { cbn [eA0 eB0 ent0 snd]. lia. }
  destruct eA' as [bA rA]. destruct eB' as [bB rB].
  pose proof (pz_rem _ _ _ PA) as EA. pose proof (pz_rem _ _ _ PB) as EB. cbn [snd] in EA, EB. subst rA rB.
  exists bA, bB. split; [|split; [exact E|split; assumption]].
  unfold create_task_batches.
  assert (Hq : filter (fun e : N * queue => negb (queue_is_empty (snd e)))
                 (mapi_from (fun i q => (N.of_nat i, q)) (i_queues I) 0)
               = [(0, {| q_ready := q0; q_prefill := None |}); (1, {| q_ready := q1; q_prefill := None |})]).
  { destruct q0; [congruence|]. destruct q1; [congruence|]. reflexivity. }
  rewrite Hq. cbn [map fst snd iter_priority_sizes q_ready q_prefill].
  rewrite y_limit0, y_limit1.
  fold (b0 0 (F / a0)). fold (b0 1 (F / a1)).
  change (map (fun e : N * list N => (fst e, nlen (snd e))) q0) with (levels q0).
  change (map (fun e : N * list N => (fst e, nlen (snd e))) q1) with (levels q1).
  cbn [fold_right snd].
  change [(b0 0 (F / a0), levels q0); (b0 1 (F / a1), levels q1)] with [eA0; eB0].
  rewrite E. cbn [map fst].
  destruct (pz_cuts _ _ _ PA) as (lA & LA1 & LA2 & _). destruct (pz_cuts _ _ _ PB) as (lB & LB1 & LB2 & _).
  cbn [fst snd eA0 eB0 ent0 b0 b_cuts app] in LA1, LA2, LB1, LB2.
  unfold levels in LA2, LB2. rewrite map_length in LA2, LB2.
  rewrite !prune_small by (rewrite ?LA1, ?LB1; lia).
  cbn [bind collect_res]. rewrite !set_cuts_same. cbn [filter].
  assert (SA : 0 <? b_size bA = true).
  { apply N.ltb_lt. apply (post_size_pos eA0 eB0 (bA, []) q0 0 (F / a0) eq_refl Hw0 Hn0); [|exact PA].
    apply N.div_le_lower_bound; lia. }
  assert (SB : 0 <? b_size bB = true).
  { apply N.ltb_lt. apply (post_size_pos eB0 eA0 (bB, []) q1 1 (F / a1) eq_refl Hw1 Hn1); [|exact PB].
    apply N.div_le_lower_bound; lia. }
  rewrite SA, SB. reflexivity.
Qed.

(** ** the gaps *)
Lemma remove_assigned_y : forall x asg h,
  exists y, remove_assigned I [x] asg h = Ok [y] /\ y <= x.
Proof.
  intros x asg h. revert x.
  induction asg as [|rq t IH]; intros x; cbn [remove_assigned].
  - exists x. split; [reflexivity|lia].
  - destruct (rq =? h); [apply IH|].
    assert (Hr : exists y, rv_remove_cls [x] (class_of I rq) 1 = Ok [y] /\ y <= x).
    { unfold class_of. cbn [I yinst i_classes].
      destruct (N.to_nat rq) as [|[|n]] eqn:E; cbn [nth].
      - change (rv_remove_cls [x] {| rc_entries := [(0, a0)]; rc_min_time := 0; rc_all := [] |} 1) with (rv_remove_multiple [x] [(0, a0)] 1).
        rewrite rv1_remove. exists (x - a0 * 1). split; [reflexivity|lia].
      - change (rv_remove_cls [x] {| rc_entries := [(0, a1)]; rc_min_time := 0; rc_all := [] |} 1) with (rv_remove_multiple [x] [(0, a1)] 1).
        rewrite rv1_remove. exists (x - a1 * 1). split; [reflexivity|lia].
      - destruct n; cbn; exists x; split; try reflexivity; lia. }
    destruct Hr as (y & Hy & Hle). rewrite Hy. cbn [bind].
    destruct (IH y) as (y' & Hy' & Hle'). exists y'. split; [assumption|lia].
Qed.

Lemma gap_small : forall ah al x, 0 < ah -> 0 < al -> R / ah <= SCHED_MAX_TASK_PER_WORKER ->
  x <= R - ah * task_max_count [R] [(0, ah)] -> task_max_count [x] [(0, al)] * al < ah.
Proof.
  intros ah al y Hah Hal Hcap Hle.
  rewrite !tmc1 in *. replace (N.min (R / ah) SCHED_MAX_TASK_PER_WORKER) with (R / ah) in Hle by lia.
  assert (Hmod : R - ah * (R / ah) < ah).
  { pose proof (N.mod_lt R ah ltac:(lia)). pose proof (N.div_mod R ah ltac:(lia)). lia. }
  assert (Hy2 : y / al * al <= y) by (pose proof (N.div_mod y al ltac:(lia)); pose proof (N.mod_lt y al ltac:(lia)); nia).
  assert (N.min (y / al) SCHED_MAX_TASK_PER_WORKER <= y / al) by lia. nia.
Qed.

(** blocker class 0, low class 1 *)
Lemma ygap01 : exists g, gap I W 0 1 = Ok g /\ g * a1 < a0.
Proof.
  unfold gap. change (rc_all (class_of I 0)) with (@nil N). cbv iota.
  unfold gap_resources. cbv zeta.
  change (task_max_count_cls (w_res W) (class_of I 0)) with (task_max_count [R] [(0, a0)]).
  change (rv_remove_cls (w_res W) (class_of I 0)) with (rv_remove_multiple [R] [(0, a0)]).
  change (w_assigned W) with assigned.
  rewrite rv1_remove. cbn [bind].
  destruct (remove_assigned_y (R - a0 * task_max_count [R] [(0, a0)]) assigned 0) as (y & Hy & Hle).
  rewrite Hy. cbn [bind]. exists (task_max_count [y] [(0, a1)]). split; [reflexivity|].
  apply (gap_small a0 a1 y Ha0 Ha1 Hc0 Hle).
Qed.

(** blocker class 1, low class 0 *)
Lemma ygap10 : exists g, gap I W 1 0 = Ok g /\ g * a0 < a1.
Proof.
  unfold gap. change (rc_all (class_of I 1)) with (@nil N). cbv iota.
  unfold gap_resources. cbv zeta.
  change (task_max_count_cls (w_res W) (class_of I 1)) with (task_max_count [R] [(0, a1)]).
  change (rv_remove_cls (w_res W) (class_of I 1)) with (rv_remove_multiple [R] [(0, a1)]).
  change (w_assigned W) with assigned.
  rewrite rv1_remove. cbn [bind].
  destruct (remove_assigned_y (R - a1 * task_max_count [R] [(0, a1)]) assigned 1) as (y & Hy & Hle).
  rewrite Hy. cbn [bind]. exists (task_max_count [y] [(0, a0)]). split; [reflexivity|].
  apply (gap_small a1 a0 y Ha1 Ha0 Hc1 Hle).
Qed.

End Y.
