(** C15: the cut sizes of every batch built by [create_task_batches] ascend (any number of classes; the
    pruning keeps the order).  With [ExactFullZeroU] this gives the aggregate zero-gap bound for an
    unbounded blocker without any side condition ([cut_semantics_zero_unbounded_batches]). *)
From HQ Require Import Base.Prelude Gen.Consts Sched.Model Sched.ProofsRows Sched.ProofsCuts Sched.ProofsExact
  Sched.ExactFullMerge Sched.ExactFullZeroU Sched.ExactFullInst.
Require Import ZifyBool ZifyN ZifyNat.
From Coq Require Import Sorting.Sorted.
Open Scope N_scope.
Local Arguments N.add : simpl never. Local Arguments N.sub : simpl never. Local Arguments N.mul : simpl never.
Local Arguments N.eqb : simpl never. Local Arguments N.ltb : simpl never. Local Arguments N.leb : simpl never.
Local Arguments N.of_nat : simpl never. Local Arguments N.to_nat : simpl never. Local Arguments N.div : simpl never.

(** ** the invariant of one entry of the merge loop *)
Definition Cinv (e : ent) : Prop :=
  StronglySorted le_size (b_cuts (fst e))
  /\ Forall (fun c => c_size c <= b_size (fst e)) (b_cuts (fst e))
  /\ b_size (fst e) <= b_limit (fst e).

Lemma Cinv_advance : forall e, Cinv e -> Cinv (advance_one e).
Proof.
  intros [b [|[p sz] t]] H; [exact H|]. rewrite advance_cons. destruct H as (H1 & H2 & H3). cbn [fst] in *.
  destruct (N.ltb_spec (b_limit b) (b_size b + sz)); unfold Cinv; cbn [fst set_size b_cuts b_size b_limit].
  - split; [exact H1|]. split; [|lia]. eapply Forall_impl; [|exact H2]. cbv beta. intros; lia.
  - split; [exact H1|]. split; [|lia]. eapply Forall_impl; [|exact H2]. cbv beta. intros; lia.
Qed.

Lemma Cinv_blk : forall e, Cinv e -> Cinv (set_blk (fst e), snd e).
Proof. intros [b r] H. exact H. Qed.

Lemma sorted_snoc : forall l c, StronglySorted le_size l -> Forall (fun c0 => c_size c0 <= c_size c) l -> StronglySorted le_size (l ++ [c]).
Proof.
  induction l as [|x t IH]; intros c Hs Hf; cbn [app]; [repeat constructor|].
  inversion Hs as [|? ? Hs' Hall]; subst. inversion Hf as [|? ? Hx Hf']; subst.
  constructor; [apply IH; assumption|]. apply Forall_app. split; [assumption|]. constructor; [exact Hx|constructor].
Qed.

Lemma Cinv_push : forall e hp, Cinv e -> Cinv (push_cut (fst e) {| c_size := b_size (fst e); c_blockers := hp |}, snd e).
Proof.
  intros [b r] hp (H1 & H2 & H3). cbn [fst snd] in *. unfold Cinv. cbn [fst push_cut b_cuts b_size b_limit].
  split; [apply sorted_snoc; assumption|]. split; [|exact H3].
  apply Forall_app. split; [exact H2|]. constructor; [cbn; lia|constructor].
Qed.

(** ** list plumbing *)
Lemma map_at_Forall : forall {A} (P : A -> Prop) (f : A -> A) l i, Forall P l ->
  (forall e, nth_error l i = Some e -> P e -> P (f e)) -> Forall P (map_at f l i).
Proof.
  intros A P f. induction l as [|x t IH]; intros i Hl Hf; cbn [map_at]; [constructor|].
  inversion Hl as [|? ? Hx Ht]; subst. destruct i as [|i].
  - constructor; [apply Hf; [reflexivity|exact Hx]|exact Ht].
  - constructor; [exact Hx|]. apply IH; [exact Ht|]. intros e He. apply Hf. exact He.
Qed.

Lemma mapi_from_Forall : forall {A} (P : A -> Prop) (f : nat -> A -> A) l i, Forall P l ->
  (forall j e, P e -> P (f j e)) -> Forall P (mapi_from f l i).
Proof.
  intros A P f. induction l as [|x t IH]; intros i Hl Hf; cbn [mapi_from]; [constructor|].
  inversion Hl; subst. constructor; [apply Hf; assumption|apply IH; assumption].
Qed.

Lemma mapi_from_nth : forall {A} (f : nat -> A -> A) l i k,
  nth_error (mapi_from f l i) k = match nth_error l k with Some x => Some (f (i + k)%nat x) | None => None end.
Proof.
  intros A f. induction l as [|x t IH]; intros i k; cbn [mapi_from]; [destruct k; reflexivity|].
  destruct k as [|k]; cbn [nth_error]; [rewrite Nat.add_0_r; reflexivity|]. rewrite IH. replace (S i + k)%nat with (i + S k)%nat by lia. reflexivity.
Qed.

Lemma add_cut_Cinv : forall st idx, Forall Cinv st -> Forall Cinv (add_cut st idx).
Proof.
  intros st idx H. unfold add_cut.
  set (st1 := mapi_from (fun j e => if is_higher idx j (fst e) then (set_blk (fst e), snd e) else e) st 0).
  assert (H1 : Forall Cinv st1).
  { apply mapi_from_Forall; [exact H|]. intros j e He. destruct (is_higher idx j (fst e)); [apply Cinv_blk|]; exact He. }
  destruct (higher_priorities st idx) as [|hb hp]; [exact H1|].
  apply map_at_Forall; [exact H1|]. intros e He Hc.
  unfold st1 in He. rewrite mapi_from_nth in He. cbn [Nat.add] in He.
  destruct (nth_error st idx) as [e0|] eqn:E0; [|discriminate].
  unfold is_higher in He. rewrite Nat.eqb_refl in He. cbn [negb andb] in He. injection He as <-.
  unfold ent in E0. rewrite E0. apply (Cinv_push e0 (hb :: hp)). exact Hc.
Qed.

Lemma advance_at_Cinv : forall st i, Forall Cinv st -> Forall Cinv (map_at advance_one st i).
Proof. intros st i H. apply map_at_Forall; [exact H|]. intros e _ He. apply Cinv_advance. exact He. Qed.

Lemma merge_loop_Cinv : forall fuel st u, Forall Cinv st -> Forall Cinv (merge_loop fuel st u).
Proof.
  induction fuel as [|f IH]; intros st u H; [exact H|]. rewrite merge_loop_S.
  destruct (found_from st (highest_prio st) 0) as [|i [|j r]] eqn:E.
  - exact H.
  - destruct (match u with Some u0 => Nat.eqb u0 i | None => false end); apply IH.
    + apply advance_at_Cinv. exact H.
    + apply advance_at_Cinv. apply add_cut_Cinv. exact H.
  - apply IH.
    assert (G1 : forall l s0, Forall Cinv s0 -> Forall Cinv (fold_left add_cut l s0)).
    { induction l as [|x t IHl]; intros s0 Hs; cbn [fold_left]; [exact Hs|]. apply IHl. apply add_cut_Cinv. exact Hs. }
    assert (G2 : forall l s0, Forall Cinv s0 -> Forall Cinv (fold_left (fun s1 i0 => map_at advance_one s1 i0) l s0)).
    { induction l as [|x t IHl]; intros s0 Hs; cbn [fold_left]; [exact Hs|]. apply IHl. apply advance_at_Cinv. exact Hs. }
    apply G2. apply G1. exact H.
Qed.

(** ** the pruning keeps the order *)
Lemma sorted_nth : forall {A} (Rr : A -> A -> Prop) v i j x y, StronglySorted Rr v ->
  nth_error v i = Some x -> nth_error v j = Some y -> (i < j)%nat -> Rr x y.
Proof.
  intros A Rr. induction v as [|a t IH]; intros i j x y Hs Hi Hj Hij; [destruct i; discriminate|].
  inversion Hs as [|? ? Hs' Hall]; subst. destruct j as [|j]; [lia|]. cbn [nth_error] in Hj.
  destruct i as [|i].
  - cbn [nth_error] in Hi. injection Hi as <-. rewrite Forall_forall in Hall. apply Hall. eapply nth_error_In. exact Hj.
  - cbn [nth_error] in Hi. apply (IH i j x y Hs' Hi Hj). lia.
Qed.

Lemma pick_sorted : forall {A} (Rr : A -> A -> Prop) (v : list A) idxs cs, StronglySorted Rr v -> StronglySorted N.lt idxs ->
  fold_right (fun i acc => do l <- acc; match nth_error v (N.to_nat i) with Some x => Ok (x :: l) | None => Panic 1701 end) (Ok []) idxs = Ok cs ->
  StronglySorted Rr cs /\ forall y, In y cs -> exists j, In j idxs /\ nth_error v (N.to_nat j) = Some y.
Proof.
  intros A Rr v. induction idxs as [|i t IH]; intros cs Hv Hi H; cbn [fold_right] in H.
  - injection H as <-. split; [constructor|intros y []].
  - inversion Hi as [|? ? Hi' Hall]; subst.
    destruct (fold_right _ (Ok []) t) as [l| |] eqn:E; cbn [bind] in H; try discriminate.
    destruct (nth_error v (N.to_nat i)) as [x|] eqn:Ex; [|discriminate]. injection H as <-.
    destruct (IH l Hv Hi' eq_refl) as [S1 S2]. split.
    + constructor; [exact S1|]. apply Forall_forall. intros y Hy. destruct (S2 y Hy) as (j & Hj & Ej).
      rewrite Forall_forall in Hall. specialize (Hall j Hj). apply (sorted_nth Rr v (N.to_nat i) (N.to_nat j) x y Hv Ex Ej). lia.
    + intros y [<-|Hy]; [exists i; split; [left; reflexivity|exact Ex]|].
      destruct (S2 y Hy) as (j & Hj & Ej). exists j. split; [right; exact Hj|exact Ej].
Qed.

Lemma seqN_sorted : forall n start, StronglySorted N.lt (seqN start n) /\ Forall (fun x => start <= x < start + N.of_nat n) (seqN start n).
Proof.
  induction n as [|n IH]; intros start; cbn [seqN]; [split; constructor|].
  destruct (IH (start + 1)) as [S1 S2]. split.
  - constructor; [exact S1|]. eapply Forall_impl; [|exact S2]. cbv beta. intros; lia.
  - constructor; [lia|]. eapply Forall_impl; [|exact S2]. cbv beta. intros; lia.
Qed.

Lemma prune_indices_sorted : forall n i last prefix pool rem,
  StronglySorted N.lt (prune_indices n i last prefix pool rem) /\ Forall (fun x => last < x) (prune_indices n i last prefix pool rem).
Proof.
  induction n as [|n IH]; intros i last prefix pool rem; cbn [prune_indices]; [split; constructor|]. cbv zeta.
  set (nat_idx := prefix + (2 * i * i * (pool - 1) + (rem - 1) * (rem - 1)) / (2 * ((rem - 1) * (rem - 1)))).
  set (idx := if nat_idx <=? last then last + 1 else nat_idx).
  assert (Hidx : last < idx) by (unfold idx; destruct (N.leb_spec nat_idx last); lia).
  destruct (IH (i + 1) idx prefix pool rem) as [S1 S2]. split.
  - constructor; [exact S1|exact S2].
  - constructor; [exact Hidx|]. eapply Forall_impl; [|exact S2]. cbv beta. intros; lia.
Qed.

Lemma prune_sorted : forall {A} (Rr : A -> A -> Prop) (v cs : list A),
  StronglySorted Rr v ->
  prune_progressive v SCHED_BATCH_PRUNING_FIXED_PREFIX SCHED_BATCH_PRUNING_MAX_SIZE = Ok cs -> StronglySorted Rr cs.
Proof.
  intros A Rr v cs Hv H. unfold prune_progressive in H.
  destruct (nlen v <=? SCHED_BATCH_PRUNING_MAX_SIZE); [injection H as <-; exact Hv|]. cbv zeta in H.
  refine (proj1 (pick_sorted Rr v _ cs Hv _ H)).
  set (prefix := SCHED_BATCH_PRUNING_FIXED_PREFIX).
  destruct (seqN_sorted (N.to_nat prefix) 0) as [S1 S2].
  destruct (prune_indices_sorted (N.to_nat (SCHED_BATCH_PRUNING_MAX_SIZE - prefix)) 0 (prefix - 1) prefix (nlen v - prefix)
              (SCHED_BATCH_PRUNING_MAX_SIZE - prefix)) as [P1 P2].
  assert (G : forall a b, StronglySorted N.lt a -> StronglySorted N.lt b -> (forall x y, In x a -> In y b -> x < y) -> StronglySorted N.lt (a ++ b)).
  { induction a as [|x t IHa]; intros b Ha Hb Hab; cbn [app]; [exact Hb|].
    inversion Ha as [|? ? Ha' Hall]; subst. constructor.
    - apply IHa; [exact Ha'|exact Hb|]. intros x0 y Hx0 Hy. apply Hab; [right; exact Hx0|exact Hy].
    - apply Forall_app. split; [exact Hall|]. apply Forall_forall. intros y Hy. apply Hab; [left; reflexivity|exact Hy]. }
  apply G; [exact S1|exact P1|].
  intros x y Hx Hy. rewrite Forall_forall in S2, P2. specialize (S2 x Hx). specialize (P2 y Hy).
  unfold prefix, SCHED_BATCH_PRUNING_FIXED_PREFIX in *. lia.
Qed.

(** * the cut sizes of every batch ascend *)
Theorem batches_cuts_sorted : forall I bs b, create_task_batches I = Ok bs -> In b bs -> StronglySorted le_size (b_cuts b).
Proof.
  intros I bs b H Hb. unfold create_task_batches in H.
  set (st0 := map _ (filter _ _)) in H. set (fuel := S _) in H.
  assert (H0 : Forall Cinv st0).
  { unfold st0. apply Forall_forall. intros e He. apply in_map_iff in He. destruct He as (x & <- & _).
    unfold Cinv. cbn [fst b_cuts b_size b_limit]. split; [constructor|]. split; [constructor|lia]. }
  pose proof (merge_loop_Cinv fuel st0 None H0) as Hst.
  destruct (collect_res _) as [pruned| |] eqn:E; cbn [bind] in H; try discriminate. injection H as <-.
  apply filter_In in Hb. destruct Hb as [Hb _].
  destruct (collect_res_out _ _ _ _ E Hb) as (e & He & Hf).
  destruct (prune_progressive (b_cuts (fst e)) _ _) as [cs| |] eqn:Ep; cbn [bind] in Hf; try discriminate.
  injection Hf as <-. cbn [set_cuts b_cuts].
  rewrite Forall_forall in Hst. destruct (Hst e He) as (S1 & _).
  apply (prune_sorted le_size _ _ S1 Ep).
Qed.

(** * C15: semantics of the cut rows - aggregate bound over the zero-gap workers, unbounded blocker *)
Theorem cut_semantics_zero_unbounded_batches : forall I bs m s b c h,
  create_task_batches I = Ok bs -> milp_of I bs = Ok m -> feasible m s = true ->
  In b bs -> count_vars I bs (b_rq b) <> [] -> In c (b_cuts b) -> In (h, None) (c_blockers c) ->
  (zero_sum I bs s h (b_rq b) (i_workers I) <= Z.of_N (c_size c))%Z.
Proof.
  intros I bs m s b c h Hbs Hm Hf Hb Hcv Hc Hbl.
  apply (cut_semantics_zero_unbounded I bs m s b c h Hm Hf Hb Hcv (batches_cuts_sorted I bs b Hbs Hb) Hc Hbl).
Qed.

(** the hypotheses are satisfiable: class 0 hits its limit, the last cut of class 1 names it as an
    unbounded blocker, the gap of the worker is zero (so the aggregate row is the only bound) *)
Example zero_unbounded_instance :
  let I := yinst 11 9 [1] 3 2 [(9, [1; 2]); (5, [3]); (2, [4; 5])] [(7, [11]); (5, [12; 13]); (3, [14]); (1, [15])] in
  exists bs m b c, create_task_batches I = Ok bs /\ milp_of I bs = Ok m /\ In b bs /\ b_rq b = 1
    /\ count_vars I bs (b_rq b) <> [] /\ In c (b_cuts b) /\ c_size c = 4 /\ In (0, None) (c_blockers c)
    /\ zero_gap I (xworker 11 9 [1]) 0 1 = true
    /\ feasible m (fun v => match v with VX 1 0 => 2%Z | VX 1 1 => 1%Z | VB 0 3 => 1%Z | VB 1 4 => 1%Z | _ => 0%Z end) = true.
Proof.
  cbv zeta. eexists. eexists. eexists. eexists.
  split; [vm_compute; reflexivity|]. split; [vm_compute; reflexivity|].
  split; [right; left; reflexivity|]. split; [reflexivity|]. split; [vm_compute; discriminate|].
  split; [right; right; right; left; reflexivity|]. split; [reflexivity|]. split; [left; reflexivity|].
  split; vm_compute; reflexivity.
Qed.

Print Assumptions cut_semantics_zero_unbounded_batches.
