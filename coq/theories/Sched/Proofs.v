(** Theorems of component [sched] (C15; row-system half of C05), collected. *)
From HQ Require Export Base.Prelude Gen.Consts Sched.Model Sched.ProofsOrder Sched.Optimal Sched.Witness Sched.ProofsRows Sched.ProofsCuts Sched.ProofsTight Sched.ProofsExact.

Lemma K1_refuted : exists I s d, refutes I s d VK1.
Proof. exists k1_inst, k1_sol, k1_dispatch. exact k1_refutes. Qed.
Lemma K2_refuted : exists I s d, refutes I s d VK2.
Proof. exists k2_inst, k2_sol, k2_dispatch. exact k2_refutes. Qed.
Lemma K3_refuted : exists I s d, refutes I s d VK3.
Proof. exists k3_inst, k3_sol, k3_dispatch. exact k3_refutes. Qed.
Lemma K4_refuted : exists I s d, refutes I s d VK4.
Proof. exists k4_inst, k4_sol, k4_dispatch. exact k4_refutes. Qed.
Lemma K5_refuted : exists I s d, refutes I s d VK5.
Proof. exists k5_inst, k5_sol, k5_dispatch. exact k5_refutes. Qed.

(** Non-vacuity of the hypotheses of [C05_feasible_no_overbook_thm]: the K1 instance with the real solution. *)
Example C05_hypotheses_satisfiable :
  inst_wf k1_inst /\ exists bs m, create_task_batches k1_inst = Ok bs /\ milp_of k1_inst bs = Ok m
                                   /\ feasible m k1_sol = true /\ mapping_ok k1_inst bs k1_sol k1_dispatch = true.
Proof.
  split.
  - split.
    + repeat constructor; simpl; intuition discriminate.
    + intros c Hc. simpl in Hc. repeat (destruct Hc as [<-|Hc]; [split; repeat constructor|]); contradiction.
    + intros c Hc. simpl in Hc. repeat (destruct Hc as [<-|Hc]; [constructor|]); contradiction.
  - destruct k1_refutes as (bs & m & H1 & H2 & H3 & _ & H5 & _). exists bs, m. auto.
Qed.
