(** Theorems of component [sched] (C15; row-system half of C05), collected. *)
From HQ Require Export Base.Prelude Gen.Consts Sched.Model Sched.ProofsOrder Sched.Optimal Sched.Witness.

Lemma K1_refuted : exists I s d, refutes I s d VK1.
Proof. exists k1_inst, k1_sol, k1_dispatch. exact k1_refutes. Qed.
Lemma K2_refuted : exists I s d, refutes I s d VK2.
Proof. exists k2_inst, k2_sol, k2_dispatch. exact k2_refutes. Qed.
Lemma K3_refuted : exists I s d, refutes I s d VK3.
Proof. exists k3_inst, k3_sol, k3_dispatch. exact k3_refutes. Qed.
Lemma K4_refuted : exists I s d, refutes I s d VK4.
Proof. exists k4_inst, k4_sol, k4_dispatch. exact k4_refutes. Qed.
Lemma K5_refuted : exists I s d, refutes I s d VK5.
Proof. exists k5_inst, k5_sol, k5_dispatch. exact k5_refutes. Qed.
