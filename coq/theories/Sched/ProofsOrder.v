(** C15, part "priority order": [Priority::from_user_priority] is strictly monotone on all of i32, and
    [take_tasks] pops by descending priority, then ascending id. *)
From HQ Require Import Base.Prelude Gen.Consts Sched.Model.
Require Import ZifyBool ZifyN ZifyNat.
From Coq Require Import Sorting.Sorted.
Open Scope Z_scope.

Lemma testbit_pow2 : forall n m, 0 <= n -> 0 <= m -> Z.testbit (2 ^ n) m = (m =? n).
Proof.
  intros n m Hn Hm. destruct (Z.eqb_spec m n) as [->|Hne].
  - apply Z.pow2_bits_true; lia.
  - apply Z.pow2_bits_false; lia.
Qed.

Lemma land_bit_clear : forall x n, 0 <= n -> Z.testbit x n = false -> Z.land x (2 ^ n) = 0.
Proof.
  intros x n Hn Hb. apply Z.bits_inj'. intros m Hm.
  rewrite Z.land_spec, Z.bits_0, testbit_pow2 by lia.
  destruct (Z.eqb_spec m n) as [->|Hne]; [rewrite Hb; reflexivity|apply andb_false_r].
Qed.

Lemma lxor_pow2 : forall x n, 0 <= n ->
  Z.lxor x (2 ^ n) = if Z.testbit x n then x - 2 ^ n else x + 2 ^ n.
Proof.
  intros x n Hn. destruct (Z.testbit x n) eqn:Hb.
  - set (y := Z.lxor x (2 ^ n)).
    assert (Hyb : Z.testbit y n = false).
    { unfold y. rewrite Z.lxor_spec, Hb, testbit_pow2, Z.eqb_refl by lia. reflexivity. }
    assert (Hx : x = Z.lxor y (2 ^ n)).
    { unfold y. rewrite Z.lxor_assoc, Z.lxor_nilpotent, Z.lxor_0_r. reflexivity. }
    rewrite <- Z.add_nocarry_lxor in Hx by (apply land_bit_clear; assumption). lia.
  - symmetry. apply Z.add_nocarry_lxor. apply land_bit_clear; assumption.
Qed.

Lemma from_user_priority_closed : forall p, - 2 ^ 31 <= p < 2 ^ 31 ->
  from_user_priority p = Z.to_N ((p + 2 ^ 31) * 2 ^ 32).
Proof.
  intros p Hp. unfold from_user_priority. f_equal.
  change (Z.of_N SCHED_PRIORITY_SIGN_FLIP) with (2 ^ 31).
  change (Z.of_N SCHED_PRIORITY_SHIFT) with 32.
  rewrite Z.shiftl_mul_pow2 by lia. rewrite lxor_pow2 by lia.
  destruct (Z_lt_le_dec p 0) as [Hneg|Hpos].
  - assert (Hm : p mod 2 ^ 64 = p + 2 ^ 64) by (symmetry; apply Z.mod_unique with (q := -1); lia).
    rewrite Hm.
    assert (Hb : Z.testbit (p + 2 ^ 64) 31 = true).
    { apply Z.testbit_true; [lia|].
      assert (Hq : (p + 2 ^ 64) / 2 ^ 31 = 2 ^ 33 - 1).
      { symmetry. apply Z.div_unique with (r := p + 2 ^ 31); lia. }
      rewrite Hq. reflexivity. }
    rewrite Hb. symmetry. apply Z.mod_unique with (q := 2 ^ 32 - 1); lia.
  - assert (Hm : p mod 2 ^ 64 = p) by (apply Z.mod_small; lia).
    rewrite Hm.
    assert (Hb : Z.testbit p 31 = false).
    { destruct (Z.eq_dec p 0) as [->|Hp0]; [reflexivity|].
      apply Z.bits_above_log2; [lia|]. apply Z.log2_lt_pow2; lia. }
    rewrite Hb. apply Z.mod_small; lia.
Qed.

Lemma priority_strictly_monotone : forall p q,
  - 2 ^ 31 <= p < 2 ^ 31 -> - 2 ^ 31 <= q < 2 ^ 31 ->
  (p < q <-> (from_user_priority p < from_user_priority q)%N).
Proof.
  intros p q Hp Hq. rewrite !from_user_priority_closed by assumption. lia.
Qed.

Close Scope Z_scope.
Open Scope N_scope.
Arguments N.add : simpl never. Arguments N.sub : simpl never. Arguments N.mul : simpl never.
Arguments N.eqb : simpl never. Arguments N.ltb : simpl never. Arguments N.leb : simpl never.
Arguments N.of_nat : simpl never. Arguments N.to_nat : simpl never.

Definition flat_ids (rd : list (N * list N)) : list N := concat (map snd rd).
Definition flat_tasks (rd : list (N * list N)) : list (N * N) :=
  concat (map (fun e => map (fun id => (fst e, id)) (snd e)) rd).

(** pop order: strictly higher priority first, then strictly smaller id *)
Definition before (a b : N * N) : Prop := fst b < fst a \/ (fst a = fst b /\ snd a < snd b).

Definition ids_wf (ids : list N) : Prop := ids <> [] /\ StronglySorted N.lt ids.
Definition ready_wf (rd : list (N * list N)) : Prop :=
  StronglySorted (fun a b => fst b < fst a) rd /\ Forall (fun e => ids_wf (snd e)) rd.

Lemma nlen_app {A} (a b : list A) : nlen (a ++ b) = nlen a + nlen b.
Proof. unfold nlen. rewrite app_length. lia. Qed.

Lemma take_loop_spec : forall rd n l rd',
  take_loop rd n = Ok (l, rd') ->
  l = firstn (N.to_nat n) (flat_ids rd) /\ flat_ids rd' = skipn (N.to_nat n) (flat_ids rd)
  /\ n <= nlen (flat_ids rd).
Proof.
  induction rd as [|[p ids] t IH]; intros n l rd' H; simpl in H.
  - destruct (N.eqb_spec n 0) as [->|Hn]; [|discriminate]. inversion H; subst. simpl. repeat split; unfold nlen; simpl; lia.
  - destruct (N.eqb_spec n 0) as [->|Hn].
    { inversion H; subst. simpl. repeat split. unfold nlen. lia. }
    unfold flat_ids in *. simpl.
    destruct (N.leb_spec (nlen ids) n) as [Hle|Hgt].
    + destruct (take_loop t (n - nlen ids)) as [[l1 rd1]| |] eqn:E; simpl in H; try discriminate.
      inversion H; subst. destruct (IH _ _ _ E) as (H1 & H2 & H3). simpl.
      assert (Hlen : N.to_nat n = (length ids + N.to_nat (n - nlen ids))%nat) by (unfold nlen in *; lia).
      rewrite Hlen. rewrite firstn_app_2, skipn_app.
      rewrite skipn_all2 by lia. simpl.
      replace (length ids + N.to_nat (n - nlen ids) - length ids)%nat with (N.to_nat (n - nlen ids)) by lia.
      rewrite H1, H2. repeat split. rewrite nlen_app. fold (flat_ids t) in *. lia.
    + inversion H; subst. simpl. unfold nlen in Hgt.
      rewrite firstn_app, skipn_app.
      replace (N.to_nat n - length ids)%nat with O by lia. simpl. rewrite app_nil_r.
      repeat split. rewrite nlen_app. unfold nlen. lia.
Qed.

Lemma take_loop_panics : forall rd n, nlen (flat_ids rd) < n -> take_loop rd n = Panic 1601.
Proof.
  induction rd as [|[p ids] t IH]; intros n H; simpl.
  - destruct (N.eqb_spec n 0); [unfold nlen in H; simpl in H; lia|reflexivity].
  - unfold flat_ids in H. simpl in H. rewrite nlen_app in H.
    destruct (N.eqb_spec n 0); [lia|].
    destruct (N.leb_spec (nlen ids) n); [|lia].
    rewrite IH; [reflexivity|]. unfold flat_ids. lia.
Qed.

Lemma flat_tasks_sorted : forall rd, ready_wf rd -> StronglySorted before (flat_tasks rd).
Proof.
  induction rd as [|[p ids] t IH]; intros [Hs Hf]; unfold flat_tasks; simpl; [constructor|].
  inversion Hs as [|? ? Hs' Hall]; subst. inversion Hf as [|? ? [_ Hids] Hf']; subst. simpl in *.
  specialize (IH (conj Hs' Hf')). fold (flat_tasks t).
  assert (Hrest : Forall (fun b => fst b < p) (flat_tasks t)).
  { clear - Hall. unfold flat_tasks. induction t as [|[q ids'] t IHt]; simpl; [constructor|].
    inversion Hall; subst. apply Forall_app. split; [|auto].
    apply Forall_forall. intros x Hx. apply in_map_iff in Hx. destruct Hx as (i & <- & _). simpl in *. assumption. }
  clear Hs Hf Hall Hs' Hf'.
  induction ids as [|i ids IHi]; simpl; [assumption|].
  inversion Hids as [|? ? Hids' Hlt]; subst.
  constructor; [apply IHi; assumption|].
  apply Forall_app. split.
  - apply Forall_forall. intros x Hx. apply in_map_iff in Hx. destruct Hx as (j & <- & Hj).
    right. simpl. split; [reflexivity|]. rewrite Forall_forall in Hlt. auto.
  - eapply Forall_impl; [|exact Hrest]. intros b Hb. left. assumption.
Qed.

Lemma flat_ids_tasks : forall rd, flat_ids rd = map snd (flat_tasks rd).
Proof.
  induction rd as [|[p ids] t IH]; [reflexivity|].
  unfold flat_ids, flat_tasks in *. simpl. rewrite map_app, <- IH. f_equal.
  rewrite map_map. simpl. symmetry. apply map_id.
Qed.

(** [take_tasks] on a queue without prefill pops exactly the first [n] tasks in the order
    "descending priority, then ascending id" and leaves the rest. *)
Lemma take_tasks_order : forall q n l q',
  q_prefill q = None -> ready_wf (q_ready q) ->
  take_tasks q n = Ok (l, q') ->
  StronglySorted before (flat_tasks (q_ready q))
  /\ l = map snd (firstn (N.to_nat n) (flat_tasks (q_ready q)))
  /\ flat_ids (q_ready q') = map snd (skipn (N.to_nat n) (flat_tasks (q_ready q)))
  /\ q_prefill q' = None.
Proof.
  intros q n l q' Hp Hwf H. unfold take_tasks in H. rewrite Hp in H.
  destruct (take_loop (q_ready q) n) as [[l1 rd1]| |] eqn:E; simpl in H; try discriminate.
  inversion H; subst. simpl. destruct (take_loop_spec _ _ _ _ E) as (H1 & H2 & _).
  split; [apply flat_tasks_sorted; assumption|].
  rewrite flat_ids_tasks in H1. rewrite (flat_ids_tasks (q_ready q)) in H2.
  rewrite H1, H2, firstn_map, skipn_map. auto.
Qed.

Lemma take_tasks_too_many : forall q n,
  q_prefill q = None -> queue_size q < n -> take_tasks q n = Panic 1601.
Proof.
  intros q n Hp Hn. unfold take_tasks. rewrite Hp. rewrite take_loop_panics; [reflexivity|].
  unfold queue_size in Hn. clear Hp. revert Hn. generalize (q_ready q). intros rd.
  assert (Hs : nlen (flat_ids rd) = fold_right (fun e acc => nlen (snd e) + acc) 0 rd).
  { induction rd as [|e t IH]; [reflexivity|]. unfold flat_ids in *. simpl. rewrite nlen_app, IH. reflexivity. }
  rewrite Hs. auto.
Qed.

(** [queue_add] keeps the representation invariant *)
Lemma insert_id_sorted : forall x ids, StronglySorted N.lt ids -> StronglySorted N.lt (insert_id x ids) /\ insert_id x ids <> []
  /\ (forall y, In y (insert_id x ids) <-> y = x \/ In y ids).
Proof.
  induction ids as [|y t IH]; intros Hs; simpl.
  - split; [repeat constructor|]. split; [discriminate|]. intros z. simpl. intuition.
  - inversion Hs as [|? ? Hs' Hall]; subst.
    destruct (N.ltb_spec x y) as [Hlt|Hge].
    + split; [|split; [discriminate|intros z; simpl; intuition]].
      constructor; [assumption|]. constructor; [assumption|].
      eapply Forall_impl; [|exact Hall]. intros; lia.
    + destruct (N.eqb_spec x y) as [->|Hne].
      * split; [assumption|]. split; [discriminate|]. intros z. simpl. intuition.
      * destruct (IH Hs') as (I1 & I2 & I3). split; [|split; [discriminate|]].
        -- constructor; [assumption|]. apply Forall_forall. intros z Hz. apply I3 in Hz.
           destruct Hz as [->|Hz]; [lia|]. rewrite Forall_forall in Hall. auto.
        -- intros z. simpl. rewrite I3. intuition.
Qed.

Lemma ready_add_wf : forall rd id p, ready_wf rd -> ready_wf (ready_add rd id p)
  /\ (forall e, In e (ready_add rd id p) -> fst e = p \/ exists e', In e' rd /\ fst e' = fst e).
Proof.
  induction rd as [|[q ids] t IH]; intros id p [Hs Hf]; simpl.
  - split; [split; repeat constructor; discriminate|]. intros e [<-|[]]. left. reflexivity.
  - inversion Hs as [|? ? Hs' Hall]; subst. inversion Hf as [|? ? Hids Hf']; subst.
    destruct (N.ltb_spec q p) as [Hlt|Hge].
    + split.
      * split.
        -- constructor; [assumption|]. constructor; [assumption|].
           eapply Forall_impl; [|exact Hall]. simpl. intros; lia.
        -- constructor; [split; [discriminate|repeat constructor]|assumption].
      * intros e [<-|He]; [left; reflexivity|right; exists e; auto].
    + destruct (N.eqb_spec q p) as [->|Hne].
      * split.
        -- split; [constructor; assumption|]. constructor; [|assumption].
           destruct Hids as [_ Hids]. destruct (insert_id_sorted id ids Hids) as (I1 & I2 & _). split; assumption.
        -- intros e [<-|He]; [left; reflexivity|right; exists e; simpl; auto].
      * destruct (IH id p (conj Hs' Hf')) as [[I1 I2] I3]. split.
        -- split.
           ++ constructor; [assumption|]. apply Forall_forall. intros e He. simpl.
              destruct (I3 e He) as [->|(e' & He' & <-)]; [lia|]. rewrite Forall_forall in Hall. apply (Hall e' He').
           ++ constructor; assumption.
        -- intros e [<-|He]; [right; exists (q, ids); simpl; auto|].
           destruct (I3 e He) as [?|(e' & He' & Heq)]; [left; assumption|right; exists e'; simpl; auto].
Qed.

(** * [take_tasks] with a prefill set *)

(** the order in which [take_tasks] pops when a prefill set exists: if the first ready entry has the
    prefill's priority it goes first, then the prefill set (in its hash order = list order), then the
    rest of the ready entries *)
Definition pop_order (q : queue) : list (N * N) :=
  match q_prefill q with
  | None => flat_tasks (q_ready q)
  | Some (pp, ts) =>
      match q_ready q with
      | (fp, ids) :: t =>
          if fp =? pp then map (fun id => (fp, id)) ids ++ map (fun id => (pp, id)) ts ++ flat_tasks t
          else map (fun id => (pp, id)) ts ++ flat_tasks (q_ready q)
      | [] => map (fun id => (pp, id)) ts
      end
  end.

Lemma firstn_map_snd : forall (p : N) ids k, map snd (firstn k (map (fun id : N => (p, id)) ids)) = firstn k ids.
Proof. intros p ids. induction ids as [|x t IH]; intros [|k]; simpl; auto. f_equal. apply IH. Qed.

Lemma map_snd_tag : forall (p : N) ids, map snd (map (fun id : N => (p, id)) ids) = ids.
Proof. intros. rewrite map_map. simpl. apply map_id. Qed.

Lemma firstn_min_len : forall {A} (l : list A) a, firstn (Nat.min a (length l)) l = firstn a l.
Proof.
  intros A l a. destruct (Nat.le_gt_cases a (length l)) as [H|H].
  - rewrite Nat.min_l by assumption. reflexivity.
  - rewrite Nat.min_r by lia. rewrite firstn_all, firstn_all2 by lia. reflexivity.
Qed.

Lemma drain_prefill_spec : forall pp ts count,
  let '(taken, pf, c) := drain_prefill (Some (pp, ts)) count in
  taken = firstn (N.to_nat count) ts /\ c = count - N.min count (nlen ts)
  /\ (nlen ts <= count -> pf = None).
Proof.
  intros pp ts count. unfold drain_prefill.
  assert (Hk : N.to_nat (N.min count (nlen ts)) = Nat.min (N.to_nat count) (length ts)) by (unfold nlen; lia).
  rewrite Hk. split; [|split; [reflexivity|]].
  - apply firstn_min_len.
  - intros Hle. rewrite skipn_all2; [reflexivity|]. unfold nlen in Hle. lia.
Qed.

(** [take_tasks] pops exactly the first [n] tasks of [pop_order] *)
Theorem take_tasks_prefill_order : forall q n l q',
  take_tasks q n = Ok (l, q') -> l = map snd (firstn (N.to_nat n) (pop_order q)).
Proof.
  intros q n l q' H. unfold take_tasks, pop_order in *.
  destruct (q_prefill q) as [[pp ts]|] eqn:Ep.
  - destruct (q_ready q) as [|[fp ids] t] eqn:Er.
    + (* empty ready part *)
      pose proof (drain_prefill_spec pp ts n) as Hd. destruct (drain_prefill (Some (pp, ts)) n) as [[taken pf] c].
      destruct Hd as (Ht & Hc & _).
      destruct (take_loop [] c) as [[l1 rd1]| |] eqn:E; cbn [bind] in H; try discriminate.
      inversion H; subst. destruct (take_loop_spec _ _ _ _ E) as (H1 & _ & H3). cbn in H1, H3.
      rewrite H1. assert (Hc0 : n - N.min n (nlen ts) = 0) by (unfold nlen in *; simpl in H3; lia).
      rewrite Hc0. simpl. rewrite app_nil_r. rewrite <- (firstn_map_snd pp ts). reflexivity.
    + destruct (N.eqb_spec fp pp) as [->|Hne].
      * (* same priority: first entry, prefill, rest *)
        pose proof (drain_prefill_spec pp ts (n - N.min n (nlen ids))) as Hd.
        destruct (drain_prefill (Some (pp, ts)) (n - N.min n (nlen ids))) as [[taken pf] c].
        destruct Hd as (Ht & Hc & _).
        destruct (take_loop _ c) as [[l1 rd1]| |] eqn:E; cbn [bind] in H; try discriminate.
        inversion H; subst. clear H. destruct (take_loop_spec _ _ _ _ E) as (H1 & _ & H3).
        rewrite !firstn_app, !map_app. rewrite !map_length. 
        rewrite (firstn_map_snd pp ids), (firstn_map_snd pp ts).
        assert (Hk : N.to_nat (N.min n (nlen ids)) = Nat.min (N.to_nat n) (length ids)) by (unfold nlen; lia).
        f_equal.
        { rewrite Hk. apply firstn_min_len. }
        f_equal.
        { f_equal. unfold nlen. lia. }
        (* the rest *)
        destruct (N.leb_spec (nlen ids) n) as [Hle|Hgt].
        -- (* first entry exhausted *)
           assert (Hsk : skipn (N.to_nat (N.min n (nlen ids))) ids = []) by (apply skipn_all2; unfold nlen in *; lia).
           rewrite Hsk in H1. rewrite H1. rewrite flat_ids_tasks, firstn_map. f_equal. f_equal. unfold nlen in *. lia.
        -- (* first entry not exhausted: nothing taken beyond it *)
           assert (Hc0 : n - N.min n (nlen ids) - N.min (n - N.min n (nlen ids)) (nlen ts) = 0) by lia.
           rewrite Hc0 in H1. simpl in H1. rewrite H1.
           replace (N.to_nat n - length ids - length ts)%nat with O by (unfold nlen in *; lia). reflexivity.
      * (* different priority: prefill first *)
        pose proof (drain_prefill_spec pp ts n) as Hd. destruct (drain_prefill (Some (pp, ts)) n) as [[taken pf] c].
        destruct Hd as (Ht & Hc & _).
        destruct (take_loop _ c) as [[l1 rd1]| |] eqn:E; cbn [bind] in H; try discriminate.
        inversion H; subst. clear H. destruct (take_loop_spec _ _ _ _ E) as (H1 & _ & H3).
        rewrite firstn_app, map_app, map_length, (firstn_map_snd pp ts). f_equal.
        rewrite H1, flat_ids_tasks, firstn_map. f_equal. f_equal. unfold nlen. lia.
  - destruct (take_loop (q_ready q) n) as [[l1 rd1]| |] eqn:E; cbn [bind] in H; try discriminate.
    inversion H; subst. destruct (take_loop_spec _ _ _ _ E) as (H1 & _ & _).
    rewrite H1, flat_ids_tasks, firstn_map. reflexivity.
Qed.

(** with the invariant "the prefill set has the highest priority" (kept by [check_dispose_prefill]) the
    pop order is by non-increasing priority *)
Definition prefill_wf (q : queue) : Prop :=
  ready_wf (q_ready q) /\
  match q_prefill q with
  | Some (pp, _) => Forall (fun e => fst e <= pp) (q_ready q)
  | None => True
  end.

Lemma flat_tasks_prio_le : forall rd p, Forall (fun e : N * list N => fst e <= p) rd -> Forall (fun b => fst b <= p) (flat_tasks rd).
Proof.
  induction rd as [|[q ids] t IH]; intros p H; unfold flat_tasks; simpl; [constructor|].
  inversion H; subst. apply Forall_app. split; [|apply IH; assumption].
  apply Forall_forall. intros x Hx. apply in_map_iff in Hx. destruct Hx as (i & <- & _). assumption.
Qed.

Theorem pop_order_sorted : forall q, prefill_wf q -> StronglySorted (fun a b => fst b <= fst a) (pop_order q).
Proof.
  intros q [Hwf Hpf]. unfold pop_order.
  assert (Hweak : forall rd, ready_wf rd -> StronglySorted (fun a b : N * N => fst b <= fst a) (flat_tasks rd)).
  { intros rd H. pose proof (flat_tasks_sorted rd H) as Hs. induction Hs as [|a l Hs IH Hall]; constructor; [assumption|].
    eapply Forall_impl; [|exact Hall]. intros b [Hb|[Hb _]]; lia. }
  assert (Hconst : forall p ids (rest : list (N * N)), Forall (fun b => fst b <= p) rest ->
             StronglySorted (fun a b : N * N => fst b <= fst a) rest ->
             StronglySorted (fun a b : N * N => fst b <= fst a) (map (fun id => (p, id)) ids ++ rest)).
  { intros p ids rest Hle Hs. induction ids as [|i t IH]; simpl; [assumption|].
    constructor; [assumption|]. apply Forall_app. split.
    - apply Forall_forall. intros x Hx. apply in_map_iff in Hx. destruct Hx as (j & <- & _). simpl. lia.
    - exact Hle. }
  destruct (q_prefill q) as [[pp ts]|]; [|apply Hweak; assumption].
  destruct (q_ready q) as [|[fp ids] t] eqn:Er.
  - rewrite <- (app_nil_r (map _ ts)). apply Hconst; constructor.
  - destruct Hwf as [Hs Hf]. inversion Hs as [|? ? Hs' Hall]; subst. inversion Hf as [|? ? Hi Hf']; subst.
    inversion Hpf as [|? ? Hfp Hpf']; subst. simpl in *.
    destruct (N.eqb_spec fp pp) as [->|Hne].
    + apply Hconst.
      * apply Forall_app. split.
        -- apply Forall_forall. intros x Hx. apply in_map_iff in Hx. destruct Hx as (j & <- & _). simpl. lia.
        -- apply flat_tasks_prio_le. assumption.
      * apply Hconst; [apply flat_tasks_prio_le; assumption|apply Hweak; split; assumption].
    + apply Hconst; [apply flat_tasks_prio_le; constructor; assumption|].
      apply Hweak. split; [constructor|constructor]; assumption.
Qed.

(** Non-vacuity: a queue built by [queue_add] from user priorities incl. the extremes of i32. *)
Definition example_queue : queue :=
  fold_left (fun q t => queue_add q (fst t) (from_user_priority (snd t))) 
    [(7, 0%Z); (3, (-2147483648)%Z); (5, 2147483647%Z); (4, 0%Z); (9, (-1)%Z); (1, 2147483647%Z)] empty_queue.

Example example_queue_wf : ready_wf (q_ready example_queue) /\ q_prefill example_queue = None.
Proof.
  split; [|reflexivity]. unfold example_queue.
  repeat (cbn [fold_left]; match goal with |- ready_wf (q_ready (fold_left _ _ (queue_add ?q ?i ?p))) => idtac end).
  cbn [fold_left]. 
  repeat match goal with |- ready_wf (q_ready (queue_add ?q ?i ?p)) => apply ready_add_wf end.
  split; constructor.
Qed.

Example example_queue_take :
  take_tasks example_queue 4 = Ok ([1; 5; 4; 7], {| q_ready := [(from_user_priority (-1), [9]); (0, [3])]; q_prefill := None |}).
Proof. vm_compute. reflexivity. Qed.
