(** Executable model of the DEMAND side of automatic allocation (property C17): what the scheduler
    answers to a worker query.

      tako/src/control.rs                     [new_worker_query]  (validation, the scheduling-flag branch)
      tako/src/internal/scheduler/query.rs    [compute_new_worker_query]
      common/resources/descriptor.rs          [desc_valid]        (ResourceDescriptor::validate)
      server/workerload.rs                    [vec_of_desc]       (WorkerResources::from_description)

    [compute_new_worker_query] builds [max_sn_workers] FAKE workers per query (ids from
    [worker_counter + 1]; a [partial] query gets [ResourceAmount::MAX] of every resource it does not
    name), runs [create_task_batches] and [run_scheduling_solver] with the fake workers as the ONLY
    workers ([custom_workers = Some(..)] replaces the connected workers in both functions; only the
    limit of a multi-node batch is computed from the connected workers), and counts per query the fake
    workers that got at least one task.  The multi-node part does not use the solver: every multi-node
    class is mapped to the first query whose time limit accepts its [min_time] and whose
    [max_workers_per_allocation] reaches its [n_nodes].

    The scheduler itself is [Sched.Model] ([create_task_batches], [milp_of], [placeable], ...).  The MILP
    solver's answer is a WITNESS [s : sol]; it is validated by [query_sol_ok] (feasibility for the model's
    rows) and never trusted.

    Two panics of the code BEFORE the repairs F32 / F33 were found with this model (the predicates
    [prefix_mn_unwrap] / [prefix_highs_rejects] below describe exactly when; they predicted all 82 panics of
    a 600-trace run of the unrepaired code and nothing else):
      F32  solver.rs [worker_groups.get(&worker.configuration.group).unwrap()]: a fake worker's group is in no
           group map; reached as soon as a multi-node batch survives [create_task_batches] (waiting multi-node
           task and [free connected workers / n_nodes >= 1]) and a fake worker exists.  Repaired
           ([is_some_and]): a fake worker gets no multi-node placement variable;
      F33  solver.rs [if free.is_max() { continue; }] skipped [c.clear()], so the resource-row terms of a fake
           worker with a MAX resource leaked into the row of the next worker with a finite amount of it; for a
           class asking [All] of that resource the leaked coefficient is MAX (1.8e15 units) and HiGHS rejects
           the problem (panic "invalid problem").  Repaired: the buffer is cleared.
    The model below is the REPAIRED code.

    Abstractions (each is sound for the theorems of [QueryProofs], which are upper bounds on the demand):
      - resource names are ids; a descriptor entry is (resource id, amount in fractions) - the kinds
        List / Range / Groups / Sum only differ in how the amount is written;
      - [min_utilization]: the solver adds, per fake worker with a known cpu amount, one boolean variable
        and two rows; the model OMITS them (and the field).  They only restrict the solver further: every
        real solution satisfies the model's rows, so a theorem about all solutions of the model's rows
        covers it;
      - rows of a MAX resource are not created by the real code ([free.is_max()]): [query_rows] drops them;
      - a multi-node batch that survives [create_task_batches] gets no variable on a fake worker, but it is a
        blocker of the lower-priority single-node batches: the real row system then has additional cut rows
        (and the cuts of the single-node batches list it as one more blocker).  The model solves the
        single-node part only ([sn_queues]); the sizes / limits of the single-node batches and the placement
        variables do not depend on the multi-node batches, so the ANSWER is the same function of the
        solution, and the real rows are a superset of the model's - again sound;
      - the unstable sort of the multi-node list is canonicalised by a third key. *)
From HQ Require Import Base.Prelude Gen.Consts Sched.Model.
Open Scope N_scope.

(** [ResourceAmount::MAX = ResourceAmount(u64::MAX)] in fractions *)
Definition AMOUNT_MAX : N := 18446744073709551615.

(** * Queries and the state a query reads *)

Record wquery := {
  wq_partial : bool;
  wq_desc : list (N * N);          (* (resource id, amount in fractions), in descriptor order *)
  wq_time_limit : option N;
  wq_max_sn : N;                   (* max_sn_workers *)
  wq_max_per_alloc : N             (* max_workers_per_allocation *)
}.

Record qstate := {
  qs_nres : N;                     (* resources known to the core *)
  qs_now : N;
  qs_classes : list rclass;        (* index = ResourceRqId; a multi-node class has no entries *)
  qs_nodes : list N;               (* n_nodes per class; 0 = single node *)
  qs_queues : list queue;          (* index = ResourceRqId *)
  qs_worker_counter : N;           (* Core::worker_counter() *)
  qs_free_real : N                 (* number of connected workers with is_free() *)
}.

(** * [ResourceDescriptor::validate(needs_cpus)] *)

Fixpoint desc_nodup (d : list (N * N)) : bool :=
  match d with
  | [] => true
  | e :: t => negb (existsb (fun x => fst x =? fst e) t) && desc_nodup t
  end.

Definition desc_valid (q : wquery) : bool :=
  desc_nodup (wq_desc q)
  && forallb (fun e => negb (snd e =? 0)) (wq_desc q)
  && (wq_partial q || existsb (fun e => fst e =? 0) (wq_desc q)).

(** * Fake workers *)

(** [get_or_create_resource_id] for every item of every query: an unknown name gets the next id *)
Definition nres_after (nres : N) (qs : list wquery) : N :=
  fold_left (fun n q => fold_left (fun n e => N.max n (fst e + 1)) (wq_desc q) n) qs nres.

(** the descriptor of the fake worker: a partial query is completed with MAX of every other resource *)
Definition full_desc (nres : N) (q : wquery) : list (N * N) :=
  wq_desc q
  ++ (if wq_partial q then
        map (fun r => (r, AMOUNT_MAX))
            (filter (fun r => negb (existsb (fun e => fst e =? r) (wq_desc q))) (seqN 0 (N.to_nat nres)))
      else []).

(** [WorkerResources::from_description]: length = highest resource id + 1, zero elsewhere *)
Definition vec_of_desc (d : list (N * N)) : rvec :=
  let len := fold_right (fun e acc => N.max (fst e + 1) acc) 0 d in
  fold_left (fun v e => rv_set v (N.to_nat (fst e)) (snd e)) d (repeat 0 (N.to_nat len)).

(** [Worker::new(worker_id, configuration, ..)]: nothing assigned, nothing blocked, termination time
    [now + time_limit] *)
Definition fake_worker (nres now : N) (q : wquery) (id : N) : worker :=
  let v := vec_of_desc (full_desc nres q) in
  {| w_id := id; w_res := v; w_free := v; w_assigned := []; w_blocked := [];
     w_term := match wq_time_limit q with Some t => Some (now + t) | None => None end |}.

(** the fake workers, query by query; ids count up from [next] *)
Fixpoint fake_groups (nres now : N) (qs : list wquery) (next : N) : list (list worker) :=
  match qs with
  | [] => []
  | q :: t =>
      map (fake_worker nres now q) (seqN next (N.to_nat (wq_max_sn q)))
      :: fake_groups nres now t (next + wq_max_sn q)
  end.

Definition nodes_of (st : qstate) (rq : N) : N := nth (N.to_nat rq) (qs_nodes st) 0.
Definition is_mn (st : qstate) (rq : N) : bool := 0 <? nodes_of st rq.

(** the single-node part of the queues (a multi-node batch never gets a placement on a fake worker) *)
Definition sn_queues (st : qstate) : list queue :=
  mapi_from (fun i q => if is_mn st (N.of_nat i) then empty_queue else q) (qs_queues st) 0.

Definition query_groups (st : qstate) (qs : list wquery) : list (list worker) :=
  fake_groups (nres_after (qs_nres st) qs) (qs_now st) qs (qs_worker_counter st + 1).

(** the instance the scheduler solves: the fake workers are the only workers *)
Definition query_inst (st : qstate) (qs : list wquery) : inst :=
  {| i_nres := nres_after (qs_nres st) qs; i_now := qs_now st;
     i_workers := concat (query_groups st qs);
     i_classes := qs_classes st; i_queues := sn_queues st |}.

(** (pre-F32) a multi-node batch survives [create_task_batches]: its queue is not empty and its limit
    [n_frees / n_nodes] (connected workers!) is positive *)
Definition mn_batch_alive (st : qstate) : bool :=
  existsb (fun e =>
    let n := nodes_of st (fst e) in
    (0 <? n) && negb (queue_is_empty (snd e)) && (0 <? qs_free_real st / n))
    (mapi_from (fun i q => (N.of_nat i, q)) (qs_queues st) 0).

(** (pre-F33) some fake worker [w] has a placement variable for a class asking [All] of a resource [r]
    that is MAX on [w], and a later worker has a finite amount of [r] (its row for [r] then carries the
    leaked term with coefficient MAX) *)
Fixpoint highs_rejects (I : inst) (bs : list batch) (ws : list worker) : bool :=
  match ws with
  | [] => false
  | w :: t =>
      existsb (fun r =>
        (rv_get (w_free w) r =? AMOUNT_MAX)
        && existsb (fun b => placeable I w (b_rq b) && existsb (N.eqb r) (rc_all (class_of I (b_rq b)))) bs
        && existsb (fun w' => negb (rv_get (w_free w') r =? AMOUNT_MAX)) t)
        (seqN 0 (N.to_nat (i_nres I)))
      || highs_rejects I bs t
  end.

(** * The rows the solution is checked against *)

Definition is_max_row (I : inst) (e : entry) : bool :=
  match e with
  | ERow r =>
      match r_kind r with
      | RRes w rr => existsb (fun wk => (w_id wk =? w) && (rv_get (w_free wk) rr =? AMOUNT_MAX)) (i_workers I)
      | _ => false
      end
  | EVar _ _ _ => false
  end.

Definition query_rows (I : inst) (bs : list batch) : res (list entry) :=
  do m <- milp_of I bs; Ok (filter (fun e => negb (is_max_row I e)) m).

(** the validation of the solver's answer: a feasible point of the model's rows *)
Definition query_sol_ok (st : qstate) (qs : list wquery) (s : sol) : bool :=
  let I := query_inst st qs in
  match create_task_batches I with
  | Ok bs => match query_rows I bs with Ok m => feasible m s | _ => false end
  | _ => false
  end.

(** * The single-node answer *)

(** [is_loaded]: some [sn_counts] entry of the worker is positive; an entry exists only for a
    (worker, class) pair with a placement variable *)
Definition loaded (I : inst) (bs : list batch) (s : sol) (w : worker) : bool :=
  existsb (fun b => placeable I w (b_rq b) && (0 <? sol_x s (w_id w) (b_rq b))) bs.

Definition sn_counts (I : inst) (bs : list batch) (s : sol) (groups : list (list worker)) : list N :=
  map (fun g => nlen (filter (loaded I bs s) g)) groups.

(** * The multi-node answer *)

Record mn_entry := { mn_type : N; mn_per_alloc : N; mn_max_allocs : N }.

(** [if let Some(time_limit) = .. && rq.min_time() > time_limit { None }
     else if max_workers_per_allocation >= n_nodes { Some } else { None }] *)
Definition mn_accepts (min_time n_nodes : N) (q : wquery) : bool :=
  (match wq_time_limit q with Some t => negb (t <? min_time) | None => true end)
  && (n_nodes <=? wq_max_per_alloc q).

(** [queries.iter().enumerate().find_map(..)] *)
Fixpoint find_query (min_time n_nodes : N) (qs : list wquery) (i : N) : option N :=
  match qs with
  | [] => None
  | q :: t => if mn_accepts min_time n_nodes q then Some i else find_query min_time n_nodes t (i + 1)
  end.

Definition class_min_time (st : qstate) (rq : N) : N :=
  rc_min_time (nth (N.to_nat rq) (qs_classes st) {| rc_entries := []; rc_min_time := 0; rc_all := [] |}).

(** the entry of one task queue ([filter_map] body) *)
Definition mn_entry_of (st : qstate) (qs : list wquery) (rq : N) (q : queue) : list mn_entry :=
  if is_mn st rq then
    match find_query (class_min_time st rq) (nodes_of st rq) qs 0 with
    | Some k => [{| mn_type := k; mn_per_alloc := nodes_of st rq; mn_max_allocs := queue_size q |}]
    | None => []
    end
  else [].

Definition mn_entries (st : qstate) (qs : list wquery) : list mn_entry :=
  concat (mapi_from (fun i q => mn_entry_of st qs (N.of_nat i) q) (qs_queues st) 0).

(** [sort_unstable_by_key(|x| (x.worker_type, x.worker_per_allocation))]; entries with equal keys are
    ordered by [max_allocations] here (the Rust order among them is unspecified) *)
Definition mn_le (a b : mn_entry) : bool :=
  (mn_type a <? mn_type b)
  || ((mn_type a =? mn_type b)
      && ((mn_per_alloc a <? mn_per_alloc b)
          || ((mn_per_alloc a =? mn_per_alloc b) && (mn_max_allocs a <=? mn_max_allocs b)))).

Fixpoint mn_insert (x : mn_entry) (l : list mn_entry) : list mn_entry :=
  match l with
  | [] => [x]
  | y :: t => if mn_le x y then x :: l else y :: mn_insert x t
  end.
Definition mn_sort (l : list mn_entry) : list mn_entry := fold_right mn_insert [] l.

(** * [compute_new_worker_query] *)

Record response := { r_sn : list N; r_mn : list mn_entry }.

Definition compute_new_worker_query (st : qstate) (qs : list wquery) (s : sol) : res response :=
  let I := query_inst st qs in
  do bs <- create_task_batches I;
  do _m <- query_rows I bs;
  Ok {| r_sn := sn_counts I bs s (query_groups st qs); r_mn := mn_sort (mn_entries st qs) |}.

(** when the code before the repairs F32 / F33 panicked instead of answering *)
Definition prefix_mn_unwrap (st : qstate) (qs : list wquery) : bool :=
  mn_batch_alive st && (match i_workers (query_inst st qs) with [] => false | _ => true end).
Definition prefix_highs_rejects (st : qstate) (qs : list wquery) : bool :=
  let I := query_inst st qs in
  match create_task_batches I with Ok bs => highs_rejects I bs (i_workers I) | _ => false end.

(** * [ServerRef::new_worker_query] *)

Inductive qresult := QErr | QResp (r : response).

(** [flag] = [comm.get_scheduling_flag()]; [finished] = one of the (at most 3) scheduling rounds returned
    [Done] (an oracle: the rounds themselves are the scheduler of [Sched.Model] / the cluster model; [st]
    is the state after them).  If scheduling could not finish the answer is EMPTY (no count at all). *)
Definition new_worker_query (st : qstate) (qs : list wquery) (flag finished : bool) (s : sol) : res qresult :=
  if negb (forallb desc_valid qs) then Ok QErr
  else if flag && negb finished then Ok (QResp {| r_sn := []; r_mn := [] |})
  else do r <- compute_new_worker_query st qs s; Ok (QResp r).

(** * What "a waiting class could run on the workers of query [q]" means *)

(** the filter under which the solver creates a placement variable for the class on a fake worker of [q]
    (the worker's id plays no role) *)
Definition class_fits (I : inst) (q : wquery) (rq : N) : bool :=
  placeable I (fake_worker (i_nres I) (i_now I) q 0) rq.

(** number of waiting tasks of a queue as [create_task_batches] sees it ([iter_priority_sizes]) *)
Definition sum_sizes (l : list (N * N)) : N := fold_right (fun e acc => snd e + acc) 0 l.
Definition queue_total (q : queue) : N := sum_sizes (iter_priority_sizes q).
Definition waiting_of (I : inst) (rq : N) : N := queue_total (nth (N.to_nat rq) (i_queues I) empty_queue).

(** all waiting single-node tasks *)
Definition sn_waiting (st : qstate) : N :=
  fold_right (fun q acc => queue_total q + acc) 0 (sn_queues st).

Definition sumN (l : list N) : N := fold_right N.add 0 l.
