(** C15, exact class with interleaved levels: existence of the cut that guards a waiting task (see
    [guard_cut]); two-phase induction over the merge loop, for both orientations of the two classes. *)
From HQ Require Import Base.Prelude Gen.Consts Sched.Model Sched.ProofsExact Sched.ExactFullMerge.
Require Import ZifyBool ZifyN ZifyNat.
From Coq Require Import Sorting.Sorted.
Open Scope N_scope.
Local Arguments N.add : simpl never. Local Arguments N.sub : simpl never. Local Arguments N.mul : simpl never.
Local Arguments N.eqb : simpl never. Local Arguments N.ltb : simpl never. Local Arguments N.leb : simpl never.
Local Arguments N.of_nat : simpl never. Local Arguments N.to_nat : simpl never. Local Arguments N.div : simpl never.
Local Arguments N.min : simpl never. Local Arguments N.max : simpl never.

(** * Existence of the cut that guards a waiting task

    Class X has a level of priority [p] (the waiting task's), class Y a level [q < p] that is reached
    before Y's limit (a task of it is dispatched).  Then Y ends with a cut of size at most Y's tasks of
    priority >= p whose blocker X is unbounded or asks for at least all X tasks of priority >= p. *)

Definition strong (e : ent) (G : N) : Prop := b_lr (fst e) = true \/ G <= b_size (fst e).

Definition guard_cut (eX' eY' : ent) (G GY : N) : Prop :=
  exists c bsz, In c (b_cuts (fst eY')) /\ c_size c <= GY /\ c_blockers c = [(b_rq (fst eX'), bsz)]
                /\ match bsz with None => True | Some sz => G <= sz end.

Lemma strong_hi : forall e G, 0 < G -> strong e G -> hi (fst e) = true.
Proof.
  intros e G HG [H|H]; unfold hi; [rewrite H; apply Bool.orb_true_r|].
  destruct (N.ltb_spec 0 (b_size (fst e))); [reflexivity|lia].
Qed.

Lemma strong_numeq : forall e e' G, numeq e e' -> strong e G -> strong e' G.
Proof. intros e e' G (A1 & A2 & _) [H|H]; [left; congruence|right; lia]. Qed.

Lemma strong_adv : forall e G, Einv e -> strong e G -> strong (advance_one e) G.
Proof.
  intros [b [|[p sz] t]] G He H; [exact H|]. destruct (advance_tot b p sz t He) as (_ & _ & _ & T4).
  pose proof (Einv_lr_false _ _ _ He) as Hlr. destruct H as [H|H]; [cbn [fst] in H; congruence|].
  right. cbn [fst] in H. lia.
Qed.

Lemma strong_blocker : forall e G, strong e G ->
  exists bsz, blocker_of (fst e) = (b_rq (fst e), bsz) /\ match bsz with None => True | Some sz => G <= sz end.
Proof.
  intros e G H. unfold blocker_of. destruct (b_lr (fst e)) eqn:E.
  - exists None. split; [reflexivity|exact I].
  - exists (Some (b_size (fst e))). split; [reflexivity|]. destruct H as [H|H]; [congruence|assumption].
Qed.

Lemma sum_ge_pos : forall p rem, Forall (fun l => 0 < snd l) rem -> In p (map fst rem) -> 0 < sum_ge p rem.
Proof.
  intros p rem Hpos Hin. induction rem as [|l t IH]; [contradiction|]. cbn [sum_ge].
  inversion Hpos as [|? ? Hl Ht]; subst. destruct Hin as [<-|Hin].
  - destruct (N.leb_spec (fst l) (fst l)); lia.
  - specialize (IH Ht Hin). lia.
Qed.

(** the X side: its head (priority >= p) is consumed *)
Lemma X_adv : forall e ed pa sa ta p, Einv e -> numeq e ed -> snd e = (pa, sa) :: ta -> In p (prios e) ->
  strong (advance_one ed) (Tge e p)
  \/ (In p (prios (advance_one ed)) /\ Tge (advance_one ed) p = Tge e p).
Proof.
  intros e [bd rd] pa sa ta p He Hn Hs Hin. pose proof (numeq_Einv _ _ Hn He) as Hed.
  pose proof Hn as (A1 & A2 & A3 & A4 & A5). cbn [fst snd] in A1, A2, A3, A4, A5. rewrite Hs in A5. subst rd.
  pose proof (Einv_lr_false _ _ _ Hed) as Hlr.
  destruct (desc_tail _ _ (ei_desc _ Hed)) as [_ Hlt]. cbn [fst] in Hlt.
  unfold prios in Hin. rewrite Hs in Hin. cbn [map fst] in Hin.
  assert (Hp : p <= pa).
  { destruct Hin as [<-|Hin]; [lia|]. apply in_map_iff in Hin. destruct Hin as (l & <- & Hl).
    rewrite Forall_forall in Hlt. specialize (Hlt l Hl). lia. }
  assert (HT : Tge e p = b_size bd + sa + sum_ge p ta).
  { unfold Tge. rewrite Hs, <- A1. cbn [sum_ge fst snd]. destruct (N.leb_spec p pa); lia. }
  rewrite advance_cons. destruct (N.ltb_spec (b_limit bd) (b_size bd + sa)) as [Hhit|Hno].
  - left. left. reflexivity.
  - destruct Hin as [<-|Hin].
    + left. right. cbn [fst set_size b_size]. rewrite HT. rewrite (sum_ge_zero pa ta); [lia|assumption].
    + right. split; [exact Hin|]. rewrite HT. unfold Tge. cbn [fst snd set_size b_size]. lia.
Qed.

(** the Y side: its head (priority >= p > q) is consumed *)
Lemma Y_adv : forall e ed pb sb tb p q, Einv e -> numeq e ed -> snd e = (pb, sb) :: tb ->
  In q (prios e) -> q < p -> p <= pb -> lr_gt e q = false ->
  In q (prios (advance_one ed)) /\ Tge (advance_one ed) p = Tge e p /\ lr_gt (advance_one ed) q = false.
Proof.
  intros e [bd rd] pb sb tb p q He Hn Hs Hin Hq Hp Hlr. pose proof (numeq_Einv _ _ Hn He) as Hed.
  pose proof Hn as (A1 & A2 & A3 & A4 & A5). cbn [fst snd] in A1, A2, A3, A4, A5. rewrite Hs in A5. subst rd.
  pose proof (Einv_lr_false _ _ _ Hed) as Hlrd.
  destruct (advance_below bd pb sb tb q Hed ltac:(lia)) as [B1 B2].
  rewrite (numeq_lr_gt _ _ q Hn) in B1, B2. rewrite Hlr in B1. specialize (B2 Hlr).
  unfold prios in Hin. rewrite Hs in Hin. cbn [map fst] in Hin.
  destruct Hin as [<-|Hin]; [lia|].
  assert (Hno : b_size bd + sb <= b_limit bd).
  { unfold lr_gt in Hlr. apply Bool.orb_false_iff in Hlr. destruct Hlr as [_ Hl]. apply N.ltb_ge in Hl.
    unfold Tgt in Hl. rewrite Hs in Hl. cbn [sum_gt fst snd] in Hl. destruct (N.ltb_spec q pb); lia. }
  split; [|split; [|exact B1]].
  - rewrite advance_cons. destruct (N.ltb_spec (b_limit bd) (b_size bd + sb)); [lia|exact Hin].
  - rewrite advance_cons. destruct (N.ltb_spec (b_limit bd) (b_size bd + sb)); [lia|].
    unfold Tge. rewrite Hs, <- A1. cbn [fst snd set_size b_size sum_ge]. destruct (N.leb_spec p pb); lia.
Qed.

Lemma head_ge : forall e p0 s0 t0 p, Einv e -> snd e = (p0, s0) :: t0 -> In p (prios e) -> p <= p0.
Proof.
  intros e p0 s0 t0 p He Hs Hin. unfold prios in Hin. rewrite Hs in Hin.
  pose proof (desc_le_head _ _ ltac:(rewrite <- Hs; apply (ei_desc _ He))) as Hle.
  apply in_map_iff in Hin. destruct Hin as (l & <- & Hl). rewrite Forall_forall in Hle. apply (Hle l Hl).
Qed.

Lemma not_some1 : forall u : option nat, u <> Some 1%nat -> (match u with Some u0 => Nat.eqb u0 1 | None => false end) = false.
Proof. intros [[|[|n]]|] H; try reflexivity. congruence. Qed.
Lemma not_some0 : forall u : option nat, u <> Some 0%nat -> (match u with Some u0 => Nat.eqb u0 0 | None => false end) = false.
Proof. intros [[|n]|] H; try reflexivity. congruence. Qed.

(** a cut present in an intermediate state survives to the end *)
Lemma cut_survives_B : forall f eA eB u eA' eB' c, Einv eA -> Einv eB -> (length (snd eA) + length (snd eB) < f)%nat ->
  merge_loop f [eA; eB] u = [eA'; eB'] -> In c (b_cuts (fst eB)) -> In c (b_cuts (fst eB')) /\ b_rq (fst eA') = b_rq (fst eA).
Proof.
  intros f eA eB u eA' eB' c HA HB Hlen E Hin.
  destruct (merge2_post f eA eB u HA HB Hlen) as (eA2 & eB2 & E2 & PA & PB).
  rewrite E in E2. injection E2 as <- <-. split.
  - destruct (pz_cuts _ _ _ PB) as (l & -> & _). apply in_or_app. left. assumption.
  - apply (pz_rq _ _ _ PA).
Qed.
Lemma cut_survives_A : forall f eA eB u eA' eB' c, Einv eA -> Einv eB -> (length (snd eA) + length (snd eB) < f)%nat ->
  merge_loop f [eA; eB] u = [eA'; eB'] -> In c (b_cuts (fst eA)) -> In c (b_cuts (fst eA')) /\ b_rq (fst eB') = b_rq (fst eB).
Proof.
  intros f eA eB u eA' eB' c HA HB Hlen E Hin.
  destruct (merge2_post f eA eB u HA HB Hlen) as (eA2 & eB2 & E2 & PA & PB).
  rewrite E in E2. injection E2 as <- <-. split.
  - destruct (pz_cuts _ _ _ PA) as (l & -> & _). apply in_or_app. left. assumption.
  - apply (pz_rq _ _ _ PB).
Qed.

(** the cut made for [eY] next to a strong [eX] is a guard cut *)
Lemma cut_now_guard : forall eX eY G GY, 0 < G -> strong eX G -> b_size (fst eY) <= GY ->
  In (cut_now eY eX) (b_cuts (fst (with_cut eY eX)))
  /\ c_size (cut_now eY eX) <= GY
  /\ exists bsz, c_blockers (cut_now eY eX) = [(b_rq (fst eX), bsz)] /\ match bsz with None => True | Some sz => G <= sz end.
Proof.
  intros eX eY G GY HG Hst Hsz. split; [|split].
  - rewrite with_cut_cuts, (strong_hi _ _ HG Hst). apply in_or_app. right. left. reflexivity.
  - exact Hsz.
  - destruct (strong_blocker _ _ Hst) as (bsz & Hb & Hm). exists bsz. split; [|exact Hm]. unfold cut_now. cbn [c_blockers]. rewrite Hb. reflexivity.
Qed.

(** ** Y is the second entry *)
Lemma phase2_B : forall f eX eY u G GY eX' eY', Einv eX -> Einv eY -> (length (snd eX) + length (snd eY) < f)%nat ->
  u <> Some 1%nat -> snd eY <> [] -> 0 < G -> strong eX G -> b_size (fst eY) <= GY ->
  merge_loop f [eX; eY] u = [eX'; eY'] -> guard_cut eX' eY' G GY /\ b_rq (fst eX') = b_rq (fst eX).
Proof.
  induction f as [|f IH]; intros eX eY u G GY eX' eY' HX HY Hlen Hu Hne HG Hst Hsz E; [lia|].
  rewrite merge2_step in E.
  (* the iteration that consumes Y's head makes the cut *)
  assert (UseB : forall eX1 eY1 u1, numeq eX eX1 -> numeq eY eY1 ->
            merge_loop f [eX1; advance_one (with_cut eY1 eX1)] u1 = [eX'; eY'] ->
            guard_cut eX' eY' G GY /\ b_rq (fst eX') = b_rq (fst eX)).
  { intros eX1 eY1 u1 NX NY E1.
    destruct (cut_now_guard eX1 eY1 G GY HG (strong_numeq _ _ _ NX Hst)) as (C1 & C2 & bsz & C3 & C4).
    { destruct NY as (A1 & _). rewrite A1. assumption. }
    pose proof (numeq_Einv _ _ NX HX) as HX1. pose proof (numeq_Einv _ _ NY HY) as HY1.
    destruct (cut_survives_B f eX1 (advance_one (with_cut eY1 eX1)) u1 eX' eY' (cut_now eY1 eX1) HX1
                (Einv_advance _ (Einv_with_cut _ _ HY1))) as [S1 S2]; [|exact E1|rewrite advance_cuts; exact C1|].
    { pose proof (adv_len (with_cut eY1 eX1)) as Hl. rewrite with_cut_rem in Hl.
      destruct NX as (_ & _ & _ & _ & NX5). destruct NY as (_ & _ & _ & _ & NY5). rewrite NX5, NY5 in *.
      destruct (snd eY); [congruence|]. cbn [length] in *. lia. }
    assert (Hrq : b_rq (fst eX') = b_rq (fst eX)) by (rewrite S2; apply NX).
    split; [|exact Hrq]. exists (cut_now eY1 eX1), bsz. split; [exact S1|]. split; [exact C2|]. split; [|exact C4].
    rewrite C3, S2. reflexivity. }
  assert (UseA : forall eXd eY1 u1, numeq eX eXd -> numeq eY eY1 -> u1 <> Some 1%nat -> snd eX <> [] ->
            merge_loop f [advance_one eXd; eY1] u1 = [eX'; eY'] ->
            guard_cut eX' eY' G GY /\ b_rq (fst eX') = b_rq (fst eX)).
  { intros eXd eY1 u1 NX NY Hu1 HneX E1.
    pose proof (numeq_Einv _ _ NX HX) as HX1. pose proof (numeq_Einv _ _ NY HY) as HY1.
    destruct (IH (advance_one eXd) eY1 u1 G GY eX' eY' (Einv_advance _ HX1) HY1) as [I1 I2]; try assumption.
    - pose proof (adv_len eXd) as Hl.
      destruct NX as (_ & _ & _ & _ & NX5). destruct NY as (_ & _ & _ & _ & NY5). rewrite NX5, NY5 in *.
      destruct (snd eX); [congruence|]. cbn [length] in *. lia.
    - destruct NY as (_ & _ & _ & _ & NY5). rewrite NY5. assumption.
    - apply strong_adv; [assumption|]. eapply strong_numeq; eassumption.
    - destruct NY as (A1 & _). rewrite A1. assumption.
    - split; [exact I1|]. rewrite I2, advance_rq. apply NX. }
  unfold head_prio in E. destruct (snd eY) as [|[pb sb] tb] eqn:EY; [congruence|].
  assert (HB : stepB f eX eY u = [eX'; eY'] -> guard_cut eX' eY' G GY /\ b_rq (fst eX') = b_rq (fst eX)).
  { unfold stepB. rewrite (not_some1 u Hu). intros E1.
    apply (UseB (with_blk eX) eY (Some 1%nat)); [apply numeq_with_blk|apply numeq_refl|].
    (* the cut refers to the blocked copy of X: same numbers *)
    assert (Hw : with_cut eY (with_blk eX) = with_cut eY eX).
    { unfold with_cut. rewrite with_blk_hi. unfold cut_now. rewrite with_blk_blocker. reflexivity. }
    rewrite Hw. exact E1. }
  assert (HA : snd eX <> [] -> stepA f eX eY u = [eX'; eY'] -> guard_cut eX' eY' G GY /\ b_rq (fst eX') = b_rq (fst eX)).
  { intros HneX. unfold stepA. destruct (match u with Some u0 => Nat.eqb u0 0 | None => false end).
    - intros E1. apply (UseA eX eY u); try assumption; apply numeq_refl.
    - intros E1. apply (UseA (with_cut eX eY) (with_blk eY) (Some 0%nat)); try assumption;
        [apply numeq_with_cut|apply numeq_with_blk|discriminate]. }
  assert (HT : stepT f eX eY = [eX'; eY'] -> guard_cut eX' eY' G GY /\ b_rq (fst eX') = b_rq (fst eX)).
  { unfold stepT. intros E1.
    (* X is consumed as well; its copy stays strong *)
    set (dX := with_blk (with_cut eX eY)) in *.
    assert (NdX : numeq eX dX) by (eapply numeq_trans; [apply numeq_with_cut|apply numeq_with_blk]).
    pose proof (numeq_Einv _ _ NdX HX) as HdX.
    assert (Hw : with_cut (with_blk eY) (with_cut eX eY) = with_cut (with_blk eY) dX).
    { unfold with_cut at 1 3. unfold dX. rewrite with_blk_hi. unfold cut_now. rewrite with_blk_blocker. reflexivity. }
    rewrite Hw in E1.
    destruct (cut_now_guard dX (with_blk eY) G GY HG (strong_numeq _ _ _ NdX Hst)) as (C1 & C2 & bsz & C3 & C4).
    { rewrite with_blk_size. assumption. }
    destruct (cut_survives_B f (advance_one dX) (advance_one (with_cut (with_blk eY) dX)) None eX' eY' (cut_now (with_blk eY) dX)
                (Einv_advance _ HdX) (Einv_advance _ (Einv_with_cut _ _ (Einv_with_blk _ HY)))) as [S1 S2];
      [|exact E1|rewrite advance_cuts; exact C1|].
    { pose proof (adv_len dX) as Hl1. pose proof (adv_len (with_cut (with_blk eY) dX)) as Hl2.
      rewrite with_cut_rem, with_blk_rem in Hl2. destruct NdX as (_ & _ & _ & _ & N5). rewrite N5 in *.
      rewrite EY in *. cbn [length] in *. lia. }
    rewrite advance_rq in S2.
    assert (Hrq : b_rq (fst eX') = b_rq (fst eX)) by (rewrite S2; apply NdX).
    split; [|exact Hrq]. exists (cut_now (with_blk eY) dX), bsz. split; [exact S1|]. split; [exact C2|]. split; [|exact C4].
    rewrite C3, S2. reflexivity. }
  destruct (snd eX) as [|[pa sa] ta] eqn:EX.
  - apply HB. exact E.
  - destruct (pb <? pa); [apply HA; [discriminate|exact E]|]. destruct (pa <? pb); [apply HB; exact E|apply HT; exact E].
Qed.

Lemma numeq_len : forall e e', numeq e e' -> length (snd e') = length (snd e).
Proof. intros e e' (_ & _ & _ & _ & A5). rewrite A5. reflexivity. Qed.

Lemma Tge_size : forall e p, b_size (fst e) <= Tge e p.
Proof. intros. unfold Tge. lia. Qed.

Lemma Tge_pos : forall e p, Einv e -> In p (prios e) -> 0 < Tge e p.
Proof. intros e p He Hin. unfold Tge. pose proof (sum_ge_pos p (snd e) (ei_pos _ He) Hin). lia. Qed.

Lemma prios_nonempty : forall e p, In p (prios e) -> snd e <> [].
Proof. intros e p H E. unfold prios in H. rewrite E in H. contradiction. Qed.

Lemma phase1_B : forall f eX eY u p q eX' eY', Einv eX -> Einv eY -> (length (snd eX) + length (snd eY) < f)%nat ->
  In p (prios eX) -> In q (prios eY) -> q < p -> lr_gt eY q = false ->
  merge_loop f [eX; eY] u = [eX'; eY'] -> guard_cut eX' eY' (Tge eX p) (Tge eY p) /\ b_rq (fst eX') = b_rq (fst eX).
Proof.
  induction f as [|f IH]; intros eX eY u p q eX' eY' HX HY Hlen Hp Hq Hqp Hlr E; [lia|].
  rewrite merge2_step in E.
  pose proof (Tge_pos eX p HX Hp) as HG.
  unfold head_prio in E.
  destruct (snd eX) as [|[pa sa] ta] eqn:EX; [exfalso; apply (prios_nonempty _ _ Hp EX)|].
  destruct (snd eY) as [|[pb sb] tb] eqn:EY; [exfalso; apply (prios_nonempty _ _ Hq EY)|].
  pose proof (head_ge eX pa sa ta p HX EX Hp) as Hpa.
  pose proof (head_ge eY pb sb tb q HY EY Hq) as Hqb.
  (* X's head is consumed (alone, or together with Y's): X ends strong, or the situation persists *)
  assert (ConsX : forall eXd eY1 u1, numeq eX eXd -> u1 <> Some 1%nat ->
            Einv eY1 -> In q (prios eY1) -> lr_gt eY1 q = false -> Tge eY1 p = Tge eY p ->
            (length (snd eY1) <= length (snd eY))%nat ->
            merge_loop f [advance_one eXd; eY1] u1 = [eX'; eY'] ->
            guard_cut eX' eY' (Tge eX p) (Tge eY p) /\ b_rq (fst eX') = b_rq (fst eX)).
  { intros eXd eY1 u1 NX Hu1 HY1 Hq1 Hlr1 HT1 Hl1 E1.
    pose proof (numeq_Einv _ _ NX HX) as HXd.
    assert (Hlen1 : (length (snd (advance_one eXd)) + length (snd eY1) < f)%nat).
    { pose proof (adv_len eXd) as Hl. rewrite (numeq_len _ _ NX) in Hl. rewrite ?EX, ?EY in *. cbn [length] in *. lia. }
    assert (Hrq : b_rq (fst (advance_one eXd)) = b_rq (fst eX)) by (rewrite advance_rq; apply NX).
    destruct (X_adv eX eXd pa sa ta p HX NX EX Hp) as [Hst|[Hp1 HT]].
    - destruct (phase2_B f (advance_one eXd) eY1 u1 (Tge eX p) (Tge eY p) eX' eY' (Einv_advance _ HXd) HY1 Hlen1 Hu1
                  (prios_nonempty _ _ Hq1) HG Hst) as [I1 I2]; [rewrite <- HT1; apply Tge_size|exact E1|].
      split; [exact I1|congruence].
    - destruct (IH (advance_one eXd) eY1 u1 p q eX' eY' (Einv_advance _ HXd) HY1 Hlen1 Hp1 Hq1 Hqp Hlr1 E1) as [I1 I2].
      rewrite HT, HT1 in I1. split; [exact I1|congruence]. }
  assert (HA : pb < pa -> stepA f eX eY u = [eX'; eY'] -> guard_cut eX' eY' (Tge eX p) (Tge eY p) /\ b_rq (fst eX') = b_rq (fst eX)).
  { intros _. unfold stepA. destruct (match u with Some u0 => Nat.eqb u0 0 | None => false end) eqn:Eu.
    - intros E1. apply (ConsX eX eY u); try first [assumption|reflexivity|apply numeq_refl|apply Nat.le_refl].
      destruct u as [[|n]|]; try discriminate.
    - intros E1. pose proof (numeq_with_blk eY) as NY.
      apply (ConsX (with_cut eX eY) (with_blk eY) (Some 0%nat)); try assumption.
      + apply numeq_with_cut. + discriminate. + apply Einv_with_blk; assumption.
      + rewrite (numeq_prios _ _ NY). assumption. + rewrite (numeq_lr_gt _ _ q NY). assumption.
      + apply numeq_Tge. assumption. + rewrite (numeq_len _ _ NY). lia. }
  (* Y's head (priority >= p) is consumed *)
  assert (HB : pa < pb -> stepB f eX eY u = [eX'; eY'] -> guard_cut eX' eY' (Tge eX p) (Tge eY p) /\ b_rq (fst eX') = b_rq (fst eX)).
  { intros Hab. unfold stepB. destruct (match u with Some u0 => Nat.eqb u0 1 | None => false end).
    - intros E1. destruct (Y_adv eY eY pb sb tb p q HY (numeq_refl _) EY Hq Hqp ltac:(lia) Hlr) as (Y1 & Y2 & Y3).
      assert (Hl2 : (length (snd eX) + length (snd (advance_one eY)) < f)%nat).
      { pose proof (adv_len eY) as Hl. rewrite ?EX, ?EY in *. cbn [length] in *. lia. }
      destruct (IH eX (advance_one eY) u p q eX' eY' HX (Einv_advance _ HY) Hl2 Hp Y1 Hqp Y3 E1) as [I1 I2].
      rewrite Y2 in I1. split; assumption.
    - intros E1. pose proof (numeq_with_blk eX) as NX. pose proof (numeq_with_cut eY eX) as NY.
      destruct (Y_adv eY (with_cut eY eX) pb sb tb p q HY NY EY Hq Hqp ltac:(lia) Hlr) as (Y1 & Y2 & Y3).
      assert (Hl2 : (length (snd (with_blk eX)) + length (snd (advance_one (with_cut eY eX))) < f)%nat).
      { pose proof (adv_len (with_cut eY eX)) as Hl. rewrite (numeq_len _ _ NY) in Hl. rewrite (numeq_len _ _ NX).
        rewrite ?EX, ?EY in *. cbn [length] in *. lia. }
      assert (Hp2 : In p (prios (with_blk eX))) by (rewrite (numeq_prios _ _ NX); exact Hp).
      destruct (IH (with_blk eX) (advance_one (with_cut eY eX)) (Some 1%nat) p q eX' eY'
                  (Einv_with_blk _ HX) (Einv_advance _ (Einv_with_cut _ _ HY)) Hl2 Hp2 Y1 Hqp Y3 E1) as [I1 I2].
      rewrite Y2, (numeq_Tge _ _ p NX) in I1. split; [exact I1|]. rewrite I2. apply NX. }
  assert (HT : pa = pb -> stepT f eX eY = [eX'; eY'] -> guard_cut eX' eY' (Tge eX p) (Tge eY p) /\ b_rq (fst eX') = b_rq (fst eX)).
  { intros Hab. unfold stepT. intros E1.
    set (dX := with_blk (with_cut eX eY)) in *. set (dY := with_cut (with_blk eY) (with_cut eX eY)) in *.
    assert (NX : numeq eX dX) by (eapply numeq_trans; [apply numeq_with_cut|apply numeq_with_blk]).
    assert (NY : numeq eY dY) by (eapply numeq_trans; [apply numeq_with_blk|apply numeq_with_cut]).
    destruct (Y_adv eY dY pb sb tb p q HY NY EY Hq Hqp ltac:(lia) Hlr) as (Y1 & Y2 & Y3).
    apply (ConsX dX (advance_one dY) None); try assumption.
    - discriminate.
    - apply Einv_advance. apply (numeq_Einv _ _ NY HY).
    - pose proof (adv_len dY) as Hl. rewrite (numeq_len _ _ NY) in Hl. rewrite EY in *. cbn [length] in *. lia. }
  unfold prios in Hp, Hq. rewrite EX in Hp. rewrite EY in Hq.
  destruct (N.ltb_spec pb pa) as [H1|H1]; [apply HA; [exact H1|exact E]|].
  destruct (N.ltb_spec pa pb) as [H2|H2]; [apply HB; [exact H2|exact E]|apply HT; [lia|exact E]].
Qed.

(** ** Y is the first entry *)
Lemma phase2_A : forall f eX eY u G GY eX' eY', Einv eX -> Einv eY -> (length (snd eY) + length (snd eX) < f)%nat ->
  u <> Some 0%nat -> snd eY <> [] -> 0 < G -> strong eX G -> b_size (fst eY) <= GY ->
  merge_loop f [eY; eX] u = [eY'; eX'] -> guard_cut eX' eY' G GY /\ b_rq (fst eX') = b_rq (fst eX).
Proof.
  induction f as [|f IH]; intros eX eY u G GY eX' eY' HX HY Hlen Hu Hne HG Hst Hsz E; [lia|].
  rewrite merge2_step in E.
  assert (UseY : forall eX1 eY1 u1, numeq eX eX1 -> numeq eY eY1 ->
            merge_loop f [advance_one (with_cut eY1 eX1); eX1] u1 = [eY'; eX'] ->
            guard_cut eX' eY' G GY /\ b_rq (fst eX') = b_rq (fst eX)).
  { intros eX1 eY1 u1 NX NY E1.
    destruct (cut_now_guard eX1 eY1 G GY HG (strong_numeq _ _ _ NX Hst)) as (C1 & C2 & bsz & C3 & C4).
    { destruct NY as (A1 & _). rewrite A1. assumption. }
    pose proof (numeq_Einv _ _ NX HX) as HX1. pose proof (numeq_Einv _ _ NY HY) as HY1.
    destruct (cut_survives_A f (advance_one (with_cut eY1 eX1)) eX1 u1 eY' eX' (cut_now eY1 eX1)
                (Einv_advance _ (Einv_with_cut _ _ HY1)) HX1) as [S1 S2]; [|exact E1|rewrite advance_cuts; exact C1|].
    { pose proof (adv_len (with_cut eY1 eX1)) as Hl. rewrite with_cut_rem in Hl.
      rewrite (numeq_len _ _ NX). rewrite (numeq_len _ _ NY) in Hl.
      destruct (snd eY); [congruence|]. cbn [length] in *. lia. }
    assert (Hrq : b_rq (fst eX') = b_rq (fst eX)) by (rewrite S2; apply NX).
    split; [|exact Hrq]. exists (cut_now eY1 eX1), bsz. split; [exact S1|]. split; [exact C2|]. split; [|exact C4].
    rewrite C3, S2. reflexivity. }
  assert (UseX : forall eXd eY1 u1, numeq eX eXd -> numeq eY eY1 -> u1 <> Some 0%nat -> snd eX <> [] ->
            merge_loop f [eY1; advance_one eXd] u1 = [eY'; eX'] ->
            guard_cut eX' eY' G GY /\ b_rq (fst eX') = b_rq (fst eX)).
  { intros eXd eY1 u1 NX NY Hu1 HneX E1.
    pose proof (numeq_Einv _ _ NX HX) as HX1. pose proof (numeq_Einv _ _ NY HY) as HY1.
    destruct (IH (advance_one eXd) eY1 u1 G GY eX' eY' (Einv_advance _ HX1) HY1) as [I1 I2]; try assumption.
    - pose proof (adv_len eXd) as Hl. rewrite (numeq_len _ _ NX) in Hl. rewrite (numeq_len _ _ NY).
      destruct (snd eX); [congruence|]. cbn [length] in *. lia.
    - destruct NY as (_ & _ & _ & _ & NY5). rewrite NY5. assumption.
    - apply strong_adv; [assumption|]. eapply strong_numeq; eassumption.
    - destruct NY as (A1 & _). rewrite A1. assumption.
    - split; [exact I1|]. rewrite I2, advance_rq. apply NX. }
  unfold head_prio in E. destruct (snd eY) as [|[pa sa] ta] eqn:EY; [congruence|].
  assert (HA : stepA f eY eX u = [eY'; eX'] -> guard_cut eX' eY' G GY /\ b_rq (fst eX') = b_rq (fst eX)).
  { unfold stepA. rewrite (not_some0 u Hu). intros E1.
    apply (UseY (with_blk eX) eY (Some 0%nat)); [apply numeq_with_blk|apply numeq_refl|].
    assert (Hw : with_cut eY (with_blk eX) = with_cut eY eX).
    { unfold with_cut. rewrite with_blk_hi. unfold cut_now. rewrite with_blk_blocker. reflexivity. }
    rewrite Hw. exact E1. }
  assert (HB : snd eX <> [] -> stepB f eY eX u = [eY'; eX'] -> guard_cut eX' eY' G GY /\ b_rq (fst eX') = b_rq (fst eX)).
  { intros HneX. unfold stepB. destruct (match u with Some u0 => Nat.eqb u0 1 | None => false end).
    - intros E1. apply (UseX eX eY u); try assumption; apply numeq_refl.
    - intros E1. apply (UseX (with_cut eX eY) (with_blk eY) (Some 1%nat)); try assumption;
        [apply numeq_with_cut|apply numeq_with_blk|discriminate]. }
  assert (HT : stepT f eY eX = [eY'; eX'] -> guard_cut eX' eY' G GY /\ b_rq (fst eX') = b_rq (fst eX)).
  { unfold stepT. intros E1.
    set (dY := with_blk (with_cut eY eX)) in *. set (dX := with_cut (with_blk eX) (with_cut eY eX)) in *.
    assert (NdX : numeq eX dX) by (eapply numeq_trans; [apply numeq_with_blk|apply numeq_with_cut]).
    assert (NdY : numeq eY dY) by (eapply numeq_trans; [apply numeq_with_cut|apply numeq_with_blk]).
    destruct (cut_now_guard eX eY G GY HG Hst Hsz) as (C1 & C2 & bsz & C3 & C4).
    destruct (cut_survives_A f (advance_one dY) (advance_one dX) None eY' eX' (cut_now eY eX)
                (Einv_advance _ (numeq_Einv _ _ NdY HY)) (Einv_advance _ (numeq_Einv _ _ NdX HX))) as [S1 S2];
      [|exact E1|rewrite advance_cuts; unfold dY; rewrite with_blk_cuts; exact C1|].
    { pose proof (adv_len dX) as Hl1. pose proof (adv_len dY) as Hl2.
      rewrite (numeq_len _ _ NdX) in Hl1. rewrite (numeq_len _ _ NdY) in Hl2.
      rewrite ?EY in *. cbn [length] in *. lia. }
    rewrite advance_rq in S2.
    assert (Hrq : b_rq (fst eX') = b_rq (fst eX)) by (rewrite S2; apply NdX).
    split; [|exact Hrq]. exists (cut_now eY eX), bsz. split; [exact S1|]. split; [exact C2|]. split; [|exact C4].
    rewrite C3, Hrq. reflexivity. }
  destruct (snd eX) as [|[pb sb] tb] eqn:EX.
  - apply HA. exact E.
  - destruct (pb <? pa); [apply HA; exact E|]. destruct (pa <? pb); [apply HB; [discriminate|exact E]|apply HT; exact E].
Qed.

Lemma phase1_A : forall f eX eY u p q eX' eY', Einv eX -> Einv eY -> (length (snd eY) + length (snd eX) < f)%nat ->
  In p (prios eX) -> In q (prios eY) -> q < p -> lr_gt eY q = false ->
  merge_loop f [eY; eX] u = [eY'; eX'] -> guard_cut eX' eY' (Tge eX p) (Tge eY p) /\ b_rq (fst eX') = b_rq (fst eX).
Proof.
  induction f as [|f IH]; intros eX eY u p q eX' eY' HX HY Hlen Hp Hq Hqp Hlr E; [lia|].
  rewrite merge2_step in E.
  pose proof (Tge_pos eX p HX Hp) as HG.
  unfold head_prio in E.
  destruct (snd eY) as [|[pa sa] ta] eqn:EY; [exfalso; apply (prios_nonempty _ _ Hq EY)|].
  destruct (snd eX) as [|[pb sb] tb] eqn:EX; [exfalso; apply (prios_nonempty _ _ Hp EX)|].
  pose proof (head_ge eX pb sb tb p HX EX Hp) as Hpb.
  pose proof (head_ge eY pa sa ta q HY EY Hq) as Hqa.
  assert (ConsX : forall eXd eY1 u1, numeq eX eXd -> u1 <> Some 0%nat ->
            Einv eY1 -> In q (prios eY1) -> lr_gt eY1 q = false -> Tge eY1 p = Tge eY p ->
            (length (snd eY1) <= length (snd eY))%nat ->
            merge_loop f [eY1; advance_one eXd] u1 = [eY'; eX'] ->
            guard_cut eX' eY' (Tge eX p) (Tge eY p) /\ b_rq (fst eX') = b_rq (fst eX)).
  { intros eXd eY1 u1 NX Hu1 HY1 Hq1 Hlr1 HT1 Hl1 E1.
    pose proof (numeq_Einv _ _ NX HX) as HXd.
    assert (Hlen1 : (length (snd eY1) + length (snd (advance_one eXd)) < f)%nat).
    { pose proof (adv_len eXd) as Hl. rewrite (numeq_len _ _ NX) in Hl. rewrite ?EX, ?EY in *. cbn [length] in *. lia. }
    assert (Hrq : b_rq (fst (advance_one eXd)) = b_rq (fst eX)) by (rewrite advance_rq; apply NX).
    destruct (X_adv eX eXd pb sb tb p HX NX EX Hp) as [Hst|[Hp1 HT]].
    - destruct (phase2_A f (advance_one eXd) eY1 u1 (Tge eX p) (Tge eY p) eX' eY' (Einv_advance _ HXd) HY1 Hlen1 Hu1
                  (prios_nonempty _ _ Hq1) HG Hst) as [I1 I2]; [rewrite <- HT1; apply Tge_size|exact E1|].
      split; [exact I1|congruence].
    - destruct (IH (advance_one eXd) eY1 u1 p q eX' eY' (Einv_advance _ HXd) HY1 Hlen1 Hp1 Hq1 Hqp Hlr1 E1) as [I1 I2].
      rewrite HT, HT1 in I1. split; [exact I1|congruence]. }
  (* X's head alone *)
  assert (HB : pa < pb -> stepB f eY eX u = [eY'; eX'] -> guard_cut eX' eY' (Tge eX p) (Tge eY p) /\ b_rq (fst eX') = b_rq (fst eX)).
  { intros _. unfold stepB. destruct (match u with Some u0 => Nat.eqb u0 1 | None => false end) eqn:Eu.
    - intros E1. apply (ConsX eX eY u); try first [assumption|reflexivity|apply numeq_refl|apply Nat.le_refl].
      destruct u as [[|[|n]]|]; try discriminate.
    - intros E1. pose proof (numeq_with_blk eY) as NY.
      apply (ConsX (with_cut eX eY) (with_blk eY) (Some 1%nat)); try assumption.
      + apply numeq_with_cut. + discriminate. + apply Einv_with_blk; assumption.
      + rewrite (numeq_prios _ _ NY). assumption. + rewrite (numeq_lr_gt _ _ q NY). assumption.
      + apply numeq_Tge. assumption. + rewrite (numeq_len _ _ NY). lia. }
  (* Y's head alone *)
  assert (HA : pb < pa -> stepA f eY eX u = [eY'; eX'] -> guard_cut eX' eY' (Tge eX p) (Tge eY p) /\ b_rq (fst eX') = b_rq (fst eX)).
  { intros Hab. unfold stepA. destruct (match u with Some u0 => Nat.eqb u0 0 | None => false end).
    - intros E1. destruct (Y_adv eY eY pa sa ta p q HY (numeq_refl _) EY Hq Hqp ltac:(lia) Hlr) as (Y1 & Y2 & Y3).
      assert (Hl2 : (length (snd (advance_one eY)) + length (snd eX) < f)%nat).
      { pose proof (adv_len eY) as Hl. rewrite ?EX, ?EY in *. cbn [length] in *. lia. }
      destruct (IH eX (advance_one eY) u p q eX' eY' HX (Einv_advance _ HY) Hl2 Hp Y1 Hqp Y3 E1) as [I1 I2].
      rewrite Y2 in I1. split; assumption.
    - intros E1. pose proof (numeq_with_blk eX) as NX. pose proof (numeq_with_cut eY eX) as NY.
      destruct (Y_adv eY (with_cut eY eX) pa sa ta p q HY NY EY Hq Hqp ltac:(lia) Hlr) as (Y1 & Y2 & Y3).
      assert (Hl2 : (length (snd (advance_one (with_cut eY eX))) + length (snd (with_blk eX)) < f)%nat).
      { pose proof (adv_len (with_cut eY eX)) as Hl. rewrite (numeq_len _ _ NY) in Hl. rewrite (numeq_len _ _ NX).
        rewrite ?EX, ?EY in *. cbn [length] in *. lia. }
      assert (Hp2 : In p (prios (with_blk eX))) by (rewrite (numeq_prios _ _ NX); exact Hp).
      destruct (IH (with_blk eX) (advance_one (with_cut eY eX)) (Some 0%nat) p q eX' eY'
                  (Einv_with_blk _ HX) (Einv_advance _ (Einv_with_cut _ _ HY)) Hl2 Hp2 Y1 Hqp Y3 E1) as [I1 I2].
      rewrite Y2, (numeq_Tge _ _ p NX) in I1. split; [exact I1|]. rewrite I2. apply NX. }
  assert (HT : pa = pb -> stepT f eY eX = [eY'; eX'] -> guard_cut eX' eY' (Tge eX p) (Tge eY p) /\ b_rq (fst eX') = b_rq (fst eX)).
  { intros Hab. unfold stepT. intros E1.
    set (dY := with_blk (with_cut eY eX)) in *. set (dX := with_cut (with_blk eX) (with_cut eY eX)) in *.
    assert (NX : numeq eX dX) by (eapply numeq_trans; [apply numeq_with_blk|apply numeq_with_cut]).
    assert (NY : numeq eY dY) by (eapply numeq_trans; [apply numeq_with_cut|apply numeq_with_blk]).
    destruct (Y_adv eY dY pa sa ta p q HY NY EY Hq Hqp ltac:(lia) Hlr) as (Y1 & Y2 & Y3).
    apply (ConsX dX (advance_one dY) None); try assumption.
    - discriminate.
    - apply Einv_advance. apply (numeq_Einv _ _ NY HY).
    - pose proof (adv_len dY) as Hl. rewrite (numeq_len _ _ NY) in Hl. rewrite ?EY in *. cbn [length] in *. lia. }
  destruct (N.ltb_spec pb pa) as [H1|H1]; [apply HA; [exact H1|exact E]|].
  destruct (N.ltb_spec pa pb) as [H2|H2]; [apply HB; [exact H2|exact E]|apply HT; [lia|exact E]].
Qed.
