(** C15, exact class with interleaved levels: what an accepted dispatch ([mapping_ok]) says about which
    tasks of a class run (its top ones, all on the one worker) and what the "fits without the lower
    tasks" test of the inversion predicate means in numbers. *)
From HQ Require Import Base.Prelude Gen.Consts Sched.Model Sched.ProofsOrder Sched.ProofsRows Sched.ProofsCuts
  Sched.ProofsExact Sched.ExactFullMerge Sched.ExactFullInst.
Require Import ZifyBool ZifyN ZifyNat.
From Coq Require Import Sorting.Sorted.
Open Scope N_scope.
Local Arguments N.add : simpl never. Local Arguments N.sub : simpl never. Local Arguments N.mul : simpl never.
Local Arguments N.eqb : simpl never. Local Arguments N.ltb : simpl never. Local Arguments N.leb : simpl never.
Local Arguments N.of_nat : simpl never. Local Arguments N.to_nat : simpl never. Local Arguments N.div : simpl never.
Local Arguments N.min : simpl never. Local Arguments N.max : simpl never.

(** ** lists *)
Lemma filter_all : forall {A} (f : A -> bool) l, (forall x, In x l -> f x = true) -> filter f l = l.
Proof.
  intros A f l. induction l as [|x t IH]; intros H; cbn [filter]; [reflexivity|].
  rewrite (H x (or_introl eq_refl)). f_equal. apply IH. intros y Hy. apply H. right. assumption.
Qed.
Lemma filter_none : forall {A} (f : A -> bool) l, (forall x, In x l -> f x = false) -> filter f l = [].
Proof.
  intros A f l. induction l as [|x t IH]; intros H; cbn [filter]; [reflexivity|].
  rewrite (H x (or_introl eq_refl)). apply IH. intros y Hy. apply H. right. assumption.
Qed.
Lemma filter_len_le : forall {A} (f : A -> bool) l, (length (filter f l) <= length l)%nat.
Proof. intros A f l. induction l as [|x t IH]; cbn [filter length]; [lia|]. destruct (f x); cbn [length]; lia. Qed.
Lemma filter_len_pos : forall {A} (f : A -> bool) l x, In x l -> f x = true -> (1 <= length (filter f l))%nat.
Proof.
  intros A f l x Hin Hf. assert (H : In x (filter f l)) by (apply filter_In; auto).
  destruct (filter f l); [contradiction|cbn [length]; lia].
Qed.
Lemma filter_len_lt : forall {A} (f : A -> bool) l x, In x l -> f x = false -> (length (filter f l) < length l)%nat.
Proof.
  intros A f l x. induction l as [|y t IH]; intros Hin Hf; [contradiction|]. cbn [filter length].
  destruct Hin as [->|Hin].
  - rewrite Hf. pose proof (filter_len_le f t). lia.
  - specialize (IH Hin Hf). destruct (f y); cbn [length]; lia.
Qed.
Lemma filter_len_all : forall {A} (f : A -> bool) l, length (filter f l) = length l -> forall x, In x l -> f x = true.
Proof.
  intros A f l H x Hin. destruct (f x) eqn:E; [reflexivity|]. pose proof (filter_len_lt f l x Hin E). lia.
Qed.
Lemma filter_filter : forall {A} (f g : A -> bool) l, filter f (filter g l) = filter (fun x => g x && f x) l.
Proof.
  intros A f g l. induction l as [|x t IH]; cbn [filter]; [reflexivity|].
  destruct (g x); cbn [filter andb]; [destruct (f x); rewrite IH; reflexivity|exact IH].
Qed.

Lemma sorted_insert_len : forall x l, length (sorted_insert x l) = S (length l).
Proof. intros x l. induction l as [|y t IH]; cbn [sorted_insert length]; [reflexivity|]. destruct (x <=? y); cbn [length]; lia. Qed.
Lemma sortN_len : forall l, length (sortN l) = length l.
Proof. induction l as [|x t IH]; cbn [sortN fold_right length]; [reflexivity|]. fold (sortN t). rewrite sorted_insert_len, IH. reflexivity. Qed.

(** ** the first [n] of a queue in pop order *)
Section Pop.
Variables (FL : list (N * N)) (n : nat).
Hypothesis Hsorted : StronglySorted before FL.
Hypothesis Hn : (n <= length FL)%nat.

Lemma pop_waiting : forall p i, In (p, i) FL -> ~ In i (map snd (firstn n FL)) ->
  (forall x, In x (firstn n FL) -> p <= fst x)
  /\ N.of_nat n < nlen (filter (fun t : N * N => p <=? fst t) FL).
Proof.
  intros p i Hin Hnot.
  assert (Hsk : In (p, i) (skipn n FL)).
  { rewrite <- (firstn_skipn n FL) in Hin. apply in_app_or in Hin. destruct Hin as [Hin|Hin]; [|assumption].
    exfalso. apply Hnot. apply in_map_iff. exists (p, i). auto. }
  assert (Hall : forall x, In x (firstn n FL) -> p <= fst x).
  { intros x Hx. pose proof Hsorted as Hs. rewrite <- (firstn_skipn n FL) in Hs.
    pose proof (sorted_app_rel before _ _ Hs x (p, i) Hx Hsk) as Hb. unfold before in Hb. cbn [fst snd] in Hb. lia. }
  split; [exact Hall|].
  rewrite <- (firstn_skipn n FL) at 1. rewrite filter_app, nlen_app.
  rewrite (filter_all _ (firstn n FL)) by (intros x Hx; apply N.leb_le; auto).
  pose proof (filter_len_pos (fun t : N * N => p <=? fst t) (skipn n FL) (p, i) Hsk ltac:(cbn [fst]; apply N.leb_le; lia)).
  unfold nlen. rewrite firstn_length_le by assumption. lia.
Qed.

Lemma pop_running : forall q i, In (q, i) (firstn n FL) ->
  (forall x, In x FL -> q < fst x -> In x (firstn n FL))
  /\ nlen (filter (fun t : N * N => q <? fst t) FL) < N.of_nat n.
Proof.
  intros q i Hin.
  assert (Hsk : forall y, In y (skipn n FL) -> fst y <= q).
  { intros y Hy. pose proof Hsorted as Hs. rewrite <- (firstn_skipn n FL) in Hs.
    pose proof (sorted_app_rel before _ _ Hs (q, i) y Hin Hy) as Hb. unfold before in Hb. cbn [fst snd] in Hb. lia. }
  split.
  - intros x Hx Hq. rewrite <- (firstn_skipn n FL) in Hx. apply in_app_or in Hx. destruct Hx as [Hx|Hx]; [assumption|].
    specialize (Hsk x Hx). lia.
  - rewrite <- (firstn_skipn n FL) at 1. rewrite filter_app, nlen_app.
    rewrite (filter_none _ (skipn n FL)) by (intros y Hy; apply N.ltb_ge; auto).
    pose proof (filter_len_lt (fun t : N * N => q <? fst t) (firstn n FL) (q, i) Hin ltac:(cbn [fst]; apply N.ltb_ge; lia)) as Hl.
    rewrite firstn_length_le in Hl by assumption. unfold nlen. cbn [length]. lia.
Qed.
End Pop.

(** ** the tasks of a class *)
Definition ctasks (Z : N) (q : list (N * list N)) : list dtask :=
  concat (map (fun e : N * list N => map (fun id => {| t_id := id; t_rq := Z; t_prio := fst e |}) (snd e)) q).

Lemma ctasks_in : forall Z q t, In t (ctasks Z q) -> t_rq t = Z /\ In (t_prio t, t_id t) (flat_tasks q).
Proof.
  intros Z q t Ht. unfold ctasks in Ht. unfold flat_tasks. apply in_concat in Ht. destruct Ht as (l & Hl & Ht).
  apply in_map_iff in Hl. destruct Hl as (e & <- & He). apply in_map_iff in Ht. destruct Ht as (id & <- & Hid).
  cbn [t_rq t_prio t_id]. split; [reflexivity|]. apply in_concat. exists (map (fun id0 => (fst e, id0)) (snd e)). split.
  - apply in_map_iff. exists e. auto.
  - apply in_map_iff. exists id. auto.
Qed.

Lemma flat_prio_level : forall q p i, In (p, i) (flat_tasks q) -> In p (map fst (levels q)).
Proof.
  intros q p i H. unfold flat_tasks in H. apply in_concat in H. destruct H as (l & Hl & H).
  apply in_map_iff in Hl. destruct Hl as (e & <- & He). apply in_map_iff in H. destruct H as (id & E & _).
  inversion E; subst. unfold levels. rewrite map_map. cbn [fst]. apply in_map_iff. exists e. auto.
Qed.

Section YQ.
Variables (R F : N) (assigned : list N) (a0 a1 : N) (q0 q1 : list (N * list N)).
Hypothesis Hw0 : ready_wf q0.
Hypothesis Hw1 : ready_wf q1.
Hypothesis Hnd0 : NoDup (flat_ids q0).
Hypothesis Hnd1 : NoDup (flat_ids q1).

Let I := yinst R F assigned a0 a1 q0 q1.
Let W := xworker R F assigned.

Definition qz (Z : N) : list (N * list N) := if Z =? 0 then q0 else q1.
Definition az (Z : N) : N := if Z =? 0 then a0 else a1.

Lemma qz_wf : forall Z, ready_wf (qz Z).
Proof. intros Z. unfold qz. destruct (Z =? 0); assumption. Qed.
Lemma qz_nodup : forall Z, NoDup (map snd (flat_tasks (qz Z))).
Proof. intros Z. rewrite <- flat_ids_tasks. unfold qz. destruct (Z =? 0); assumption. Qed.

Lemma y_ready : ready_tasks I = ctasks 0 q0 ++ ctasks 1 q1.
Proof.
  unfold ready_tasks, ctasks. cbn [I yinst i_queues mapi_from concat q_ready map snd fst].
  rewrite !app_nil_r. reflexivity.
Qed.

Lemma ready_cases : forall t, In t (ready_tasks I) ->
  (t_rq t = 0 \/ t_rq t = 1) /\ In (t_prio t, t_id t) (flat_tasks (qz (t_rq t))).
Proof.
  intros t Ht. rewrite y_ready in Ht. apply in_app_or in Ht.
  destruct Ht as [Ht|Ht]; apply ctasks_in in Ht; destruct Ht as [Hr Hf]; rewrite Hr; [split; [left; reflexivity|exact Hf]|split; [right; reflexivity|exact Hf]].
Qed.

Definition cls (Z : N) (pr : N * N) : bool :=
  match find_task (ready_tasks I) (fst pr) with Some t => t_rq t =? Z | None => false end.

Lemma count_on_cls : forall d Z, count_on I d 1 Z = nlen (filter (fun pr => (snd pr =? 1) && cls Z pr) d).
Proof. reflexivity. Qed.

(** what [mapping_ok] says about class [Z] *)
Definition MZ (s : sol) (d : dispatch) (Z : N) : Prop :=
  (N.to_nat (sol_x s 1 Z) <= length (flat_tasks (qz Z)))%nat
  /\ sortN (map snd (firstn (N.to_nat (sol_x s 1 Z)) (flat_tasks (qz Z)))) = sortN (map fst (filter (cls Z) d))
  /\ count_on I d 1 Z = sol_x s 1 Z.

Lemma mapping_MZ : forall bs s d b Z, mapping_ok I bs s d = true -> In b bs -> b_rq b = Z -> (Z = 0 \/ Z = 1) ->
  has_x I bs W Z = true -> MZ s d Z.
Proof.
  intros bs s d b Z Hmap Hb Hrq HZ Hx. unfold mapping_ok in Hmap. apply andb_true_iff in Hmap. destruct Hmap as [Hmap _].
  rewrite forallb_forall in Hmap. specialize (Hmap b Hb). rewrite Hrq in Hmap.
  assert (Hq : nth (N.to_nat Z) (i_queues I) empty_queue = {| q_ready := qz Z; q_prefill := None |})
    by (destruct HZ as [->| ->]; reflexivity).
  rewrite Hq in Hmap.
  assert (Hpt : placed_total I bs s Z = sol_x s 1 Z).
  { unfold placed_total. cbn [I yinst i_workers fold_right]. fold I. fold W. rewrite Hx. change (w_id W) with 1. lia. }
  rewrite Hpt in Hmap.
  destruct (take_tasks {| q_ready := qz Z; q_prefill := None |} (sol_x s 1 Z)) as [[taken q']| |] eqn:T; try discriminate.
  apply andb_true_iff in Hmap. destruct Hmap as [Heq Hcnt]. apply list_eqb_eq in Heq.
  destruct (take_tasks_order {| q_ready := qz Z; q_prefill := None |} _ _ _ eq_refl (qz_wf Z) T) as (_ & Htaken & _). cbn [q_ready] in Htaken.
  split; [|split].
  - unfold take_tasks in T. cbn [q_prefill q_ready] in T.
    destruct (take_loop (qz Z) (sol_x s 1 Z)) as [[l rd]| |] eqn:TL; cbn [bind] in T; try discriminate.
    destruct (take_loop_spec _ _ _ _ TL) as (_ & _ & H3). rewrite flat_ids_tasks in H3. unfold nlen in H3. rewrite map_length in H3. lia.
  - rewrite <- Htaken. exact Heq.
  - cbn [I yinst i_workers forallb] in Hcnt. fold I in Hcnt. fold W in Hcnt. rewrite Hx in Hcnt. change (w_id W) with 1 in Hcnt.
    apply andb_true_iff in Hcnt. destruct Hcnt as [Hc _]. apply N.eqb_eq in Hc. exact Hc.
Qed.

Section Cls.
Variables (s : sol) (d : dispatch) (Z : N).
Hypothesis HM : MZ s d Z.
Let x := N.to_nat (sol_x s 1 Z).
Let FL := flat_tasks (qz Z).

Lemma taken_iff : forall id, In id (map snd (firstn x FL)) <-> In id (map fst (filter (cls Z) d)).
Proof.
  intros id. destruct HM as (_ & Heq & _). fold x FL in Heq.
  rewrite <- (sortN_in (map snd (firstn x FL))), Heq, sortN_in. tauto.
Qed.

Lemma cls_len : length (filter (cls Z) d) = x.
Proof.
  destruct HM as (Hle & Heq & _). fold x FL in Hle, Heq.
  apply (f_equal (@length N)) in Heq. rewrite !sortN_len, !map_length in Heq. rewrite firstn_length_le in Heq by assumption. lia.
Qed.

Lemma cls_on_worker : forall pr, In pr d -> cls Z pr = true -> snd pr = 1.
Proof.
  intros pr Hpr Hc. destruct HM as (_ & _ & Hcnt). rewrite count_on_cls in Hcnt.
  assert (Hf : filter (fun pr0 : N * N => (snd pr0 =? 1) && cls Z pr0) d = filter (fun pr0 => snd pr0 =? 1) (filter (cls Z) d)).
  { rewrite filter_filter. apply filter_ext. intros a. apply andb_comm. }
  rewrite Hf in Hcnt. unfold nlen in Hcnt.
  assert (Hlen : length (filter (fun pr0 : N * N => snd pr0 =? 1) (filter (cls Z) d)) = length (filter (cls Z) d))
    by (rewrite cls_len; fold x; lia).
  pose proof (filter_len_all _ _ Hlen pr ltac:(apply filter_In; auto)) as H1. apply N.eqb_eq in H1. exact H1.
Qed.

(** a dispatched task of the class is among the first [x] of its queue *)
Lemma running_first : forall pr t, In pr d -> find_task (ready_tasks I) (fst pr) = Some t -> t_rq t = Z ->
  In (t_prio t, t_id t) (firstn x FL).
Proof.
  intros pr t Hpr Hft Hrq. pose proof Hft as Hft0. apply find_task_in in Hft. destruct Hft as [Hin Hid].
  destruct (ready_cases t Hin) as [_ Hfl]. rewrite Hrq in Hfl. fold FL in Hfl.
  assert (Hc : cls Z pr = true) by (unfold cls; rewrite Hft0; apply N.eqb_eq; exact Hrq).
  assert (Hid2 : In (t_id t) (map snd (firstn x FL))).
  { apply taken_iff. rewrite Hid. apply in_map. apply filter_In. auto. }
  apply in_map_iff in Hid2. destruct Hid2 as ([p' i'] & Hi & Hf). cbn [snd] in Hi. subst i'.
  assert (Hp : p' = t_prio t).
  { apply (nodup_snd_inj FL p' (t_prio t) (t_id t)); [apply qz_nodup| |assumption].
    rewrite <- (firstn_skipn x FL). apply in_or_app. left. assumption. }
  subst p'. exact Hf.
Qed.

(** a task of the class that is not dispatched is not among them *)
Lemma waiting_not_first : forall u, dispatched d (t_id u) = false -> ~ In (t_id u) (map snd (firstn x FL)).
Proof.
  intros u Hnd Hin. apply taken_iff in Hin. apply in_map_iff in Hin. destruct Hin as (pr & Hpr & Hf).
  apply filter_In in Hf. destruct Hf as [Hd _]. unfold dispatched in Hnd.
  assert (Hex : existsb (fun p0 : N * N => fst p0 =? t_id u) d = true).
  { apply existsb_exists. exists pr. split; [assumption|]. apply N.eqb_eq. assumption. }
  congruence.
Qed.

Lemma pop_x_le : (x <= length FL)%nat.
Proof. destruct HM as (Hle & _). exact Hle. Qed.

End Cls.
End YQ.

(** ** the "fits without the lower tasks" test in numbers *)
Section YK.
Variables (R F : N) (assigned : list N) (a0 a1 : N) (q0 q1 : list (N * list N)).
Hypothesis Hw0 : ready_wf q0.
Hypothesis Hw1 : ready_wf q1.
Hypothesis Hnd0 : NoDup (flat_ids q0).
Hypothesis Hnd1 : NoDup (flat_ids q1).

Let I := yinst R F assigned a0 a1 q0 q1.
Let W := xworker R F assigned.
Let qz := qz q0 q1.
Let az := az a0 a1.
Let cls := cls R F assigned a0 a1 q0 q1.
Let MZ := MZ R F assigned a0 a1 q0 q1.

Definition keepf (p : N) (pr : N * N) : list N :=
  if snd pr =? 1 then
    match find_task (ready_tasks I) (fst pr) with
    | Some t => if p <=? t_prio t then [t_rq t] else []
    | None => []
    end
  else [].

Definition clsp (Z p : N) (pr : N * N) : bool :=
  match find_task (ready_tasks I) (fst pr) with Some t => (t_rq t =? Z) && (p <=? t_prio t) | None => false end.

Definition cntK (Z : N) (K : list N) : N := nlen (filter (N.eqb Z) K).

Lemma keep_count : forall Z p d,
  cntK Z (concat (map (keepf p) d)) = nlen (filter (fun pr => (snd pr =? 1) && clsp Z p pr) d).
Proof.
  intros Z p d. induction d as [|pr d IH]; [reflexivity|].
  cbn [map concat filter]. unfold cntK in *. rewrite filter_app, nlen_app, IH.
  unfold keepf, clsp. destruct (snd pr =? 1); cbn [andb]; [|reflexivity].
  destruct (find_task (ready_tasks I) (fst pr)) as [t|]; [|reflexivity].
  destruct (p <=? t_prio t); cbn [filter].
  - rewrite (N.eqb_sym Z). destruct (t_rq t =? Z); cbn [andb]; unfold nlen; cbn [length]; lia.
  - rewrite Bool.andb_false_r. reflexivity.
Qed.

Lemma keep_classes : forall p d k, In k (concat (map (keepf p) d)) -> k = 0 \/ k = 1.
Proof.
  intros p d k Hk. apply in_concat in Hk. destruct Hk as (l & Hl & Hk). apply in_map_iff in Hl. destruct Hl as (pr & <- & _).
  unfold keepf in Hk. destruct (snd pr =? 1); [|contradiction].
  destruct (find_task (ready_tasks I) (fst pr)) as [t|] eqn:E; [|contradiction].
  destruct (p <=? t_prio t); [|contradiction]. destruct Hk as [<-|[]].
  apply find_task_in in E. destruct E as [Hin _].
  apply (ready_cases R F assigned a0 a1 q0 q1 t Hin).
Qed.

Lemma sub1 : forall x a, rv_sub_checked [x] [(0, a)] = if a <=? x then Some [x - a] else None.
Proof. intros x a. cbn [rv_sub_checked length]. change (Nat.ltb (N.to_nat 0) 1) with true. cbn [andb]. change (rv_get [x] 0) with x. destruct (a <=? x); reflexivity. Qed.

Lemma sub_all_y : forall K x v, sub_all I [x] K = Some v -> (forall k, In k K -> k = 0 \/ k = 1) ->
  v = [x - (a0 * cntK 0 K + a1 * cntK 1 K)] /\ a0 * cntK 0 K + a1 * cntK 1 K <= x.
Proof.
  induction K as [|k K IH]; intros x v H Hk.
  - cbn [sub_all] in H. injection H as <-. unfold cntK, nlen. cbn [filter length]. split; [f_equal; lia|lia].
  - cbn [sub_all] in H.
    assert (Hc : forall z, cntK z (k :: K) = (if z =? k then 1 else 0) + cntK z K).
    { intros z. unfold cntK. cbn [filter]. destruct (z =? k); unfold nlen; cbn [length]; lia. }
    rewrite !Hc.
    destruct (Hk k (or_introl eq_refl)) as [->| ->].
    + change (req_of I 0) with [(0, a0)] in H. rewrite sub1 in H.
      destruct (N.leb_spec a0 x) as [Hle|]; [|discriminate].
      destruct (IH _ _ H (fun k' Hk' => Hk k' (or_intror Hk'))) as [-> Hb].
      change (0 =? 0) with true. change (1 =? 0) with false. split; [f_equal; lia|lia].
    + change (req_of I 1) with [(0, a1)] in H. rewrite sub1 in H.
      destruct (N.leb_spec a1 x) as [Hle|]; [|discriminate].
      destruct (IH _ _ H (fun k' Hk' => Hk k' (or_intror Hk'))) as [-> Hb].
      change (0 =? 1) with false. change (1 =? 1) with true. split; [f_equal; lia|lia].
Qed.

Lemma fits_unfold : forall d u, fits_without_lower I d W u = true ->
  exists v, sub_all I [F] (concat (map (keepf (t_prio u)) d)) = Some v /\ capable_res v (req_of I (t_rq u)) = true.
Proof.
  intros d u H. unfold fits_without_lower in H. change (inst_on I W) with I in H. change (w_free W) with [F] in H.
  change (w_id W) with 1 in H. fold (keepf (t_prio u)) in H.
  destruct (sub_all I [F] (concat (map (keepf (t_prio u)) d))) as [v|]; [|discriminate]. exists v. auto.
Qed.

(** inside a class the dispatched tasks are its top ones *)
Lemma same_class_order_y : forall s d Z (u t : dtask) (pr : N * N), MZ s d Z ->
  In u (ready_tasks I) -> dispatched d (t_id u) = false -> In pr d ->
  find_task (ready_tasks I) (fst pr) = Some t -> t_prio t < t_prio u -> t_rq u = Z -> t_rq t = Z -> False.
Proof.
  intros s d Z u t pr HM Hu Hundisp Hpr Hft Hprio HuZ HtZ.
  assert (Hfl : In (t_prio u, t_id u) (flat_tasks (qz Z))).
  { destruct (ready_cases R F assigned a0 a1 q0 q1 u Hu) as [_ H]. rewrite HuZ in H. exact H. }
  pose proof (pop_waiting (flat_tasks (qz Z)) (N.to_nat (sol_x s 1 Z)) (flat_tasks_sorted _ (qz_wf q0 q1 Hw0 Hw1 Z))
                (pop_x_le R F assigned a0 a1 q0 q1 s d Z HM) (t_prio u) (t_id u) Hfl
                (waiting_not_first R F assigned a0 a1 q0 q1 s d Z HM u Hundisp)) as [H1 _].
  pose proof (running_first R F assigned a0 a1 q0 q1 Hnd0 Hnd1 s d Z HM pr t Hpr Hft HtZ) as Hin.
  specialize (H1 _ Hin). cbn [fst] in H1. lia.
Qed.

Section Two.
Variables (s : sol) (d : dispatch) (X Y : N).
Hypothesis HXY : (X = 0 /\ Y = 1) \/ (X = 1 /\ Y = 0).
Hypothesis HMX : MZ s d X.
Hypothesis HMY : MZ s d Y.
Variables (u t : dtask) (pr : N * N).
Hypothesis Hu : In u (ready_tasks I).
Hypothesis Hundisp : dispatched d (t_id u) = false.
Hypothesis Hpr : In pr d.
Hypothesis Hft : find_task (ready_tasks I) (fst pr) = Some t.
Hypothesis Hprio : t_prio t < t_prio u.
Hypothesis HuX : t_rq u = X.

Let p := t_prio u.
Let q := t_prio t.
Let xX := sol_x s 1 X.
Let xY := sol_x s 1 Y.

Lemma u_flat : In (p, t_id u) (flat_tasks (qz X)).
Proof. destruct (ready_cases R F assigned a0 a1 q0 q1 u Hu) as [_ H]. rewrite HuX in H. exact H. Qed.

Lemma waiting_facts :
  (forall x, In x (firstn (N.to_nat xX) (flat_tasks (qz X))) -> p <= fst x)
  /\ xX < sum_ge p (levels (qz X)).
Proof.
  pose proof (pop_waiting (flat_tasks (qz X)) (N.to_nat xX) (flat_tasks_sorted _ (qz_wf q0 q1 Hw0 Hw1 X))
                (pop_x_le R F assigned a0 a1 q0 q1 s d X HMX) p (t_id u) u_flat
                (waiting_not_first R F assigned a0 a1 q0 q1 s d X HMX u Hundisp)) as [H1 H2].
  split; [exact H1|]. rewrite sum_ge_flat. unfold xX in *. lia.
Qed.

(** the two tasks are of different classes *)
Lemma classes_differ : t_rq t <> X.
Proof.
  intros HtX. destruct waiting_facts as [H1 _].
  pose proof (running_first R F assigned a0 a1 q0 q1 Hnd0 Hnd1 s d X HMX pr t Hpr Hft HtX) as Hin.
  specialize (H1 _ Hin). cbn [fst] in H1. unfold p in H1. lia.
Qed.

Hypothesis HtY : t_rq t = Y.

Lemma running_facts :
  (forall x, In x (flat_tasks (qz Y)) -> q < fst x -> In x (firstn (N.to_nat xY) (flat_tasks (qz Y))))
  /\ sum_gt q (levels (qz Y)) < xY /\ In q (map fst (levels (qz Y))).
Proof.
  pose proof (running_first R F assigned a0 a1 q0 q1 Hnd0 Hnd1 s d Y HMY pr t Hpr Hft HtY) as Hin.
  destruct (pop_running (flat_tasks (qz Y)) (N.to_nat xY) (flat_tasks_sorted _ (qz_wf q0 q1 Hw0 Hw1 Y))
              (pop_x_le R F assigned a0 a1 q0 q1 s d Y HMY) q (t_id t) Hin) as [H1 H2].
  split; [exact H1|]. split.
  - rewrite sum_gt_flat. unfold xY in *. lia.
  - apply (flat_prio_level (qz Y) q (t_id t)). rewrite <- (firstn_skipn (N.to_nat xY)). apply in_or_app. left. exact Hin.
Qed.

(** every dispatched X task is kept (priority >= p) ... *)
Lemma keepX_count : nlen (filter (fun pr0 => (snd pr0 =? 1) && clsp X p pr0) d) = xX.
Proof.
  destruct waiting_facts as [H1 _].
  destruct HMX as (_ & _ & Hcnt). unfold xX. rewrite <- Hcnt. rewrite (count_on_cls R F assigned a0 a1 q0 q1 d X).
  f_equal. apply filter_ext_in. intros pr0 Hpr0. f_equal. unfold clsp, ExactFullQueue.cls. fold I.
  destruct (find_task (ready_tasks I) (fst pr0)) as [t0|] eqn:E; [|reflexivity].
  destruct (N.eqb_spec (t_rq t0) X) as [Hr|]; [|reflexivity]. cbn [andb].
  pose proof (running_first R F assigned a0 a1 q0 q1 Hnd0 Hnd1 s d X HMX pr0 t0 Hpr0 E Hr) as Hin.
  specialize (H1 _ Hin). cbn [fst] in H1. apply N.leb_le. exact H1.
Qed.

(** ... and so is every Y task of priority >= p *)
Lemma keepY_count : sum_ge p (levels (qz Y)) <= nlen (filter (fun pr0 => (snd pr0 =? 1) && clsp Y p pr0) d).
Proof.
  destruct running_facts as (H1 & _ & _).
  rewrite sum_ge_flat. unfold nlen.
  set (L := map snd (filter (fun t0 : N * N => p <=? fst t0) (flat_tasks (qz Y)))).
  set (M := map fst (filter (fun pr0 => (snd pr0 =? 1) && clsp Y p pr0) d)).
  assert (Hnd : NoDup L) by (apply map_filter_sub; apply (qz_nodup q0 q1 Hnd0 Hnd1)).
  assert (Hincl : incl L M).
  { intros id Hid. unfold L in Hid. apply in_map_iff in Hid. destruct Hid as ([p' i'] & Hi & Hf). cbn [snd] in Hi. subst i'.
    apply filter_In in Hf. destruct Hf as [Hfl Hp']. cbn [fst] in Hp'. apply N.leb_le in Hp'.
    assert (Hfirst : In (p', id) (firstn (N.to_nat xY) (flat_tasks (qz Y)))) by (apply H1; [assumption|cbn [fst]; unfold q, p in *; lia]).
    assert (Hid : In id (map fst (filter (cls Y) d))).
    { apply (taken_iff R F assigned a0 a1 q0 q1 s d Y HMY). apply in_map_iff. exists (p', id). auto. }
    apply in_map_iff in Hid. destruct Hid as (pr0 & Hfst & Hin0). apply filter_In in Hin0. destruct Hin0 as [Hd0 Hc0].
    unfold M. apply in_map_iff. exists pr0. split; [exact Hfst|]. apply filter_In. split; [exact Hd0|].
    rewrite (cls_on_worker R F assigned a0 a1 q0 q1 s d Y HMY pr0 Hd0 Hc0). change (1 =? 1) with true. cbn [andb].
    unfold cls, ExactFullQueue.cls in Hc0. fold I in Hc0. unfold clsp.
    destruct (find_task (ready_tasks I) (fst pr0)) as [t0|] eqn:E; [|discriminate]. rewrite Hc0. cbn [andb].
    apply N.eqb_eq in Hc0.
    pose proof (running_first R F assigned a0 a1 q0 q1 Hnd0 Hnd1 s d Y HMY pr0 t0 Hd0 E Hc0) as Hin2.
    apply find_task_in in E. destruct E as [_ Hid0]. rewrite Hid0, Hfst in Hin2.
    assert (Hpe : t_prio t0 = p').
    { apply (nodup_snd_inj (flat_tasks (qz Y)) (t_prio t0) p' id (qz_nodup q0 q1 Hnd0 Hnd1 Y)); [|assumption].
      rewrite <- (firstn_skipn (N.to_nat xY)). apply in_or_app. left. exact Hin2. }
    rewrite Hpe. apply N.leb_le. exact Hp'. }
  pose proof (NoDup_incl_length Hnd Hincl) as Hlen. unfold L, M in Hlen. rewrite !map_length in Hlen. lia.
Qed.

Hypothesis Hfits : fits_without_lower I d W u = true.

Lemma fits_numbers : az X * (xX + 1) + az Y * sum_ge p (levels (qz Y)) <= F.
Proof.
  destruct (fits_unfold d u Hfits) as (v & Hsub & Hcap). fold p in Hsub.
  destruct (sub_all_y _ _ _ Hsub (keep_classes p d)) as [-> Hle].
  rewrite !keep_count in Hle, Hcap.
  pose proof keepX_count as HkX. pose proof keepY_count as HkY.
  rewrite HuX in Hcap. unfold az, ExactFullQueue.az.
  destruct HXY as [[-> ->]|[-> ->]].
  - change (req_of I 0) with [(0, a0)] in Hcap. cbn [capable_res forallb fst snd] in Hcap.
    change (rv_get [?z] 0) with z in Hcap. rewrite HkX in Hle, Hcap. change (0 =? 0) with true. change (1 =? 0) with false.
    apply andb_true_iff in Hcap. destruct Hcap as [Hcap _]. apply N.leb_le in Hcap. nia.
  - change (req_of I 1) with [(0, a1)] in Hcap. cbn [capable_res forallb fst snd] in Hcap.
    change (rv_get [?z] 0) with z in Hcap. rewrite HkX in Hle, Hcap. change (0 =? 0) with true. change (1 =? 0) with false.
    apply andb_true_iff in Hcap. destruct Hcap as [Hcap _]. apply N.leb_le in Hcap. nia.
Qed.

End Two.
End YK.
