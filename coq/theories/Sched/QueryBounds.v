(** C17, demand side: the scheduler never asks for more workers than there are waiting tasks.

    For every state, every list of queries and every solver answer that is a feasible point of the rows the
    model derives ([query_sol_ok]):
    - [query_total_le_waiting]   the sum of the per-query counts is at most the number of waiting single-node tasks;
    - [query_count_le_fitting]   the count of query i is at most the number of waiting tasks of the classes that
                                 have a placement variable on the fake workers of query i.
    Proof: a loaded fake worker holds a task of some batch; per batch the loaded workers are bounded by the
    size row (sum of the placement variables <= batch size <= waiting tasks of the class) or, if the batch
    hit its limit (no size row), by the number of capable workers <= limit <= waiting tasks. *)
From HQ Require Import Base.Prelude Gen.Consts Sched.Model Sched.ProofsRows Sched.ProofsCuts Sched.Query Sched.QueryProofs.
Require Import ZifyBool ZifyN ZifyNat.
Open Scope N_scope.
Arguments N.add : simpl never. Arguments N.sub : simpl never. Arguments N.mul : simpl never.
Arguments N.eqb : simpl never. Arguments N.ltb : simpl never. Arguments N.leb : simpl never.
Arguments N.of_nat : simpl never. Arguments N.to_nat : simpl never. Arguments N.div : simpl never.
Arguments N.max : simpl never. Arguments N.min : simpl never.
Arguments Z.of_N : simpl never. Arguments Z.mul : simpl never. Arguments Z.add : simpl never.

(** worker [w] holds a task of batch [b] *)
Definition holds (I : inst) (s : sol) (b : batch) (w : worker) : bool :=
  placeable I w (b_rq b) && (0 <? sol_x s (w_id w) (b_rq b)).

Lemma nlen_cons : forall {A} (x : A) l, nlen (x :: l) = 1 + nlen l.
Proof. intros. unfold nlen. simpl length. lia. Qed.

Lemma filter_orb_le : forall {A} (f g : A -> bool) l,
  nlen (filter (fun x => f x || g x) l) <= nlen (filter f l) + nlen (filter g l).
Proof.
  intros A f g l. induction l as [|x t IH]; [unfold nlen; simpl; lia|].
  cbn [filter]. destruct (f x), (g x); cbn [orb]; rewrite ?nlen_cons; lia.
Qed.

Lemma loaded_le_sum : forall I s G (B : batch -> N) bs,
  (forall b, In b bs -> nlen (filter (holds I s b) G) <= B b) ->
  nlen (filter (loaded I bs s) G) <= sumN (map B bs).
Proof.
  intros I s G B. induction bs as [|b t IH]; intros H.
  - unfold loaded. cbn [existsb map sumN fold_right].
    assert (E : filter (fun _ : worker => false) G = []) by (clear; induction G as [|x t IHG]; simpl; [reflexivity|exact IHG]).
    rewrite E. unfold nlen. simpl. lia.
  - cbn [map sumN fold_right]. fold (sumN (map B t)).
    assert (E : forall w, loaded I (b :: t) s w = holds I s b w || loaded I t s w) by reflexivity.
    rewrite (filter_ext _ _ E).
    etransitivity; [apply filter_orb_le|].
    specialize (H b (or_introl eq_refl)) as Hb. specialize (IH (fun b' Hb' => H b' (or_intror Hb'))). lia.
Qed.

(** ** sums of variable values *)
Definition sumv (s : sol) (l : list var) : Z := fold_right (fun v acc => (s v + acc)%Z) 0%Z l.

Lemma sumv_app : forall s a b, sumv s (a ++ b) = (sumv s a + sumv s b)%Z.
Proof. intros s a b. induction a as [|v a IH]; simpl; [reflexivity|]. rewrite IH. lia. Qed.

Lemma sumv_nonneg : forall s l, (forall v, In v l -> (0 <= s v)%Z) -> (0 <= sumv s l)%Z.
Proof.
  intros s l. induction l as [|v t IH]; intros H; simpl; [lia|].
  specialize (H v (or_introl eq_refl)) as Hv. specialize (IH (fun v' Hv' => H v' (or_intror Hv'))). lia.
Qed.

Lemma sumv_ge_in : forall s l v, (forall v, In v l -> (0 <= s v)%Z) -> In v l -> (s v <= sumv s l)%Z.
Proof.
  intros s l. induction l as [|x t IH]; intros v H Hin; [contradiction|]. simpl.
  pose proof (sumv_nonneg s t (fun v' Hv' => H v' (or_intror Hv'))) as Ht.
  destruct Hin as [->|Hin]; [lia|].
  specialize (IH v (fun v' Hv' => H v' (or_intror Hv')) Hin). specialize (H x (or_introl eq_refl)). lia.
Qed.

(** the count variables of class [rq] on one worker *)
Definition cv_w (I : inst) (bs : list batch) (rq : N) (w : worker) : list var :=
  concat (map (fun b =>
    if b_rq b =? rq then
      match placement_kind I w b with
      | PX => [VX (w_id w) rq]
      | PR => [VR (w_id w) rq]
      | PNone => []
      end
    else []) bs).

Lemma count_vars_eq : forall I bs rq, count_vars I bs rq = concat (map (cv_w I bs rq) (i_workers I)).
Proof. reflexivity. Qed.

(** every variable of the row system is non-negative in a feasible point *)
Lemma query_var_nonneg : forall I bs m s w b v,
  query_rows I bs = Ok m -> feasible m s = true ->
  In w (i_workers I) -> In v (cv_w I bs (b_rq b) w) -> (0 <= s v)%Z.
Proof.
  intros I bs m s w b v Hm Hf Hw Hv. unfold query_rows in Hm.
  destruct (milp_of I bs) as [mf| |] eqn:Emf; simpl in Hm; try discriminate. inversion Hm; subst. clear Hm.
  destruct (worker_entries_in I bs mf w Emf Hw) as (i & Hi).
  unfold cv_w in Hv. apply in_concat in Hv. destruct Hv as (l & Hl & Hv).
  apply in_map_iff in Hl. destruct Hl as (b' & <- & Hb').
  destruct (b_rq b' =? b_rq b) eqn:Erq; [|contradiction]. apply N.eqb_eq in Erq.
  destruct (placement_kind I w b') eqn:Ek; [| |contradiction]; destruct Hv as [<-|[]].
  - pose proof (var_x_in I bs i w b' Hb' Ek) as Hin. apply Hi in Hin.
    assert (Hin' : In (EVar (VX (w_id w) (b_rq b')) KNat (z (x_weight (inst_on I w) i (b_rq b'))))
                      (filter (fun e => negb (is_max_row I e)) mf)) by (apply filter_In; split; [assumption|reflexivity]).
    pose proof (feasible_in _ _ _ Hf Hin') as Hok. simpl in Hok. rewrite <- Erq. lia.
  - pose proof (var_r_in I bs i w b' Hb' Ek) as Hin. apply Hi in Hin.
    assert (Hin' : In (EVar (VR (w_id w) (b_rq b')) KBool (z (r_weight I i)))
                      (filter (fun e => negb (is_max_row I e)) mf)) by (apply filter_In; split; [assumption|reflexivity]).
    pose proof (feasible_in _ _ _ Hf Hin') as Hok. simpl in Hok. rewrite <- Erq. lia.
Qed.

(** the workers of any list [G] of the instance's workers that hold a task of [b] are counted by the sum of
    the count variables over [G] *)
Lemma holders_le_sumv : forall I bs m s b,
  query_rows I bs = Ok m -> feasible m s = true -> In b bs ->
  forall G, (forall w, In w G -> In w (i_workers I)) ->
  (Z.of_N (nlen (filter (holds I s b) G)) <= sumv s (concat (map (cv_w I bs (b_rq b)) G)))%Z.
Proof.
  intros I bs m s b Hm Hf Hb. induction G as [|w t IH]; intros HG; [unfold nlen; simpl; lia|].
  cbn [map concat filter]. rewrite sumv_app.
  specialize (IH (fun w' Hw' => HG w' (or_intror Hw'))).
  assert (Hw : In w (i_workers I)) by (apply HG; left; reflexivity).
  assert (Hnn : forall v, In v (cv_w I bs (b_rq b) w) -> (0 <= s v)%Z)
    by (intros v Hv; eapply query_var_nonneg; eauto).
  pose proof (sumv_nonneg s _ Hnn) as H0.
  destruct (holds I s b w) eqn:Eh; [|lia].
  rewrite nlen_cons. unfold holds in Eh. apply andb_true_iff in Eh. destruct Eh as [Hp Hx].
  assert (Hin : In (VX (w_id w) (b_rq b)) (cv_w I bs (b_rq b) w)).
  { unfold cv_w. apply in_concat. eexists. split; [apply in_map_iff; exists b; split; [reflexivity|assumption]|].
    rewrite N.eqb_refl. apply placement_px in Hp. rewrite Hp. left. reflexivity. }
  pose proof (sumv_ge_in s _ _ Hnn Hin) as Hge. unfold sol_x in Hx. lia.
Qed.

(** the size row of a batch that did not hit its limit *)
Lemma size_row_bound : forall I bs m s b,
  query_rows I bs = Ok m -> feasible m s = true -> In b bs -> b_lr b = false ->
  (sumv s (count_vars I bs (b_rq b)) <= Z.of_N (b_size b))%Z.
Proof.
  intros I bs m s b Hm Hf Hb Hlr.
  destruct (count_vars I bs (b_rq b)) as [|v0 vs] eqn:Ecv; [simpl; lia|]. rewrite <- Ecv.
  unfold query_rows in Hm.
  destruct (milp_of I bs) as [mf| |] eqn:Emf; simpl in Hm; try discriminate. inversion Hm; subst. clear Hm.
  destruct (milp_items I bs mf Emf) as (its & Hits & Hemit).
  unfold all_items in Hits. destruct (collect_res (map (batch_items I bs) bs)) as [l| |] eqn:E; simpl in Hits; try discriminate.
  inversion Hits; subst. destruct (collect_res_in _ _ _ b E Hb) as (bi & Hbi & Hin).
  unfold batch_items in Hbi. rewrite Ecv in Hbi.
  destruct (cuts_items I bs b (b_cuts b) []) as [ci| |] eqn:E3; simpl in Hbi; try discriminate. inversion Hbi; subst.
  rewrite Hlr in Hin.
  assert (Hit : In (ISize (b_rq b) (b_size b)) (concat l)).
  { apply in_concat. eexists. split; [exact Hin|]. left. reflexivity. }
  pose proof (emit_row_in I bs _ [] _ Hit) as Hrow. apply Hemit in Hrow.
  assert (Hrow' : In (ERow (item_row I bs (ISize (b_rq b) (b_size b)))) (filter (fun e => negb (is_max_row I e)) mf))
    by (apply filter_In; split; [assumption|reflexivity]).
  pose proof (feasible_in _ _ _ Hf Hrow') as Hok. simpl in Hok. unfold row_ok, row_lhs in Hok. simpl in Hok.
  fold (lhs s (ones (count_vars I bs (b_rq b)))) in Hok. rewrite lhs_ones in Hok.
  fold (sumv s (count_vars I bs (b_rq b))) in Hok. unfold z in Hok. lia.
Qed.

(** a batch that hit its limit: the limit counts at least one task per capable worker *)
Lemma capable_le_limit : forall I rq,
  nlen (filter (fun w => capable I w rq) (i_workers I)) <= batch_limit I rq.
Proof.
  intros I rq. unfold batch_limit. induction (i_workers I) as [|w t IH]; [unfold nlen; simpl; lia|].
  cbn [filter fold_right]. destruct (capable I w rq); [rewrite nlen_cons|]; cbv zeta in *.
  - destruct (0 <? task_max_count_cls (w_free w) (class_of I rq)) eqn:E; lia.
  - lia.
Qed.

Lemma filter_impl_le : forall {A} (f g : A -> bool) l,
  (forall x, In x l -> f x = true -> g x = true) -> nlen (filter f l) <= nlen (filter g l).
Proof.
  intros A f g l. induction l as [|x t IH]; intros H; [unfold nlen; simpl; lia|].
  cbn [filter]. specialize (IH (fun y Hy => H y (or_intror Hy))). specialize (H x (or_introl eq_refl)).
  destruct (f x), (g x); rewrite ?nlen_cons; try lia; specialize (H eq_refl); discriminate.
Qed.

(** ** per batch: the workers holding its tasks are at most the waiting tasks of its class *)
Lemma holders_le_waiting : forall I bs m s b,
  create_task_batches I = Ok bs -> query_rows I bs = Ok m -> feasible m s = true ->
  (forall w, In w (i_workers I) -> w_free w = w_res w) ->
  In b bs ->
  nlen (filter (holds I s b) (i_workers I)) <= waiting_of I (b_rq b).
Proof.
  intros I bs m s b Hbs Hm Hf Hfree Hb.
  pose proof (batches_inv _ _ Hbs) as Hinv. rewrite Forall_forall in Hinv.
  destruct (Hinv b Hb) as (_ & Hlim & Hsz & Hlr).
  destruct (b_lr b) eqn:Elr.
  - specialize (Hlr eq_refl).
    etransitivity; [apply (filter_impl_le _ (fun w => capable I w (b_rq b)))|].
    + intros w Hw Hh. unfold holds in Hh. apply andb_true_iff in Hh. destruct Hh as [Hp _].
      unfold placeable in Hp. unfold capable. rewrite <- (Hfree w Hw).
      apply andb_true_iff in Hp. destruct Hp as [Hp1 Hp2]. apply andb_true_iff in Hp1. destruct Hp1 as [_ Hp1].
      rewrite Hp1, Hp2. reflexivity.
    + etransitivity; [apply capable_le_limit|]. lia.
  - pose proof (holders_le_sumv I bs m s b Hm Hf Hb (i_workers I) (fun w Hw => Hw)) as H1.
    rewrite <- count_vars_eq in H1.
    pose proof (size_row_bound I bs m s b Hm Hf Hb Elr) as H2. lia.
Qed.

Lemma nlen_filter_concat : forall {A} (f : A -> bool) gs,
  nlen (filter f (concat gs)) = sumN (map (fun g => nlen (filter f g)) gs).
Proof.
  intros A f. induction gs as [|g t IH]; [reflexivity|].
  cbn [concat map sumN fold_right]. fold (sumN (map (fun g0 => nlen (filter f g0)) t)).
  rewrite <- IH. unfold nlen. rewrite filter_app, app_length. lia.
Qed.

Lemma query_sol_ok_inv : forall st qs s,
  query_sol_ok st qs s = true ->
  exists bs m, create_task_batches (query_inst st qs) = Ok bs /\ query_rows (query_inst st qs) bs = Ok m
               /\ feasible m s = true.
Proof.
  intros st qs s H. unfold query_sol_ok in H. cbv zeta in H.
  destruct (create_task_batches (query_inst st qs)) as [bs| |] eqn:E1; try discriminate H.
  destruct (query_rows (query_inst st qs) bs) as [m| |] eqn:E2; try discriminate H.
  exists bs, m. split; [reflexivity|]. split; [exact E2|exact H].
Qed.

Lemma query_workers_free : forall st qs w, In w (i_workers (query_inst st qs)) -> w_free w = w_res w.
Proof. intros st qs w H. simpl in H. unfold query_groups in H. apply fake_groups_free in H. tauto. Qed.

(** number of waiting tasks of the batches' classes, each class once *)
Definition batches_waiting (I : inst) (bs : list batch) : N := sumN (map (fun b => waiting_of I (b_rq b)) bs).

(** ** the total demand is at most the number of waiting tasks (of the classes that have a batch) *)
Theorem query_total_le_batches : forall st qs s r,
  compute_new_worker_query st qs s = Ok r -> query_sol_ok st qs s = true ->
  exists bs, create_task_batches (query_inst st qs) = Ok bs
    /\ sumN (r_sn r) <= batches_waiting (query_inst st qs) bs.
Proof.
  intros st qs s r H Hok. destruct (cnwq_ok _ _ _ _ H) as (bs & m & Hb & Hm & ->).
  destruct (query_sol_ok_inv _ _ _ Hok) as (bs' & m' & Hb' & Hm' & Hf).
  rewrite Hb in Hb'. inversion Hb'; subst bs'. rewrite Hm in Hm'. inversion Hm'; subst m'.
  exists bs. split; [assumption|]. simpl. unfold sn_counts.
  rewrite <- nlen_filter_concat.
  change (concat (query_groups st qs)) with (i_workers (query_inst st qs)).
  apply loaded_le_sum. intros b Hbin.
  eapply holders_le_waiting; eauto. apply query_workers_free.
Qed.

Lemma group_le_concat : forall {A} (f : A -> bool) gs g,
  In g gs -> nlen (filter f g) <= nlen (filter f (concat gs)).
Proof.
  intros A f. induction gs as [|g0 t IH]; intros g H; [contradiction|].
  cbn [concat]. rewrite filter_app. unfold nlen in *. rewrite app_length.
  destruct H as [->|H]; [lia|]. specialize (IH g H). lia.
Qed.

(** ** the demand of query [i] is at most the number of waiting tasks of the classes that have a placement
    variable on its fake workers *)
Theorem query_count_le_fitting : forall st qs s r i q c,
  compute_new_worker_query st qs s = Ok r -> query_sol_ok st qs s = true ->
  nth_error qs i = Some q -> nth_error (r_sn r) i = Some c ->
  exists bs, create_task_batches (query_inst st qs) = Ok bs
    /\ c <= sumN (map (fun b => if class_fits (query_inst st qs) q (b_rq b)
                               then waiting_of (query_inst st qs) (b_rq b) else 0) bs).
Proof.
  intros st qs s r i q c H Hok Hq Hc.
  destruct (count_nth _ _ _ _ _ _ H Hq) as (bs & m & base & Hb & Hm & _ & Hg & Hn).
  destruct (query_sol_ok_inv _ _ _ Hok) as (bs' & m' & Hb' & Hm' & Hf).
  rewrite Hb in Hb'. inversion Hb'; subst bs'. rewrite Hm in Hm'. inversion Hm'; subst m'.
  exists bs. split; [assumption|]. rewrite Hn in Hc. inversion Hc; subst c. clear Hc.
  apply loaded_le_sum. intros b Hbin.
  destruct (class_fits (query_inst st qs) q (b_rq b)) eqn:Efit.
  - etransitivity; [apply (group_le_concat _ (query_groups st qs)); eapply nth_error_In; exact Hg|].
    change (concat (query_groups st qs)) with (i_workers (query_inst st qs)).
    eapply holders_le_waiting; eauto. apply query_workers_free.
  - rewrite filter_map_none; [unfold nlen; simpl; lia|]. intros id.
    unfold holds.
    change (placeable (query_inst st qs) (fake_worker (nres_after (qs_nres st) qs) (qs_now st) q id) (b_rq b))
      with (class_fits (query_inst st qs) q (b_rq b)).
    rewrite Efit. reflexivity.
Qed.
