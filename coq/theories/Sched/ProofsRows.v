(** Row-system theorems of component [sched]:
    - [feasible_no_overbook] / [C05_feasible_no_overbook_thm] (C05, row-system half): every feasible point
      of the exact row system, mapped to tasks by any dispatch [mapping_ok] accepts, never overbooks a
      worker and places tasks only where the request fits the free resources, is not blocked and has
      enough remaining time;
    - [create_task_batches_nodup]: one batch per request class. *)
From HQ Require Import Base.Prelude Gen.Consts Sched.Model.
Require Import ZifyBool ZifyN ZifyNat.
Open Scope N_scope.
Arguments N.add : simpl never. Arguments N.sub : simpl never. Arguments N.mul : simpl never.
Arguments N.eqb : simpl never. Arguments N.ltb : simpl never. Arguments N.leb : simpl never.
Arguments N.of_nat : simpl never. Arguments N.to_nat : simpl never. Arguments N.div : simpl never.
Arguments Z.of_N : simpl never. Arguments Z.mul : simpl never. Arguments Z.add : simpl never.

(** ** amounts and resource vectors *)

(** amount of resource [r] asked by a request (entries for the same resource add up) *)
Definition amount (rq : request) (r : N) : N :=
  fold_right (fun e acc => (if fst e =? r then snd e else 0) + acc) 0 rq.

Definition request_wf (rq : request) : Prop := Forall (fun e => 0 < snd e) rq.

Lemma rv_get_out : forall v r, (length v <= N.to_nat r)%nat -> rv_get v r = 0.
Proof. intros. unfold rv_get. apply nth_overflow. assumption. Qed.

Lemma rv_set_length : forall v r x, length (rv_set v r x) = length v.
Proof. induction v as [|h t IH]; intros [|r] x; simpl; auto. Qed.

Lemma rv_get_set : forall v r x r', (N.to_nat r < length v)%nat ->
  rv_get (rv_set v (N.to_nat r) x) r' = if r' =? r then x else rv_get v r'.
Proof.
  intros v r x r' H. unfold rv_get.
  destruct (N.eqb_spec r' r) as [->|Hne].
  - revert v H. generalize (N.to_nat r). intros n. induction n as [|n IH]; intros [|h t] H; simpl in *; try lia; auto.
    apply IH. lia.
  - assert (Hn : N.to_nat r' <> N.to_nat r) by lia. revert Hn H. generalize (N.to_nat r) (N.to_nat r'). 
    intros n n'. revert v n'. induction n as [|n IH]; intros [|h t] [|n'] Hn H; simpl in *; try lia; auto.
    apply IH; lia.
Qed.

Lemma capable_res_spec : forall v rq, capable_res v rq = true <-> Forall (fun e => snd e <= rv_get v (fst e)) rq.
Proof.
  intros v rq. unfold capable_res. rewrite forallb_forall, Forall_forall. split; intros H e He; specialize (H e He); lia.
Qed.

(** checked subtraction of one request *)
(** every entry is positive or addresses an existing slot of a vector of length [len] *)
Definition req_ok (len : nat) (rq : request) : Prop :=
  Forall (fun e => 0 < snd e \/ (N.to_nat (fst e) < len)%nat) rq.

Lemma request_wf_ok : forall len rq, request_wf rq -> req_ok len rq.
Proof. intros len rq H. eapply Forall_impl; [|exact H]. intros e He. left. exact He. Qed.

Lemma rv_sub_checked_ok : forall rq v,
  req_ok (length v) rq -> (forall r, amount rq r <= rv_get v r) ->
  exists v', rv_sub_checked v rq = Some v' /\ length v' = length v
             /\ forall r, rv_get v' r = rv_get v r - amount rq r.
Proof.
  induction rq as [|[r a] t IH]; intros v Hwf H; simpl.
  - exists v. repeat split. intros r. unfold amount. simpl. lia.
  - inversion Hwf as [|? ? Ha Hwf']; subst. simpl in Ha.
    pose proof (H r) as Hr. unfold amount in Hr. simpl in Hr. rewrite N.eqb_refl in Hr. fold (amount t r) in Hr.
    assert (Hin : (N.to_nat r < length v)%nat).
    { destruct Ha as [Ha|Ha]; [|assumption].
      destruct (Nat.ltb_spec (N.to_nat r) (length v)); [assumption|]. rewrite rv_get_out in Hr by assumption. lia. }
    destruct (Nat.ltb_spec (N.to_nat r) (length v)) as [_|]; [|lia].
    destruct (N.leb_spec a (rv_get v r)) as [_|]; [|lia]. simpl.
    destruct (IH (rv_set v (N.to_nat r) (rv_get v r - a))) as (v' & E & L & G).
    { unfold req_ok. rewrite rv_set_length. exact Hwf'. }
    { intros r'. rewrite rv_get_set by assumption. specialize (H r'). unfold amount in H. simpl in H. fold (amount t r') in H.
      destruct (N.eqb_spec r' r) as [->|Hne].
      - rewrite N.eqb_refl in H. lia.
      - destruct (N.eqb_spec r r'); [congruence|]. lia. }
    exists v'. split; [assumption|]. split; [rewrite L; apply rv_set_length|].
    intros r'. rewrite G, rv_get_set by assumption. unfold amount. simpl. fold (amount t r').
    destruct (N.eqb_spec r' r) as [->|Hne].
    + rewrite N.eqb_refl. lia.
    + destruct (N.eqb_spec r r'); [congruence|]. lia.
Qed.

(** total demand of a list of request classes *)
Definition demand (I : inst) (rqs : list N) (r : N) : N :=
  fold_right (fun rq acc => amount (req_of I rq) r + acc) 0 rqs.

Lemma sub_all_ok : forall I rqs v,
  (forall rq, In rq rqs -> req_ok (length v) (req_of I rq)) ->
  (forall r, demand I rqs r <= rv_get v r) ->
  exists v', sub_all I v rqs = Some v' /\ forall r, rv_get v' r = rv_get v r - demand I rqs r.
Proof.
  induction rqs as [|rq t IH]; intros v Hwf H; simpl.
  - exists v. split; [reflexivity|]. intros r. unfold demand. simpl. lia.
  - destruct (rv_sub_checked_ok (req_of I rq) v (Hwf rq (or_introl eq_refl))) as (v1 & E & L1 & G).
    { intros r. specialize (H r). unfold demand in H. simpl in H. lia. }
    rewrite E. destruct (IH v1) as (v' & E' & G').
    { intros rq' Hin. rewrite L1. apply Hwf. right. assumption. }
    { intros r. rewrite G. specialize (H r). unfold demand in H. simpl in H. fold (demand I t r) in H. lia. }
    exists v'. split; [assumption|]. intros r. rewrite G', G. unfold demand. simpl. fold (demand I t r). lia.
Qed.


(** ** membership in the generated row system *)

Lemma mapi_from_in : forall {A B} (f : nat -> A -> B) l i x,
  In x (mapi_from f l i) <-> exists k a, nth_error l k = Some a /\ x = f (i + k)%nat a.
Proof.
  intros A B f. induction l as [|h t IH]; intros i x; simpl.
  - split; [contradiction|]. intros (k & a & H & _). destruct k; discriminate.
  - rewrite IH. split.
    + intros [<-|(k & a & H & ->)].
      * exists O, h. split; [reflexivity|]. f_equal. lia.
      * exists (S k), a. split; [assumption|]. f_equal. lia.
    + intros ([|k] & a & H & ->); simpl in H.
      * inversion H; subst. left. f_equal. lia.
      * right. exists k, a. split; [assumption|]. f_equal. lia.
Qed.

Lemma seqN_in : forall n start x, In x (seqN start n) <-> start <= x < start + N.of_nat n.
Proof.
  induction n as [|n IH]; intros start x; simpl; [lia|]. rewrite IH. lia.
Qed.

Lemma worker_entries_in : forall I bs m w, milp_of I bs = Ok m -> In w (i_workers I) ->
  exists i, forall e, In e (worker_entries I bs i w) -> In e m.
Proof.
  intros I bs m w Hm Hw. unfold milp_of in Hm.
  destruct (all_items I bs) as [its| |]; simpl in Hm; try discriminate. inversion Hm; subst.
  apply In_nth_error in Hw. destruct Hw as (k & Hk).
  exists (N.of_nat (0 + k)). intros e He. apply in_or_app. left. apply in_concat.
  exists (worker_entries I bs (N.of_nat (0 + k)) w). split; [|assumption].
  apply mapi_from_in. exists k, w. auto.
Qed.

Definition res_terms (I : inst) (bs : list batch) (w : worker) (r : N) : list (var * Z) :=
  concat (map (fun b =>
      match placement_kind I w b with
      | PX => concat (map (fun e => if fst e =? r then [(VX (w_id w) (b_rq b), z (snd e))] else []) (req_of (inst_on I w) (b_rq b)))
      | PR => if 0 <? rv_get (w_free w) r then [(VR (w_id w) (b_rq b), z (rv_get (w_free w) r))] else []
      | PNone => []
      end) bs).

Lemma res_row_in : forall I bs i w r, r < i_nres I -> res_terms I bs w r <> [] ->
  In (ERow {| r_kind := RRes (w_id w) r; r_terms := res_terms I bs w r; r_le := true; r_bound := z (rv_get (w_free w) r) |})
     (worker_entries I bs i w).
Proof.
  intros I bs i w r Hr Hne. unfold worker_entries. apply in_or_app. right.
  apply in_concat. eexists. split.
  - apply in_map_iff. exists r. split; [reflexivity|]. apply seqN_in. lia.
  - fold (res_terms I bs w r). destruct (res_terms I bs w r) eqn:E; [congruence|]. left. reflexivity.
Qed.

Lemma var_x_in : forall I bs i w b, In b bs -> placement_kind I w b = PX ->
  In (EVar (VX (w_id w) (b_rq b)) KNat (z (x_weight (inst_on I w) i (b_rq b)))) (worker_entries I bs i w).
Proof.
  intros I bs i w b Hb Hk. unfold worker_entries. apply in_or_app. left.
  apply in_concat. eexists. split; [apply in_map_iff; exists b; split; [reflexivity|assumption]|].
  rewrite Hk. left. reflexivity.
Qed.

Lemma var_r_in : forall I bs i w b, In b bs -> placement_kind I w b = PR ->
  In (EVar (VR (w_id w) (b_rq b)) KBool (z (r_weight I i))) (worker_entries I bs i w).
Proof.
  intros I bs i w b Hb Hk. unfold worker_entries. apply in_or_app. left.
  apply in_concat. eexists. split; [apply in_map_iff; exists b; split; [reflexivity|assumption]|].
  rewrite Hk. left. reflexivity.
Qed.

Lemma feasible_in : forall m s e, feasible m s = true -> In e m -> entry_ok s e = true.
Proof. intros m s e H Hin. unfold feasible in H. rewrite forallb_forall in H. auto. Qed.

(** ** the resource row bounds the placed amounts *)

Definition lhs (s : sol) (ts : list (var * Z)) : Z := fold_right (fun t acc => (snd t * s (fst t) + acc)%Z) 0%Z ts.

Lemma lhs_app : forall s a b, lhs s (a ++ b) = (lhs s a + lhs s b)%Z.
Proof. intros s a b. induction a as [|t a IH]; simpl; [reflexivity|]. rewrite IH. lia. Qed.

Lemma lhs_x_entries : forall s v rq r,
  lhs s (concat (map (fun e : N * N => if fst e =? r then [(v, z (snd e))] else []) rq)) = (z (amount rq r) * s v)%Z.
Proof.
  intros s v rq r. induction rq as [|e t IH].
  - reflexivity.
  - cbn [map concat]. rewrite lhs_app, IH.
    replace (amount (e :: t) r) with ((if fst e =? r then snd e else 0) + amount t r) by reflexivity.
    unfold z. rewrite N2Z.inj_add. destruct (N.eqb_spec (fst e) r); cbn [lhs fold_right fst snd]; ring.
Qed.

(** what the tasks placed on [w] by the solution use of resource [r] *)
Definition placed_amount (I : inst) (bs : list batch) (s : sol) (w : worker) (r : N) : Z :=
  fold_right (fun b acc =>
    ((match placement_kind I w b with PX => z (amount (req_of (inst_on I w) (b_rq b)) r) * s (VX (w_id w) (b_rq b)) | _ => 0 end) + acc)%Z)
    0%Z bs.

Lemma res_row_bound : forall I bs m s w r,
  milp_of I bs = Ok m -> feasible m s = true -> In w (i_workers I) -> r < i_nres I ->
  (placed_amount I bs s w r <= z (rv_get (w_free w) r))%Z.
Proof.
  intros I bs m s w r Hm Hf Hw Hr.
  destruct (worker_entries_in I bs m w Hm Hw) as (i & Hin).
  (* all variables of this worker are non-negative *)
  assert (Hx : forall b, In b bs -> placement_kind I w b = PX -> (0 <= s (VX (w_id w) (b_rq b)))%Z).
  { intros b Hb Hk. pose proof (feasible_in m s _ Hf (Hin _ (var_x_in I bs i w b Hb Hk))) as H. simpl in H. lia. }
  assert (Hrv : forall b, In b bs -> placement_kind I w b = PR -> (0 <= s (VR (w_id w) (b_rq b)))%Z).
  { intros b Hb Hk. pose proof (feasible_in m s _ Hf (Hin _ (var_r_in I bs i w b Hb Hk))) as H. simpl in H. lia. }
  assert (Hle : (placed_amount I bs s w r <= lhs s (res_terms I bs w r))%Z).
  { unfold placed_amount, res_terms. clear Hin Hm Hf.
    induction bs as [|b t IH]; simpl; [lia|]. rewrite lhs_app.
    assert (IH' := IH (fun b' Hb' => Hx b' (or_intror Hb')) (fun b' Hb' => Hrv b' (or_intror Hb'))).
    destruct (placement_kind I w b) eqn:Hk.
    - rewrite lhs_x_entries. lia.
    - specialize (Hrv b (or_introl eq_refl) Hk).
      assert (Hnn : (0 <= z (rv_get (w_free w) r) * s (VR (w_id w) (b_rq b)))%Z)
        by (apply Z.mul_nonneg_nonneg; [unfold z; lia|assumption]).
      destruct (0 <? rv_get (w_free w) r); cbn [lhs fold_right fst snd]; lia.
    - simpl. lia. }
  destruct (res_terms I bs w r) eqn:E.
  - simpl in Hle. unfold z. lia.
  - assert (Hne : res_terms I bs w r <> []) by (rewrite E; discriminate).
    pose proof (feasible_in m s _ Hf (Hin _ (res_row_in I bs i w r Hr Hne))) as Hrow.
    simpl in Hrow. unfold row_ok, row_lhs in Hrow. simpl in Hrow. fold (lhs s (res_terms I bs w r)) in Hrow.
    rewrite E in *. lia.
Qed.


(** ** counting the dispatched tasks *)

Definition rqs_on (I : inst) (d : dispatch) (wid : N) : list N :=
  concat (map (fun p => if snd p =? wid then
                          match find_task (ready_tasks I) (fst p) with Some t => [t_rq t] | None => [] end
                        else []) d).

Lemma free_after_eq : forall I d w, free_after I d w = sub_all (inst_on I w) (w_free w) (rqs_on I d (w_id w)).
Proof. reflexivity. Qed.

Lemma sum_indicator : forall (f : N -> N) l x, NoDup l -> In x l ->
  fold_right (fun y acc => (if x =? y then f y else 0) + acc) 0 l = f x.
Proof.
  induction l as [|y t IH]; intros x Hnd Hin; simpl; [contradiction|].
  inversion Hnd as [|? ? Hny Hnd']; subst.
  destruct Hin as [->|Hin].
  - rewrite N.eqb_refl.
    assert (Hz : fold_right (fun y acc => (if x =? y then f y else 0) + acc) 0 t = 0).
    { clear - Hny. induction t as [|y t IH]; simpl; [reflexivity|].
      destruct (N.eqb_spec x y) as [->|_]; [exfalso; apply Hny; left; reflexivity|].
      rewrite IH; [lia|]. intros H. apply Hny. right. assumption. }
    rewrite Hz. lia.
  - destruct (N.eqb_spec x y) as [->|_]; [contradiction|]. rewrite (IH x Hnd' Hin). lia.
Qed.

Lemma sum_zero_indicator : forall (f : N -> N) l, fold_right (fun y acc => 0 * f y + acc) 0 l = 0.
Proof. induction l as [|y t IH]; simpl; [reflexivity|]. rewrite IH. lia. Qed.

Definition weighted (I : inst) (d : dispatch) (wid r : N) (RQ : list N) : N :=
  fold_right (fun rq acc => count_on I d wid rq * amount (req_of I rq) r + acc) 0 RQ.

Lemma count_on_cons : forall I p d wid rq,
  count_on I (p :: d) wid rq =
  (if (snd p =? wid) && match find_task (ready_tasks I) (fst p) with Some t => t_rq t =? rq | None => false end
   then 1 else 0) + count_on I d wid rq.
Proof.
  intros. unfold count_on. simpl.
  destruct ((snd p =? wid) && match find_task (ready_tasks I) (fst p) with Some t => t_rq t =? rq | None => false end);
    unfold nlen; simpl; lia.
Qed.

Lemma demand_count : forall I wid RQ r d, NoDup RQ ->
  (forall rq, In rq (rqs_on I d wid) -> In rq RQ) ->
  demand I (rqs_on I d wid) r = weighted I d wid r RQ.
Proof.
  intros I wid RQ r d Hnd. induction d as [|p d IH]; intros Hin.
  - unfold rqs_on, demand, weighted. simpl. clear. induction RQ as [|rq t IHt]; simpl; [reflexivity|].
    rewrite <- IHt. unfold count_on, nlen. simpl. lia.
  - unfold rqs_on in *. simpl in *.
    assert (Hw : forall c : unit, weighted I (p :: d) wid r RQ =
              fold_right (fun rq acc => (if (snd p =? wid) && match find_task (ready_tasks I) (fst p) with Some t => t_rq t =? rq | None => false end then amount (req_of I rq) r else 0) + acc) 0 RQ
              + weighted I d wid r RQ).
    { intros _. unfold weighted. clear. induction RQ as [|rq t IHt]; simpl; [reflexivity|].
      rewrite IHt, count_on_cons.
      destruct ((snd p =? wid) && match find_task (ready_tasks I) (fst p) with Some t0 => t_rq t0 =? rq | None => false end); lia. }
    rewrite (Hw tt). clear Hw.
    destruct (snd p =? wid) eqn:Ew; simpl.
    + destruct (find_task (ready_tasks I) (fst p)) as [t|] eqn:Ef; simpl in *.
      * unfold demand. simpl. fold (demand I (concat (map (fun p0 => if snd p0 =? wid then match find_task (ready_tasks I) (fst p0) with Some t0 => [t_rq t0] | None => [] end else []) d)) r).
        rewrite IH by (intros rq H; apply Hin; right; assumption).
        rewrite (sum_indicator (fun rq => amount (req_of I rq) r) RQ (t_rq t) Hnd (Hin _ (or_introl eq_refl))). lia.
      * rewrite IH by assumption.
        assert (Hz : fold_right (fun rq acc => (if false then amount (req_of I rq) r else 0) + acc) 0 RQ = 0)
          by (clear; induction RQ; simpl; lia).
        rewrite Hz. lia.
    + rewrite IH by assumption.
      assert (Hz : fold_right (fun rq acc => (if false then amount (req_of I rq) r else 0) + acc) 0 RQ = 0)
        by (clear; induction RQ; simpl; lia).
      rewrite Hz. lia.
Qed.

(** ** well-formed instances *)

Record inst_wf (I : inst) : Prop := {
  wf_ids : NoDup (map w_id (i_workers I));
  wf_req : forall c, In c (i_classes I) ->
           request_wf (rc_entries c) /\ Forall (fun e => fst e < i_nres I) (rc_entries c);
  wf_all : forall c, In c (i_classes I) -> Forall (fun r => r < i_nres I) (rc_all c)
}.

Lemma req_of_wf : forall I rq, inst_wf I ->
  request_wf (req_of I rq) /\ Forall (fun e => fst e < i_nres I) (req_of I rq).
Proof.
  intros I rq Hwf. unfold req_of, class_of.
  destruct (nth_in_or_default (N.to_nat rq) (i_classes I) {| rc_entries := []; rc_min_time := 0; rc_all := [] |}) as [Hin | ->].
  - apply (wf_req I Hwf). assumption.
  - simpl. split; constructor.
Qed.

(** the demand of a class on a worker ([All] entries resolved to the worker's total) *)
Lemma class_of_on : forall I w rq, class_of (inst_on I w) rq = class_on (w_res w) (class_of I rq).
Proof.
  intros I w rq. unfold class_of. cbn [inst_on i_classes].
  change {| rc_entries := []; rc_min_time := 0; rc_all := [] |}
    with (class_on (w_res w) {| rc_entries := []; rc_min_time := 0; rc_all := [] |}) at 1.
  apply map_nth.
Qed.

Lemma req_on_eq : forall I w rq,
  req_of (inst_on I w) rq = req_of I rq ++ map (fun r => (r, rv_get (w_res w) r)) (rc_all (class_of I rq)).
Proof. intros. unfold req_of. rewrite class_of_on. reflexivity. Qed.

Lemma class_all_bound : forall I rq, inst_wf I -> Forall (fun r => r < i_nres I) (rc_all (class_of I rq)).
Proof.
  intros I rq Hwf. unfold class_of.
  destruct (nth_in_or_default (N.to_nat rq) (i_classes I) {| rc_entries := []; rc_min_time := 0; rc_all := [] |}) as [Hin | ->].
  - apply (wf_all I Hwf). assumption.
  - constructor.
Qed.

Lemma req_on_bound : forall I w rq, inst_wf I -> Forall (fun e => fst e < i_nres I) (req_of (inst_on I w) rq).
Proof.
  intros I w rq Hwf. rewrite req_on_eq. apply Forall_app. split; [apply req_of_wf; assumption|].
  pose proof (class_all_bound I rq Hwf) as Ha. induction Ha; simpl; constructor; auto.
Qed.

(** a class that may be placed on [w] addresses only existing slots of [w]'s free vector *)
Lemma placeable_req_ok : forall I w rq, inst_wf I -> placeable I w rq = true ->
  req_ok (length (w_free w)) (req_of (inst_on I w) rq).
Proof.
  intros I w rq Hwf Hp. rewrite req_on_eq. apply Forall_app. split.
  - apply request_wf_ok. apply req_of_wf. assumption.
  - unfold placeable in Hp. apply andb_true_iff in Hp. destruct Hp as [_ Hc].
    unfold min_req in Hc. apply capable_res_spec in Hc. apply Forall_app in Hc. destruct Hc as [_ Hc].
    induction (rc_all (class_of I rq)) as [|r t IH]; simpl; [constructor|].
    inversion Hc as [|? ? H1 Ht]; subst. constructor; [|apply IH; assumption].
    right. simpl in *. destruct (Nat.ltb_spec (N.to_nat r) (length (w_free w))); [assumption|].
    rewrite rv_get_out in H1 by assumption. lia.
Qed.

Lemma amount_out : forall rq r n, Forall (fun e => fst e < n) rq -> n <= r -> amount rq r = 0.
Proof.
  induction rq as [|e t IH]; intros r n H Hr; [reflexivity|]. inversion H; subst.
  unfold amount. simpl. fold (amount t r). rewrite (IH r n) by assumption.
  destruct (N.eqb_spec (fst e) r); lia.
Qed.

Lemma placement_px : forall I w b, placement_kind I w b = PX <-> placeable I w (b_rq b) = true.
Proof.
  intros I w b. unfold placement_kind. destruct (placeable I w (b_rq b)); [tauto|].
  destruct (b_blk b && capable I w (b_rq b)); split; discriminate.
Qed.

Lemma has_x_placeable : forall I bs w b, In b bs -> has_x I bs w (b_rq b) = placeable I w (b_rq b).
Proof.
  intros I bs w b Hb. unfold has_x. destruct (placeable I w (b_rq b)) eqn:E.
  - apply existsb_exists. exists b. split; [assumption|]. rewrite N.eqb_refl. simpl.
    apply placement_px in E. rewrite E. reflexivity.
  - apply Bool.not_true_is_false. intros H. apply existsb_exists in H. destruct H as (b' & Hb' & H).
    apply andb_true_iff in H. destruct H as [H1 H2]. apply N.eqb_eq in H1.
    destruct (placement_kind I w b') eqn:Ek; try discriminate.
    apply placement_px in Ek. rewrite H1 in Ek. congruence.
Qed.

Lemma weighted_placed : forall I (s : sol) d w r l,
  (forall b, In b l -> count_on I d (w_id w) (b_rq b) = if placeable I w (b_rq b) then sol_x s (w_id w) (b_rq b) else 0) ->
  (forall b, In b l -> placement_kind I w b = PX -> (0 <= s (VX (w_id w) (b_rq b)))%Z) ->
  z (weighted (inst_on I w) d (w_id w) r (map b_rq l)) = placed_amount I l s w r.
Proof.
  intros I s d w r. unfold weighted, placed_amount. induction l as [|b t IH]; intros Hcnt Hx; [reflexivity|].
  cbn [map fold_right]. unfold z in *. rewrite N2Z.inj_add, N2Z.inj_mul.
  rewrite IH; [|intros; apply Hcnt; right; assumption|intros; apply Hx; [right|]; assumption].
  change (count_on (inst_on I w) d (w_id w) (b_rq b)) with (count_on I d (w_id w) (b_rq b)).
  rewrite (Hcnt b (or_introl eq_refl)).
  destruct (placement_kind I w b) eqn:Ek.
  - pose proof (proj1 (placement_px I w b) Ek) as Hp. rewrite Hp.
    unfold sol_x. rewrite Z2N.id by (apply Hx; [left; reflexivity|assumption]). ring.
  - assert (Hp : placeable I w (b_rq b) = false).
    { destruct (placeable I w (b_rq b)) eqn:E; [|reflexivity]. apply placement_px in E. congruence. }
    rewrite Hp. simpl. ring.
  - assert (Hp : placeable I w (b_rq b) = false).
    { destruct (placeable I w (b_rq b)) eqn:E; [|reflexivity]. apply placement_px in E. congruence. }
    rewrite Hp. simpl. ring.
Qed.

(** * C05, row-system half: a feasible point of the row system never overbooks a worker, and tasks are
      placed only where the request fits the free resources, is not blocked and has enough time *)
Theorem feasible_no_overbook : forall I bs m s d,
  inst_wf I -> NoDup (map b_rq bs) ->
  milp_of I bs = Ok m -> feasible m s = true -> mapping_ok I bs s d = true ->
  forall w, In w (i_workers I) ->
    (exists v, free_after I d w = Some v
               /\ forall r, rv_get v r = rv_get (w_free w) r - demand (inst_on I w) (rqs_on I d (w_id w)) r)
    /\ (forall r, demand (inst_on I w) (rqs_on I d (w_id w)) r <= rv_get (w_free w) r)
    /\ (forall rq, In rq (rqs_on I d (w_id w)) -> placeable I w rq = true).
Proof.
  intros I bs m s d Hwf Hnd Hm Hf Hmap w Hw.
  unfold mapping_ok in Hmap. apply andb_true_iff in Hmap. destruct Hmap as [Hcounts Hcls].
  rewrite forallb_forall in Hcounts, Hcls.
  (* every dispatched task belongs to a batch class *)
  assert (Hin : forall rq, In rq (rqs_on I d (w_id w)) -> In rq (map b_rq bs)).
  { intros rq H. unfold rqs_on in H. apply in_concat in H. destruct H as (l & Hl & Hrq).
    apply in_map_iff in Hl. destruct Hl as (p & <- & Hp).
    destruct (snd p =? w_id w); [|contradiction].
    specialize (Hcls p Hp). destruct (find_task (ready_tasks I) (fst p)) as [t|]; [|contradiction].
    destruct Hrq as [<-|[]]. apply existsb_exists in Hcls. destruct Hcls as (b & Hb & E).
    apply N.eqb_eq in E. rewrite <- E. apply in_map. assumption. }
  (* per class: the number of dispatched tasks is the solved count *)
  assert (Hcnt : forall b, In b bs ->
            count_on I d (w_id w) (b_rq b) = if placeable I w (b_rq b) then sol_x s (w_id w) (b_rq b) else 0).
  { intros b Hb. specialize (Hcounts b Hb).
    destruct (take_tasks _ _) as [[taken q']| |]; try discriminate.
    apply andb_true_iff in Hcounts. destruct Hcounts as [_ Hc]. rewrite forallb_forall in Hc.
    specialize (Hc w Hw). apply N.eqb_eq in Hc. rewrite Hc, (has_x_placeable I bs w b Hb). reflexivity. }
  (* tasks are only placed where the class is placeable *)
  assert (Hpl : forall rq, In rq (rqs_on I d (w_id w)) -> placeable I w rq = true).
  { intros rq Hrq. pose proof (Hin rq Hrq) as Hb. apply in_map_iff in Hb. destruct Hb as (b & <- & Hb).
    specialize (Hcnt b Hb). destruct (placeable I w (b_rq b)); [reflexivity|].
    (* count = 0 contradicts the task being there *)
    exfalso. clear - Hrq Hcnt. unfold rqs_on in Hrq. unfold count_on in Hcnt.
    apply in_concat in Hrq. destruct Hrq as (l & Hl & Hrq). apply in_map_iff in Hl. destruct Hl as (p & <- & Hp).
    destruct (snd p =? w_id w) eqn:Ew; [|contradiction].
    destruct (find_task (ready_tasks I) (fst p)) as [t|] eqn:Ef; [|contradiction]. destruct Hrq as [E|[]].
    assert (Hf : In p (filter (fun p0 => (snd p0 =? w_id w) && match find_task (ready_tasks I) (fst p0) with Some t0 => t_rq t0 =? b_rq b | None => false end) d)).
    { apply filter_In. split; [assumption|]. rewrite Ew, Ef, E, N.eqb_refl. reflexivity. }
    destruct (filter _ d); [contradiction|]. unfold nlen in Hcnt. simpl in Hcnt. lia. }
  (* demand (an [All] entry = the worker's total) = sum over the batches of count * amount <= free (resource row) *)
  assert (Hdem : forall r, demand (inst_on I w) (rqs_on I d (w_id w)) r <= rv_get (w_free w) r).
  { intros r. destruct (N.ltb_spec r (i_nres I)) as [Hr|Hr].
    - pose proof (demand_count (inst_on I w) (w_id w) (map b_rq bs) r d Hnd Hin) as Hdc.
      change (rqs_on (inst_on I w) d (w_id w)) with (rqs_on I d (w_id w)) in Hdc. rewrite Hdc.
      pose proof (res_row_bound I bs m s w r Hm Hf Hw Hr) as Hb.
      assert (Heq : z (weighted (inst_on I w) d (w_id w) r (map b_rq bs)) = placed_amount I bs s w r).
      { apply weighted_placed; [assumption|].
        intros b Hb' Hk. destruct (worker_entries_in I bs m w Hm Hw) as (i & Hi).
        pose proof (feasible_in m s _ Hf (Hi _ (var_x_in I bs i w b Hb' Hk))) as H. simpl in H. lia. }
      unfold z in *. lia.
    - assert (Hz : demand (inst_on I w) (rqs_on I d (w_id w)) r = 0).
      { generalize (rqs_on I d (w_id w)). intros l. induction l as [|rq t IH]; [reflexivity|].
        unfold demand. simpl. fold (demand (inst_on I w) t r). rewrite IH.
        rewrite (amount_out _ r (i_nres I)); [lia|apply req_on_bound; assumption|lia]. }
      rewrite Hz. lia. }
  split; [|split; assumption].
  rewrite free_after_eq. apply sub_all_ok; [|assumption].
  intros rq Hrq. apply placeable_req_ok; [assumption|]. apply Hpl. assumption.
Qed.


(** ** [create_task_batches] yields one batch per request class *)

Definition rqs_of (st : bstate) : list N := map (fun e => b_rq (fst e)) st.

Lemma map_at_rqs : forall f st i, (forall e, b_rq (fst (f e)) = b_rq (fst e)) -> rqs_of (map_at f st i) = rqs_of st.
Proof.
  intros f st. induction st as [|e t IH]; intros i Hf; destruct i; simpl; auto; unfold rqs_of in *; simpl; f_equal; auto.
Qed.

Lemma mapi_from_rqs : forall (f : nat -> batch * list (N * N) -> batch * list (N * N)) st i,
  (forall j e, b_rq (fst (f j e)) = b_rq (fst e)) -> rqs_of (mapi_from f st i) = rqs_of st.
Proof.
  intros f st. induction st as [|e t IH]; intros i Hf; simpl; auto. unfold rqs_of in *. simpl. f_equal; auto.
Qed.

Lemma advance_one_rq : forall e, b_rq (fst (advance_one e)) = b_rq (fst e).
Proof.
  intros [b l]. unfold advance_one. simpl. destruct l as [|[p sz] rest]; [reflexivity|].
  destruct (b_limit b <? b_size b + sz); reflexivity.
Qed.

Lemma add_cut_rqs : forall st i, rqs_of (add_cut st i) = rqs_of st.
Proof.
  intros st i. unfold add_cut.
  set (st1 := mapi_from _ st 0).
  assert (H1 : rqs_of st1 = rqs_of st).
  { apply mapi_from_rqs. intros j e. destruct (is_higher i j (fst e)); reflexivity. }
  destruct (higher_priorities st i); [assumption|].
  rewrite map_at_rqs; [assumption|]. intros e. reflexivity.
Qed.

Lemma merge_loop_rqs : forall fuel st u, rqs_of (merge_loop fuel st u) = rqs_of st.
Proof.
  induction fuel as [|fuel IH]; intros st u; simpl; [reflexivity|].
  destruct (found_from st (highest_prio st) 0) as [|i [|j rest]] eqn:E; [reflexivity| |].
  - destruct (match u with Some u0 => Nat.eqb u0 i | None => false end).
    + rewrite IH. apply map_at_rqs. apply advance_one_rq.
    + rewrite IH, map_at_rqs by apply advance_one_rq. apply add_cut_rqs.
  - rewrite IH.
    assert (H1 : forall l s0, rqs_of (fold_left (fun s i => map_at advance_one s i) l s0) = rqs_of s0).
    { induction l as [|a l IHl]; intros s0; simpl; [reflexivity|]. rewrite IHl. apply map_at_rqs. apply advance_one_rq. }
    assert (H2 : forall l s0, rqs_of (fold_left add_cut l s0) = rqs_of s0).
    { induction l as [|a l IHl]; intros s0; simpl; [reflexivity|]. rewrite IHl. apply add_cut_rqs. }
    rewrite H1, H2. reflexivity.
Qed.

Lemma collect_res_map : forall {A B} (f : A -> res B) (g : B -> N) (h : A -> N) l out,
  (forall a b, f a = Ok b -> g b = h a) ->
  collect_res (map f l) = Ok out -> map g out = map h l.
Proof.
  intros A B f g h. induction l as [|a t IH]; intros out Hf H; simpl in H.
  - inversion H. reflexivity.
  - destruct (f a) as [b| |] eqn:E; simpl in H; try discriminate.
    destruct (collect_res (map f t)) as [bs| |] eqn:E2; simpl in H; try discriminate.
    inversion H; subst. simpl. f_equal; [apply Hf; assumption|apply IH; auto].
Qed.

Lemma NoDup_filter : forall {A} (f : A -> bool) l, NoDup l -> NoDup (filter f l).
Proof.
  intros A f l H. induction H as [|x l Hx Hnd IH]; simpl; [constructor|].
  destruct (f x); [|assumption]. constructor; [|assumption]. intros Hin. apply filter_In in Hin. tauto.
Qed.

Lemma map_filter_sub : forall {A} (g : A -> N) (f : A -> bool) l, NoDup (map g l) -> NoDup (map g (filter f l)).
Proof.
  intros A g f l. induction l as [|x t IH]; intros H; simpl in *; [constructor|].
  inversion H as [|? ? Hx Hnd]; subst. destruct (f x); simpl; [|auto].
  constructor; [|auto]. intros Hin. apply Hx. apply in_map_iff in Hin. destruct Hin as (y & E & Hy).
  apply filter_In in Hy. apply in_map_iff. exists y. tauto.
Qed.

Lemma mapi_index_nodup : forall {A} (l : list A) i,
  NoDup (map fst (mapi_from (fun i q => (N.of_nat i, q)) l i))
  /\ forall x, In x (map fst (mapi_from (fun i q => (N.of_nat i, q)) l i)) -> N.of_nat i <= x.
Proof.
  intros A. induction l as [|a t IH]; intros i; simpl; [split; [constructor|contradiction]|].
  destruct (IH (S i)) as [H1 H2]. split.
  - constructor; [|assumption]. intros Hin. specialize (H2 _ Hin). lia.
  - intros x [<-|Hin]; [lia|]. specialize (H2 _ Hin). lia.
Qed.

Lemma create_task_batches_nodup : forall I bs, create_task_batches I = Ok bs -> NoDup (map b_rq bs).
Proof.
  intros I bs H. unfold create_task_batches in H.
  set (qs := filter _ _) in H. set (st0 := map _ qs) in H.
  set (st := merge_loop _ st0 None) in H.
  destruct (collect_res _) as [pruned| |] eqn:E; simpl in H; try discriminate. inversion H; subst. clear H.
  apply map_filter_sub.
  assert (Hp : map b_rq pruned = rqs_of st).
  { unfold rqs_of. eapply collect_res_map; [|exact E].
    intros a b Hab. simpl in Hab. destruct (prune_progressive _ _ _); simpl in Hab; try discriminate.
    inversion Hab. reflexivity. }
  rewrite Hp. unfold st. rewrite merge_loop_rqs. unfold st0, rqs_of. rewrite map_map. simpl.
  unfold qs. apply map_filter_sub. apply mapi_index_nodup.
Qed.

(** * C05, row-system half (final form): for the batches the model of [create_task_batches] builds *)
Theorem C05_feasible_no_overbook_thm : forall I bs m s d,
  inst_wf I ->
  create_task_batches I = Ok bs -> milp_of I bs = Ok m -> feasible m s = true -> mapping_ok I bs s d = true ->
  forall w, In w (i_workers I) ->
    (exists v, free_after I d w = Some v
               /\ forall r, rv_get v r = rv_get (w_free w) r - demand (inst_on I w) (rqs_on I d (w_id w)) r)
    /\ (forall r, demand (inst_on I w) (rqs_on I d (w_id w)) r <= rv_get (w_free w) r)
    /\ (forall rq, In rq (rqs_on I d (w_id w)) -> placeable I w rq = true).
Proof.
  intros I bs m s d Hwf Hb. apply feasible_no_overbook; [assumption|]. apply create_task_batches_nodup with (I := I). assumption.
Qed.
