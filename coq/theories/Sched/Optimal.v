(** Optimality of a solution of a row system by exhaustive enumeration of the bounded integer box.
    Generic: [ub_certified] derives an upper bound of every variable from a "<=" row with non-negative
    coefficients (resource rows / size rows), [best_in_box] sweeps the finite box by computation, and
    [optimal_by_enumeration] lifts the sweep to ALL feasible points. *)
From HQ Require Import Base.Prelude Gen.Consts Sched.Model.
Require Import ZifyBool ZifyN ZifyNat.
Open Scope Z_scope.

Lemma var_eqb_eq : forall a b, var_eqb a b = true <-> a = b.
Proof.
  intros [w r|w r|r s] [w' r'|w' r'|r' s']; simpl; split; intros H; try discriminate; try congruence;
    try (apply andb_true_iff in H; destruct H as [H1 H2]; apply N.eqb_eq in H1; apply N.eqb_eq in H2; subst; reflexivity);
    try (inversion H; subst; rewrite !N.eqb_refl; reflexivity).
Qed.

Definition sol_of (al : list (var * Z)) : sol :=
  fun v => match find (fun p => var_eqb (fst p) v) al with Some p => snd p | None => 0 end.

Definition declared (m : list entry) (v : var) : bool :=
  existsb (fun e => match e with EVar v' _ _ => var_eqb v' v | ERow _ => false end) m.

(** every variable used in a row is declared *)
Definition closed (m : list entry) : bool :=
  forallb (fun e => match e with
                    | ERow r => forallb (fun t => declared m (fst t)) (r_terms r)
                    | EVar _ _ _ => true
                    end) m.

Definition agree (m : list entry) (s1 s2 : sol) : Prop := forall v, declared m v = true -> s1 v = s2 v.

Lemma row_lhs_agree : forall m s1 s2 ts,
  agree m s1 s2 -> forallb (fun t => declared m (fst t)) ts = true ->
  fold_right (fun t acc => snd t * s1 (fst t) + acc) 0 ts = fold_right (fun t acc => snd t * s2 (fst t) + acc) 0 ts.
Proof.
  intros m s1 s2 ts Ha. induction ts as [|t ts IH]; intros H; simpl in *; [reflexivity|].
  apply andb_true_iff in H. destruct H as [H1 H2]. rewrite (Ha _ H1), (IH H2). reflexivity.
Qed.

Lemma declared_in : forall m v k w, In (EVar v k w) m -> declared m v = true.
Proof.
  intros m v k w H. unfold declared. apply existsb_exists. exists (EVar v k w). split; [assumption|].
  apply var_eqb_eq. reflexivity.
Qed.

Lemma feasible_agree : forall m s1 s2, closed m = true -> agree m s1 s2 -> feasible m s1 = feasible m s2.
Proof.
  intros m s1 s2 Hc Ha. unfold feasible, closed in *.
  assert (H : forall l, (forall e, In e l -> In e m) ->
              forallb (fun e => match e with
                    | ERow r => forallb (fun t => declared m (fst t)) (r_terms r)
                    | EVar _ _ _ => true end) l = true ->
              forallb (entry_ok s1) l = forallb (entry_ok s2) l).
  { induction l as [|e l IH]; intros Hin Hcl; simpl in *; [reflexivity|].
    apply andb_true_iff in Hcl. destruct Hcl as [Hc1 Hc2].
    rewrite (IH (fun e' He' => Hin e' (or_intror He')) Hc2). f_equal.
    destruct e as [v k w|r]; simpl.
    - rewrite (Ha v (declared_in m v k w (Hin _ (or_introl eq_refl)))). reflexivity.
    - unfold row_ok, row_lhs. rewrite (row_lhs_agree m s1 s2 _ Ha Hc1). reflexivity. }
  apply H; auto.
Qed.

Lemma objective_agree : forall m s1 s2, agree m s1 s2 -> objective m s1 = objective m s2.
Proof.
  intros m s1 s2 Ha. unfold objective.
  assert (H : forall l, (forall e, In e l -> In e m) ->
     fold_right (fun e acc => match e with EVar v _ wt => wt * s1 v + acc | ERow _ => acc end) 0 l
     = fold_right (fun e acc => match e with EVar v _ wt => wt * s2 v + acc | ERow _ => acc end) 0 l).
  { induction l as [|e l IH]; intros Hin; simpl; [reflexivity|].
    rewrite (IH (fun e' He' => Hin e' (or_intror He'))).
    destruct e as [v k w|r]; [|reflexivity].
    rewrite (Ha v (declared_in m v k w (Hin _ (or_introl eq_refl)))). reflexivity. }
  apply H; auto.
Qed.

(** all declared variables are non-negative in a feasible point *)
Lemma feasible_nonneg : forall m s v, feasible m s = true -> declared m v = true -> 0 <= s v.
Proof.
  intros m s v Hf Hd. unfold declared in Hd. apply existsb_exists in Hd. destruct Hd as (e & He & Hv).
  unfold feasible in Hf. rewrite forallb_forall in Hf. specialize (Hf e He).
  destruct e as [v' k w|r]; [|discriminate]. apply var_eqb_eq in Hv. subst v'.
  destruct k; simpl in Hf; lia.
Qed.

(** [ub] is certified for [v]: a boolean variable with ub >= 1, or a "<=" row with non-negative
    coefficients that contains [c * v] with [c > 0] and [bound <= c * ub + (c - 1)] *)
Definition ub_ok (m : list entry) (vu : var * Z) : bool :=
  let '(v, ub) := vu in
  existsb (fun e => match e with
    | EVar v' KBool _ => var_eqb v' v && (1 <=? ub)
    | EVar _ KNat _ => false
    | ERow r =>
        r_le r && forallb (fun t => 0 <=? snd t) (r_terms r)
        && forallb (fun t => declared m (fst t)) (r_terms r)
        && existsb (fun t => var_eqb (fst t) v && (0 <? snd t) && (r_bound r <? snd t * (ub + 1))) (r_terms r)
    end) m.

Definition ub_certified (m : list entry) (ubs : list (var * Z)) : bool :=
  forallb (ub_ok m) ubs
  && forallb (fun e => match e with EVar v _ _ => existsb (fun vu => var_eqb (fst vu) v) ubs | ERow _ => true end) m.

Lemma lhs_lower : forall m s ts v c,
  feasible m s = true ->
  forallb (fun t => 0 <=? snd t) ts = true -> forallb (fun t => declared m (fst t)) ts = true ->
  In (v, c) ts -> c * s v <= fold_right (fun t acc => snd t * s (fst t) + acc) 0 ts.
Proof.
  intros m s ts v c Hf. induction ts as [|t ts IH]; intros Hpos Hdec Hin; simpl in *; [contradiction|].
  apply andb_true_iff in Hpos. destruct Hpos as [Hp1 Hp2]. apply andb_true_iff in Hdec. destruct Hdec as [Hd1 Hd2].
  assert (Hrest : 0 <= fold_right (fun t acc => snd t * s (fst t) + acc) 0 ts).
  { clear - Hf Hp2 Hd2. induction ts as [|t' ts IH]; simpl in *; [lia|].
    apply andb_true_iff in Hp2. destruct Hp2. apply andb_true_iff in Hd2. destruct Hd2 as [Hd Hd'].
    pose proof (feasible_nonneg m s _ Hf Hd). specialize (IH H0 Hd'). nia. }
  pose proof (feasible_nonneg m s _ Hf Hd1) as Hn.
  destruct Hin as [->|Hin]; simpl in *; [nia|]. specialize (IH Hp2 Hd2 Hin). nia.
Qed.

Lemma ub_sound : forall m s v ub, feasible m s = true -> ub_ok m (v, ub) = true -> s v <= ub.
Proof.
  intros m s v ub Hf H. simpl in H. apply existsb_exists in H. destruct H as (e & He & H).
  pose proof Hf as Hf'. unfold feasible in Hf'. rewrite forallb_forall in Hf'. specialize (Hf' e He).
  destruct e as [v' k w|r].
  - destruct k; [discriminate|]. apply andb_true_iff in H. destruct H as [Hv Hu].
    apply var_eqb_eq in Hv. subst. simpl in Hf'. lia.
  - apply andb_true_iff in H. destruct H as [H Hex]. apply andb_true_iff in H. destruct H as [H Hdec].
    apply andb_true_iff in H. destruct H as [Hle Hpos].
    apply existsb_exists in Hex. destruct Hex as ([v' c] & Hin & Hx). simpl in Hx.
    apply andb_true_iff in Hx. destruct Hx as [Hx Hb]. apply andb_true_iff in Hx. destruct Hx as [Hv Hc].
    apply var_eqb_eq in Hv. subst v'.
    simpl in Hf'. unfold row_ok in Hf'. rewrite Hle in Hf'. unfold row_lhs in Hf'.
    pose proof (lhs_lower m s _ v c Hf Hpos Hdec Hin). nia.
Qed.

(** the finite box *)
Fixpoint zrange (n : nat) (from : Z) : list Z :=
  match n with O => [] | S n' => from :: zrange n' (from + 1) end.

Fixpoint box (ubs : list (var * Z)) : list (list (var * Z)) :=
  match ubs with
  | [] => [[]]
  | (v, ub) :: t => concat (map (fun x => map (fun al => (v, x) :: al) (box t)) (zrange (Z.to_nat (ub + 1)) 0))
  end.

Lemma zrange_in : forall n from x, from <= x < from + Z.of_nat n -> In x (zrange n from).
Proof.
  induction n as [|n IH]; intros from x H; simpl; [lia|].
  destruct (Z.eq_dec x from) as [->|Hne]; [left; reflexivity|right]. apply IH. lia.
Qed.

Lemma box_complete : forall ubs (s : sol),
  (forall v ub, In (v, ub) ubs -> 0 <= s v <= ub) ->
  In (map (fun vu : var * Z => (fst vu, s (fst vu))) ubs) (box ubs).
Proof.
  induction ubs as [|[v ub] t IH]; intros s H; simpl; [left; reflexivity|].
  apply in_concat. exists (map (fun al => (v, s v) :: al) (box t)). split.
  - apply in_map_iff. exists (s v). split; [reflexivity|]. apply zrange_in.
    specialize (H v ub (or_introl eq_refl)). lia.
  - apply in_map. apply IH. intros v' ub' Hin. apply H. right. assumption.
Qed.

Lemma sol_of_restrict : forall ubs (s : sol) v,
  existsb (fun vu : var * Z => var_eqb (fst vu) v) ubs = true ->
  sol_of (map (fun vu : var * Z => (fst vu, s (fst vu))) ubs) v = s v.
Proof.
  induction ubs as [|[v' ub] t IH]; intros s v H; simpl in *; [discriminate|].
  unfold sol_of. simpl. destruct (var_eqb v' v) eqn:E.
  - apply var_eqb_eq in E. subst. reflexivity.
  - simpl in H. apply (IH s v H).
Qed.

Definition best_in_box (m : list entry) (ubs : list (var * Z)) (best : Z) : bool :=
  forallb (fun al => negb (feasible m (sol_of al)) || (objective m (sol_of al) <=? best)) (box ubs).

Theorem optimal_by_enumeration : forall m ubs best,
  closed m = true -> ub_certified m ubs = true -> best_in_box m ubs best = true ->
  forall s, feasible m s = true -> objective m s <= best.
Proof.
  intros m ubs best Hc Hu Hb s Hf.
  unfold ub_certified in Hu. apply andb_true_iff in Hu. destruct Hu as [Hu1 Hu2].
  rewrite forallb_forall in Hu1.
  set (al := map (fun vu : var * Z => (fst vu, s (fst vu))) ubs).
  assert (Hag : agree m (sol_of al) s).
  { intros v Hd. unfold al. apply sol_of_restrict.
    unfold declared in Hd. apply existsb_exists in Hd. destruct Hd as (e & He & Hv).
    rewrite forallb_forall in Hu2. specialize (Hu2 e He). destruct e as [v' k w|r]; [|discriminate].
    apply var_eqb_eq in Hv. subst. assumption. }
  assert (Hin : In al (box ubs)).
  { apply box_complete. intros v ub Hvu. split.
    - specialize (Hu1 _ Hvu). (* v is declared: from ub_ok *)
      assert (Hd : declared m v = true).
      { simpl in Hu1. apply existsb_exists in Hu1. destruct Hu1 as (e & He & H).
        destruct e as [v' k w|r].
        - destruct k; [discriminate|]. apply andb_true_iff in H. destruct H as [Hv _].
          apply var_eqb_eq in Hv. subst. eapply declared_in; eassumption.
        - apply andb_true_iff in H. destruct H as [H Hex]. apply andb_true_iff in H. destruct H as [_ Hdec].
          apply existsb_exists in Hex. destruct Hex as ([v' c] & Hin' & Hx). simpl in Hx.
          apply andb_true_iff in Hx. destruct Hx as [Hx _]. apply andb_true_iff in Hx. destruct Hx as [Hv _].
          apply var_eqb_eq in Hv. subst. rewrite forallb_forall in Hdec. apply (Hdec _ Hin'). }
      apply (feasible_nonneg m s v Hf Hd).
    - apply (ub_sound m s v ub Hf (Hu1 _ Hvu)). }
  unfold best_in_box in Hb. rewrite forallb_forall in Hb. specialize (Hb al Hin).
  rewrite (feasible_agree m (sol_of al) s Hc Hag), Hf in Hb. simpl in Hb.
  rewrite (objective_agree m (sol_of al) s Hag) in Hb. lia.
Qed.
