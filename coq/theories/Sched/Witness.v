(** Concrete witnesses of the known priority-inversion classes K1..K5 (C15).  Each instance is the
    minimised trace corpus/sched/<k>.trace: the solution and the dispatch are what the REAL scheduler
    (HiGHS) produced for it; feasibility, optimality (exhaustive enumeration of the bounded box, lifted by
    [optimal_by_enumeration]), the validity of the dispatch, the inversion and its class are checked here.
    GENERATED once by tools/gen_sched_witness.py from the corpus traces; kept under version control. *)
From HQ Require Import Base.Prelude Gen.Consts Sched.Model Sched.Optimal.
Open Scope N_scope.

(** an optimal solution of the exact row system + the dispatch the real code derived from it exhibit an
    inversion of class [v] *)
Definition refutes (I : inst) (s : sol) (d : dispatch) (v : verdict) : Prop :=
  exists bs m,
    create_task_batches I = Ok bs /\ milp_of I bs = Ok m
    /\ feasible m s = true
    /\ (forall s', feasible m s' = true -> (objective m s' <= objective m s)%Z)
    /\ mapping_ok I bs s d = true
    /\ inversion I d = true
    /\ exists x, In x (inversions I d) /\ classify I bs s d x = v.

Definition mk_queues (n : nat) (tasks : list (N * N * Z)) : list queue :=
  map (fun rq => fold_left (fun q t => if snd (fst t) =? rq then queue_add q (fst (fst t)) (from_user_priority (snd t)) else q)
                           tasks empty_queue) (seqN 0 n).

Ltac prove_refutes ubs :=
  match goal with |- refutes ?I ?s ?d ?v =>
    let bs := eval vm_compute in (match create_task_batches I with Ok b => b | _ => [] end) in
    let m := eval vm_compute in (match milp_of I bs with Ok x => x | _ => [] end) in
    exists bs, m;
    split; [vm_compute; reflexivity|];
    split; [vm_compute; reflexivity|];
    split; [vm_compute; reflexivity|];
    split; [apply (optimal_by_enumeration m ubs); vm_compute; reflexivity|];
    split; [vm_compute; reflexivity|];
    split; [vm_compute; reflexivity|]
  end.

(** ** K1 (corpus/sched/k1.trace) *)
Definition k1_inst : inst :=
  {| i_nres := 1; i_now := 0;
     i_workers :=
    [{| w_id := 1; w_res := [70000]; w_free := [70000]; w_assigned := []; w_blocked := []; w_term := None |};
     {| w_id := 2; w_res := [80000]; w_free := [80000]; w_assigned := []; w_blocked := []; w_term := None |}];
     i_classes :=
    [{| rc_entries := [(0, 30000)]; rc_min_time := 0; rc_all := [] |};
     {| rc_entries := [(0, 15000)]; rc_min_time := 0; rc_all := [] |}];
     i_queues := mk_queues 2 [(8589934593, 0, (50)%Z); (4294967298, 0, (-1)%Z); (8589934595, 0, (50)%Z); (4294967300, 0, (50)%Z); (4294967301, 0, (-30)%Z); (8589934598, 1, (4)%Z); (8589934599, 1, (57)%Z); (8589934600, 1, (4)%Z); (4294967305, 1, (-30)%Z); (4294967306, 1, (57)%Z)] |}.
Definition k1_sol : sol := sol_of [(VX 1 0, 1%Z); (VX 1 1, 2%Z); (VX 2 0, 1%Z); (VX 2 1, 3%Z); (VB 1 2, 0%Z); (VB 1 4, 0%Z); (VB 0 3, 1%Z); (VB 0 4, 1%Z)].
Definition k1_dispatch : dispatch := [(4294967306, 1); (4294967300, 1); (8589934598, 1); (8589934599, 2); (8589934593, 2); (8589934600, 2); (4294967305, 2)].
Definition k1_ubs : list (var * Z) := [(VX 1 0, 2%Z); (VX 1 1, 4%Z); (VX 2 0, 2%Z); (VX 2 1, 5%Z); (VB 1 2, 1%Z); (VB 1 4, 1%Z); (VB 0 3, 1%Z); (VB 0 4, 1%Z)].
Lemma k1_refutes : refutes k1_inst k1_sol k1_dispatch VK1.
Proof.
  prove_refutes k1_ubs.
  match goal with |- exists x, In x ?l /\ _ =>
    let l' := eval vm_compute in l in
    match l' with ?x :: _ => exists x end end.
  split; vm_compute; [left|]; reflexivity.
Qed.

(** ** K2 (corpus/sched/k2.trace) *)
Definition k2_inst : inst :=
  {| i_nres := 1; i_now := 0;
     i_workers :=
    [{| w_id := 1; w_res := [50000]; w_free := [50000]; w_assigned := []; w_blocked := []; w_term := None |}];
     i_classes :=
    [{| rc_entries := [(0, 30000)]; rc_min_time := 0; rc_all := [] |};
     {| rc_entries := [(0, 20000)]; rc_min_time := 0; rc_all := [] |};
     {| rc_entries := [(0, 15000)]; rc_min_time := 0; rc_all := [] |}];
     i_queues := mk_queues 3 [(8589934593, 0, (89)%Z); (4294967298, 0, (30)%Z); (8589934595, 0, (-91)%Z); (8589934596, 1, (14)%Z); (8589934597, 1, (30)%Z); (4294967302, 2, (98)%Z); (4294967303, 2, (10)%Z); (4294967304, 2, (30)%Z)] |}.
Definition k2_sol : sol := sol_of [(VX 1 0, 0%Z); (VX 1 1, 1%Z); (VX 1 2, 2%Z); (VB 2 1, 0%Z); (VB 0 1, 1%Z); (VB 2 2, 1%Z); (VB 1 2, 1%Z)].
Definition k2_dispatch : dispatch := [(4294967302, 1); (4294967304, 1); (8589934597, 1)].
Definition k2_ubs : list (var * Z) := [(VX 1 0, 1%Z); (VX 1 1, 2%Z); (VX 1 2, 3%Z); (VB 2 1, 1%Z); (VB 0 1, 1%Z); (VB 2 2, 1%Z); (VB 1 2, 1%Z)].
Lemma k2_refutes : refutes k2_inst k2_sol k2_dispatch VK2.
Proof.
  prove_refutes k2_ubs.
  match goal with |- exists x, In x ?l /\ _ =>
    let l' := eval vm_compute in l in
    match l' with ?x :: _ => exists x end end.
  split; vm_compute; [left|]; reflexivity.
Qed.

(** ** K3 (corpus/sched/k3.trace) *)
Definition k3_inst : inst :=
  {| i_nres := 1; i_now := 0;
     i_workers :=
    [{| w_id := 1; w_res := [30000]; w_free := [30000]; w_assigned := []; w_blocked := []; w_term := None |};
     {| w_id := 2; w_res := [30000]; w_free := [30000]; w_assigned := []; w_blocked := []; w_term := None |}];
     i_classes :=
    [{| rc_entries := [(0, 20000)]; rc_min_time := 0; rc_all := [] |};
     {| rc_entries := [(0, 10000)]; rc_min_time := 0; rc_all := [] |}];
     i_queues := mk_queues 2 [(8589934593, 0, (29)%Z); (8589934594, 0, (24)%Z); (4294967299, 0, (29)%Z); (4294967300, 0, (29)%Z); (4294967301, 0, (29)%Z); (4294967302, 0, (24)%Z); (8589934599, 1, (29)%Z); (4294967304, 1, (24)%Z); (8589934601, 1, (24)%Z); (4294967306, 1, (24)%Z); (4294967307, 1, (29)%Z)] |}.
Definition k3_sol : sol := sol_of [(VX 1 0, 1%Z); (VX 1 1, 1%Z); (VX 2 0, 0%Z); (VX 2 1, 3%Z)].
Definition k3_dispatch : dispatch := [(4294967299, 1); (4294967307, 1); (8589934599, 2); (4294967304, 2); (4294967306, 2)].
Definition k3_ubs : list (var * Z) := [(VX 1 0, 1%Z); (VX 1 1, 3%Z); (VX 2 0, 1%Z); (VX 2 1, 3%Z)].
Lemma k3_refutes : refutes k3_inst k3_sol k3_dispatch VK3.
Proof.
  prove_refutes k3_ubs.
  match goal with |- exists x, In x ?l /\ _ =>
    let l' := eval vm_compute in l in
    match l' with ?x :: _ => exists x end end.
  split; vm_compute; [left|]; reflexivity.
Qed.

(** ** K4 (corpus/sched/k4.trace) *)
Definition k4_inst : inst :=
  {| i_nres := 2; i_now := 0;
     i_workers :=
    [{| w_id := 10; w_res := [70000; 40000]; w_free := [70000; 40000]; w_assigned := []; w_blocked := []; w_term := None |}];
     i_classes :=
    [{| rc_entries := [(0, 20000)]; rc_min_time := 0; rc_all := [] |};
     {| rc_entries := [(0, 10000); (1, 20000)]; rc_min_time := 0; rc_all := [] |}];
     i_queues := mk_queues 2 [(4294967297, 0, (-1)%Z); (4294967298, 0, (-29)%Z); (8589934595, 0, (2147483647)%Z); (4294967300, 0, (-74)%Z); (4294967301, 0, (-74)%Z); (8589934598, 0, (16)%Z); (8589934599, 1, (-74)%Z); (4294967304, 1, (-29)%Z); (8589934601, 1, (2147483647)%Z); (4294967306, 1, (-2147483648)%Z); (4294967307, 1, (-74)%Z)] |}.
Definition k4_sol : sol := sol_of [(VX 10 0, 2%Z); (VX 10 1, 2%Z); (VB 1 1, 1%Z); (VB 0 3, 1%Z)].
Definition k4_dispatch : dispatch := [(8589934595, 10); (8589934601, 10); (8589934598, 10); (4294967304, 10)].
Definition k4_ubs : list (var * Z) := [(VX 10 0, 3%Z); (VX 10 1, 2%Z); (VB 1 1, 1%Z); (VB 0 3, 1%Z)].
Lemma k4_refutes : refutes k4_inst k4_sol k4_dispatch VK4.
Proof.
  prove_refutes k4_ubs.
  match goal with |- exists x, In x ?l /\ _ =>
    let l' := eval vm_compute in l in
    match l' with ?x :: _ => exists x end end.
  split; vm_compute; [left|]; reflexivity.
Qed.

(** ** K5 (corpus/sched/k5.trace) *)
Definition k5_inst : inst :=
  {| i_nres := 3; i_now := 0;
     i_workers :=
    [{| w_id := 1; w_res := [70000; 0; 40000]; w_free := [50000; 0; 40000]; w_assigned := [1; 1]; w_blocked := []; w_term := None |}];
     i_classes :=
    [{| rc_entries := [(0, 30000); (2, 40000)]; rc_min_time := 0; rc_all := [] |};
     {| rc_entries := [(0, 10000)]; rc_min_time := 0; rc_all := [] |};
     {| rc_entries := [(0, 10000); (2, 10000)]; rc_min_time := 0; rc_all := [] |}];
     i_queues := mk_queues 3 [(8589934593, 0, (26)%Z); (4294967298, 1, (-74)%Z); (8589934595, 2, (-64)%Z); (8589934596, 2, (-74)%Z); (8589934597, 2, (-64)%Z); (8589934598, 2, (-64)%Z); (8589934599, 2, (100)%Z); (4294967304, 2, (-64)%Z); (4294967305, 2, (-64)%Z)] |}.
Definition k5_sol : sol := sol_of [(VX 1 0, 0%Z); (VX 1 1, 1%Z); (VX 1 2, 1%Z); (VB 2 1, 1%Z); (VB 0 1, 1%Z)].
Definition k5_dispatch : dispatch := [(8589934599, 1); (4294967298, 1)].
Definition k5_ubs : list (var * Z) := [(VX 1 0, 1%Z); (VX 1 1, 5%Z); (VX 1 2, 4%Z); (VB 2 1, 1%Z); (VB 0 1, 1%Z)].
Lemma k5_refutes : refutes k5_inst k5_sol k5_dispatch VK5.
Proof.
  prove_refutes k5_ubs.
  match goal with |- exists x, In x ?l /\ _ =>
    let l' := eval vm_compute in l in
    match l' with ?x :: _ => exists x end end.
  split; vm_compute; [left|]; reflexivity.
Qed.
