(** C15, exact class with interleaved levels: the merge loop of [create_task_batches] on TWO request
    classes.  One iteration in closed form ([merge2_step]), the entry invariant, and what the loop
    produces: final sizes / limit flags ([Fin]), every cut is the cut of one of the class' own levels
    ([cutform], soundness), cuts only grow, their sizes ascend and their number is at most the number of
    levels. *)
From HQ Require Import Base.Prelude Gen.Consts Sched.Model Sched.ProofsExact.
Require Import ZifyBool ZifyN ZifyNat.
From Coq Require Import Sorting.Sorted.
Open Scope N_scope.
Local Arguments N.add : simpl never. Local Arguments N.sub : simpl never. Local Arguments N.mul : simpl never.
Local Arguments N.eqb : simpl never. Local Arguments N.ltb : simpl never. Local Arguments N.leb : simpl never.
Local Arguments N.of_nat : simpl never. Local Arguments N.to_nat : simpl never. Local Arguments N.div : simpl never.
Local Arguments N.min : simpl never. Local Arguments N.max : simpl never.

Definition ent := (batch * list (N * N))%type.

(** the other class counts as "higher" once it holds tasks or hit its limit *)
Definition hi (b : batch) : bool := (0 <? b_size b) || b_lr b.
Definition blocker_of (b : batch) : N * option N := (b_rq b, if b_lr b then None else Some (b_size b)).
Definition cut_now (eZ eO : ent) : cut :=
  {| c_size := b_size (fst eZ); c_blockers := [blocker_of (fst eO)] |}.
Definition with_cut (eZ eO : ent) : ent :=
  if hi (fst eO) then (push_cut (fst eZ) (cut_now eZ eO), snd eZ) else eZ.
Definition with_blk (eO : ent) : ent := if hi (fst eO) then (set_blk (fst eO), snd eO) else eO.

Lemma add_cut_0 : forall eA eB : ent, add_cut [eA; eB] 0 = [with_cut eA eB; with_blk eB].
Proof.
  intros [bA rA] [bB rB]. unfold add_cut, with_cut, with_blk, higher_priorities, hi, cut_now, blocker_of.
  cbn [mapi_from concat fst snd is_higher Nat.eqb negb andb nth_error app].
  destruct ((0 <? b_size bB) || b_lr bB); cbn [app map_at fst snd]; reflexivity.
Qed.

Lemma add_cut_1 : forall eA eB : ent, add_cut [eA; eB] 1 = [with_blk eA; with_cut eB eA].
Proof.
  intros [bA rA] [bB rB]. unfold add_cut, with_cut, with_blk, higher_priorities, hi, cut_now, blocker_of.
  cbn [mapi_from concat fst snd is_higher Nat.eqb negb andb nth_error app].
  destruct ((0 <? b_size bA) || b_lr bA); cbn [app map_at fst snd]; reflexivity.
Qed.

(** ** projections *)
Lemma with_cut_size : forall e o, b_size (fst (with_cut e o)) = b_size (fst e).
Proof. intros e o. unfold with_cut. destruct (hi (fst o)); reflexivity. Qed.
Lemma with_cut_lr : forall e o, b_lr (fst (with_cut e o)) = b_lr (fst e).
Proof. intros e o. unfold with_cut. destruct (hi (fst o)); reflexivity. Qed.
Lemma with_cut_limit : forall e o, b_limit (fst (with_cut e o)) = b_limit (fst e).
Proof. intros e o. unfold with_cut. destruct (hi (fst o)); reflexivity. Qed.
Lemma with_cut_rq : forall e o, b_rq (fst (with_cut e o)) = b_rq (fst e).
Proof. intros e o. unfold with_cut. destruct (hi (fst o)); reflexivity. Qed.
Lemma with_cut_rem : forall e o, snd (with_cut e o) = snd e.
Proof. intros e o. unfold with_cut. destruct (hi (fst o)); reflexivity. Qed.
Lemma with_cut_cuts : forall e o, b_cuts (fst (with_cut e o)) = b_cuts (fst e) ++ (if hi (fst o) then [cut_now e o] else []).
Proof. intros e o. unfold with_cut. destruct (hi (fst o)); cbn [fst push_cut b_cuts]; [reflexivity|]. rewrite app_nil_r. reflexivity. Qed.

Lemma with_blk_size : forall e, b_size (fst (with_blk e)) = b_size (fst e).
Proof. intros e. unfold with_blk. destruct (hi (fst e)); reflexivity. Qed.
Lemma with_blk_lr : forall e, b_lr (fst (with_blk e)) = b_lr (fst e).
Proof. intros e. unfold with_blk. destruct (hi (fst e)); reflexivity. Qed.
Lemma with_blk_limit : forall e, b_limit (fst (with_blk e)) = b_limit (fst e).
Proof. intros e. unfold with_blk. destruct (hi (fst e)); reflexivity. Qed.
Lemma with_blk_rq : forall e, b_rq (fst (with_blk e)) = b_rq (fst e).
Proof. intros e. unfold with_blk. destruct (hi (fst e)); reflexivity. Qed.
Lemma with_blk_rem : forall e, snd (with_blk e) = snd e.
Proof. intros e. unfold with_blk. destruct (hi (fst e)); reflexivity. Qed.
Lemma with_blk_cuts : forall e, b_cuts (fst (with_blk e)) = b_cuts (fst e).
Proof. intros e. unfold with_blk. destruct (hi (fst e)); reflexivity. Qed.

Lemma with_blk_hi : forall e, hi (fst (with_blk e)) = hi (fst e).
Proof. intros e. unfold hi. rewrite with_blk_size, with_blk_lr. reflexivity. Qed.
Lemma with_cut_hi : forall e o, hi (fst (with_cut e o)) = hi (fst e).
Proof. intros e o. unfold hi. rewrite with_cut_size, with_cut_lr. reflexivity. Qed.
Lemma with_blk_blocker : forall e, blocker_of (fst (with_blk e)) = blocker_of (fst e).
Proof. intros e. unfold blocker_of. rewrite with_blk_size, with_blk_lr, with_blk_rq. reflexivity. Qed.
Lemma with_cut_blocker : forall e o, blocker_of (fst (with_cut e o)) = blocker_of (fst e).
Proof. intros e o. unfold blocker_of. rewrite with_cut_size, with_cut_lr, with_cut_rq. reflexivity. Qed.

(** [advance_one] on a non-empty entry *)
Definition adv_hit (e : ent) (sz : N) : bool := b_limit (fst e) <? b_size (fst e) + sz.

Lemma advance_cons : forall b p sz t,
  advance_one (b, (p, sz) :: t) =
  if b_limit b <? b_size b + sz then (set_size b (b_limit b) true, []) else (set_size b (b_size b + sz) (b_lr b), t).
Proof. reflexivity. Qed.

Lemma advance_rq : forall e, b_rq (fst (advance_one e)) = b_rq (fst e).
Proof. intros [b [|[p sz] t]]; [reflexivity|]. rewrite advance_cons. destruct (_ <? _); reflexivity. Qed.
Lemma advance_limit : forall e, b_limit (fst (advance_one e)) = b_limit (fst e).
Proof. intros [b [|[p sz] t]]; [reflexivity|]. rewrite advance_cons. destruct (_ <? _); reflexivity. Qed.
Lemma advance_cuts : forall e, b_cuts (fst (advance_one e)) = b_cuts (fst e).
Proof. intros [b [|[p sz] t]]; [reflexivity|]. rewrite advance_cons. destruct (_ <? _); reflexivity. Qed.

(** ** one iteration on two entries *)
Definition stepA (f : nat) (eA eB : ent) (u : option nat) : bstate :=
  if (match u with Some u0 => Nat.eqb u0 0 | None => false end)
  then merge_loop f [advance_one eA; eB] u
  else merge_loop f [advance_one (with_cut eA eB); with_blk eB] (Some 0%nat).
Definition stepB (f : nat) (eA eB : ent) (u : option nat) : bstate :=
  if (match u with Some u0 => Nat.eqb u0 1 | None => false end)
  then merge_loop f [eA; advance_one eB] u
  else merge_loop f [with_blk eA; advance_one (with_cut eB eA)] (Some 1%nat).
Definition stepT (f : nat) (eA eB : ent) : bstate :=
  merge_loop f [advance_one (with_blk (with_cut eA eB)); advance_one (with_cut (with_blk eB) (with_cut eA eB))] None.

Lemma merge2_step : forall f (eA eB : ent) u,
  merge_loop (S f) [eA; eB] u =
  match head_prio eA, head_prio eB with
  | None, None => [eA; eB]
  | Some _, None => stepA f eA eB u
  | None, Some _ => stepB f eA eB u
  | Some pa, Some pb => if pb <? pa then stepA f eA eB u else if pa <? pb then stepB f eA eB u else stepT f eA eB
  end.
Proof.
  intros f eA eB u. rewrite merge_loop_S. unfold highest_prio. cbn [fold_right found_from].
  destruct (head_prio eA) as [pa|] eqn:EA; destruct (head_prio eB) as [pb|] eqn:EB.
  - destruct (N.ltb_spec pb pa) as [H1|H1]; [|destruct (N.ltb_spec pa pb) as [H2|H2]].
    + replace (N.max pa (N.max pb 0)) with pa by lia. rewrite N.eqb_refl.
      destruct (N.eqb_spec pb pa); [lia|]. unfold stepA. rewrite add_cut_0. reflexivity.
    + replace (N.max pa (N.max pb 0)) with pb by lia. rewrite N.eqb_refl.
      destruct (N.eqb_spec pa pb); [lia|]. unfold stepB. rewrite add_cut_1. reflexivity.
    + assert (pa = pb) by lia. subst pb. replace (N.max pa (N.max pa 0)) with pa by lia. rewrite N.eqb_refl.
      unfold stepT. cbn [fold_left]. rewrite add_cut_0, add_cut_1. reflexivity.
  - replace (N.max pa 0) with pa by lia. rewrite N.eqb_refl. unfold stepA. rewrite add_cut_0. reflexivity.
  - replace (N.max pb 0) with pb by lia. rewrite N.eqb_refl. unfold stepB. rewrite add_cut_1. reflexivity.
  - reflexivity.
Qed.

(** ** sums over the remaining levels *)
Fixpoint sum_gt (pi : N) (rem : list (N * N)) : N :=
  match rem with [] => 0 | e :: t => (if pi <? fst e then snd e else 0) + sum_gt pi t end.
Fixpoint sum_ge (pi : N) (rem : list (N * N)) : N :=
  match rem with [] => 0 | e :: t => (if pi <=? fst e then snd e else 0) + sum_ge pi t end.
Fixpoint sum_all (rem : list (N * N)) : N :=
  match rem with [] => 0 | e :: t => snd e + sum_all t end.

Definition Tgt (e : ent) (pi : N) : N := b_size (fst e) + sum_gt pi (snd e).
Definition Tge (e : ent) (pi : N) : N := b_size (fst e) + sum_ge pi (snd e).
Definition Ttot (e : ent) : N := b_size (fst e) + sum_all (snd e).
Definition lr_gt (e : ent) (pi : N) : bool := b_lr (fst e) || (b_limit (fst e) <? Tgt e pi).
Definition lr_tot (e : ent) : bool := b_lr (fst e) || (b_limit (fst e) <? Ttot e).

(** the cut of class [eZ] made when its level of priority [pi] is reached *)
Definition cutform (eZ eO : ent) (pi : N) : cut :=
  {| c_size := Tgt eZ pi;
     c_blockers := [(b_rq (fst eO), if lr_gt eO pi then None else Some (Tgt eO pi))] |}.

Definition desc (rem : list (N * N)) : Prop := StronglySorted (fun a b => fst b < fst a) rem.
Definition prios (e : ent) : list N := map fst (snd e).

Record Einv (e : ent) : Prop := {
  ei_desc : desc (snd e);
  ei_pos : Forall (fun l => 0 < snd l) (snd e);
  ei_lr : b_lr (fst e) = true -> snd e = [];
  ei_size : b_lr (fst e) = false -> b_size (fst e) <= b_limit (fst e)
}.

Lemma sum_gt_zero : forall pi rem, Forall (fun l => fst l <= pi) rem -> sum_gt pi rem = 0.
Proof.
  intros pi rem H. induction H as [|l t Hl Ht IH]; [reflexivity|]. cbn [sum_gt]. rewrite IH.
  destruct (N.ltb_spec pi (fst l)); lia.
Qed.
Lemma sum_ge_zero : forall pi rem, Forall (fun l => fst l < pi) rem -> sum_ge pi rem = 0.
Proof.
  intros pi rem H. induction H as [|l t Hl Ht IH]; [reflexivity|]. cbn [sum_ge]. rewrite IH.
  destruct (N.leb_spec pi (fst l)); lia.
Qed.
Lemma sum_gt_all : forall pi rem, Forall (fun l => pi < fst l) rem -> sum_gt pi rem = sum_all rem.
Proof.
  intros pi rem H. induction H as [|l t Hl Ht IH]; [reflexivity|]. cbn [sum_gt sum_all]. rewrite IH.
  destruct (N.ltb_spec pi (fst l)); lia.
Qed.
Lemma sum_gt_le_all : forall pi rem, sum_gt pi rem <= sum_all rem.
Proof. intros pi rem. induction rem as [|l t IH]; cbn [sum_gt sum_all]; [lia|]. destruct (pi <? fst l); lia. Qed.
Lemma sum_ge_le_all : forall pi rem, sum_ge pi rem <= sum_all rem.
Proof. intros pi rem. induction rem as [|l t IH]; cbn [sum_ge sum_all]; [lia|]. destruct (pi <=? fst l); lia. Qed.
Lemma sum_gt_le_ge : forall pi rem, sum_gt pi rem <= sum_ge pi rem.
Proof.
  intros pi rem. induction rem as [|l t IH]; cbn [sum_gt sum_ge]; [lia|].
  destruct (N.ltb_spec pi (fst l)); destruct (N.leb_spec pi (fst l)); lia.
Qed.
(** levels above [q] include the levels from [p] on when [q < p] *)
Lemma sum_ge_le_gt : forall p q rem, q < p -> sum_ge p rem <= sum_gt q rem.
Proof.
  intros p q rem Hq. induction rem as [|l t IH]; cbn [sum_gt sum_ge]; [lia|].
  destruct (N.ltb_spec q (fst l)); destruct (N.leb_spec p (fst l)); lia.
Qed.
Lemma sum_gt_mono : forall p q rem, q <= p -> sum_gt p rem <= sum_gt q rem.
Proof.
  intros p q rem Hq. induction rem as [|l t IH]; cbn [sum_gt]; [lia|].
  destruct (N.ltb_spec q (fst l)); destruct (N.ltb_spec p (fst l)); lia.
Qed.

Lemma desc_tail : forall l t, desc (l :: t) -> desc t /\ Forall (fun x => fst x < fst l) t.
Proof. intros l t H. inversion H; subst. split; assumption. Qed.

Lemma desc_le_head : forall l t, desc (l :: t) -> Forall (fun x => fst x <= fst l) (l :: t).
Proof.
  intros l t H. destruct (desc_tail l t H) as [_ Hf]. constructor; [lia|].
  eapply Forall_impl; [|exact Hf]. cbv beta. intros; lia.
Qed.

(** ** [advance_one] and the sums *)
Lemma Einv_advance : forall e, Einv e -> Einv (advance_one e).
Proof.
  intros [b [|[p sz] t]] H; [exact H|]. rewrite advance_cons.
  destruct H as [Hd Hp Hl Hs]. cbn [fst snd] in *.
  assert (Hlr : b_lr b = false) by (destruct (b_lr b); [specialize (Hl eq_refl); discriminate|reflexivity]).
  destruct (N.ltb_spec (b_limit b) (b_size b + sz)).
  - split; cbn [fst snd set_size b_lr b_size b_limit]; try constructor; intros; try discriminate; reflexivity.
  - split; cbn [fst snd set_size b_lr b_size b_limit].
    + apply (desc_tail _ _ Hd).
    + inversion Hp; assumption.
    + rewrite Hlr. discriminate.
    + intros _. assumption.
Qed.

Lemma Einv_num : forall e e', Einv e -> b_size (fst e') = b_size (fst e) -> b_lr (fst e') = b_lr (fst e) ->
  b_limit (fst e') = b_limit (fst e) -> snd e' = snd e -> Einv e'.
Proof. intros e e' [Hd Hp Hl Hs] E1 E2 E3 E4. split; rewrite ?E1, ?E2, ?E3, ?E4; assumption. Qed.

Lemma Einv_with_cut : forall e o, Einv e -> Einv (with_cut e o).
Proof. intros e o H. eapply Einv_num; [exact H|apply with_cut_size|apply with_cut_lr|apply with_cut_limit|apply with_cut_rem]. Qed.
Lemma Einv_with_blk : forall e, Einv e -> Einv (with_blk e).
Proof. intros e H. eapply Einv_num; [exact H|apply with_blk_size|apply with_blk_lr|apply with_blk_limit|apply with_blk_rem]. Qed.

Lemma Einv_lr_false : forall b l t, Einv (b, l :: t) -> b_lr b = false.
Proof. intros b l t H. destruct (b_lr b) eqn:E; [|reflexivity]. pose proof (ei_lr _ H E) as H0. discriminate. Qed.

(** after consuming the head (priority [p]) nothing changes below [p] - unless the limit was hit, and
    then the class counts as unbounded before and after *)
Lemma advance_below : forall b p sz t pi, Einv (b, (p, sz) :: t) -> pi < p ->
  lr_gt (advance_one (b, (p, sz) :: t)) pi = lr_gt (b, (p, sz) :: t) pi
  /\ (lr_gt (b, (p, sz) :: t) pi = false -> Tgt (advance_one (b, (p, sz) :: t)) pi = Tgt (b, (p, sz) :: t) pi).
Proof.
  intros b p sz t pi H Hpi. pose proof (Einv_lr_false _ _ _ H) as Hlr. rewrite advance_cons.
  unfold lr_gt, Tgt. cbn [fst snd sum_gt]. destruct (N.ltb_spec pi p) as [_|]; [|lia]. rewrite Hlr.
  destruct (N.ltb_spec (b_limit b) (b_size b + sz)) as [Hhit|Hno]; cbn [fst snd set_size b_lr b_size b_limit sum_gt].
  - split.
    + cbn [orb]. symmetry. apply N.ltb_lt. lia.
    + cbn [orb]. intros E. apply N.ltb_ge in E. lia.
  - rewrite ?Hlr. cbn [orb]. split; [f_equal; lia|intros _; lia].
Qed.

Lemma advance_tot : forall b p sz t, Einv (b, (p, sz) :: t) ->
  lr_tot (advance_one (b, (p, sz) :: t)) = lr_tot (b, (p, sz) :: t)
  /\ (lr_tot (b, (p, sz) :: t) = false -> Ttot (advance_one (b, (p, sz) :: t)) = Ttot (b, (p, sz) :: t))
  /\ (b_lr (fst (advance_one (b, (p, sz) :: t))) = true -> b_size (fst (advance_one (b, (p, sz) :: t))) = b_limit b)
  /\ b_size b <= b_size (fst (advance_one (b, (p, sz) :: t))).
Proof.
  intros b p sz t H. pose proof (Einv_lr_false _ _ _ H) as Hlr. pose proof (ei_size _ H Hlr) as Hsz. cbn [fst] in Hsz.
  rewrite advance_cons. unfold lr_tot, Ttot. cbn [fst snd sum_all]. rewrite Hlr.
  destruct (N.ltb_spec (b_limit b) (b_size b + sz)) as [Hhit|Hno]; cbn [fst snd set_size b_lr b_size b_limit sum_all].
  - cbn [orb]. split; [symmetry; apply N.ltb_lt; lia|]. split; [intros E; apply N.ltb_ge in E; lia|]. split; [reflexivity|lia].
  - rewrite ?Hlr. cbn [orb]. split; [f_equal; lia|]. split; [intros _; lia|]. split; [discriminate|lia].
Qed.

(** ** entries that differ in cuts / blocked flag only *)
Definition numeq (e e' : ent) : Prop :=
  b_size (fst e') = b_size (fst e) /\ b_lr (fst e') = b_lr (fst e) /\ b_limit (fst e') = b_limit (fst e)
  /\ b_rq (fst e') = b_rq (fst e) /\ snd e' = snd e.

Lemma numeq_refl : forall e, numeq e e.
Proof. intros e. repeat split. Qed.
Lemma numeq_with_cut : forall e o, numeq e (with_cut e o).
Proof. intros e o. repeat split; [apply with_cut_size|apply with_cut_lr|apply with_cut_limit|apply with_cut_rq|apply with_cut_rem]. Qed.
Lemma numeq_with_blk : forall e, numeq e (with_blk e).
Proof. intros e. repeat split; [apply with_blk_size|apply with_blk_lr|apply with_blk_limit|apply with_blk_rq|apply with_blk_rem]. Qed.
Lemma numeq_trans : forall a b c, numeq a b -> numeq b c -> numeq a c.
Proof. intros a b c (A1 & A2 & A3 & A4 & A5) (B1 & B2 & B3 & B4 & B5). repeat split; congruence. Qed.

Lemma numeq_Tgt : forall e e' pi, numeq e e' -> Tgt e' pi = Tgt e pi.
Proof. intros e e' pi (A1 & A2 & A3 & A4 & A5). unfold Tgt. rewrite A1, A5. reflexivity. Qed.
Lemma numeq_Tge : forall e e' pi, numeq e e' -> Tge e' pi = Tge e pi.
Proof. intros e e' pi (A1 & A2 & A3 & A4 & A5). unfold Tge. rewrite A1, A5. reflexivity. Qed.
Lemma numeq_Ttot : forall e e', numeq e e' -> Ttot e' = Ttot e.
Proof. intros e e' (A1 & A2 & A3 & A4 & A5). unfold Ttot. rewrite A1, A5. reflexivity. Qed.
Lemma numeq_lr_gt : forall e e' pi, numeq e e' -> lr_gt e' pi = lr_gt e pi.
Proof. intros e e' pi H. pose proof (numeq_Tgt e e' pi H) as HT. destruct H as (A1 & A2 & A3 & A4 & A5). unfold lr_gt. rewrite A2, A3, HT. reflexivity. Qed.
Lemma numeq_lr_tot : forall e e', numeq e e' -> lr_tot e' = lr_tot e.
Proof. intros e e' H. pose proof (numeq_Ttot e e' H) as HT. destruct H as (A1 & A2 & A3 & A4 & A5). unfold lr_tot. rewrite A2, A3, HT. reflexivity. Qed.
Lemma numeq_prios : forall e e', numeq e e' -> prios e' = prios e.
Proof. intros e e' (A1 & A2 & A3 & A4 & A5). unfold prios. rewrite A5. reflexivity. Qed.
Lemma numeq_Einv : forall e e', numeq e e' -> Einv e -> Einv e'.
Proof. intros e e' (A1 & A2 & A3 & A4 & A5) H. eapply Einv_num; eassumption. Qed.
Lemma numeq_hi : forall e e', numeq e e' -> hi (fst e') = hi (fst e).
Proof. intros e e' (A1 & A2 & A3 & A4 & A5). unfold hi. rewrite A1, A2. reflexivity. Qed.
Lemma numeq_blocker : forall e e', numeq e e' -> blocker_of (fst e') = blocker_of (fst e).
Proof. intros e e' (A1 & A2 & A3 & A4 & A5). unfold blocker_of. rewrite A1, A2, A4. reflexivity. Qed.

Lemma cutform_eq : forall e o e1 o1 pi,
  Tgt e1 pi = Tgt e pi -> b_rq (fst o1) = b_rq (fst o) -> lr_gt o1 pi = lr_gt o pi ->
  (lr_gt o pi = false -> Tgt o1 pi = Tgt o pi) -> cutform e1 o1 pi = cutform e o pi.
Proof.
  intros e o e1 o1 pi H1 H2 H3 H4. unfold cutform. rewrite H1, H2, H3.
  destruct (lr_gt o pi); [reflexivity|]. rewrite (H4 eq_refl). reflexivity.
Qed.

Lemma cutform_numeq : forall e o e1 o1 pi, numeq e e1 -> numeq o o1 -> cutform e1 o1 pi = cutform e o pi.
Proof.
  intros e o e1 o1 pi He Ho. apply cutform_eq.
  - apply numeq_Tgt; assumption.
  - apply Ho.
  - apply numeq_lr_gt; assumption.
  - intros _. apply numeq_Tgt; assumption.
Qed.

(** the cut made now is the cut of the head level *)
Lemma cut_now_form : forall e o p, Einv o ->
  Forall (fun l => fst l <= p) (snd e) -> Forall (fun l => fst l <= p) (snd o) ->
  cut_now e o = cutform e o p.
Proof.
  intros e o p Ho He Hoo. unfold cut_now, cutform, blocker_of, lr_gt, Tgt.
  rewrite (sum_gt_zero _ _ He), (sum_gt_zero _ _ Hoo). rewrite !N.add_0_r.
  destruct (b_lr (fst o)) eqn:E; cbn [orb]; [reflexivity|].
  pose proof (ei_size _ Ho E). destruct (N.ltb_spec (b_limit (fst o)) (b_size (fst o))); [lia|reflexivity].
Qed.

(** a decorated copy of [e] is consumed: what holds for the other class below the head ... *)
Lemma adv_other : forall e ed p sz t pi, numeq e ed -> Einv e -> snd e = (p, sz) :: t -> pi < p ->
  b_rq (fst (advance_one ed)) = b_rq (fst e)
  /\ lr_gt (advance_one ed) pi = lr_gt e pi
  /\ (lr_gt e pi = false -> Tgt (advance_one ed) pi = Tgt e pi).
Proof.
  intros e [bd rd] p sz t pi Hn He Hs Hpi. pose proof (numeq_Einv _ _ Hn He) as Hed.
  assert (Hrd : rd = (p, sz) :: t) by (destruct Hn as (_ & _ & _ & _ & A5); cbn [snd] in A5; congruence). subst rd.
  destruct (advance_below bd p sz t pi Hed Hpi) as [H1 H2].
  split; [rewrite advance_rq; apply Hn|]. split.
  - rewrite H1. apply numeq_lr_gt. assumption.
  - intros E. rewrite H2; [apply numeq_Tgt; assumption|]. rewrite (numeq_lr_gt _ _ pi Hn). assumption.
Qed.

(** ... and for the class itself on its remaining levels *)
Lemma adv_self : forall e ed p sz t pi, numeq e ed -> Einv e -> snd e = (p, sz) :: t ->
  In pi (prios (advance_one ed)) ->
  pi < p /\ In pi (map fst t) /\ Tgt (advance_one ed) pi = Tgt e pi /\ snd (advance_one ed) = t.
Proof.
  intros e [bd rd] p sz t pi Hn He Hs Hin. pose proof (numeq_Einv _ _ Hn He) as Hed.
  assert (Hrd : rd = (p, sz) :: t) by (destruct Hn as (_ & _ & _ & _ & A5); cbn [snd] in A5; congruence). subst rd.
  pose proof (Einv_lr_false _ _ _ Hed) as Hlr.
  unfold prios in Hin. rewrite advance_cons in Hin |- *.
  destruct (N.ltb_spec (b_limit bd) (b_size bd + sz)) as [Hhit|Hno]; cbn [snd map] in Hin; [contradiction|].
  destruct (desc_tail _ _ (ei_desc _ Hed)) as [_ Hlt]. cbn [fst] in Hlt.
  assert (Hpi : pi < p).
  { apply in_map_iff in Hin. destruct Hin as (l & <- & Hl). rewrite Forall_forall in Hlt. apply (Hlt l Hl). }
  split; [assumption|]. split; [assumption|]. split; [|reflexivity].
  rewrite <- (numeq_Tgt _ _ pi Hn). unfold Tgt. cbn [fst snd set_size b_size sum_gt].
  destruct (N.ltb_spec pi p); lia.
Qed.

Definition le_size (c c' : cut) : Prop := c_size c <= c_size c'.

(** what the loop makes of entry [e] next to [o] *)
Record PostZ (e o e' : ent) : Prop := {
  pz_rem : snd e' = [];
  pz_rq : b_rq (fst e') = b_rq (fst e);
  pz_limit : b_limit (fst e') = b_limit (fst e);
  pz_lr : b_lr (fst e') = lr_tot e;
  pz_size_tot : lr_tot e = false -> b_size (fst e') = Ttot e;
  pz_size_lim : b_lr (fst e) = false -> lr_tot e = true -> b_size (fst e') = b_limit (fst e);
  pz_size_keep : b_lr (fst e) = true -> b_size (fst e') = b_size (fst e);
  pz_cuts : exists l, b_cuts (fst e') = b_cuts (fst e) ++ l /\ (length l <= length (snd e))%nat
            /\ Forall (fun c => b_size (fst e) <= c_size c) l /\ StronglySorted le_size l
            /\ forall c, In c l -> exists pi, In pi (prios e) /\ c = cutform e o pi
}.

Lemma PostZ_done : forall e o, Einv e -> snd e = [] -> PostZ e o e.
Proof.
  intros e o He Hs.
  assert (Hlt : lr_tot e = b_lr (fst e)).
  { unfold lr_tot, Ttot. rewrite Hs. cbn [sum_all]. destruct (b_lr (fst e)) eqn:E; [reflexivity|].
    pose proof (ei_size _ He E). cbn [orb]. apply N.ltb_ge. lia. }
  split; try reflexivity; try assumption.
  - symmetry. assumption.
  - intros _. unfold Ttot. rewrite Hs. cbn [sum_all]. lia.
  - intros E1 E2. congruence.
  - exists []. rewrite app_nil_r. repeat split; try constructor. cbn. lia. intros c [].
Qed.

(** the entry is not consumed in this iteration *)
Lemma PostZ_keep : forall e o e1 o1 e', numeq e e1 -> b_cuts (fst e1) = b_cuts (fst e) ->
  (forall pi, In pi (prios e) -> cutform e1 o1 pi = cutform e o pi) ->
  PostZ e1 o1 e' -> PostZ e o e'.
Proof.
  intros e o e1 o1 e' Hn Hc Hcf [P1 P2 P3 P4 P5 P6 P7 (l & L1 & L2 & L3 & L4 & L5)].
  pose proof Hn as (A1 & A2 & A3 & A4 & A5).
  rewrite (numeq_lr_tot _ _ Hn) in *. rewrite (numeq_Ttot _ _ Hn) in *. rewrite A1, A2, A3, A4, A5, Hc in *.
  split; try assumption.
  exists l. repeat split; try assumption.
  intros c Hin. destruct (L5 c Hin) as (pi & Hpi & ->). rewrite (numeq_prios _ _ Hn) in Hpi.
  exists pi. split; [assumption|]. apply Hcf. assumption.
Qed.

(** the entry (decorated as [ed], with or without a new cut) is consumed *)
Lemma PostZ_adv : forall e o ed o1 e' p sz t lc,
  Einv e -> snd e = (p, sz) :: t -> numeq e ed ->
  b_cuts (fst ed) = b_cuts (fst e) ++ lc -> (lc = [] \/ lc = [cutform e o p]) ->
  (forall pi, In pi (prios (advance_one ed)) -> pi < p -> cutform (advance_one ed) o1 pi = cutform e o pi) ->
  PostZ (advance_one ed) o1 e' -> PostZ e o e'.
Proof.
  intros e o [bd rd] o1 e' p sz t lc He Hs Hn Hc Hlc Hcf [P1 P2 P3 P4 P5 P6 P7 (l & L1 & L2 & L3 & L4 & L5)].
  pose proof (numeq_Einv _ _ Hn He) as Hed.
  pose proof Hn as (A1 & A2 & A3 & A4 & A5). cbn [fst snd] in A1, A2, A3, A4, A5.
  rewrite Hs in A5. subst rd.
  destruct (advance_tot bd p sz t Hed) as (T1 & T2 & T3 & T4).
  pose proof (numeq_lr_tot _ _ Hn) as Elr. pose proof (numeq_Ttot _ _ Hn) as Etot.
  pose proof (Einv_lr_false _ _ _ Hed) as Hlrd.
  assert (Hlre : b_lr (fst e) = false) by congruence.
  rewrite advance_rq in P2. rewrite advance_limit in P3. rewrite advance_cuts in L1. cbn [fst] in P2, P3, L1.
  split.
  - assumption.
  - congruence.
  - congruence.
  - rewrite P4, T1. assumption.
  - intros E. rewrite <- Elr in E. rewrite P5 by congruence. rewrite T2 by assumption. assumption.
  - intros _ E. rewrite <- Elr in E. rewrite <- T1 in E.
    destruct (b_lr (fst (advance_one (bd, (p, sz) :: t)))) eqn:Eb.
    + rewrite (P7 eq_refl). rewrite (T3 eq_refl). exact A3.
    + rewrite (P6 eq_refl E). rewrite advance_limit. exact A3.
  - intros E. congruence.
  - exists (lc ++ l). cbn [fst] in Hc. rewrite L1, Hc, app_assoc. split; [reflexivity|].
    assert (Hlen : (length (snd (advance_one (bd, (p, sz) :: t))) <= length t)%nat).
    { rewrite advance_cons. destruct (_ <? _); cbn [snd length]; lia. }
    assert (Hsz : forall pi, Tgt e pi >= b_size (fst e)) by (intros; unfold Tgt; lia).
    assert (Hcp : c_size (cutform e o p) = b_size (fst e)).
    { unfold cutform, Tgt. cbn [c_size]. rewrite (sum_gt_zero p (snd e)); [lia|].
      rewrite Hs. apply (desc_le_head (p, sz) t). rewrite <- Hs. apply (ei_desc _ He). }
    assert (L3' : Forall (fun c => b_size (fst e) <= c_size c) l).
    { eapply Forall_impl; [|exact L3]. cbv beta. intros c Hcz. lia. }
    split; [|split; [|split]].
    + rewrite app_length, Hs. cbn [length]. destruct Hlc as [->| ->]; cbn [length]; lia.
    + apply Forall_app. split; [|assumption].
      destruct Hlc as [->| ->]; constructor; [lia|constructor].
    + destruct Hlc as [->| ->]; cbn [app]; [assumption|]. constructor; [assumption|].
      eapply Forall_impl; [|exact L3']. cbv beta. intros c Hcz. unfold le_size. lia.
    + intros c Hin. apply in_app_or in Hin. destruct Hin as [Hin|Hin].
      * destruct Hlc as [->| ->]; [contradiction|]. destruct Hin as [<-|[]].
        exists p. split; [|reflexivity]. unfold prios. rewrite Hs. left. reflexivity.
      * destruct (L5 c Hin) as (pi & Hpi & ->).
        destruct (adv_self e (bd, (p, sz) :: t) p sz t pi Hn He Hs Hpi) as (Q1 & Q2 & Q3 & Q4).
        exists pi. split; [unfold prios; rewrite Hs; right; assumption|]. apply Hcf; assumption.
Qed.

(** the other class as seen from below priority [p]: unchanged *)
Definition other_ok (o o1 : ent) (p : N) : Prop :=
  b_rq (fst o1) = b_rq (fst o)
  /\ forall pi, pi < p -> lr_gt o1 pi = lr_gt o pi /\ (lr_gt o pi = false -> Tgt o1 pi = Tgt o pi).

Lemma other_ok_numeq : forall o o1 p, numeq o o1 -> other_ok o o1 p.
Proof.
  intros o o1 p H. split; [apply H|]. intros pi _. split; [apply numeq_lr_gt; assumption|intros _; apply numeq_Tgt; assumption].
Qed.

Lemma other_ok_adv : forall o od p p' sz t, numeq o od -> Einv o -> snd o = (p', sz) :: t -> p <= p' ->
  other_ok o (advance_one od) p.
Proof.
  intros o od p p' sz t Hn Ho Hs Hp. split.
  - rewrite advance_rq. apply Hn.
  - intros pi Hpi. destruct (adv_other o od p' sz t pi Hn Ho Hs ltac:(lia)) as (_ & H2 & H3). split; assumption.
Qed.

Lemma post_consumed : forall e o ed o1 e' p sz t lc,
  Einv e -> snd e = (p, sz) :: t -> numeq e ed ->
  b_cuts (fst ed) = b_cuts (fst e) ++ lc -> (lc = [] \/ lc = [cutform e o p]) ->
  other_ok o o1 p -> PostZ (advance_one ed) o1 e' -> PostZ e o e'.
Proof.
  intros e o ed o1 e' p sz t lc He Hs Hn Hc Hlc [Hrq Hok] HP.
  eapply PostZ_adv; try eassumption.
  intros pi Hin Hpi. destruct (adv_self e ed p sz t pi Hn He Hs Hin) as (_ & _ & Q3 & _).
  destruct (Hok pi Hpi) as [K1 K2]. apply cutform_eq; assumption.
Qed.

Lemma post_kept : forall e o e1 o1 e' p,
  numeq e e1 -> b_cuts (fst e1) = b_cuts (fst e) -> Forall (fun l => fst l < p) (snd e) ->
  other_ok o o1 p -> PostZ e1 o1 e' -> PostZ e o e'.
Proof.
  intros e o e1 o1 e' p Hn Hc Hlt [Hrq Hok] HP. eapply PostZ_keep; try eassumption.
  intros pi Hin. unfold prios in Hin. apply in_map_iff in Hin. destruct Hin as (l & <- & Hl).
  rewrite Forall_forall in Hlt. destruct (Hok (fst l) (Hlt l Hl)) as [K1 K2].
  apply cutform_eq; try assumption. apply numeq_Tgt. assumption.
Qed.

Lemma cut_now_numeq : forall e o e1 o1, numeq e e1 -> numeq o o1 -> cut_now e1 o1 = cut_now e o.
Proof.
  intros e o e1 o1 He Ho. unfold cut_now. rewrite (numeq_blocker _ _ Ho). destruct He as (A1 & _). rewrite A1. reflexivity.
Qed.

Lemma adv_len : forall e, (length (snd (advance_one e)) <= pred (length (snd e)))%nat.
Proof. intros [b [|[p sz] t]]; [cbn; lia|]. rewrite advance_cons. destruct (_ <? _); cbn [snd length]; lia. Qed.

Lemma lt_le_all : forall (rem : list (N * N)) p, Forall (fun l => fst l < p) rem -> Forall (fun l => fst l <= p) rem.
Proof. intros rem p H. eapply Forall_impl; [|exact H]. cbv beta. intros; lia. Qed.

(** the cuts of a decorated entry *)
Lemma with_cut_lc : forall e o p, Einv o ->
  Forall (fun l => fst l <= p) (snd e) -> Forall (fun l => fst l <= p) (snd o) ->
  exists lc, b_cuts (fst (with_cut e o)) = b_cuts (fst e) ++ lc /\ (lc = [] \/ lc = [cutform e o p]).
Proof.
  intros e o p Ho He Hoo. rewrite with_cut_cuts. destruct (hi (fst o)).
  - exists [cut_now e o]. split; [reflexivity|right]. rewrite (cut_now_form e o p) by assumption. reflexivity.
  - exists []. split; [reflexivity|left; reflexivity].
Qed.

Theorem merge2_post : forall f eA eB u, Einv eA -> Einv eB -> (length (snd eA) + length (snd eB) < f)%nat ->
  exists eA' eB', merge_loop f [eA; eB] u = [eA'; eB'] /\ PostZ eA eB eA' /\ PostZ eB eA eB'.
Proof.
  induction f as [|f IH]; intros eA eB u HA HB Hlen; [lia|].
  rewrite merge2_step.
  destruct eA as [bA rA] eqn:EeA. destruct eB as [bB rB] eqn:EeB. rewrite <- EeA, <- EeB in *.
  assert (HsA : snd eA = rA) by (rewrite EeA; reflexivity). assert (HsB : snd eB = rB) by (rewrite EeB; reflexivity).
  (* the three kinds of iteration *)
  assert (StepA : forall pa sa ta, rA = (pa, sa) :: ta -> Forall (fun l => fst l < pa) rB ->
            exists eA' eB', stepA f eA eB u = [eA'; eB'] /\ PostZ eA eB eA' /\ PostZ eB eA eB').
  { intros pa sa ta ErA HltB. rewrite ErA in HsA.
    pose proof (desc_le_head _ _ ltac:(rewrite <- HsA; apply (ei_desc _ HA))) as HleA. rewrite <- HsA in HleA.
    pose proof (lt_le_all _ _ HltB) as HleB. rewrite <- HsB in HleB, HltB.
    unfold stepA. destruct (match u with Some u0 => Nat.eqb u0 0 | None => false end).
    - destruct (IH (advance_one eA) eB u (Einv_advance _ HA) HB) as (eA' & eB' & E & PA & PB).
      { pose proof (adv_len eA). rewrite HsA in *. cbn [length] in *. lia. }
      exists eA', eB'. split; [exact E|]. split.
      + eapply (post_consumed eA eB eA eB eA' pa sa ta []); try eassumption.
        * apply numeq_refl. * rewrite app_nil_r. reflexivity. * left. reflexivity. * apply other_ok_numeq, numeq_refl.
      + eapply (post_kept eB eA eB (advance_one eA) eB' pa); try eassumption.
        * apply numeq_refl. * reflexivity. * eapply other_ok_adv; [apply numeq_refl|assumption|eassumption|lia].
    - destruct (IH (advance_one (with_cut eA eB)) (with_blk eB) (Some 0%nat)
                  (Einv_advance _ (Einv_with_cut _ _ HA)) (Einv_with_blk _ HB)) as (eA' & eB' & E & PA & PB).
      { pose proof (adv_len (with_cut eA eB)). rewrite with_cut_rem, with_blk_rem in *. rewrite HsA in *. cbn [length] in *. lia. }
      exists eA', eB'. split; [exact E|]. split.
      + destruct (with_cut_lc eA eB pa HB HleA HleB) as (lc & Hlc1 & Hlc2).
        eapply (post_consumed eA eB (with_cut eA eB) (with_blk eB) eA' pa sa ta lc); try eassumption.
        * apply numeq_with_cut. * apply other_ok_numeq, numeq_with_blk.
      + eapply (post_kept eB eA (with_blk eB) (advance_one (with_cut eA eB)) eB' pa); try eassumption.
        * apply numeq_with_blk. * apply with_blk_cuts.
        * eapply other_ok_adv; [apply numeq_with_cut|assumption|eassumption|lia]. }
  assert (StepB : forall pb sb tb, rB = (pb, sb) :: tb -> Forall (fun l => fst l < pb) rA ->
            exists eA' eB', stepB f eA eB u = [eA'; eB'] /\ PostZ eA eB eA' /\ PostZ eB eA eB').
  { intros pb sb tb ErB HltA. rewrite ErB in HsB.
    pose proof (desc_le_head _ _ ltac:(rewrite <- HsB; apply (ei_desc _ HB))) as HleB. rewrite <- HsB in HleB.
    pose proof (lt_le_all _ _ HltA) as HleA. rewrite <- HsA in HleA, HltA.
    unfold stepB. destruct (match u with Some u0 => Nat.eqb u0 1 | None => false end).
    - destruct (IH eA (advance_one eB) u HA (Einv_advance _ HB)) as (eA' & eB' & E & PA & PB).
      { pose proof (adv_len eB). rewrite HsB in *. cbn [length] in *. lia. }
      exists eA', eB'. split; [exact E|]. split.
      + eapply (post_kept eA eB eA (advance_one eB) eA' pb); try eassumption.
        * apply numeq_refl. * reflexivity. * eapply other_ok_adv; [apply numeq_refl|assumption|eassumption|lia].
      + eapply (post_consumed eB eA eB eA eB' pb sb tb []); try eassumption.
        * apply numeq_refl. * rewrite app_nil_r. reflexivity. * left. reflexivity. * apply other_ok_numeq, numeq_refl.
    - destruct (IH (with_blk eA) (advance_one (with_cut eB eA)) (Some 1%nat)
                  (Einv_with_blk _ HA) (Einv_advance _ (Einv_with_cut _ _ HB))) as (eA' & eB' & E & PA & PB).
      { pose proof (adv_len (with_cut eB eA)). rewrite with_cut_rem, with_blk_rem in *. rewrite HsB in *. cbn [length] in *. lia. }
      exists eA', eB'. split; [exact E|]. split.
      + eapply (post_kept eA eB (with_blk eA) (advance_one (with_cut eB eA)) eA' pb); try eassumption.
        * apply numeq_with_blk. * apply with_blk_cuts.
        * eapply other_ok_adv; [apply numeq_with_cut|assumption|eassumption|lia].
      + destruct (with_cut_lc eB eA pb HA HleB HleA) as (lc & Hlc1 & Hlc2).
        eapply (post_consumed eB eA (with_cut eB eA) (with_blk eA) eB' pb sb tb lc); try eassumption.
        * apply numeq_with_cut. * apply other_ok_numeq, numeq_with_blk. }
  assert (StepT : forall p sa ta sb tb, rA = (p, sa) :: ta -> rB = (p, sb) :: tb ->
            exists eA' eB', stepT f eA eB = [eA'; eB'] /\ PostZ eA eB eA' /\ PostZ eB eA eB').
  { intros p sa ta sb tb ErA ErB. rewrite ErA in HsA. rewrite ErB in HsB.
    pose proof (desc_le_head _ _ ltac:(rewrite <- HsA; apply (ei_desc _ HA))) as HleA. rewrite <- HsA in HleA.
    pose proof (desc_le_head _ _ ltac:(rewrite <- HsB; apply (ei_desc _ HB))) as HleB. rewrite <- HsB in HleB.
    cbn [fst] in HleA, HleB.
    set (dA := with_blk (with_cut eA eB)). set (dB := with_cut (with_blk eB) (with_cut eA eB)).
    assert (NA : numeq eA dA) by (eapply numeq_trans; [apply numeq_with_cut|apply numeq_with_blk]).
    assert (NB : numeq eB dB) by (eapply numeq_trans; [apply numeq_with_blk|apply numeq_with_cut]).
    unfold stepT. fold dA dB.
    destruct (IH (advance_one dA) (advance_one dB) None
                (Einv_advance _ (numeq_Einv _ _ NA HA)) (Einv_advance _ (numeq_Einv _ _ NB HB))) as (eA' & eB' & E & PA & PB).
    { pose proof (adv_len dA). pose proof (adv_len dB).
      destruct NA as (_ & _ & _ & _ & NA5). destruct NB as (_ & _ & _ & _ & NB5). rewrite NA5, NB5 in *.
      rewrite HsA, HsB in *. cbn [length] in *. lia. }
    exists eA', eB'. split; [exact E|]. split.
    - destruct (with_cut_lc eA eB p HB HleA HleB) as (lc & Hlc1 & Hlc2).
      eapply (post_consumed eA eB dA (advance_one dB) eA' p sa ta lc); try eassumption.
      + unfold dA. rewrite with_blk_cuts. assumption.
      + eapply other_ok_adv; [exact NB|assumption|eassumption|lia].
    - assert (Hc : exists lc, b_cuts (fst dB) = b_cuts (fst eB) ++ lc /\ (lc = [] \/ lc = [cutform eB eA p])).
      { unfold dB. rewrite with_cut_cuts, with_blk_cuts, with_cut_hi.
        rewrite (cut_now_numeq eB eA (with_blk eB) (with_cut eA eB) (numeq_with_blk _) (numeq_with_cut _ _)).
        destruct (hi (fst eA)).
        - exists [cut_now eB eA]. split; [reflexivity|right]. rewrite (cut_now_form eB eA p) by assumption. reflexivity.
        - exists []. split; [reflexivity|left; reflexivity]. }
      destruct Hc as (lc & Hlc1 & Hlc2).
      eapply (post_consumed eB eA dB (advance_one dA) eB' p sb tb lc); try eassumption.
      eapply other_ok_adv; [exact NA|assumption|eassumption|lia]. }
  (* dispatch on the heads *)
  unfold head_prio. rewrite HsA, HsB.
  destruct rA as [|[pa sa] ta]; destruct rB as [|[pb sb] tb].
  - exists eA, eB. split; [reflexivity|]. split; apply PostZ_done; assumption.
  - apply (StepB pb sb tb eq_refl). constructor.
  - apply (StepA pa sa ta eq_refl). constructor.
  - pose proof (desc_le_head _ _ ltac:(rewrite <- HsA; apply (ei_desc _ HA))) as HleA.
    pose proof (desc_le_head _ _ ltac:(rewrite <- HsB; apply (ei_desc _ HB))) as HleB. cbn [fst] in HleA, HleB.
    destruct (N.ltb_spec pb pa) as [H1|H1]; [|destruct (N.ltb_spec pa pb) as [H2|H2]].
    + apply (StepA pa sa ta eq_refl). eapply Forall_impl; [|exact HleB]. cbv beta. intros; lia.
    + apply (StepB pb sb tb eq_refl). eapply Forall_impl; [|exact HleA]. cbv beta. intros; lia.
    + assert (pa = pb) by lia. subst pb. apply (StepT pa sa ta sb tb eq_refl eq_refl).
Qed.

