(** C15, exact class with interleaved levels: the merge loop of [create_task_batches] on TWO request
    classes.  One iteration in closed form ([merge2_step]), the entry invariant, and what the loop
    produces: final sizes / limit flags ([Fin]), every cut is the cut of one of the class' own levels
    ([cutform], soundness), cuts only grow, their sizes ascend and their number is at most the number of
    levels. *)
From HQ Require Import Base.Prelude Gen.Consts Sched.Model Sched.ProofsExact.
Require Import ZifyBool ZifyN ZifyNat.
From Coq Require Import Sorting.Sorted.
Open Scope N_scope.
Local Arguments N.add : simpl never. Local Arguments N.sub : simpl never. Local Arguments N.mul : simpl never.
Local Arguments N.eqb : simpl never. Local Arguments N.ltb : simpl never. Local Arguments N.leb : simpl never.
Local Arguments N.of_nat : simpl never. Local Arguments N.to_nat : simpl never. Local Arguments N.div : simpl never.
Local Arguments N.min : simpl never. Local Arguments N.max : simpl never.

Definition ent := (batch * list (N * N))%type.

(** the other class counts as "higher" once it holds tasks or hit its limit *)
Definition hi (b : batch) : bool := (0 <? b_size b) || b_lr b.
Definition blocker_of (b : batch) : N * option N := (b_rq b, if b_lr b then None else Some (b_size b)).
Definition cut_now (eZ eO : ent) : cut :=
  {| c_size := b_size (fst eZ); c_blockers := [blocker_of (fst eO)] |}.
Definition with_cut (eZ eO : ent) : ent :=
  if hi (fst eO) then (push_cut (fst eZ) (cut_now eZ eO), snd eZ) else eZ.
Definition with_blk (eO : ent) : ent := if hi (fst eO) then (set_blk (fst eO), snd eO) else eO.

Lemma add_cut_0 : forall eA eB : ent, add_cut [eA; eB] 0 = [with_cut eA eB; with_blk eB].
Proof.
  intros [bA rA] [bB rB]. unfold add_cut, with_cut, with_blk, higher_priorities, hi, cut_now, blocker_of.
  cbn [mapi_from concat fst snd is_higher Nat.eqb negb andb nth_error app].
  destruct ((0 <? b_size bB) || b_lr bB); cbn [app map_at fst snd]; reflexivity.
Qed.

Lemma add_cut_1 : forall eA eB : ent, add_cut [eA; eB] 1 = [with_blk eA; with_cut eB eA].
Proof.
  intros [bA rA] [bB rB]. unfold add_cut, with_cut, with_blk, higher_priorities, hi, cut_now, blocker_of.
  cbn [mapi_from concat fst snd is_higher Nat.eqb negb andb nth_error app].
  destruct ((0 <? b_size bA) || b_lr bA); cbn [app map_at fst snd]; reflexivity.
Qed.

(** ** projections *)
Lemma with_cut_size : forall e o, b_size (fst (with_cut e o)) = b_size (fst e).
Proof. intros e o. unfold with_cut. destruct (hi (fst o)); reflexivity. Qed.
Lemma with_cut_lr : forall e o, b_lr (fst (with_cut e o)) = b_lr (fst e).
Proof. intros e o. unfold with_cut. destruct (hi (fst o)); reflexivity. Qed.
Lemma with_cut_limit : forall e o, b_limit (fst (with_cut e o)) = b_limit (fst e).
Proof. intros e o. unfold with_cut. destruct (hi (fst o)); reflexivity. Qed.
Lemma with_cut_rq : forall e o, b_rq (fst (with_cut e o)) = b_rq (fst e).
Proof. intros e o. unfold with_cut. destruct (hi (fst o)); reflexivity. Qed.
Lemma with_cut_rem : forall e o, snd (with_cut e o) = snd e.
Proof. intros e o. unfold with_cut. destruct (hi (fst o)); reflexivity. Qed.
Lemma with_cut_cuts : forall e o, b_cuts (fst (with_cut e o)) = b_cuts (fst e) ++ (if hi (fst o) then [cut_now e o] else []).
Proof. intros e o. unfold with_cut. destruct (hi (fst o)); cbn [fst push_cut b_cuts]; [reflexivity|]. rewrite app_nil_r. reflexivity. Qed.

Lemma with_blk_size : forall e, b_size (fst (with_blk e)) = b_size (fst e).
Proof. intros e. unfold with_blk. destruct (hi (fst e)); reflexivity. Qed.
Lemma with_blk_lr : forall e, b_lr (fst (with_blk e)) = b_lr (fst e).
Proof. intros e. unfold with_blk. destruct (hi (fst e)); reflexivity. Qed.
Lemma with_blk_limit : forall e, b_limit (fst (with_blk e)) = b_limit (fst e).
Proof. intros e. unfold with_blk. destruct (hi (fst e)); reflexivity. Qed.
Lemma with_blk_rq : forall e, b_rq (fst (with_blk e)) = b_rq (fst e).
Proof. intros e. unfold with_blk. destruct (hi (fst e)); reflexivity. Qed.
Lemma with_blk_rem : forall e, snd (with_blk e) = snd e.
Proof. intros e. unfold with_blk. destruct (hi (fst e)); reflexivity. Qed.
Lemma with_blk_cuts : forall e, b_cuts (fst (with_blk e)) = b_cuts (fst e).
Proof. intros e. unfold with_blk. destruct (hi (fst e)); reflexivity. Qed.

Lemma with_blk_hi : forall e, hi (fst (with_blk e)) = hi (fst e).
Proof. intros e. unfold hi. rewrite with_blk_size, with_blk_lr. reflexivity. Qed.
Lemma with_cut_hi : forall e o, hi (fst (with_cut e o)) = hi (fst e).
Proof. intros e o. unfold hi. rewrite with_cut_size, with_cut_lr. reflexivity. Qed.
Lemma with_blk_blocker : forall e, blocker_of (fst (with_blk e)) = blocker_of (fst e).
Proof. intros e. unfold blocker_of. rewrite with_blk_size, with_blk_lr, with_blk_rq. reflexivity. Qed.
Lemma with_cut_blocker : forall e o, blocker_of (fst (with_cut e o)) = blocker_of (fst e).
Proof. intros e o. unfold blocker_of. rewrite with_cut_size, with_cut_lr, with_cut_rq. reflexivity. Qed.

(** [advance_one] on a non-empty entry *)
Definition adv_hit (e : ent) (sz : N) : bool := b_limit (fst e) <? b_size (fst e) + sz.

Lemma advance_cons : forall b p sz t,
  advance_one (b, (p, sz) :: t) =
  if b_limit b <? b_size b + sz then (set_size b (b_limit b) true, []) else (set_size b (b_size b + sz) (b_lr b), t).
Proof. reflexivity. Qed.

Lemma advance_rq : forall e, b_rq (fst (advance_one e)) = b_rq (fst e).
Proof. intros [b [|[p sz] t]]; [reflexivity|]. rewrite advance_cons. destruct (_ <? _); reflexivity. Qed.
Lemma advance_limit : forall e, b_limit (fst (advance_one e)) = b_limit (fst e).
Proof. intros [b [|[p sz] t]]; [reflexivity|]. rewrite advance_cons. destruct (_ <? _); reflexivity. Qed.
Lemma advance_cuts : forall e, b_cuts (fst (advance_one e)) = b_cuts (fst e).
Proof. intros [b [|[p sz] t]]; [reflexivity|]. rewrite advance_cons. destruct (_ <? _); reflexivity. Qed.

(** ** one iteration on two entries *)
Definition stepA (f : nat) (eA eB : ent) (u : option nat) : bstate :=
  if (match u with Some u0 => Nat.eqb u0 0 | None => false end)
  then merge_loop f [advance_one eA; eB] u
  else merge_loop f [advance_one (with_cut eA eB); with_blk eB] (Some 0%nat).
Definition stepB (f : nat) (eA eB : ent) (u : option nat) : bstate :=
  if (match u with Some u0 => Nat.eqb u0 1 | None => false end)
  then merge_loop f [eA; advance_one eB] u
  else merge_loop f [with_blk eA; advance_one (with_cut eB eA)] (Some 1%nat).
Definition stepT (f : nat) (eA eB : ent) : bstate :=
  merge_loop f [advance_one (with_blk (with_cut eA eB)); advance_one (with_cut (with_blk eB) (with_cut eA eB))] None.

Lemma merge2_step : forall f (eA eB : ent) u,
  merge_loop (S f) [eA; eB] u =
  match head_prio eA, head_prio eB with
  | None, None => [eA; eB]
  | Some _, None => stepA f eA eB u
  | None, Some _ => stepB f eA eB u
  | Some pa, Some pb => if pb <? pa then stepA f eA eB u else if pa <? pb then stepB f eA eB u else stepT f eA eB
  end.
Proof.
  intros f eA eB u. rewrite merge_loop_S. unfold highest_prio. cbn [fold_right found_from].
  destruct (head_prio eA) as [pa|] eqn:EA; destruct (head_prio eB) as [pb|] eqn:EB.
  - destruct (N.ltb_spec pb pa) as [H1|H1]; [|destruct (N.ltb_spec pa pb) as [H2|H2]].
    + replace (N.max pa (N.max pb 0)) with pa by lia. rewrite N.eqb_refl.
      destruct (N.eqb_spec pb pa); [lia|]. unfold stepA. rewrite add_cut_0. reflexivity.
    + replace (N.max pa (N.max pb 0)) with pb by lia. rewrite N.eqb_refl.
      destruct (N.eqb_spec pa pb); [lia|]. unfold stepB. rewrite add_cut_1. reflexivity.
    + assert (pa = pb) by lia. subst pb. replace (N.max pa (N.max pa 0)) with pa by lia. rewrite N.eqb_refl.
      unfold stepT. cbn [fold_left]. rewrite add_cut_0, add_cut_1. reflexivity.
  - replace (N.max pa 0) with pa by lia. rewrite N.eqb_refl. unfold stepA. rewrite add_cut_0. reflexivity.
  - replace (N.max pb 0) with pb by lia. rewrite N.eqb_refl. unfold stepB. rewrite add_cut_1. reflexivity.
  - reflexivity.
Qed.
